(* Line-oriented driver around the extracted model.
   stdin: one case per line "<op> <args...>"; stdout: one result line per case. *)
module ZZ = Z
open Model

let z_of_string s = ZZ.of_string s
let zs = ZZ.to_string

let split_ws s = List.filter (fun x -> x <> "") (String.split_on_char ' ' s)

let handle toks =
  match toks with
  | ["exec"; n; m] | ["execd"; n; m] | ["execs"; n; m] ->
      let rs = execute_ranges (z_of_string n) (z_of_string m) in
      "r" ^ String.concat "" (List.map (fun (s, e) -> " " ^ zs s ^ "-" ^ zs e) rs)
  | op :: _ -> "ERR unknown op " ^ op
  | [] -> ""

let () =
  try
    while true do
      let line = input_line stdin in
      let toks = split_ws line in
      if toks <> [] then begin
        let out = try handle toks with e -> "EXC " ^ Printexc.to_string e in
        print_string out; print_char '\n'
      end
    done
  with End_of_file -> ()
