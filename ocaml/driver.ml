(* Line-oriented driver around the extracted model.
   stdin: one case per line "<op> <args...>"; stdout: one result line per case.
   The same protocol is implemented by harness/ (Go) on top of /repo. *)
module ZZ = Z
open Model

(* ---------- helpers ---------- *)
let split_on c s = String.split_on_char c s
let split_ws s = List.filter (fun x -> x <> "") (split_on ' ' s)
let z_of_dec s = ZZ.of_string s
let z_of_hex s = if s = "" || s = "-" then ZZ.zero else ZZ.of_string_base 16 s
let zhex (x : ZZ.t) = ZZ.format "%x" x
let zdec = ZZ.to_string

let rec nat_of_int n = if n <= 0 then O else S (nat_of_int (n - 1))
let int_of_nat n = let rec go acc = function O -> acc | S m -> go (acc + 1) m in go 0 n

let bytes_of_hex s : ZZ.t list =
  if s = "-" || s = "" then [] else begin
    let n = String.length s / 2 in
    List.init n (fun i -> ZZ.of_int (int_of_string ("0x" ^ String.sub s (2 * i) 2)))
  end
let hex_of_bytes (l : ZZ.t list) : string =
  if l = [] then "-" else String.concat "" (List.map (fun b -> Printf.sprintf "%02x" (ZZ.to_int b)) l)

let r_mod = ZZ.of_string "13108968793781547619861935127046491459309155893440570251786403306729687672801"
let mkfr (x : ZZ.t) : fr = Model.fr0 x
let mkfp (x : ZZ.t) : fp = Model.fp0 x
let frhex (x : fr) = zhex x
let fphex (x : fp) = zhex x

(* point token "X.Y.Z" (hex) *)
let point_of_tok s : element =
  match split_on '.' s with
  | [x; y; z] -> ((mkfp (z_of_hex x), mkfp (z_of_hex y)), mkfp (z_of_hex z))
  | _ -> failwith ("bad point token " ^ s)
let tok_of_point (((x, y), z) : element) = fphex x ^ "." ^ fphex y ^ "." ^ fphex z

(* ---------- CRS (computed by the model, cached on disk per build) ---------- *)
let crs : element list Lazy.t = lazy (
  let path = try Sys.getenv "VERIF_CRS_CACHE" with Not_found -> "" in
  let load () =
    let ic = open_in path in
    let rec go acc = match input_line ic with
      | l -> go (point_of_tok (String.trim l) :: acc)
      | exception End_of_file -> close_in ic; List.rev acc in
    go [] in
  if path <> "" && Sys.file_exists path then load ()
  else begin
    let pts = gen_points (nat_of_int 6000) (nat_of_int 256) ZZ.zero in
    if path <> "" then begin
      let tmp = path ^ "." ^ string_of_int (Unix.getpid ()) in
      let oc = open_out tmp in
      List.iter (fun p -> output_string oc (tok_of_point p ^ "\n")) pts;
      close_out oc; Sys.rename tmp path
    end;
    pts
  end)
let cfg = lazy (c_config (Lazy.force crs))
let pc_tables = lazy (Array.of_list (List.mapi (fun i p -> lazy (c_pc_table (nat_of_int i) p)) (Lazy.force crs)))

(* ---------- polynomial / vector specs (shared with the Go harness) ---------- *)
let prng_k = ZZ.of_string "0x9e3779b97f4a7c15f39cc0605cedc835"
let prng seed j =
  let b = ZZ.add (ZZ.add seed (ZZ.of_int j)) ZZ.one in
  ZZ.erem (ZZ.add (ZZ.mul (ZZ.mul (ZZ.mul b b) b) prng_k) (ZZ.of_int j)) r_mod

let poly_of_spec (n : int) (s : string) : fr list =
  match split_on ':' s with
  | ["z"] -> List.init n (fun _ -> mkfr ZZ.zero)
  | ["c"; v] -> let v = mkfr (z_of_hex v) in List.init n (fun _ -> v)
  | ["u"; i; v] -> let i = int_of_string i and v = mkfr (z_of_hex v) in
      List.init n (fun j -> if j = i then v else mkfr ZZ.zero)
  | ["s"; kv] ->
      let tbl = Hashtbl.create 8 in
      List.iter (fun e -> match split_on '=' e with
        | [i; v] -> Hashtbl.replace tbl (int_of_string i) (mkfr (z_of_hex v))
        | _ -> failwith "bad sparse") (split_on ',' kv);
      List.init n (fun j -> try Hashtbl.find tbl j with Not_found -> mkfr ZZ.zero)
  | ["r"; seed] -> let seed = z_of_hex seed in List.init n (fun j -> mkfr (prng seed j))
  | ["x"; vs] -> if vs = "-" || vs = "" then [] else List.map (fun v -> mkfr (z_of_hex v)) (split_on ',' vs)
  | _ -> failwith ("bad poly spec " ^ s)

(* ---------- families ---------- *)

(* transcript op tokens *)
let top_of_tok s : top =
  match split_on ':' s with
  | ["D"; l] -> TDomainSep (bytes_of_hex l)
  | ["M"; l; m] -> TMessage (bytes_of_hex m, bytes_of_hex l)
  | ["S"; l; v] -> TScalar (z_of_hex v, bytes_of_hex l)
  | ["P"; l; p] -> TPoint (bw_bytes (point_of_tok p), bytes_of_hex l)
  | ["C"; l] -> TChallenge (bytes_of_hex l)
  | _ -> failwith ("bad transcript op " ^ s)

let dec_result (r : (element, dec_err) sum) =
  match r with
  | Inl p -> "OK " ^ hex_of_bytes (bw_bytes p) ^ " " ^ hex_of_bytes (bw_bytes_uncompressed p)
  | Inr _ -> "ERR"

(* group scripts *)
let ints_of s = if s = "-" || s = "" then [] else List.map int_of_string (split_on ',' s)
let frs_of s = if s = "-" || s = "" then [] else List.map (fun v -> mkfr (z_of_hex v)) (split_on ',' s)

let run_gs (toks : string list) : string =
  let regs : element array ref = ref [||] in
  let push p = regs := Array.append !regs [| p |] in
  let get i = !regs.(i) in
  let obs = Buffer.create 256 in
  let err k = Buffer.add_string obs (Printf.sprintf " !E%d" k) in
  List.iteri (fun k tok ->
    match split_on ':' tok with
    | ["raw"; p] -> push (point_of_tok p)
    | ["id"] -> push bw_identity
    | ["gen"] -> push bw_generator
    | ["crs"; i] -> push (List.nth (Lazy.force crs) (int_of_string i))
    | [("add" | "addA" | "addB"); i; j] -> push (bw_add (get (int_of_string i)) (get (int_of_string j)))
    | [("sub" | "subA" | "subB"); i; j] -> push (bw_sub (get (int_of_string i)) (get (int_of_string j)))
    | [("dbl" | "dblA"); i] -> push (bw_double (get (int_of_string i)))
    | [("neg" | "negA"); i] -> push (bw_neg (get (int_of_string i)))
    | ["set"; i] -> push (get (int_of_string i))
    | ["mix"; i; j] ->
        let ((x, y), z) = get (int_of_string j) in
        let zi = zq_inv Model.p_mod z in ignore zi;
        let a = (zq_mul Model.p_mod x (zq_inv Model.p_mod z), zq_mul Model.p_mod y (zq_inv Model.p_mod z)) in
        push (bw_add_mixed (get (int_of_string i)) a)
    | [("smul" | "smulA"); i; s] -> push (bw_smul (mkfr (z_of_hex s)) (get (int_of_string i)))
    | ["dec"; h] -> (match bw_set_bytes (bytes_of_hex h) false with
                     | Inl p -> push p | Inr _ -> err k; push bw_identity)
    | ["decu"; h] -> (match bw_set_bytes_uncompressed true (bytes_of_hex h) false with
                      | Inl p -> push p | Inr _ -> err k; push bw_identity)
    | ["dect"; h] -> (match bw_set_bytes_uncompressed true (bytes_of_hex h) true with
                      | Inl p -> push p | Inr _ -> err k; push bw_identity)
    | ["norm"; i] -> (match bw_normalize (get (int_of_string i)) with
                      | Some p -> push p | None -> err k; push (get (int_of_string i)))
    | ["bn"; is] ->
        (* BatchNormalize: the Coq model function over the whole store *)
        (match bw_batch_normalize (Array.to_list !regs) (List.map nat_of_int (ints_of is)) with
         | None -> err k
         | Some st -> regs := Array.of_list st)
    | [("msm" | "ms"); _; _; is; ss] | ["msx"; _; _; is; ss] ->
        push (c_msm (List.map get (ints_of is)) (frs_of ss))
    | ["pcsm"; is; ss] ->
        push (c_msm (List.map get (ints_of is)) (frs_of ss))
    | ["msmp"; kv] ->
        let n = 256 in
        let v = poly_of_spec n ("s:" ^ kv) in
        push (c_commit (Lazy.force crs) v)
    | ["z1"; i] -> let ((_, _), z) = get (int_of_string i) in
        Buffer.add_string obs (Printf.sprintf " z1[%s]=%b" i (ZZ.equal z ZZ.one))
    | ["oc"; i] -> Buffer.add_string obs (Printf.sprintf " oc[%s]=%b" i (bw_is_on_curve (get (int_of_string i))))
    | _ -> failwith ("bad gs op " ^ tok)) toks;
  let rs = Array.to_list !regs in
  let b = Buffer.create 1024 in
  Buffer.add_string b "B";
  List.iter (fun p -> Buffer.add_string b (" " ^ hex_of_bytes (bw_bytes p))) rs;
  Buffer.add_string b " | EQ";
  List.iter (fun p ->
    Buffer.add_string b " ";
    List.iter (fun q -> Buffer.add_string b (if bw_equal p q then "1" else "0")) rs) rs;
  Buffer.add_string b " | MAP";
  List.iter (fun p -> Buffer.add_string b (" " ^ frhex (bw_map_to_scalar p))) rs;
  Buffer.add_string b " | BMAP";
  List.iter (fun s -> Buffer.add_string b (" " ^ frhex s)) (bw_batch_map_to_scalar rs);
  Buffer.add_string b " | EB";
  List.iter (fun s -> Buffer.add_string b (" " ^ hex_of_bytes s)) (bw_elements_to_bytes rs);
  Buffer.add_string b " | UB";
  List.iter (fun s -> Buffer.add_string b (" " ^ hex_of_bytes s)) (bw_batch_to_bytes_uncompressed rs);
  Buffer.add_string b " | US";
  List.iter (fun p -> Buffer.add_string b (" " ^ hex_of_bytes (bw_bytes_uncompressed p))) rs;
  Buffer.add_string b " | UT";   (* uncompressed (trusted) round trip, re-encoded compressed *)
  List.iter (fun p ->
    match bw_set_bytes_uncompressed true (bw_bytes_uncompressed p) true with
    | Inl q -> Buffer.add_string b (" " ^ hex_of_bytes (bw_bytes q) ^ (if bw_equal p q then "=" else "#"))
    | Inr _ -> Buffer.add_string b " ERR") rs;
  Buffer.add_string b " | DEC";  (* SetBytes(Bytes(p)) *)
  List.iter (fun p ->
    match bw_set_bytes (bw_bytes p) false with
    | Inl q -> Buffer.add_string b (if bw_equal p q then " =" else " #")
    | Inr _ -> Buffer.add_string b " ERR") rs;
  Buffer.add_string b " | OBS";
  Buffer.add_buffer b obs;
  Buffer.add_string b " | B2";   (* Bytes again, after every batch helper has run: unchanged *)
  List.iter (fun p -> Buffer.add_string b (" " ^ hex_of_bytes (bw_bytes p))) rs;
  Buffer.contents b

(* reader spec "plan=3,5;eofd=1;fail=100" *)
let reader_of_spec spec data : reader =
  let plan = ref [] and eofd = ref false and fail = ref None in
  if spec <> "-" then
    List.iter (fun kv -> match split_on '=' kv with
      | ["plan"; v] -> plan := List.map (fun x -> ZZ.of_int x) (ints_of v)
      | ["eofd"; v] -> eofd := (v = "1")
      | ["fail"; v] -> fail := Some (ZZ.of_int (int_of_string v))
      | _ -> failwith "bad reader spec") (split_on ';' spec);
  { r_data = data; r_plan = !plan; r_eof_with_data = !eofd; r_fail_at = !fail; r_pos = ZZ.zero }

let strict_probe = (try Sys.getenv "VERIF_MODEL_PROBE" with Not_found -> "strict") <> "lax"

(* multiproof statements *)
let parse_proof (h : string) : (fr, element) multiproof option =
  (* 576 bytes; parsed with the model's own reader (plain) *)
  match mp_read true (reader_of_spec "-" (bytes_of_hex h)) with
  | Inl (d, ip) -> Some { mpIPA = { pL = ip.ibL; pR = ip.ibR; pA = ip.ibA }; mpD = d }
  | Inr _ -> None

let proof_bytes (p : (fr, element) multiproof) : string =
  let chunks = mp_write_chunks p.mpD { ibL = p.mpIPA.pL; ibR = p.mpIPA.pR; ibA = p.mpIPA.pA } in
  hex_of_bytes (List.concat chunks)
let ipa_proof_bytes (p : (fr, element) ipa_proof) : string =
  hex_of_bytes (List.concat (ipa_write_chunks { ibL = p.pL; ibR = p.pR; ibA = p.pA }))

(* commitment representation modifier: n | s<hex l> | f | sf<hex l> *)
let rerepr (m : string) (((x, y), z) : element) : element =
  let pm = Model.p_mod in
  let scale l ((x, y), z) = let l = mkfp (z_of_hex l) in
    ((zq_mul pm x l, zq_mul pm y l), zq_mul pm z l) in
  let flip ((x, y), z) = ((zq_neg pm x, zq_neg pm y), z) in
  let norm p = match bw_normalize p with Some q -> q | None -> p in
  let p = ((x, y), z) in
  if m = "n" then norm p
  else if m = "k" then p
  else if m = "f" then flip (norm p)
  else if String.length m > 2 && String.sub m 0 2 = "sf" then flip (scale (String.sub m 2 (String.length m - 2)) (norm p))
  else if String.length m > 1 && m.[0] = 's' then scale (String.sub m 1 (String.length m - 1)) (norm p)
  else if String.length m > 1 && m.[0] = 'p' then p   (* pointer sharing: no meaning in the functional model *)
  else failwith ("bad repr " ^ m)

(* Route V: integer-only model functions printed as a flat list of decimals, to be compared
   with the kernel's own evaluation (vm_compute) of the same Gallina terms *)
let zlist l = String.concat " " (List.map zdec l)
let route_v = function
  | ["ranges"; n; m] -> zlist (List.concat_map (fun (a, b) -> [a; b]) (execute_ranges (z_of_dec n) (z_of_dec m)))
  | ["pcdigits"; w; s] -> let (ds, c) = pc_digits (z_of_dec w) (z_of_dec s) in zlist (ds @ [c])
  | ["sha"; h] -> zlist (sha256 (bytes_of_hex h))
  | ["leenc"; v] -> zlist (fr_bytes_le (mkfr (z_of_dec v)) @ fr_bytes (mkfr (z_of_dec v)))
  | ["lec"; h] -> (match fst (fr_set_bytes_le_canonical (bytes_of_hex h)) with Some x -> zlist [ZZ.one; x] | None -> zlist [ZZ.zero])
  | ["mul"; a; b] ->
      let (((r0, r1), r2), r3) = mul_generic (limbs_of (z_of_dec a)) (limbs_of (z_of_dec b)) in zlist [r0; r1; r2; r3]
  | ["part"; c; s] -> let (ps, k) = partition_scalars (z_of_dec c) [z_of_dec s] in zlist (ps @ [k])
  | ["tr"; lbl; sc] -> zlist (c_transcript_run (bytes_of_hex lbl) [TScalar (z_of_dec sc, [ZZ.of_int 115]); TChallenge [ZZ.of_int 99]])
  | ["sqrt"; v] -> (match sqrt_precomp (mkfp (z_of_dec v)) with Some y -> zlist [ZZ.one; y] | None -> zlist [ZZ.zero])
  | ["bwadd"; a; b; c; d; e; f] ->
      let ((x, y), z) = bw_add ((mkfp (z_of_dec a), mkfp (z_of_dec b)), mkfp (z_of_dec c))
                               ((mkfp (z_of_dec d), mkfp (z_of_dec e)), mkfp (z_of_dec f)) in zlist [x; y; z]
  | ["bwbytes"; a; b; c] ->
      let p = ((mkfp (z_of_dec a), mkfp (z_of_dec b)), mkfp (z_of_dec c)) in zlist (bw_bytes p @ [bw_map_to_scalar p])
  | ["bweq"; a; b; c; d; e; f] ->
      zlist [if bw_equal ((mkfp (z_of_dec a), mkfp (z_of_dec b)), mkfp (z_of_dec c))
                         ((mkfp (z_of_dec d), mkfp (z_of_dec e)), mkfp (z_of_dec f)) then ZZ.one else ZZ.zero]
  | ["bwdec"; h] -> (match bw_set_bytes (bytes_of_hex h) false with
                     | Inl ((x, y), z) -> zlist [ZZ.one; x; y; z] | Inr _ -> zlist [ZZ.zero])
  | ["bwsmul"; s; a; b; c] ->
      zlist (bw_bytes (bw_smul (mkfr (z_of_dec s)) ((mkfp (z_of_dec a), mkfp (z_of_dec b)), mkfp (z_of_dec c))))
  | ["bwdbl"; a; b; c] ->
      let p = ((mkfp (z_of_dec a), mkfp (z_of_dec b)), mkfp (z_of_dec c)) in
      let ((x, y), z) = bw_double p in zlist ([x; y; z] @ [if bw_is_on_curve p then ZZ.one else ZZ.zero])
  | _ -> failwith "bad rv op"

let handle toks =
  match toks with
  | "rv" :: rest -> route_v rest
  | ["exec"; n; m] | ["execd"; n; m] | ["execs"; n; m] ->
      let rs = execute_ranges (z_of_dec n) (z_of_dec m) in
      "r" ^ String.concat "" (List.map (fun (s, e) -> " " ^ zdec s ^ "-" ^ zdec e) rs)
  | ["sha"; h] -> hex_of_bytes (sha256 (bytes_of_hex h))
  | "tr" :: label :: ops ->
      let cs = c_transcript_run (bytes_of_hex label) (List.map top_of_tok ops) in
      let cs' = c_transcript_spec_run (bytes_of_hex label) (List.map top_of_tok ops) in
      if cs <> cs' then "MODEL-INTERNAL transcript impl-level and spec-level differ"
      else "c" ^ String.concat "" (List.map (fun c -> " " ^ frhex c) cs)
  | ["frdec"; kind; h] ->
      let b = bytes_of_hex h in
      let show v buf v2 = v ^ " " ^ hex_of_bytes buf ^ " " ^ v2 in
      (match kind with
       | "be" -> let (v, b') = fr_set_bytes b in let (v2, _) = fr_set_bytes b' in show (frhex v) b' (frhex v2)
       | "le" -> let (v, b') = fr_set_bytes_le b in let (v2, _) = fr_set_bytes_le b' in show (frhex v) b' (frhex v2)
       | "lec" -> let (v, b') = fr_set_bytes_le_canonical b in let (v2, _) = fr_set_bytes_le_canonical b' in
           let s = function Some x -> frhex x | None -> "ERR" in show (s v) b' (s v2)
       | _ -> failwith "frdec kind")
  | ["frenc"; v] -> let s = mkfr (z_of_hex v) in
      hex_of_bytes (fr_bytes s) ^ " " ^ hex_of_bytes (fr_bytes_le s)
  | ["fpencle"; v] -> hex_of_bytes (fp_bytes_le (mkfp (z_of_hex v)))
  | ["dec"; kind; h] ->
      let b = bytes_of_hex h in
      (match kind with
       | "c" -> dec_result (bw_set_bytes b false)
       | "r" -> (match read_point (reader_of_spec "-" b) with
                 | Inl (p, _) -> dec_result (Inl p) | Inr _ -> "ERR")
       | "x" -> dec_result (bw_set_bytes b true)
       | "u" -> dec_result (bw_set_bytes_uncompressed true b false)
       | "t" -> dec_result (bw_set_bytes_uncompressed true b true)
       | _ -> failwith "dec kind")
  | "gs" :: ops -> run_gs ops
  | ["sqrt"; v] ->
      let x = mkfp (z_of_hex v) in
      (match sqrt_precomp x with None -> "NIL " ^ fphex x | Some y -> fphex y ^ " " ^ fphex x)
  | ["gpx"; v; b] ->
      (match get_point_from_x (mkfp (z_of_hex v)) (b = "1") with
       | None -> "NIL" | Some (x, y) -> fphex x ^ " " ^ fphex y)
  | ["commit"; spec] ->
      hex_of_bytes (bw_bytes (c_commit (Lazy.force crs) (poly_of_spec 256 spec)))
  | ["commitpc"; spec] ->
      (* algorithm-level commitment: the Coq model of the precomputed-table MSM; the tables of
         the points actually used are built lazily (the loop below is MSMPrecomp.MSM's loop) *)
      let tabs = Lazy.force pc_tables in
      let res = ref bw_identity in
      List.iteri (fun i s -> if i < Array.length tabs then res := c_pc_scalar_mul (Lazy.force tabs.(i)) s !res)
        (poly_of_spec 256 spec);
      hex_of_bytes (bw_bytes !res)
  | ["crs"; i] -> hex_of_bytes (bw_bytes (List.nth (Lazy.force crs) (int_of_string i)))
  | [("mprd" | "mprdu"); spec; h] ->
      (match mp_read strict_probe (reader_of_spec spec (bytes_of_hex h)) with
       | Inl (d, ip) -> "OK " ^ hex_of_bytes (List.concat (mp_write_chunks d ip))
       | Inr _ -> "ERR")
  | [("ipard" | "ipardu"); spec; h] ->
      (match ipa_read (reader_of_spec spec (bytes_of_hex h)) with
       | Inl (ip, _) -> "OK " ^ hex_of_bytes (List.concat (ipa_write_chunks ip))
       | Inr _ -> "ERR")
  | "frbig" :: h :: rest ->
      let v = z_of_hex h in
      let v = if rest = ["neg"] then ZZ.neg v else v in
      frhex (mkfr v)
  | ["ipawr2"; h1; h2] ->
      (match ipa_read (reader_of_spec "-" (bytes_of_hex h1)), ipa_read (reader_of_spec "-" (bytes_of_hex h2)) with
       | Inl (p1, _), Inl (p2, _) ->
           "OK " ^ hex_of_bytes (List.concat (ipa_write_chunks p1)) ^ " " ^ hex_of_bytes (List.concat (ipa_write_chunks p2))
       | _, _ -> "BADPROOF")
  | ["grp"; _; m] ->
      let m = int_of_string m in
      let pts = Lazy.force crs in
      let rec take k l = if k = 0 then [] else match l with [] -> [] | x :: r -> x :: take (k - 1) r in
      let sel = take m pts in
      string_of_int (List.length sel) ^ " " ^
      String.concat "" (List.map (fun p -> String.sub (hex_of_bytes (bw_bytes p)) 0 8) sel)
  | ["mpwr"; failat; h] ->
      (match mp_read true (reader_of_spec "-" (bytes_of_hex h)) with
       | Inl (d, ip) ->
           let fa = if failat = "-" then None else Some (nat_of_int (int_of_string failat)) in
           let (w, e) = write_all (mp_write_chunks d ip) fa [] in
           (if e then "ERR " else "OK ") ^ hex_of_bytes w
       | Inr _ -> "BADPROOF")
  | ["ipawr"; failat; h] ->
      (match ipa_read (reader_of_spec "-" (bytes_of_hex h)) with
       | Inl (ip, _) ->
           let fa = if failat = "-" then None else Some (nat_of_int (int_of_string failat)) in
           let (w, e) = write_all (ipa_write_chunks ip) fa [] in
           (if e then "ERR " else "OK ") ^ hex_of_bytes w
       | Inr _ -> "BADPROOF")
  (* multiproof creation: mpc <label> <nw> <arrival|-> (<repr> <z> <polyspec>)*  *)
  | "mpc" :: label :: nw :: arrival :: rest ->
      let rec triples = function
        | m :: z :: ps :: tl -> (m, int_of_string z, poly_of_spec 256 ps) :: triples tl
        | [] -> [] | _ -> failwith "mpc arity" in
      let ops = triples rest in
      let crs = Lazy.force crs in
      let nw = int_of_string nw in
      let arrival = if arrival = "-" then List.init nw (fun i -> i) else ints_of arrival in
      let cs = List.map (fun (m, _, f) -> rerepr m (c_commit crs f)) ops in
      let fs = List.map (fun (_, _, f) -> f) ops in
      let zs = List.map (fun (_, z, _) -> nat_of_int z) ops in
      let ys = List.map (fun (_, z, f) -> List.nth f z) ops in
      let t = t_new (bytes_of_hex label) in
      (match c_mp_create (nat_of_int nw) (List.map nat_of_int arrival) t crs cs fs zs with
       | Inr _ -> "ERR"
       | Inl (t', pr) ->
           let (_, ch) = c_challenge t' [ZZ.of_int 110] in
           (* the model verifier on the model proof (same objects verified twice on the Go side) *)
           let v = match c_mp_check (t_new (bytes_of_hex label)) (Lazy.force cfg) pr cs ys zs with
             | Some (_, true) -> "true,true" | Some (_, false) -> "false,false" | None -> "ERR,ERR" in
           "OK " ^ proof_bytes pr ^ " " ^ frhex ch
           ^ " C " ^ String.concat "," (List.map (fun c -> hex_of_bytes (bw_bytes c)) cs)
           ^ " Y " ^ String.concat "," (List.map frhex ys) ^ " V " ^ v)
  (* multiproof verification: mpv <label> <proofhex> (<C point tok> <z> <y hex>)*  *)
  | "mpv" :: label :: ph :: rest ->
      let rec triples = function
        | c :: z :: y :: tl -> (point_of_tok c, int_of_string z, mkfr (z_of_hex y)) :: triples tl
        | [] -> [] | _ -> failwith "mpv arity" in
      let ops = triples rest in
      (match parse_proof ph with
       | None -> "BADPROOF"
       | Some pr ->
           let t = t_new (bytes_of_hex label) in
           (match c_mp_check t (Lazy.force cfg) pr (List.map (fun (c, _, _) -> c) ops)
                    (List.map (fun (_, _, y) -> y) ops) (List.map (fun (_, z, _) -> nat_of_int z) ops) with
            | None -> "ERR"
            | Some (t', ok) ->
                let (_, ch) = c_challenge t' [ZZ.of_int 110] in
                (if ok then "true " else "false ") ^ frhex ch))
  (* shape cases for the verifier: mpvs <label> <nL> <nR> <nC> <nY> <nZ> : proof with nL/nR points etc. *)
  | ["mpvs"; label; nl; nr; nc; ny; nz] ->
      let g = bw_generator in
      let rep n x = List.init (int_of_string n) (fun _ -> x) in
      let pr = { mpIPA = { pL = rep nl g; pR = rep nr g; pA = mkfr ZZ.one }; mpD = g } in
      (match c_mp_check (t_new (bytes_of_hex label)) (Lazy.force cfg) pr (rep nc g) (rep ny (mkfr ZZ.one))
               (rep nz (nat_of_int 3)) with
       | None -> "ERR" | Some (_, ok) -> if ok then "true" else "false")
  (* IPA: ipac <label> <zhex> <polyspec> ; ipav <label> <proofhex544> <C tok> <zhex> <yhex> *)
  | ["ipac"; label; z; ps] ->
      let a = poly_of_spec 256 ps in
      let crs = Lazy.force crs in
      let c = c_commit crs a in
      let zf = mkfr (z_of_hex z) in
      (match c_ipa_create (t_new (bytes_of_hex label)) (Lazy.force cfg) c a zf with
       | None -> "ERR"
       | Some (t', pr) ->
           let (_, ch) = c_challenge t' [ZZ.of_int 110] in
           let y = c_inner a (c_compute_b crs zf) in
           "OK " ^ ipa_proof_bytes pr ^ " " ^ frhex ch ^ " C " ^ hex_of_bytes (bw_bytes c) ^ " Y " ^ frhex y)
  | ["ipav"; label; ph; c; z; y] ->
      (match ipa_read (reader_of_spec "-" (bytes_of_hex ph)) with
       | Inr _ -> "BADPROOF"
       | Inl (ip, _) ->
           let pr = { pL = ip.ibL; pR = ip.ibR; pA = ip.ibA } in
           (match c_ipa_check (t_new (bytes_of_hex label)) (Lazy.force cfg) (point_of_tok c) pr
                    (mkfr (z_of_hex z)) (mkfr (z_of_hex y)) with
            | None -> "ERR"
            | Some (t', ok) ->
                let (_, ch) = c_challenge t' [ZZ.of_int 110] in
                (if ok then "true " else "false ") ^ frhex ch))
  | ["msmx"; _; _; _; ps; ss] ->
      let pts = if ps = "-" then [] else List.map point_of_tok (split_on ',' ps) in
      let ss = frs_of ss in
      if List.length pts <> List.length ss then "ERR"
      else hex_of_bytes (bw_bytes (c_msm pts ss))
  | ["msmin"; _; _; ps; ss] ->
      let pts = if ps = "-" then [] else List.map point_of_tok (split_on ',' ps) in
      hex_of_bytes (bw_bytes (c_msm pts (frs_of ss)))
  | ["msminmodel"; c; split; ps; ss] ->
      let pts = if ps = "-" then [] else List.map point_of_tok (split_on ',' ps) in
      let ss = frs_of ss in
      let a = c_msm_inner (ZZ.of_int (int_of_string c)) pts ss (split = "1") in
      let b = c_msm pts ss in
      (if bw_equal a b || (bw_bytes a = bw_bytes b) then "same " else "DIFFERENT ") ^ hex_of_bytes (bw_bytes a)
  | ["msmxmodel"; _; nb; _; ps; ss] ->
      (* the model of the whole MultiExp (cost-model choice of window and splits, slices,
         both completion orders, both first-chunk modes) against sum s_i P_i *)
      let pts = if ps = "-" then [] else List.map point_of_tok (split_on ',' ps) in
      let ss = frs_of ss in
      let nbt = let v = int_of_string nb in if v <= 0 then 16 else v in
      let b = c_msm pts ss in
      let same a = bw_equal a b || (bw_bytes a = bw_bytes b) in
      let run rev split = match c_multi_exp (ZZ.of_int nbt) rev pts ss split with
        | None -> false | Some a -> same a in
      let (c, (nsp, np)) = match split_loop (nat_of_int 40) best_c (ZZ.of_int nbt) (ZZ.of_int (List.length pts)) ZZ.one with
        | Some ((c, nsp), np) -> (c, (nsp, np)) | None -> (ZZ.zero, (ZZ.zero, ZZ.zero)) in
      (if run false false && run true true && run true false then "same " else "DIFFERENT ")
      ^ "c=" ^ zdec c ^ " splits=" ^ zdec nsp ^ " per=" ^ zdec np
  | ["part"; c; _; _; ss] ->
      let (packed, small) = partition_scalars (ZZ.of_int (int_of_string c)) (List.map (fun x -> (x : ZZ.t)) (frs_of ss)) in
      let m64 = ZZ.sub (ZZ.shift_left ZZ.one 64) ZZ.one in
      let limbs v = String.concat "." (List.map (fun i -> zhex (ZZ.logand (ZZ.shift_right v (64 * i)) m64)) [0; 1; 2; 3]) in
      zdec small ^ String.concat "" (List.map (fun v -> " " ^ limbs v) packed)
  | "fr" :: op :: args ->
      let lim s = match split_on '.' s with
        | [a; b; c; d] -> (((z_of_hex a, z_of_hex b), z_of_hex c), z_of_hex d)
        | _ -> failwith "bad limbs" in
      let show (((a, b), c), d) = zhex a ^ "." ^ zhex b ^ "." ^ zhex c ^ "." ^ zhex d in
      let v s = lval (lim s) in
      let out x = show (limbs_of x) in
      (match op, args with
       | ("add" | "addA" | "addB"), [a; b] -> out (i_add (v a) (v b))
       | ("sub" | "subA" | "subB"), [a; b] -> out (i_sub (v a) (v b))
       | ("mul" | "mulA" | "mulB"), [a; b] -> out (i_mul (v a) (v b))
       | "addAA", [a; _] -> out (i_add (v a) (v a))
       | "subAA", [a; _] -> out (i_sub (v a) (v a))
       | "mulAA", [a; _] -> out (i_mul (v a) (v a))
       | ("div" | "divA" | "divB"), [a; b] -> out (i_div (v a) (v b))
       | ("neg" | "negA"), [a] -> out (i_neg (v a))
       | ("double" | "doubleA"), [a] -> out (i_double (v a))
       | ("square" | "squareA"), [a] -> out (i_mul (v a) (v a))
       | ("inverse" | "inverseA"), [a] -> out (i_inverse (v a))
       | "exp", [a; e] -> out (i_exp (v a) (z_of_hex e))
       | "legendre", [a] -> zdec (i_legendre (v a))
       | "sqrt", [a] -> (match i_sqrt (v a) with None -> "NIL" | Some y -> out y)
       | "mulby", [c; a] -> out (i_mul_by (z_of_dec c) (v a))
       | "butterfly", [a; b] -> out (i_add (v a) (v b)) ^ " " ^ out (i_sub (v a) (v b))
       | "cmp", [a; b] -> zdec (i_cmp (v a) (v b))
       | "lex", [a] -> if i_lex_largest (v a) then "true" else "false"
       | "frommont", [a] -> out (i_from_mont (v a))
       | "tomont", [a] -> out (i_to_mont (v a))
       | "batchinv", [l] -> String.concat "," (List.map out (c_batch_invert_mont (List.map v (split_on ',' l))))
       | "batchinv", [] -> ""
       (* portable functions, limb-level model *)
       | ("gmul" | "gmulA" | "gmulB"), [a; b] -> show (mul_generic (lim a) (lim b))
       | "gmulAA", [a; _] -> show (mul_generic (lim a) (lim a))
       | ("gadd" | "gaddA" | "gaddB"), [a; b] -> show (add_generic (lim a) (lim b))
       | "gaddAA", [a; _] -> show (add_generic (lim a) (lim a))
       | ("gsub" | "gsubA" | "gsubB"), [a; b] -> show (sub_generic (lim a) (lim b))
       | ("gneg" | "gnegA"), [a] -> show (neg_generic (lim a))
       | ("gdouble" | "gdoubleA"), [a] -> show (double_generic (lim a))
       | "gfrommont", [a] -> show (from_mont_generic (lim a))
       | "greduce", [a] -> show (reduce_generic (lim a))
       | "gbutterfly", [a; b] -> let (x, y) = butterfly_generic (lim a) (lim b) in show x ^ " " ^ show y
       | _ -> failwith ("bad fr op " ^ op))
  | ["dod"; k; ps] ->
      let f = poly_of_spec 256 ps in
      String.concat "," (List.map frhex (c_divide_on_domain (nat_of_int (int_of_string k)) f))
  | ["bary"; z; ps] ->
      let f = poly_of_spec 256 ps in
      frhex (c_inner f (c_bary_coeffs (mkfr (z_of_hex z))))
  | ["baryc"; z] -> String.concat "," (List.map frhex (c_bary_coeffs (mkfr (z_of_hex z))))
  | ["weights"] ->
      String.concat "," (List.map frhex c_weights.w_bary) ^ " " ^ String.concat "," (List.map frhex c_weights.w_invdom)
  | op :: _ -> "ERR unknown op " ^ op
  | [] -> ""

let () =
  try
    while true do
      let line = input_line stdin in
      let toks = split_ws line in
      if toks <> [] then begin
        let out = try handle toks with e -> "EXC " ^ Printexc.to_string e in
        print_string out; print_char '\n'; flush stdout
      end
    done
  with End_of_file -> ()
