"""Shared machinery for the go-ipa property checks (see DESIGN.md section 3)."""
import collections
import fcntl
import hashlib
import json
import os
import random
import re
import shutil
import subprocess
import sys
import time
from concurrent.futures import ThreadPoolExecutor

VERIF = os.path.dirname(os.path.dirname(os.path.abspath(__file__)))
REPO = os.environ.get("VERIF_REPO", "/repo")
BUILD = os.path.join(VERIF, "build")
COQ = os.path.join(VERIF, "coq")
NCPU = os.cpu_count() or 4

GOENV = dict(os.environ, GOFLAGS="-mod=mod", GOPROXY="off", GOSUMDB="off",
             GOTOOLCHAIN="local", GOCACHE=os.path.join(BUILD, "gocache"))

ALLOWED_AXIOMS = {
    # axioms declared by Coq's standard library; each one actually used is
    # reported in the evidence file from Print Assumptions
    "functional_extensionality_dep", "FunctionalExtensionality.functional_extensionality_dep",
    "Eqdep.Eq_rect_eq.eq_rect_eq", "eq_rect_eq", "Classical_Prop.classic", "classic",
    "proof_irrelevance", "ProofIrrelevance.proof_irrelevance", "JMeq_eq", "JMeq.JMeq_eq",
}

FORBIDDEN = re.compile(
    r"\b(Admitted|admit|Axiom|Axioms|Parameter|Parameters|Conjecture|Conjectures|Abort All)\b"
    r"|Unset\s+Guard|bypass_check|Admit\s+Obligations|type-in-type|impredicative-set"
    r"|Unset\s+Positivity|Unset\s+Universe")


def log(*a):
    print(*a, file=sys.stderr, flush=True)


def sh(cmd, timeout=None, env=None, cwd=None, input=None):
    p = subprocess.run(cmd, shell=isinstance(cmd, str), capture_output=True, text=True,
                       timeout=timeout, env=env, cwd=cwd, input=input)
    return p.returncode, p.stdout, p.stderr


class Lock:
    def __init__(self, name):
        os.makedirs(BUILD, exist_ok=True)
        self.path = os.path.join(BUILD, name + ".lock")

    def __enter__(self):
        self.f = open(self.path, "w")
        fcntl.flock(self.f, fcntl.LOCK_EX)
        return self

    def __exit__(self, *a):
        fcntl.flock(self.f, fcntl.LOCK_UN)
        self.f.close()


def tree_hash(paths, exts):
    h = hashlib.sha256()
    for root in paths:
        if os.path.isfile(root):
            files = [root]
        else:
            files = []
            for d, _, fs in os.walk(root):
                for f in fs:
                    if f.endswith(exts):
                        files.append(os.path.join(d, f))
        for f in sorted(files):
            h.update(f.encode())
            with open(f, "rb") as fh:
                h.update(fh.read())
    return h.hexdigest()


# ---------------------------------------------------------------- Coq side

def coq_sources():
    out = []
    for d, _, fs in os.walk(COQ):
        for f in fs:
            if f.endswith(".v"):
                out.append(os.path.join(d, f))
    return sorted(out)


def grep_forbidden():
    bad = []
    for f in coq_sources():
        txt = open(f).read()
        # strip comments (non-nested is enough for our sources; nested handled by loop)
        prev = None
        while prev != txt:
            prev = txt
            txt = re.sub(r"\(\*[^*(]*(?:\*(?!\))[^*(]*|\((?!\*)[^*(]*)*\*\)", " ", txt)
        for m in FORBIDDEN.finditer(txt):
            bad.append("%s: %s" % (os.path.relpath(f, VERIF), m.group(0)))
    return bad


def build_coq():
    """make the whole development; returns (ok, log)."""
    with Lock("coq"):
        mk = os.path.join(COQ, "Makefile")
        proj = os.path.join(COQ, "_CoqProject")
        if (not os.path.exists(mk)) or os.path.getmtime(mk) < os.path.getmtime(proj):
            rc, o, e = sh("coq_makefile -f _CoqProject -o Makefile", cwd=COQ, timeout=120)
            if rc != 0:
                return False, o + e
        try:
            rc, o, e = sh("ulimit -v 14000000; make -j%d" % NCPU, cwd=COQ, timeout=2400)
        except subprocess.TimeoutExpired:
            return False, "coq build timed out"
        return rc == 0, (o + e)[-4000:]


def check_property_file(pid):
    """Re-run coqc on Properties/<pid>.v, parse Print Assumptions.
    returns dict(ok, theorems, closed, axioms, log)."""
    src = os.path.join(COQ, "Properties", pid + ".v")
    res = dict(ok=False, theorems=[], closed=0, axioms=[], log="")
    if not os.path.exists(src):
        res["log"] = "missing " + src
        return res
    txt = open(src).read()
    thms = re.findall(r"^\s*Theorem\s+(\w+)", txt, re.M)
    res["theorems"] = thms
    outdir = os.path.join(BUILD, "propcheck")
    os.makedirs(outdir, exist_ok=True)
    try:
        rc, o, e = sh(["coqc", "-Q", COQ, "GoIpa", "-w", "-notation-overridden", src,
                       "-o", os.path.join(outdir, pid + ".vo")], timeout=1200)
    except subprocess.TimeoutExpired:
        res["log"] = "coqc timeout"
        return res
    res["log"] = (o + e)[-3000:]
    if rc != 0:
        return res
    closed = len(re.findall(r"Closed under the global context", o))
    axioms = []
    for blk in re.findall(r"Axioms:\n((?:.+\n?)+?)(?:\n|\Z)", o):
        for line in blk.splitlines():
            m = re.match(r"^(\S+)\s*:", line)
            if m:
                axioms.append(m.group(1))
    res["closed"] = closed
    res["axioms"] = sorted(set(axioms))
    n_print = len(re.findall(r"^\s*Print Assumptions\s+(\w+)", txt, re.M))
    n_out = closed + len(re.findall(r"Axioms:", o))
    bad_ax = [a for a in res["axioms"] if a not in ALLOWED_AXIOMS and a.split(".")[-1] not in ALLOWED_AXIOMS]
    res["ok"] = (n_print >= len(thms)) and (n_out == n_print) and not bad_ax and len(thms) > 0
    if bad_ax:
        res["log"] += "\nnon-stdlib axioms: %s" % bad_ax
    return res


def build_model():
    """extract + compile the OCaml model driver; returns (ok, path, log)."""
    with Lock("model"):
        exe = os.path.join(BUILD, "model.exe")
        stamp = os.path.join(BUILD, "model.stamp")
        h = tree_hash([os.path.join(COQ, "Model"), os.path.join(COQ, "Extract"),
                       os.path.join(VERIF, "ocaml")], (".v", ".ml"))
        if os.path.exists(exe) and os.path.exists(stamp) and open(stamp).read() == h:
            return True, exe, "cached"
        ok, lg = build_coq_models_only()
        if not ok:
            return False, exe, lg
        ex = os.path.join(BUILD, "extract")
        os.makedirs(ex, exist_ok=True)
        rc, o, e = sh(["coqc", "-Q", COQ, "GoIpa", os.path.join(COQ, "Extract", "Extract.v"),
                       "-o", os.path.join(ex, "Extract.vo")], cwd=ex, timeout=1200)
        if rc != 0:
            return False, exe, o + e
        shutil.copy(os.path.join(VERIF, "ocaml", "driver.ml"), os.path.join(ex, "driver.ml"))
        rc, o, e = sh("ocamlfind ocamlopt -package zarith,unix -linkpkg -w -a -inline 100 "
                      "model.mli model.ml driver.ml -o ../model.exe", cwd=ex, timeout=1200)
        if rc != 0:
            return False, exe, o + e
        open(stamp, "w").write(h)
        return True, exe, "built"


def build_coq_models_only():
    """the Model/*.vo files are needed for extraction even if a proof is broken."""
    with Lock("coq"):
        mk = os.path.join(COQ, "Makefile")
        if not os.path.exists(mk):
            rc, o, e = sh("coq_makefile -f _CoqProject -o Makefile", cwd=COQ, timeout=120)
            if rc != 0:
                return False, o + e
        models = sorted(f for f in os.listdir(os.path.join(COQ, "Model")) if f.endswith(".v"))
        targets = " ".join("Model/" + f + "o" for f in models)
        rc, o, e = sh("ulimit -v 14000000; make -j%d %s" % (NCPU, targets), cwd=COQ, timeout=2400)
        return rc == 0, (o + e)[-3000:]


# ---------------------------------------------------------------- Go side

def build_harness(tags=("verif",), race=False):
    """go build the harness against REPO's working tree (default /repo). returns (ok, path, log).
    With VERIF_REPO set to another checkout (used only to try seeded changes in scratch
    worktrees) a private copy of the harness module with the replace directive rewritten is built."""
    name = "harness_" + "_".join(tags) + ("_race" if race else "")
    hdir = os.path.join(VERIF, "harness")
    if REPO != "/repo":
        tagh = hashlib.sha1(REPO.encode()).hexdigest()[:10]
        name += "_" + tagh
        alt = os.path.join(BUILD, "harness_src_" + tagh)
        os.makedirs(alt, exist_ok=True)
        for f in os.listdir(hdir):
            if f.endswith(".go") or f in ("go.mod",):
                shutil.copy(os.path.join(hdir, f), os.path.join(alt, f))
        gm = open(os.path.join(alt, "go.mod")).read().replace("=> /repo", "=> " + REPO)
        open(os.path.join(alt, "go.mod"), "w").write(gm)
        hdir = alt
    exe = os.path.join(BUILD, name)
    with Lock("go_" + name):
        try:
            shutil.copy(os.path.join(REPO, "go.sum"), os.path.join(hdir, "go.sum"))
        except OSError:
            pass
        cmd = ["go", "build", "-tags", " ".join(tags), "-o", exe]
        if race:
            cmd.insert(2, "-race")
        cmd.append(".")
        try:
            rc, o, e = sh(cmd, cwd=hdir, env=GOENV, timeout=1500)
        except subprocess.TimeoutExpired:
            return False, exe, "go build timeout"
        return rc == 0, exe, (o + e)[-3000:]


def run_lines(exe, lines, env=None, cpus=None, shards=None, timeout=3000, gomaxprocs=None,
              prefix=None):
    """feed lines to exe (sharded), return list of output lines (same order)."""
    if not lines:
        return []
    shards = shards or min(NCPU, max(1, len(lines) // 4))
    shards = max(1, min(shards, len(lines)))
    chunks = [lines[i::shards] for i in range(shards)]
    e = dict(env or os.environ)
    if gomaxprocs:
        e["GOMAXPROCS"] = str(gomaxprocs)
    cmd = [exe]
    if cpus is not None:
        cmd = ["taskset", "-c", ",".join(str(c) for c in cpus)] + cmd
    if prefix:
        cmd = prefix + cmd

    def one(chunk):
        try:
            p = subprocess.run(cmd, input="\n".join(chunk) + "\n", capture_output=True,
                               text=True, timeout=timeout, env=e)
            outs = p.stdout.split("\n")
            if outs and outs[-1] == "":
                outs.pop()
            if len(outs) < len(chunk):
                tail = "CRASH rc=%s %s" % (p.returncode, p.stderr.strip().replace("\n", " | ")[-600:])
                outs = outs + [tail] * (len(chunk) - len(outs))
            return outs[:len(chunk)], p.stderr
        except subprocess.TimeoutExpired:
            return ["HANG timeout"] * len(chunk), ""

    with ThreadPoolExecutor(max_workers=shards) as ex:
        results = list(ex.map(one, chunks))
    out = [None] * len(lines)
    errs = []
    for s, (outs, err) in enumerate(results):
        for j, o in enumerate(outs):
            out[s + j * shards] = o
        if err:
            errs.append(err)
    return out


# ---------------------------------------------------------------- context

class Ctx:
    def __init__(self, pid, tier, seed, replay=None):
        self.pid = pid
        self.tier = tier
        self.seed = seed
        self.rng = random.Random(seed * 1000003 + int(pid[1:]))
        self.replay = replay
        self.t0 = time.time()
        self.mult = 1
        self.violations = []       # (desc, replay_obj)
        self.known_hits = []
        self.evaluations = 0
        self.distinct = set()
        self.samples = []
        self.dist = collections.Counter()
        self.extra = {}
        self.proof = None
        self.assumptions = []
        self.trusted = []
        self.known = load_known(pid)
        self._model = None

    def quick(self):
        return self.tier == "quick"

    def n(self, q, t):
        """budget: q cases in quick tier, t in thorough; scaled when a proof is broken"""
        return (q if self.quick() else t) * self.mult

    # binaries
    def model(self):
        if self._model is None:
            ok, exe, lg = build_model()
            if not ok:
                raise FrameworkError("model build failed:\n" + lg)
            self._model = exe
        return self._model

    def harness(self, tags=("verif",), race=False):
        ok, exe, lg = build_harness(tags, race)
        if not ok:
            self.violation("implementation does not build (tags=%s race=%s)" % (tags, race),
                           {"build_log": lg}, key="build")
            raise ImplBuildError(lg)
        return exe

    # recording
    def sample(self, obj, maxn=6):
        if len(self.samples) < maxn:
            self.samples.append(obj)

    def count(self, key, nontrivial=True, cls=None):
        self.evaluations += 1
        if nontrivial:
            self.distinct.add(key)
        if cls is not None:
            self.dist[cls] += 1

    def violation(self, desc, replay_obj, key=None):
        for k in self.known:
            if k.get("status") == "known" and re.search(k["match"], desc + " " + json.dumps(replay_obj)[:2000]):
                self.known_hits.append((k, desc))
                return
        self.violations.append((desc, replay_obj))

    def compare(self, cases, impl, model, what, norm=None, meta=None):
        """line-by-line diff of implementation vs model output; returns #mismatches"""
        bad = 0
        for i, (c, a, b) in enumerate(zip(cases, impl, model)):
            aa, bb = (norm(a), norm(b)) if norm else (a, b)
            if aa != bb:
                bad += 1
                if bad <= 20:
                    self.violation("%s: implementation and model disagree on case: %s" % (what, c[:300]),
                                   {"what": what, "case": c, "impl": a, "model": b,
                                    "meta": (meta[i] if meta else None)})
        return bad


class FrameworkError(Exception):
    pass


class ImplBuildError(Exception):
    pass


def load_known(pid):
    p = os.path.join(VERIF, "known_findings.json")
    if not os.path.exists(p):
        return []
    return [k for k in json.load(open(p)).get("findings", []) if k.get("property") == pid]


def extraction_directives():
    base = "/usr/lib/ocaml/coq/theories/extraction/"
    out = []
    for f in ("ExtrOcamlBasic.v", "ExtrOcamlZBigInt.v"):
        try:
            txt = open(base + f).read()
        except OSError:
            continue
        names = re.findall(r"Extract (?:Inlined )?(?:Constant|Inductive)\s+([\w.]+)", txt)
        out.append("%s: Extract directives for %s" % (f, ", ".join(names)))
    return out


def finish(ctx, spec):
    """write evidence + replay files, print verdict lines, return exit code."""
    evdir = os.environ.get("VERIF_EVIDENCE_DIR", os.path.join(VERIF, "evidence"))
    os.makedirs(evdir, exist_ok=True)
    rdir = os.path.join(BUILD, "replay" if REPO == "/repo" else "replay_" + hashlib.sha1(REPO.encode()).hexdigest()[:10])
    os.makedirs(rdir, exist_ok=True)
    proof = ctx.proof or dict(ok=False, theorems=[], closed=0, axioms=[], log="not run")
    nviol = 0
    lines = []
    for k, desc in ctx.known_hits[:50]:
        pass
    seen = set()
    for k, desc in ctx.known_hits:
        if k["id"] in seen:
            continue
        seen.add(k["id"])
        lines.append("KNOWN-FINDING: property=%s %s" % (ctx.pid, k["what"]))
    for i, (desc, obj) in enumerate(ctx.violations[:10]):
        path = os.path.join(rdir, "%s-%d.json" % (ctx.pid, i))
        json.dump({"property": ctx.pid, "seed": ctx.seed, "tier": ctx.tier, "description": desc,
                   "replay": obj,
                   "how_to_replay": "./check %s --replay %s" % (ctx.pid, path)},
                  open(path, "w"), indent=1, default=str)
        lines.append("VIOLATION property=%s replay=%s" % (ctx.pid, path))
        nviol += 1
    if not proof["ok"] and nviol == 0:
        path = os.path.join(rdir, "%s-proof.json" % ctx.pid)
        json.dump({"property": ctx.pid, "seed": ctx.seed,
                   "description": "proof obligation no longer checks; no failing input found by the "
                                  "correspondence search (budget x%d)" % ctx.mult,
                   "broken": (("kernel-checked tie of the model's constants to the Go source (lib/gen_consts.py): %s; "
                               % json.dumps([b for b in (ctx.extra.get("constants_translated_from_source") or {}).get("broken", [])
                                             if not isinstance(b, dict) or ctx.pid in b.get("properties", [])])[:1200])
                              if (ctx.extra.get("constants_translated_from_source") or {}).get("broken") else "")
                             + "coq/Properties/%s.v (theorems: %s)" % (ctx.pid, ", ".join(proof["theorems"])),
                   "coq_log": proof["log"][-3000:]}, open(path, "w"), indent=1)
        lines.append("VIOLATION property=%s replay=%s no-failing-input-found" % (ctx.pid, path))
        nviol += 1
    cov = {
        "obligations": len(proof["theorems"]),
        "discharged": len(proof["theorems"]) if proof["ok"] else 0,
        "theorems": proof["theorems"],
        "axioms_reported_by_print_assumptions": proof["axioms"],
        "checker_cmd": "make -C /verif/coq && coqc -Q /verif/coq GoIpa /verif/coq/Properties/%s.v "
                       "(Print Assumptions under every theorem)" % ctx.pid,
        "trusted_base": spec.get("trusted_base", []) + [
            "Coq 8.16.1 kernel incl. vm_compute (no native_compute)",
            "extraction plugin + zarith + OCaml 4.13.1 for running the model"] + extraction_directives() + [
            "hand-written model tied to /repo by differential correspondence on generated cases only "
            "(Go toolchain, verif/harness, ocaml/driver.ml, this python driver)"],
        "evaluations": ctx.evaluations,
        "distinct_nontrivial": len(ctx.distinct),
        "rule": spec.get("rule", ""),
        "samples": ctx.samples or [spec.get("rule", "")],
        "input_distribution": dict(ctx.dist),
        "known_findings_hit": sorted(seen),
        "exhaustive": bool(ctx.extra.get("exhaustive", False)),
    }
    cov.update({k: v for k, v in ctx.extra.items() if k != "exhaustive"})
    ev = {
        "property_id": ctx.pid, "tier": ctx.tier, "seed": ctx.seed, "level": "proof",
        "coverage": cov,
        "assumptions": spec.get("assumptions", []),
        "wall_s": round(time.time() - ctx.t0, 2),
        "violations": nviol,
    }
    json.dump(ev, open(os.path.join(evdir, ctx.pid + ".json"), "w"), indent=1, default=str)
    for l in lines:
        print(l)
    print("%s %s tier=%s seed=%d evaluations=%d distinct=%d theorems=%d/%d wall=%.1fs" % (
        ctx.pid, "FAIL" if nviol else "ok", ctx.tier, ctx.seed, ctx.evaluations, len(ctx.distinct),
        cov["discharged"], cov["obligations"], time.time() - ctx.t0))
    return 1 if nviol else 0


# ---------------------------------------------------------------- correspondence helper

def model_env():
    e = dict(os.environ)
    e["VERIF_CRS_CACHE"] = os.path.join(BUILD, "crs.cache")
    return e


def diff(ctx, lines, what, classes=None, nontrivial=None, tags=("verif",), race=False, cpus=None,
         gomaxprocs=None, norm=None, shards=None, keyfn=None, impl_env=None, impl_prefix=None,
         model_lines=None, impl_shards=None, model_out=None):
    """run the same case lines on the implementation and on the extracted model, compare,
    account for coverage. returns (impl_out, model_out)."""
    if not lines:
        return [], []
    h = ctx.harness(tags=tags, race=race)
    m = ctx.model()
    with ThreadPoolExecutor(max_workers=2) as ex:
        fi = ex.submit(run_lines, h, lines, impl_env, cpus, impl_shards or shards or min(4, max(1, len(lines) // 8)), 3000, gomaxprocs, impl_prefix)
        fm = ex.submit(run_lines, m, model_lines or lines, model_env(), None, shards) if model_out is None else None
        impl = fi.result()
        mod = fm.result() if fm is not None else model_out
    for i, o in enumerate(mod):
        if o.startswith(("EXC", "CRASH", "HANG", "ERR unknown", "MODEL-INTERNAL")):
            raise FrameworkError("model failed on case %r: %s" % (lines[i][:200], o[:300]))
    # a watchdog expiry is confirmed before it counts: the case is re-run alone with a long period
    # (a loaded machine must not be mistaken for a deadlock; a real deadlock stays hung)
    hung = [i for i, o in enumerate(impl) if o.startswith("HANG")]
    if hung:
        env2 = dict(impl_env or os.environ, VERIF_WATCHDOG_SEC="240")
        # the first expiry decides: still hung when run alone with a long period -> the hangs are real (not re-run);
        # otherwise the machine was slow and every reported expiry is re-run
        r = run_lines(h, [lines[hung[0]]], env2, cpus, 1, 600, gomaxprocs, impl_prefix)
        log("watchdog expiry on %r re-run alone: %s" % (lines[hung[0]][:80], r[-1][:60] if r else "?"))
        if r and not r[-1].startswith("HANG"):
            impl[hung[0]] = r[-1]
            rest = hung[1:]
            if rest:
                rr = run_lines(h, [lines[i] for i in rest], env2, cpus, min(4, len(rest)), 3000, gomaxprocs, impl_prefix)
                for i, o in zip(rest, rr):
                    impl[i] = o
    nv0 = len(ctx.violations)
    ctx.compare(lines, impl, mod, what, norm=norm)
    if shards == 1 and impl_shards == 1 and len(lines) <= 5000:
        # call-sequence mode (one process): a finding is replayed with the whole sequence
        for (_, obj) in ctx.violations[nv0:]:
            if isinstance(obj, dict):
                obj["lines"] = lines
    for i, l in enumerate(lines):
        k = keyfn(l) if keyfn else l
        nt = nontrivial[i] if nontrivial is not None else True
        ctx.count(hashlib.sha1(k.encode()).digest()[:8], nontrivial=nt,
                  cls=(classes[i] if classes else what))
    if lines and len(ctx.samples) < 8:
        j = (len(lines) * 7) // 11
        ctx.sample({"what": what, "case": lines[j][:600], "impl": impl[j][:300], "model": mod[j][:300]}, maxn=8)
    return impl, mod


def std_replay(ctx, path, tags=("verif",)):
    obj = json.load(open(path))
    case = obj["replay"]["case"]
    hist = obj["replay"].get("lines")
    if hist and not obj["replay"].get("conc"):
        # history-dependent finding: replay the whole call sequence in one process
        impl = run_lines(ctx.harness(tags=tags), hist, shards=1)
        mod = run_lines(ctx.model(), hist, env=model_env(), shards=1)
        for l, a, b in zip(hist, impl, mod):
            if a != b:
                print("case :", l[:400]); print("impl :", a[:400]); print("model:", b[:400])
        ctx.compare(hist, impl, mod, "replay (call sequence)")
        ctx.count(case)
        return
    impl = run_lines(ctx.harness(tags=tags), [case], shards=1)
    mod = run_lines(ctx.model(), [case], env=model_env(), shards=1)
    print("case :", case[:2000])
    print("impl :", impl[0][:2000])
    print("model:", mod[0][:2000])
    ctx.compare([case], impl, mod, "replay")
    ctx.count(case)


def shared_use_phase(ctx, lines, expected, what, g=8, repeat=6, gomaxprocs=8, norm=None):
    """the same calls issued by g goroutines sharing the configuration and (per vector specification)
    the caller-owned input slices; every result must equal the sequential one.  A function of its
    inputs gives the same answer when other calls run beside it."""
    if not lines:
        return
    rep, exp = [], []
    for l, e in zip(lines, expected):
        rep += [l] * repeat
        exp += [e] * repeat
    # interleave the repetitions of different calls
    order = sorted(range(len(rep)), key=lambda i: (i % repeat, i // repeat))
    rep = [rep[i] for i in order]
    exp = [exp[i] for i in order]
    env = dict(os.environ, VERIF_CONC=str(g), GOMAXPROCS=str(gomaxprocs))
    outs, err, rc = run_raw(ctx.harness(), rep, env=env, timeout=600)
    if rc is None:
        ctx.violation("%s: concurrent use did not terminate" % what, {"case": "shared-use", "lines": rep, "conc": g})
        return
    if rc != 0 or len(outs) != len(rep):
        ctx.violation("%s: concurrent use crashed rc=%s" % (what, rc), {"case": "shared-use", "lines": rep, "stderr": err[-3000:]})
        return
    bad = 0
    for l, a, b in zip(rep, outs, exp):
        aa, bb = (norm(a), norm(b)) if norm else (a, b)
        if aa != bb:
            bad += 1
            if bad <= 3:
                ctx.violation("%s: result differs when the same call runs beside others (shared configuration / inputs): %s"
                              % (what, l[:120]), {"case": l, "impl_concurrent": a, "sequential": b, "conc": g, "lines": rep})
    ctx.evaluations += len(rep)
    ctx.dist["%s shared-use x%d" % (what, g)] += len(rep)


def run_raw(exe, lines, env=None, timeout=1800, cpus=None):
    """single process; returns (outputs, stderr, returncode) ; returncode None on timeout"""
    cmd = [exe]
    if cpus is not None:
        cmd = ["taskset", "-c", ",".join(str(c) for c in cpus)] + cmd
    try:
        p = subprocess.run(cmd, input="\n".join(lines) + "\n", capture_output=True, text=True,
                           timeout=timeout, env=env)
    except subprocess.TimeoutExpired as e:
        return [], (e.stderr or b"").decode(errors="replace") if isinstance(e.stderr, bytes) else (e.stderr or ""), None
    outs = p.stdout.split("\n")
    if outs and outs[-1] == "":
        outs.pop()
    return outs, p.stderr, p.returncode


# ---------------------------------------------------------------- Route V
def _zl(xs):
    return "[" + "; ".join(str(x) for x in xs) + "]"


def route_v_cases(rng, nq):
    """(driver line, Gallina term of type list Z) pairs for integer-only model functions"""
    out = []
    R = 13108968793781547619861935127046491459309155893440570251786403306729687672801
    import ecref as E
    def pt3(p, l=None):
        l = l or rng.choice([1, rng.randrange(2, E.P)])
        return (p[0] * l % E.P, p[1] * l % E.P, l)
    def coqpt(t):
        return "(fp %d, fp %d, fp %d)" % t
    base = [E.G, E.add(E.G, E.G), E.smul(rng.randrange(1, R), E.G), E.ID, (0, E.P - 1)]
    heavy_left = 2 if nq <= 40 else nq      # kernel evaluation of sqrt / decode / long scalar multiplication costs 6-8 s each
    for _ in range(nq):
        k = rng.randrange(15)
        if k in (8, 12):
            if heavy_left <= 0:
                k = rng.choice([9, 10, 11, 14])
            else:
                heavy_left -= 1
        if k == 8:
            v = rng.choice([0, 1, 4, E.P - 1, rng.randrange(E.P), pow(rng.randrange(E.P), 2, E.P)])
            out.append(("rv sqrt %d" % v, "(match sqrt_precomp (fp %d) with Some y => [1; zval y] | None => [0] end)" % v))
            continue
        if k == 9:
            a, b = pt3(rng.choice(base)), pt3(rng.choice(base))
            out.append(("rv bwadd %d %d %d %d %d %d" % (a + b),
                        "(let '(X, Y, Zc) := bw_add %s %s in [zval X; zval Y; zval Zc])" % (coqpt(a), coqpt(b))))
            continue
        if k == 10:
            a = pt3(rng.choice(base))
            out.append(("rv bwbytes %d %d %d" % a, "(bw_bytes %s ++ [zval (bw_map_to_scalar %s)])" % (coqpt(a), coqpt(a))))
            continue
        if k == 11:
            p_ = rng.choice(base)
            q_ = rng.choice([p_, E.neg(p_), ((-p_[0]) % E.P, (-p_[1]) % E.P), rng.choice(base)])
            a, b = pt3(p_), pt3(q_)
            out.append(("rv bweq %d %d %d %d %d %d" % (a + b), "[if bw_equal %s %s then 1 else 0]" % (coqpt(a), coqpt(b))))
            continue
        if k == 12:
            x = rng.choice([E.compress(rng.choice(base)), rng.randrange(1 << 256).to_bytes(32, "big"),
                            (int.from_bytes(E.compress(base[2]), "big") + E.P).to_bytes(32, "big")])
            out.append(("rv bwdec %s" % x.hex(),
                        "(match bw_set_bytes %s false with inl (X, Y, Zc) => [1; zval X; zval Y; zval Zc] | inr _ => [0] end)" % _zl(list(x))))
            continue
        if k == 13:
            a = pt3(rng.choice(base))
            sc = rng.choice([0, 1, 2, R - 1, rng.randrange(R), rng.randrange(1 << 16)]) if nq > 40 else rng.choice([0, 1, 2, 3, rng.randrange(1 << 12)])
            out.append(("rv bwsmul %d %d %d %d" % ((sc,) + a),
                        "(bw_bytes (bw_smul (fr %d) %s))" % (sc, coqpt(a))))
            continue
        if k == 14:
            a = pt3(rng.choice(base))
            out.append(("rv bwdbl %d %d %d" % a,
                        "(let '(X, Y, Zc) := bw_double %s in [zval X; zval Y; zval Zc] ++ [if bw_is_on_curve %s then 1 else 0])" % (coqpt(a), coqpt(a))))
            continue
        if k == 0:
            n, m = rng.randrange(0, 300), rng.randrange(1, 40)
            out.append(("rv ranges %d %d" % (n, m), "flat_map (fun r : Z * Z => [fst r; snd r]) (execute_ranges %d %d)" % (n, m)))
        elif k == 1:
            w, s_ = rng.choice([8, 16]), rng.choice([rng.randrange(R), (1 << rng.randrange(1, 253)) - 1, R - 1])
            out.append(("rv pcdigits %d %d" % (w, s_), "(let p := pc_digits %d %d in fst p ++ [snd p])" % (w, s_)))
        elif k == 2:
            b = [rng.randrange(256) for _ in range(rng.choice([0, 1, 55, 56, 64, 70]))]
            out.append(("rv sha %s" % ("".join("%02x" % x for x in b) or "-"), "sha256 %s" % _zl(b)))
        elif k == 3:
            v = rng.choice([0, 1, R - 1, rng.randrange(R)])
            out.append(("rv leenc %d" % v, "(fr_bytes_le (fr %d) ++ fr_bytes (fr %d))" % (v, v)))
        elif k == 4:
            v = rng.choice([R - 1, R, R + 1, rng.randrange(1 << 256)])
            b = list(v.to_bytes(32, "little"))
            out.append(("rv lec %s" % "".join("%02x" % x for x in b),
                        "(match fst (fr_set_bytes_le_canonical %s) with Some x => [1; zval x] | None => [0] end)" % _zl(b)))
        elif k == 5:
            a, b = rng.randrange(R), rng.choice([R - 1, rng.randrange(R)])
            out.append(("rv mul %d %d" % (a, b),
                        "(let '(r0, r1, r2, r3) := mul_generic (limbs_of %d) (limbs_of %d) in [r0; r1; r2; r3])" % (a, b)))
        elif k == 6:
            c, s_ = rng.choice([4, 5, 8, 11, 16]), rng.choice([rng.randrange(R), rng.randrange(1 << 64), R - 1])
            out.append(("rv part %d %d" % (c, s_), "(let p := partition_scalars %d [%d] in fst p ++ [snd p])" % (c, s_)))
        else:
            sc = rng.randrange(R)
            out.append(("rv tr 6c62 %d" % sc, "map zval (c_transcript_run [108; 98] [TScalar %d [115]; TChallenge [99]])" % sc))
    return out


def route_v(ctx, nq=40):
    """cross-check of the extraction: the kernel (vm_compute) evaluates the same Gallina terms that the
    extracted OCaml model evaluated; any difference is a framework error (extraction / driver), not a
    property violation.  Recorded in the evidence."""
    cases = route_v_cases(random.Random(ctx.seed * 7919 + int(ctx.pid[1:])), nq)
    outs = run_lines(ctx.model(), [c[0] for c in cases], env=model_env(), shards=1)
    body = []
    for (line, term), o in zip(cases, outs):
        if o.startswith(("EXC", "CRASH", "HANG", "ERR")):
            raise FrameworkError("route V: model failed on %r: %s" % (line, o[:200]))
        body.append("  (%s, %s)" % (term, _zl(o.split())))
    d = os.path.join(BUILD, "routev")
    os.makedirs(d, exist_ok=True)
    src = os.path.join(d, "cases_%s.v" % ctx.pid)
    open(src, "w").write(
        "From Coq Require Import ZArith List Bool.\nFrom GoIpa Require Import Model.Parallel Model.Bytes Model.Zq Model.Sha256 "
        "Model.Alg Model.Transcript Model.Codec Model.Pippenger Model.Mont Model.Precomp Model.SqrtChain Model.FpSqrt Model.Edwards "
        "Model.Banderwagon Model.Concrete.\n"
        "Import ListNotations.\nOpen Scope Z_scope.\n"
        "Definition cases : list (list Z * list Z) := [\n" + ";\n".join(body) + "\n].\n"
        "Definition nbad := Eval vm_compute in length (filter (fun p : list Z * list Z => negb (list_eqb (fst p) (snd p))) cases).\n"
        "Print nbad.\n")
    rc, o, e = sh(["coqc", "-q", "-Q", COQ, "GoIpa", src, "-o", os.path.join(d, "cases_%s.vo" % ctx.pid)], timeout=900)
    ok = rc == 0 and re.search(r"nbad\s*=\s*0\b", o) is not None
    ctx.extra["route_v"] = {"cases": len(cases), "agree": ok}
    if not ok:
        raise FrameworkError("route V: kernel evaluation and extracted model disagree or coqc failed:\n" + (o + e)[-1500:])


# ---------------------------------------------------------------- constants translated from the Go source
CONST_PIDS_ALL = ["C01", "C02", "C03", "C04", "C05", "C06", "C09", "C14", "C15", "C16", "C17", "C18"]


def check_consts(ctx):
    """lib/gen_consts.py reads the constants out of REPO's Go source and emits one kernel-checked statement
    per constant ("the model uses this value").  A statement that no longer checks breaks the proof
    obligation of the properties that constant is used by."""
    import gen_consts
    d = os.path.join(BUILD, "consts" if REPO == "/repo" else "consts_" + hashlib.sha1(REPO.encode()).hexdigest()[:10])
    os.makedirs(d, exist_ok=True)
    info = {"constants": 0, "agree": True, "broken": []}
    try:
        txt, items = gen_consts.generate(REPO)
    except (gen_consts.Miss, OSError) as e:
        info.update(agree=False, broken=["translator: %s" % e])
        ctx.extra["constants_translated_from_source"] = info
        if ctx.pid in CONST_PIDS_ALL and ctx.proof is not None:
            ctx.proof["ok"] = False
            ctx.proof["log"] = "constants translator (lib/gen_consts.py) could not read the Go source: %s\n" % e + ctx.proof.get("log", "")
            ctx.mult = 3
        return
    info["constants"] = len(items)
    with Lock("consts"):
        src = os.path.join(d, "GoConstsTie.v")
        open(src, "w").write(txt)
        rc, o, e = sh(["coqc", "-q", "-Q", COQ, "GoIpa", src], cwd=d, timeout=600)
        broken = []
        if rc != 0:
            # find every statement that fails, one file each
            head = txt.split("(* ", 1)[0]
            for name, go, coq, pids, srcf in items:
                one = os.path.join(d, "one_%s.v" % name)
                open(one, "w").write(head + "Example go_%s : %s = %s.\nProof. reflexivity. Qed.\n" % (name, coq, go))
                rc1, _, _ = sh(["coqc", "-q", "-Q", COQ, "GoIpa", one], cwd=d, timeout=300)
                if rc1 != 0:
                    broken.append({"constant": name, "source": srcf, "value_in_source": go[:200], "model_term": coq, "properties": pids})
    info["agree"] = not broken
    info["broken"] = broken
    ctx.extra["constants_translated_from_source"] = info
    mine = [b for b in broken if ctx.pid in b["properties"]]
    if mine and ctx.proof is not None:
        ctx.proof["ok"] = False
        ctx.proof["log"] = ("constants of the Go source differ from the model's (lib/gen_consts.py, statements closed by the "
                            "kernel): %s\n" % json.dumps(mine)[:1500]) + ctx.proof.get("log", "")
        ctx.mult = 3


# ---------------------------------------------------------------- coqchk (thorough tier)
def coqchk(ctx):
    """independent re-check of the compiled property file and everything it depends on; the axiom
    list it prints goes into the evidence.  Cached per hash of all .vo files."""
    vos = tree_hash([COQ], (".vo",))
    cdir = os.path.join(BUILD, "coqchk")
    os.makedirs(cdir, exist_ok=True)
    cache = os.path.join(cdir, "%s-%s.json" % (ctx.pid, vos[:16]))
    if os.path.exists(cache):
        res = json.load(open(cache))
    else:
        t0 = time.time()
        try:
            rc, o, e = sh(["coqchk", "-silent", "-o", "-Q", COQ, "GoIpa", "GoIpa.Properties." + ctx.pid], timeout=5400)
        except subprocess.TimeoutExpired:
            rc, o, e = 124, "", "coqchk timeout"
        txt = o + e
        m = re.search(r"\* Axioms:(.*?)\n\s*\n\s*\* ", txt, re.S)
        body = m.group(1) if m else ""
        axioms = [] if "<none>" in body else re.findall(r"^\s+([A-Za-z_][\w.']*)", body, re.M)
        res = {"rc": rc, "axioms": axioms, "wall_s": round(time.time() - t0), "tail": txt[-1500:]}
        if rc in (0,):
            json.dump(res, open(cache, "w"))
    ctx.extra["coqchk"] = {"rc": res["rc"], "axioms": res["axioms"], "wall_s": res["wall_s"]}
    if res["rc"] != 0:
        ctx.proof["ok"] = False
        ctx.proof["log"] = "coqchk failed:\n" + res["tail"] + "\n" + ctx.proof.get("log", "")
    return res
