#!/usr/bin/env python3
"""Seeded-change tooling (not part of any registered check).

  seedtool.py validate <outdir> <worktree>   re-confirm a sub-agent's change in a scratch worktree:
        suite passes with the change, demo fails with it, demo passes without it
  seedtool.py install <outdir> <name>        copy a validated change to /verif/seeded/<name>/
  seedtool.py detect <name> <worktree> [--tier quick] [--props C01,C03]
        apply seeded/<name>/patch.diff in the scratch worktree and run ./check there
        (VERIF_REPO=<worktree>; evidence to a temp dir so committed evidence is untouched)
"""
import json
import os
import shutil
import subprocess
import sys
import tempfile
import time

VERIF = os.path.dirname(os.path.dirname(os.path.abspath(__file__)))
GOENV = dict(os.environ, GOFLAGS="-mod=mod", GOPROXY="off", GOSUMDB="off", GOTOOLCHAIN="local")


def sh(cmd, cwd=None, timeout=1800, env=None):
    try:
        p = subprocess.run(cmd, shell=True, cwd=cwd, capture_output=True, text=True, timeout=timeout, env=env or GOENV)
        return p.returncode, p.stdout + p.stderr
    except subprocess.TimeoutExpired:
        return 124, "timeout"


def clean(wt):
    sh("git checkout -q -- . && git clean -fdq", cwd=wt)


def validate(outdir, wt):
    meta = json.load(open(os.path.join(outdir, "meta.json")))
    patch = os.path.join(outdir, "patch.diff")
    demos = [f for f in os.listdir(outdir) if f.endswith("_test.go")]
    res = {"outdir": outdir, "property": meta.get("property")}
    clean(wt)
    rc, o = sh("git apply --check %s && git apply %s" % (patch, patch), cwd=wt)
    if rc != 0:
        res["error"] = "patch does not apply: " + o[-300:]
        return res
    rc, o = sh("go build ./... && go build -tags verif ./...", cwd=wt)
    res["builds"] = rc == 0
    t0 = time.time()
    rc, o = sh("go test -vet=off -count=1 -timeout 25m ./...", cwd=wt, timeout=2400)
    res["suite_passes_with_change"] = rc == 0
    res["suite_s"] = round(time.time() - t0)
    if rc != 0:
        res["suite_tail"] = o[-600:]
    # package directory of the demo: from demo_cmd's package argument, else from demo_path
    import re
    dst_dir = None
    for tok in reversed((meta.get("demo_cmd") or "").split()):
        if re.match(r"^\.(/[\w\-/]+)?/?$", tok):
            dst_dir = tok[2:].strip("/") or "."
            break
    if dst_dir is None:
        m = re.search(r"([\w\-/]*?)/?seeded_demo_test\.go", meta.get("demo_path") or "")
        dst_dir = (m.group(1) if m else "").split("wt-%s/" % meta.get("property", ""))[-1].strip("/") or "."
    for d in demos:
        shutil.copy(os.path.join(outdir, d), os.path.join(wt, dst_dir, d))
    pkg = "./" + dst_dir if dst_dir != "." else "."
    cmd = "go test -vet=off -count=1 -timeout 10m -run 'Seeded' %s" % pkg
    rc, o = sh(cmd, cwd=wt, timeout=900)
    res["demo_fails_with_change"] = rc != 0
    res["demo_with_tail"] = o[-400:]
    sh("git apply -R %s" % patch, cwd=wt)
    rc, o = sh(cmd, cwd=wt, timeout=900)
    res["demo_passes_without_change"] = rc == 0
    if rc != 0:
        res["demo_without_tail"] = o[-400:]
    res["demo_dir"] = dst_dir
    res["demo_cmd"] = cmd
    clean(wt)
    res["valid"] = bool(res.get("builds") and res["suite_passes_with_change"] and res["demo_fails_with_change"]
                        and res["demo_passes_without_change"])
    return res


def install(outdir, name, vres=None):
    dst = os.path.join(VERIF, "seeded", name)
    os.makedirs(dst, exist_ok=True)
    meta = json.load(open(os.path.join(outdir, "meta.json")))
    for f in os.listdir(outdir):
        if f.endswith("_test.go") or f == "patch.diff":
            shutil.copy(os.path.join(outdir, f), os.path.join(dst, f))
    m = {"breaks_property": meta.get("property"), "summary": meta.get("summary"), "needs": meta.get("needs"),
         "source": "independent sub-agent given only the property text and a scratch worktree",
         "confirmed": vres or {}}
    json.dump(m, open(os.path.join(dst, "meta.json"), "w"), indent=1)
    return dst


def detect(name, wt, tier="quick", props=None):
    sdir = os.path.join(VERIF, "seeded", name)
    meta = json.load(open(os.path.join(sdir, "meta.json")))
    props = props or [meta["breaks_property"]]
    clean(wt)
    rc, o = sh("git apply %s" % os.path.join(sdir, "patch.diff"), cwd=wt)
    if rc != 0:
        return {"error": "patch does not apply: " + o[-300:]}
    out = {}
    evd = tempfile.mkdtemp(prefix="seedev_")
    env = dict(os.environ, VERIF_REPO=wt, VERIF_EVIDENCE_DIR=evd)
    for p in props:
        t0 = time.time()
        rc, o = sh("./check %s --tier %s" % (p, tier), cwd=VERIF, timeout=3600, env=env)
        viol = [l for l in o.splitlines() if l.startswith("VIOLATION")]
        out[p] = {"rc": rc, "detected": rc == 1 and bool(viol), "violations": viol[:3], "wall_s": round(time.time() - t0),
                  "tail": o[-300:] if rc not in (0, 1) else ""}
    shutil.rmtree(evd, ignore_errors=True)
    clean(wt)
    return out


if __name__ == "__main__":
    a = sys.argv[1:]
    if a[0] == "validate":
        print(json.dumps(validate(a[1], a[2]), indent=1))
    elif a[0] == "install":
        print(install(a[1], a[2]))
    elif a[0] == "detect":
        tier = "quick"
        props = None
        if "--tier" in a:
            tier = a[a.index("--tier") + 1]
        if "--props" in a:
            props = a[a.index("--props") + 1].split(",")
        print(json.dumps(detect(a[1], a[2], tier, props), indent=1))
