"""C01 - multiproof completeness: every honest set of openings verifies."""
import ecref as E
import mpgen
from vlib import diff, std_replay, run_lines, model_env

SPEC = {
    "rule": "case = honest multiproof statement (n openings, pattern of evaluation indices, polynomial kinds, commitment "
            "representations incl. shared pointers, label) created by the implementation under a CPU configuration "
            "(taskset NumCPU in {1,3,16}, GOMAXPROCS), then verified by implementation and model; distinct = distinct "
            "(n, multiset of z, sharing pattern, representation pattern, label, CPU setting); non-trivial = n>=2 or z>0",
    "assumptions": ["completeness theorem premises: field/group laws, every IPA challenge invertible, t not a used "
                    "domain index (run-time decidable; probability 2^-245)"],
    "trusted_base": ["taskset / GOMAXPROCS to vary runtime.NumCPU"],
}


def sizes(ctx):
    if ctx.quick():
        return [1, 1, 2, 2, 3, 3, 5, 7, 15, 16, 17, 33, 100]
    return [1, 2, 3, 4, 5, 7, 8, 15, 16, 17, 31, 32, 33, 100, 257, 1000] * 3 + [ctx.rng.randrange(1, 60) for _ in range(120)]


def make_statements(ctx, ns):
    rng = ctx.rng
    out = []
    for n in ns:
        line, meta = mpgen.statement(rng, n, max_dense=2 if n > 20 else 3)
        out.append((line, meta))
    # polynomials whose evaluations have a special 64-bit limb structure (limb-wise code in the table-driven and
    # bucket MSMs: all-ones limbs below zero limbs, one-word values with the top bits set, Montgomery-sparse values)
    rinv = pow(1 << 256, -1, E.R)
    vals = [(1 << 64) - 1, (1 << 128) - 1, (1 << 192) - 1, 0xff00000000000000, 0x8100000000000000, 1 << 63, 0xf800000000000000,
            0xfff8000000000000, ((1 << 64) - 1) << 64, 32768, 1 << 95, 5 * rinv % E.R, ((1 << 64) - 1) * rinv % E.R]
    for k in range(0, len(vals), 3):
        grp = vals[k:k + 3]
        ops = []
        for v in grp:
            i = rng.randrange(256)
            sp = "s:%d=%x,%d=%x" % (i, v, (i + 1 + rng.randrange(200)) % 256, rng.choice(vals))
            ops.append("%s %d %s" % (rng.choice(["n", "k"]), rng.choice([i, rng.randrange(256)]), sp))
        lab = b"limbs"
        out.append(("mpc %s 1 - %s" % (E.hx(lab), " ".join(ops)),
                    {"n": len(grp), "zpat": "limb-structured values", "label": lab, "zs": [int(o.split()[1]) for o in ops]}))
    return out


def run(ctx):
    rng = ctx.rng
    sts = make_statements(ctx, sizes(ctx))
    lines = [s[0] for s in sts]
    cfgs = [(None, None), (1, None), (3, None), (16, 2)] if ctx.quick() else \
           [(None, None), (1, None), (2, None), (3, None), (5, None), (7, None), (16, 1), (16, 2), (16, 4)]
    # model proofs once (schedule-independent by theorem; a few statements also with other worker counts)
    first = True
    honest = []
    mcache = None
    for (ncpu, gmp) in cfgs:
        cls = ["n=%d/%s/cpu=%s/gmp=%s" % (m["n"], m["zpat"], ncpu, gmp) for _, m in sts]
        nt = [m["n"] >= 2 or any(z > 0 for z in m["zs"]) for _, m in sts]
        keyfn = lambda l, c=(ncpu, gmp): l + " @%s" % (c,)
        impl, mod = diff(ctx, lines, "CreateMultiProof (bytes, next challenge, commitments)", cls, nt,
                         cpus=(list(range(ncpu)) if ncpu else None), gomaxprocs=gmp, keyfn=keyfn, impl_shards=1,
                         model_out=mcache)
        mcache = mod
        if first:
            for (l, m), o in zip(sts, impl):
                p = mpgen.parse_mpc_out(o)
                if p is None:
                    ctx.violation("CreateMultiProof failed on an honest statement", {"case": l, "impl": o})
                else:
                    honest.append((l, m, p))
            first = False
    # model-side: other worker counts / arrival orders give the same proof (executable witness of the theorem)
    wl, base = [], []
    for l, m in sts[:8]:
        nw = rng.choice([2, 3, 5, 16])
        arr = list(range(nw))
        rng.shuffle(arr)
        wl.append(mpgen.with_workers(l, nw, arr))
        base.append(l)
    a = run_lines(ctx.model(), wl, env=model_env())
    b = run_lines(ctx.model(), base, env=model_env())
    if a != b:
        from vlib import FrameworkError
        raise FrameworkError("model: proof depends on worker count / arrival order (contradicts the theorem)")
    # verification of the honest proofs: commitments re-represented
    vl, vc = [], []
    for l, m, p in honest:
        toks = []
        for cb in p["cs"]:
            pt = mpgen.point_from_bytes(cb)
            rep = rng.randrange(4)
            toks.append(E.tok(pt, l=(1 if rep in (0, 2) else rng.randrange(2, E.P)), flip=(rep >= 2)))
        vl.append(mpgen.mpv_line(m["label"], p["proof"], toks, m["zs"], p["ys"]))
        vc.append("verify n=%d" % m["n"])
    impl, mod = diff(ctx, vl, "CheckMultiProof on honest proofs", vc, impl_shards=2)
    for (l, m, p), v, o, om in zip(honest, vl, impl, mod):
        if not o.startswith("true "):
            ctx.violation("honest multiproof rejected by the implementation: %s" % o[:40], {"case": v, "create_case": l, "impl": o})
        elif o.split()[1] != p["chal"]:
            ctx.violation("prover and verifier transcripts give different next challenges",
                          {"case": v, "create_case": l, "impl": o, "prover_challenge": p["chal"]})
    ctx.extra["honest_statements"] = len(honest)
    ctx.extra["cpu_settings"] = [str(c) for c in cfgs]


def replay(ctx, path):
    std_replay(ctx, path)
