"""C13 - operations are pure: config and caller inputs are never modified."""
import os
import ecref as E
import workload
import gsgen
from vlib import diff, std_replay, run_lines, run_raw, model_env, log

SPEC = {
    "rule": "case = one history of 5..40 (thorough ..120) API calls over all families executed in ONE process; after every "
            "call: fingerprint of SRS, Q, weight tables, labels (content, len, cap), Generator, Identity, "
            "bandersnatch.Identity/IdentityExt, curve parameters; at history start/end additionally every precomputed "
            "table entry; every call compares a deep copy of its arguments (polynomials, indices, values, proof objects, "
            "points, scalars, byte buffers) before/after; a fixed probe call is replayed at random positions and every "
            "result is compared with the model's history-free result; distinct = distinct histories",
    "assumptions": ["the frame property of each real API call is established by the fingerprints on the explored "
                    "histories; the theorem lifts the one-step frame to all finite histories"],
    "trusted_base": [],
}


def run(ctx):
    rng = ctx.rng
    h = ctx.harness()
    m = ctx.model()
    nh = ctx.n(12, 400)
    probe = "mpc %s 1 - n 3 s:3=5,200=%x k 3 s:3=5,200=%x f 77 u:77:9" % (E.hx(b"probe"), E.R - 1, E.R - 1)
    jobs = []
    for k in range(nh):
        wl = workload.mixed(rng, rng.randrange(5, 41 if ctx.quick() else 121))
        lines = [w[0] for w in wl]
        for _ in range(rng.randrange(2, 4)):
            lines.insert(rng.randrange(len(lines) + 1), probe)
        lines = ["cfgfp"] + lines + ["cfgfp"]
        jobs.append((lines, wl))
    env = dict(os.environ, VERIF_PURE="1")
    from concurrent.futures import ThreadPoolExecutor
    with ThreadPoolExecutor(max_workers=4) as ex:
        res = list(ex.map(lambda j: run_raw(h, j[0], env=env, timeout=1500), jobs))
    allm = run_lines(m, [l for j in jobs for l in j[0][1:-1]], env=model_env())
    pos = 0
    for (lines, wl), (outs, err, rc) in zip(jobs, res):
        mod = allm[pos:pos + len(lines) - 2]
        pos += len(lines) - 2
        if rc != 0 or len(outs) != len(lines):
            ctx.violation("history run crashed rc=%s" % rc, {"case": "history", "lines": lines, "stderr": err[-2000:]})
            continue
        if outs[0] != outs[-1]:
            ctx.violation("configuration / precomputed tables changed during the history",
                          {"case": "history", "lines": lines, "before": outs[0], "after": outs[-1]})
        for i, (l, a, b) in enumerate(zip(lines[1:-1], outs[1:-1], mod)):
            if "CONFIG-CHANGED" in a:
                ctx.violation("shared configuration / package-level value changed by call: %s" % l[:120],
                              {"case": l, "impl": a, "position": i, "lines": lines})
            elif "MUTATED" in a:
                ctx.violation("caller-supplied input modified by call: %s" % l[:120],
                              {"case": l, "impl": a, "position": i, "lines": lines})
            elif gsgen.canon(a) != gsgen.canon(b):
                ctx.violation("result depends on the preceding calls (differs from the history-free result): %s" % l[:120],
                              {"case": l, "impl": a, "model": b, "position": i, "lines": lines})
        for w in wl:
            ctx.dist[w[1]] += 1
        ctx.count(str(hash(tuple(lines))))
        ctx.evaluations += len(lines) - 1
        if len(ctx.samples) < 3:
            ctx.sample({"history_length": len(lines), "first_calls": [l[:100] for l in lines[:5]]})
    ctx.extra["histories"] = nh


def replay(ctx, path):
    import json
    obj = json.load(open(path))["replay"]
    lines = obj.get("lines") or [obj["case"]]
    outs, err, rc = run_raw(ctx.harness(), lines, env=dict(os.environ, VERIF_PURE="1"), timeout=1500)
    mod = run_lines(ctx.model(), lines, env=model_env())
    for l, a, b in zip(lines, outs, mod):
        flag = "MUTATED" in a or "CONFIG-CHANGED" in a or (a != b and not l.startswith("cfgfp"))
        if flag:
            print("call :", l[:300]); print("impl :", a[:300]); print("model:", b[:300])
            ctx.violation("replay reproduces", {"case": l, "impl": a})
    ctx.count("replay")
