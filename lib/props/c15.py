"""C15 - scalar-field arithmetic agrees with integer arithmetic modulo r."""
import ecref as E
from vlib import diff, std_replay

SPEC = {
    "rule": "case = (operation, operands as raw Montgomery limbs < q); operands: cross product of per-limb boundary values "
            "{0,1,2^63,2^64-1,q_i-1,q_i,q_i+1} filtered to < q, values within +-2 of 0, q/2, q, R mod q, R^2 mod q, random; "
            "all operations of the statement incl. receiver/operand aliasing patterns; BatchInvert on lists with zeros at "
            "every position; three builds: default (ADX assembly), -tags noadx, portable _xxxGeneric functions (hook), "
            "each against the integer model and (generic functions) the limb-level Coq model; "
            "distinct = distinct (build, operation, operands)",
    "assumptions": ["amd64 assembly and the ADX / non-ADX selection are modelled, not verified (compared on "
                    "boundary-heavy inputs)", "Sqrt 'nil iff non-residue' is Euler's criterion (premise: r prime)"],
    "trusted_base": [],
}

Q = E.R
W = 1 << 64
QL = [8429901452645165025, 18415085837358793841, 922804724659942912, 2088379214866112338]


def tok(v):
    return "%x.%x.%x.%x" % (v % W, (v >> 64) % W, (v >> 128) % W, (v >> 192) % W)


def boundary_values():
    vals = set()
    per = []
    for i in range(4):
        per.append([0, 1, 1 << 63, W - 1, QL[i] - 1, QL[i], (QL[i] + 1) % W])
    for a in per[0]:
        for b in per[1]:
            for c in per[2]:
                for d in per[3]:
                    v = a + (b << 64) + (c << 128) + (d << 192)
                    if v < Q:
                        vals.add(v)
    Rm = (1 << 256) % Q
    for base in [0, Q // 2, Q, Rm, Rm * Rm % Q, 1 << 255, 1 << 192, 1 << 128, 1 << 64]:
        for d in range(-2, 3):
            v = base + d
            if 0 <= v < Q:
                vals.add(v)
    return sorted(vals)


def run(ctx):
    rng = ctx.rng
    bv = boundary_values()
    ctx.extra["boundary_values"] = len(bv)

    def rnd():
        k = rng.random()
        if k < 0.6:
            return rng.choice(bv)
        return rng.randrange(Q)

    lines, cls = [], []
    bin_ops = ["add", "addA", "addB", "addAA", "sub", "subA", "subB", "subAA", "mul", "mulA", "mulB", "mulAA", "div", "divA",
               "divB", "butterfly", "cmp"]
    un_ops = ["neg", "negA", "double", "doubleA", "square", "squareA", "inverse", "inverseA", "legendre", "sqrt", "lex",
              "frommont", "tomont"]
    gen_bin = ["gmul", "gadd", "gsub", "gbutterfly", "gmulA", "gmulB", "gmulAA", "gaddA", "gaddB", "gaddAA", "gsubA", "gsubB"]
    gen_un = ["gneg", "gdouble", "gfrommont", "greduce", "gnegA", "gdoubleA"]
    npairs = ctx.n(12000, 400000)
    for _ in range(npairs):
        a, b = rnd(), rnd()
        op = rng.choice(bin_ops + gen_bin + gen_bin)
        lines.append("fr %s %s %s" % (op, tok(a), tok(b)))
        cls.append(op)
    # comparison / lexicographic test are on CANONICAL values: operands whose canonical limbs are
    # structured (agreeing on the high words and differing in exactly one lower word, etc.)
    Rm0 = (1 << 256) % Q
    small = [0, 1, 2, (1 << 63), W - 1]
    for _ in range(ctx.n(4000, 100000)):
        hi = [rng.choice(small) for _ in range(4)]
        x = sum(hi[i] << (64 * i) for i in range(4)) % Q
        y = x
        j = rng.randrange(4)
        yl = list(hi)
        yl[j] = rng.choice(small + [rng.randrange(W)])
        y = sum(yl[i] << (64 * i) for i in range(4)) % Q
        if rng.random() < 0.15:
            x, y = rng.choice(bv), rng.choice(bv)
        lines.append("fr cmp %s %s" % (tok(x * Rm0 % Q), tok(y * Rm0 % Q)))
        cls.append("cmp-canonical")
        if rng.random() < 0.2:
            lines.append("fr lex %s" % tok(((Q - 1) // 2 + rng.randrange(-3, 4) + (rng.choice([0, 1 << 64, 1 << 128]))) % Q * Rm0 % Q))
            cls.append("lex-canonical")
    # every boundary value through every unary op (quick: a sample)
    us = bv if not ctx.quick() else rng.sample(bv, 250) + bv[:20]
    for a in us + [rng.randrange(Q) for _ in range(ctx.n(300, 20000))]:
        for op in un_ops + gen_un:
            if op in ("sqrt", "legendre", "inverse", "inverseA") and ctx.quick() and rng.random() < 0.5:
                continue
            lines.append("fr %s %s" % (op, tok(a)))
            cls.append(op)
        for c in (0, 1, 2, 3, 5, 13, 7, 255):
            if rng.random() < 0.3:
                lines.append("fr mulby %d %s" % (c, tok(a)))
                cls.append("mulby")
    # greduce is defined on values < 2q as well
    for _ in range(200):
        v = rng.choice([Q, Q + 1, 2 * Q - 1, Q + rng.randrange(Q)])
        if v < 1 << 256:
            lines.append("fr greduce %s" % tok(v))
            cls.append("greduce")
    for _ in range(ctx.n(300, 20000)):
        e = rng.choice([0, 1, 2, 3, Q - 1, Q - 2, (Q - 1) // 2, rng.randrange(Q), rng.randrange(1 << 20), (1 << 256) - 1])
        lines.append("fr exp %s %x" % (tok(rnd()), e))
        cls.append("exp")
    # squares / non-squares for Sqrt, Legendre
    Rm = (1 << 256) % Q
    for _ in range(ctx.n(300, 20000)):
        u = rng.randrange(1, Q)
        sq = u * u % Q
        lines.append("fr sqrt %s" % tok(sq * Rm % Q))
        cls.append("sqrt-square")
        lines.append("fr sqrt %s" % tok(sq * 5 % Q * Rm % Q))    # 5 * square (non-residue iff 5 is)
        cls.append("sqrt-scaled")
    # BatchInvert with zeros at every position
    for n in list(range(0, 9)) + [16, 33]:
        for zpos in range(-1, min(n, 9)):
            vs = [rnd() or 1 for _ in range(n)]
            if zpos >= 0:
                vs[zpos] = 0
            if n >= 4 and rng.random() < 0.3:
                vs[rng.randrange(n)] = 0
            lines.append(("fr batchinv " + ",".join(tok(v) for v in vs)).strip())
            cls.append("batchinv")
    lines.append("fr batchinv " + ",".join([tok(0)] * 5))
    cls.append("batchinv")
    for tags, name in ((("verif",), "default/ADX"), (("verif", "noadx"), "noadx")):
        mo = None
        impl, mod = diff(ctx, lines, "fr arithmetic [%s build]" % name, [name + ":" + c for c in cls], tags=tags,
                         keyfn=lambda l, n=name: n + l, impl_shards=4)
        # predicates on the implementation output
        for l, o in zip(lines, impl):
            t = l.split()
            if t[1] == "sqrt" and not o.startswith(("NIL", "PANIC")):
                lim = [int(x, 16) for x in o.split()[0].split(".")]
                y = sum(v << (64 * i) for i, v in enumerate(lim))
                xl = [int(x, 16) for x in t[2].split(".")]
                x = sum(v << (64 * i) for i, v in enumerate(xl))
                Ri = pow(Rm, Q - 2, Q)
                if (y * Ri) ** 2 % Q != x * Ri % Q:
                    ctx.violation("Sqrt returned a value whose square is not x", {"case": l, "impl": o})
            if "RECEIVER-CHANGED" in o:
                ctx.violation("Sqrt changed the receiver although it returned nil", {"case": l, "impl": o})


def replay(ctx, path):
    std_replay(ctx, path)
