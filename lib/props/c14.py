"""C14 - transcript challenges follow the specified hash chain."""
import ecref as E
from vlib import diff, std_replay, run_lines, model_env

SPEC = {
    "rule": "case = protocol label + sequence of DomainSep/AppendMessage/AppendScalar/AppendPoint/ChallengeScalar ops "
            "(0..64 ops quick, ..400 thorough; labels/messages 0..200 bytes incl. empty; pending buffers beyond 1024 and "
            "4096 bytes; points in Z=1 / rescaled / sign-flipped representations); all challenges compared; "
            "distinct = distinct op sequences; non-trivial = at least one challenge",
    "assumptions": ["crypto/sha256, bytes.Buffer trusted; SHA-256 modelled in Coq and validated against crypto/sha256 "
                    "on inputs around every padding boundary",
                    "collision resistance of SHA-256 is not assumed by any theorem (binding is stated on hash inputs)"],
    "trusted_base": [],
}

VECTORS = [  # published vectors of common/transcript_test.go (challenge as LE hex)
    ("tr 73696d706c655f70726f746f636f6c C:73696d706c655f6368616c6c656e6765",
     "c2aa02607cbdf5595f00ee0dd94a2bbff0bed6a2bf8452ada9011eadb538d003"),
    ("tr 73696d706c655f70726f746f636f6c S:66697665:5 S:6669766520616761696e:5 C:73696d706c655f6368616c6c656e6765",
     "498732b694a8ae1622d4a9347535be589e4aee6999ffc0181d13fe9e4d037b0b"),
    ("tr 73696d706c655f70726f746f636f6c S:2d31:%x D:7365706172617465206d65 S:2d3120616761696e:%x "
     "D:7365706172617465206d6520616761696e S:6e6f772031:1 C:73696d706c655f6368616c6c656e6765" % (E.R - 1, E.R - 1),
     "14f59938e9e9b1389e74311a464f45d3d88d8ac96adf1c1129ac466de088d618"),
    ("tr 73696d706c655f70726f746f636f6c P:67656e657261746f72:%s C:73696d706c655f6368616c6c656e6765" % E.tok(E.G),
     "8c2dafe7c0aabfa9ed542bb2cbf0568399ae794fc44fdfd7dff6cc0e6144921c"),
]


def rbytes(rng, n):
    return bytes(rng.randrange(256) for _ in range(n))


def gen_seq(rng, maxops, pts, long_class):
    label = rbytes(rng, rng.choice([0, 1, 3, 10, 15, 40]))
    ops = []
    nops = rng.randrange(0, maxops + 1)
    for _ in range(nops):
        k = rng.random()
        lab = E.hx(rbytes(rng, rng.choice([0, 1, 1, 2, 5, 12, 30])))
        if k < 0.12:
            ops.append("D:" + lab)
        elif k < 0.42:
            if long_class and rng.random() < 0.3:
                n = rng.choice([200, 500, 1024, 1100, 2000, 4096, 5000])
            else:
                n = rng.choice([0, 0, 1, 31, 32, 33, 55, 56, 63, 64, 65, 100, 119, 120, 200])
            ops.append("M:%s:%s" % (lab, E.hx(rbytes(rng, n))))
        elif k < 0.62:
            v = rng.choice([0, 1, E.R - 1, rng.randrange(E.R), rng.randrange(E.R), E.R, E.R + 5, 2 ** 256 - 1])
            ops.append("S:%s:%x" % (lab, v))
        elif k < 0.8:
            p = rng.choice(pts)
            rep = rng.randrange(4)
            l = 1 if rep == 0 else rng.randrange(2, E.P)
            ops.append("P:%s:%s" % (lab, E.tok(p, l=l, flip=(rep >= 2))))
        else:
            ops.append("C:" + lab)
    if rng.random() < 0.8:
        ops.append("C:" + E.hx(rbytes(rng, rng.choice([0, 1, 5, 16]))))
        if rng.random() < 0.3:
            ops.append("C:" + E.hx(rbytes(rng, 3)))
    return "tr %s %s" % (E.hx(label), " ".join(ops))


def digest_targets(rng, per_window):
    """transcripts whose FIRST challenge digest (as a little-endian integer) lies just below / just above a
    multiple of r - the reduction boundaries - found by search over a counter message (python hashlib is the
    searcher only; the expected values come from the model).  Each is followed by further challenges, so the
    re-absorbed (reduced) scalar matters."""
    import hashlib
    out = []
    proto, lab, clab = b"dg", b"m", b"c"
    wins = []
    for k in range(1, 9):
        wins.append(("just above %dr" % k, k * E.R, k * E.R + (1 << 240)))
        wins.append(("just below %dr" % k, k * E.R - (1 << 240), k * E.R))
    found = {w[0]: 0 for w in wins}
    ctr = rng.randrange(1 << 40)
    tries = 0
    while any(v < per_window for v in found.values()) and tries < 3000000:
        tries += 1
        ctr += 1
        msg = ctr.to_bytes(8, "little")
        v = int.from_bytes(hashlib.sha256(proto + lab + msg + clab).digest(), "little")
        for name, lo, hi in wins:
            if lo <= v < hi and v < (1 << 256) and found[name] < per_window:
                found[name] += 1
                out.append(("tr %s M:%s:%s C:%s C:%s S:73:%x C:%s C:" % (E.hx(proto), E.hx(lab), E.hx(msg), E.hx(clab), E.hx(b"c2"),
                                                                         rng.randrange(E.R), E.hx(b"c3")), name))
    return out


def run(ctx):
    rng = ctx.rng
    # SHA-256 model validation around padding boundaries
    sha = ["sha " + E.hx(rbytes(rng, n)) for n in list(range(0, 130)) + [183, 184, 191, 192, 193, 247, 248, 300, 1000]]
    diff(ctx, sha, "sha256 model vs crypto/sha256", ["sha"] * len(sha), nontrivial=[False] * len(sha))
    # published vectors: the MODEL must reproduce them (anchor to the specification), and so must the code
    vl = [v[0] for v in VECTORS]
    impl, mod = diff(ctx, vl, "published transcript vectors", ["vector"] * len(vl))
    for (l, want), a, b in zip(VECTORS, impl, mod):
        for who, o in (("implementation", a), ("model", b)):
            got = int(o.split()[1], 16).to_bytes(32, "little").hex()
            if got != want:
                if who == "model":
                    from vlib import FrameworkError
                    raise FrameworkError("model does not reproduce published vector " + l)
                ctx.violation("implementation does not reproduce the published vector", {"case": l, "impl": o})
    pts = [E.G, E.ID, (0, E.P - 1)] + [E.rand_point(rng) for _ in range(6)]
    lines, classes, nt = [], [], []
    maxops = 64 if ctx.quick() else 160
    for i in range(ctx.n(500, 6000)):
        long_class = (i % 4 == 0)
        l = gen_seq(rng, maxops if i % 10 else 8, pts, long_class)
        lines.append(l)
        classes.append("long-pending" if long_class else "short")
        nt.append(" C:" in l)
    # multiproof-like shape: many (C, z, y) appends before the first challenge
    for n in (11, 12, 40, 100):
        ops = []
        for i in range(n):
            ops.append("P:43:%s" % E.tok(rng.choice(pts)))
            ops.append("S:7a:%x" % rng.randrange(256))
            ops.append("S:79:%x" % rng.randrange(E.R))
        lines.append("tr 6d756c746970726f6f66 D:6d756c746970726f6f66 " + " ".join(ops) + " C:72 C:74")
        classes.append("multiproof-shape")
        nt.append(True)
    for l, name in digest_targets(rng, 1 if ctx.quick() else 6):
        lines.append(l)
        classes.append("digest " + name)
        nt.append(True)
    diff(ctx, lines, "transcript", classes, nt)


def replay(ctx, path):
    std_replay(ctx, path)
