"""C20 - parallel range splitter. Correspondence: parallel.Execute vs execute_ranges."""
import json

SPEC = {
    "rule": "case = (n, m, mode); mode in {plain, with scheduling delays, default worker count under taskset}; "
            "distinct = distinct (n, m, mode); non-trivial = n >= 1",
    "assumptions": [
        "m >= 1 (m = 0 divides by zero in the Go code and is outside the property)",
        "Go runtime scheduling / sync.WaitGroup semantics are modelled by the spawn/finish/return transition "
        "system of Model/Parallel.v, not verified",
    ],
    "trusted_base": ["taskset(1) restricts runtime.NumCPU"],
}


def gen(ctx):
    cases = []
    if ctx.quick():
        for n in range(0, 301):
            for m in range(1, 65):
                cases.append(("exec", n, m))
        for _ in range(ctx.n(2000, 0)):
            cases.append(("exec", ctx.rng.randint(0, 2048), ctx.rng.randint(1, 300)))
        for _ in range(ctx.n(300, 0)):
            cases.append(("execs", ctx.rng.randint(0, 400), ctx.rng.randint(1, 64)))
    else:
        for n in range(0, 2049):
            for m in range(1, 301):
                cases.append(("exec", n, m))
        for _ in range(ctx.n(0, 5000)):
            cases.append(("execs", ctx.rng.randint(0, 600), ctx.rng.randint(1, 300)))
    return cases


def run(ctx):
    h = ctx.harness()
    m = ctx.model()
    cases = gen(ctx)
    lines = ["%s %d %d" % c for c in cases]
    from vlib import run_lines
    impl = run_lines(h, lines)
    mod = run_lines(m, lines)
    ctx.compare(lines, impl, mod, "Execute ranges")
    for c in cases:
        ctx.count(c, nontrivial=c[1] >= 1, cls=c[0])
    # default worker count under restricted CPU affinity
    cpusets = [1, 2, 7, 16] if ctx.quick() else list(range(1, 17))
    for k in cpusets:
        ns = list(range(0, 70)) + [ctx.rng.randint(70, 2048) for _ in range(30)]
        dl = ["execd %d %d" % (n, k) for n in ns]
        impl = run_lines(h, dl, cpus=list(range(k)), shards=1)
        mod = run_lines(m, dl, shards=1)
        ctx.compare(dl, impl, mod, "Execute default worker count NumCPU=%d" % k)
        for n in ns:
            ctx.count(("execd", n, k), nontrivial=n >= 1, cls="execd")
    ctx.sample({"case": lines[1234], "impl": impl[0] if False else None})
    ctx.samples = [{"case": lines[i], "result": r} for i, r in
                   [(1234, None), (len(lines) - 1, None)]]
    ctx.samples = [{"case": lines[i], "impl_and_model": run_lines(m, [lines[i]], shards=1)[0]}
                   for i in (650, 19000 % len(lines), len(lines) - 1)]
    ctx.extra["exhaustive"] = not ctx.quick()
    ctx.extra["grid"] = "n in 0..300 x m in 1..64 + random" if ctx.quick() else "n in 0..2048 x m in 1..300 (the property's full grid)"


def replay(ctx, path):
    obj = json.load(open(path))
    case = obj["replay"]["case"]
    from vlib import run_lines
    impl = run_lines(ctx.harness(), [case], shards=1)
    mod = run_lines(ctx.model(), [case], shards=1)
    print("case :", case)
    print("impl :", impl[0])
    print("model:", mod[0])
    ctx.compare([case], impl, mod, "replay")
    ctx.count(case)
