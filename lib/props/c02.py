"""C02 - verifier accepts exactly what the reference verifier accepts."""
import ecref as E
import mpgen
from vlib import diff, std_replay, run_lines, model_env

SPEC = {
    "rule": "case = (label, Cs, zs, ys, proof) given to CheckMultiProof and to the model verifier: honest statements, "
            "every single-component perturbation (each C_i, z_i+-1, y_i+1/random, D, each L_j, each R_j, final scalar, "
            "label, swap/drop/duplicate of openings), splices of two honest proofs, re-representation only, arbitrary "
            "valid elements/scalars, and all shape errors (0/7/9 L/R points, unequal L/R, zero openings, length "
            "mismatches); observable: (decision, error) and next challenge; predicates: every perturbed case is not "
            "accepted, re-represented honest cases are accepted; distinct = distinct cases",
    "assumptions": ["cryptographic soundness (no adversarial proof verifies) is outside any executable model; decided as: "
                    "the verifier computes exactly the specified verification predicate (refinement to the reference "
                    "verifier) and every component is bound into a hash input or the final equation"],
    "trusted_base": [],
}

R, P = E.R, E.P


def perturbations(rng, m, p, other, full, light=False):
    """yield (class, label, proofhex, ctoks, zs, ys, must_accept)"""
    n = m["n"]
    if light:
        # many openings: the honest statement, one wrong value, one opening more / less
        label, zs, ys = m["label"], list(m["zs"]), list(p["ys"])
        ctoks = [E.tok(mpgen.point_from_bytes(c)) for c in p["cs"]]
        yield ("honest (many openings)", label, p["proof"], ctoks, zs, ys, True)
        i = rng.randrange(n)
        y2 = list(ys)
        y2[i] = "%x" % ((int(ys[i], 16) + 1) % R)
        yield ("y_i + 1 (many openings)", label, p["proof"], ctoks, zs, y2, False)
        yield ("opening dropped (many openings)", label, p["proof"], ctoks[:-1], zs[:-1], ys[:-1], False)
        yield ("opening duplicated (many openings)", label, p["proof"], ctoks + ctoks[-1:], zs + zs[-1:], ys + ys[-1:], False)
        return
    label, zs, ys = m["label"], list(m["zs"]), list(p["ys"])
    pts = [mpgen.point_from_bytes(c) for c in p["cs"]]
    ctoks = [E.tok(q) for q in pts]
    proof = p["proof"]
    yield ("honest", label, proof, ctoks, zs, ys, True)
    # representation only
    toks2 = [E.tok(q, l=rng.randrange(2, P), flip=bool(rng.randrange(2))) for q in pts]
    yield ("re-represented", label, proof, toks2, zs, ys, True)
    idxs = range(n) if (full or n <= 3) else rng.sample(range(n), 3)
    for i in idxs:
        c2 = list(ctoks)
        c2[i] = E.tok(E.rand_point(rng))
        yield ("C_i changed", label, proof, c2, zs, ys, False)
        c2 = list(ctoks)
        c2[i] = E.tok(E.add(pts[i], E.G))
        yield ("C_i + G", label, proof, c2, zs, ys, False)
        for d in (1, -1):
            z2 = list(zs)
            z2[i] = (zs[i] + d) % 256
            yield ("z_i +-1", label, proof, ctoks, z2, ys, False)
        y2 = list(ys)
        y2[i] = "%x" % ((int(ys[i], 16) + 1) % R)
        yield ("y_i + 1", label, proof, ctoks, zs, y2, False)
        y2 = list(ys)
        y2[i] = "%x" % rng.randrange(R)
        yield ("y_i random", label, proof, ctoks, zs, y2, False)
    pb = bytes.fromhex(proof)
    other_pt = E.compress(E.rand_point(rng))
    fields = range(17) if full else [0] + rng.sample(range(1, 17), 4)
    for f in fields:
        q = pb[:32 * f] + other_pt + pb[32 * (f + 1):]
        yield (["D", "L_j", "R_j"][0 if f == 0 else (1 if f <= 8 else 2)] + " changed", label, q.hex(), ctoks, zs, ys, False)
        # neighbouring element: field + G
        cur = mpgen.point_from_bytes(pb[32 * f:32 * (f + 1)].hex())
        q = pb[:32 * f] + E.compress(E.add(cur, E.G)) + pb[32 * (f + 1):]
        yield ("field + G", label, q.hex(), ctoks, zs, ys, False)
    a = int.from_bytes(pb[544:], "little")
    for a2 in ((a + 1) % R, (a - 1) % R, rng.randrange(R), 0):
        if a2 != a:
            yield ("final scalar changed", label, (pb[:544] + a2.to_bytes(32, "little")).hex(), ctoks, zs, ys, False)
    yield ("label changed", label + b"x", proof, ctoks, zs, ys, False)
    yield ("label changed", (label[:-1] + bytes([label[-1] ^ 1])) if label else b"\x00", proof, ctoks, zs, ys, False)
    if n >= 2:
        i, j = rng.sample(range(n), 2)
        if (p["cs"][i], zs[i], ys[i]) != (p["cs"][j], zs[j], ys[j]):
            c2, z2, y2 = list(ctoks), list(zs), list(ys)
            c2[i], c2[j] = c2[j], c2[i]
            z2[i], z2[j] = z2[j], z2[i]
            y2[i], y2[j] = y2[j], y2[i]
            yield ("two openings swapped", label, proof, c2, z2, y2, False)
        yield ("opening dropped", label, proof, ctoks[:-1], zs[:-1], ys[:-1], False)
    yield ("opening duplicated", label, proof, ctoks + ctoks[-1:], zs + zs[-1:], ys + ys[-1:], False)
    if other is not None:
        ob = bytes.fromhex(other["proof"])
        yield ("splice D|IPA", label, (pb[:32] + ob[32:]).hex(), ctoks, zs, ys, False)
        yield ("splice IPA|D", label, (ob[:32] + pb[32:]).hex(), ctoks, zs, ys, False)
        yield ("splice L|R", label, (pb[:288] + ob[288:]).hex(), ctoks, zs, ys, False)
        yield ("foreign proof", label, other["proof"], ctoks, zs, ys, False)


def run(ctx):
    rng = ctx.rng
    ns = [1, 2, 3, 5, 9] if ctx.quick() else [1, 1, 2, 2, 3, 4, 5, 8, 16, 17, 40] * 3
    sts = []
    for n in ns:
        sts.append(mpgen.statement(rng, n, max_dense=1))
    # exactly 256 (and 257) openings at ONE evaluation point (per-point counters, tables indexed by count)
    for n in ([256, 257] if ctx.quick() else [255, 256, 257, 512]):
        z = rng.randrange(256)
        sp, _ = mpgen.poly_spec(rng, "s")
        sp2, _ = mpgen.poly_spec(rng, "s")
        ops = ["n %d %s" % (z, sp), "k %d %s" % (z, sp2)] + ["p%d %d %s" % (i % 2, z, (sp, sp2)[i % 2]) for i in range(2, n)]
        lab = b"many"
        sts.append(("mpc %s 1 - %s" % (E.hx(lab), " ".join(ops)),
                    {"n": n, "zpat": "equal-%d" % n, "label": lab, "zs": [z] * n, "light": True}))
    out = run_lines(ctx.harness(), [s[0] for s in sts], shards=2)
    honest = []
    for (l, m), o in zip(sts, out):
        p = mpgen.parse_mpc_out(o)
        if p is None:
            ctx.violation("CreateMultiProof failed on an honest statement", {"case": l, "impl": o})
        else:
            honest.append((m, p))
    lines, cls, expect = [], [], []
    for k, (m, p) in enumerate(honest):
        other = honest[(k + 1) % len(honest)][1] if len(honest) > 1 else None
        for (c, label, proof, ctoks, zs, ys, acc) in perturbations(rng, m, p, other, full=(not ctx.quick()) or m["n"] <= 2,
                                                                   light=m.get("light", False)):
            lines.append(mpgen.mpv_line(label, proof, ctoks, zs, ys))
            cls.append(c)
            expect.append(acc)
    # arbitrary well-formed elements and scalars
    for _ in range(ctx.n(10, 300)):
        n = rng.randrange(1, 4)
        pb = b"".join(E.compress(E.rand_point(rng)) for _ in range(17)) + rng.randrange(R).to_bytes(32, "little")
        lines.append(mpgen.mpv_line(b"arb", pb.hex(), [E.tok(E.rand_point(rng)) for _ in range(n)],
                                    [rng.randrange(256) for _ in range(n)], ["%x" % rng.randrange(R) for _ in range(n)]))
        cls.append("arbitrary elements")
        expect.append(False)
    impl, mod = diff(ctx, lines, "CheckMultiProof decision", cls, impl_shards=4)
    for l, o, om, c, acc in zip(lines, impl, mod, cls, expect):
        ok = o.startswith("true")
        if acc and not ok:
            ctx.violation("valid statement (%s) rejected: %s" % (c, o[:30]), {"case": l, "impl": o, "class": c})
        if (not acc) and ok:
            if om.startswith("true"):
                # the perturbation did not make the statement false (degenerate statements: the zero polynomial
                # opens to 0 at every point, and its all-identity proof verifies under every label); the
                # reference verifier accepts as well - counted, not a finding
                ctx.dist["perturbation left the statement valid (accepted by the reference verifier too)"] += 1
            else:
                ctx.violation("perturbed statement (%s) ACCEPTED" % c, {"case": l, "impl": o, "class": c})
    # the decision is a function of the call's inputs: honest and perturbed statements right after calls that
    # fail in different places (inside the IPA check, in the shape checks), all in ONE process, in this order
    hl, hc = [], []
    hon = [(l, c, a) for l, c, a in zip(lines, cls, expect) if c in ("honest", "re-represented", "y_i + 1", "y_i random")
           and len(l) < 20000]
    for (l, c, a) in hon[: (24 if ctx.quick() else 400)]:
        pre = rng.choice(["mpvs 73 7 7 1 1 1", "mpvs 73 9 9 2 2 2", "mpvs 73 8 7 1 1 1", "mpvs 73 8 8 2 1 2", "mpvs 73 7 7 3 3 3"])
        hl += [pre, l, l]
        hc += ["history:failing call", "history:" + c, "history:" + c + " again"]
    himpl, _ = diff(ctx, hl, "CheckMultiProof after failing calls (one process)", hc, shards=1, impl_shards=1)
    for l, o, c in zip(hl, himpl, hc):
        if c.startswith("history:honest") or c.startswith("history:re-represented"):
            if not o.startswith("true"):
                ctx.violation("valid statement rejected after a failing call: %s" % o[:30], {"case": l, "impl": o, "class": c, "lines": hl})
        elif c.startswith("history:y_i") and o.startswith("true"):
            ctx.violation("false statement ACCEPTED after a failing call", {"case": l, "impl": o, "class": c, "lines": hl})
    # (a wrong VALUE y_i is never a valid claim, whatever the polynomial: that predicate stays unconditional)
    # shapes
    sl, sc = [], []
    for (nl, nr, nc, ny, nz) in [(8, 8, 1, 1, 1), (0, 0, 1, 1, 1), (7, 7, 1, 1, 1), (9, 9, 1, 1, 1), (8, 7, 1, 1, 1), (7, 8, 1, 1, 1),
                                 (8, 9, 2, 2, 2), (8, 8, 0, 0, 0), (8, 8, 2, 1, 2), (8, 8, 2, 2, 1), (8, 8, 1, 2, 2), (8, 8, 0, 1, 0),
                                 (8, 8, 3, 3, 3), (16, 16, 1, 1, 1), (1, 1, 1, 1, 1), (8, 0, 1, 1, 1), (0, 8, 1, 1, 1), (255, 255, 1, 1, 1)]:
        sl.append("mpvs 73 %d %d %d %d %d" % (nl, nr, nc, ny, nz))
        sc.append("shape")
    impl, _ = diff(ctx, sl, "CheckMultiProof shape handling", sc)
    for l, o in zip(sl, impl):
        t = list(map(int, l.split()[2:]))
        well = (t[0] == 8 and t[1] == 8 and t[2] == t[3] == t[4] and t[2] > 0)
        if o.startswith("true") or o.startswith("PANIC") or "BUT-TRUE" in o or (not well and o != "ERR"):
            ctx.violation("mis-shaped statement not rejected with an error: %s" % o[:40], {"case": l, "impl": o})


def replay(ctx, path):
    std_replay(ctx, path)
