"""C06 - untrusted point decoding accepts exactly canonical subgroup encodings."""
import ecref as E
from vlib import diff, std_replay

SPEC = {
    "rule": "case = (decoder in {SetBytes, ReadPoint, SetBytesUncompressed(untrusted)}, byte string); classes: "
            "encodings of valid elements (accept), x+p / x+2p aliases, x on curve with 1-ax^2 non-square (wrong "
            "subgroup), off-curve x, boundary integers 0,1,p-1,p,p+1,2^256-1, lengths 0..33 / 63..65, both signs of y, "
            "y+p, swapped halves, random strings; observables: error flag and Bytes()/uncompressed bytes of the result; "
            "predicate on the implementation output: accepted input re-encodes to exactly the input; distinct = "
            "distinct (decoder, string)",
    "assumptions": ["'order divides r' for accepted points is the premise BW_exponent_r (needs point counting)"],
    "trusted_base": [],
}

P = E.P


def classes_of_x(rng):
    """returns dict class -> x (int)"""
    out = {}
    while len(out) < 3:
        x = rng.randrange(P)
        y = E.y_from_x(x)
        if y is None:
            out.setdefault("off-curve", x)
        elif E.in_subgroup_x(x):
            out.setdefault("valid", x)
        else:
            out.setdefault("wrong-subgroup", x)
    return out


def run(ctx):
    rng = ctx.rng
    lines, cls = [], []

    def add(kind, b, c):
        lines.append("dec %s %s" % (kind, E.hx(b)))
        cls.append(kind + ":" + c)

    def both_compressed(b, c):
        add("c", b, c)
        add("r", b, c)

    for _ in range(ctx.n(250, 25000)):
        for c, x in classes_of_x(rng).items():
            y = E.y_from_x(x)
            both_compressed(x.to_bytes(32, "big"), c)
            if c != "off-curve":
                # the canonical encoding is x*sign(y): both x and -x are x-coordinates on the curve
                both_compressed(((-x) % P).to_bytes(32, "big"), c + "-negx")
            for k in (1, 2):
                if x + k * P < 2 ** 256:
                    both_compressed((x + k * P).to_bytes(32, "big"), c + "-alias+%dp" % k)
            if y is not None:
                ylarge = y if E.lex_largest(y) else (-y) % P
                ysmall = (-ylarge) % P
                xb = x.to_bytes(32, "big")
                add("u", xb + ylarge.to_bytes(32, "big"), c + "-ylargest")
                add("u", xb + ysmall.to_bytes(32, "big"), c + "-ysmallest")
                add("u", ylarge.to_bytes(32, "big") + xb, c + "-swapped")
                if ylarge + P < 2 ** 256:
                    add("u", xb + (ylarge + P).to_bytes(32, "big"), c + "-y+p")
                for k in (1, 2):
                    if x + k * P < 2 ** 256:
                        add("u", (x + k * P).to_bytes(32, "big") + ylarge.to_bytes(32, "big"), c + "-xalias+%dp" % k)
                add("u", xb + rng.randrange(P).to_bytes(32, "big"), c + "-wrong-y")
            else:
                add("u", x.to_bytes(32, "big") + rng.randrange(P).to_bytes(32, "big"), c)
    for v in [0, 1, 2, P - 2, P - 1, P, P + 1, 2 * P - 1, 2 * P, 2 ** 255, 2 ** 256 - 1, (P - 1) // 2, (P + 1) // 2]:
        both_compressed(v.to_bytes(32, "big"), "boundary")
        for w in [0, 1, P - 1, P, 2 ** 256 - 1]:
            add("u", v.to_bytes(32, "big") + w.to_bytes(32, "big"), "boundary")
    good = E.compress(E.rand_point(rng))
    gp = E.rand_point(rng)
    if not E.lex_largest(gp[1]):
        gp = ((-gp[0]) % P, (-gp[1]) % P)       # the member of the class with the canonical sign of y: a VALID 64-byte encoding
    goodu = E.uncompressed(gp)
    for n in list(range(0, 34)) + [63, 64, 65, 100]:
        both_compressed((good + good)[:n], "length-%s" % ("32" if n == 32 else "bad"))
        add("u", (goodu + goodu)[:n], "length-%s" % ("64" if n == 64 else "bad"))
    for _ in range(ctx.n(500, 100000)):
        both_compressed(bytes(rng.randrange(256) for _ in range(32)), "random")
        add("u", bytes(rng.randrange(256) for _ in range(64)), "random")
    impl, mod = diff(ctx, lines, "untrusted decoding", cls)
    acc = 0
    for l, o in zip(lines, impl):
        t = o.split()
        if t and t[0] == "OK":
            acc += 1
            kind, inp = l.split()[1], l.split()[2]
            back = t[1] if kind in ("c", "r") else t[2]
            if kind == "r":
                inp = inp[:64]      # ReadPoint consumes the first 32 bytes of the stream
            if back != inp:
                ctx.violation("accepted input does not re-encode to the same bytes (two encodings of one element)",
                              {"case": l, "impl": o})
    # the untrusted decoders are functions of their input: the same strings after the TRUSTED decoders
    # (SetBytesUnsafe, SetBytesUncompressed(trusted)) have seen them, in one process, in this order
    hl, hc = [], []
    for _ in range(ctx.n(40, 2000)):
        for c, x in classes_of_x(rng).items():
            y = E.y_from_x(x)
            xb = x.to_bytes(32, "big")
            seq = [("x", xb), ("c", xb), ("r", xb), ("x", xb), ("c", xb)]
            if y is not None:
                for yy in (y, (-y) % P):
                    ub = xb + yy.to_bytes(32, "big")
                    seq += [("t", ub), ("u", ub), ("t", ub), ("u", ub), ("c", xb)]
            for kind, b in seq:
                hl.append("dec %s %s" % (kind, E.hx(b)))
                hc.append("history:" + c + ":" + kind)
    diff(ctx, hl, "decoding after trusted decoding of the same bytes (one process)", hc, shards=1, impl_shards=1)
    ctx.extra["accepted_inputs"] = acc
    ctx.extra["rejected_inputs"] = len(lines) - acc


def replay(ctx, path):
    std_replay(ctx, path)
