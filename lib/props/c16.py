"""C16 - scalar encodings: round trip, reduce / reject exactly, input left intact."""
import ecref as E
from vlib import diff, std_replay

SPEC = {
    "rule": "case = (decoder kind in {be, le, le-canonical}, byte string of length 0..64) or (scalar to encode); "
            "observables: decoded integer / error, caller's buffer after the call, second decode of the same buffer; "
            "distinct = distinct case lines; non-trivial = non-empty input",
    "assumptions": ["math/big and encoding/binary are trusted (modelled as integer <-> byte-list conversion)"],
    "trusted_base": [],
}

R = E.R


def strings(ctx):
    rng = ctx.rng
    out = []
    specials = [0, 1, 2, R - 2, R - 1, R, R + 1, 2 * R - 1, 2 * R, 2 * R + 1, 3 * R, 2 ** 253, 2 ** 255 - 1, 2 ** 255,
                2 ** 256 - 1, R // 2, (R - 1) // 2 + 1, E.P - 1, E.P, 2 ** 64 - 1, 2 ** 64, 2 ** 128, 2 ** 192]
    for v in specials:
        for order in ("big", "little"):
            out.append(("special", v.to_bytes(32, order)))
            out.append(("special-long", v.to_bytes(40, order)))
            if v < 2 ** 248:
                out.append(("special-short", v.to_bytes(31, order)))
    for n in range(0, 65):
        out.append(("len", bytes(rng.randrange(256) for _ in range(n))))
        out.append(("len-ff", b"\xff" * n))
        out.append(("len-zeros", b"\x00" * n))
    # every combination of per-limb choices around the limbs of r (a limb-wise comparison with r must get
    # every "equal so far, then greater / smaller" pattern right)
    rl = [(R >> (64 * i)) & (2 ** 64 - 1) for i in range(4)]
    import itertools
    for ch in itertools.product(range(6), repeat=4):
        limbs = []
        for i, c in enumerate(ch):
            limbs.append([rl[i], (rl[i] - 1) % 2 ** 64, (rl[i] + 1) % 2 ** 64, 0, 2 ** 64 - 1, rng.randrange(2 ** 64)][c])
        v = sum(l << (64 * i) for i, l in enumerate(limbs))
        out.append(("limbs-around-r", v.to_bytes(32, "little")))
        if rng.random() < 0.15:
            out.append(("limbs-around-r", v.to_bytes(32, "big")))
    n_rand = ctx.n(4000, 400000)
    for _ in range(n_rand):
        k = rng.random()
        if k < 0.5:
            b = rng.randrange(2 ** 256).to_bytes(32, "big")
            cls = "rand32"
        elif k < 0.7:
            v = R + rng.randrange(-3, 4) * rng.choice([0, 1, 1, 2 ** 8, 2 ** 64])
            b = (v % 2 ** 256).to_bytes(32, rng.choice(["big", "little"]))
            cls = "near-r"
        elif k < 0.85:
            n = rng.randrange(0, 65)
            b = bytes(rng.randrange(256) for _ in range(n))
            cls = "randlen"
        else:
            n = rng.randrange(1, 33)
            z = rng.randrange(0, 33 - n)
            b = b"\x00" * z + bytes(rng.randrange(256) for _ in range(n)) + b"\x00" * (32 - n - z)
            cls = "zero-padded"
        out.append((cls, b))
    return out


def run(ctx):
    lines, classes, nt = [], [], []
    for cls, b in strings(ctx):
        for kind in ("be", "le", "lec"):
            lines.append("frdec %s %s" % (kind, E.hx(b)))
            classes.append(kind + ":" + cls)
            nt.append(len(b) > 0)
    rng0 = ctx.rng
    for v in [0, 1, R - 1, R, R + 1, R + 5, 2 * R, 2 ** 256 - 1, 2 ** 256, 2 ** 300 + 7] + [rng0.randrange(2 ** 260) for _ in range(ctx.n(40, 2000))]:
        for neg in ("", " neg"):
            lines.append("frbig %x%s" % (v, neg))
            classes.append("bigint" + neg)
            nt.append(True)
    impl, _ = diff(ctx, lines, "fr decoders", classes, nt)
    # property-level predicates on the implementation's own output
    for l, o in zip(lines, impl):
        if not l.startswith("frdec "):
            continue
        t = o.split()
        inp = l.split()[2]
        if len(t) == 3 and t[1] != inp:
            ctx.violation("decoder modified the caller's buffer: %s" % l[:200], {"case": l, "impl": o})
        elif len(t) == 3 and t[0] != t[2]:
            ctx.violation("decoding the same buffer twice gives two results: %s" % l[:200], {"case": l, "impl": o})
    # encoders + round trip through the implementation
    rng = ctx.rng
    scal = [0, 1, 2, R - 1, R - 2, (R - 1) // 2, (R + 1) // 2, 2 ** 64 - 1, 2 ** 64, 2 ** 128 - 1, 2 ** 192, 2 ** 252]
    scal += [rng.randrange(R) for _ in range(ctx.n(500, 50000))]
    enc = ["frenc %x" % s for s in scal]
    impl, _ = diff(ctx, enc, "fr encoders", ["enc"] * len(enc))
    back = []
    for s, o in zip(scal, impl):
        t = o.split()
        if len(t) == 2:
            back.append("frdec be " + t[0])
            back.append("frdec le " + t[1])
            back.append("frdec lec " + t[1])
    impl2, _ = diff(ctx, back, "fr round trip", ["roundtrip"] * len(back))
    for i, o in enumerate(impl2):
        want = "%x" % scal[i // 3]
        if o.split()[:1] != [want]:
            ctx.violation("round trip decode(encode(s)) != s for s=%s" % want, {"case": back[i], "impl": o})
    fpl = ["fpencle %x" % v for v in [0, 1, E.P - 1, E.P // 2] + [rng.randrange(E.P) for _ in range(ctx.n(200, 5000))]]
    diff(ctx, fpl, "fp.BytesLE", ["fpencle"] * len(fpl))


def replay(ctx, path):
    std_replay(ctx, path)
