"""C09 - variable-base MSM correct for every size and parallelism setting."""
import ecref as E
from vlib import diff, std_replay, run_lines, model_env

SPEC = {
    "rule": "case = (entry point in {ipa.MultiScalar, banderwagon.MultiExp, bandersnatch.MultiExp}, NbTasks, scalar form, "
            "points, scalars) compared with the model's sum s_i*P_i; via hook: msmInnerPointProj for EACH implemented "
            "window c in {4..16,20,21,22} x {first chunk split, not split}, and partitionScalars' packed digits (raw limbs "
            "and small-value count) vs the limb-level Coq model for each c. sizes n in {0,1,2,3,5,8,...,4096} crossing "
            "the cost-model thresholds; NbTasks in {0,1,2,3,7,16,64,1024}; scalar sets: random, all small (<2^c: split "
            "path), ~10% small, zeros, ones, r-1, digit patterns 2^(c-1) / all-ones carry chains across limb boundaries; "
            "points: random, duplicates, identity; length mismatch -> error; watchdog per call; "
            "distinct = distinct cases; non-trivial = n>=1",
    "assumptions": ["bestC's float cost model is not modelled: the theorems hold for every window c and split count",
                    "goroutine/channel plumbing of msmC* is modelled by the fan-in transition system (C12), not verified"],
    "trusted_base": [],
}

R = E.R
CS = [4, 5, 6, 7, 8, 9, 10, 11, 12, 13, 14, 15, 16, 20, 21, 22]


def scalar_set(rng, n, kind, c=8):
    if kind == "random":
        return [rng.randrange(R) for _ in range(n)]
    if kind == "small":
        return [rng.randrange(1, 1 << min(c, 16)) for _ in range(n)]
    if kind == "10pct-small":
        return [rng.randrange(1, 1 << 4) if i % 10 == 0 or rng.random() < 0.02 else rng.randrange(R) for i in range(n)]
    if kind == "zeros":
        return [0] * n
    if kind == "ones":
        return [1] * n
    if kind == "max":
        return [R - 1] * n
    if kind == "half-digits":
        out = []
        for _ in range(n):
            v = 0
            for j in range(0, 256, c):
                if rng.random() < 0.6:
                    v |= (1 << (c - 1)) << j
            out.append(v % R)
        return out
    if kind == "carry-chain":
        out = []
        for _ in range(n):
            lo = rng.randrange(0, 200)
            ln = rng.randrange(1, 252 - lo)
            v = ((1 << ln) - 1) << lo
            v |= rng.randrange(1 << max(lo, 1)) if rng.random() < 0.5 else 0
            out.append(v % R)
        return out
    if kind == "mont-sparse":
        # small / sparse INTERNAL (Montgomery) representation, and one-word values with high bits set
        rinv = pow(1 << 256, -1, R)
        pats = [1, 255, 1 << 63, (1 << 64) - 1, 0xf800000000000000, 0xfff8000000000000, rng.randrange(1 << 64)]
        return [rng.choice([rng.choice(pats) * rinv % R, rng.choice(pats), (rng.choice(pats) << 64) * rinv % R]) for _ in range(n)]
    if kind == "mixed":
        return [rng.choice([0, 1, R - 1, rng.randrange(R), rng.randrange(1 << 10), 1 << rng.randrange(253)]) for _ in range(n)]
    raise ValueError(kind)


KINDS = ["random", "small", "10pct-small", "zeros", "ones", "max", "half-digits", "carry-chain", "mixed", "mont-sparse", "mont-sparse"]


def point_set(rng, n, pool):
    k = rng.random()
    if k < 0.6:
        pts = [rng.choice(pool) for _ in range(n)]
    elif k < 0.8:
        few = [rng.choice(pool) for _ in range(3)]
        pts = [rng.choice(few) for _ in range(n)]        # many duplicates
    else:
        pts = [rng.choice(pool + [E.ID, E.ID, (0, E.P - 1)]) for _ in range(n)]
    toks = []
    for p in pts:
        rep = rng.randrange(3)
        toks.append(E.tok(p, l=(1 if rep == 0 else rng.randrange(2, E.P)), flip=(rep == 2)))
    return ",".join(toks) or "-"


def run(ctx):
    rng = ctx.rng
    pool = [E.rand_point(rng) for _ in range(200)]
    lines, cls, nt = [], [], []

    def hexs(ss):
        return ",".join("%x" % s for s in ss) or "-"

    # public entry points
    if ctx.quick():
        ns = [0, 1, 2, 3, 4, 5, 8, 9, 16, 17, 31, 33, 64, 65, 127, 128, 129, 143, 255, 256, 257, 300]
        big = [(1000, "small"), (4096, "small"), (2048, "10pct-small")]
    else:
        ns = list(range(0, 70)) + [100, 127, 128, 129, 143, 200, 255, 256, 257, 300, 500, 511, 512, 513, 1000, 1023, 1024, 1025]
        big = [(2048, "random"), (4096, "small"), (4096, "10pct-small"), (4097, "mixed"), (5000, "random")]
    tasks = [0, 1, 2, 3, 7, 16, 64, 1024]
    for n in ns:
        for rep in range(2 if ctx.quick() else 6):
            kind = rng.choice(KINDS)
            ss = scalar_set(rng, n, kind, c=rng.choice([4, 8, 16]))
            ent = rng.choice(["bw", "bw", "bs", "ms"])
            nb = rng.choice(tasks)
            mont = rng.randrange(2)
            lines.append("msmx %s %d %d %s %s" % (ent, nb, mont, point_set(rng, n, pool), hexs(ss)))
            cls.append("api n=%s %s nb=%d mont=%d %s" % (("%d" % n if n < 20 else "%d+" % (n // 50 * 50)), ent, nb, mont, kind))
            nt.append(n >= 1)
    # tiny inputs systematically: every entry point x scalar form x a few task counts
    for n in (1, 2, 3):
        for ent in ("bw", "bs"):
            for mont in (0, 1):
                for nb in (0, 1, 16):
                    ss = scalar_set(rng, n, rng.choice(["random", "mixed", "mont-sparse", "max"]))
                    lines.append("msmx %s %d %d %s %s" % (ent, nb, mont, point_set(rng, n, pool), hexs(ss)))
                    cls.append("api tiny n=%d %s nb=%d mont=%d" % (n, ent, nb, mont))
                    nt.append(True)
    for n, kind in big:
        ss = scalar_set(rng, n, kind, c=16)
        lines.append("msmx %s %d %d %s %s" % (rng.choice(["bw", "bs"]), rng.choice(tasks), rng.randrange(2), point_set(rng, n, pool), hexs(ss)))
        cls.append("api n=%d %s" % (n, kind))
        nt.append(True)
    # every NbTasks value on a fixed mid-size input (window / split choice depends on it)
    for nb in tasks + [4, 5, 8, 15, 17, 32, 33, 100, 128, 256, 512]:
        n = rng.choice([3, 37, 130])
        lines.append("msmx bs %d %d %s %s" % (nb, rng.randrange(2), point_set(rng, n, pool), hexs(scalar_set(rng, n, "10pct-small"))))
        cls.append("nbtasks=%d" % nb)
        nt.append(True)
    # length mismatch
    for (a, b) in [(0, 1), (1, 0), (3, 2), (2, 3), (17, 16)]:
        lines.append("msmx %s 4 1 %s %s" % (rng.choice(["bw", "bs", "ms"]), point_set(rng, a, pool), hexs(scalar_set(rng, b, "random"))))
        cls.append("length-mismatch")
        nt.append(True)
    # every implemented window through the internal entry point
    for c in CS:
        for split in (0, 1):
            for n in (([0, 1, 2, 3, 7] if c < 20 else [0, 3]) if ctx.quick() else [0, 1, 2, 3, 4, 5, 7, 8, 16, 33, 100]):
                kind = rng.choice(["random", "half-digits", "carry-chain", "max", "mixed", "small"])
                ss = scalar_set(rng, n, kind, c=c)
                lines.append("msmin %d %d %s %s" % (c, split, point_set(rng, n, pool), hexs(ss)))
                cls.append("inner c=%d split=%d" % (c, split))
                nt.append(n >= 1)
        # packed digits of partitionScalars vs the limb-level model
        for kind in ["random", "half-digits", "carry-chain", "mixed", "small", "max"]:
            n = rng.choice([1, 5, 40]) if ctx.quick() else 200
            ss = scalar_set(rng, n, kind, c=c) + [0, 1, R - 1, (1 << c) - 1, 1 << c, (1 << 64) - 1, 1 << 64, 1 << (c - 1)]
            lines.append("part %d %d %d %s" % (c, rng.randrange(2), rng.choice([1, 2, 16, 64]), hexs(ss)))
            cls.append("partition c=%d" % c)
            nt.append(True)
    impl, mod = diff(ctx, lines, "MSM vs sum s_i P_i / partition digits vs model", cls, nt, impl_shards=4,
                     keyfn=lambda l: str(hash(l)))
    for l, o in zip(lines, impl):
        if o.startswith("HANG"):
            ctx.violation("MSM call did not terminate within the watchdog", {"case": l[:3000], "impl": o})
    # executable witness of the refinement theorem: algorithm-level model == specification
    ml = [l.replace("msmin", "msminmodel", 1) for l in lines if l.startswith("msmin ") and int(l.split()[1]) <= 11][:24]
    out = run_lines(ctx.model(), ml, env=model_env())
    for l, o in zip(ml, out):
        if not o.startswith("same"):
            from vlib import FrameworkError
            raise FrameworkError("model: bucket algorithm differs from sum s_i P_i on " + l[:80])


    # the model of the whole MultiExp (window / split choice, slices, completion orders) == specification
    ml = [l.replace("msmx", "msmxmodel", 1) for l in lines
          if l.startswith("msmx ") and l.split()[4] != "-" and l.split()[4].count(",") == l.split()[5].count(",")
          and l.split()[4].count(",") < 140]
    # spread over the NbTasks values (the number of splits depends on it), larger inputs first
    bynb = {}
    for l in sorted(ml, key=lambda l: -l.split()[4].count(",")):
        bynb.setdefault(l.split()[2], []).append(l)
    ml, k = [], 0
    while len(ml) < (40 if ctx.quick() else 400) and any(bynb.values()):
        for nbv in sorted(bynb):
            if bynb[nbv]:
                ml.append(bynb[nbv].pop(0))
    out = run_lines(ctx.model(), ml, env=model_env())
    chosen = {}
    for l, o in zip(ml, out):
        if not o.startswith("same"):
            from vlib import FrameworkError
            raise FrameworkError("model: MultiExp model differs from sum s_i P_i on " + l[:80] + " -> " + o[:60])
        chosen[o[5:]] = chosen.get(o[5:], 0) + 1
    ctx.extra["multiexp_model_vs_spec"] = "model MultiExp == sum s_i P_i on %d cases; (window, splits, points per split) chosen: %s" % (
        len(ml), ", ".join("%s x%d" % kv for kv in sorted(chosen.items(), key=lambda kv: (-int(kv[0].split("splits=")[1].split()[0]), kv[0]))[:30]))


def replay(ctx, path):
    std_replay(ctx, path)
