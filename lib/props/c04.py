"""C04 - IPA opens the committed polynomial at any field point."""
import ecref as E
import mpgen
from vlib import diff, std_replay, run_lines, model_env, shared_use_phase

SPEC = {
    "rule": "case = (polynomial in evaluation form, evaluation point, claimed result) for CreateIPAProof/CheckIPAProof; "
            "polynomials {zero, constant, unit, sparse, dense random}; points {0,1,254,255,256,257,2^64,r-2,r-1,random}; "
            "results {p(z) as computed by the model, p(z)+1, a neighbouring evaluation, random}; observables: proof bytes, "
            "decision, next challenge; predicates: correct result accepted, every other result rejected; distinct = "
            "distinct cases",
    "assumptions": ["p(z) oracle: the model's barycentric evaluation is proved equal to coefficient-form evaluation "
                    "(C18 theorems, premises: node differences invertible)",
                    "rejection of a wrong result under Fiat-Shamir also needs a hash non-coincidence: differential only"],
    "trusted_base": [],
}

R = E.R


def run(ctx):
    rng = ctx.rng
    zs = [0, 1, 2, 127, 128, 254, 255, 256, 257, 258, 511, 2 ** 64, R - 2, R - 1] + [rng.randrange(R) for _ in range(ctx.n(4, 200))]
    # points with structured limbs: low word in the domain but high words set; small INTERNAL (Montgomery) representation
    rinv = pow(1 << 256, -1, R)
    zs += [2 ** 64 + 5, 2 ** 128 + 255, 3 * 2 ** 192 + 17, 7 * rinv % R, 255 * rinv % R, rng.randrange(1, 256) * rinv % R]
    lines, cls = [], []
    kinds = ["z", "c", "u", "u255", "s", "s2", "r"]
    reps = 1 if ctx.quick() else 8
    for _ in range(reps):
        for i, z in enumerate(zs):
            kind = kinds[(i + rng.randrange(7)) % 7] if not ctx.quick() else rng.choice(["z", "u", "u255", "s", "s", "s2", "c" if i % 7 == 0 else "s"])
            sp, _ = mpgen.poly_spec(rng, kind)
            lines.append("ipac %s %x %s" % (E.hx(b"c04"), z, sp))
            cls.append("create z=%s poly=%s" % (("%d" % z) if z < 600 else ("big" if z < R - 2 else "r-%d" % (R - z)), kind))
    # the domain boundary systematically: polynomials that are non-zero at 254 / 255 (a dense and a
    # constant one, and the unit vector at 255), at every point around the switch
    for z in (0, 1, 254, 255, 256, 257):
        for kind in ("u255", "c", "r"):
            sp, _ = mpgen.poly_spec(rng, kind)
            lines.append("ipac %s %x %s" % (E.hx(b"c04"), z, sp))
            cls.append("create z=%d poly=%s (boundary)" % (z, kind))
    impl, mod = diff(ctx, lines, "CreateIPAProof", cls, impl_shards=2)
    # openings at different points issued side by side on the one shared configuration
    pick = [i for i, l in enumerate(lines) if int(l.split()[2], 16) < 256][:10] + \
           [i for i, l in enumerate(lines) if int(l.split()[2], 16) >= 256][:4]
    shared_use_phase(ctx, [lines[i] for i in pick], [impl[i] for i in pick], "CreateIPAProof", g=8, repeat=4)
    vl, vc, expect = [], [], []
    for l, o, om in zip(lines, impl, mod):
        t = o.split()
        if t[0] != "OK":
            ctx.violation("CreateIPAProof failed", {"case": l, "impl": o})
            continue
        z = l.split()[2]
        proof, cbytes, y = t[1], t[4], t[6]
        ym = om.split()[6]
        ctok = mpgen.point_tok_from_bytes(cbytes) if cbytes != "00" * 32 else E.tok(E.ID)
        yi = int(ym, 16)
        cands = [("correct", yi, True), ("result+1", (yi + 1) % R, False), ("result-1", (yi - 1) % R, False),
                 ("random", rng.randrange(R), False)]
        if yi != 0:
            cands.append(("zero", 0, False))
        for name, v, acc in cands:
            vl.append("ipav %s %s %s %s %x" % (E.hx(b"c04"), proof, ctok, z, v))
            vc.append("verify " + name)
            expect.append(acc)
        # neighbouring evaluation point with the correct result for z
        zi = int(z, 16)
        for z2 in ((zi + 1) % R, (zi - 1) % R):
            vl.append("ipav %s %s %s %x %x" % (E.hx(b"c04"), proof, ctok, z2, yi))
            vc.append("verify neighbour-point")
            expect.append(None)     # decision compared with the model only (the claim may be true, e.g. zero polynomial)
    impl, _ = diff(ctx, vl, "CheckIPAProof decision", vc, impl_shards=4)
    pick = [i for i, l in enumerate(vl) if int(l.split()[4], 16) < 256][:16]
    shared_use_phase(ctx, [vl[i] for i in pick], [impl[i] for i in pick], "CheckIPAProof", g=8, repeat=3)
    for l, o, c, acc in zip(vl, impl, vc, expect):
        ok = o.startswith("true")
        if acc and not ok:
            ctx.violation("IPA proof for the correct result rejected (%s)" % o[:30], {"case": l, "impl": o})
        if acc is False and ok:
            ctx.violation("IPA proof accepted for a wrong claim (%s)" % c, {"case": l, "impl": o})


def replay(ctx, path):
    std_replay(ctx, path)
