"""C17 - base-field square root and point recovery from x are exact."""
import ecref as E
from vlib import diff, std_replay

SPEC = {
    "rule": "case = SqrtPrecomp(v) or GetPointFromX(x, largest?); v classes: squares u^2 and non-squares n*u^2 in equal "
            "share; v = g^e * w^(2^32) with e sweeping every 8-bit value of each of the four blocks of the 2^32-subgroup "
            "dlog (1024 structured exponents) times random odd-order parts; all 2^k-th roots of unity; 0,1,p-1; random. "
            "observables: exact root returned (the algorithm is deterministic), nil-ness, input unchanged; predicates on "
            "the implementation output: y^2 = v, nil iff non-residue (independent Euler criterion), curve equation and "
            "sign choice; distinct = distinct inputs",
    "assumptions": ["'None iff non-residue' is proved under premises prime p and 'the fixed element generates the "
                    "2^32-torsion'; python pow() is used as an independent Euler-criterion oracle in the predicate check"],
    "trusted_base": [],
}

P = E.P
G32 = 10238227357739495823651030575849232062558860180284477541189508159991286009131
Q = (P - 1) >> 32


def check_translated_chain(ctx):
    """The addition chain is the one part of the model produced by a translator (lib/gen_chain.py):
    regenerate it from the current source and require it to be the chain the theorems were checked on."""
    import os
    import gen_chain
    import vlib
    try:
        txt = gen_chain.generate(vlib.REPO)
    except SystemExit as e:
        txt = "(* translator failed: %s *)" % e
    cur = open(os.path.join(vlib.COQ, "Model", "SqrtChain.v")).read()
    ctx.extra["chain_translated_from_source"] = (txt.strip() == cur.strip())
    if txt.strip() != cur.strip() and ctx.proof is not None:
        ctx.proof["ok"] = False
        ctx.proof["log"] = ("the addition chain translated from bandersnatch/fp/sqrt.go differs from coq/Model/SqrtChain.v, "
                            "on which C17_chain_exponents / C17_relevant_powers were checked\n") + ctx.proof.get("log", "")
        ctx.mult = 3


def run(ctx):
    check_translated_chain(ctx)
    rng = ctx.rng
    lines, cls = [], []
    nonres = 5
    assert E.legendre(nonres) == -1

    def add(v, c):
        lines.append("sqrt %x" % (v % P))
        cls.append(c)

    for v in [0, 1, 2, 3, 4, P - 1, P - 2, (P - 1) // 2, (P + 1) // 2]:
        add(v, "boundary")
    for k in range(0, 33):
        add(pow(G32, 1 << k, P), "root-of-unity")
        add(pow(G32, (1 << k) * 3, P), "root-of-unity")
    reps = 1 if ctx.quick() else 40
    for _ in range(reps):
        for blk in range(4):
            for b in range(256):
                e = (b << (8 * blk)) | (rng.randrange(1 << 32) & ~(0xFF << (8 * blk)) if rng.random() < 0.5 else 0)
                e &= 0xFFFFFFFF
                w = pow(rng.randrange(2, P), 1 << 32, P)      # odd-order part
                add(pow(G32, e, P) * w % P, "dlog-block-%d" % blk)
    for _ in range(ctx.n(1500, 250000)):
        u = rng.randrange(1, P)
        add(u * u % P, "square")
        add(nonres * u * u % P, "non-square")
    for _ in range(ctx.n(500, 50000)):
        add(rng.randrange(P), "random")
    impl, _ = diff(ctx, lines, "SqrtPrecomp", cls)
    for l, o in zip(lines, impl):
        t = o.split()
        v = int(l.split()[1], 16)
        if "MUTATED" in o:
            ctx.violation("SqrtPrecomp modified its input", {"case": l, "impl": o})
        if t[0] == "NIL":
            if E.legendre(v) != -1:
                ctx.violation("SqrtPrecomp returned nil for a residue", {"case": l, "impl": o})
        else:
            y = int(t[0], 16)
            if y * y % P != v:
                ctx.violation("SqrtPrecomp returned a value whose square is not v", {"case": l, "impl": o})
    # point recovery
    gl, gc = [], []
    xs = [0, 1, 2, P - 1, E.GX] + [rng.randrange(P) for _ in range(ctx.n(600, 60000))]
    # x whose two roots are within a few units (resp. a few 2^64, 2^128 multiples) of p/2: the sign
    # decision must look at every limb.  y = (p + k)/2 - i.e. +-k/2 - gives x^2 = (y^2 - 1)/(d y^2 - a).
    near = 0
    for k in list(range(1, 400, 2)) + [(1 << 64) + 1, (1 << 64) - 1, (1 << 65) + 1, (1 << 128) + 1, (1 << 128) - 1, (1 << 192) + 1]:
        y = (P + k) // 2
        y2 = y * y % P
        den = (E.D * y2 - E.A) % P
        if den == 0:
            continue
        x2 = (y2 - 1) * E.inv(den) % P
        if E.legendre(x2) == 1:
            xs.append(E.sqrt(x2))
            near += 1
    ctx.extra["x_with_roots_near_half"] = near
    for x in xs:
        for b in (0, 1):
            gl.append("gpx %x %d" % (x, b))
            gc.append("gpx")
    impl, _ = diff(ctx, gl, "GetPointFromX", gc)
    for l, o in zip(gl, impl):
        x, b = int(l.split()[1], 16), l.split()[2] == "1"
        t = o.split()
        exists = E.y_from_x(x) is not None
        if t[0] == "NIL":
            if exists:
                ctx.violation("GetPointFromX returned nil although a curve point with this x exists", {"case": l, "impl": o})
        else:
            px, py = int(t[0], 16), int(t[1], 16)
            if px != x or not E.on_curve((px, py)) or E.lex_largest(py) != b:
                if not (py == 0 and not b):
                    ctx.violation("GetPointFromX result is off-curve / wrong x / wrong sign", {"case": l, "impl": o})


def replay(ctx, path):
    std_replay(ctx, path)
