"""C18 - barycentric evaluation and in-domain division are exact polynomial operations."""
import ecref as E
from vlib import diff, std_replay

SPEC = {
    "rule": "case = DivideOnDomain(k, f) for all 256 indices k x f in {random, unit vectors at distance 1,128,200,201,255 "
            "from k, constants, evaluations of coefficient-form polynomials}; ComputeBarycentricCoefficients at z in "
            "{256,257,2^64,r-1,random}; all 512+510 table entries (hook). Oracles: the model (mirrors the code, proved "
            "equal to the polynomial specification) and, independently, coefficient-form arithmetic (Horner, synthetic "
            "division) in the driver for polynomials given by coefficients; distinct = distinct cases",
    "assumptions": ["theorems hold over any commutative ring in which the node differences and z-i are invertible; for "
                    "n=256 over Fr the node-difference premise is discharged by computation"],
    "trusted_base": [],
}

R = E.R


def horner(c, x):
    acc = 0
    for a in reversed(c):
        acc = (acc * x + a) % R
    return acc


def synth_div(c, k):
    """(p(X)-p(k))/(X-k) coefficients"""
    n = len(c)
    q = [0] * max(n - 1, 1)
    acc = 0
    for i in range(n - 1, 0, -1):
        acc = (acc * k + c[i]) % R
        q[i - 1] = acc
    return q


def run(ctx):
    rng = ctx.rng
    lines, cls = [], []
    lines.append("weights")
    cls.append("weights")
    for k in range(256):
        specs = [("r:%x" % rng.randrange(2 ** 64), "random")]
        for dist in (1, 128, 200, 201, 255):
            for j in (k + dist, k - dist):
                if 0 <= j < 256:
                    specs.append(("u:%d:%x" % (j, rng.randrange(1, R)), "unit-dist-%d" % dist))
        specs.append(("u:%d:%x" % (k, rng.randrange(1, R)), "unit-at-k"))
        if k % 16 == 0 or not ctx.quick():
            specs.append(("c:%x" % rng.randrange(R), "constant"))
        for sp, c in specs:
            lines.append("dod %d %s" % (k, sp))
            cls.append("divide " + c)
    if not ctx.quick():
        for _ in range(256 * 40):
            lines.append("dod %d r:%x" % (rng.randrange(256), rng.randrange(2 ** 64)))
            cls.append("divide random")
    zs = [256, 257, 258, 2 ** 64, R - 1, R - 2] + [rng.randrange(256, R) for _ in range(ctx.n(14, 400))]
    # points whose INTERNAL (Montgomery) representation is small: z = m * 2^-256 mod r, m < 2^64
    rinv = pow(1 << 256, -1, R)
    zs += [m * rinv % R for m in [1, 7, 255, 256, rng.randrange(1, 256), rng.randrange(1, 256), rng.randrange(1 << 64)]]
    zs = [z for z in zs if z > 255]
    for z in zs:
        lines.append("baryc %x" % z)
        cls.append("bary-coeffs")
        lines.append("bary %x r:%x" % (z, rng.randrange(2 ** 64)))
        cls.append("bary-eval")
    diff(ctx, lines, "barycentric / DivideOnDomain vs model", cls)
    # the same operations must not depend on the scheduler configuration
    sub = [l for l in lines if l.startswith(("dod", "bary "))]
    for gmp in ((3, 7) if ctx.quick() else (1, 2, 3, 5, 6, 7, 12)):
        pick = rng.sample(sub, min(len(sub), 120 if ctx.quick() else 1500))
        diff(ctx, pick, "barycentric / DivideOnDomain under GOMAXPROCS=%d" % gmp, ["gomaxprocs-%d" % gmp] * len(pick),
             gomaxprocs=gmp, keyfn=lambda l, g=gmp: "%d|%s" % (g, l))
    # independent coefficient-form oracle
    ol, oc, want = [], [], []
    degs = [0, 1, 2, 3, 17, 128, 254, 255] if ctx.quick() else [0, 1, 2, 3, 5, 17, 100, 128, 200, 254, 255] * 4
    for d in degs:
        coeffs = [rng.randrange(R) for _ in range(d + 1)]
        if d == 255 and rng.random() < 0.5:
            coeffs = [0] * 255 + [1]         # the degree-255 monomial
        ev = [horner(coeffs, i) for i in range(256)]
        spec = "x:" + ",".join("%x" % v for v in ev)
        for k in [0, 1, 127, 128, 200, 255, rng.randrange(256), rng.randrange(256)]:
            q = synth_div(coeffs, k)
            ol.append("dod %d %s" % (k, spec))
            oc.append("coeff-oracle divide deg=%d" % d)
            want.append(",".join("%x" % horner(q, i) for i in range(256)))
        for z in [256, 257, R - 1, rng.randrange(256, R)]:
            ol.append("bary %x %s" % (z, spec))
            oc.append("coeff-oracle eval deg=%d" % d)
            want.append("%x" % horner(coeffs, z))
    impl, mod = diff(ctx, ol, "polynomial operations vs coefficient form", oc, keyfn=lambda l: l[:80] + str(hash(l)))
    for l, o, m, w in zip(ol, impl, mod, want):
        if m != w:
            from vlib import FrameworkError
            raise FrameworkError("model disagrees with coefficient-form arithmetic on " + l[:60])
        if o.split()[0] != w:
            ctx.violation("result differs from coefficient-form polynomial arithmetic", {"case": l, "impl": o, "expected": w})


def replay(ctx, path):
    std_replay(ctx, path)
