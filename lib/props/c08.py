"""C08 - group operations implement the Banderwagon group law."""
import ecref as E
import gsgen
from vlib import diff, std_replay

SPEC = {
    "rule": "case = group script; operand pool {identity (0,1), its class member (0,-1), G, -G, CRS points, random "
            "multiples, P-P, sums} in representations {Z=1, rescaled, sign-flipped, both}; scalars {0,1,2,r-1,r-2,2^k,"
            "2^k-1, lambda and small combinations (GLV split with zero/tiny component), random}; every receiver/operand "
            "aliasing pattern (addA/addB/subA/subB/dblA/negA/smulA); plus explicit law instances; observables: Bytes "
            "and Equal matrix vs the model's affine-law/double-and-add values; distinct = distinct scripts",
    "assumptions": ["associativity of the Edwards law and 'the class group has exponent r' are premises (not re-proved); "
                    "gnark-crypto's GLV routine is not modelled: ScalarMul is compared with the double-and-add "
                    "specification"],
    "trusted_base": [],
}

KEEP = ("B", "EQ")


def law_scripts(rng, n):
    out = []
    pts = gsgen.pool_points(rng, 8)
    for _ in range(n):
        P, Q = rng.choice(pts), rng.choice(pts)
        s, t = gsgen.scalars(rng), gsgen.scalars(rng)
        toks = ["raw:" + gsgen.rep_tok(rng, P), "raw:" + gsgen.rep_tok(rng, Q)]
        # r2 = sP, r3 = tP, r4 = (s+t)P, r5 = sP+tP, r6 = P+Q, r7 = s(P+Q), r8 = sQ, r9 = sP+sQ,
        # r10 = 0P, r11 = (r mod r = 0 -> use r-1 then add P) , r12 = P-P, r13 = id, r14 = P+id
        toks += ["smul:0:%x" % s, "smul:0:%x" % t, "smul:0:%x" % ((s + t) % E.R), "add:2:3", "add:0:1",
                 "smul:6:%x" % s, "smul:1:%x" % s, "add:2:8", "smul:0:0", "smul:0:%x" % (E.R - 1), "add:11:0",
                 "sub:0:0", "id", "add:0:14", "addB:14:0", "smulA:14:%x" % s]
        out.append("gs " + " ".join(toks))
    return out


def check_laws(ctx, lines, impl):
    for l, o in zip(lines, impl):
        if not o.startswith("B"):
            continue
        eq = [p.strip() for p in o.split("|")][1].split()[1:]
        e = lambda i, j: eq[i][j] == "1"
        bad = []
        if not e(4, 5): bad.append("(s+t)P != sP+tP")
        if not e(7, 9): bad.append("s(P+Q) != sP+sQ")
        if not e(10, 14): bad.append("0*P != identity")
        if not e(12, 14): bad.append("(r-1)P + P != identity")
        if not e(13, 14): bad.append("P-P != identity")
        if not e(15, 0) or not e(16, 0): bad.append("P+identity != P")
        if not e(17, 14): bad.append("s*identity != identity")
        if bad:
            ctx.violation("group law instance fails on implementation output: " + "; ".join(bad), {"case": l, "impl": o})


def run(ctx):
    rng = ctx.rng
    lines, classes = [], []
    for i in range(ctx.n(300, 20000)):
        nops = rng.randrange(1, 16)
        l, _ = gsgen.gen_script(rng, nops, emphasis=("scalar" if i % 2 == 0 else "mixed"))
        lines.append(l)
        classes.append("script")
    norm = lambda o: gsgen.project(o, KEEP)
    diff(ctx, lines, "group script (group law)", classes, norm=norm)
    # the mixed extended addition used by the precomputed tables, on equal / opposite / identity operands
    pts = gsgen.pool_points(rng, 8)
    tl = []
    for P in pts[:2] + [rng.choice(pts[2:]) for _ in range(ctx.n(6, 60))]:
        sc = rng.choice([1, 2, 3, 7, 128, 255, 256, 2 ** 64 + 1, gsgen.scalars(rng)])
        tl.append("gs raw:%s raw:%s pcsm:0,0:%x,%x pcsm:0,1:%x,%x pcsm:0,0:%x,%x pcsm:0,1,0:1,1,1 pcsm:0:0 smul:0:%x"
                  % (gsgen.rep_tok(rng, P), gsgen.rep_tok(rng, P), sc, sc, sc, sc, sc, (E.R - sc) % E.R, (2 * sc) % E.R))
    diff(ctx, tl, "table-driven accumulation (mixed extended addition)", ["tables"] * len(tl), norm=norm)
    laws = law_scripts(rng, ctx.n(150, 10000))
    impl, _ = diff(ctx, laws, "group law instances", ["laws"] * len(laws), norm=norm)
    check_laws(ctx, laws, impl)


def replay(ctx, path):
    std_replay(ctx, path)
