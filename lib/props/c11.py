"""C11 - map to scalar field is a well-defined function on group elements."""
import ecref as E
import gsgen
from vlib import diff, std_replay

SPEC = {
    "rule": "case = group script (elements from arbitrary histories, every representation, duplicates, identity); "
            "observables: MapToScalarField of every element and BatchMapToScalarField of the whole register file "
            "(batch sizes 3..300); the model computes x/y in Fp independently; predicate on the implementation output: "
            "Equal(i,j) <-> map_i == map_j, batch == single; distinct = distinct scripts",
    "assumptions": ["injectivity on classes needs Y invertible (valid elements) - premise of the theorem"],
    "trusted_base": [],
}

KEEP = ("MAP", "BMAP")


def check_pred(ctx, lines, impl):
    for l, o in zip(lines, impl):
        if not o.startswith("B"):
            continue
        parts = {p.strip().split(" ", 1)[0]: p.strip().split()[1:] for p in o.split("|")}
        eq, mp, bm = parts["EQ"], parts["MAP"], parts["BMAP"]
        if mp != bm:
            ctx.violation("batch map-to-field differs from single", {"case": l, "impl": o})
        if "raw:0.0.0" in l:
            continue
        bs = parts["B"]

        def ratio(k):
            """x/y in Fp recomputed from the compressed bytes (independent of the implementation's map)"""
            x = int(bs[k], 16)
            if x == 0:
                return 0
            y = E.y_from_x(x)
            y = y if E.lex_largest(y) else (-y) % E.P
            return x * E.inv(y) % E.P
        for i in range(len(mp)):
            for j in range(len(mp)):
                if eq[i][j] == "1" and mp[i] != mp[j]:
                    ctx.violation("Equal(%d,%d) but map values differ" % (i, j), {"case": l, "impl": o})
                    return
                if eq[i][j] == "0" and mp[i] == mp[j]:
                    # the reduction Fp -> Fr is not injective: equal map values of non-Equal elements are
                    # legitimate exactly when their x/y differ in Fp (and agree modulo r)
                    if ratio(i) == ratio(j):
                        ctx.violation("elements %d,%d are not Equal but have the same x/y" % (i, j), {"case": l, "impl": o})
                        return
                    ctx.dist["non-Equal elements with x/y congruent mod r (legitimate collision)"] += 1


def big_batch(rng, n):
    pts = gsgen.pool_points(rng, 6)
    toks = []
    for i in range(n):
        toks.append("raw:" + gsgen.rep_tok(rng, rng.choice(pts)))
    return "gs " + " ".join(toks)


def ratio_targets(rng):
    """values of x/y near every boundary of the reduction Fp -> Fr and of the byte/limb encodings"""
    R, P = E.R, E.P
    t = []
    for m in (1, 2, 3, 4):
        t += [m * R + k for k in range(-12, 13)]
    t += [P - k for k in range(1, 30)] + list(range(1, 30))
    for e in (64, 128, 192, 200, 247, 248, 252, 253, 254):
        t += [2 ** e + k for k in range(-6, 7)]
    t += [(4 * R + P) // 2 + k for k in range(8)]
    return [v % P for v in t if 0 < v % P]


def targeted_points(rng, want):
    """valid elements whose x/y hits the chosen values (about one candidate in five has a solution)"""
    out = []
    cands = ratio_targets(rng)
    rng.shuffle(cands)
    # the top window [4r, p) first: it is tiny, so it is only ever reached on purpose
    top = [v for v in cands if v >= 4 * E.R]
    for lam in top[:60] + cands:
        pt = E.point_with_ratio(lam)
        if pt is not None:
            out.append((lam, pt))
        if len(out) >= want:
            break
    return out


def run(ctx):
    rng = ctx.rng
    lines, classes = [], []
    tp = targeted_points(rng, ctx.n(24, 300))
    for k in range(0, len(tp), 4):
        grp = tp[k:k + 4]
        toks = []
        for lam, pt in grp:
            toks.append("raw:" + gsgen.rep_tok(rng, pt))
            toks.append("raw:" + gsgen.rep_tok(rng, pt))
        toks += ["id", "add:0:2", "sub:%d:2" % (len(toks) + 1)]      # (P+Q)-Q: another representation of P
        lines.append("gs " + " ".join(toks))
        classes.append("x/y at a reduction boundary (%s)" % ("top window [4r,p)" if any(l >= 4 * E.R for l, _ in grp) else "other"))
    for i in range(ctx.n(250, 20000)):
        l, _ = gsgen.gen_script(rng, rng.randrange(0, 25))
        lines.append(l)
        classes.append("history")
    for n in [1, 2, 15, 16, 17, 33, 100] + ([300] if not ctx.quick() else [64]):
        lines.append(big_batch(rng, n))
        classes.append("batch-%d" % n)
    norm = lambda o: gsgen.project(o, KEEP)
    impl, _ = diff(ctx, lines, "map to scalar field", classes, norm=norm)
    check_pred(ctx, lines, impl)


def replay(ctx, path):
    std_replay(ctx, path)
