"""C11 - map to scalar field is a well-defined function on group elements."""
import ecref as E
import gsgen
from vlib import diff, std_replay

SPEC = {
    "rule": "case = group script (elements from arbitrary histories, every representation, duplicates, identity); "
            "observables: MapToScalarField of every element and BatchMapToScalarField of the whole register file "
            "(batch sizes 3..300); the model computes x/y in Fp independently; predicate on the implementation output: "
            "Equal(i,j) <-> map_i == map_j, batch == single; distinct = distinct scripts",
    "assumptions": ["injectivity on classes needs Y invertible (valid elements) - premise of the theorem"],
    "trusted_base": [],
}

KEEP = ("MAP", "BMAP")


def check_pred(ctx, lines, impl):
    for l, o in zip(lines, impl):
        if not o.startswith("B"):
            continue
        parts = {p.strip().split(" ", 1)[0]: p.strip().split()[1:] for p in o.split("|")}
        eq, mp, bm = parts["EQ"], parts["MAP"], parts["BMAP"]
        if mp != bm:
            ctx.violation("batch map-to-field differs from single", {"case": l, "impl": o})
        if "raw:0.0.0" in l:
            continue
        for i in range(len(mp)):
            for j in range(len(mp)):
                if (eq[i][j] == "1") != (mp[i] == mp[j]):
                    ctx.violation("Equal(%d,%d)=%s but map values %s" % (i, j, eq[i][j], "equal" if mp[i] == mp[j] else "differ"),
                                  {"case": l, "impl": o})
                    return


def big_batch(rng, n):
    pts = gsgen.pool_points(rng, 6)
    toks = []
    for i in range(n):
        toks.append("raw:" + gsgen.rep_tok(rng, rng.choice(pts)))
    return "gs " + " ".join(toks)


def run(ctx):
    rng = ctx.rng
    lines, classes = [], []
    for i in range(ctx.n(250, 20000)):
        l, _ = gsgen.gen_script(rng, rng.randrange(0, 25))
        lines.append(l)
        classes.append("history")
    for n in [1, 2, 15, 16, 17, 33, 100] + ([300] if not ctx.quick() else [64]):
        lines.append(big_batch(rng, n))
        classes.append("batch-%d" % n)
    norm = lambda o: gsgen.project(o, KEEP)
    impl, _ = diff(ctx, lines, "map to scalar field", classes, norm=norm)
    check_pred(ctx, lines, impl)


def replay(ctx, path):
    std_replay(ctx, path)
