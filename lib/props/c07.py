"""C07 - compressed encoding canonical: equal bytes iff equal group elements."""
import ecref as E
import gsgen
from vlib import diff, std_replay

SPEC = {
    "rule": "case = group script: pool of elements in all representations (Z=1, rescaled, sign-flipped, both; identity "
            "class members (0,1),(0,-1)), then a random history of Add/Sub/Double/Neg/AddMixed/ScalarMul/MSM/table-MSM/"
            "decode/Normalize/BatchNormalize ops; observables: Bytes of every element, full Equal matrix, "
            "SetBytes(Bytes) result; distinct = distinct scripts; non-trivial = >= 2 operations",
    "assumptions": ["'valid element' = reachable from generator/CRS/decodings by the API (the all-zero value is "
                    "exercised separately for the Equal guard)",
                    "equality of classes <-> equality of x/y needs p prime and d non-square (premises of the "
                    "injectivity theorem)"],
    "trusted_base": [],
}

KEEP = ("B", "EQ", "DEC", "OBS", "B2")


def check_pred(ctx, lines, impl):
    # property predicate on the implementation's own output: Equal(i,j) <-> Bytes_i == Bytes_j, refl/sym
    for l, o in zip(lines, impl):
        if not o.startswith("B"):
            continue
        parts = [p.strip() for p in o.split("|")]
        bs = parts[0].split()[1:]
        eq = parts[1].split()[1:]
        has_zero = "raw:0.0.0" in l
        n = len(bs)
        bad = None
        for i in range(n):
            for j in range(n):
                e = eq[i][j] == "1"
                if e != (eq[j][i] == "1"):
                    bad = "Equal not symmetric (%d,%d)" % (i, j)
                if not has_zero and e != (bs[i] == bs[j]):
                    bad = "Equal(%d,%d)=%s but Bytes %s" % (i, j, e, "equal" if bs[i] == bs[j] else "differ")
        if bad:
            ctx.violation("C07 predicate fails on implementation output: " + bad, {"case": l, "impl": o})


def run(ctx):
    rng = ctx.rng
    lines, classes, nt = [], [], []
    for i in range(ctx.n(60, 3000)):
        nops = rng.randrange(1, 41)
        l, _ = gsgen.gen_script(rng, nops, emphasis=("scalar" if i % 3 == 0 else "mixed"))
        lines.append(l)
        classes.append("history-%d" % (nops // 10 * 10))
        nt.append(nops >= 2)
    # all-zero (uninitialised) value: Equal must be false on either side
    for i in range(ctx.n(6, 200)):
        l, _ = gsgen.gen_script(rng, rng.randrange(0, 6), with_zero=True)
        lines.append(l)
        classes.append("with-all-zero")
        nt.append(True)
    # systematic small scripts: P, its class twin, -P and decodings of both, in normalised and rescaled form
    # (same X and Z with opposite Y, same Y with opposite X, ...); the commitment to the zero vector and other
    # ways to obtain the identity; every pair is compared through the Equal matrix and the Bytes list
    pts = gsgen.pool_points(rng, 10)
    for P0 in pts[:4] + [rng.choice(pts[4:]) for _ in range(ctx.n(6, 100))]:
        for l0 in (1, rng.randrange(2, E.P)):
            toks = ["raw:" + E.tok(P0, l=l0), "raw:" + E.tok(P0, l=l0, flip=True), "raw:" + E.tok(E.neg(P0), l=l0),
                    "raw:" + E.tok(E.neg(P0), l=l0, flip=True), "neg:0", "dec:" + E.hx(E.compress(P0)),
                    "dec:" + E.hx(E.compress(E.neg(P0))), "norm:0", "norm:2", "sub:0:0", "id", "msmp:%d=0" % rng.randrange(256),
                    "msmp:0=0,255=0", "add:0:2", "smul:0:0"]
            lines.append("gs " + " ".join(toks))
            classes.append("twins-and-identities")
            nt.append(True)
    norm = lambda o: gsgen.project(o, KEEP)
    impl, _ = diff(ctx, lines, "group script (Bytes/Equal/decode)", classes, nt, norm=norm)
    check_pred(ctx, lines, impl)


def replay(ctx, path):
    std_replay(ctx, path)
