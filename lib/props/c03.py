"""C03 - proof bytes are a deterministic, spec-conformant function of the inputs."""
import ecref as E
import mpgen
from vlib import diff, std_replay, run_lines, model_env

SPEC = {
    "rule": "case = multiproof statement or IPA opening, proved by the implementation under CPU configurations "
            "(taskset NumCPU x GOMAXPROCS) and twice in one process, compared byte for byte (proof bytes, next "
            "challenge) with the model = independent implementation of the Verkle specification (anchored by the "
            "published vectors); distinct = distinct (statement, CPU setting)",
    "assumptions": ["the model is the 'independent implementation of the specification': anchored by the repository's "
                    "published CRS / transcript / IPA / multiproof vectors, which the model reproduces"],
    "trusted_base": ["taskset / GOMAXPROCS to vary runtime.NumCPU"],
}

R = E.R


def run(ctx):
    rng = ctx.rng
    ns = [1, 2, 3, 4, 11, 12, 17, 40] if ctx.quick() else [1, 2, 3, 4, 5, 8, 11, 12, 15, 16, 17, 33, 64, 100, 300] * 2
    sts = [mpgen.statement(rng, n, max_dense=2) for n in ns]
    # several openings at ONE evaluation point (the grouped polynomial of opening #0 receives further additions),
    # with fewer and with more openings than CPUs
    sts += [mpgen.statement(rng, n, max_dense=1, zpat="equal") for n in ((2, 3, 17, 40) if ctx.quick() else (2, 3, 5, 16, 17, 33, 40, 100))]
    sts += [mpgen.statement(rng, n, max_dense=1, zpat="clustered") for n in ((20,) if ctx.quick() else (20, 50))]
    # commitments shared by POINTER between openings, systematically: adjacent and non-adjacent repeats of
    # projective (as returned by Commit), rescaled and normalised elements
    for pat in (["k", "n", "p0"], ["k", "p0", "n"], ["s7", "k", "p0", "p1"], ["k", "n", "n", "p0", "p1", "p0"], ["n", "k", "p1", "p0"],
                ["sf3", "f", "p0", "k", "p3", "p1"]):
        specs = {}
        ops = []
        for i, r_ in enumerate(pat):
            if r_.startswith("p"):
                sp = specs[int(r_[1:])]
            else:
                sp, _ = mpgen.poly_spec(rng, rng.choice(["s", "u", "s2"]))
            specs[i] = sp
            rr = r_ if not (r_.startswith("s") and not r_.startswith("sf")) else "s%x" % rng.randrange(2, E.P)
            rr = rr if not r_.startswith("sf") else "sf%x" % rng.randrange(2, E.P)
            ops.append("%s %d %s" % (rr, rng.randrange(256), sp))
        sts.append(("mpc %s 1 - %s" % (E.hx(b"shared"), " ".join(ops)), {"n": len(pat), "zpat": "shared-pointers"}))
    lines = [s[0] for s in sts]
    # each statement twice in the same process (second run must not depend on the first)
    lines2 = lines + lines
    cfgs = [(None, None), (1, None), (5, 1), (16, 4)] if ctx.quick() else \
           [(k, g) for k in range(1, 17) for g in (None, 1, 2, 4)][::3] + [(None, None)]
    mcache = None
    for (ncpu, gmp) in cfgs:
        cls = ["mp n=%d cpu=%s gmp=%s" % (m["n"], ncpu, gmp) for _, m in sts] * 2
        keyfn = lambda l, c=(ncpu, gmp): l + " @%s" % (c,)
        impl, mod = diff(ctx, lines2, "CreateMultiProof bytes", cls, cpus=(list(range(ncpu)) if ncpu else None),
                         gomaxprocs=gmp, keyfn=keyfn, impl_shards=1, model_out=mcache)
        mcache = mod
    # IPA proofs at in-domain / out-of-domain points
    il, ic = [], []
    zs = [0, 1, 254, 255, 256, 257, 2 ** 64, R - 2, R - 1] + [rng.randrange(R) for _ in range(ctx.n(3, 60))]
    for z in zs:
        sp, _ = mpgen.poly_spec(rng, rng.choice(["s", "s2", "u", "r" if rng.random() < 0.3 else "s"]))
        il.append("ipac %s %x %s" % (E.hx(b"ipa-" + bytes([rng.randrange(256)])), z, sp))
        ic.append("ipa z=%s" % ("in-domain" if z < 256 else "out-of-domain"))
    # evaluations with a special limb structure, at in-domain and out-of-domain points
    for v in [(1 << 63), (1 << 64) - 1, 0xf800000000000000, 0xfff8000000000000, (1 << 128) - 1, 0xff00000000000000]:
        i = rng.randrange(256)
        for z in (i, (i + 1) % 256, 256 + rng.randrange(1000)):
            il.append("ipac %s %x s:%d=%x,%d=%x" % (E.hx(b"ipa-limbs"), z, i, v, (i + 7) % 256, rng.choice([1, v, R - 1])))
            ic.append("ipa limb-structured evaluation")
    diff(ctx, il, "CreateIPAProof bytes", ic, impl_shards=2)
    # serialisation is a function of the proof: the same statements proved (and written) right after
    # writes that failed at every possible call, one process
    first = None
    for l, o in zip(lines, impl[:len(lines)]):
        if o.startswith("OK "):
            first = o.split()[1]
            break
    if first:
        hl = []
        for k in (0, 1, 5, 17):
            hl += ["mpwr %d %s" % (k, first), lines[0], "mpwr - %s" % first, "mprd - %s" % first]
        diff(ctx, hl, "proof bytes after failed writes (one process)", ["history:write-fault"] * len(hl), shards=1, impl_shards=1)
    ctx.extra["cpu_settings"] = [str(c) for c in cfgs]


def replay(ctx, path):
    std_replay(ctx, path)
