"""C12 - a shared configuration can be used concurrently without interference."""
import os
import ecref as E
import workload
import gsgen
from vlib import diff, std_replay, run_lines, run_raw, model_env, GOENV, log

SPEC = {
    "rule": "case = one run of the -race harness: G goroutines (2,4,16,64) pull generated API calls (commit, create/verify "
            "multiproof and IPA, MSM of several sizes/task counts, decode/encode, group scripts, own transcripts, scalar "
            "decoding, domain division) from a shared queue, all sharing one IPAConfig and the package-level tables; "
            "GOMAXPROCS in {1,2,4,16}; every result compared with the model's sequential result; any race report, "
            "mismatch, panic or hang is a violation; distinct = distinct (workload, G, GOMAXPROCS)",
    "assumptions": ["absence of data races is OBSERVED with the Go race detector on the explored schedules, not proved; "
                    "the theorems cover the fan-in protocol logic (no deadlock, every value received once, arrival-order "
                    "independence) and disjointness of Execute's index ranges"],
    "trusted_base": ["Go race detector"],
}


def run(ctx):
    rng = ctx.rng
    h = ctx.harness(race=True)
    m = ctx.model()
    runs = [(2, 1), (4, 2), (16, 4), (64, 16), (16, 16), (3, 2)] if ctx.quick() else \
           [(g, p) for g in (2, 4, 16, 64) for p in (1, 2, 4, 16)] * 6
    nlines = 60 if ctx.quick() else 90
    stress_done = False
    for (g, gmp) in runs:
        wl = workload.mixed(rng, nlines * ctx.mult)
        lines = [w[0] for w in wl]
        if not stress_done and g >= 16:
            # stress phase on package-level pooled state: a few successful canonical scalar decodings and
            # proof reads first, then a long burst of short independent transcripts / scalar decodings
            # (every challenge and decoding goes through the shared big.Int pool)
            stress_done = True
            pre = ["frdec lec %s" % E.hx(rng.randrange(E.R).to_bytes(32, "little")) for _ in range(6)]
            burst = []
            for j in range(ctx.n(2500, 20000)):
                if j % 7 == 0:
                    burst.append("frdec %s %s" % (rng.choice(["le", "lec", "be"]), E.hx(rng.randrange(E.R).to_bytes(32, "little"))))
                else:
                    burst.append("tr %s S:73:%x C:63 C:64" % (E.hx(b"t%d" % (j % 50)), rng.randrange(E.R)))
            lines = pre + lines[:20] + burst
            wl = wl[:20] + [(None, "pool-stress")] * (len(pre) + len(burst))
        # the same caller-owned inputs used by several goroutines at once: calls that take vectors
        # (commit, proof creation) are repeated back to back; in concurrent mode the harness hands every
        # goroutine the SAME slice for the same vector specification (read-only sharing)
        dup = [l for l in lines if l.split(" ", 1)[0] in ("commit", "mpc", "ipac")]
        rng.shuffle(dup)
        for l in dup[:6]:
            at = rng.randrange(len(lines) + 1)
            lines[at:at] = [l] * 6
        env = dict(os.environ, VERIF_CONC=str(g), GOMAXPROCS=str(gmp), GORACE="halt_on_error=0 exitcode=66")
        outs, err, rc = run_raw(h, lines, env=env, timeout=600)
        mod = run_lines(m, lines, env=model_env())
        key = "G=%d GOMAXPROCS=%d" % (g, gmp)
        if rc is None:
            ctx.violation("concurrent run did not terminate (hang) " + key, {"case": key, "lines": lines, "conc": g, "gomaxprocs": gmp})
            break    # every further run would cost another full watchdog period
        if "DATA RACE" in err:
            ctx.violation("data race reported by the race detector " + key,
                          {"case": key, "lines": lines, "conc": g, "gomaxprocs": gmp, "race_report": err[:6000]})
        elif rc != 0 or len(outs) != len(lines):
            ctx.violation("concurrent run crashed rc=%s %s" % (rc, key), {"case": key, "lines": lines, "stderr": err[-3000:]})
            continue
        bad = 0
        for l, a, b in zip(lines, outs, mod):
            if gsgen.canon(a) != gsgen.canon(b):
                bad += 1
                if bad <= 3:
                    ctx.violation("result under concurrent use differs from the sequential (model) result: %s" % l[:120],
                                  {"case": l, "impl": a, "model": b, "conc": g, "gomaxprocs": gmp, "lines": lines})
        for w in wl:
            ctx.dist[w[1]] += 1
        ctx.count(key + str(hash(tuple(lines))), cls=None)
        ctx.evaluations += len(lines) - 1
        if len(ctx.samples) < 3:
            ctx.sample({"run": key, "calls": len(lines), "first_calls": [l[:100] for l in lines[:4]]})
    ctx.extra["runs"] = len(runs)


def replay(ctx, path):
    import json
    obj = json.load(open(path))["replay"]
    lines = obj.get("lines") or [obj["case"]]
    env = dict(os.environ, VERIF_CONC=str(obj.get("conc", 16)), GOMAXPROCS=str(obj.get("gomaxprocs", 4)),
               GORACE="halt_on_error=0 exitcode=66")
    for attempt in range(5):
        outs, err, rc = run_raw(ctx.harness(race=True), lines, env=env, timeout=900)
        mod = run_lines(ctx.model(), lines, env=model_env())
        print("attempt", attempt, "rc", rc, "race" if "DATA RACE" in err else "no-race",
              "mismatches", sum(1 for a, b in zip(outs, mod) if a != b))
        if "DATA RACE" in err or rc != 0 or outs != mod:
            ctx.violation("replay reproduces", {"case": "replay", "stderr": err[:3000]})
            break
    ctx.count("replay")
