"""C05 - Pedersen commitment equals sum v_i*G_i and is linear."""
import ecref as E
from vlib import diff, std_replay, shared_use_phase

SPEC = {
    "rule": "case = scalar vector given to IPAConfig.Commit, compared with the model's sum_i v_i*G_i over the model's own "
            "CRS (derived by the model's SHA-256 + decoding, anchored by the published CRS vectors). (1) table/branch "
            "sweep: single coefficient d*2^(w*k) at every basis position, every window k, digit values {1, half-1, half, "
            "half+1, 2^w-2, 2^w-1, random} (thorough: every digit value for a subset of positions); (2) carry chains: runs "
            "of all-ones windows of every length ending below/at/above half, carry into the top window, r-1, 2^k, 2^k-1; "
            "(3) vector lengths 0,1,5,6,255,256, single hot coefficient, dense random; (4) linearity instances; "
            "distinct = distinct vectors; non-trivial = non-zero vector",
    "assumptions": ["scalar multiplication / MSM in the model = double-and-add specification over the projective formulas; "
                    "group associativity is a premise of the recoding theorem"],
    "trusted_base": [],
}

R = E.R


def win(i):
    return 16 if i < 5 else 8


def run(ctx):
    rng = ctx.rng
    lines, cls, nt = [], [], []

    def add(spec, c):
        lines.append("commit " + spec)
        cls.append(c)
        nt.append(spec not in ("z", "x:-"))

    # (1) table / branch sweep
    for i in range(256):
        w = win(i)
        half = 1 << (w - 1)
        nwin = 256 // w
        if ctx.quick():
            wins = range(nwin)
            digits = lambda: [1, half - 1, half, half + 1, (1 << w) - 2, (1 << w) - 1, rng.randrange(1, 1 << w)]
        else:
            wins = range(nwin)
            if i in (0, 4, 5, 6, 100, 255):
                digits = lambda w=w: (range(1, 1 << w) if w == 8 else list(range(1, 1 << w, 1 if i == 0 else 17)))
            else:
                digits = lambda w=w, half=half: [1, 2, half - 1, half, half + 1, (1 << w) - 2, (1 << w) - 1] + [rng.randrange(1, 1 << w) for _ in range(9)]
        for k in wins:
            for d in digits():
                v = d << (w * k)
                if v >= R:
                    continue
                add("u:%d:%x" % (i, v), "sweep-w%d" % w)
    # (2) carry chains
    for i in [0, 1, 4, 5, 6, 77, 255] + ([rng.randrange(256) for _ in range(ctx.n(10, 200))]):
        w = win(i)
        nwin = 256 // w
        ones = (1 << w) - 1
        half = 1 << (w - 1)
        for start in range(0, nwin, 1 if not ctx.quick() else 3):
            for length in range(1, nwin - start + 1, 1 if not ctx.quick() else 2):
                for low in (half - 1, half, half + 1, ones):
                    v = 0
                    for j in range(length):
                        v |= ones << (w * (start + 1 + j))
                    v |= low << (w * start)
                    v %= 1 << 256
                    if v < R:
                        add("u:%d:%x" % (i, v), "carry-chain-w%d" % w)
        for v in [R - 1, R - 2, (R - 1) // 2, 2 ** 252, 2 ** 252 - 1, 2 ** 248 - 1, 2 ** 240 - 1, (1 << 253) - 1 - ((1 << 253) - R)]:
            add("u:%d:%x" % (i, v % R), "special")
        for k in range(0, 253, 7):
            add("u:%d:%x" % (i, 1 << k), "pow2")
            add("u:%d:%x" % (i, (1 << k) - 1), "pow2-1")
    # (2b) scalars whose INTERNAL (Montgomery) representation is small or sparse: value = m * 2^-256 mod r
    # with m a one-limb / single-limb-position pattern (the code inspects limbs before and after FromMont)
    rinv = pow(1 << 256, -1, R)
    for i in [0, 3, 5, 100, 255]:
        for m in [1, 2, 255, 1 << 63, (1 << 64) - 1, rng.randrange(1, 1 << 64), 1 << 64, ((1 << 64) - 1) << 64,
                  rng.randrange(1, 1 << 64) << 128, rng.randrange(1, 1 << 60) << 192]:
            add("u:%d:%x" % (i, m * rinv % R), "montgomery-sparse")
    # (2c) limb boundaries: all-ones limbs below zero limbs, single high bytes, one-word values with top bits set
    for i in [0, 2, 5, 9, 255]:
        for v in [(1 << 64) - 1, (1 << 128) - 1, (1 << 192) - 1, 0xff00000000000000, 0x8100000000000000, 0x8000000000000000,
                  ((1 << 64) - 1) << 64, ((1 << 64) - 1) << 128, (0xff << 56) << 64, (1 << 64) - 1 + (1 << 129), 0xffff << 48, 0x8000 << 48]:
            add("u:%d:%x" % (i, v % R), "limb-boundary")
    # (2d) short vectors (special-cased lengths) with every half-window / carry pattern in every window of every position
    for n in (1, 2, 3, 4, 5, 6, 8):
        for pos in range(n):
            w = win(pos)
            half = 1 << (w - 1)
            for k in range(0, 256 // w, 1 if not ctx.quick() else 3):
                for dgt in (half, half - 1, half + 1, (1 << w) - 1):
                    vals = [rng.choice([0, 1, rng.randrange(R)]) for _ in range(n)]
                    v = (dgt << (w * k)) | (rng.randrange(1 << (w * k)) if (k and rng.random() < 0.5) else 0)
                    vals[pos] = v % R
                    add("x:" + ",".join("%x" % x for x in vals), "short-%d-halfwindow" % n)
    # (3) lengths and density
    for n in [0, 1, 2, 4, 5, 6, 7, 255, 256]:
        if n == 0:
            add("x:-", "length-0")
        else:
            add("x:" + ",".join("%x" % rng.choice([rng.randrange(R), 0, 1, R - 1]) for _ in range(n)), "length-%d" % n)
    for _ in range(ctx.n(6, 200)):
        add("r:%x" % rng.randrange(2 ** 64), "dense-random")
    for _ in range(ctx.n(200, 20000)):
        m = rng.randrange(1, 5)
        add("s:" + ",".join("%d=%x" % (rng.randrange(256), rng.randrange(R)) for _ in range(m)), "sparse-random")
    add("c:%x" % (R - 1), "all-max")
    add("z", "zero")
    gl = ["grp %d %d" % (a, b) for (a, b) in [(8, 16), (3, 256), (256, 256), (1, 5), (300, 40)]]
    diff(ctx, gl, "CRS points after the caller reused an earlier result", ["crs-generation"] * len(gl), shards=1, impl_shards=1)
    impl0, _ = diff(ctx, lines, "Commit vs sum v_i G_i", cls, nt)
    # Commit is a function of its input: the same vectors committed by several goroutines at once
    # (one shared slice per vector) give the sequential results
    pick = [j for j, l in enumerate(lines) if cls[j] in ("dense-random", "length-256", "length-255", "all-max", "special")][:8]
    shared_use_phase(ctx, [lines[j] for j in pick], [impl0[j] for j in pick], "Commit", g=16, repeat=12)
    # (1b) the same Go results against the ALGORITHM-level model (Coq model of the precomputed-table
    # MSM: window recoding with carry, table lookups, negation), on a sample biased to the 8-bit tables
    # (the 16-bit tables of points 0..4 are built lazily by the model: 2^15 entries x 16 windows each)
    pick = [j for j, l in enumerate(lines) if rng.random() < (0.02 if ctx.quick() else 0.05)]
    pick = pick[: ctx.n(400, 6000)]
    pc_lines = [lines[j] for j in pick]
    diff(ctx, pc_lines, "Commit vs precomputed-table model", [cls[j] + "-pc" for j in pick], [nt[j] for j in pick],
         model_lines=["commitpc " + l.split(" ", 1)[1] for l in pc_lines], shards=1)
    # (4) linearity through the implementation's own group operations
    ll = []
    for _ in range(ctx.n(40, 2000)):
        idx = rng.sample(range(256), rng.randrange(1, 4))
        a = {i: rng.randrange(R) for i in idx}
        b = {i: rng.randrange(R) for i in rng.sample(range(256), rng.randrange(1, 4))}
        k = rng.randrange(R)
        s = {i: (a.get(i, 0) + b.get(i, 0)) % R for i in set(a) | set(b)}
        ka = {i: a[i] * k % R for i in a}
        i0 = idx[0]
        delta = rng.randrange(R)
        upd = dict(a)
        upd[i0] = (a[i0] + delta) % R
        sp = lambda d: ",".join("%d=%x" % kv for kv in sorted(d.items()))
        # r0=C(a) r1=C(b) r2=C(a+b) r3=r0+r1 r4=C(k*a) r5=k*r0 r6=C(upd) r7=G_i0 r8=delta*G_i0 r9=r0+r8 r10=MultiScalar(SRS subset)
        pts = sorted(a)
        toks = ["msmp:" + sp(a), "msmp:" + sp(b), "msmp:" + sp(s), "add:0:1", "msmp:" + sp(ka), "smul:0:%x" % k,
                "msmp:" + sp(upd), "crs:%d" % i0, "smul:7:%x" % delta, "add:0:8"]
        base = len(toks)
        for i in pts:
            toks.append("crs:%d" % i)
        toks.append("ms:-:-:%s:%s" % (",".join(str(base + j) for j in range(len(pts))), ",".join("%x" % a[i] for i in pts)))
        ll.append("gs " + " ".join(toks))
    import gsgen
    impl, _ = diff(ctx, ll, "commitment linearity", ["linearity"] * len(ll), norm=lambda o: gsgen.project(o, ("B", "EQ")))
    for l, o in zip(ll, impl):
        if not o.startswith("B"):
            continue
        eq = [p.strip() for p in o.split("|")][1].split()[1:]
        bad = []
        if eq[2][3] != "1": bad.append("Commit(a+b) != Commit(a)+Commit(b)")
        if eq[4][5] != "1": bad.append("Commit(k*a) != k*Commit(a)")
        if eq[6][9] != "1": bad.append("update != Commit + delta*G_i")
        if eq[0][len(eq) - 1] != "1": bad.append("Commit != generic MSM over the SRS")
        if bad:
            ctx.violation("linearity fails on implementation output: " + "; ".join(bad), {"case": l, "impl": o})


def replay(ctx, path):
    std_replay(ctx, path)
