"""C19 - batch helpers and uncompressed form agree with the single-element operations."""
import ecref as E
import gsgen
from vlib import diff, std_replay

SPEC = {
    "rule": "case = register file of 0..300 elements (lengths around Execute's partition boundaries 15,16,17,31,32,33; "
            "arbitrary representations; identity; duplicates) + BatchNormalize over index lists with arbitrary aliasing "
            "(all same, pairs, random) and one un-normalisable (Z=0) element at each position; observables: "
            "ElementsToBytes / BatchToBytesUncompressed / BatchMapToScalarField vs single-element results, Z=1 flags and "
            "Equal after BatchNormalize, unchanged state on error, trusted uncompressed round trip; distinct = distinct cases",
    "assumptions": ["Go map iteration order in BatchNormalize is modelled as an arbitrary enumeration order (theorem "
                    "quantifies over it)"],
    "trusted_base": [],
}

KEEP = ("B", "EB", "UT", "BMAP", "MAP", "OBS", "EQ", "B2")


def reg_file(rng, n, zero_at=None):
    pts = gsgen.pool_points(rng, 8)
    toks = []
    for i in range(n):
        if zero_at is not None and i == zero_at:
            toks.append("raw:%x.%x.0" % (rng.randrange(E.P), rng.randrange(E.P)))
        else:
            toks.append("raw:" + gsgen.rep_tok(rng, rng.choice(pts)))
    return toks


def run(ctx):
    rng = ctx.rng
    lines, classes = [], []
    sizes = [0, 1, 2, 3, 15, 16, 17, 31, 32, 33, 64] + [rng.randrange(0, 120) for _ in range(ctx.n(25, 600))]
    if not ctx.quick():
        sizes += [255, 256, 300, 300]
    for n in sizes:
        toks = reg_file(rng, n)
        # BatchNormalize with an aliasing pattern
        if n > 0:
            pat = rng.randrange(4)
            if pat == 0:
                idx = list(range(n))
            elif pat == 1:
                idx = [rng.randrange(n)] * rng.randrange(1, 5)
            elif pat == 2:
                idx = [i // 2 * 2 % n for i in range(n)]
            else:
                idx = [rng.randrange(n) for _ in range(rng.randrange(0, 2 * n + 1))]
            toks.append("bn:" + (",".join(map(str, idx)) or "-"))
            for i in sorted(set(idx))[:12]:
                toks.append("z1:%d" % i)
        else:
            toks.append("bn:-")
        lines.append("gs " + " ".join(toks))
        classes.append("batch-%d" % min(n, 64))
    # one un-normalisable element at each position: nothing may be modified
    for n in [1, 2, 3, 5, 17] + ([40] if not ctx.quick() else []):
        for pos in range(n):
            toks = reg_file(rng, n, zero_at=pos)
            idx = list(range(n))
            rng.shuffle(idx)
            toks.append("bn:" + ",".join(map(str, idx)))
            toks += ["z1:%d" % i for i in range(min(n, 6))]
            lines.append("gs " + " ".join(toks))
            classes.append("bn-error")
    # special batches for BatchNormalize: Z coordinates whose product is 1 (lambda, 1/lambda, ...), bit-identical
    # copies held in different variables, copies next to aliases, already-normalised next to projective
    pts = gsgen.pool_points(rng, 8)
    for _ in range(ctx.n(6, 200)):
        P1, P2, P3 = rng.choice(pts[3:]), rng.choice(pts[3:]), rng.choice(pts[3:])
        lam = rng.randrange(2, E.P)
        mu = rng.randrange(2, E.P)
        inv = lambda v: pow(v, -1, E.P)
        lines.append("gs raw:%s raw:%s bn:0,1 z1:0 z1:1" % (E.tok(P1, l=lam), E.tok(P2, l=inv(lam))))
        classes.append("bn-z-product-one")
        lines.append("gs raw:%s raw:%s raw:%s bn:2,0,1 z1:0 z1:1 z1:2" % (E.tok(P1, l=lam), E.tok(P2, l=mu), E.tok(P3, l=inv(lam * mu % E.P))))
        classes.append("bn-z-product-one")
        lines.append("gs raw:%s set:0 bn:0,1 z1:0 z1:1" % E.tok(P1, l=lam))
        classes.append("bn-identical-copies")
        lines.append("gs raw:%s raw:%s set:0 set:1 set:0 bn:4,0,3,2,1,0 z1:0 z1:1 z1:2 z1:3 z1:4" % (E.tok(P1, l=lam), E.tok(P2)))
        classes.append("bn-identical-copies")
    norm = lambda o: gsgen.project(o, KEEP)
    impl, _ = diff(ctx, lines, "batch helpers", classes, norm=norm)
    for l, o in zip(lines, impl):
        if not o.startswith("B"):
            continue
        parts = {p.strip().split(" ", 1)[0]: p.strip().split()[1:] for p in o.split("|")}
        if parts["B"] != parts["EB"]:
            ctx.violation("ElementsToBytes differs from Bytes position by position", {"case": l, "impl": o})
        if parts["UB"] != parts["US"]:
            ctx.violation("BatchToBytesUncompressed differs from BytesUncompressedTrusted", {"case": l, "impl": o})
        if parts["MAP"] != parts["BMAP"]:
            ctx.violation("BatchMapToScalarField differs from MapToScalarField", {"case": l, "impl": o})
        if "BN-ERROR-MODIFIED" in o:
            ctx.violation("BatchNormalize modified elements although it returned an error", {"case": l, "impl": o})


def replay(ctx, path):
    std_replay(ctx, path)
