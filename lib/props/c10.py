"""C10 - proof (de)serialisation is total, canonical and robust to I/O faults."""
import ecref as E
from vlib import diff, std_replay, run_lines, model_env

SPEC = {
    "rule": "case = (reader behaviour, byte stream) for MultiProof.Read / IPAProof.Read, or (failing write call index, "
            "proof) for Write. streams: honest proofs; each of the 18 fields replaced by boundary values (r-1, r, p-1, p, "
            "non-subgroup x, off-curve x, x+p alias); lengths 0..600; trailing bytes; random. readers: plain, one byte at a "
            "time, random chunk plans, data delivered together with io.EOF, injected error at an offset. writers failing "
            "at each call. observables: error flag, re-serialised bytes; predicate: accepted stream == re-serialised "
            "bytes, length exactly 576/544; distinct = distinct cases; non-trivial = stream length >= 32",
    "assumptions": ["well-behaved reader: every Read returns n>0 or an error (the (0,nil) behaviour discouraged by "
                    "io.Reader is excluded)", "io.ReadAtLeast / encoding/binary are modelled"],
    "trusted_base": [],
}

P, R = E.P, E.R


def honest_proofs(ctx, n):
    rng = ctx.rng
    lines = []
    for i in range(n):
        k = rng.randrange(1, 4)
        ops = " ".join("n %d r:%x" % (rng.randrange(256), rng.randrange(2 ** 64)) for _ in range(k))
        lines.append("mpc %s 1 - %s" % (E.hx(b"c10"), ops))
    out = run_lines(ctx.harness(), lines, shards=2)
    proofs = []
    for o in out:
        t = o.split()
        if t and t[0] == "OK":
            proofs.append(bytes.fromhex(t[1]))
    if not proofs:
        from vlib import FrameworkError
        raise FrameworkError("could not obtain honest proofs from the implementation: %s" % out[:1])
    return proofs


def reader_specs(rng, total, quick):
    specs = ["-", "eofd=1", "plan=" + ",".join(["1"] * (total + 2)), "plan=" + ",".join(["1"] * (total + 2)) + ";eofd=1"]
    for _ in range(3):
        plan = [rng.choice([1, 2, 3, 7, 16, 31, 32, 33, 64, 100]) for _ in range(60)]
        specs.append("plan=%s;eofd=%d" % (",".join(map(str, plan)), rng.randrange(2)))
    return specs


def run(ctx):
    rng = ctx.rng
    proofs = honest_proofs(ctx, 3 if ctx.quick() else 12)
    wrong_sub = off_curve = None
    while wrong_sub is None or off_curve is None:
        x = rng.randrange(P)
        y = E.y_from_x(x)
        if y is None:
            off_curve = x
        elif not E.in_subgroup_x(x):
            wrong_sub = x
    valid_pt = E.compress(E.rand_point(rng))
    lines, cls, nt = [], [], []

    def add(op, spec, b, c):
        lines.append("%s %s %s" % (op, spec, E.hx(b)))
        cls.append(op + ":" + c)
        nt.append(len(b) >= 32)

    for pr in proofs:
        for spec in reader_specs(rng, 576, ctx.quick()):
            add("mprd", spec, pr, "honest")
            add("ipard", spec, pr[32:], "honest")
            add("mprd", spec, pr + b"\x00", "trailing-1")
            add("mprd", spec, pr + bytes(rng.randrange(256) for _ in range(rng.randrange(1, 40))), "trailing-n")
            add("ipard", spec, pr[32:] + b"\x07", "trailing-1")
            add("mprd", spec, pr[:-1], "short-1")
            add("ipard", spec, pr[32:-1], "short-1")
        # field-wise boundary values in each of the 18 positions
        for pos in range(18):
            vals = []
            if pos < 17:
                vals = [("p-1", (P - 1).to_bytes(32, "big")), ("p", P.to_bytes(32, "big")),
                        ("wrong-subgroup", wrong_sub.to_bytes(32, "big")), ("off-curve", off_curve.to_bytes(32, "big")),
                        ("valid-other", valid_pt), ("zero", bytes(32)),
                        ("alias", (int.from_bytes(valid_pt, "big") + P).to_bytes(32, "big"))]
            else:
                vals = [("le-small", (5).to_bytes(32, "little")), ("le-small", (2 ** 64).to_bytes(32, "little")),
                        ("r-1", (R - 1).to_bytes(32, "little")), ("r", R.to_bytes(32, "little")),
                        ("r+1", (R + 1).to_bytes(32, "little")), ("2^256-1", b"\xff" * 32), ("zero", bytes(32)),
                        ("be-of-small", (5).to_bytes(32, "big"))]
            for name, v in vals:
                m = pr[:32 * pos] + v + pr[32 * (pos + 1):]
                spec = rng.choice(["-", "eofd=1", "plan=5,9,200;eofd=1"])
                add("mprd", spec, m, "field-%s" % name)
                if pos >= 1:
                    add("ipard", spec, m[32:], "field-%s" % name)
        # injected read errors
        offs = sorted(set([0, 1, 31, 32, 33, 543, 544, 545, 575, 576] + [rng.randrange(0, 577) for _ in range(ctx.n(30, 577))]))
        for k in offs:
            add("mprd", "fail=%d" % k, pr, "read-error")
            add("mprd", "fail=%d;plan=7,7,7,7,7,7,7" % k, pr + b"xx", "read-error")
            if k <= 544:
                add("ipard", "fail=%d" % k, pr[32:], "read-error")
        # failing writers
        for k in list(range(0, 19)) + ["-"]:
            add("mpwr", str(k), pr, "write-fault")
        for k in list(range(0, 18)) + ["-"]:
            add("ipawr", str(k), pr[32:], "write-fault")
    pr = proofs[0]
    for n in list(range(0, 601, 1 if not ctx.quick() else 7)) + [31, 32, 33, 543, 544, 545, 575, 576, 577, 578, 608]:
        s = (pr + pr)[:n]
        add("mprd", rng.choice(["-", "eofd=1"]), s, "length")
        add("ipard", rng.choice(["-", "eofd=1"]), (pr[32:] + pr)[:n], "length")
    for _ in range(ctx.n(200, 20000)):
        n = rng.choice([576, 576, 544, rng.randrange(0, 700)])
        s = bytes(rng.randrange(256) for _ in range(n))
        add("mprd", "-", s, "random")
        # mutated valid proof: one random byte changed
        m = bytearray(pr)
        m[rng.randrange(len(m))] ^= 1 << rng.randrange(8)
        add("mprd", rng.choice(["-", "eofd=1"]), bytes(m), "bitflip")
    impl, _ = diff(ctx, lines, "proof serde", cls, nt)
    acc = 0
    for l, o in zip(lines, impl):
        op, spec, inp = l.split()
        t = o.split()
        if op in ("mprd", "ipard") and t[0] == "OK":
            acc += 1
            want = 1152 if op == "mprd" else 1088
            if op == "mprd" and t[1] != inp:
                ctx.violation("accepted stream differs from Write(Read(stream)) or has trailing/short data",
                              {"case": l, "impl": o})
            if op == "ipard" and t[1] != inp[:want]:
                ctx.violation("IPAProof: accepted stream prefix differs from Write(Read(stream))", {"case": l, "impl": o})
        if op in ("mpwr", "ipawr") and spec != "-" and t[0] == "OK":
            nchunks = 18 if op == "mpwr" else 17
            if int(spec) < nchunks:
                ctx.violation("Write returned nil although the writer failed", {"case": l, "impl": o})
    # reading into proof values that were used before (complete reads, reads that failed half-way, other
    # proofs): the result is a function of the bytes read - one process, values reused across calls
    hl, hc = [], []
    seqs = [l for l, c in zip(lines, cls) if l.startswith(("mprd ", "ipard ")) and
            c.split(":", 1)[1] in ("honest", "short-1", "trailing-1", "read-error", "field-off-curve", "field-valid-other", "length",
                                   "field-zero", "field-le-small")]
    rng.shuffle(seqs)
    for l in seqs[: (120 if ctx.quick() else 3000)]:
        op, rest = l.split(" ", 1)
        hl.append(op + "u " + rest)
        hc.append("used-receiver:" + op)
    # make sure the pattern 'honest after honest' and 'honest after a failed read' occur
    for pr2 in proofs[:2]:
        for pre in (pr2, pr2[:300], proofs[-1]):
            hl += ["mprdu - " + E.hx(pre), "mprdu - " + E.hx(pr2), "ipardu - " + E.hx(pre[32:]), "ipardu - " + E.hx(pr2[32:])]
            hc += ["used-receiver:mprd"] * 2 + ["used-receiver:ipard"] * 2
    # honest proof, then the same proof with a small final scalar (0, 5, 2^64), into the same value
    for pr2 in proofs[:2]:
        for small in (0, 5, 2 ** 64, 2 ** 128 + 3):
            m2 = pr2[:544] + small.to_bytes(32, "little")
            hl += ["mprdu - " + E.hx(pr2), "mprdu - " + E.hx(m2), "ipardu - " + E.hx(pr2[32:]), "ipardu - " + E.hx(m2[32:])]
            hc += ["used-receiver:mprd"] * 2 + ["used-receiver:ipard"] * 2
    diff(ctx, hl, "proof deserialisation into used values (one process)", hc, shards=1, impl_shards=1)
    # two proofs whose L / R vectors are neighbours in one array (the first with spare capacity): writing one
    # must not disturb the other
    wl = []
    for a in proofs[:3]:
        for b2 in proofs[:3]:
            wl.append("ipawr2 %s %s" % (E.hx(a[32:]), E.hx(b2[32:])))
    diff(ctx, wl, "writing proofs that share one backing array", ["write-neighbours"] * len(wl))
    ctx.extra["accepted_streams"] = acc


def replay(ctx, path):
    std_replay(ctx, path)
