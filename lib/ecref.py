"""Small reference implementation of Bandersnatch/Banderwagon arithmetic used ONLY to
generate inputs for the correspondence checks (never as an oracle)."""
P = 52435875175126190479447740508185965837690552500527637822603658699938581184513
R = 13108968793781547619861935127046491459309155893440570251786403306729687672801
A = (-5) % P
D = 45022363124591815672509500913686876175488063829319466900776701791074614335719
GX = 18886178867200960497001835917649091219057080094937609519140440539760939937304
GY = 19188667384257783945677642223292697773471335439753913231509108946878080696678
G = (GX, GY)
ID = (0, 1)


def inv(x, m=P):
    return pow(x % m, m - 2, m) if x % m else 0


def add(p, q):
    x1, y1 = p
    x2, y2 = q
    t = D * x1 * x2 * y1 * y2 % P
    return ((x1 * y2 + y1 * x2) * inv(1 + t) % P, (y1 * y2 - A * x1 * x2) * inv(1 - t) % P)


def neg(p):
    return ((-p[0]) % P, p[1])


def smul(k, p):
    k %= R * 4
    r = ID
    q = p
    while k:
        if k & 1:
            r = add(r, q)
        q = add(q, q)
        k >>= 1
    return r


def on_curve(p):
    x, y = p
    return (A * x * x + y * y - 1 - D * x * x * y * y) % P == 0


def legendre(x):
    x %= P
    if x == 0:
        return 0
    return 1 if pow(x, (P - 1) // 2, P) == 1 else -1


def sqrt(a):
    """Tonelli-Shanks; returns a root or None"""
    a %= P
    if a == 0:
        return 0
    if legendre(a) != 1:
        return None
    q, s = P - 1, 0
    while q % 2 == 0:
        q //= 2
        s += 1
    z = 5
    while legendre(z) != -1:
        z += 1
    m, c, t, r = s, pow(z, q, P), pow(a, q, P), pow(a, (q + 1) // 2, P)
    while t != 1:
        i, tt = 0, t
        while tt != 1:
            tt = tt * tt % P
            i += 1
        b = pow(c, 1 << (m - i - 1), P)
        m, c = i, b * b % P
        t, r = t * c % P, r * b % P
    return r


def lex_largest(y):
    return y % P > (P - 1) // 2


def y_from_x(x):
    num = (A * x * x - 1) % P
    den = (D * x * x - 1) % P
    return sqrt(num * inv(den) % P)


def in_subgroup_x(x):
    return legendre(1 - A * x * x) == 1


def point_with_ratio(lam):
    """a valid element (on the curve, passing the subgroup test) whose x/y equals lam, or None.
    With x = lam*y the curve equation is the quadratic  d lam^2 Y^2 - (a lam^2 + 1) Y + 1 = 0  in Y = y^2."""
    lam %= P
    l2 = lam * lam % P
    if l2 == 0:
        return None
    aa, bb = D * l2 % P, (-(A * l2 + 1)) % P
    s = sqrt((bb * bb - 4 * aa) % P)
    if s is None:
        return None
    for sg in (s, (-s) % P):
        Y = (-bb + sg) * inv(2 * aa % P) % P
        y = sqrt(Y)
        if y is None or y == 0:
            continue
        x = lam * y % P
        if on_curve((x, y)) and in_subgroup_x(x):
            return (x, y)
    return None


def compress(p):
    x, y = p
    if not lex_largest(y):
        x = (-x) % P
    return x.to_bytes(32, "big")


def uncompressed(p):
    return p[0].to_bytes(32, "big") + p[1].to_bytes(32, "big")


def tok(p, l=1, flip=False):
    """point token X.Y.Z (hex) for affine p rescaled by l, optionally the other class member"""
    x, y = p
    if flip:
        x, y = (-x) % P, (-y) % P
    return "%x.%x.%x" % (x * l % P, y * l % P, l % P)


def rawtok(X, Y, Z):
    return "%x.%x.%x" % (X % P, Y % P, Z % P)


_POOL = []


def rand_point(rng):
    """random subgroup point; after a warm-up of real scalar multiplications new points are
    sums/differences of earlier ones (python modular inversion is slow)"""
    if len(_POOL) < 12:
        p = smul(rng.randrange(1, R), G)
    else:
        a, b = rng.choice(_POOL), rng.choice(_POOL)
        p = add(a, b if rng.random() < 0.5 else neg(b))
        if p[0] == 0:
            p = add(p, G)
    if len(_POOL) < 4000:
        _POOL.append(p)
    else:
        _POOL[rng.randrange(len(_POOL))] = p
    return p


def rand_fr(rng):
    return rng.randrange(R)


def hx(b):
    return b.hex() if len(b) else "-"
