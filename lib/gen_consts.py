#!/usr/bin/env python3
"""Translator for the CONSTANTS of the implementation: reads them out of the Go source of the
repository and emits a Coq file that states, constant by constant, that the model uses the same
value; the kernel checks every statement by computation (`reflexivity`).  Regenerated and re-checked on
every run of every check (vlib.check_consts): a constant changed in the code breaks a proof obligation
of the properties listed for it, before any test input is tried.

Covered: protocol labels (ipa/prover.go, multiproof.go), vector length (common/common.go), the table
layout of the precomputed MSM (banderwagon/precomp.go), the implemented bucket-method windows
(bandersnatch/multiexp.go), the scalar-field modulus limbs and Montgomery constant
(bandersnatch/fr/element.go), the square-root parameters and the dyadic root (bandersnatch/fp/sqrt.go).
Curve parameters a, d and the generator live in the gnark-crypto dependency, outside the repository."""
import os
import re
import sys


class Miss(Exception):
    pass


def _read(repo, rel):
    return open(os.path.join(repo, rel)).read()


def _one(pat, txt, what, flags=0):
    m = re.search(pat, txt, flags)
    if not m:
        raise Miss("cannot find %s" % what)
    return m


def _bytes_list(s):
    return "[" + "; ".join(str(b) for b in s.encode()) + "]"


def extract(repo):
    """-> list of (name, coq_term_from_go, coq_term_of_model, [property ids], source)"""
    out = []
    # --- labels
    prover = _read(repo, "ipa/prover.go")
    for go, coq in [("labelDomainSep", "lbl_ipa"), ("labelC", "lbl_C"), ("labelInputPoint", "lbl_input_point"),
                    ("labelOutputPoint", "lbl_output_point"), ("labelW", "lbl_w"), ("labelL", "lbl_L"),
                    ("labelR", "lbl_R"), ("labelX", "lbl_x")]:
        m = _one(r"\b%s\s*=\s*\[\]byte\(\"([^\"]*)\"\)" % go, prover, "ipa label " + go)
        out.append(("ipa_" + go, _bytes_list(m.group(1)), "IPA." + coq, ["C01", "C02", "C03", "C04"], "ipa/prover.go"))
    mp = _read(repo, "multiproof.go")
    for go, coq in [("labelC", "IPA.lbl_C"), ("labelZ", "Multiproof.lbl_z"), ("labelY", "Multiproof.lbl_y"),
                    ("labelD", "Multiproof.lbl_D"), ("labelE", "Multiproof.lbl_E"), ("labelT", "Multiproof.lbl_t"),
                    ("labelR", "Multiproof.lbl_r"), ("labelDomainSep", "Multiproof.lbl_multiproof")]:
        m = _one(r"\b%s\s*=\s*\[\]byte\(\"([^\"]*)\"\)" % go, mp, "multiproof label " + go)
        out.append(("mp_" + go, _bytes_list(m.group(1)), coq, ["C01", "C02", "C03"], "multiproof.go"))
    # --- vector length
    m = _one(r"const\s+VectorLength\s*=\s*(\d+)", _read(repo, "common/common.go"), "VectorLength")
    out.append(("vector_length", "%s%%nat" % m.group(1), "IPA.c_n (Concrete.c_config [])", ["C01", "C02", "C03", "C04", "C18"],
                "common/common.go"))
    # --- precomputed tables
    pc = _read(repo, "banderwagon/precomp.go")
    lim = int(_one(r"window16vs8IndexLimit\s*=\s*(\d+)", pc, "window16vs8IndexLimit").group(1))
    n = int(_one(r"supportedMSMLength\s*=\s*(\d+)", pc, "supportedMSMLength").group(1))
    body = _one(r"func NewPrecompMSM.*?\n}\n", pc, "NewPrecompMSM", re.S).group(0)
    w_default = int(_one(r"windowSize\s*:=\s*(\d+)", body, "default window size").group(1))
    w_first = int(_one(r"if i < window16vs8IndexLimit \{\s*windowSize = (\d+)", body, "window size of the first points").group(1))
    go_ws = "[" + "; ".join(str(w_first if i < lim else w_default) for i in range(n)) + "]"
    out.append(("precomp_window_sizes", go_ws, "map Precomp.pc_window_size (seq 0 %d)" % n, ["C05"], "banderwagon/precomp.go"))
    # --- bucket-method windows
    mx = _read(repo, "bandersnatch/multiexp.go")
    m = _one(r"implementedCs\s*:=\s*\[\]uint64\{([^}]*)\}", mx, "implementedCs")
    cs = [int(x) for x in m.group(1).replace(" ", "").split(",") if x]
    out.append(("implemented_cs", "[" + "; ".join(map(str, cs)) + "]", "Pippenger.implemented_cs", ["C09"], "bandersnatch/multiexp.go"))
    # --- scalar field
    fr = _read(repo, "bandersnatch/fr/element.go")
    m = _one(r"var qElement = Element\{\s*(\d+),\s*(\d+),\s*(\d+),\s*(\d+),\s*\}", fr, "qElement")
    limbs = [int(m.group(i)) for i in range(1, 5)]
    out.append(("fr_modulus_limbs", "(%d, %d, %d, %d)" % tuple(limbs), "(Mont.q0, Mont.q1, Mont.q2, Mont.q3)", ["C15", "C16"],
                "bandersnatch/fr/element.go"))
    out.append(("fr_modulus", str(sum(l << (64 * i) for i, l in enumerate(limbs))), "Zq.r_mod", ["C15", "C16", "C14"],
                "bandersnatch/fr/element.go"))
    qinvs = set(re.findall(r"m := [cz]\[0\] \* (\d+)", fr))
    if len(qinvs) != 1:
        raise Miss("Montgomery constant: expected one value in the CIOS rounds, found %s" % sorted(qinvs))
    out.append(("fr_qinvneg", qinvs.pop(), "Mont.qInvNeg", ["C15"], "bandersnatch/fr/element.go"))
    # --- square root
    sq = _read(repo, "bandersnatch/fp/sqrt.go")
    adic = int(_one(r"BaseField2Adicity\s*=\s*(\d+)", sq, "BaseField2Adicity").group(1))
    blk = int(_one(r"sqrtParam_BlockSize\s*=\s*(\d+)", sq, "sqrtParam_BlockSize").group(1))
    root = _one(r"ret\[0\]\.SetString\(\"(\d+)\"\)", sq, "dyadic root").group(1)
    out.append(("sqrt_adicity_blocksize", "(%d, %d)" % (adic, blk), "(32, 8)", ["C17", "C06"], "bandersnatch/fp/sqrt.go"))
    out.append(("sqrt_dyadic_root", root, "Zq.zval FpSqrt.dyadic_root0", ["C17", "C06"], "bandersnatch/fp/sqrt.go"))
    return out


def generate(repo):
    """Coq source: one Example per constant, closed by computation."""
    items = extract(repo)
    lines = ["(* GENERATED by lib/gen_consts.py from the Go source of the repository - do not edit. *)",
             "From Coq Require Import ZArith List.",
             "From GoIpa Require Import Model.Zq Model.Alg Model.Mont Model.FpSqrt Model.IPA Model.Multiproof Model.Pippenger",
             "  Model.Precomp Model.Concrete.",
             "Import ListNotations.", "Open Scope Z_scope.", ""]
    for name, go, coq, pids, src in items:
        lines.append("(* %s ; used by %s *)" % (src, " ".join(pids)))
        lines.append("Example go_%s : %s = %s." % (name, coq, go))
        lines.append("Proof. reflexivity. Qed.")
        lines.append("")
    return "\n".join(lines), items


if __name__ == "__main__":
    txt, items = generate(sys.argv[1] if len(sys.argv) > 1 else "/repo")
    sys.stdout.write(txt)
