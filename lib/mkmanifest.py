#!/usr/bin/env python3
"""Regenerates /verif/MANIFEST.json from the table below."""
import json
import os

VERIF = os.path.dirname(os.path.dirname(os.path.abspath(__file__)))
NOTE = ("Trusted: Coq 8.16.1 kernel (vm_compute, no native_compute), extraction (ExtrOcamlBasic, ExtrOcamlZBigInt only) "
        "+ zarith + OCaml, Go toolchain, verif/harness, ocaml/driver.ml, python driver. The model is hand-written; its tie "
        "to /repo is the differential correspondence run on every check (agreement on the generated cases, not for all inputs). ")

CLAIMED = {
    "C12": dict(
        text="PARTIAL BY NATURE. Theorems: for ANY two scripts of API calls with disjoint footprints (own arguments/receivers, "
             "shared read-only configuration) and EVERY interleaving, each goroutine's results equal those of running alone "
             "and the configuration is unchanged (generic over all calls modelled as read-set/write-set/function records); "
             "channel fan-in with as many receives as senders is deadlock-free for every capacity incl. 0, terminates within "
             "2k steps and delivers every value exactly once (and the surplus-sender failure mode is exhibited); the "
             "spawn/WaitGroup join returns only after all tasks and never gets stuck; the index ranges of one Execute call are "
             "pairwise disjoint. NOT proved: absence of data races in the Go memory model and real scheduling - observed by "
             "running the -race harness (G in {2,4,16,64} goroutines x GOMAXPROCS {1,2,4,16}, shared config, every result "
             "compared with the sequential model, watchdog for hangs).",
        note="Data races and scheduler behaviour are observed with the Go race detector on explored schedules only.",
        tech="Coq proof (simulation over interleavings, transition-system invariants) + race-detector runs compared with the sequential model", ref="DESIGN.md 6.12"),
    "C13": dict(
        text="Theorems (generic over every call modelled as read-set / write-set / function of configuration and read values): "
             "one-step frame (configuration and all objects outside the write set unchanged, no object created/destroyed), "
             "lifted by induction to every finite history; the results of any script depend only on the configuration and the "
             "objects read (independence from preceding calls). The permitted re-normalisation keeps elements Equal with the "
             "same Bytes (C19). That every REAL call stays within its declared write set is established by the correspondence: "
             "random histories of 5..120 calls over all API families in one process with deep fingerprints of config, package "
             "variables, tables and every argument before/after each call, a probe call replayed at random positions, and "
             "every result compared with the model's history-free result. F1 (decoder reversing its input) was found this way "
             "and fixed.",
        note="The classification of each real call's write set is checked, not proved.",
        tech="Coq proof (frame lemma + induction over histories) + fingerprinting correspondence on histories", ref="DESIGN.md 6.13"),
    "C14": dict(
        text="Theorems: the buffered transcript machine refines the one-string hash-chain specification for every op "
             "sequence and every hash function; the hash input of each challenge is characterised; fixed-width "
             "concatenation binding (hash inputs equal iff payloads equal). Correspondence: all challenges of random op "
             "sequences (long pending buffers, empty messages, all point representations) and the published vectors, "
             "Go vs extracted model incl. the Coq SHA-256.",
        note="SHA-256 collision resistance is not assumed (binding is about hash inputs). crypto/sha256 is trusted; the Coq "
             "SHA-256 is validated against it and FIPS vectors.",
        tech="Coq refinement proof (induction over op sequences) + differential correspondence", ref="DESIGN.md 6.14"),
    "C16": dict(
        text="Theorems over all scalars / all byte strings of any length: round trips, reducing decoders = value mod r, "
             "canonical decoder accepts iff value < r, decoders leave the input intact; the pre-repair decoder is "
             "refuted (F1). Correspondence: decoded value, error flag, buffer after the call and second decode, Go vs model.",
        note="math/big, encoding/binary trusted (modelled as integer/byte-list conversion).",
        tech="Coq proof (arithmetic on byte lists) + differential correspondence", ref="DESIGN.md 6.16"),
    "C20": dict(
        text="Kernel-checked theorems about the model of Execute: for all n>=0, m>=1 the ranges are a contiguous "
             "partition of [0,n) into min(n,m) non-empty balanced ranges; for every schedule of the spawn/WaitGroup "
             "transition system return happens only after all tasks finished and no reachable state is stuck. "
             "Correspondence: parallel.Execute vs extracted model on the (n,m) grid (exhaustive in the thorough tier), "
             "default worker count under taskset.",
        note="goroutine / WaitGroup semantics are modelled (transition system), not verified.",
        tech="Coq proof (loop induction, schedule invariant) + differential correspondence", ref="DESIGN.md 6.20"),
    "C15": dict(
        text="Theorems for ALL operands: the portable limb functions (_addGeneric, _subGeneric, _negGeneric, _doubleGeneric, "
             "Butterfly, the 4-round CIOS _mulGeneric with final reduction, _fromMontGeneric, transcribed line by line) return "
             "well-formed, fully reduced limbs whose value is the integer result mod r (Montgomery product x*y/R); the constants "
             "(q limbs, qInvNeg, R^-1, one) are right; from_mont is a ring isomorphism from Montgomery representatives onto Z/r "
             "(add, sub, neg, double, mul, to/from Mont); Exp = power for every exponent; Inverse(0)=0 and Inverse returns an "
             "inverse whenever one exists (no primality assumed); mulByConstant, Cmp, LexicographicallyLargest; BatchInvert = "
             "map inverse-or-zero for every list; Sqrt (Tonelli-Shanks as coded): every returned root squares to the input. "
             "Sqrt/Legendre 'nil iff non-residue' is NOT proved (needs r prime): "
             "correspondence only. Correspondence: default (ADX asm), noadx and the portable generic functions vs limb model "
             "and integer model on boundary-heavy operands incl. aliasing.",
        note="amd64 assembly and the ADX/non-ADX dispatch are compared with the model, not verified. Sqrt, Legendre: correspondence only.",
        tech="Coq proof (carry-chain / CIOS invariants by lia/nia, modular algebra) + differential correspondence", ref="DESIGN.md 6.15"),
    "C08": dict(
        text="Theorems over every ring with partial inverse (instantiated for Fp, whose laws are proved): the transcribed gnark "
             "PointProj Add/MixedAdd/Double/Neg, PointExtended Add and the repo's ExtendedAddNormalized map representations "
             "of affine points to a representation of the affine twisted-Edwards sum/double/negation; results are independent "
             "of the representation (projective rescaling, class member (-x,-y)) up to Banderwagon class and satisfy Equal's "
             "cross-multiplication; commutativity, identity, P-P=O, negation morphism, +T2 = class flip. Premises: Z and the "
             "law denominators invertible. Associativity, completeness on the subgroup, exponent r, and GLV ScalarMul vs the "
             "double-and-add specification are NOT proved: scalar-multiplication laws are checked by correspondence "
             "(all aliasing patterns, identity-class operands, boundary scalars).",
        note="gnark-crypto's GLV scalar multiplication is modelled by its specification (double-and-add), compared differentially.",
        tech="Coq proof (ring/field identities on coordinate formulas) + differential correspondence", ref="DESIGN.md 6.8"),
    "C01": dict(
        text="Transfer theorem: the prover/verifier run on coordinate-level group operations give the same transcripts, scalars and decisions as over any lawful group related to them by an operation-preserving, encoding- and Equal-respecting relation, so completeness holds for the run on representations (premise for Banderwagon: that relation exists). MAIN THEOREM (abstract field with partial inverse, abstract module, domain 2^k for every k): for every non-empty "
             "list of honest openings (any number, any repetition/spread of the z_i, any polynomials), every worker count and "
             "arrival order and every transcript state, CreateMultiProof succeeds and CheckMultiProof from the same state "
             "accepts with the same final transcript state (same next challenge). Built from: schedule-independent grouping, "
             "regrouping of sums over used slots into sums over openings, the DivideOnDomain quotient-evaluation identity "
             "(partial fractions), linearity of the commitment, IPA completeness for all k with the bit-trick folding "
             "scalars. Premises (explicit): group laws; node differences invertible and additive embedding (proved for Fr, "
             "n=256); run-time side conditions on the drawn challenges (t outside the domain, IPA round challenges "
             "invertible). A toy instance is evaluated in the kernel. Correspondence: Go create/verify/next-challenge vs the "
             "extracted model on all statement shapes incl. shared / non-normalised / sign-flipped commitments and CPU counts.",
        note="Representation independence of commitment inputs is C07/C08; associativity of the Banderwagon law is a premise (GroupLaws).",
        tech="Coq proof (monoid of tables + permutation invariance, regrouping, fraction algebra, IPA round invariant by induction on k) + differential correspondence", ref="DESIGN.md 6.1"),
    "C02": dict(
        text="Theorems: CheckIPAProof equals the textbook recursive-folding verifier for every proof object and statement "
             "(same errors, transcript, decision); the whole result of CheckMultiProof is invariant under replacing every commitment, D, L_j, R_j by an "
             "equivalent representation (any congruence respected by encoding and Equal); "
             "CheckMultiProof / CheckIPAProof of the model return an error exactly on the listed shape defects "
             "(length mismatches, zero openings, L/R count <> numRounds) and a decision otherwise (total, no partial function); "
             "prover shape errors in the code's order; the verifier's bit-trick folding scalars equal the recursive fold of the "
             "textbook verifier. PARTIAL: cryptographic soundness is not a program property; 'the two verifiers always agree' "
             "and rejection of every single-component perturbation are decided by correspondence with the extracted model as "
             "the reference verifier (every perturbation class, splices, re-representation, all shape errors incl. panics).",
        note="Soundness against adversarial proofs is outside any executable model.",
        tech="Coq proof (case analysis, bit-level induction) + differential correspondence on perturbed proofs", ref="DESIGN.md 6.2"),
    "C03": dict(
        text="Theorems: for all inputs the whole result of CreateMultiProof (proof, final transcript state, or error) is the "
             "same for every worker count >= 1 and every arrival order of worker results; the grouping equals the sequential "
             "aggregation. Independence from earlier calls: the model is a function (code side: C13 history check). Byte-for-"
             "byte equality with an independent implementation of the spec is the correspondence itself: Go proof bytes and "
             "next challenge vs the extracted model (anchored by the repository's published vectors) under several CPU "
             "affinities / GOMAXPROCS settings and repeated calls.",
        note="MSM configuration independence (window, splits) is covered by C09; representation independence by C07.",
        tech="Coq proof (permutation invariance of the fan-in) + byte-exact differential correspondence", ref="DESIGN.md 6.3"),
    "C04": dict(
        text="Theorems (abstract field/module, every k): IPA completeness - CreateIPAProof succeeds with k L/R points and "
             "CheckIPAProof accepts result = <a,b(z)> from the same transcript state, both ending in the same state (premise: "
             "round challenges invertible); b(z) is the unit vector iff the canonical integer of z <= n-1 (switch exactly "
             "between 255 and 256), barycentric coefficients otherwise; <a,e_i> = a_i; folding scalars = recursive doubling; "
             "toy instance evaluated in the kernel; the opened value <a,b(z)> equals p(z) for p ANY polynomial of degree < n "
             "through the committed evaluations, at every field point in or outside the domain (generalised partial fractions; "
             "instantiated for Fr, n=256, the code's configuration, node premises discharged). PARTIAL: rejection of every "
             "other result is decided by correspondence (points 0,1,254..257,2^64,r-1,...).",
        note="Rejection of wrong results under Fiat-Shamir needs hash behaviour; differential only.",
        tech="Coq proof (round invariant, induction on k; AAC rewriting for abelian-group regrouping) + differential correspondence", ref="DESIGN.md 6.4"),
    "C05": dict(
        text="Theorems (abstract module, integers acting through a ring morphism; all inputs): the window recoding of "
             "PrecompPoint.ScalarMul (window value + carry, skip on 0, negate above half) for every window width dividing 256 "
             "and every canonical scalar leaves no carry, represents the scalar, and every digit indexes inside the 2^(w-1)-"
             "entry table; the table construction (running curr += base, base <- 2^w base) yields entry (j+1) 2^(wk) P; "
             "ScalarMul adds exactly s*P; MSMPrecomp.MSM (16-bit windows for i<5, 8-bit otherwise, zeros skipped) = sum_i s_i "
             "P_i for every vector length; Commit is additive and homogeneous. Correspondence: Go Commit vs the spec sum AND vs "
             "the extracted algorithm-level table model (every position x window x boundary digits, carry chains, lengths 0..256, "
             "linearity instances evaluated on the Go side).",
        note="Extended-coordinate addition formulas are proved in C08; the parallel path of MSMPrecomp is not separately modelled.",
        tech="Coq proof (digit-sum induction with carry, bounds by nia/lia, group-level induction with AAC) + differential correspondence at spec and algorithm level", ref="DESIGN.md 6.5"),
    "C09": dict(
        text="Theorems (abstract module; every window c>=2, every list): signed-window recoding of every canonical scalar "
             "(value, digit range, no final carry since scalars < 2^253); bucket accumulation + running-sum reduction = "
             "sum_i d_i P_i for all signed digits within the bucket count (0 skipped, negatives subtract); c doublings per "
             "chunk = Horner in base 2^c; recombination of all chunk totals into one MSM with digits sum_j 2^(cj) d_ij; "
             "additivity over any split of the point list; limb level: the selectors of partitionScalars (index, shift, "
             "truncated mask, multi-word select) extract exactly bits [c*chunk, c*chunk+c) for every 1<=c<=64 and value < 2^256; "
             "the whole per-scalar loop: packed limbs (OR of fields, truncation, multi-word writes, msb flag) read back by the "
             "chunk processor are the signed digits of the arithmetic recoding, no carry left, for every 2<=c<=64 and canonical "
             "scalar; assembled: msmInner (partitionScalars + bucket method per chunk with the smaller last bucket array + "
             "combination, first chunk split or not) = sum_i s_i P_i for every 2<=c<=64, every point list and canonical scalars. "
             "MultiExp as a whole: for every window, every split count k>=1 and slice length, every completion order of the "
             "goroutines, either first-chunk mode, the sum of the partial results is sum_i s_i P_i; the window/split loop "
             "terminates within log2(NbTasks)+1 rounds and only picks implemented windows. "
             "PARTIAL: bestC's float arithmetic is modelled on exact rationals and not observable (theorems hold for every "
             "choice); the Montgomery flag is tied by correspondence "
             "only (MultiExp/MultiScalar for sizes 0..4096 x task counts, each implemented c with and without first-chunk "
             "split and partitionScalars' packed limbs through hooks, watchdog for termination).",
        note="Group laws of Banderwagon are a premise (C08); Montgomery conversion of scalars is compared, not proved.",
        tech="Coq proof (induction over buckets/chunks, AAC regrouping) + differential correspondence incl. per-window hooks", ref="DESIGN.md 6.9"),
    "C06": dict(
        text="Theorems for every byte string: the compressed untrusted decoder accepts iff the exact decidable predicate "
             "accepts32 holds (length 32, value < p, computeY finds a root, Legendre(1-a x^2)=1), is total, and each failing "
             "condition yields its error; the result has Z=1, x = the encoded integer; accepted input re-encodes to the same "
             "bytes, so two accepted strings decoding to one element are identical; same for the uncompressed untrusted form "
             "(canonical x, y bytes = canonical largest root, subgroup test); the pinned reducing-x decoder is refuted by a "
             "kernel-evaluated witness (F2). Not proved: computeY's root squares to the curve value (C17 partial), order "
             "dividing r. Correspondence: boundary integers, x+p aliases, non-subgroup / off-curve x, all lengths, both signs of y.",
        note="'order divides r' needs point counting; sqrt soundness is only partially proved (C17).",
        tech="Coq proof (case analysis of the decoder, byte/integer codec lemmas, vm_compute witness) + differential correspondence", ref="DESIGN.md 6.6"),
    "C10": dict(
        text="Theorems for every stream, every chunk plan and both EOF styles: MultiProof.Read (repaired probe) equals the pure "
             "decoding mp_decode of the stream content (so the outcome is chunking-independent); accepted strings have exactly "
             "576 bytes (IPAProof.Read consumes exactly 544) with 17 (16) accepted point fields and a canonical scalar; an I/O "
             "error before byte 576/544 gives an error; Read(Write p) = p and Write(decode s) = s (under the point-codec "
             "premises of C06); a writer failing at any call makes Write fail; the pinned EOF probe is refuted for every "
             "accepted string (F3). Correspondence: bytes.Reader, 1-byte readers, random chunk plans, data+EOF readers, "
             "errors at offsets, failing writers, boundary field values in each of the 18 positions.",
        note="Readers returning (0, nil) are excluded (io.Reader discourages them). io.ReadAtLeast is modelled.",
        tech="Coq proof (induction over the ReadAtLeast loop with arbitrary chunk plans, refinement to a pure decoder) + differential correspondence", ref="DESIGN.md 6.10"),
    "C07": dict(
        text="Theorems: Bytes is a function of the Banderwagon class of the represented affine point only (invariant under every "
             "projective rescaling incl. the Z=1 fast path and under (x,y)->(-x,-y)), always 32 bytes; Equal holds between all "
             "representations of one class, is reflexive, symmetric, transitive (middle Y invertible), false against the "
             "all-zero value, and is exactly equality of X/Y; MAIN: for all valid elements Equal <-> equal Bytes, under the "
             "explicit premises 'p prime' and 'd non-square' (no zero divisors, the curve quadratic in y^2); decode(Bytes P) "
             "succeeds with the untrusted decoder and gives an element with the same bytes, Equal to P, for every valid "
             "element (further premises: encoded x passes the subgroup test; y^Q in the dyadic subgroup; both shown for the "
             "generator by kernel computation). Correspondence on random operation histories over all representations.",
        note="primality of p and non-squareness of d are premises of C07_equal_iff_bytes (not re-proved: no primality certificate available offline).",
        tech="Coq proof (representation invariance, equivalence laws) + differential correspondence on histories", ref="DESIGN.md 6.7"),
    "C11": dict(
        text="Theorems: MapToScalarField = canonical integer of X/Y in Fp reduced mod r; same value for every representation "
             "(any projective scaling, class member (-x,-y)); Equal <-> same X/Y (so non-Equal elements map to different x/y); "
             "the batch variant (one batch inversion with zero skipping) equals the single-element map for every list. "
             "Correspondence: Go scalars vs model on elements from histories in all representations and batches 0..300.",
        note="fp inversion of gnark-crypto is compared, not verified.",
        tech="Coq proof (field identities, batch-inversion theorem) + differential correspondence", ref="DESIGN.md 6.11"),
    "C17": dict(
        text="The addition chain is translated from bandersnatch/fp/sqrt.go on every run (lib/gen_chain.py) and must equal "
             "the chain the theorems were checked on. Theorems: p-1 = 2^32 Q with Q odd and the chain's exponents are exactly Q "
             "and (Q+1)/2 (kernel computation on the chain data); for EVERY z the chain computes (z^((Q+1)/2), z^Q) (generic "
             "interpreter lemma, induction over the chain); sqrt(0)=0; the dlog-by-blocks step invSqrtEqDyadic is characterised "
             "for EVERY exponent k<2^32 on the subgroup generated by the dyadic root (false iff k odd, else g^(((2^32-k) mod "
             "2^32)/2): LUT look-ups, byte-wise reconstruction, block products); hence for every z with z^Q in that subgroup: "
             "a returned root squares to z, nil iff the dlog is odd, every non-zero square gets a root; the premise cannot be "
             "dropped (kernel-evaluated witness rho=2 outside the subgroup); GetPointFromX is nil exactly when the root is nil, "
             "keeps x, returns the lexicographically larger root iff requested, recovered point on the curve; the 256 LUT keys "
             "are distinct. PARTIAL: 'z^Q lies in <g> for all non-zero z' (Fermat + cyclic Fp^*, p prime) is an explicit "
             "premise; on the code side it is exercised by "
             "correspondence: structured exponents sweeping every byte of each of the 4 blocks, all 2^k-th roots of unity, "
             "squares and non-squares in equal share, with y^2=v and an independent Euler-criterion oracle.",
        note="Membership of z^Q in the dyadic subgroup (Fermat, p prime) is a premise; everything else about SqrtPrecomp is proved.",
        tech="translator for the addition chain + Coq proof (generic chain interpreter, modular powers) + differential correspondence", ref="DESIGN.md 6.17"),
    "C18": dict(
        text="Theorems over every commutative ring with partial inverse and EVERY domain size n>=1 (premises: differences of "
             "distinct nodes and t-node invertible; discharged for Fr, n=256 by kernel computation): the weight tables equal "
             "their defining products/inverses with the code's index layout and accessors; A'(i) recursion; "
             "ComputeBarycentricCoefficients returns b_i(t)=A(t)/(A'(i)(t-i)); partial fractions sum_i 1/(A'(i)(t-i))=1/A(t) "
             "hence sum_i b_i = 1; DivideOnDomain k f has (f_i-f_k)/(i-k) off the diagonal and the coded diagonal formula, "
             "and <DivideOnDomain k f, b(t)> = (<f,b(t)>-f_k)/(t-k) for every k and every t outside the domain; coefficient "
             "form: for every polynomial q with at most n coefficients sum_i q(x_i)/(A'(x_i)(t-x_i)) = q(t)/A(t) and "
             "<evaluations of q, ComputeBarycentricCoefficients(t)> = q(t). PARTIAL: the quotient's value AT node k is "
             "characterised through the evaluation identity only; correspondence against the "
             "model's coefficient-form interpolation (all 256 k, structured f, all table entries via hook).",
        note="Invertibility of t - node for out-of-domain t is a run-time premise (true for every t > 255 when r is prime).",
        tech="Coq proof (induction on the domain size, fraction algebra with explicit invertibility) + differential correspondence", ref="DESIGN.md 6.18"),
    "C19": dict(
        text="Theorems for every list / pointer list: ElementsToBytes, BatchToBytesUncompressed, BatchMapToScalarField equal the "
             "single-element functions position by position (via the batch-inversion theorem, Z=1 fast path included); "
             "BatchNormalize over a store with ANY pointer list (duplicates, any enumeration order) fails iff some pointed Z=0 "
             "producing nothing, else replaces exactly the pointed elements by their normal form (Z=1, same affine point, same "
             "Bytes, Equal), independent of order; trusted uncompressed round trip. The model's BatchNormalize is the function "
             "run by the correspondence (lists with aliasing, Z=0 at each position, sizes at Execute partition boundaries).",
        note="Go map iteration order is modelled as an arbitrary enumeration order (theorem quantifies over it).",
        tech="Coq proof (induction over pointer lists, batch-inversion theorem) + differential correspondence", ref="DESIGN.md 6.19"),
}


def main():
    props = [json.loads(l) for l in open(os.path.join(VERIF, "properties.jsonl"))]
    checks, na = [], []
    for p in props:
        pid = p["id"]
        if pid in CLAIMED and os.path.exists(os.path.join(VERIF, "lib", "props", pid.lower() + ".py")) \
                and os.path.exists(os.path.join(VERIF, "coq", "Properties", pid + ".v")):
            c = CLAIMED[pid]
            checks.append({
                "property_id": pid,
                "quick_cmd": "./check %s --tier quick" % pid,
                "thorough_cmd": "./check %s --tier thorough" % pid,
                "evidence_file": "/verif/evidence/%s.json" % pid,
                "replay_cmd_template": "./check %s --replay {path}" % pid,
                "engine": "coq-model+correspondence",
                "level_claimed": {"category": "proof", "text": c["text"], "design_ref": c["ref"]},
                "level_note": NOTE + c["note"],
                "technique": c["tech"],
            })
        else:
            na.append({"property_id": pid, "reason": "check not built yet (work in progress; DESIGN.md section 6 "
                                                     "describes the planned proof and correspondence)"})
    m = {"version": 1, "setup_cmd": "./setup.sh",
         "hooks": {"guard": "verif",
                   "enable": "go build -tags verif (harness module verif/harness with replace => /repo)",
                   "baseline_off_cmd": "cd /repo && go test -vet=off -count=1 -timeout 25m ./...",
                   "source_commits": ["39549d6"], "add_only": True},
         "engines": [{"name": "coq-model+correspondence", "path": "/verif/coq, /verif/check",
                      "serves_properties": [c["property_id"] for c in checks],
                      "kind_free_text": "Coq 8.16 development (executable model, proofs, property theorems) + extracted "
                                        "OCaml model + Go harness built from /repo with -tags verif, compared by ./check"}],
         "checks": checks, "not_applicable": na,
         "notes": "See DESIGN.md. Evidence files are rewritten by every run of ./check. known_findings.json lists "
                  "genuine defects (fixed ones suppress nothing)."}
    json.dump(m, open(os.path.join(VERIF, "MANIFEST.json"), "w"), indent=1)
    print("claimed:", [c["property_id"] for c in checks])


if __name__ == "__main__":
    main()
