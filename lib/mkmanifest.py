#!/usr/bin/env python3
"""Regenerates /verif/MANIFEST.json from the table below."""
import json
import os

VERIF = os.path.dirname(os.path.dirname(os.path.abspath(__file__)))
NOTE = ("Trusted: Coq 8.16.1 kernel (vm_compute, no native_compute), extraction (ExtrOcamlBasic, ExtrOcamlZBigInt only) "
        "+ zarith + OCaml, Go toolchain, verif/harness, ocaml/driver.ml, python driver. The model is hand-written; its tie "
        "to /repo is the differential correspondence run on every check (agreement on the generated cases, not for all inputs). ")

CLAIMED = {
    "C14": dict(
        text="Theorems: the buffered transcript machine refines the one-string hash-chain specification for every op "
             "sequence and every hash function; the hash input of each challenge is characterised; fixed-width "
             "concatenation binding (hash inputs equal iff payloads equal). Correspondence: all challenges of random op "
             "sequences (long pending buffers, empty messages, all point representations) and the published vectors, "
             "Go vs extracted model incl. the Coq SHA-256.",
        note="SHA-256 collision resistance is not assumed (binding is about hash inputs). crypto/sha256 is trusted; the Coq "
             "SHA-256 is validated against it and FIPS vectors.",
        tech="Coq refinement proof (induction over op sequences) + differential correspondence", ref="DESIGN.md 6.14"),
    "C16": dict(
        text="Theorems over all scalars / all byte strings of any length: round trips, reducing decoders = value mod r, "
             "canonical decoder accepts iff value < r, decoders leave the input intact; the pre-repair decoder is "
             "refuted (F1). Correspondence: decoded value, error flag, buffer after the call and second decode, Go vs model.",
        note="math/big, encoding/binary trusted (modelled as integer/byte-list conversion).",
        tech="Coq proof (arithmetic on byte lists) + differential correspondence", ref="DESIGN.md 6.16"),
    "C20": dict(
        text="Kernel-checked theorems about the model of Execute: for all n>=0, m>=1 the ranges are a contiguous "
             "partition of [0,n) into min(n,m) non-empty balanced ranges; for every schedule of the spawn/WaitGroup "
             "transition system return happens only after all tasks finished and no reachable state is stuck. "
             "Correspondence: parallel.Execute vs extracted model on the (n,m) grid (exhaustive in the thorough tier), "
             "default worker count under taskset.",
        note="goroutine / WaitGroup semantics are modelled (transition system), not verified.",
        tech="Coq proof (loop induction, schedule invariant) + differential correspondence", ref="DESIGN.md 6.20"),
}


def main():
    props = [json.loads(l) for l in open(os.path.join(VERIF, "properties.jsonl"))]
    checks, na = [], []
    for p in props:
        pid = p["id"]
        if pid in CLAIMED and os.path.exists(os.path.join(VERIF, "lib", "props", pid.lower() + ".py")):
            c = CLAIMED[pid]
            checks.append({
                "property_id": pid,
                "quick_cmd": "./check %s --tier quick" % pid,
                "thorough_cmd": "./check %s --tier thorough" % pid,
                "evidence_file": "/verif/evidence/%s.json" % pid,
                "replay_cmd_template": "./check %s --replay {path}" % pid,
                "engine": "coq-model+correspondence",
                "level_claimed": {"category": "proof", "text": c["text"], "design_ref": c["ref"]},
                "level_note": NOTE + c["note"],
                "technique": c["tech"],
            })
        else:
            na.append({"property_id": pid, "reason": "check not built yet (work in progress; DESIGN.md section 6 "
                                                     "describes the planned proof and correspondence)"})
    m = {"version": 1, "setup_cmd": "./setup.sh",
         "hooks": {"guard": "verif",
                   "enable": "go build -tags verif (harness module verif/harness with replace => /repo)",
                   "baseline_off_cmd": "cd /repo && go test -vet=off -count=1 -timeout 25m ./...",
                   "source_commits": ["39549d6"], "add_only": True},
         "engines": [{"name": "coq-model+correspondence", "path": "/verif/coq, /verif/check",
                      "serves_properties": [c["property_id"] for c in checks],
                      "kind_free_text": "Coq 8.16 development (executable model, proofs, property theorems) + extracted "
                                        "OCaml model + Go harness built from /repo with -tags verif, compared by ./check"}],
         "checks": checks, "not_applicable": na,
         "notes": "See DESIGN.md. Evidence files are rewritten by every run of ./check. known_findings.json lists "
                  "genuine defects (fixed ones suppress nothing)."}
    json.dump(m, open(os.path.join(VERIF, "MANIFEST.json"), "w"), indent=1)
    print("claimed:", [c["property_id"] for c in checks])


if __name__ == "__main__":
    main()
