"""Generators for multiproof / IPA statements (families mpc, mpv, mpvs, ipac, ipav)."""
import ecref as E

R = E.R


def limb_values(rng):
    """evaluations whose 64-bit limb structure matters to limb-wise code: one-word values with the top bits set,
    all-ones limbs followed by zero limbs, single high bytes, and the same in Montgomery form"""
    rinv = pow(1 << 256, -1, R)
    base = [(1 << 63), (1 << 64) - 1, 0xf800000000000000, 0xfff8000000000000, 0xff00000000000000, 0x8100000000000000,
            (1 << 128) - 1, (1 << 192) - 1, (1 << 64), (1 << 128), ((1 << 64) - 1) << 64, 32768, 0x7fffffff, 1 << 95]
    v = rng.choice(base)
    return v if rng.random() < 0.8 else v * rinv % R


def poly_spec(rng, kind=None):
    """returns (spec, dense?)"""
    k = kind or rng.choice(["z", "c", "u", "s", "s", "s", "r", "max", "u255", "s2"])
    if k == "z":
        return "z", False
    if k == "c":
        return "c:%x" % rng.choice([1, R - 1, rng.randrange(R)]), True
    if k == "max":
        return "c:%x" % (R - 1), True
    if k == "u":
        return "u:%d:%x" % (rng.randrange(256), rng.choice([1, R - 1, rng.randrange(R), limb_values(rng)])), False
    if k == "u255":
        return "u:255:%x" % rng.randrange(1, R), False
    if k == "s":
        m = rng.randrange(1, 6)
        idx = rng.sample(range(256), m)
        return "s:" + ",".join("%d=%x" % (i, rng.choice([rng.randrange(R), R - 1, 1, rng.randrange(2 ** 16), limb_values(rng)])) for i in idx), False
    if k == "s2":
        m = rng.randrange(6, 20)
        idx = rng.sample(range(256), m)
        return "s:" + ",".join("%d=%x" % (i, rng.randrange(R)) for i in idx), False
    if k == "r":
        return "r:%x" % rng.randrange(2 ** 64), True
    raise ValueError(k)


def z_pattern(rng, n, pat=None):
    pat = pat or rng.choice(["equal", "distinct-gaps", "ends", "clustered", "random", "ascending", "descending"])
    if pat == "equal":
        z = rng.randrange(256)
        return [z] * n, pat
    if pat == "distinct-gaps":
        zs = rng.sample(range(256), min(n, 256))
        while len(zs) < n:
            zs.append(rng.choice(zs))
        return zs, pat
    if pat == "ends":
        return [rng.choice([0, 255]) for _ in range(n)], pat
    if pat == "clustered":
        c = [rng.randrange(256) for _ in range(max(1, n // 4))]
        return [rng.choice(c) for _ in range(n)], pat
    if pat == "ascending":
        s = rng.randrange(256)
        return [(s + 3 * i) % 256 for i in range(n)], pat
    if pat == "descending":
        s = rng.randrange(256)
        return [(s - 5 * i) % 256 for i in range(n)], pat
    return [rng.randrange(256) for _ in range(n)], "random"


def repr_mod(rng, i, specs):
    k = rng.random()
    if k < 0.35:
        return "n"
    if k < 0.5:
        return "k"
    if k < 0.65:
        return "s%x" % rng.randrange(2, E.P)
    if k < 0.75:
        return "f"
    if k < 0.85:
        return "sf%x" % rng.randrange(2, E.P)
    # shared pointer with an earlier opening that has the same polynomial
    for j in range(i):
        if specs[j] == specs[i]:
            return "p%d" % j
    return "n"


def statement(rng, n, max_dense=3, zpat=None, label=None):
    """returns (mpc line, meta)"""
    specs = []
    dense = 0
    for i in range(n):
        if i > 0 and rng.random() < 0.2:
            specs.append(rng.choice(specs))      # same polynomial again
            continue
        sp, d = poly_spec(rng)
        if d:
            if dense >= max_dense:
                sp, d = poly_spec(rng, "s")
            else:
                dense += 1
        specs.append(sp)
    zs, pat = z_pattern(rng, n, zpat)
    reps = [repr_mod(rng, i, specs) for i in range(n)]
    # p<j> must point to a non-p entry
    for i in range(n):
        if reps[i].startswith("p"):
            j = int(reps[i][1:])
            if reps[j].startswith("p"):
                reps[i] = reps[j]
    if label is None:
        label = bytes(rng.randrange(256) for _ in range(rng.choice([0, 1, 3, 9, 20])))
    ops = " ".join("%s %d %s" % (reps[i], zs[i], specs[i]) for i in range(n))
    line = "mpc %s 1 - %s" % (E.hx(label), ops)
    meta = {"n": n, "zpat": pat, "label": label, "zs": zs, "reps": reps, "specs": specs}
    return line, meta


def with_workers(line, nw, arrival):
    """same statement for the model with another worker count / arrival order"""
    t = line.split()
    t[2] = str(nw)
    t[3] = ",".join(map(str, arrival)) if arrival else "-"
    return " ".join(t)


def parse_mpc_out(o):
    """-> dict(proof, chal, cs[list hex], ys[list hex]) or None"""
    t = o.split()
    if not t or t[0] != "OK":
        return None
    return {"proof": t[1], "chal": t[2], "cs": t[4].split(","), "ys": t[6].split(",")}


def point_tok_from_bytes(h):
    """raw token (Z=1) of the element whose compressed encoding is hex h"""
    x = int(h, 16)
    y = E.y_from_x(x)
    if y is None:
        raise ValueError("not decodable")
    if not E.lex_largest(y):
        y = (-y) % E.P
    return E.tok((x, y))


def point_from_bytes(h):
    x = int(h, 16)
    y = E.y_from_x(x)
    if not E.lex_largest(y):
        y = (-y) % E.P
    return (x, y)


def mpv_line(label, proof_hex, cs_toks, zs, ys):
    ops = " ".join("%s %d %s" % (c, z, y) for c, z, y in zip(cs_toks, zs, ys))
    return "mpv %s %s %s" % (E.hx(label), proof_hex, ops)
