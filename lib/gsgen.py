"""Generator of group scripts ('gs' family): register machine over Banderwagon elements.
Every script starts from a pool given as raw coordinates (all representations), then applies
random operations; the harness/model print Bytes, the Equal matrix, map-to-field, batch helpers."""
import ecref as E

LAMBDA = 8913659658109529928382530854484400854125314752504019737736543920008458395397
R = E.R


def scalars(rng):
    base = [0, 1, 2, 3, R - 1, R - 2, (R - 1) // 2, (R + 1) // 2, LAMBDA, R - LAMBDA, LAMBDA + 1, LAMBDA - 1,
            2 ** 64 - 1, 2 ** 64, 2 ** 127, 2 ** 128 - 1, 2 ** 128, 2 ** 252, 2 ** 252 - 1]
    k = rng.random()
    if k < 0.08:
        # small / sparse INTERNAL (Montgomery) representation: m * 2^-256 mod r
        rinv = pow(1 << 256, -1, R)
        return rng.choice([1, 2, 3, 255, 1 << 63, (1 << 64) - 1, 1 << 64, rng.randrange(1, 1 << 64)]) * rinv % R
    if k < 0.35:
        return rng.choice(base)
    if k < 0.5:
        e = rng.randrange(0, 253)
        return (2 ** e - rng.choice([0, 1])) % R
    if k < 0.6:
        return rng.randrange(0, 2 ** 16)
    if k < 0.7:
        # small multiple of lambda plus small: GLV split with one tiny / zero component
        return (rng.randrange(0, 4) * LAMBDA + rng.randrange(0, 5)) % R
    return rng.randrange(R)


def rep_tok(rng, p, rep=None):
    """token of affine point p in representation rep: 0 Z=1, 1 rescaled, 2 flipped, 3 both"""
    if rep is None:
        rep = rng.randrange(4)
    # rescaling factors: mostly random, sometimes structured (Z = -1, small, congruent to 1 modulo 2^64 / 2^128)
    l = 1 if rep in (0, 2) else (rng.randrange(2, E.P) if rng.random() < 0.75 else
                                  rng.choice([E.P - 1, 2, 3, (1 << 64) + 1, (1 << 128) + 1, 1 + (rng.randrange(1, 1 << 60) << 64),
                                              1 + (rng.randrange(1, 1 << 60) << 192), (1 << 64) - 1]))
    return E.tok(p, l=l, flip=(rep >= 2))


def pool_points(rng, n):
    pts = [E.G, E.ID, (0, E.P - 1), E.neg(E.G)]
    while len(pts) < n:
        pts.append(E.rand_point(rng))
    return pts


def gen_script(rng, nops, emphasis="mixed", with_identity=True, with_zero=False):
    """returns (line, nregs)"""
    pts = pool_points(rng, 7)
    toks = []
    nreg = 0
    # seed registers: same points in several representations
    k = rng.randrange(3, 7)
    chosen = [rng.choice(pts if with_identity else pts[3:]) for _ in range(k)]
    for p in chosen:
        toks.append("raw:" + rep_tok(rng, p))
        nreg += 1
    # one of them again in another representation (equal elements, different coordinates)
    toks.append("raw:" + rep_tok(rng, chosen[0], rep=rng.randrange(4)))
    nreg += 1
    zero_reg = None
    if with_zero:
        toks.append("raw:0.0.0")
        zero_reg = nreg
        nreg += 1
    if rng.random() < 0.5:
        toks.append(rng.choice(["gen", "id", "crs:%d" % rng.randrange(256)]))
        nreg += 1
    for _ in range(nops):
        i, j = rng.randrange(nreg), rng.randrange(nreg)
        k = rng.random()
        if emphasis == "scalar":
            k = k * 0.5 + 0.25 if k < 0.7 else k
        if k < 0.18:
            toks.append("%s:%d:%d" % (rng.choice(["add", "add", "addA", "addB"]), i, j))
        elif k < 0.28:
            toks.append("%s:%d:%d" % (rng.choice(["sub", "sub", "subA", "subB"]), i, j))
        elif k < 0.32:
            toks.append("sub:%d:%d" % (i, i))   # P - P
        elif k < 0.38:
            toks.append("%s:%d" % (rng.choice(["dbl", "dblA"]), i))
        elif k < 0.43:
            toks.append("%s:%d" % (rng.choice(["neg", "negA"]), i))
        elif k < 0.62:
            toks.append("%s:%d:%x" % (rng.choice(["smul", "smul", "smulA"]), i, scalars(rng)))
        elif k < 0.67:
            toks.append("mix:%d:%d" % (i, j))
        elif k < 0.71:
            toks.append("set:%d" % i)
        elif k < 0.76:
            toks.append("norm:%d" % i)
        elif k < 0.80:
            idx = [rng.randrange(nreg) for _ in range(rng.randrange(0, 6))]
            toks.append("bn:%s" % (",".join(map(str, idx)) or "-"))
            if idx:
                toks.append("z1:%d" % idx[0])
            continue
        elif k < 0.88:
            m = rng.randrange(0, 5)
            idx = [rng.randrange(nreg) for _ in range(m)]
            ss = [scalars(rng) for _ in range(m)]
            kind = rng.choice(["msm:%d:%d" % (rng.choice([0, 1, 2, 3, 16]), rng.randrange(2)), "ms:-:-",
                               "msx:%d:%d" % (rng.choice([0, 1, 4]), rng.randrange(2))])
            toks.append("%s:%s:%s" % (kind, ",".join(map(str, idx)) or "-", ",".join("%x" % s for s in ss) or "-"))
        elif k < 0.905:
            # table-driven scalar multiplications accumulated into one point; repeated base points with equal
            # scalars make the accumulator meet a table entry equal to itself (P + P through the mixed addition)
            lo = 1 if with_zero else 0
            cand = [q for q in range(nreg) if not (with_zero and q == zero_reg)]
            i0 = rng.choice(cand)
            pat = rng.random()
            idx = [i0, i0] if pat < 0.5 else ([i0, rng.choice(cand), i0] if pat < 0.75 else [rng.choice(cand) for _ in range(rng.randrange(1, 4))])
            s0 = rng.choice([1, 2, 3, 5, 127, 128, 255, 256, 2 ** 64 + 3, scalars(rng)])
            ss = [s0 if (rng.random() < 0.7 or j == 0) else scalars(rng) for j in range(len(idx))]
            toks.append("pcsm:%s:%s" % (",".join(map(str, idx)), ",".join("%x" % v for v in ss)))
        elif k < 0.93:
            m = rng.randrange(1, 4)
            kv = ",".join("%d=%x" % (rng.randrange(256), scalars(rng)) for _ in range(m))
            toks.append("msmp:" + kv)
        elif k < 0.97:
            p = rng.choice(pts)
            toks.append("dec:" + E.hx(E.compress(p)))
        else:
            p = rng.choice(pts)
            toks.append("dect:" + E.hx(E.uncompressed(p)))
        nreg += 1
    return "gs " + " ".join(toks), nreg


SECTIONS = ["B", "EQ", "MAP", "BMAP", "EB", "UB", "US", "UT", "DEC", "OBS", "B2"]
# UB / US (uncompressed coordinates) depend on which member (x,y) / (-x,-y) of the Banderwagon class a
# representation holds, which is not a property-level observable: they are compared only with each other
CROSS = ("B", "EQ", "MAP", "BMAP", "EB", "UT", "DEC", "OBS", "B2")


def canon(line):
    return project(line, CROSS) if line.startswith("B ") else line



def project(line, keep):
    """keep only the named sections of a gs output line (errors/panics are kept whole)"""
    if not line.startswith("B"):
        return line
    parts = [p.strip() for p in line.split("|")]
    out = []
    for p in parts:
        name = p.split(" ", 1)[0]
        if name in keep:
            out.append(p)
    return " | ".join(out)
