"""Mixed API workload (case lines of several families) used by C12 (concurrent use) and C13 (histories)."""
import ecref as E
import gsgen
import mpgen

R = E.R


def mixed(rng, n, heavy=True):
    """returns list of (line, family)"""
    out = []
    pts = [E.rand_point(rng) for _ in range(12)]
    honest = []
    for _ in range(n):
        k = rng.random()
        if k < 0.14:
            sp, _ = mpgen.poly_spec(rng, rng.choice(["s", "s2", "u", "z", "u255"]))
            out.append(("commit " + sp, "commit"))
        elif k < 0.26 and heavy:
            l, m = mpgen.statement(rng, rng.choice([1, 2, 2, 3, 5, 17]), max_dense=0)
            out.append((l, "create-multiproof"))
        elif k < 0.34 and heavy:
            sp, _ = mpgen.poly_spec(rng, rng.choice(["s", "u"]))
            out.append(("ipac %s %x %s" % (E.hx(b"w"), rng.choice([0, 3, 255, 256, rng.randrange(R)]), sp), "create-ipa"))
        elif k < 0.46:
            m = rng.choice([0, 1, 2, 3, 9, 33])
            P = ",".join(E.tok(rng.choice(pts), l=rng.choice([1, rng.randrange(2, E.P)])) for _ in range(m)) or "-"
            S = ",".join("%x" % rng.choice([rng.randrange(R), 1, 0, rng.randrange(256)]) for _ in range(m)) or "-"
            out.append(("msmx %s %d %d %s %s" % (rng.choice(["bw", "bs", "ms"]), rng.choice([0, 1, 3, 16, 64]), rng.randrange(2), P, S), "msm"))
        elif k < 0.58:
            p = rng.choice(pts)
            b = E.compress(p) if rng.random() < 0.7 else bytes(rng.randrange(256) for _ in range(32))
            out.append(("dec %s %s" % (rng.choice(["c", "r"]), E.hx(b)), "decode"))
        elif k < 0.66:
            p = rng.choice(pts)
            out.append(("dec u %s" % E.hx(E.uncompressed(p if E.lex_largest(p[1]) else ((-p[0]) % E.P, (-p[1]) % E.P))), "decode-uncompressed"))
        elif k < 0.70:
            # verification of arbitrary well-formed (not honest) proofs over commitments given in PROJECTIVE
            # representations: the decision is "false", what matters here is that nothing given is rewritten
            nn = rng.randrange(1, 4)
            cs = [E.tok(rng.choice(pts), l=rng.randrange(2, E.P), flip=bool(rng.randrange(2))) for _ in range(nn)]
            if rng.random() < 0.5:
                pb = b"".join(E.compress(rng.choice(pts)) for _ in range(17)) + rng.randrange(R).to_bytes(32, "little")
                out.append((mpgen.mpv_line(b"wv", pb.hex(), cs, [rng.randrange(256) for _ in range(nn)],
                                           ["%x" % rng.randrange(R) for _ in range(nn)]), "verify-multiproof"))
            else:
                pb = b"".join(E.compress(rng.choice(pts)) for _ in range(16)) + rng.randrange(R).to_bytes(32, "little")
                out.append(("ipav %s %s %s %x %x" % (E.hx(b"wv"), pb.hex(), cs[0], rng.choice([0, 255, 256, rng.randrange(R)]),
                                                    rng.randrange(R)), "verify-ipa"))
        elif k < 0.80:
            l, _ = gsgen.gen_script(rng, rng.randrange(1, 12))
            out.append((l, "group-script"))
        elif k < 0.88:
            ops = []
            for _ in range(rng.randrange(1, 8)):
                ops.append(rng.choice(["M:6c:%s" % E.hx(bytes(rng.randrange(256) for _ in range(rng.randrange(0, 80)))),
                                       "S:73:%x" % rng.randrange(R), "P:70:%s" % E.tok(rng.choice(pts)), "C:63"]))
            out.append(("tr %s %s C:78" % (E.hx(b"own-transcript"), " ".join(ops)), "transcript"))
        elif k < 0.91:
            b = rng.randrange(2 ** 256).to_bytes(32, "big")
            out.append(("frdec %s %s" % (rng.choice(["be", "le", "lec"]), E.hx(b)), "scalar-decode"))
        elif k < 0.925:
            v = rng.choice([R + 5, 2 ** 256 - 1, rng.randrange(R, 2 ** 256), rng.randrange(R), R, 2 ** 300 + 7])
            out.append(("frbig %x%s" % (v, rng.choice(["", " neg"])), "scalar-from-bigint"))
        elif k < 0.94:
            # verification calls that fail in different places (inside the IPA check, in the shape checks)
            out.append((rng.choice(["mpvs 73 7 7 1 1 1", "mpvs 73 9 9 2 2 2", "mpvs 73 8 7 1 1 1", "mpvs 73 8 8 2 1 2", "mpvs 73 7 7 3 3 3"]),
                        "verify-failing"))
        else:
            out.append(("dod %d r:%x" % (rng.randrange(256), rng.randrange(2 ** 64)), "divide-on-domain"))
    return out
