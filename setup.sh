#!/bin/sh
# Build the framework from files on disk only (offline).
set -e
cd "$(dirname "$0")"
export GOFLAGS=-mod=mod GOPROXY=off GOSUMDB=off GOTOOLCHAIN=local
mkdir -p build evidence
python3 - <<'PY'
import sys, os
sys.path.insert(0, os.path.join(os.getcwd(), "lib"))
import vlib
ok, lg = vlib.build_coq()
print("coq build:", "ok" if ok else "FAILED\n" + lg)
ok2, exe, lg2 = vlib.build_model()
print("model build:", "ok" if ok2 else "FAILED\n" + lg2)
ok3, exe3, lg3 = vlib.build_harness()
print("harness build:", "ok" if ok3 else "FAILED\n" + lg3)
sys.exit(0 if (ok and ok2 and ok3) else 1)
PY
