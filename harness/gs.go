package main

import (
	"fmt"
	"strings"

	"github.com/crate-crypto/go-ipa/bandersnatch"
	"github.com/crate-crypto/go-ipa/bandersnatch/fr"
	"github.com/crate-crypto/go-ipa/banderwagon"
	"github.com/crate-crypto/go-ipa/ipa"
)

func init() { register("gs", runGS) }

func affineOf(p *banderwagon.Element) bandersnatch.PointAffine {
	x, y, z := p.VerifRaw()
	pp := bandersnatch.PointProj{X: x, Y: y, Z: z}
	var a bandersnatch.PointAffine
	a.FromProj(&pp)
	return a
}

func runGS(t []string) string {
	var regs []banderwagon.Element
	var obs strings.Builder
	errk := func(k int) { fmt.Fprintf(&obs, " !E%d", k) }
	for k, tok := range t[1:] {
		p := strings.Split(tok, ":")
		var r banderwagon.Element
		switch p[0] {
		case "raw":
			regs = append(regs, pointOfTok(p[1]))
		case "id":
			r.SetIdentity()
			regs = append(regs, r)
		case "gen":
			regs = append(regs, banderwagon.Generator)
		case "crs":
			regs = append(regs, config().SRS[atoi(p[1])])
		case "add":
			a, b := regs[atoi(p[1])], regs[atoi(p[2])]
			a0, b0 := a, b
			r.Add(&a, &b)
			if a != a0 || b != b0 {
				obs.WriteString(" MUTATED-INPUT")
			}
			regs = append(regs, r)
		case "addA": // receiver aliases the first operand
			a, b := regs[atoi(p[1])], regs[atoi(p[2])]
			if p[1] == p[2] {
				a.Add(&a, &a)
			} else {
				a.Add(&a, &b)
			}
			regs = append(regs, a)
		case "addB": // receiver aliases the second operand
			a, b := regs[atoi(p[1])], regs[atoi(p[2])]
			b.Add(&a, &b)
			regs = append(regs, b)
		case "sub":
			a, b := regs[atoi(p[1])], regs[atoi(p[2])]
			a0, b0 := a, b
			r.Sub(&a, &b)
			if a != a0 || b != b0 {
				obs.WriteString(" MUTATED-INPUT")
			}
			regs = append(regs, r)
		case "subA":
			a, b := regs[atoi(p[1])], regs[atoi(p[2])]
			if p[1] == p[2] {
				a.Sub(&a, &a)
			} else {
				a.Sub(&a, &b)
			}
			regs = append(regs, a)
		case "subB":
			a, b := regs[atoi(p[1])], regs[atoi(p[2])]
			b.Sub(&a, &b)
			regs = append(regs, b)
		case "dbl":
			a := regs[atoi(p[1])]
			r.Double(&a)
			regs = append(regs, r)
		case "dblA":
			a := regs[atoi(p[1])]
			a.Double(&a)
			regs = append(regs, a)
		case "neg":
			a := regs[atoi(p[1])]
			r.Neg(&a)
			regs = append(regs, r)
		case "negA":
			a := regs[atoi(p[1])]
			a.Neg(&a)
			regs = append(regs, a)
		case "set":
			a := regs[atoi(p[1])]
			r.Set(&a)
			regs = append(regs, r)
		case "mix":
			a := regs[atoi(p[1])]
			b := regs[atoi(p[2])]
			r.AddMixed(&a, affineOf(&b))
			regs = append(regs, r)
		case "smul":
			a := regs[atoi(p[1])]
			s := frOfHex(p[2])
			a0, s0 := a, s
			r.ScalarMul(&a, &s)
			if a != a0 || s != s0 {
				obs.WriteString(" MUTATED-INPUT")
			}
			regs = append(regs, r)
		case "smulA":
			a := regs[atoi(p[1])]
			s := frOfHex(p[2])
			a.ScalarMul(&a, &s)
			regs = append(regs, a)
		case "dec":
			if err := r.SetBytes(unhex(p[1])); err != nil {
				errk(k)
				r.SetIdentity()
			}
			regs = append(regs, r)
		case "decu":
			if err := r.SetBytesUncompressed(unhex(p[1]), false); err != nil {
				errk(k)
				r.SetIdentity()
			}
			regs = append(regs, r)
		case "dect":
			if err := r.SetBytesUncompressed(unhex(p[1]), true); err != nil {
				errk(k)
				r.SetIdentity()
			}
			regs = append(regs, r)
		case "norm":
			a := regs[atoi(p[1])]
			if err := a.Normalize(); err != nil {
				errk(k)
				a = regs[atoi(p[1])]
			}
			regs = append(regs, a)
		case "bn":
			idx := intsOf(p[1])
			ptrs := make([]*banderwagon.Element, len(idx))
			for i, j := range idx {
				ptrs[i] = &regs[j]
			}
			before := append([]banderwagon.Element(nil), regs...)
			if err := banderwagon.BatchNormalize(ptrs); err != nil {
				errk(k)
				for i := range regs {
					if regs[i] != before[i] {
						obs.WriteString(" BN-ERROR-MODIFIED")
						break
					}
				}
			}
		case "msm", "ms", "msx":
			idx := intsOf(p[3])
			pts := make([]banderwagon.Element, len(idx))
			for i, j := range idx {
				pts[i] = regs[j]
			}
			ss := frsOf(p[4])
			pts0 := append([]banderwagon.Element(nil), pts...)
			ss0 := append([]fr.Element(nil), ss...)
			switch p[0] {
			case "ms":
				res, err := ipa.MultiScalar(pts, ss)
				if err != nil {
					errk(k)
					res.SetIdentity()
				}
				r = res
			case "msm":
				mont := p[2] == "1"
				in := ss
				if !mont {
					in = make([]fr.Element, len(ss))
					for i := range ss {
						in[i] = ss[i]
						in[i].FromMont()
					}
				}
				if _, err := r.MultiExp(pts, in, banderwagon.MultiExpConfig{NbTasks: atoi(p[1]), ScalarsMont: mont}); err != nil {
					errk(k)
					r.SetIdentity()
				}
			case "msx":
				mont := p[2] == "1"
				in := make([]fr.Element, len(ss))
				for i := range ss {
					in[i] = ss[i]
					if !mont {
						in[i].FromMont()
					}
				}
				aff := make([]bandersnatch.PointAffine, len(pts))
				for i := range pts {
					aff[i] = affineOf(&pts[i])
				}
				var pp bandersnatch.PointProj
				if _, err := bandersnatch.MultiExp(&pp, aff, in, bandersnatch.MultiExpConfig{NbTasks: atoi(p[1]), ScalarsMont: mont}); err != nil {
					errk(k)
					r.SetIdentity()
				} else {
					r = banderwagon.VerifFromRaw(pp.X, pp.Y, pp.Z)
				}
			}
			for i := range pts {
				if pts[i] != pts0[i] {
					obs.WriteString(" MUTATED-INPUT")
					break
				}
			}
			for i := range ss {
				if ss[i] != ss0[i] {
					obs.WriteString(" MUTATED-INPUT")
					break
				}
			}
			regs = append(regs, r)
		case "pcsm":
			// precomputed-table scalar multiplications accumulated into one extended point:
			// sum_n s_n * regs[idx_n] through NewPrecompPoint / PrecompPoint.ScalarMul (8-bit windows)
			idx := intsOf(p[1])
			ss := frsOf(p[2])
			acc := bandersnatch.IdentityExt
			for n, j := range idx {
				pp, err := banderwagon.NewPrecompPoint(regs[j], 8)
				if err != nil {
					errk(k)
					break
				}
				if !ss[n].IsZero() {
					pp.ScalarMul(ss[n], &acc)
				}
			}
			r = banderwagon.VerifFromRaw(acc.X, acc.Y, acc.Z)
			regs = append(regs, r)
		case "msmp":
			v := polyOfSpec(256, "s:"+p[1])
			v0 := append([]fr.Element(nil), v...)
			r = config().Commit(v)
			for i := range v {
				if v[i] != v0[i] {
					obs.WriteString(" MUTATED-INPUT")
					break
				}
			}
			regs = append(regs, r)
		case "z1":
			_, _, z := regs[atoi(p[1])].VerifRaw()
			fmt.Fprintf(&obs, " z1[%s]=%v", p[1], z.IsOne())
		case "oc":
			a := regs[atoi(p[1])]
			fmt.Fprintf(&obs, " oc[%s]=%v", p[1], a.IsOnCurve())
		default:
			panic("bad gs op " + tok)
		}
	}
	var b strings.Builder
	b.WriteString("B")
	for i := range regs {
		x := regs[i].Bytes()
		b.WriteString(" " + hexs(x[:]))
	}
	b.WriteString(" | EQ")
	for i := range regs {
		b.WriteString(" ")
		for j := range regs {
			if regs[i].Equal(&regs[j]) {
				b.WriteString("1")
			} else {
				b.WriteString("0")
			}
		}
	}
	b.WriteString(" | MAP")
	singles := make([]fr.Element, len(regs))
	for i := range regs {
		var s fr.Element
		s.SetUint64(0xdeadbeefcafe) // the result variable already holds a value from earlier use
		regs[i].MapToScalarField(&s)
		singles[i] = s
		b.WriteString(" " + frHex(&s))
	}
	b.WriteString(" | BMAP")
	ptrs := make([]*banderwagon.Element, len(regs))
	outs := make([]*fr.Element, len(regs))
	for i := range regs {
		ptrs[i] = &regs[i]
		outs[i] = new(fr.Element)
	}
	snapshot := append([]banderwagon.Element(nil), regs...)
	batchErr := banderwagon.BatchMapToScalarField(outs, ptrs)
	if batchErr != nil {
		b.WriteString(" ERR")
	} else {
		for i := range outs {
			b.WriteString(" " + frHex(outs[i]))
		}
	}
	// a long batch with repeated, non-adjacent pointers and pre-filled result slots: position by
	// position it must equal the single-element map of the pointed element
	if len(regs) > 0 && batchErr == nil {
		m := 5*len(regs) + 3
		if m < 160 {
			m = 160
		}
		ptrs2 := make([]*banderwagon.Element, m)
		outs2 := make([]*fr.Element, m)
		idx := make([]int, m)
		for j := range idx {
			idx[j] = (j*j + j/3) % len(regs)
			ptrs2[j] = &regs[idx[j]]
			outs2[j] = new(fr.Element)
			outs2[j].SetUint64(uint64(77 + j))
		}
		if err := banderwagon.BatchMapToScalarField(outs2, ptrs2); err != nil {
			b.WriteString(" ALIASFAIL-ERR")
		} else {
			for j := range outs2 {
				if *outs2[j] != singles[idx[j]] {
					b.WriteString(" ALIASFAIL")
					break
				}
			}
		}
		// the same aliasing pattern through the batch serialiser
		eb2 := banderwagon.ElementsToBytes(ptrs2[:len(regs)+7]...)
		for j := range eb2 {
			if eb2[j] != regs[idx[j]].Bytes() {
				b.WriteString(" ALIASFAIL-EB")
				break
			}
		}
	}
	b.WriteString(" | EB")
	for _, x := range banderwagon.ElementsToBytes(ptrs...) {
		b.WriteString(" " + hexs(x[:]))
	}
	b.WriteString(" | UB")
	for _, x := range banderwagon.BatchToBytesUncompressed(ptrs...) {
		b.WriteString(" " + hexs(x[:]))
	}
	b.WriteString(" | US")
	for i := range regs {
		u := regs[i].BytesUncompressedTrusted()
		b.WriteString(" " + hexs(u[:]))
	}
	b.WriteString(" | UT")
	for i := range regs {
		u := regs[i].BytesUncompressedTrusted()
		var q banderwagon.Element
		if err := q.SetBytesUncompressed(u[:], true); err != nil {
			b.WriteString(" ERR")
			continue
		}
		x := q.Bytes()
		b.WriteString(" " + hexs(x[:]))
		if regs[i].Equal(&q) {
			b.WriteString("=")
		} else {
			b.WriteString("#")
		}
	}
	b.WriteString(" | DEC")
	for i := range regs {
		x := regs[i].Bytes()
		var q banderwagon.Element
		if err := q.SetBytes(x[:]); err != nil {
			b.WriteString(" ERR")
		} else if regs[i].Equal(&q) {
			b.WriteString(" =")
		} else {
			b.WriteString(" #")
		}
	}
	b.WriteString(" | OBS")
	for i := range regs {
		if regs[i] != snapshot[i] {
			obs.WriteString(" BATCH-OBSERVERS-MUTATED-INPUT")
			break
		}
	}
	b.WriteString(obs.String())
	b.WriteString(" | B2")
	for i := range regs {
		x := regs[i].Bytes()
		b.WriteString(" " + hexs(x[:]))
	}
	return b.String()
}
