package main

import (
	"crypto/sha256"
	"encoding/hex"
	"fmt"

	"github.com/crate-crypto/go-ipa/bandersnatch"
	"github.com/crate-crypto/go-ipa/banderwagon"
	"github.com/crate-crypto/go-ipa/ipa"

	multiproof "github.com/crate-crypto/go-ipa"
)

func init() {
	// cfgfp : full fingerprint of the shared configuration incl. every precomputed table
	register("cfgfp", func(t []string) string { return "FP " + fullFingerprint() })
}

// cheapFingerprint covers SRS, Q, weight tables, labels and package-level points.
func cheapFingerprint() string {
	c := config()
	h := sha256.New()
	h.Write([]byte(fpPoints(c.SRS)))
	h.Write([]byte(fpPoints([]banderwagon.Element{c.Q, banderwagon.Generator, banderwagon.Identity})))
	a, b := c.PrecomputedWeights.VerifWeights()
	h.Write([]byte(fpFrs(a)))
	h.Write([]byte(fpFrs(b)))
	fmt.Fprintf(h, "%d|", c.VerifNumRounds())
	for _, l := range ipa.VerifLabels() {
		fmt.Fprintf(h, "%x/%d/%d|", l, len(l), cap(l))
	}
	for _, l := range multiproof.VerifLabels() {
		fmt.Fprintf(h, "%x/%d/%d|", l, len(l), cap(l))
	}
	fmt.Fprintf(h, "%x|%x|", bandersnatch.Identity, bandersnatch.IdentityExt)
	fmt.Fprintf(h, "%x|%x|%x|%x", bandersnatch.CurveParams.A, bandersnatch.CurveParams.D,
		bandersnatch.CurveParams.Base, bandersnatch.CurveParams.Order.Bytes())
	return hex.EncodeToString(h.Sum(nil)[:12])
}

func fullFingerprint() string {
	c := config()
	h := sha256.New()
	h.Write([]byte(cheapFingerprint()))
	for i := 0; i < 256; i++ {
		w := c.PrecompMSM.VerifWindowSize(i)
		for k := 0; k < 256/w; k++ {
			tb := c.PrecompMSM.VerifTable(i, k)
			for j := range tb {
				fmt.Fprintf(h, "%x", tb[j].X)
				fmt.Fprintf(h, "%x", tb[j].Y)
				fmt.Fprintf(h, "%x", tb[j].T)
			}
		}
	}
	return hex.EncodeToString(h.Sum(nil)[:12])
}
