package main

import (
	"crypto/sha256"
	"encoding/hex"
	"fmt"
	"math/big"
	"os"
	"strconv"
	"strings"
	"sync"

	"github.com/crate-crypto/go-ipa/bandersnatch/fp"
	"github.com/crate-crypto/go-ipa/bandersnatch/fr"
	"github.com/crate-crypto/go-ipa/banderwagon"
	"github.com/crate-crypto/go-ipa/ipa"
)

func unhex(s string) []byte {
	if s == "-" || s == "" {
		return []byte{}
	}
	b, err := hex.DecodeString(s)
	if err != nil {
		panic("bad hex " + s)
	}
	return b
}

func hexs(b []byte) string {
	if len(b) == 0 {
		return "-"
	}
	return hex.EncodeToString(b)
}

func bigOfHex(s string) *big.Int {
	if s == "-" || s == "" {
		return new(big.Int)
	}
	v, ok := new(big.Int).SetString(s, 16)
	if !ok {
		panic("bad hex int " + s)
	}
	return v
}

func frOfHex(s string) fr.Element {
	var e fr.Element
	e.SetBigInt(bigOfHex(s))
	return e
}

func frHex(e *fr.Element) string {
	var b big.Int
	e.ToBigIntRegular(&b)
	return b.Text(16)
}

func fpOfHex(s string) fp.Element {
	var e fp.Element
	e.SetBigInt(bigOfHex(s))
	return e
}

func fpHex(e *fp.Element) string {
	var b big.Int
	e.BigInt(&b)
	return b.Text(16)
}

// point token "X.Y.Z" (hex, raw projective coordinates)
func pointOfTok(s string) banderwagon.Element {
	p := strings.Split(s, ".")
	if len(p) != 3 {
		panic("bad point token " + s)
	}
	return banderwagon.VerifFromRaw(fpOfHex(p[0]), fpOfHex(p[1]), fpOfHex(p[2]))
}

func atoi(s string) int {
	v, err := strconv.Atoi(s)
	if err != nil {
		panic("bad int " + s)
	}
	return v
}

func intsOf(s string) []int {
	if s == "-" || s == "" {
		return nil
	}
	var out []int
	for _, t := range strings.Split(s, ",") {
		out = append(out, atoi(t))
	}
	return out
}

func frsOf(s string) []fr.Element {
	if s == "-" || s == "" {
		return nil
	}
	var out []fr.Element
	for _, t := range strings.Split(s, ",") {
		out = append(out, frOfHex(t))
	}
	return out
}

var (
	cfgOnce sync.Once
	cfg     *ipa.IPAConfig
)

func config() *ipa.IPAConfig {
	cfgOnce.Do(func() {
		c, err := ipa.NewIPASettings()
		if err != nil {
			panic(err)
		}
		cfg = c
	})
	return cfg
}

var (
	prngK, _ = new(big.Int).SetString("9e3779b97f4a7c15f39cc0605cedc835", 16)
	rMod     = fr.Modulus()
)

func prng(seed *big.Int, j int) fr.Element {
	b := new(big.Int).Add(seed, big.NewInt(int64(j)+1))
	c := new(big.Int).Mul(b, b)
	c.Mul(c, b)
	c.Mul(c, prngK)
	c.Add(c, big.NewInt(int64(j)))
	c.Mod(c, rMod)
	var e fr.Element
	e.SetBigInt(c)
	return e
}

// polynomial / vector spec, see ocaml/driver.ml:poly_of_spec
// In concurrent mode (VERIF_CONC) vectors with the same specification are ONE shared slice:
// several goroutines then pass the same caller-owned, read-only input to the library at the
// same time (any write to it by the library is a data race the detector reports).
var sharedPolys sync.Map
var shareInputs = os.Getenv("VERIF_CONC") != ""

func polyOfSpec(n int, s string) []fr.Element {
	if shareInputs {
		key := fmt.Sprintf("%d|%s", n, s)
		if v, ok := sharedPolys.Load(key); ok {
			return v.([]fr.Element)
		}
		v, _ := sharedPolys.LoadOrStore(key, polyOfSpecFresh(n, s))
		return v.([]fr.Element)
	}
	return polyOfSpecFresh(n, s)
}

// guards: every polynomial is the front part of a larger allocation (spare capacity, as when a caller keeps
// several polynomials in one flat array); the elements behind it must never change
type guardT struct {
	arena []fr.Element
	n     int
}

var (
	guardMu sync.Mutex
	guards  []guardT
)

const guardLen = 6

func guardValue(i int) fr.Element {
	var e fr.Element
	e.SetUint64(uint64(0xC0FFEE00 + i))
	return e
}

// checkGuards reports (and forgets) the guard regions registered since the last call
func checkGuards() string {
	guardMu.Lock()
	defer guardMu.Unlock()
	bad := false
	for _, g := range guards {
		for i := 0; i < guardLen; i++ {
			if g.arena[g.n+i] != guardValue(i) {
				bad = true
			}
		}
	}
	guards = guards[:0]
	if bad {
		return " MUTATED-BEYOND-INPUT"
	}
	return ""
}

func polyOfSpecFresh(n int, s string) []fr.Element {
	parts := strings.Split(s, ":")
	arena := make([]fr.Element, n+guardLen)
	for i := 0; i < guardLen; i++ {
		arena[n+i] = guardValue(i)
	}
	out := arena[:n] // len n, cap n+guardLen
	if !shareInputs {
		guardMu.Lock()
		guards = append(guards, guardT{arena, n})
		guardMu.Unlock()
	}
	switch parts[0] {
	case "z":
	case "c":
		v := frOfHex(parts[1])
		for i := range out {
			out[i] = v
		}
	case "u":
		out[atoi(parts[1])] = frOfHex(parts[2])
	case "s":
		for _, kv := range strings.Split(parts[1], ",") {
			p := strings.Split(kv, "=")
			out[atoi(p[0])] = frOfHex(p[1])
		}
	case "r":
		seed := bigOfHex(parts[1])
		for i := range out {
			out[i] = prng(seed, i)
		}
	case "x":
		return frsOf(parts[1])
	default:
		panic("bad poly spec " + s)
	}
	return out
}

// fingerprints for purity checks
func fpFrs(v []fr.Element) string {
	h := sha256.New()
	for i := range v {
		for _, l := range v[i] {
			fmt.Fprintf(h, "%x,", l)
		}
	}
	return hex.EncodeToString(h.Sum(nil)[:8])
}

func fpPoints(v []banderwagon.Element) string {
	h := sha256.New()
	for i := range v {
		x, y, z := v[i].VerifRaw()
		fmt.Fprintf(h, "%x|%x|%x;", x, y, z)
	}
	return hex.EncodeToString(h.Sum(nil)[:8])
}

func fpPointPtrs(v []*banderwagon.Element) string {
	h := sha256.New()
	for i := range v {
		x, y, z := v[i].VerifRaw()
		fmt.Fprintf(h, "%x|%x|%x;", x, y, z)
	}
	return hex.EncodeToString(h.Sum(nil)[:8])
}
