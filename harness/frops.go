package main

import (
	"fmt"
	"strconv"
	"strings"

	"github.com/crate-crypto/go-ipa/bandersnatch/fr"
)

func init() { register("fr", runFr) }

func limbsOf(s string) fr.Element {
	p := strings.Split(s, ".")
	if len(p) != 4 {
		panic("bad limbs " + s)
	}
	var e fr.Element
	for i := 0; i < 4; i++ {
		v, err := strconv.ParseUint(p[i], 16, 64)
		if err != nil {
			panic("bad limb " + p[i])
		}
		e[i] = v
	}
	return e
}

func showLimbs(e *fr.Element) string {
	return fmt.Sprintf("%x.%x.%x.%x", e[0], e[1], e[2], e[3])
}

// fr <op> <args> : operands are raw (Montgomery) limbs
func runFr(t []string) string {
	op := t[1]
	var a, b, z fr.Element
	if len(t) > 2 && op != "batchinv" && op != "mulby" {
		a = limbsOf(t[2])
	}
	if len(t) > 3 && op != "exp" && op != "mulby" {
		b = limbsOf(t[3])
	}
	a0, b0 := a, b
	chk := func(s string) string {
		if a != a0 || b != b0 {
			return s + " MUTATED-INPUT"
		}
		return s
	}
	switch op {
	case "add":
		z.Add(&a, &b)
		return chk(showLimbs(&z))
	case "addA":
		a.Add(&a, &b)
		return showLimbs(&a)
	case "addB":
		b.Add(&a, &b)
		return showLimbs(&b)
	case "addAA":
		a.Add(&a, &a)
		return showLimbs(&a)
	case "sub":
		z.Sub(&a, &b)
		return chk(showLimbs(&z))
	case "subA":
		a.Sub(&a, &b)
		return showLimbs(&a)
	case "subB":
		b.Sub(&a, &b)
		return showLimbs(&b)
	case "subAA":
		a.Sub(&a, &a)
		return showLimbs(&a)
	case "mul":
		z.Mul(&a, &b)
		return chk(showLimbs(&z))
	case "mulA":
		a.Mul(&a, &b)
		return showLimbs(&a)
	case "mulB":
		b.Mul(&a, &b)
		return showLimbs(&b)
	case "mulAA":
		a.Mul(&a, &a)
		return showLimbs(&a)
	case "div":
		z.Div(&a, &b)
		return chk(showLimbs(&z))
	case "divA":
		a.Div(&a, &b)
		return showLimbs(&a)
	case "divB":
		b.Div(&a, &b)
		return showLimbs(&b)
	case "neg":
		z.Neg(&a)
		return chk(showLimbs(&z))
	case "negA":
		a.Neg(&a)
		return showLimbs(&a)
	case "double":
		z.Double(&a)
		return chk(showLimbs(&z))
	case "doubleA":
		a.Double(&a)
		return showLimbs(&a)
	case "square":
		z.Square(&a)
		return chk(showLimbs(&z))
	case "squareA":
		a.Square(&a)
		return showLimbs(&a)
	case "inverse":
		z.Inverse(&a)
		return chk(showLimbs(&z))
	case "inverseA":
		a.Inverse(&a)
		return showLimbs(&a)
	case "exp":
		z.Exp(a, bigOfHex(t[3]))
		return showLimbs(&z)
	case "legendre":
		return strconv.Itoa(a.Legendre())
	case "sqrt":
		z.SetUint64(7)
		z7 := z
		r := z.Sqrt(&a)
		if r == nil {
			if z != z7 {
				return "NIL RECEIVER-CHANGED"
			}
			return chk("NIL")
		}
		return chk(showLimbs(&z))
	case "mulby":
		x := limbsOf(t[3])
		switch t[2] {
		case "3":
			fr.MulBy3(&x)
		case "5":
			fr.MulBy5(&x)
		case "13":
			fr.MulBy13(&x)
		default:
			c, _ := strconv.Atoi(t[2])
			fr.VerifMulByConstant(&x, uint8(c))
		}
		return showLimbs(&x)
	case "butterfly":
		fr.Butterfly(&a, &b)
		return showLimbs(&a) + " " + showLimbs(&b)
	case "cmp":
		return strconv.Itoa(a.Cmp(&b))
	case "lex":
		return strconv.FormatBool(a.LexicographicallyLargest())
	case "frommont":
		a.FromMont()
		return showLimbs(&a)
	case "tomont":
		a.ToMont()
		return showLimbs(&a)
	case "batchinv":
		if len(t) < 3 {
			fr.BatchInvert(nil)
			return ""
		}
		toks := strings.Split(t[2], ",")
		in := make([]fr.Element, len(toks))
		for i := range toks {
			in[i] = limbsOf(toks[i])
		}
		in0 := append([]fr.Element(nil), in...)
		out := fr.BatchInvert(in)
		s := make([]string, len(out))
		for i := range out {
			s[i] = showLimbs(&out[i])
		}
		r := strings.Join(s, ",")
		for i := range in {
			if in[i] != in0[i] {
				r += " MUTATED-INPUT"
				break
			}
		}
		return r
	case "gmul":
		fr.VerifMulGeneric(&z, &a, &b)
		return showLimbs(&z)
	case "gadd":
		fr.VerifAddGeneric(&z, &a, &b)
		return showLimbs(&z)
	case "gsub":
		fr.VerifSubGeneric(&z, &a, &b)
		return showLimbs(&z)
	case "gneg":
		fr.VerifNegGeneric(&z, &a)
		return showLimbs(&z)
	case "gdouble":
		fr.VerifDoubleGeneric(&z, &a)
		return showLimbs(&z)
	// the portable functions with the receiver aliasing an operand
	case "gmulA":
		fr.VerifMulGeneric(&a, &a, &b)
		return showLimbs(&a)
	case "gmulB":
		fr.VerifMulGeneric(&b, &a, &b)
		return showLimbs(&b)
	case "gmulAA":
		fr.VerifMulGeneric(&a, &a, &a)
		return showLimbs(&a)
	case "gaddA":
		fr.VerifAddGeneric(&a, &a, &b)
		return showLimbs(&a)
	case "gaddB":
		fr.VerifAddGeneric(&b, &a, &b)
		return showLimbs(&b)
	case "gaddAA":
		fr.VerifAddGeneric(&a, &a, &a)
		return showLimbs(&a)
	case "gsubA":
		fr.VerifSubGeneric(&a, &a, &b)
		return showLimbs(&a)
	case "gsubB":
		fr.VerifSubGeneric(&b, &a, &b)
		return showLimbs(&b)
	case "gnegA":
		fr.VerifNegGeneric(&a, &a)
		return showLimbs(&a)
	case "gdoubleA":
		fr.VerifDoubleGeneric(&a, &a)
		return showLimbs(&a)
	case "gfrommont":
		fr.VerifFromMontGeneric(&a)
		return showLimbs(&a)
	case "greduce":
		fr.VerifReduceGeneric(&a)
		return showLimbs(&a)
	case "gbutterfly":
		fr.VerifButterflyGeneric(&a, &b)
		return showLimbs(&a) + " " + showLimbs(&b)
	}
	panic("bad fr op " + op)
}
