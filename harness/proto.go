package main

import (
	"fmt"
	"math/big"
	"bytes"
	"errors"
	"io"
	"strings"

	"github.com/crate-crypto/go-ipa/bandersnatch"
	"github.com/crate-crypto/go-ipa/bandersnatch/fp"
	"github.com/crate-crypto/go-ipa/bandersnatch/fr"
	"github.com/crate-crypto/go-ipa/banderwagon"
	"github.com/crate-crypto/go-ipa/common"
	"github.com/crate-crypto/go-ipa/ipa"

	multiproof "github.com/crate-crypto/go-ipa"
)

var usedMP multiproof.MultiProof
var usedIP ipa.IPAProof

func init() {
	register("sqrt", func(t []string) string {
		x := fpOfHex(t[1])
		x0 := x
		y := fp.SqrtPrecomp(&x)
		suffix := " " + fpHex(&x)
		if x != x0 {
			suffix += " MUTATED-INPUT"
		}
		if y == nil {
			return "NIL" + suffix
		}
		return fpHex(y) + suffix
	})
	register("gpx", func(t []string) string {
		x := fpOfHex(t[1])
		p := bandersnatch.GetPointFromX(&x, t[2] == "1")
		if p == nil {
			return "NIL"
		}
		return fpHex(&p.X) + " " + fpHex(&p.Y)
	})
	register("commit", func(t []string) string {
		v := polyOfSpec(256, t[1])
		before := fpFrs(v)
		c := config().Commit(v)
		b := c.Bytes()
		out := hexs(b[:])
		if fpFrs(v) != before {
			out += " MUTATED-INPUT"
		}
		return out
	})
	register("crs", func(t []string) string {
		b := config().SRS[atoi(t[1])].Bytes()
		return hexs(b[:])
	})
	register("mprd", func(t []string) string {
		r := newPlanReader(t[1], unhex(t[2]))
		var mp multiproof.MultiProof
		if err := mp.Read(r); err != nil {
			return "ERR"
		}
		var buf bytes.Buffer
		if err := mp.Write(&buf); err != nil {
			return "WRITE-ERR"
		}
		return "OK " + hexs(buf.Bytes())
	})
	register("ipard", func(t []string) string {
		r := newPlanReader(t[1], unhex(t[2]))
		var ip ipa.IPAProof
		if err := ip.Read(r); err != nil {
			return "ERR"
		}
		var buf bytes.Buffer
		if err := ip.Write(&buf); err != nil {
			return "WRITE-ERR"
		}
		return "OK " + hexs(buf.Bytes())
	})
	// the same, into proof values that are REUSED across calls (whatever earlier reads, complete or
	// failed half-way, left in them): deserialisation is a function of the bytes read
	register("mprdu", func(t []string) string {
		r := newPlanReader(t[1], unhex(t[2]))
		if err := usedMP.Read(r); err != nil {
			return "ERR"
		}
		var buf bytes.Buffer
		if err := usedMP.Write(&buf); err != nil {
			return "WRITE-ERR"
		}
		return "OK " + hexs(buf.Bytes())
	})
	register("ipardu", func(t []string) string {
		r := newPlanReader(t[1], unhex(t[2]))
		if err := usedIP.Read(r); err != nil {
			return "ERR"
		}
		var buf bytes.Buffer
		if err := usedIP.Write(&buf); err != nil {
			return "WRITE-ERR"
		}
		return "OK " + hexs(buf.Bytes())
	})
	register("mpwr", func(t []string) string {
		var mp multiproof.MultiProof
		if err := mp.Read(bytes.NewReader(unhex(t[2]))); err != nil {
			return "BADPROOF"
		}
		w := &failWriter{failAt: -1}
		if t[1] != "-" {
			w.failAt = atoi(t[1])
		}
		if err := mp.Write(w); err != nil {
			return "ERR " + hexs(w.buf.Bytes())
		}
		return "OK " + hexs(w.buf.Bytes())
	})
	register("ipawr", func(t []string) string {
		var ip ipa.IPAProof
		if err := ip.Read(bytes.NewReader(unhex(t[2]))); err != nil {
			return "BADPROOF"
		}
		w := &failWriter{failAt: -1}
		if t[1] != "-" {
			w.failAt = atoi(t[1])
		}
		if err := ip.Write(w); err != nil {
			return "ERR " + hexs(w.buf.Bytes())
		}
		return "OK " + hexs(w.buf.Bytes())
	})
	register("mpc", runMPC)
	register("mpv", runMPV)
	register("mpvs", runMPVS)
	register("ipac", runIPAC)
	register("ipav", runIPAV)
	register("dod", func(t []string) string {
		f := polyOfSpec(256, t[2])
		before := fpFrs(f)
		q := config().PrecomputedWeights.DivideOnDomain(uint8(atoi(t[1])), f)
		out := joinFrs(q)
		if fpFrs(f) != before {
			out += " MUTATED-INPUT"
		}
		return out
	})
	register("bary", func(t []string) string {
		f := polyOfSpec(256, t[2])
		z := frOfHex(t[1])
		c := config().PrecomputedWeights.ComputeBarycentricCoefficients(z)
		ip, err := ipa.InnerProd(f, c)
		if err != nil {
			return "ERR"
		}
		return frHex(&ip)
	})
	register("baryc", func(t []string) string {
		z := frOfHex(t[1])
		first := config().PrecomputedWeights.ComputeBarycentricCoefficients(z)
		res := joinFrs(first)
		// the returned vector belongs to the caller: overwrite it, ask again for the same point
		for i := range first {
			first[i].SetUint64(uint64(7 + i))
		}
		again := joinFrs(config().PrecomputedWeights.ComputeBarycentricCoefficients(z))
		if again != res {
			res += " RESULT-ALIASED"
		}
		return res
	})
	// frbig <hex>: SetBigInt with an arbitrary (possibly non-canonical) integer; the argument must stay intact
	register("frbig", func(t []string) string {
		v := bigOfHex(t[1])
		if len(t) > 2 && t[2] == "neg" {
			v.Neg(v)
		}
		v0 := new(big.Int).Set(v)
		var e fr.Element
		e.SetBigInt(v)
		r := frHex(&e)
		if v.Cmp(v0) != 0 {
			r += " MUTATED-INPUT"
		}
		return r
	})
	// ipawr2 <proof1> <proof2>: two IPA proofs whose L and R slices live next to each other in one array
	// (the first with spare capacity reaching into the second); both written, first first
	register("ipawr2", func(t []string) string {
		var p1, p2 ipa.IPAProof
		if err := p1.Read(bytes.NewReader(unhex(t[1]))); err != nil {
			return "BADPROOF"
		}
		if err := p2.Read(bytes.NewReader(unhex(t[2]))); err != nil {
			return "BADPROOF"
		}
		flat := make([]banderwagon.Element, 0, 64)
		flat = append(flat, p1.L...)
		flat = append(flat, p2.L...)
		flat = append(flat, p1.R...)
		flat = append(flat, p2.R...)
		n1, n2 := len(p1.L), len(p2.L)
		p1.L = flat[0:n1]
		p2.L = flat[n1 : n1+n2]
		p1.R = flat[n1+n2 : n1+n2+len(p1.R)]
		p2.R = flat[n1+n2+len(p1.R) : n1+n2+len(p1.R)+len(p2.R)]
		var b1, b2 bytes.Buffer
		if err := p1.Write(&b1); err != nil {
			return "WRITE-ERR"
		}
		if err := p2.Write(&b2); err != nil {
			return "WRITE-ERR"
		}
		return "OK " + hexs(b1.Bytes()) + " " + hexs(b2.Bytes())
	})
	// grp <n> <m>: GenerateRandomPoints(n), the caller then uses the returned slice as its own (overwrites
	// entries, appends), GenerateRandomPoints(m) must still be the specified points
	register("grp", func(t []string) string {
		n, m := atoi(t[1]), atoi(t[2])
		a := ipa.GenerateRandomPoints(uint64(n))
		for i := range a {
			a[i].SetIdentity()
		}
		a = append(a, banderwagon.Generator, banderwagon.Generator)
		_ = a
		b := ipa.GenerateRandomPoints(uint64(m))
		var sb strings.Builder
		for i := range b {
			x := b[i].Bytes()
			sb.WriteString(hexs(x[:4]))
		}
		return fmt.Sprintf("%d %s", len(b), sb.String())
	})
	register("weights", func(t []string) string {
		a, b := config().PrecomputedWeights.VerifWeights()
		return joinFrs(a) + " " + joinFrs(b)
	})
}

func joinFrs(v []fr.Element) string {
	s := make([]string, len(v))
	for i := range v {
		s[i] = frHex(&v[i])
	}
	return strings.Join(s, ",")
}

// ---- reader / writer fault models (mirror coq/Model/Serde.v) ----

var errInjected = errors.New("injected I/O error")

type planReader struct {
	data        []byte
	plan        []int
	eofWithData bool
	failAt      int
	pos         int
}

func newPlanReader(spec string, data []byte) *planReader {
	r := &planReader{data: data, failAt: -1}
	if spec != "-" {
		for _, kv := range strings.Split(spec, ";") {
			p := strings.SplitN(kv, "=", 2)
			switch p[0] {
			case "plan":
				r.plan = intsOf(p[1])
			case "eofd":
				r.eofWithData = p[1] == "1"
			case "fail":
				r.failAt = atoi(p[1])
			default:
				panic("bad reader spec")
			}
		}
	}
	return r
}

func (r *planReader) Read(buf []byte) (int, error) {
	want := len(buf)
	limit := len(r.data) + r.pos
	if r.failAt >= 0 {
		limit = r.failAt
	}
	avail := len(r.data)
	if limit-r.pos < avail {
		avail = limit - r.pos
	}
	if avail <= 0 {
		if len(r.data) == 0 {
			return 0, io.EOF
		}
		return 0, errInjected
	}
	chunk := want
	if len(r.plan) > 0 {
		chunk = r.plan[0]
		if chunk < 1 {
			chunk = 1
		}
	}
	m := want
	if chunk < m {
		m = chunk
	}
	if avail < m {
		m = avail
	}
	copy(buf, r.data[:m])
	r.data = r.data[m:]
	if len(r.plan) > 0 {
		r.plan = r.plan[1:]
	}
	r.pos += m
	if r.eofWithData && len(r.data) == 0 {
		return m, io.EOF
	}
	return m, nil
}

type failWriter struct {
	buf    bytes.Buffer
	calls  int
	failAt int
}

func (w *failWriter) Write(p []byte) (int, error) {
	if w.failAt >= 0 && w.calls == w.failAt {
		return 0, errInjected
	}
	w.calls++
	return w.buf.Write(p)
}

// ---- commitments in a requested representation ----

func rerepr(m string, c banderwagon.Element) banderwagon.Element {
	norm := func(p banderwagon.Element) banderwagon.Element {
		if err := p.Normalize(); err != nil {
			return c
		}
		return p
	}
	scale := func(l string, p banderwagon.Element) banderwagon.Element {
		x, y, z := p.VerifRaw()
		f := fpOfHex(l)
		x.Mul(&x, &f)
		y.Mul(&y, &f)
		z.Mul(&z, &f)
		return banderwagon.VerifFromRaw(x, y, z)
	}
	flip := func(p banderwagon.Element) banderwagon.Element {
		x, y, z := p.VerifRaw()
		x.Neg(&x)
		y.Neg(&y)
		return banderwagon.VerifFromRaw(x, y, z)
	}
	switch {
	case m == "n":
		return norm(c)
	case m == "k":
		return c
	case m == "f":
		return flip(norm(c))
	case strings.HasPrefix(m, "sf"):
		return flip(scale(m[2:], norm(c)))
	case strings.HasPrefix(m, "s"):
		return scale(m[1:], norm(c))
	}
	panic("bad repr " + m)
}

var lblNext = []byte("n")

func runMPC(t []string) string {
	label := string(unhex(t[1]))
	rest := t[4:]
	n := len(rest) / 3
	cs := make([]*banderwagon.Element, n)
	fs := make([][]fr.Element, n)
	zs := make([]uint8, n)
	for i := 0; i < n; i++ {
		m, z, ps := rest[3*i], rest[3*i+1], rest[3*i+2]
		fs[i] = polyOfSpec(256, ps)
		zs[i] = uint8(atoi(z))
		if strings.HasPrefix(m, "p") { // share the pointer of an earlier opening
			cs[i] = cs[atoi(m[1:])]
			continue
		}
		c := rerepr(m, config().Commit(fs[i]))
		cs[i] = &c
	}
	// purity bookkeeping
	fsBefore := make([]string, n)
	for i := range fs {
		fsBefore[i] = fpFrs(fs[i])
	}
	zsBefore := append([]uint8(nil), zs...)
	csBefore := make([]banderwagon.Element, n)
	for i := range cs {
		csBefore[i] = *cs[i]
	}
	tr := common.NewTranscript(label)
	proof, err := multiproof.CreateMultiProof(tr, config(), cs, fs, zs)
	if err != nil {
		return "ERR"
	}
	var buf bytes.Buffer
	if err := proof.Write(&buf); err != nil {
		return "WRITE-ERR"
	}
	ch := tr.ChallengeScalar(lblNext)
	var sb strings.Builder
	sb.WriteString("OK " + hexs(buf.Bytes()) + " " + frHex(&ch) + " C ")
	for i := range cs {
		if i > 0 {
			sb.WriteString(",")
		}
		b := cs[i].Bytes()
		sb.WriteString(hexs(b[:]))
	}
	sb.WriteString(" Y ")
	for i := range fs {
		if i > 0 {
			sb.WriteString(",")
		}
		sb.WriteString(frHex(&fs[i][zs[i]]))
	}
	for i := range fs {
		if fpFrs(fs[i]) != fsBefore[i] {
			sb.WriteString(" MUTATED-INPUT-fs")
			break
		}
	}
	if !bytes.Equal(zs, zsBefore) {
		sb.WriteString(" MUTATED-INPUT-zs")
	}
	for i := range cs {
		if !cs[i].Equal(&csBefore[i]) {
			sb.WriteString(" MUTATED-INPUT-Cs")
			break
		}
	}
	// verify the proof just created, twice with the SAME statement objects (a verifier that
	// writes into the claimed values or commitments is observed by the second call and by
	// the before/after comparison)
	ys := make([]*fr.Element, n)
	ysBefore := make([]fr.Element, n)
	for i := range fs {
		y := fs[i][zs[i]]
		ys[i] = &y
		ysBefore[i] = y
	}
	vres := func() string {
		ok, err := multiproof.CheckMultiProof(common.NewTranscript(label), config(), proof, cs, ys, zs)
		if err != nil {
			return "ERR"
		}
		if ok {
			return "true"
		}
		return "false"
	}
	v1 := vres()
	v2 := vres()
	sb.WriteString(" V " + v1 + "," + v2)
	for i := range ys {
		if *ys[i] != ysBefore[i] {
			sb.WriteString(" MUTATED-INPUT-ys")
			break
		}
	}
	return sb.String()
}

func runMPV(t []string) string {
	label := string(unhex(t[1]))
	pbytes := unhex(t[2])
	rest := t[3:]
	n := len(rest) / 3
	cs := make([]*banderwagon.Element, n)
	ys := make([]*fr.Element, n)
	zs := make([]uint8, n)
	for i := 0; i < n; i++ {
		c := pointOfTok(rest[3*i])
		cs[i] = &c
		zs[i] = uint8(atoi(rest[3*i+1]))
		y := frOfHex(rest[3*i+2])
		ys[i] = &y
	}
	var mp multiproof.MultiProof
	if err := mp.Read(bytes.NewReader(pbytes)); err != nil {
		return "BADPROOF"
	}
	csBefore := fpPointPtrs(cs)
	ysBefore := make([]fr.Element, n)
	for i := range ys {
		ysBefore[i] = *ys[i]
	}
	zsBefore := append([]uint8(nil), zs...)
	var pb bytes.Buffer
	_ = mp.Write(&pb)
	tr := common.NewTranscript(label)
	ok, err := multiproof.CheckMultiProof(tr, config(), &mp, cs, ys, zs)
	var out string
	if err != nil {
		out = "ERR"
		if ok {
			out = "ERR-BUT-TRUE"
		}
	} else {
		ch := tr.ChallengeScalar(lblNext)
		if ok {
			out = "true " + frHex(&ch)
		} else {
			out = "false " + frHex(&ch)
		}
	}
	if fpPointPtrs(cs) != csBefore || !bytes.Equal(zs, zsBefore) {
		out += " MUTATED-INPUT"
	}
	for i := range ys {
		if *ys[i] != ysBefore[i] {
			out += " MUTATED-INPUT-ys"
			break
		}
	}
	var pa bytes.Buffer
	_ = mp.Write(&pa)
	if !bytes.Equal(pa.Bytes(), pb.Bytes()) {
		out += " MUTATED-INPUT-proof"
	}
	return out
}

func runMPVS(t []string) string {
	label := string(unhex(t[1]))
	nl, nr, nc, ny, nz := atoi(t[2]), atoi(t[3]), atoi(t[4]), atoi(t[5]), atoi(t[6])
	g := banderwagon.Generator
	one := fr.One()
	mp := multiproof.MultiProof{D: g}
	for i := 0; i < nl; i++ {
		mp.IPA.L = append(mp.IPA.L, g)
	}
	for i := 0; i < nr; i++ {
		mp.IPA.R = append(mp.IPA.R, g)
	}
	mp.IPA.A_scalar = one
	var cs []*banderwagon.Element
	var ys []*fr.Element
	var zs []uint8
	for i := 0; i < nc; i++ {
		c := g
		cs = append(cs, &c)
	}
	for i := 0; i < ny; i++ {
		y := one
		ys = append(ys, &y)
	}
	for i := 0; i < nz; i++ {
		zs = append(zs, 3)
	}
	ok, err := multiproof.CheckMultiProof(common.NewTranscript(label), config(), &mp, cs, ys, zs)
	if err != nil {
		if ok {
			return "ERR-BUT-TRUE"
		}
		return "ERR"
	}
	if ok {
		return "true"
	}
	return "false"
}

var frMax255 = func() fr.Element { var e fr.Element; e.SetUint64(255); return e }()

func runIPAC(t []string) string {
	label := string(unhex(t[1]))
	z := frOfHex(t[2])
	a := polyOfSpec(256, t[3])
	before := fpFrs(a)
	c := config().Commit(a)
	tr := common.NewTranscript(label)
	proof, err := ipa.CreateIPAProof(tr, config(), c, a, z)
	if err != nil {
		return "ERR"
	}
	var buf bytes.Buffer
	if err := proof.Write(&buf); err != nil {
		return "WRITE-ERR"
	}
	ch := tr.ChallengeScalar(lblNext)
	// expected evaluation, computed through the exported API
	var y fr.Element
	if z.Cmp(&frMax255) > 0 {
		coeffs := config().PrecomputedWeights.ComputeBarycentricCoefficients(z)
		y, _ = ipa.InnerProd(a, coeffs)
	} else {
		var zr fr.Element = z
		zr.FromMont()
		y = a[zr[0]]
	}
	cb := c.Bytes()
	out := "OK " + hexs(buf.Bytes()) + " " + frHex(&ch) + " C " + hexs(cb[:]) + " Y " + frHex(&y)
	if fpFrs(a) != before {
		out += " MUTATED-INPUT"
	}
	return out
}

func runIPAV(t []string) string {
	label := string(unhex(t[1]))
	var ip ipa.IPAProof
	if err := ip.Read(bytes.NewReader(unhex(t[2]))); err != nil {
		return "BADPROOF"
	}
	c := pointOfTok(t[3])
	z := frOfHex(t[4])
	y := frOfHex(t[5])
	tr := common.NewTranscript(label)
	var pb bytes.Buffer
	_ = ip.Write(&pb)
	ok, err := ipa.CheckIPAProof(tr, config(), c, ip, z, y)
	if err != nil {
		return "ERR"
	}
	ch := tr.ChallengeScalar(lblNext)
	out := "false " + frHex(&ch)
	if ok {
		out = "true " + frHex(&ch)
	}
	var pa bytes.Buffer
	_ = ip.Write(&pa)
	if !bytes.Equal(pa.Bytes(), pb.Bytes()) {
		out += " MUTATED-INPUT-proof"
	}
	return out
}
