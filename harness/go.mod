module verifharness

go 1.18

require github.com/crate-crypto/go-ipa v0.0.0

replace github.com/crate-crypto/go-ipa => /repo
