module verifharness

go 1.18

require github.com/crate-crypto/go-ipa v0.0.0

require (
	github.com/bits-and-blooms/bitset v1.7.0 // indirect
	github.com/consensys/bavard v0.1.13 // indirect
	github.com/consensys/gnark-crypto v0.13.0 // indirect
	github.com/mmcloughlin/addchain v0.4.0 // indirect
	golang.org/x/sync v0.1.0 // indirect
	golang.org/x/sys v0.15.0 // indirect
	rsc.io/tmplfunc v0.0.3 // indirect
)

replace github.com/crate-crypto/go-ipa => /repo
