package main

import (
	"bytes"
	"crypto/sha256"
	"strings"

	"github.com/crate-crypto/go-ipa/bandersnatch/fp"
	"github.com/crate-crypto/go-ipa/bandersnatch/fr"
	"github.com/crate-crypto/go-ipa/banderwagon"
	"github.com/crate-crypto/go-ipa/common"
)

func init() {
	register("sha", func(t []string) string {
		d := sha256.Sum256(unhex(t[1]))
		return hexs(d[:])
	})
	register("tr", runTranscript)
	register("frdec", runFrDec)
	register("frenc", func(t []string) string {
		s := frOfHex(t[1])
		be := s.Bytes()
		le := s.BytesLE()
		return hexs(be[:]) + " " + hexs(le[:])
	})
	register("fpencle", func(t []string) string {
		x := fpOfHex(t[1])
		return hexs(fp.BytesLE(x))
	})
	register("dec", runDec)
}

// runTranscript: every label and message handed to the transcript is a sub-slice of one
// arena with spare capacity behind it (as a caller keeping its labels in one table would
// pass them), so an implementation that appends to / writes through a caller's slice is
// observed: the arena is compared with a pristine copy after every call.
func runTranscript(t []string) string {
	var arena []byte
	type span struct{ a, b int }
	put := func(b []byte) span {
		a := len(arena)
		arena = append(arena, b...)
		sp := span{a, len(arena)}
		for i := 0; i < 40; i++ {
			arena = append(arena, 0xA5)
		}
		return sp
	}
	protoSp := put(unhex(t[1]))
	type opT struct {
		kind    string
		l, m    span
		payload string
	}
	var ops []opT
	for _, op := range t[2:] {
		p := strings.Split(op, ":")
		o := opT{kind: p[0]}
		o.l = put(unhex(p[1]))
		switch p[0] {
		case "M":
			o.m = put(unhex(p[2]))
		case "S", "P":
			o.payload = p[2]
		case "D", "C":
		default:
			panic("bad transcript op " + op)
		}
		ops = append(ops, o)
	}
	pristine := append([]byte(nil), arena...)
	sl := func(sp span) []byte { return arena[sp.a:sp.b] }
	var sb strings.Builder
	check := func() {
		if !bytes.Equal(arena, pristine) {
			sb.WriteString(" MUTATED-INPUT")
			copy(arena, pristine)
		}
	}
	// once a call has returned the caller may reuse its buffers: the bytes just passed are overwritten
	// (a transcript that kept references instead of copies would hash the later contents)
	scribble := func(sp span) {
		for i := sp.a; i < sp.b; i++ {
			arena[i] = 0x5A
			pristine[i] = 0x5A
		}
	}
	tr := common.NewTranscript(string(sl(protoSp)))
	scribble(protoSp)
	sb.WriteString("c")
	for _, o := range ops {
		switch o.kind {
		case "D":
			tr.DomainSep(sl(o.l))
		case "M":
			tr.AppendMessage(sl(o.m), sl(o.l))
		case "S":
			s := frOfHex(o.payload)
			s0 := s
			tr.AppendScalar(&s, sl(o.l))
			if s0 != s {
				sb.WriteString(" MUTATED-INPUT")
			}
		case "P":
			pt := pointOfTok(o.payload)
			p0 := pt
			tr.AppendPoint(&pt, sl(o.l))
			if p0 != pt {
				sb.WriteString(" MUTATED-INPUT")
			}
		case "C":
			c := tr.ChallengeScalar(sl(o.l))
			sb.WriteString(" " + frHex(&c))
		}
		check()
		scribble(o.l)
		scribble(o.m)
	}
	return sb.String()
}

func runFrDec(t []string) string {
	buf := unhex(t[2])
	show := func(v string, v2 string) string { return v + " " + hexs(buf) + " " + v2 }
	// the second decode of each pair goes into a receiver that already holds a value with all limbs
	// non-zero (decoding overwrites the receiver completely)
	var used fr.Element
	used.SetOne()
	used.Neg(&used)
	switch t[1] {
	case "be":
		var a, b fr.Element
		b = used
		a.SetBytes(buf)
		after := append([]byte(nil), buf...)
		b.SetBytes(buf)
		r := frHex(&a) + " " + hexs(after) + " " + frHex(&b)
		return r
	case "le":
		var a, b fr.Element
		b = used
		a.SetBytesLE(buf)
		after := append([]byte(nil), buf...)
		b.SetBytesLE(buf)
		return frHex(&a) + " " + hexs(after) + " " + frHex(&b)
	case "lec":
		var a, b fr.Element
		b = used
		s1, s2 := "ERR", "ERR"
		if _, err := a.SetBytesLECanonical(buf); err == nil {
			s1 = frHex(&a)
		}
		after := append([]byte(nil), buf...)
		if _, err := b.SetBytesLECanonical(buf); err == nil {
			s2 = frHex(&b)
		}
		return s1 + " " + hexs(after) + " " + s2
	}
	_ = show
	panic("frdec kind")
}

func decResult(p *banderwagon.Element, err error) string {
	if err != nil {
		return "ERR"
	}
	b := p.Bytes()
	u := p.BytesUncompressedTrusted()
	return "OK " + hexs(b[:]) + " " + hexs(u[:])
}

func runDec(t []string) string {
	buf := unhex(t[2])
	orig := append([]byte(nil), buf...)
	var p banderwagon.Element
	var res string
	switch t[1] {
	case "c":
		res = decResult(&p, p.SetBytes(buf))
	case "x":
		res = decResult(&p, p.SetBytesUnsafe(buf))
	case "r":
		q, err := common.ReadPoint(bytes.NewReader(buf))
		res = decResult(q, err)
	case "u":
		res = decResult(&p, p.SetBytesUncompressed(buf, false))
	case "t":
		res = decResult(&p, p.SetBytesUncompressed(buf, true))
	default:
		panic("dec kind")
	}
	if !bytes.Equal(orig, buf) {
		res += " MUTATED-INPUT"
	}
	return res
}
