package main

import (
	"bytes"
	"crypto/sha256"
	"strings"

	"github.com/crate-crypto/go-ipa/bandersnatch/fp"
	"github.com/crate-crypto/go-ipa/bandersnatch/fr"
	"github.com/crate-crypto/go-ipa/banderwagon"
	"github.com/crate-crypto/go-ipa/common"
)

func init() {
	register("sha", func(t []string) string {
		d := sha256.Sum256(unhex(t[1]))
		return hexs(d[:])
	})
	register("tr", runTranscript)
	register("frdec", runFrDec)
	register("frenc", func(t []string) string {
		s := frOfHex(t[1])
		be := s.Bytes()
		le := s.BytesLE()
		return hexs(be[:]) + " " + hexs(le[:])
	})
	register("fpencle", func(t []string) string {
		x := fpOfHex(t[1])
		return hexs(fp.BytesLE(x))
	})
	register("dec", runDec)
}

func runTranscript(t []string) string {
	tr := common.NewTranscript(string(unhex(t[1])))
	var sb strings.Builder
	sb.WriteString("c")
	for _, op := range t[2:] {
		p := strings.Split(op, ":")
		switch p[0] {
		case "D":
			tr.DomainSep(unhex(p[1]))
		case "M":
			label, msg := unhex(p[1]), unhex(p[2])
			l0, m0 := append([]byte(nil), label...), append([]byte(nil), msg...)
			tr.AppendMessage(msg, label)
			if !bytes.Equal(l0, label) || !bytes.Equal(m0, msg) {
				sb.WriteString(" MUTATED-INPUT")
			}
		case "S":
			s := frOfHex(p[2])
			s0 := s
			tr.AppendScalar(&s, unhex(p[1]))
			if s0 != s {
				sb.WriteString(" MUTATED-INPUT")
			}
		case "P":
			pt := pointOfTok(p[2])
			p0 := pt
			tr.AppendPoint(&pt, unhex(p[1]))
			if p0 != pt {
				sb.WriteString(" MUTATED-INPUT")
			}
		case "C":
			c := tr.ChallengeScalar(unhex(p[1]))
			sb.WriteString(" " + frHex(&c))
		default:
			panic("bad transcript op " + op)
		}
	}
	return sb.String()
}

func runFrDec(t []string) string {
	buf := unhex(t[2])
	show := func(v string, v2 string) string { return v + " " + hexs(buf) + " " + v2 }
	switch t[1] {
	case "be":
		var a, b fr.Element
		a.SetBytes(buf)
		after := append([]byte(nil), buf...)
		b.SetBytes(buf)
		r := frHex(&a) + " " + hexs(after) + " " + frHex(&b)
		return r
	case "le":
		var a, b fr.Element
		a.SetBytesLE(buf)
		after := append([]byte(nil), buf...)
		b.SetBytesLE(buf)
		return frHex(&a) + " " + hexs(after) + " " + frHex(&b)
	case "lec":
		var a, b fr.Element
		s1, s2 := "ERR", "ERR"
		if _, err := a.SetBytesLECanonical(buf); err == nil {
			s1 = frHex(&a)
		}
		after := append([]byte(nil), buf...)
		if _, err := b.SetBytesLECanonical(buf); err == nil {
			s2 = frHex(&b)
		}
		return s1 + " " + hexs(after) + " " + s2
	}
	_ = show
	panic("frdec kind")
}

func decResult(p *banderwagon.Element, err error) string {
	if err != nil {
		return "ERR"
	}
	b := p.Bytes()
	u := p.BytesUncompressedTrusted()
	return "OK " + hexs(b[:]) + " " + hexs(u[:])
}

func runDec(t []string) string {
	buf := unhex(t[2])
	orig := append([]byte(nil), buf...)
	var p banderwagon.Element
	var res string
	switch t[1] {
	case "c":
		res = decResult(&p, p.SetBytes(buf))
	case "x":
		res = decResult(&p, p.SetBytesUnsafe(buf))
	case "r":
		q, err := common.ReadPoint(bytes.NewReader(buf))
		res = decResult(q, err)
	case "u":
		res = decResult(&p, p.SetBytesUncompressed(buf, false))
	case "t":
		res = decResult(&p, p.SetBytesUncompressed(buf, true))
	default:
		panic("dec kind")
	}
	if !bytes.Equal(orig, buf) {
		res += " MUTATED-INPUT"
	}
	return res
}
