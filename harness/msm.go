package main

import (
	"strconv"
	"os"
	"sync/atomic"
	"fmt"
	"runtime"
	"strings"
	"time"

	"github.com/crate-crypto/go-ipa/bandersnatch"
	"github.com/crate-crypto/go-ipa/bandersnatch/fr"
	"github.com/crate-crypto/go-ipa/banderwagon"
	"github.com/crate-crypto/go-ipa/ipa"
)

func init() {
	register("msmx", runMSMX)
	register("msmin", runMSMInner)
	register("part", runPartition)
}

func pointsOf(s string) []banderwagon.Element {
	if s == "-" || s == "" {
		return nil
	}
	toks := strings.Split(s, ",")
	out := make([]banderwagon.Element, len(toks))
	for i, t := range toks {
		out[i] = pointOfTok(t)
	}
	return out
}

// run f with a watchdog: a hang is an observable.  After three hangs in one process further
// watched calls are not started (each would cost another full watchdog period and leak more
// blocked goroutines); they are reported as HANG-SKIPPED.
var hangCount int32

func watchdog(sec int, f func() string) string {
	if atomic.LoadInt32(&hangCount) >= 3 {
		return "HANG-SKIPPED"
	}
	if sec > 40 {
		sec = 40
	}
	// confirmation runs (a reported hang is re-run alone with a long period before it counts,
	// so that a slow machine is not mistaken for a deadlock)
	if v := os.Getenv("VERIF_WATCHDOG_SEC"); v != "" {
		if n, err := strconv.Atoi(v); err == nil && n > 0 {
			sec = n
		}
	}
	ch := make(chan string, 1)
	go func() {
		defer func() {
			if r := recover(); r != nil {
				ch <- fmt.Sprintf("PANIC %v", r)
			}
		}()
		ch <- f()
	}()
	select {
	case r := <-ch:
		return r
	case <-time.After(time.Duration(sec) * time.Second):
		atomic.AddInt32(&hangCount, 1)
		return "HANG"
	}
}

// msmx <kind bw|ms|bs> <nbtasks> <mont 0|1> <points> <scalars>
func runMSMX(t []string) string {
	return watchdog(120, func() string {
		kind, nb, mont := t[1], atoi(t[2]), t[3] == "1"
		pts := pointsOf(t[4])
		ss := frsOf(t[5])
		pts0 := fpPoints(pts)
		ss0 := fpFrs(ss)
		in := ss
		if !mont && kind != "ms" {
			in = make([]fr.Element, len(ss))
			for i := range ss {
				in[i] = ss[i]
				in[i].FromMont()
			}
		}
		var res banderwagon.Element
		var err error
		switch kind {
		case "bw":
			_, err = res.MultiExp(pts, in, banderwagon.MultiExpConfig{NbTasks: nb, ScalarsMont: mont})
		case "ms":
			res, err = ipa.MultiScalar(pts, ss)
		case "bs":
			aff := make([]bandersnatch.PointAffine, len(pts))
			for i := range pts {
				aff[i] = affineOf(&pts[i])
			}
			var pp bandersnatch.PointProj
			_, err = bandersnatch.MultiExp(&pp, aff, in, bandersnatch.MultiExpConfig{NbTasks: nb, ScalarsMont: mont})
			res = banderwagon.VerifFromRaw(pp.X, pp.Y, pp.Z)
		default:
			panic("msmx kind")
		}
		out := "ERR"
		if err == nil {
			b := res.Bytes()
			out = hexs(b[:])
		}
		if fpPoints(pts) != pts0 || (kind == "ms" && fpFrs(ss) != ss0) {
			out += " MUTATED-INPUT"
		}
		return out
	})
}

// msmin <c> <split 0|1> <points> <scalars> : partitionScalars then msmInnerPointProj for window c
func runMSMInner(t []string) string {
	return watchdog(120, func() string {
		c, split := atoi(t[1]), t[2] == "1"
		pts := pointsOf(t[3])
		ss := frsOf(t[4])
		digits, _ := bandersnatch.VerifPartitionScalars(ss, uint64(c), true, runtime.NumCPU())
		aff := make([]bandersnatch.PointAffine, len(pts))
		for i := range pts {
			aff[i] = affineOf(&pts[i])
		}
		var pp bandersnatch.PointProj
		bandersnatch.VerifMsmInner(&pp, c, aff, digits, split)
		res := banderwagon.VerifFromRaw(pp.X, pp.Y, pp.Z)
		b := res.Bytes()
		return hexs(b[:])
	})
}

// part <c> <mont 0|1> <nbtasks> <scalars> : packed digits (raw limbs) and number of small values
func runPartition(t []string) string {
	c, mont, nb := atoi(t[1]), t[2] == "1", atoi(t[3])
	ss := frsOf(t[4])
	in := make([]fr.Element, len(ss))
	for i := range ss {
		in[i] = ss[i]
		if !mont {
			in[i].FromMont()
		}
	}
	in0 := fpFrs(in)
	return watchdog(60, func() string {
		out, small := bandersnatch.VerifPartitionScalars(in, uint64(c), mont, nb)
		var sb strings.Builder
		fmt.Fprintf(&sb, "%d", small)
		for i := range out {
			fmt.Fprintf(&sb, " %x.%x.%x.%x", out[i][0], out[i][1], out[i][2], out[i][3])
		}
		if fpFrs(in) != in0 {
			sb.WriteString(" MUTATED-INPUT")
		}
		return sb.String()
	})
}
