// Harness: runs the implementation in /repo on case lines read from stdin and
// prints one canonical result line per case (same protocol as ocaml/driver.ml).
package main

import (
	"bufio"
	"fmt"
	"os"
	"strings"
)

type handler func(toks []string) string

var handlers = map[string]handler{}

func register(op string, h handler) { handlers[op] = h }

func safe(h handler, toks []string) (out string) {
	defer func() {
		if r := recover(); r != nil {
			out = fmt.Sprintf("PANIC %v", r)
			out = strings.ReplaceAll(out, "\n", " ")
		}
	}()
	return h(toks)
}

func main() {
	in := bufio.NewReaderSize(os.Stdin, 1<<20)
	out := bufio.NewWriterSize(os.Stdout, 1<<20)
	defer out.Flush()
	sc := bufio.NewScanner(in)
	sc.Buffer(make([]byte, 1<<20), 1<<28)
	for sc.Scan() {
		line := strings.TrimSpace(sc.Text())
		if line == "" {
			continue
		}
		toks := strings.Fields(line)
		h, ok := handlers[toks[0]]
		if !ok {
			fmt.Fprintf(out, "ERR unknown op %s\n", toks[0])
			continue
		}
		fmt.Fprintln(out, safe(h, toks))
		out.Flush()
	}
}
