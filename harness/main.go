// Harness: runs the implementation in /repo on case lines read from stdin and
// prints one canonical result line per case (same protocol as ocaml/driver.ml).
//
// Modes (environment):
//   VERIF_CONC=G  run the cases concurrently on G goroutines sharing one config (C12)
//   VERIF_PURE=1  treat the input as one history: fingerprint the shared configuration and
//                 package-level values after every call (C13)
package main

import (
	"bufio"
	"fmt"
	"os"
	"strconv"
	"strings"
	"sync"
)

type handler func(toks []string) string

var handlers = map[string]handler{}

func register(op string, h handler) { handlers[op] = h }

func safe(h handler, toks []string) (out string) {
	defer func() {
		if r := recover(); r != nil {
			out = fmt.Sprintf("PANIC %v", r)
			out = strings.ReplaceAll(out, "\n", " ")
		}
	}()
	return h(toks)
}

func runLine(line string) string {
	toks := strings.Fields(line)
	h, ok := handlers[toks[0]]
	if !ok {
		return "ERR unknown op " + toks[0]
	}
	return safe(h, toks)
}

func main() {
	in := bufio.NewReaderSize(os.Stdin, 1<<20)
	out := bufio.NewWriterSize(os.Stdout, 1<<20)
	defer out.Flush()
	sc := bufio.NewScanner(in)
	sc.Buffer(make([]byte, 1<<20), 1<<28)

	if g, _ := strconv.Atoi(os.Getenv("VERIF_CONC")); g > 0 {
		var lines []string
		for sc.Scan() {
			if l := strings.TrimSpace(sc.Text()); l != "" {
				lines = append(lines, l)
			}
		}
		config() // shared, built once
		res := make([]string, len(lines))
		var wg sync.WaitGroup
		var mu sync.Mutex
		next := 0
		for w := 0; w < g; w++ {
			wg.Add(1)
			go func() {
				defer wg.Done()
				for {
					mu.Lock()
					i := next
					next++
					mu.Unlock()
					if i >= len(lines) {
						return
					}
					res[i] = runLine(lines[i])
				}
			}()
		}
		wg.Wait()
		for _, r := range res {
			fmt.Fprintln(out, r)
		}
		return
	}

	pure := os.Getenv("VERIF_PURE") == "1"
	var fp0 string
	if pure {
		fp0 = cheapFingerprint()
	}
	for sc.Scan() {
		line := strings.TrimSpace(sc.Text())
		if line == "" {
			continue
		}
		r := runLine(line)
		r += checkGuards()
		if pure {
			if fp := cheapFingerprint(); fp != fp0 {
				r += " CONFIG-CHANGED"
				fp0 = fp
			}
		}
		fmt.Fprintln(out, r)
		out.Flush()
	}
}
