package main

import (
	"fmt"
	"runtime"
	"sort"
	"strconv"
	"strings"
	"sync"
	"sync/atomic"
	"time"

	"github.com/crate-crypto/go-ipa/common/parallel"
)

// exec n m   : Execute(n, work, m)
// execs n m  : same, with scheduling delays inside the work function
// execd n k  : Execute(n, work) with the default worker count; k = NumCPU expected by the caller
func init() {
	register("exec", func(t []string) string { return runExec(t, false, false) })
	register("execs", func(t []string) string { return runExec(t, true, false) })
	register("execd", func(t []string) string { return runExec(t, false, true) })
}

func runExec(t []string, sleep bool, dflt bool) string {
	n, _ := strconv.Atoi(t[1])
	m, _ := strconv.Atoi(t[2])
	if dflt && runtime.NumCPU() != m {
		return fmt.Sprintf("ENV NumCPU=%d expected=%d", runtime.NumCPU(), m)
	}
	var mu sync.Mutex
	type rg struct{ s, e int }
	var rs []rg
	var started, finished int64
	work := func(s, e int) {
		atomic.AddInt64(&started, 1)
		mu.Lock()
		rs = append(rs, rg{s, e})
		mu.Unlock()
		if sleep {
			// deterministic pseudo-random delay derived from the range
			d := (s*7919 + e*104729) % 5
			if d == 0 {
				runtime.Gosched()
			} else {
				time.Sleep(time.Duration(d*200) * time.Microsecond)
			}
		}
		atomic.AddInt64(&finished, 1)
	}
	if dflt {
		parallel.Execute(n, work)
	} else {
		parallel.Execute(n, work, m)
	}
	// observed at return: every started invocation has finished
	st, fi := atomic.LoadInt64(&started), atomic.LoadInt64(&finished)
	mu.Lock()
	got := append([]rg(nil), rs...)
	mu.Unlock()
	sort.Slice(got, func(i, j int) bool {
		if got[i].s != got[j].s {
			return got[i].s < got[j].s
		}
		return got[i].e < got[j].e
	})
	var sb strings.Builder
	sb.WriteString("r")
	for _, r := range got {
		fmt.Fprintf(&sb, " %d-%d", r.s, r.e)
	}
	if st != fi || int(fi) != len(got) {
		fmt.Fprintf(&sb, " EARLY-RETURN started=%d finished=%d recorded=%d", st, fi, len(got))
	}
	return sb.String()
}
