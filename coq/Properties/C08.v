(* C08 - group operations implement the Banderwagon group law.
   The coordinate formulas executed by the code (gnark-crypto PointProj Add / MixedAdd /
   Double / Neg, PointExtended Add, the repo's ExtendedAddNormalized) are transcribed in
   Model/Edwards.v; the theorems say that on ALL representations they compute the affine
   twisted-Edwards law, that the result does not depend on the representation (projective
   scaling and the class member (-x,-y)), and the law facts provable by ring reasoning.
   Generic over every ring with partial inverse satisfying FieldLaws; instantiated for Fp.
   Premises: Z invertible and the two denominators 1 +- d x1 x2 y1 y2 of the law invertible
   (on the prime-order subgroup they are; that completeness fact, associativity of the law
   and "exponent r" are NOT proved here - see DESIGN.md trusted base). *)
From Coq Require Import ZArith List.
From GoIpa Require Import Model.Zq Model.Alg Model.Edwards Model.FpSqrt Model.Banderwagon
  Proofs.AlgLaws Proofs.EdwardsProofs Proofs.GroupProofs Proofs.ZqField.

Section C08.
  Context {F : Type} (fo : FOps F) (FL : FieldLaws fo) (ca cd : F).
  Local Notation rep := (rep fo).
  Local Notation rep_ext := (rep_ext fo).
  Local Notation inv1 p q := (invertible fo (fadd fo (f1 fo) (law_t fo cd p q))
                              /\ invertible fo (fsub fo (f1 fo) (law_t fo cd p q))).

  (* Add / AddMixed / Double / Neg / SetIdentity / Set(from affine) on projective coordinates *)
  Theorem C08_projective_formulas_compute_the_law : forall P1 P2 p1 p2,
    rep P1 p1 -> rep P2 p2 -> inv1 p1 p2 ->
    rep (p_add fo ca cd P1 P2) (a_add fo ca cd p1 p2)
    /\ rep (p_mixed_add fo ca cd P1 p2) (a_add fo ca cd p1 p2)
    /\ (curve_eq fo ca cd p1 -> inv1 p1 p1 -> rep (p_double fo ca P1) (a_add fo ca cd p1 p1))
    /\ rep (p_neg fo P1) (a_neg fo p1)
    /\ rep (p_identity fo) (a_zero fo)
    /\ rep (p_from_affine fo p1) p1
    /\ p_to_affine fo P1 = p1.
  Proof.
    intros P1 P2 p1 p2 H1 H2 [Hp Hm].
    refine (conj (p_add_correct fo FL ca cd P1 P2 p1 p2 H1 H2 Hp Hm)
           (conj (p_mixed_add_correct fo FL ca cd P1 p1 p2 H1 Hp Hm)
           (conj _ (conj (p_neg_correct fo FL P1 p1 H1) (conj (p_identity_correct fo FL)
           (conj (p_from_affine_correct fo FL p1) (p_to_affine_correct fo FL P1 p1 H1))))))).
    intros Hc [Hp' Hm']. exact (p_double_correct fo FL ca cd P1 p1 H1 Hc Hp' Hm').
  Qed.

  (* extended coordinates (precomputed tables): PointExtended.Add, ExtendedAddNormalized, Neg *)
  Theorem C08_extended_formulas_compute_the_law : forall P1 P2 p1 p2,
    rep_ext P1 p1 -> rep_ext P2 p2 -> inv1 p1 p2 ->
    rep_ext (e_add fo ca cd P1 P2) (a_add fo ca cd p1 p2)
    /\ rep_ext (e_add_norm fo ca cd P1 (fst p2, snd p2, fmul fo (fst p2) (snd p2))) (a_add fo ca cd p1 p2)
    /\ (forall P p, rep P p -> rep_ext (e_from_proj fo P) p)
    /\ rep (e_to_proj P1) p1.
  Proof.
    intros P1 P2 p1 p2 H1 H2 [Hp Hm].
    exact (conj (e_add_correct fo FL ca cd P1 P2 p1 p2 H1 H2 Hp Hm)
          (conj (e_add_norm_correct fo FL ca cd P1 p1 p2 H1 Hp Hm)
          (conj (e_from_proj_correct fo FL) (e_to_proj_correct fo P1 p1 H1)))).
  Qed.

  (* results do not depend on the representation of the operands: any two
     representations (rescaled by any invertible factor, or of the other class member
     (-x,-y)) of class-equal points give representations of class-equal results *)
  Theorem C08_representation_independent : forall P1 P1' P2 P2' p1 p1' p2 p2',
    rep P1 p1 -> rep P1' p1' -> rep P2 p2 -> rep P2' p2' ->
    class_eq fo p1 p1' -> class_eq fo p2 p2' -> inv1 p1 p2 ->
    rep (p_add fo ca cd P1 P2) (a_add fo ca cd p1 p2)
    /\ rep (p_add fo ca cd P1' P2') (a_add fo ca cd p1' p2')
    /\ class_eq fo (a_add fo ca cd p1 p2) (a_add fo ca cd p1' p2')
    /\ cross_eq fo (p_add fo ca cd P1 P2) (p_add fo ca cd P1' P2').
  Proof.
    intros P1 P1' P2 P2' p1 p1' p2 p2' H1 H1' H2 H2' C1 C2 [Hp Hm].
    assert (Ht : law_t fo cd p1' p2' = law_t fo cd p1 p2).
    { destruct C1 as [->| ->], C2 as [->| ->];
        rewrite ?(law_t_flip_l fo FL), ?(law_t_flip_r fo FL); reflexivity. }
    assert (A : rep (p_add fo ca cd P1 P2) (a_add fo ca cd p1 p2))
      by exact (p_add_correct fo FL ca cd P1 P2 p1 p2 H1 H2 Hp Hm).
    assert (B : rep (p_add fo ca cd P1' P2') (a_add fo ca cd p1' p2')).
    { apply (p_add_correct fo FL ca cd P1' P2' p1' p2' H1' H2'); rewrite Ht; assumption. }
    pose proof (a_add_class fo FL ca cd p1 p1' p2 p2' C1 C2) as C.
    exact (conj A (conj B (conj C (cross_eq_of_class fo FL _ _ _ _ A B C)))).
  Qed.

  Theorem C08_rescaling_and_sign_flip_are_representations : forall P p l,
    rep P p -> invertible fo l ->
    rep (let '(X, Y, Z) := P in (fmul fo l X, fmul fo l Y, fmul fo l Z)) p
    /\ rep (let '(X, Y, Z) := P in (fneg fo X, fneg fo Y, Z)) (flip fo p).
  Proof. intros P p l H Hl. exact (conj (rep_rescale fo FL P p l H Hl) (rep_flip fo FL P p H)). Qed.

  (* law facts: commutativity, identity, P - P = identity, negation is a morphism,
     adding the 2-torsion point (0,-1) is the class flip, the law respects classes *)
  Theorem C08_law_facts : forall p q,
    a_add fo ca cd p q = a_add fo ca cd q p
    /\ a_add fo ca cd p (a_zero fo) = p
    /\ (curve_eq fo ca cd p -> invertible fo (fadd fo (f1 fo) (law_t fo cd p p)) ->
        a_add fo ca cd p (a_neg fo p) = a_zero fo)
    /\ a_neg fo (a_add fo ca cd p q) = a_add fo ca cd (a_neg fo p) (a_neg fo q)
    /\ a_add fo ca cd p (f0 fo, fneg fo (f1 fo)) = flip fo p
    /\ a_add fo ca cd (flip fo p) q = flip fo (a_add fo ca cd p q).
  Proof.
    intros p q.
    exact (conj (a_add_comm fo FL ca cd p q) (conj (a_add_zero_r fo FL ca cd p)
          (conj (a_add_neg fo FL ca cd p) (conj (a_neg_add fo FL ca cd p q)
          (conj (a_add_t2 fo FL ca cd p) (a_add_flip_l fo FL ca cd p q)))))).
  Qed.
End C08.

Print Assumptions C08_projective_formulas_compute_the_law.
Print Assumptions C08_extended_formulas_compute_the_law.
Print Assumptions C08_representation_independent.
Print Assumptions C08_rescaling_and_sign_flip_are_representations.
Print Assumptions C08_law_facts.

(* the concrete Banderwagon operations ARE these formulas over Fp, and Fp satisfies FieldLaws *)
Theorem C08_banderwagon_instance :
  FieldLaws fpo
  /\ bw_add = p_add fpo bw_a bw_d /\ bw_double = p_double fpo bw_a /\ bw_neg = p_neg fpo
  /\ bw_add_mixed = p_mixed_add fpo bw_a bw_d /\ bw_identity = p_identity fpo
  /\ (forall p q, bw_sub p q = bw_add p (bw_neg q)).
Proof.
  exact (conj fp_field_laws (conj eq_refl (conj eq_refl (conj eq_refl (conj eq_refl (conj eq_refl
        (fun p q => eq_refl))))))).
Qed.
Print Assumptions C08_banderwagon_instance.

(* non-vacuity: the generator is a representation of a curve point and G + G is computed *)
Definition vals (p : Fp * Fp) : Z * Z := (zval (fst p), zval (snd p)).
Example C08_example_generator :
  on_curve fpo bw_a bw_d (bw_gen_x, bw_gen_y) = true
  /\ vals (p_to_affine fpo (bw_add bw_generator bw_generator))
     = vals (a_add fpo bw_a bw_d (bw_gen_x, bw_gen_y) (bw_gen_x, bw_gen_y))
  /\ vals (p_to_affine fpo (bw_double bw_generator))
     = vals (a_add fpo bw_a bw_d (bw_gen_x, bw_gen_y) (bw_gen_x, bw_gen_y)).
Proof. vm_compute. repeat split; reflexivity. Qed.
