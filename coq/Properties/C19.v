(* C19 - batch helpers and the uncompressed form agree with the single-element operations.
   The batch functions of the model mirror the code: one Montgomery batch inversion
   (prefix products with zero skipping) over the Z (resp. Y) coordinates, then one
   multiplication per element.  Statements are for EVERY list (any length, duplicates,
   mixed normalised / projective representations). *)
From Coq Require Import ZArith List.
From GoIpa Require Import Model.Zq Model.Alg Model.Edwards Model.FpSqrt Model.Banderwagon
  Proofs.AlgLaws Proofs.EdwardsProofs Proofs.GroupProofs Proofs.BwProofs.
Import ListNotations.

(* ElementsToBytes / BatchToBytesUncompressed / BatchMapToScalarField return, position by
   position, what Bytes / BytesUncompressed / MapToScalarField return (premise: every Z,
   resp. Y, coordinate is zero or invertible - true in a field, and zero is skipped) *)
Theorem C19_batch_serialisers_eq_single : forall ps : list element,
  (all_nz_invertible fpo (map zcoord ps) ->
     bw_elements_to_bytes ps = map bw_bytes ps
     /\ bw_batch_to_bytes_uncompressed ps = map bw_bytes_uncompressed ps)
  /\ (all_nz_invertible fpo (map ycoord ps) -> bw_batch_map_to_scalar ps = map bw_map_to_scalar ps).
Proof.
  intros ps. split.
  - intros H. exact (conj (bw_elements_to_bytes_eq ps H) (bw_batch_uncompressed_eq ps H)).
  - exact (bw_batch_map_eq ps).
Qed.
Print Assumptions C19_batch_serialisers_eq_single.

(* the batch inversion underneath, for every list over every field-like ring *)
Theorem C19_batch_inversion : forall (F : Type) (fo : FOps F), FieldLaws fo ->
  forall l : list F, all_nz_invertible fo l -> batch_invert fo l = map (inv0 fo) l.
Proof. intros F fo FL l H. exact (batch_invert_correct fo FL l H). Qed.
Print Assumptions C19_batch_inversion.

(* BatchNormalize over a store and ANY pointer list (duplicates, any enumeration order):
   fails iff some pointed element has Z = 0, then producing nothing (store unchanged);
   otherwise exactly the pointed elements are replaced by their normal form *)
Theorem C19_batch_normalize : forall (st : list element) (idxs : list nat),
  (forall i, In i idxs -> (i < length st)%nat) ->
  (bw_batch_normalize st idxs = None <->
     exists i, In i idxs /\ zcoord_of (nth i st bw_identity) = zq_zero)
  /\ (forall st', bw_batch_normalize st idxs = Some st' ->
        length st' = length st
        /\ forall j, nth j st' bw_identity
                     = if existsb (Nat.eqb j) idxs then norm1 (nth j st bw_identity)
                       else nth j st bw_identity).
Proof. exact bw_batch_normalize_spec. Qed.
Print Assumptions C19_batch_normalize.

Theorem C19_batch_normalize_order_independent : forall st idxs idxs',
  (forall i, In i idxs -> (i < length st)%nat) ->
  (forall i, In i idxs <-> In i idxs') ->
  forall s s', bw_batch_normalize st idxs = Some s -> bw_batch_normalize st idxs' = Some s' ->
  forall j, nth j s bw_identity = nth j s' bw_identity.
Proof. exact bw_batch_normalize_order_independent. Qed.
Print Assumptions C19_batch_normalize_order_independent.

(* the normal form has Z = 1, represents the same affine point, hence is Equal to the
   former value and has the same Bytes *)
Theorem C19_normal_form : forall P p, rep fpo P p ->
  norm1 P = (fst p, snd p, zq_one) /\ rep fpo (norm1 P) p
  /\ bw_bytes (norm1 P) = bw_bytes P
  /\ (nonzero_xy P -> nonzero_xy (norm1 P) -> bw_equal P (norm1 P) = true).
Proof.
  intros P p H. destruct (norm1_rep P p H) as (A & B).
  refine (conj A (conj B (conj _ _))).
  - rewrite (bw_bytes_rep _ _ B), (bw_bytes_rep _ _ H). reflexivity.
  - intros N1 N2. exact (bw_equal_of_class P (norm1 P) p p H B (class_eq_refl fpo p) N1 N2).
Qed.
Print Assumptions C19_normal_form.

(* the uncompressed encoding decodes in trusted mode to the affine coordinates *)
Theorem C19_uncompressed_trusted_roundtrip : forall P p, rep fpo P p ->
  bw_set_bytes_uncompressed true (bw_bytes_uncompressed P) true = inl (fst p, snd p, zq_one).
Proof. exact uncompressed_trusted_roundtrip. Qed.
Print Assumptions C19_uncompressed_trusted_roundtrip.

Example C19_example :
  bw_elements_to_bytes [bw_generator; bw_double bw_generator; bw_identity]
  = map bw_bytes [bw_generator; bw_double bw_generator; bw_identity].
Proof. vm_compute. reflexivity. Qed.
