(* C14 - transcript challenges follow the specified hash chain and bind all messages. *)
From Coq Require Import ZArith List Bool.
From GoIpa Require Import Model.Bytes Model.Zq Model.Alg Model.Transcript Model.FpSqrt Model.Sha256
  Model.Concrete Proofs.BytesProofs Proofs.TranscriptProofs.
Import ListNotations.
Open Scope Z_scope.

(* For every protocol label and every op sequence (any length, any pending size), the
   challenges of the buffered implementation-level machine equal those of the
   specification machine (one pending byte string hashed as a whole, little-endian,
   reduced mod r, then label ++ challenge re-absorbed).  Holds for every hash function. *)
Theorem C14_refines_spec :
  forall (hashf : list Z -> list Z) label ops,
    snd (t_run fro hashf (t_new label) ops) = snd (sp_run fro hashf (sp_new label) ops).
Proof. intros. apply transcript_refines_spec. Qed.
Print Assumptions C14_refines_spec.

(* What is hashed for the first challenge after any challenge-free sequence of appends:
   pending bytes (protocol label, or label++previous challenge) ++ every label and
   message in order ++ the challenge label. *)
Theorem C14_hash_input :
  forall (hashf : list Z -> list Z) pend pre l rest,
    forallb (fun o => negb (is_challenge o)) pre = true ->
    exists cs, snd (sp_run fro hashf pend (pre ++ TChallenge l :: rest))
               = fr (le_val (hashf ((pend ++ concat (map (op_bytes fro) pre)) ++ l))) :: cs.
Proof. intros. apply first_challenge_hash_input. assumption. Qed.
Print Assumptions C14_hash_input.

(* Binding at the level of the hash input: two append sequences of the same shape
   (same kinds, labels and message lengths) are hashed to the same bytes iff all their
   payloads are equal; protocol label / absorbed bytes / challenge label are each
   determined by the hash input; order of two different messages matters.
   (That different hash inputs give different challenges is SHA-256 collision
   resistance, which no theorem here assumes.) *)
Theorem C14_binding :
  (forall a b, same_shape a b ->
     (concat (map (op_bytes fro) a) = concat (map (op_bytes fro) b) <-> map (payload fro) a = map (payload fro) b))
  /\ (forall pl1 pl2 body1 body2 cl1 cl2 : list Z,
        length pl1 = length pl2 -> length body1 = length body2 ->
        (pl1 ++ body1) ++ cl1 = (pl2 ++ body2) ++ cl2 -> pl1 = pl2 /\ body1 = body2 /\ cl1 = cl2)
  /\ (forall m1 m2 l rest, length m1 = length m2 -> m1 <> m2 ->
        concat (map (op_bytes fro) (TMessage m1 l :: TMessage m2 l :: rest))
        <> concat (map (op_bytes fro) (TMessage m2 l :: TMessage m1 l :: rest))).
Proof.
  split; [exact (hash_input_binding fro)|split; [exact hash_input_components|exact (hash_input_order fro)]].
Qed.
Print Assumptions C14_binding.

(* SHA-256 model anchored to FIPS 180-4 vectors, and the published transcript vector *)
Example C14_sha256_abc :
  sha256 [97; 98; 99] = [186;120;22;191;143;1;207;234;65;65;64;222;93;174;34;35;176;3;97;163;150;23;122;156;180;16;255;97;242;0;21;173].
Proof. vm_compute. reflexivity. Qed.
Example C14_sha256_empty :
  sha256 [] = [227;176;196;66;152;252;28;20;154;251;244;200;153;111;185;36;39;174;65;228;100;155;147;76;164;149;153;27;120;82;184;85].
Proof. vm_compute. reflexivity. Qed.
