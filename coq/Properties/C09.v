(* C09 - variable-base MSM (bucket method) is correct for every size / window / split.
   Proved (abstract module, integers acting through a ring morphism fofz; every c >= 2):
   the signed-window recoding of every canonical scalar; the bucket accumulation and
   running-sum reduction; the Horner combination of chunk totals; the recombination of
   per-chunk results into one MSM; additivity over any split of the point list.
   Limb level: C09_window_extraction proves that the selectors of partitionScalars
   (index, shift, mask with 64-bit truncation, multi-word select, maskHigh, shiftHigh)
   return exactly bits [c*chunk, c*chunk+c) of the value, for every 1 <= c <= 64, every
   chunk and every value below 2^256 - so the window values feeding the carry loop are
   those of the arithmetic recoding.
   C09_partition_digits: for every window width 2 <= c <= 64 and every canonical scalar the
   packed limbs written by the per-scalar loop of partitionScalars (OR of shifted fields,
   64-bit truncation, multi-word writes, msb flag for negative digits), read back chunk by
   chunk exactly as the chunk processor reads them, ARE the signed digits of the arithmetic
   recoding, and no carry is left.
   C09_msm_inner assembles all of it: for every 2 <= c <= 64 (the implemented widths are
   4..16, 20, 21), every list of points, every list of canonical scalars and either way of
   processing the first chunk, msmInner (partitionScalars + per-chunk bucket method with the
   smaller bucket array of the last window + chunk combination) returns sum_i s_i P_i.
   C09_multi_exp: MultiExp as a whole - for every window in [2,64], every number of splits
   k >= 1 and slice length m (slices as cut by the code: k-1 slices of m, the rest to the
   caller), every order in which the goroutines finish, either first-chunk mode: the sum of
   the partial results is sum_i s_i P_i.  C09_multi_exp_top: with the modelled cost function
   the window/split loop terminates within log2(NbTasks)+1 rounds for every NbTasks >= 1,
   chooses an implemented window, and the result is sum_i s_i P_i.
   PARTIAL: the float arithmetic of bestC is modelled on exact rationals and cannot be
   observed from outside (the theorems hold for every choice); the Montgomery flag of the
   scalars is tied by correspondence (per-c results and packed limbs compared through hooks);
   termination of the channel protocol is C12/C20. *)
From Coq Require Import ZArith List Permutation.
From GoIpa Require Import Model.Alg Model.Pippenger Proofs.AlgLaws Proofs.IPAProofs
  Proofs.PippengerProofs Proofs.MsmProofs Proofs.PartitionProofs Proofs.MsmInner Proofs.MultiExpProofs.
From GoIpa Require Model.FpSqrt Proofs.ZqField.
Import ListNotations.
Open Scope Z_scope.

(* signed digits: for every window width c >= 2 and canonical scalar, the nb_chunks(c)
   digits represent s, lie in [-2^(c-1), 2^(c-1)-1], and no carry is left *)
Theorem C09_signed_digits : forall c s, 2 <= c -> 0 <= s < 2 ^ 253 ->
  digits_val c (fst (recode (Z.to_nat (nb_chunks c)) c s 0)) = s
  /\ Forall (fun d => - 2 ^ (c - 1) <= d <= 2 ^ (c - 1) - 1) (fst (recode (Z.to_nat (nb_chunks c)) c s 0))
  /\ length (fst (recode (Z.to_nat (nb_chunks c)) c s 0)) = Z.to_nat (nb_chunks c)
  /\ snd (recode (Z.to_nat (nb_chunks c)) c s 0) = 0.
Proof.
  intros c s Hc Hs. destruct (recode_real_value c s Hc Hs) as (A & B & C).
  exact (conj A (conj B (conj C (recode_real_no_carry c s Hc Hs)))).
Qed.
Print Assumptions C09_signed_digits.

(* limb-level window extraction = arithmetic window *)
Theorem C09_window_extraction : forall c chunk s,
  1 <= c <= 64 -> 0 <= chunk -> chunk * c < 256 -> 0 <= s < 2 ^ 256 ->
  sel_bits s (mk_selector c chunk) = (s / 2 ^ (chunk * c)) mod 2 ^ c.
Proof. exact window_extraction. Qed.
Print Assumptions C09_window_extraction.

(* the packed encoding written by partitionScalars for a signed digit (d >= 0: d,
   d < 0: (-d-1) | msb) is decoded back to d by the chunk processor, for every digit in range *)
Theorem C09_signed_digit_encoding : forall c d, 2 <= c -> - 2 ^ (c - 1) <= d <= 2 ^ (c - 1) - 1 ->
  signed_of_bits c (encode_digit c d) = d /\ 0 <= encode_digit c d < 2 ^ c.
Proof. exact signed_digit_roundtrip. Qed.
Print Assumptions C09_signed_digit_encoding.

(* limb level, whole per-scalar loop *)
Theorem C09_partition_digits : forall c s, 2 <= c <= 64 -> 0 <= s < 2 ^ 253 ->
  let nb := Z.to_nat (nb_chunks c) in
  let packed := fst (part_loop nb c s 0 0 0) in
  snd (part_loop nb c s 0 0 0) = 0
  /\ 0 <= packed < 2 ^ 256
  /\ forall j, (j < nb)%nat ->
       signed_of_bits c (chunk_bits c packed (Z.of_nat j)) = List.nth j (fst (recode nb c s 0)) 0.
Proof. exact partition_scalar_digits. Qed.
Print Assumptions C09_partition_digits.

Section C09.
  Context {F G : Type} (fo : FOps F) (go : GOps F G) (FL : FieldLaws fo) (GL : GroupLaws fo go).
  Hypothesis fofz_add : forall a b, fofz fo (a + b) = fadd fo (fofz fo a) (fofz fo b).
  Hypothesis fofz_mul : forall a b, fofz fo (a * b) = fmul fo (fofz fo a) (fofz fo b).
  Hypothesis fofz_1 : fofz fo 1 = f1 fo.

  (* msmProcessChunk: bucket accumulation + running sum = sum_i d_i P_i, for every list of
     points with signed digits |d_i| <= number of buckets (0 skipped, negatives subtract) *)
  Theorem C09_process_chunk : forall nb pds, digits_in nb pds ->
    process_chunk go nb pds = msmz fo go pds.
  Proof. exact (process_chunk_spec fo go FL GL fofz_add fofz_1). Qed.

  Theorem C09_running_sum : forall buckets, bucket_reduce go buckets = wsum fo go 1 buckets.
  Proof. exact (bucket_reduce_spec fo go GL fofz_add fofz_1). Qed.

  (* msmReduceChunk: c doublings between chunks = Horner in base 2^c *)
  Theorem C09_reduce_chunks : forall c ts,
    reduce_chunks go c (rev ts) = hsum fo go (2 ^ Z.of_nat c) ts.
  Proof. exact (reduce_chunks_spec fo go GL fofz_add fofz_mul fofz_1). Qed.

  (* all chunks together: the Horner combination of the chunk totals is ONE multi-scalar
     multiplication with the recombined digits sum_j 2^(c j) d_{i,j} *)
  Theorem C09_chunks_recombine : forall B ps Ds, Forall (fun D => length D = length ps) Ds ->
    hsum fo go B (map (msmzv fo go ps) Ds) = msmzv fo go ps (vhorner B (length ps) Ds).
  Proof. exact (chunks_horner fo go FL GL fofz_add fofz_mul). Qed.

  (* split MSM: the partial results over any split of the points add up to the whole *)
  Theorem C09_split_sum : forall ps1 ds1 ps2 ds2, length ps1 = length ds1 ->
    msmzv fo go (ps1 ++ ps2) (ds1 ++ ds2) = gadd go (msmzv fo go ps1 ds1) (msmzv fo go ps2 ds2).
  Proof. exact (msmzv_app fo go GL). Qed.

  (* the whole bucket method on the packed scalars written by partitionScalars *)
  Theorem C09_msm_inner : forall c points ss split,
    2 <= c <= 64 -> length points = length ss -> Forall (fun s => 0 <= s < 2 ^ 253) ss ->
    msm_inner go c points (fst (partition_scalars c ss)) split = msmzv fo go points ss.
  Proof. exact (msm_inner_spec fo go FL GL fofz_add fofz_mul fofz_1). Qed.

  (* MultiExp for every window, split count, slice length, completion order *)
  Theorem C09_multi_exp : forall c k m order points ss split,
    2 <= c <= 64 -> length points = length ss -> Forall (fun s => 0 <= s < 2 ^ 253) ss ->
    (1 <= k)%nat -> Permutation order (seq 0 (k - 1)) ->
    multi_exp go c k m order points ss split = msmzv fo go points ss.
  Proof. exact (multi_exp_spec fo go FL GL fofz_add fofz_mul fofz_1). Qed.

  (* ... and with the window / split loop of the code in front: terminates, right result *)
  Theorem C09_multi_exp_top : forall f nbTasks order points ss split,
    1 <= nbTasks <= 2 ^ Z.of_nat f ->
    (forall k, Permutation (order k) (seq 0 (k - 1))) ->
    length points = length ss -> Forall (fun s => 0 <= s < 2 ^ 253) ss ->
    multi_exp_top go (S f) nbTasks order points ss split = Some (msmzv fo go points ss).
  Proof. exact (multi_exp_top_spec fo go FL GL fofz_add fofz_mul fofz_1). Qed.
End C09.
Print Assumptions C09_msm_inner.
Print Assumptions C09_multi_exp.
Print Assumptions C09_multi_exp_top.

(* the cost model only ever picks an implemented window *)
Theorem C09_best_c_implemented : forall n, In (best_c n) implemented_cs.
Proof. exact best_c_in. Qed.
Print Assumptions C09_best_c_implemented.
Print Assumptions C09_process_chunk.
Print Assumptions C09_running_sum.
Print Assumptions C09_reduce_chunks.
Print Assumptions C09_chunks_recombine.
Print Assumptions C09_split_sum.

Example C09_example_recode : recode 4 4 0xBEEF 0 = ([-1; -1; -1; -4], 1).
Proof. vm_compute. reflexivity. Qed.

(* the scalar-side premises of the theorems above hold for the concrete scalar field *)
Theorem C09_concrete_scalar_premises :
  (forall a b, fofz FpSqrt.fro (a + b) = fadd FpSqrt.fro (fofz FpSqrt.fro a) (fofz FpSqrt.fro b))
  /\ (forall a b, fofz FpSqrt.fro (a * b) = fmul FpSqrt.fro (fofz FpSqrt.fro a) (fofz FpSqrt.fro b))
  /\ fofz FpSqrt.fro 1 = f1 FpSqrt.fro
  /\ FieldLaws FpSqrt.fro.
Proof. exact (conj (proj1 ZqField.fro_fofz_morphism) (conj (proj1 (proj2 ZqField.fro_fofz_morphism)) (conj (proj2 (proj2 ZqField.fro_fofz_morphism)) ZqField.fr_field_laws))). Qed.
Print Assumptions C09_concrete_scalar_premises.
