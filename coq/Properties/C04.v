(* C04 - IPA opens the committed polynomial at any field point.
   Abstract field (FieldLaws: commutative ring with partial inverse) and abstract module
   (GroupLaws); vector length 2^k for EVERY k (the code fixes k = 8). *)
From Coq Require Import ZArith List Arith.
From GoIpa Require Import Model.Zq Model.FpSqrt Model.Concrete Model.Bytes Model.Alg Model.Transcript Model.Bary Model.Banderwagon Model.IPA
  Proofs.AlgLaws Proofs.IPAProofs Proofs.BaryProofs Proofs.BaryPoly Proofs.PrimeField Proofs.Transfer.
Import ListNotations.

Section C04.
  Context {F G : Type} (fo : FOps F) (go : GOps F G) (hashf : list Z -> list Z)
          (FL : FieldLaws fo) (GL : GroupLaws fo go).
  Hypothesis geqb_refl : forall x, geqb go x x = true.

  (* completeness: for every transcript state, every basis of length 2^k, every vector a
     and every evaluation point z, CreateIPAProof succeeds with k L/R points and, provided
     the k round challenges derived from the proof are invertible, CheckIPAProof run from
     the same transcript state accepts result = <a, b(z)> and both sides end in the same
     transcript state (hence equal next challenge) *)
  Theorem C04_ipa_complete : forall t cfg a z k,
    c_rounds cfg = k -> length (c_srs cfg) = (2 ^ k)%nat -> length a = (2 ^ k)%nat ->
    length (compute_b fo cfg z) = (2 ^ k)%nat ->
    let c := msm go (c_srs cfg) a in
    let res := inner fo a (compute_b fo cfg z) in
    exists t' pr,
      ipa_create fo go hashf t cfg c a z = Some (t', pr)
      /\ length (pL pr) = k /\ length (pR pr) = k
      /\ (Forall (invertible fo) (ipa_challenges fo go hashf t cfg c pr z res) ->
          ipa_check fo go hashf t cfg c pr z res = Some (t', true)).
  Proof. exact (ipa_complete fo go hashf FL GL geqb_refl). Qed.

  (* the b-vector: unit vector iff the canonical integer of z is <= n-1 (the switch is
     exactly between n-1 and n), barycentric coefficients otherwise; always n entries *)
  Theorem C04_b_vector_switch : forall (cfg : config (F := F) (G := G)) z,
    ((f2z fo z <= Z.of_nat (c_n cfg) - 1)%Z ->
       compute_b fo cfg z = unit_vec fo (c_n cfg) (Z.to_nat (f2z fo z)))
    /\ ((Z.of_nat (c_n cfg) - 1 < f2z fo z)%Z ->
       compute_b fo cfg z = bary_coeffs fo (c_n cfg) (batch_invert fo) (c_w cfg) z)
    /\ length (compute_b fo cfg z) = c_n cfg.
  Proof.
    intros cfg z. destruct (compute_b_switch fo cfg z) as [A B].
    exact (conj A (conj B (compute_b_length fo FL cfg z))).
  Qed.

  (* for in-domain points the opened value is the corresponding evaluation itself *)
  Theorem C04_in_domain_value : forall a i, (i < length a)%nat ->
    inner fo a (unit_vec fo (length a) i) = nth i a (f0 fo).
  Proof. exact (inner_unit_vec fo FL). Qed.

  (* the bit-trick folding scalars of the verifier are the recursive-doubling products *)
  Theorem C04_folding_scalars : forall xis,
    folding_scalars fo (length xis) xis (2 ^ length xis) = fs_spec fo xis.
  Proof. exact (folding_scalars_spec fo FL). Qed.

  (* the opened value is p(z) for p ANY polynomial of degree < n through the committed
     evaluations, at every field point: inside the domain the evaluation itself, outside
     the barycentric interpolation (premises: node differences invertible; z - node invertible
     for out-of-domain z; the integer embedding round-trips on z) *)
  Theorem C04_opened_value_is_polynomial_evaluation : forall (cfg : config (F := F) (G := G)) q z,
    let n := c_n cfg in
    c_w cfg = new_weights fo n -> (length q <= n)%nat -> nodes_ok fo n ->
    (0 <= f2z fo z)%Z -> fofz fo (f2z fo z) = z ->
    ((Z.of_nat n - 1 < f2z fo z)%Z -> off_domain fo n z) ->
    inner fo (map (fun i => peval fo q (dom fo i)) (seq 0 n)) (compute_b fo cfg z) = peval fo q z.
  Proof. exact (opened_value_is_poly_eval fo FL). Qed.
End C04.
Print Assumptions C04_opened_value_is_polynomial_evaluation.

(* the configuration of the code: Fr, 256 nodes; the node premises are discharged *)
Theorem C04_concrete_opened_value : forall srs (q : list Zq.Fr) (z : Zq.Fr),
  (length q <= 256)%nat ->
  ((255 < Zq.zval z)%Z -> off_domain FpSqrt.fro 256 z) ->
  inner FpSqrt.fro (map (fun i => peval FpSqrt.fro q (dom FpSqrt.fro i)) (seq 0 256)) (Concrete.c_compute_b srs z)
  = peval FpSqrt.fro q z.
Proof. exact concrete_opened_value. Qed.
Print Assumptions C04_concrete_opened_value.
Print Assumptions C04_ipa_complete.
Print Assumptions C04_b_vector_switch.
Print Assumptions C04_in_domain_value.
Print Assumptions C04_folding_scalars.

(* non-vacuity: a toy instance (field Z/101 as a module over itself, 4-element basis,
   2 rounds, a toy hash) on which the premises hold and the honest proof verifies, in and
   outside the domain *)
From GoIpa Require Import Model.Zq.
Definition toy_fo : FOps (Zq 101) :=
  mkFOps (Zq 101) zq_zero zq_one zq_add zq_sub zq_mul zq_neg zq_inv zq_eqb (zq_of_Z 101) zval.
Definition toy_hash (l : list Z) : list Z := [(fold_left Z.add l 7) mod 256; 3]%Z.
Definition toy_cfg : config (F := Zq 101) (G := Zq 101) :=
  mkCfg 4 2 (map (zq_of_Z 101) [3; 5; 7; 11]%Z) (zq_of_Z 101 13) (new_weights toy_fo 4).
Definition toy_run (z : Z) : option bool :=
  let a := map (zq_of_Z 101) [1; 2; 3; 4]%Z in
  let c := msm (fgo toy_fo) (c_srs toy_cfg) a in
  let zz := zq_of_Z 101 z in
  match ipa_create toy_fo (fgo toy_fo) toy_hash (t_new [1]%Z) toy_cfg c a zz with
  | None => None
  | Some (_, pr) =>
      match ipa_check toy_fo (fgo toy_fo) toy_hash (t_new [1]%Z) toy_cfg c pr zz
                      (inner toy_fo a (compute_b toy_fo toy_cfg zz)) with
      | Some (_, ok) => Some ok
      | None => None
      end
  end.
Example C04_example_toy_runs : toy_run 2 = Some true /\ toy_run 3 = Some true /\ toy_run 57 = Some true.
Proof. vm_compute. repeat split. Qed.

(* the prover run on representations (go1) and over any group go2 related to them produce the
   same transcript, the same final scalar and related L/R points - or fail together *)
Theorem C04_prover_transfer :
  forall (F G1 G2 : Type) (fo : FOps F) (go1 : GOps F G1) (go2 : GOps F G2) (hashf : list Z -> list Z)
         (rel : G1 -> G2 -> Prop),
  rel (g0 go1) (g0 go2) ->
  (forall a a' b b', rel a a' -> rel b b' -> rel (gadd go1 a b) (gadd go2 a' b')) ->
  (forall s p p', rel p p' -> rel (gmul go1 s p) (gmul go2 s p')) ->
  (forall a a', rel a a' -> genc go1 a = genc go2 a') ->
  forall t c1 c2 cm cm' a z, cfg_rel rel c1 c2 -> rel cm cm' ->
    match ipa_create fo go1 hashf t c1 cm a z, ipa_create fo go2 hashf t c2 cm' a z with
    | Some (t1, p1), Some (t2, p2) => t1 = t2 /\ ipa_rel rel p1 p2
    | None, None => True
    | _, _ => False
    end.
Proof.
  intros F G1 G2 fo go1 go2 hashf rel H0 Ha Hm He.
  exact (ipa_create_rel fo go1 go2 hashf rel H0 Ha Hm He).
Qed.
Print Assumptions C04_prover_transfer.

(* ... and at EVERY scalar z, once the scalar-field modulus is prime (explicit premise): every z above
   255 is then off the domain (all differences z - i are invertible) *)
Theorem C04_opened_value_at_every_scalar : Znumtheory.prime Zq.r_mod ->
  forall srs (q : list Zq.Fr) (z : Zq.Fr), (length q <= 256)%nat ->
  inner FpSqrt.fro (map (fun i => peval FpSqrt.fro q (dom FpSqrt.fro i)) (seq 0 256)) (Concrete.c_compute_b srs z)
  = peval FpSqrt.fro q z.
Proof. exact concrete_opened_value_everywhere. Qed.
Print Assumptions C04_opened_value_at_every_scalar.
