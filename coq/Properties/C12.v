(* C12 - a shared configuration can be used concurrently without interference.
   What an executable model can carry is the LOGIC: (1) goroutines whose calls have
   disjoint footprints (own arguments / receivers, shared read-only configuration) get,
   under EVERY interleaving, exactly the results they get alone, and the configuration is
   unchanged; (2) the spawn/WaitGroup join and the channel fan-ins used by the library
   cannot deadlock and deliver every value exactly once; (3) tasks of one Execute call
   touch pairwise disjoint index ranges.  PARTIAL BY NATURE: the absence of data races in
   the Go memory model and the actual scheduler are OBSERVED (race detector, watchdog,
   comparison of every concurrent result with the sequential model), not proved. *)
From Coq Require Import ZArith List Arith Bool.
From GoIpa Require Import Model.Store Model.Parallel Proofs.StoreProofs Proofs.ParallelProofs.
Import ListNotations.

Section C12.
  Context {C V R : Type} (d : V).
  Local Notation call := (call (C := C) (V := V) (R := R)).
  Local Notation store := (store (C := C) (V := V)).

  (* two goroutines, scripts a and b, footprints disjoint (no call of one writes an object
     the other reads or writes): for EVERY interleaving m of the two scripts, each side's
     results are those of running its script alone, and the shared configuration is intact *)
  Theorem C12_interleaving_independent : forall (a b : list call) m (s : store),
    is_merge a b m ->
    (forall k i, In k b -> In i (c_writes k) -> ~ FP a i) ->
    (forall k i, In k a -> In i (c_writes k) -> ~ FP b i) ->
    results_of true (snd (run_tagged d s m)) = snd (run d s a)
    /\ results_of false (snd (run_tagged d s m)) = snd (run d s b)
    /\ fst (fst (run_tagged d s m)) = fst s.
  Proof. exact (interleaving_independent d). Qed.
End C12.
Print Assumptions C12_interleaving_independent.

(* channel fan-in with as many receives as senders: for every capacity (0 included) no
   reachable state is stuck before all k values are received, runs have at most 2k steps,
   every value is received exactly once *)
Theorem C12_fanin_no_deadlock : forall cap k ls s,
  frun cap k (finit k) ls = Some s ->
  (length ls <= 2 * k)%nat
  /\ (f_tosend s + f_buf s + f_recv s = k)%nat
  /\ ((f_recv s < k)%nat -> exists l s', fstep cap k s l = Some s').
Proof. exact fanin_no_deadlock. Qed.
Print Assumptions C12_fanin_no_deadlock.

(* the failure mode the property excludes: more senders than receives on a small channel *)
Theorem C12_surplus_senders_block :
  exists s, frun 1 1 (finit 3) [FHandoff; FSend] = Some s
            /\ f_tosend s = 1%nat /\ forall l, fstep 1 1 s l = None.
Proof. exact fanin_surplus_senders_block. Qed.
Print Assumptions C12_surplus_senders_block.

(* spawn / WaitGroup: return only after all tasks, never stuck (shared with C20) *)
Theorem C12_join : forall all ls s, jrun (jinit all) ls = Some s ->
  (returned s = true -> forall t, In t all -> In t (finished s))
  /\ (returned s = false -> exists l s', jstep s l = Some s').
Proof. intros all ls s H. split; [intros Hr; exact (execute_joins all ls s H Hr)|intros Hr; exact (execute_progress all ls s H Hr)]. Qed.
Print Assumptions C12_join.

(* tasks of one Execute call write disjoint index ranges: every index in [0,n) belongs to
   exactly one range, indices outside to none *)
Theorem C12_execute_ranges_disjoint : forall n m x, (0 <= n)%Z -> (1 <= m)%Z ->
  cover_count x (execute_ranges n m) = (if ((0 <=? x)%Z && (x <? n)%Z)%bool then 1%nat else 0%nat).
Proof. exact execute_ranges_disjoint. Qed.
Print Assumptions C12_execute_ranges_disjoint.
