(* C02 - the verifier decides exactly the specified predicate; shape errors.
   PARTIAL: cryptographic soundness is not a theorem about a program.  Proved here: the
   verifier is total and returns an error exactly on the listed shape defects (never a
   partial function / panic in the model); its decision is a function of the inputs.
   "Agrees with an independent reference verifier on every perturbation" is decided by
   the correspondence (the extracted model is the reference verifier). *)
From Coq Require Import ZArith List.
From GoIpa Require Import Model.Bytes Model.Alg Model.Transcript Model.Bary Model.Banderwagon Model.IPA Model.Multiproof
  Proofs.AlgLaws Proofs.MultiproofProofs Proofs.IPAProofs Proofs.ReprProofs Proofs.Transfer Proofs.TransferExample.
Import ListNotations.

(* CheckMultiProof returns an error exactly when: the numbers of commitments, values and
   indices differ, there are zero openings, or the IPA proof does not carry exactly
   numRounds L points and numRounds R points *)
Theorem C02_check_multiproof_shape :
  forall (F G : Type) (fo : FOps F) (go : GOps F G) (hashf : list Z -> list Z) t cfg pr cs ys zs,
    mp_check fo go hashf t cfg pr cs ys zs = None
    <-> (length cs <> length ys \/ length cs <> length zs \/ length cs = 0%nat
         \/ length (pL (mpIPA pr)) <> length (pR (mpIPA pr)) \/ length (pL (mpIPA pr)) <> c_rounds cfg).
Proof. intros. apply mp_check_shape. Qed.
Print Assumptions C02_check_multiproof_shape.

Theorem C02_check_ipa_shape :
  forall (F G : Type) (fo : FOps F) (go : GOps F G) (hashf : list Z -> list Z) t cfg c pr z res,
    ipa_check fo go hashf t cfg c pr z res = None
    <-> (length (pL pr) <> length (pR pr) \/ length (pL pr) <> c_rounds cfg).
Proof. intros. apply ipa_check_shape. Qed.
Print Assumptions C02_check_ipa_shape.

(* the prover's shape errors, in the code's order *)
Theorem C02_create_multiproof_shape :
  forall (F G : Type) (fo : FOps F) (go : GOps F G) (hashf : list Z -> list Z) nw arrival t cfg commit cs fs zs,
    (forallb (fun f => Nat.eqb (length f) (c_n cfg)) fs = false ->
       mp_create fo go hashf nw arrival t cfg commit cs fs zs = inr MPErrPolyLen)
    /\ (forallb (fun f => Nat.eqb (length f) (c_n cfg)) fs = true -> length cs <> length fs ->
       mp_create fo go hashf nw arrival t cfg commit cs fs zs = inr MPErrLenFs)
    /\ (forallb (fun f => Nat.eqb (length f) (c_n cfg)) fs = true -> length cs = length fs ->
        length cs <> length zs ->
       mp_create fo go hashf nw arrival t cfg commit cs fs zs = inr MPErrLenZs)
    /\ (forallb (fun f => Nat.eqb (length f) (c_n cfg)) fs = true -> length cs = length fs ->
        length cs = length zs -> length cs = 0%nat ->
       mp_create fo go hashf nw arrival t cfg commit cs fs zs = inr MPErrZero).
Proof. intros. apply mp_create_shape. Qed.
Print Assumptions C02_create_multiproof_shape.

(* the inner verification equation is the specified one: the bit-trick folding scalars
   are the recursive-doubling products, so g' = <G, s> and b' = <b, s> are the folded
   basis / b-vector of the textbook verifier *)
Theorem C02_folding_scalars_are_the_recursive_fold :
  forall (F : Type) (fo : FOps F), FieldLaws fo -> forall xis,
    folding_scalars fo (length xis) xis (2 ^ length xis) = fs_spec fo xis.
Proof. intros F fo FL. exact (folding_scalars_spec fo FL). Qed.
Print Assumptions C02_folding_scalars_are_the_recursive_fold.

(* changing only the representation of group-element inputs never changes the decision:
   for ANY relation eqv that is a congruence for the group operations and is respected by
   the encoding and by Equal (for Banderwagon: same class, any projective representation,
   C07/C08), replacing every commitment, D, L_j, R_j by an equivalent element leaves the
   whole result of CheckMultiProof (decision, error, final transcript) unchanged *)
Theorem C02_representation_invariant :
  forall (F G : Type) (fo : FOps F) (go : GOps F G) (hashf : list Z -> list Z) (eqv : G -> G -> Prop),
  (forall a, eqv a a) ->
  (forall a a' b b', eqv a a' -> eqv b b' -> eqv (gadd go a b) (gadd go a' b')) ->
  (forall s p p', eqv p p' -> eqv (gmul go s p) (gmul go s p')) ->
  (forall a a', eqv a a' -> eqv (gneg go a) (gneg go a')) ->
  (forall a a', eqv a a' -> genc go a = genc go a') ->
  (forall a a' b b', eqv a a' -> eqv b b' -> geqb go a b = geqb go a' b') ->
  forall t cfg cs cs' D D' L L' R R' a ys zs,
    Forall2 eqv cs cs' -> eqv D D' -> Forall2 eqv L L' -> Forall2 eqv R R' ->
    mp_check fo go hashf t cfg (mkMP (mkIPA L R a) D) cs ys zs
    = mp_check fo go hashf t cfg (mkMP (mkIPA L' R' a) D') cs' ys zs.
Proof. intros F G fo go hashf eqv H1 H2 H3 H4 H5 H6. exact (mp_check_compat fo go hashf eqv H1 H2 H3 H4 H5 H6). Qed.
Print Assumptions C02_representation_invariant.

(* CheckIPAProof IS the textbook verifier: for every well-dimensioned configuration
   (basis and b-vector of length 2^rounds) and EVERY proof object, commitment, point and
   claimed result, the optimised verifier (bit-trick folding scalars, one MSM for g',
   one inner product for b') returns exactly what the recursive-folding verifier returns:
   same error cases, same final transcript, same decision *)
Theorem C02_ipa_check_refines_textbook_verifier :
  forall (F G : Type) (fo : FOps F) (go : GOps F G) (hashf : list Z -> list Z),
  FieldLaws fo -> GroupLaws fo go ->
  forall t cfg c pr z res,
    length (c_srs cfg) = (2 ^ c_rounds cfg)%nat -> length (compute_b fo cfg z) = (2 ^ c_rounds cfg)%nat ->
    ipa_check fo go hashf t cfg c pr z res = ipa_check_spec fo go hashf t cfg c pr z res.
Proof. intros F G fo go hashf FL GL. exact (ipa_check_refines_spec fo go hashf FL GL). Qed.
Print Assumptions C02_ipa_check_refines_textbook_verifier.

(* the verifier run on REPRESENTATIONS (the code's coordinate-level group operations go1)
   returns exactly what the verifier over any group go2 related to them returns on the related
   inputs - result, error and final transcript; so what is proved of the verifier over a
   lawful abstract group (C01, C04, the refinement above) holds of the run on representations *)
Theorem C02_verifier_transfer :
  forall (F G1 G2 : Type) (fo : FOps F) (go1 : GOps F G1) (go2 : GOps F G2) (hashf : list Z -> list Z)
         (rel : G1 -> G2 -> Prop),
  rel (g0 go1) (g0 go2) ->
  (forall a a' b b', rel a a' -> rel b b' -> rel (gadd go1 a b) (gadd go2 a' b')) ->
  (forall s p p', rel p p' -> rel (gmul go1 s p) (gmul go2 s p')) ->
  (forall a a', rel a a' -> rel (gneg go1 a) (gneg go2 a')) ->
  (forall a a', rel a a' -> genc go1 a = genc go2 a') ->
  (forall a a' b b', rel a a' -> rel b b' -> geqb go1 a b = geqb go2 a' b') ->
  forall t c1 c2 p1 p2 cs cs' ys zs,
    cfg_rel rel c1 c2 -> mp_rel rel p1 p2 -> Forall2 rel cs cs' ->
    mp_check fo go1 hashf t c1 p1 cs ys zs = mp_check fo go2 hashf t c2 p2 cs' ys zs.
Proof.
  intros F G1 G2 fo go1 go2 hashf rel H0 Ha Hm Hn He Hq.
  exact (mp_check_rel fo go1 go2 hashf rel H0 Ha Hm Hn He Hq).
Qed.
Print Assumptions C02_verifier_transfer.

Theorem C02_ipa_verifier_transfer :
  forall (F G1 G2 : Type) (fo : FOps F) (go1 : GOps F G1) (go2 : GOps F G2) (hashf : list Z -> list Z)
         (rel : G1 -> G2 -> Prop),
  rel (g0 go1) (g0 go2) ->
  (forall a a' b b', rel a a' -> rel b b' -> rel (gadd go1 a b) (gadd go2 a' b')) ->
  (forall s p p', rel p p' -> rel (gmul go1 s p) (gmul go2 s p')) ->
  (forall a a', rel a a' -> genc go1 a = genc go2 a') ->
  (forall a a' b b', rel a a' -> rel b b' -> geqb go1 a b = geqb go2 a' b') ->
  forall t c1 c2 cm cm' p1 p2 z res,
    cfg_rel rel c1 c2 -> rel cm cm' -> ipa_rel rel p1 p2 ->
    ipa_check fo go1 hashf t c1 cm p1 z res = ipa_check fo go2 hashf t c2 cm' p2 z res.
Proof.
  intros F G1 G2 fo go1 go2 hashf rel H0 Ha Hm He Hq.
  exact (ipa_check_rel fo go1 go2 hashf rel H0 Ha Hm He Hq).
Qed.
Print Assumptions C02_ipa_verifier_transfer.

(* the transfer premises are satisfiable by a representation that is NOT itself a lawful group:
   fractions (n, d) over any field-like ring, added like fractions, compared by cross-multiplication,
   encoded through n/d - exactly the situation of projective coordinates - related to the ring's
   additive group by  rel (n, d) x := d invertible /\ n = x d.  For them the verifier on
   representations decides like the verifier on the lawful group, although P + (-P) = (0, d^2)
   is not the identity (0, 1) up to Leibniz equality *)
Theorem C02_transfer_instance_fractions :
  forall (F : Type) (fo : FOps F), FieldLaws fo -> forall (hashf : list Z -> list Z),
  (forall t c1 c2 p1 p2 cs cs' ys zs,
     cfg_rel (frel fo) c1 c2 -> mp_rel (frel fo) p1 p2 -> Forall2 (frel fo) cs cs' ->
     mp_check fo (go1 fo) hashf t c1 p1 cs ys zs = mp_check fo (go2 fo) hashf t c2 p2 cs' ys zs)
  /\ GroupLaws fo (go2 fo)
  /\ (forall d, fmul fo d d <> f1 fo -> ~ GroupLaws fo (go1 fo)).
Proof.
  intros F fo FL hashf. split; [|split].
  - exact (fractions_verifier_transfer fo FL hashf).
  - exact (go2_laws fo FL).
  - exact (go1_not_lawful fo).
Qed.
Print Assumptions C02_transfer_instance_fractions.
