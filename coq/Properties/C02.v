(* C02 - the verifier decides exactly the specified predicate; shape errors.
   PARTIAL: cryptographic soundness is not a theorem about a program.  Proved here: the
   verifier is total and returns an error exactly on the listed shape defects (never a
   partial function / panic in the model); its decision is a function of the inputs.
   "Agrees with an independent reference verifier on every perturbation" is decided by
   the correspondence (the extracted model is the reference verifier). *)
From Coq Require Import ZArith List.
From GoIpa Require Import Model.Bytes Model.Alg Model.Transcript Model.Bary Model.Banderwagon Model.IPA Model.Multiproof
  Proofs.AlgLaws Proofs.MultiproofProofs Proofs.IPAProofs.
Import ListNotations.

(* CheckMultiProof returns an error exactly when: the numbers of commitments, values and
   indices differ, there are zero openings, or the IPA proof does not carry exactly
   numRounds L points and numRounds R points *)
Theorem C02_check_multiproof_shape :
  forall (F G : Type) (fo : FOps F) (go : GOps F G) (hashf : list Z -> list Z) t cfg pr cs ys zs,
    mp_check fo go hashf t cfg pr cs ys zs = None
    <-> (length cs <> length ys \/ length cs <> length zs \/ length cs = 0%nat
         \/ length (pL (mpIPA pr)) <> length (pR (mpIPA pr)) \/ length (pL (mpIPA pr)) <> c_rounds cfg).
Proof. intros. apply mp_check_shape. Qed.
Print Assumptions C02_check_multiproof_shape.

Theorem C02_check_ipa_shape :
  forall (F G : Type) (fo : FOps F) (go : GOps F G) (hashf : list Z -> list Z) t cfg c pr z res,
    ipa_check fo go hashf t cfg c pr z res = None
    <-> (length (pL pr) <> length (pR pr) \/ length (pL pr) <> c_rounds cfg).
Proof. intros. apply ipa_check_shape. Qed.
Print Assumptions C02_check_ipa_shape.

(* the prover's shape errors, in the code's order *)
Theorem C02_create_multiproof_shape :
  forall (F G : Type) (fo : FOps F) (go : GOps F G) (hashf : list Z -> list Z) nw arrival t cfg commit cs fs zs,
    (forallb (fun f => Nat.eqb (length f) (c_n cfg)) fs = false ->
       mp_create fo go hashf nw arrival t cfg commit cs fs zs = inr MPErrPolyLen)
    /\ (forallb (fun f => Nat.eqb (length f) (c_n cfg)) fs = true -> length cs <> length fs ->
       mp_create fo go hashf nw arrival t cfg commit cs fs zs = inr MPErrLenFs)
    /\ (forallb (fun f => Nat.eqb (length f) (c_n cfg)) fs = true -> length cs = length fs ->
        length cs <> length zs ->
       mp_create fo go hashf nw arrival t cfg commit cs fs zs = inr MPErrLenZs)
    /\ (forallb (fun f => Nat.eqb (length f) (c_n cfg)) fs = true -> length cs = length fs ->
        length cs = length zs -> length cs = 0%nat ->
       mp_create fo go hashf nw arrival t cfg commit cs fs zs = inr MPErrZero).
Proof. intros. apply mp_create_shape. Qed.
Print Assumptions C02_create_multiproof_shape.

(* the inner verification equation is the specified one: the bit-trick folding scalars
   are the recursive-doubling products, so g' = <G, s> and b' = <b, s> are the folded
   basis / b-vector of the textbook verifier *)
Theorem C02_folding_scalars_are_the_recursive_fold :
  forall (F : Type) (fo : FOps F), FieldLaws fo -> forall xis,
    folding_scalars fo (length xis) xis (2 ^ length xis) = fs_spec fo xis.
Proof. intros F fo FL. exact (folding_scalars_spec fo FL). Qed.
Print Assumptions C02_folding_scalars_are_the_recursive_fold.
