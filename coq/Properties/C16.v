(* C16 - scalar encodings round-trip, reduce or reject exactly, and leave input intact. *)
From Coq Require Import ZArith List.
From GoIpa Require Import Model.Bytes Model.Zq Model.Codec Proofs.CodecProofs.
Import ListNotations.
Open Scope Z_scope.

(* decoding the big-/little-endian 32-byte encoding of any scalar gives it back *)
Theorem C16_roundtrip : forall s : Fr,
  fst (fr_set_bytes (fr_bytes s)) = s
  /\ fst (fr_set_bytes_le (fr_bytes_le s)) = s
  /\ fst (fr_set_bytes_le_canonical (fr_bytes_le s)) = Some s.
Proof.
  intros s. exact (conj (fr_bytes_roundtrip s) (conj (fr_bytes_le_roundtrip s) (fr_bytes_le_canonical_roundtrip s))).
Qed.
Print Assumptions C16_roundtrip.

(* the reducing decoders map ANY byte string (any length) to its integer value mod r *)
Theorem C16_reducing_decoders : forall b : list Z,
  zval (fst (fr_set_bytes b)) = be_val b mod r_mod
  /\ zval (fst (fr_set_bytes_le b)) = le_val b mod r_mod.
Proof. intros b. exact (conj (fr_set_bytes_reduces b) (fr_set_bytes_le_reduces b)). Qed.
Print Assumptions C16_reducing_decoders.

(* the canonical decoder accepts a string exactly when its integer value is < r *)
Theorem C16_canonical_accepts_iff : forall b : list Z,
  ((exists s, fst (fr_set_bytes_le_canonical b) = Some s /\ zval s = le_val b)
   <-> le_val b < r_mod /\ 0 <= le_val b)
  /\ (r_mod <= le_val b -> fst (fr_set_bytes_le_canonical b) = None).
Proof. intros b. exact (conj (fr_le_canonical_accepts_iff b) (fr_le_canonical_rejects b)). Qed.
Print Assumptions C16_canonical_accepts_iff.

(* no decoder modifies its input, so decoding the same buffer twice gives the same scalar *)
Theorem C16_input_intact : forall b : list Z,
  (snd (fr_set_bytes b) = b /\ snd (fr_set_bytes_le b) = b /\ snd (fr_set_bytes_le_canonical b) = b)
  /\ (fst (fr_set_bytes (snd (fr_set_bytes b))) = fst (fr_set_bytes b)
      /\ fst (fr_set_bytes_le (snd (fr_set_bytes_le b))) = fst (fr_set_bytes_le b)
      /\ fst (fr_set_bytes_le_canonical (snd (fr_set_bytes_le_canonical b))) = fst (fr_set_bytes_le_canonical b)).
Proof. intros b. exact (conj (decoders_leave_input b) (decode_twice_same b)). Qed.
Print Assumptions C16_input_intact.

(* finding F1 (repaired by a fix: commit): the decoder of the pinned commit, which
   reversed the caller's slice in place, violates the last clause *)
Theorem C16_prefix_decoder_refuted :
  exists b, snd (fr_set_bytes_le_prefix b) <> b
            /\ fst (fr_set_bytes_le_prefix (snd (fr_set_bytes_le_prefix b))) <> fst (fr_set_bytes_le_prefix b).
Proof. exact fr_set_bytes_le_prefix_mutates. Qed.
Print Assumptions C16_prefix_decoder_refuted.

Theorem C16_fp_bytes_le : forall x : Fp,
  le_val (fp_bytes_le x) = zval x /\ length (fp_bytes_le x) = 32%nat.
Proof. exact fp_bytes_le_spec. Qed.
Print Assumptions C16_fp_bytes_le.

(* non-vacuity *)
Example C16_example_rejects_r : fst (fr_set_bytes_le_canonical (le_enc 32 r_mod)) = None.
Proof. vm_compute. reflexivity. Qed.
Example C16_example_accepts_r_minus_1 :
  exists s, fst (fr_set_bytes_le_canonical (le_enc 32 (r_mod - 1))) = Some s /\ zval s = r_mod - 1.
Proof. eexists. split; vm_compute; reflexivity. Qed.
