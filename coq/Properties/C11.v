(* C11 - map-to-scalar-field is a well-defined function on group elements. *)
From Coq Require Import ZArith List.
From GoIpa Require Import Model.Zq Model.Alg Model.Edwards Model.FpSqrt Model.Banderwagon
  Proofs.AlgLaws Proofs.EdwardsProofs Proofs.GroupProofs Proofs.BwProofs.
Open Scope Z_scope.

(* the returned scalar is the canonical integer of X/Y (computed in Fp) reduced mod r *)
Theorem C11_value : forall P : element,
  zval (bw_map_to_scalar P) = zval (bw_map_to_base P) mod r_mod
  /\ bw_map_to_base P = (let '(X, Y, _) := P in zq_mul X (zq_inv Y)).
Proof. intros P. split; [apply bw_map_to_scalar_spec|destruct P as [[X Y] Z]; reflexivity]. Qed.
Print Assumptions C11_value.

(* same value for every representation of the same group element: any projective
   scaling (every Z), and the other class member (-x,-y) *)
Theorem C11_representation_invariant : forall P Q p q,
  rep fpo P p -> rep fpo Q q -> class_eq fpo p q -> invertible fpo (snd p) ->
  bw_map_to_base P = zq_mul (fst p) (zq_inv (snd p))
  /\ bw_map_to_base P = bw_map_to_base Q /\ bw_map_to_scalar P = bw_map_to_scalar Q.
Proof.
  intros P Q p q HP HQ C Hy.
  assert (A : bw_map_to_base P = zq_mul (fst p) (zq_inv (snd p))) by exact (bw_map_rep P p HP Hy).
  assert (B : bw_map_to_base P = bw_map_to_base Q).
  { rewrite A. destruct C as [->| ->].
    - symmetry. exact (bw_map_rep Q p HQ Hy).
    - assert (Hy' : invertible fpo (snd (flip fpo p))).
      { destruct p as [x y]; cbn [flip fst snd] in *. destruct Hy as [z Hz].
        exists (fneg fpo z). rewrite <- Hz. zring. }
      rewrite (bw_map_rep Q (flip fpo p) HQ Hy'). symmetry. exact (bw_map_flip p Hy). }
  refine (conj A (conj B _)). unfold bw_map_to_scalar. rewrite B. reflexivity.
Qed.
Print Assumptions C11_representation_invariant.

(* elements that are not Equal have different X/Y (and Equal ones the same) *)
Theorem C11_injective_on_classes : forall P Q p q,
  rep fpo P p -> rep fpo Q q -> invertible fpo (snd p) -> invertible fpo (snd q) ->
  nonzero_xy P -> nonzero_xy Q ->
  (bw_equal P Q = true <-> bw_map_to_base P = bw_map_to_base Q).
Proof. exact bw_equal_iff_map. Qed.
Print Assumptions C11_injective_on_classes.

(* the batch variant returns exactly the same values, for every list *)
Theorem C11_batch_eq_single : forall ps : list element,
  all_nz_invertible fpo (map ycoord ps) -> bw_batch_map_to_scalar ps = map bw_map_to_scalar ps.
Proof. exact bw_batch_map_eq. Qed.
Print Assumptions C11_batch_eq_single.

Example C11_example :
  map zval (bw_batch_map_to_scalar (bw_generator :: bw_double bw_generator :: nil))
  = map zval (map bw_map_to_scalar (bw_generator :: bw_double bw_generator :: nil))
  /\ zval (bw_map_to_scalar bw_generator) <> 0.
Proof. vm_compute. split; [reflexivity|discriminate]. Qed.
