(* C17 - base-field square root and point recovery.
   The addition chain of sqrtAlg_ComputeRelevantPowers is DATA generated from the Go
   source (Model/SqrtChain.v, by lib/gen_chain.py); it is interpreted generically.
   PARTIAL: the correctness of the dlog-by-blocks step on 2^32-th roots of unity
   (invSqrtEqDyadic) and "nil exactly for non-residues" need the structure of Fp^* (p
   prime, generator of the dyadic subgroup); they appear as the named premise
   dyadic_sound resp. are decided by correspondence (structured exponents in every block). *)
From Coq Require Import ZArith List.
From GoIpa Require Import Model.Zq Model.Alg Model.SqrtChain Model.FpSqrt Model.Banderwagon Proofs.AlgLaws Proofs.SqrtProofs.
Open Scope Z_scope.

(* p - 1 = 2^32 Q with Q odd; the chain's exponents are exactly Q and (Q+1)/2 *)
Theorem C17_chain_exponents :
  p_mod - 1 = 2 ^ 32 * Qodd /\ Z.odd Qodd = true
  /\ chain_exp_root = Qodd /\ 2 * chain_exp_candidate = Qodd + 1
  /\ forallb (fun e => 0 <=? e) chain_exponents = true.
Proof. exact chain_exponents_spec. Qed.
Print Assumptions C17_chain_exponents.

(* for EVERY z the chain computes (z^((Q+1)/2), z^Q) *)
Theorem C17_relevant_powers : forall z : Fp,
  relevant_powers z = (zq_pow z chain_exp_candidate, zq_pow z chain_exp_root).
Proof. exact relevant_powers_spec. Qed.
Print Assumptions C17_relevant_powers.

(* 0 for 0; and whenever a root is returned it squares to the input, provided the dyadic
   step is sound (w returned for rho only if w^2 rho = 1) *)
Theorem C17_sqrt_sound : forall z y : Fp,
  (zval z = 0 -> sqrt_precomp z = Some zq_zero)
  /\ (dyadic_sound -> sqrt_precomp z = Some y -> zq_mul y y = z).
Proof. intros z y. exact (conj (sqrt_precomp_zero_only z) (sqrt_precomp_sound z y)). Qed.
Print Assumptions C17_sqrt_sound.

(* point recovery: nil exactly when the root is nil; otherwise x is kept and y is the
   lexicographically larger root iff requested *)
Theorem C17_get_point_from_x : forall x b,
  (get_point_from_x x b = None <-> sqrt_precomp (zq_div (zq_sub (zq_mul (zq_mul x x) bw_a) zq_one)
                                                     (zq_sub (zq_mul (zq_mul x x) bw_d) zq_one)) = None)
  /\ (forall px py, get_point_from_x x b = Some (px, py) ->
        px = x /\ (zval py <> 0 -> zq_lex_largest py = b)).
Proof. exact get_point_from_x_spec. Qed.
Print Assumptions C17_get_point_from_x.

(* ... and the recovered point lies on the curve (sound square root, invertible denominator) *)
Theorem C17_recovered_point_on_curve : forall (x y : Fp) b,
  dyadic_sound ->
  Proofs.AlgLaws.invertible fpo (zq_sub (zq_mul (zq_mul x x) bw_d) zq_one) ->
  compute_y x b = Some y ->
  zq_add (zq_mul bw_a (zq_mul x x)) (zq_mul y y) = zq_add zq_one (zq_mul (zq_mul bw_d (zq_mul x x)) (zq_mul y y)).
Proof. exact compute_y_on_curve. Qed.
Print Assumptions C17_recovered_point_on_curve.

(* the 256 keys of the dlog look-up table are pairwise distinct (finite, by computation) *)
Theorem C17_lut_keys_distinct : length lut_keys = 256%nat /\ all_distinct lut_keys = true.
Proof. exact lut_keys_distinct. Qed.
Print Assumptions C17_lut_keys_distinct.
