(* C20 - the parallel range splitter covers every index exactly once.
   This file contains only the property theorems. *)
From Coq Require Import ZArith List.
From GoIpa Require Import Model.Parallel Proofs.ParallelProofs.
Import ListNotations.
Open Scope Z_scope.

(* For every n >= 0 and every worker limit m >= 1 the ranges handed to the work
   function are non-empty, contiguous from 0 to n (hence disjoint, union = [0,n),
   every index covered exactly once, none outside), there are exactly min(n,m) of
   them, they are within bounds and their sizes differ by at most one. *)
Theorem C20_ranges_partition :
  forall n m, 0 <= n -> 1 <= m -> ranges_spec n m (execute_ranges n m).
Proof. exact execute_ranges_spec. Qed.
Print Assumptions C20_ranges_partition.

(* For every task list and every schedule of spawn / finish / return steps:
   if Execute has returned then every spawned work function has returned. *)
Theorem C20_returns_after_all_tasks :
  forall all ls s, jrun (jinit all) ls = Some s -> returned s = true ->
  forall t, In t all -> In t (finished s).
Proof. exact execute_joins. Qed.
Print Assumptions C20_returns_after_all_tasks.

(* ... and it never blocks forever: every reachable non-returned state can step. *)
Theorem C20_join_no_deadlock :
  forall all ls s, jrun (jinit all) ls = Some s -> returned s = false ->
  exists l s', jstep s l = Some s'.
Proof. exact execute_progress. Qed.
Print Assumptions C20_join_no_deadlock.

(* non-vacuity: concrete instances *)
Example C20_example_ranges : execute_ranges 10 4 = [(0,3);(3,6);(6,8);(8,10)].
Proof. reflexivity. Qed.
Example C20_example_more_workers : execute_ranges 3 16 = [(0,1);(1,2);(2,3)].
Proof. reflexivity. Qed.
Example C20_example_join :
  exists s, jrun (jinit [0;1]%nat) [JSpawn; JSpawn; JFinish 1%nat; JFinish 0%nat; JReturn] = Some s
            /\ returned s = true.
Proof. eexists; split; reflexivity. Qed.
