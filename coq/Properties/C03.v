(* C03 - proof bytes are a deterministic function of the inputs.
   The model of CreateMultiProof takes the number of workers and the arrival order of
   their results as explicit parameters; the theorem says the WHOLE result (proof, final
   transcript state, or error) is the same for every worker count >= 1 and every arrival
   order, for all inputs.  "No dependence on earlier calls" is a consequence of the model
   being a function of its arguments (the tie to the code for that part is C13's history
   check); "equals the specification byte for byte" is the correspondence itself (the
   extracted model is the independent implementation, anchored by the published vectors). *)
From Coq Require Import ZArith List Permutation.
From GoIpa Require Import Model.Bytes Model.Alg Model.Transcript Model.Bary Model.Banderwagon Model.IPA Model.Multiproof
  Proofs.AlgLaws Proofs.GroupingProofs Proofs.MultiproofProofs Proofs.ReprProofs.
Import ListNotations.

Theorem C03_create_schedule_independent :
  forall (F G : Type) (fo : FOps F) (go : GOps F G) (hashf : list Z -> list Z), FieldLaws fo ->
  forall nw arrival t cfg commit cs fs zs,
    (1 <= nw)%nat -> Permutation arrival (seq 0 nw) ->
    mp_create fo go hashf nw arrival t cfg commit cs fs zs
    = mp_create fo go hashf 1 [0%nat] t cfg commit cs fs zs.
Proof. intros F G fo go hashf FL. exact (mp_create_schedule_independent fo go hashf FL). Qed.
Print Assumptions C03_create_schedule_independent.

(* the grouping step itself: equal to the sequential aggregation sum_{i : z_i = z} r^i f_i,
   slot empty iff no opening uses z - no opening lost when len mod numWorkers <> 0 or
   numWorkers > len *)
Theorem C03_grouping_schedule_independent :
  forall (F : Type) (fo : FOps F), FieldLaws fo ->
  forall n nw arrival ops, (1 <= nw)%nat -> Permutation arrival (seq 0 nw) -> ops_ok n ops ->
    group_polys fo n nw arrival ops = group_spec fo n ops.
Proof. intros F fo FL. exact (group_polys_schedule_independent fo FL). Qed.
Print Assumptions C03_grouping_schedule_independent.

(* two different schedules of a concrete instance (3 workers, 5 openings) agree *)
Example C03_example_permutation : Permutation [2; 0; 1]%nat (seq 0 3).
Proof. apply Permutation_sym. change (seq 0 3) with [0;1;2]%nat.
       apply perm_trans with [0;2;1]%nat; [apply perm_skip, perm_swap|].
       apply perm_trans with [2;0;1]%nat; [apply perm_swap|apply Permutation_refl]. Qed.

(* the proof depends on the given commitments only as group elements: replacing them by
   elements with the same encoding (any equivalent representation) gives the same result *)
Theorem C03_create_representation_independent :
  forall (F G : Type) (fo : FOps F) (go : GOps F G) (hashf : list Z -> list Z) (eqv : G -> G -> Prop),
  (forall a a', eqv a a' -> genc go a = genc go a') ->
  forall nw arrival t cfg commit cs cs' fs zs, Forall2 eqv cs cs' ->
    mp_create fo go hashf nw arrival t cfg commit cs fs zs = mp_create fo go hashf nw arrival t cfg commit cs' fs zs.
Proof. intros F G fo go hashf eqv H. exact (mp_create_compat fo go hashf eqv H). Qed.
Print Assumptions C03_create_representation_independent.
