(* C06 - untrusted point decoding accepts exactly canonical subgroup encodings.
   accepts32 / accepts64 are the exact (decidable) acceptance conditions:
   right length, canonical coordinate (< p), computeY finds a root (point on the curve),
   subgroup test Legendre(1 - a x^2) = 1, and for the uncompressed form the y bytes equal
   the canonical encoding of the lexicographically largest root.
   NOT proved here (premises / correspondence): that computeY's root really squares to
   (a x^2 - 1)/(d x^2 - 1) (C17's sqrt soundness) and that accepted elements have order
   dividing r (needs point counting). *)
From Coq Require Import ZArith List.
From GoIpa Require Import Model.Bytes Model.Zq Model.Alg Model.Edwards Model.FpSqrt Model.Banderwagon
  Proofs.BytesProofs Proofs.DecodeProofs.
Open Scope Z_scope.

(* compressed form: accepted iff the acceptance predicate holds; total otherwise *)
Theorem C06_compressed_accepts_exactly : forall b P,
  (bw_set_bytes b false = inl P <-> accepts32 b false = Some P)
  /\ ((exists Q, bw_set_bytes b false = inl Q) \/ (exists e, bw_set_bytes b false = inr e)).
Proof. intros b P. exact (conj (bw_set_bytes_accepts_iff b false P) (bw_set_bytes_total b false)). Qed.
Print Assumptions C06_compressed_accepts_exactly.

(* each failing condition yields its error (wrong length, x >= p, not on curve, not in subgroup) *)
Theorem C06_compressed_rejections : forall b,
  (len b <> 32 -> bw_set_bytes b false = inr ErrSize)
  /\ (len b = 32 -> p_mod <= be_val b -> bw_set_bytes b false = inr ErrNonCanonical)
  /\ (len b = 32 -> be_val b < p_mod -> compute_y (fp (be_val b)) true = None ->
      bw_set_bytes b false = inr ErrNotOnCurve)
  /\ (len b = 32 -> be_val b < p_mod -> compute_y (fp (be_val b)) true <> None ->
      subgroup_check (fp (be_val b)) = false -> bw_set_bytes b false = inr ErrSubgroup).
Proof. exact bw_set_bytes_rejects. Qed.
Print Assumptions C06_compressed_rejections.

(* accepted input: Z = 1, x is the encoded integer, subgroup predicate holds *)
Theorem C06_decoded_element : forall b X Y Z,
  bw_set_bytes b false = inl (X, Y, Z) ->
  Z = zq_one /\ X = fp (be_val b) /\ be_val b < p_mod /\ len b = 32
  /\ subgroup_check X = true /\ compute_y X true = Some Y.
Proof. exact bw_set_bytes_result. Qed.
Print Assumptions C06_decoded_element.

(* accepted input re-encodes to exactly the same bytes; hence no element has two
   accepted encodings *)
Theorem C06_reencode_and_no_alias : forall b1 b2 X Y Z,
  bytes_ok b1 -> bytes_ok b2 -> zval Y <> 0 ->
  bw_set_bytes b1 false = inl (X, Y, Z) ->
  bw_bytes (X, Y, Z) = b1 /\ (bw_set_bytes b2 false = inl (X, Y, Z) -> b1 = b2).
Proof.
  intros b1 b2 X Y Z H1 H2 Hy E1. split.
  - exact (bw_set_bytes_reencode b1 false X Y Z H1 E1 Hy).
  - intros E2. exact (bw_set_bytes_injective b1 b2 X Y Z H1 H2 Hy E1 E2).
Qed.
Print Assumptions C06_reencode_and_no_alias.

(* uncompressed untrusted form (repaired decoder: canonical x) *)
Theorem C06_uncompressed_accepts_exactly_and_reencodes : forall b X Y Z,
  (bw_set_bytes_uncompressed true b false = inl (X, Y, Z) <-> accepts64 b = Some (X, Y, Z))
  /\ (bytes_ok b -> bw_set_bytes_uncompressed true b false = inl (X, Y, Z) ->
      bw_bytes_uncompressed (X, Y, Z) = b).
Proof.
  intros b X Y Z.
  exact (conj (bw_set_bytes_uncompressed_accepts_iff b (X, Y, Z)) (bw_set_bytes_uncompressed_reencode b X Y Z)).
Qed.
Print Assumptions C06_uncompressed_accepts_exactly_and_reencodes.

(* finding F2 (fixed in /repo): for b = BE(x_G + p) || BE(y_G'), the pinned decoder
   (reducing x) accepts b although its x part is >= p, the result re-encodes to different
   bytes, and the repaired decoder rejects b as non-canonical.  f2_check is that
   conjunction as a boolean, evaluated by the kernel's VM. *)
Theorem C06_pinned_uncompressed_decoder_refuted : f2_check = true.
Proof. exact f2_check_true. Qed.
Print Assumptions C06_pinned_uncompressed_decoder_refuted.
