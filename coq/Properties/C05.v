(* C05 - Pedersen commitment = sum_i v_i G_i, linear.
   Algorithm level: Model/Precomp.v mirrors banderwagon/precomp.go (table construction by
   repeated addition, window loop with carry and negation, 16-bit windows for the first 5
   points and 8-bit windows otherwise, zero scalars skipped).  Abstract module (GroupLaws)
   whose scalar ring receives the integers by a ring morphism fofz. *)
From Coq Require Import ZArith List.
From GoIpa Require Import Model.Alg Model.Pippenger Model.Precomp Proofs.AlgLaws Proofs.IPAProofs
  Proofs.PippengerProofs Proofs.MsmProofs Proofs.PrecompProofs.
From GoIpa Require Model.FpSqrt Proofs.ZqField.
Import ListNotations.
Open Scope Z_scope.

(* the window recoding: for every window width dividing 256 (8 and 16 in the code) and every
   canonical scalar, no carry is left, the signed digits represent the scalar, and every
   digit indexes inside a table of 2^(w-1) entries (positive d -> entry d-1 <= 2^(w-1)-1,
   negative d -> entry -d-1 <= 2^(w-1)-2) *)
Theorem C05_window_recoding : forall w s,
  1 <= w -> w * (256 / w) = 256 -> 0 <= s < 2 ^ 253 ->
  let '(ds, cf) := pc_digits w s in
  cf = 0 /\ digits_val w ds = s
  /\ Forall (fun d => - (2 ^ (w - 1) - 1) <= d <= 2 ^ (w - 1)) ds
  /\ length ds = pc_nwindows w.
Proof. exact pc_digits_spec. Qed.
Print Assumptions C05_window_recoding.

Section C05.
  Context {F G : Type} (fo : FOps F) (go : GOps F G) (FL : FieldLaws fo) (GL : GroupLaws fo go).
  Hypothesis fofz_add : forall a b, fofz fo (a + b) = fadd fo (fofz fo a) (fofz fo b).
  Hypothesis fofz_mul : forall a b, fofz fo (a * b) = fmul fo (fofz fo a) (fofz fo b).
  Hypothesis fofz_1 : fofz fo 1 = f1 fo.

  (* table construction: window k, entry j is (j+1) * 2^(w k) * P *)
  Theorem C05_table_construction : forall nw w base k j, 0 <= w ->
    (k < nw)%nat -> (j < Z.to_nat (2 ^ (w - 1)))%nat ->
    nth j (nth k (pc_table fo go nw w base) []) (g0 go)
    = gmul go (fofz fo ((Z.of_nat j + 1) * 2 ^ (w * Z.of_nat k))) base.
  Proof. intros nw w base k j Hw. exact (pc_table_nth fo go GL fofz_add fofz_mul fofz_1 nw w Hw base k j). Qed.

  (* PrecompPoint.ScalarMul adds exactly s * P to the accumulator *)
  Theorem C05_precomp_scalar_mul : forall w P s res,
    1 <= w -> w * (256 / w) = 256 -> 0 <= s < 2 ^ 253 ->
    pc_scalar_mul go w (pc_table fo go (pc_nwindows w) w P) s res = gadd go res (gmul go (fofz fo s) P).
  Proof. exact (pc_scalar_mul_spec fo go FL GL fofz_add fofz_mul fofz_1). Qed.

  (* MSMPrecomp.MSM = sum_i s_i P_i for every vector (any length, zeros skipped) *)
  Theorem C05_msm_precomp : forall points ss,
    Forall (fun s => 0 <= s < 2 ^ 253) ss ->
    pc_msm go (pc_msm_tables fo go points) ss (g0 go) = msm go points (map (fofz fo) ss).
  Proof.
    intros points ss H. rewrite (pc_msm_spec fo go FL GL fofz_add fofz_mul fofz_1 points ss H).
    apply (msmzv_msm fo go).
  Qed.

  (* linearity: Commit(a+b) = Commit(a) + Commit(b), Commit(k a) = k Commit(a) *)
  Theorem C05_commit_linear : forall srs a b k,
    (length a = length srs -> length b = length srs ->
       msm go srs (vadd fo a b) = gadd go (msm go srs a) (msm go srs b))
    /\ msm go srs (vscale fo k a) = gmul go k (msm go srs a).
  Proof.
    intros srs a b k. split.
    - exact (commit_add fo go GL srs a b).
    - exact (commit_scale fo go GL srs k a).
  Qed.
End C05.
Print Assumptions C05_table_construction.
Print Assumptions C05_precomp_scalar_mul.
Print Assumptions C05_msm_precomp.
Print Assumptions C05_commit_linear.

Example C05_example_recoding :
  pc_digits 8 0xffff = ([-1; 0; 1; 0; 0; 0; 0; 0; 0; 0; 0; 0; 0; 0; 0; 0; 0; 0; 0; 0; 0; 0; 0; 0; 0; 0; 0; 0; 0; 0; 0; 0], 0).
Proof. vm_compute. reflexivity. Qed.

(* the scalar-side premises of the theorems above hold for the concrete scalar field *)
Theorem C05_concrete_scalar_premises :
  (forall a b, fofz FpSqrt.fro (a + b) = fadd FpSqrt.fro (fofz FpSqrt.fro a) (fofz FpSqrt.fro b))
  /\ (forall a b, fofz FpSqrt.fro (a * b) = fmul FpSqrt.fro (fofz FpSqrt.fro a) (fofz FpSqrt.fro b))
  /\ fofz FpSqrt.fro 1 = f1 FpSqrt.fro
  /\ FieldLaws FpSqrt.fro.
Proof. exact (conj (proj1 ZqField.fro_fofz_morphism) (conj (proj1 (proj2 ZqField.fro_fofz_morphism)) (conj (proj2 (proj2 ZqField.fro_fofz_morphism)) ZqField.fr_field_laws))). Qed.
Print Assumptions C05_concrete_scalar_premises.
