(* C15 - scalar-field arithmetic agrees with integer arithmetic modulo r.
   Three levels: the portable limb functions of bandersnatch/fr (Model/Mont.v,
   the _generic functions, transcribed line by line), the same operations on Montgomery
   representatives as integers (the i_ functions), and the represented residue fm x = x/R mod r.
   Every statement is for ALL operands.  This file contains only property theorems. *)
From Coq Require Import ZArith List.
From GoIpa Require Import Model.Alg Model.Mont Model.Banderwagon Proofs.MontProofs Proofs.MontLink Proofs.AlgLaws.
Open Scope Z_scope.

(* the constants of the implementation are the right ones *)
Theorem C15_constants :
  lval (q0, q1, q2, q3) = qmod /\ qmod < 2 ^ 253 /\ (qInvNeg * q0) mod W = W - 1
  /\ (Rm * Rinv) mod qmod = 1 /\ i_from_mont i_one = 1.
Proof. exact (conj lval_q (conj qmod_lt (conj qinv_spec (conj Rinv_spec fm_one)))). Qed.
Print Assumptions C15_constants.

(* limb-level Add/Sub/Neg/Double/Butterfly: for all reduced operands the result is
   well-formed and is the integer result modulo r, hence fully reduced *)
Theorem C15_limb_additive : forall x y,
  limbs_ok x -> limbs_ok y -> lval x < qmod -> lval y < qmod ->
  (limbs_ok (add_generic x y) /\ lval (add_generic x y) = (lval x + lval y) mod qmod)
  /\ (limbs_ok (sub_generic x y) /\ lval (sub_generic x y) = (lval x - lval y) mod qmod)
  /\ (limbs_ok (neg_generic x) /\ lval (neg_generic x) = (- lval x) mod qmod)
  /\ (limbs_ok (double_generic x) /\ lval (double_generic x) = (2 * lval x) mod qmod)
  /\ (lval (fst (butterfly_generic x y)) = (lval x + lval y) mod qmod
      /\ lval (snd (butterfly_generic x y)) = (lval x - lval y) mod qmod).
Proof.
  intros x y Hx Hy Lx Ly.
  exact (conj (add_generic_correct x y Hx Hy Lx Ly) (conj (sub_generic_correct x y Hx Hy Lx Ly)
        (conj (neg_generic_correct x Hx Lx) (conj (double_generic_correct x Hx Lx)
        (butterfly_generic_eq_i x y Hx Hy Lx Ly))))).
Qed.
Print Assumptions C15_limb_additive.

(* limb-level Montgomery multiplication (4 CIOS rounds + final reduction) and
   conversion out of Montgomery form: reduced, and equal to x*y/R resp. x/R mod r *)
Theorem C15_limb_mul : forall x y,
  limbs_ok x -> limbs_ok y -> lval x < qmod -> lval y < qmod ->
  limbs_ok (mul_generic x y) /\ lval (mul_generic x y) < qmod
  /\ (lval (mul_generic x y) * 2 ^ 256) mod qmod = (lval x * lval y) mod qmod
  /\ lval (mul_generic x y) = i_mul (lval x) (lval y).
Proof.
  intros x y Hx Hy Lx Ly.
  destruct (mul_generic_correct x y Hx Hy Lx Ly) as (A & B & C).
  destruct (mul_generic_eq_i_mul x y Hx Hy Lx Ly) as (_ & D).
  exact (conj A (conj B (conj C D))).
Qed.
Print Assumptions C15_limb_mul.

Theorem C15_limb_from_mont : forall z,
  limbs_ok z -> lval z < qmod ->
  limbs_ok (from_mont_generic z) /\ lval (from_mont_generic z) < qmod
  /\ lval (from_mont_generic z) = i_from_mont (lval z).
Proof.
  intros z Hz Lz.
  destruct (from_mont_generic_correct z Hz Lz) as (A & B & _).
  destruct (from_mont_generic_eq_i z Hz Lz) as (_ & D).
  exact (conj A (conj B D)).
Qed.
Print Assumptions C15_limb_from_mont.

(* the represented value: from_mont is a ring isomorphism from Montgomery
   representatives onto the integers modulo r *)
Theorem C15_represented_value_ring : forall x y,
  i_from_mont (i_add x y) = (i_from_mont x + i_from_mont y) mod qmod
  /\ i_from_mont (i_sub x y) = (i_from_mont x - i_from_mont y) mod qmod
  /\ i_from_mont (i_neg x) = (- i_from_mont x) mod qmod
  /\ i_from_mont (i_double x) = (2 * i_from_mont x) mod qmod
  /\ i_from_mont (i_mul x y) = (i_from_mont x * i_from_mont y) mod qmod
  /\ i_from_mont (i_to_mont x) = x mod qmod
  /\ (0 <= x < qmod -> i_to_mont (i_from_mont x) = x).
Proof.
  intros x y.
  exact (conj (fm_add x y) (conj (fm_sub x y) (conj (fm_neg x) (conj (fm_double x)
        (conj (fm_mul x y) (conj (fm_to_mont x) (to_mont_fm x))))))).
Qed.
Print Assumptions C15_represented_value_ring.

(* Exp (square-and-multiply over the bits of ANY exponent) *)
Theorem C15_exp : forall x e, 0 <= e -> i_from_mont (i_exp x e) = (i_from_mont x ^ e) mod qmod.
Proof. exact fm_exp. Qed.
Print Assumptions C15_exp.

(* Inverse: inverse of 0 is 0; whenever the represented value is invertible the
   result represents an inverse (no primality assumption) *)
Theorem C15_inverse : forall x,
  i_inverse 0 = 0
  /\ forall b, (i_from_mont x * b) mod qmod = 1 -> (i_from_mont x * i_from_mont (i_inverse x)) mod qmod = 1.
Proof. intros x. exact (conj i_inverse_zero (fm_inverse x)). Qed.
Print Assumptions C15_inverse.

(* Sqrt (Tonelli-Shanks as coded, on Montgomery representatives): whenever the loop branch
   returns a root its square is the input, for EVERY input (no primality assumed); the
   zero branch returns 0.  "nil exactly for non-residues" needs r prime: correspondence. *)
Theorem C15_sqrt_sound : forall x y, i_sqrt x = Some y ->
  (i_from_mont y * i_from_mont y) mod qmod = i_from_mont x
  \/ (y = 0 /\ i_sqn (i_mul (i_exp x sqrt_s_exp) (i_mul x (i_exp x sqrt_s_exp))) 4 = 0).
Proof. exact i_sqrt_sound. Qed.
Print Assumptions C15_sqrt_sound.

(* small-constant multiplications, comparison, lexicographic test *)
Theorem C15_misc : forall c x y, 0 <= c ->
  i_from_mont (i_mul_by c x) = (c * i_from_mont x) mod qmod
  /\ i_cmp x y = (if i_from_mont x <? i_from_mont y then -1 else if i_from_mont y <? i_from_mont x then 1 else 0)
  /\ i_lex_largest x = ((qmod - 1) / 2 <? i_from_mont x).
Proof. intros c x y Hc. exact (conj (fm_mul_by c x Hc) (conj (i_cmp_spec x y) (i_lex_largest_spec x))). Qed.
Print Assumptions C15_misc.

(* BatchInvert (prefix products, zero skipping): for EVERY list, any length, zeros
   anywhere, equal to element-wise inversion with inv 0 = 0, over any field-like ring *)
Theorem C15_batch_invert : forall (F : Type) (fo : FOps F), FieldLaws fo ->
  forall l : list F, all_nz_invertible fo l ->
  batch_invert fo l = map (inv0 fo) l /\ length (batch_invert fo l) = length l.
Proof. intros F fo FL l H. exact (conj (batch_invert_correct fo FL l H) (batch_invert_length fo FL l)). Qed.
Print Assumptions C15_batch_invert.

(* non-vacuity *)
Example C15_example_mul :
  let x := limbs_of (qmod - 1) in let y := limbs_of (qmod - 2) in
  lval (mul_generic x y) = i_mul (qmod - 1) (qmod - 2) /\ i_from_mont (i_mul (i_to_mont 3) (i_to_mont 5)) = 15.
Proof. vm_compute. split; reflexivity. Qed.
