(* C01 - multiproof completeness.
   PARTIAL (DESIGN.md 6.1): proved for all inputs: (1) the grouping of openings by
   evaluation point is independent of the number of workers and of the arrival order of
   their results and loses no opening; (2) hence CreateMultiProof is independent of the
   schedule; (3) the inner IPA argument is complete for every vector length 2^k, every
   evaluation point and every transcript state, prover and verifier ending in the same
   transcript state; (4) shape errors.  NOT proved: the algebraic identity
   <h - g, b(t)> = g_2(t) - g_1(t) linking DivideOnDomain to the verifier's g_2(t)
   (needs the barycentric interpolation theorem, C18 partial).  End-to-end acceptance of
   honest statements in all the listed shapes is decided by correspondence. *)
From Coq Require Import ZArith List Permutation Arith.
From GoIpa Require Import Model.Bytes Model.Alg Model.Transcript Model.Bary Model.Banderwagon Model.IPA Model.Multiproof
  Proofs.AlgLaws Proofs.GroupingProofs Proofs.MultiproofProofs Proofs.IPAProofs.
Import ListNotations.

Theorem C01_grouping_loses_nothing :
  forall (F : Type) (fo : FOps F), FieldLaws fo ->
  forall n nw arrival ops, (1 <= nw)%nat -> Permutation arrival (seq 0 nw) -> ops_ok n ops ->
    group_polys fo n nw arrival ops = group_spec fo n ops.
Proof. intros F fo FL. exact (group_polys_schedule_independent fo FL). Qed.
Print Assumptions C01_grouping_loses_nothing.

Theorem C01_create_schedule_independent :
  forall (F G : Type) (fo : FOps F) (go : GOps F G) (hashf : list Z -> list Z), FieldLaws fo ->
  forall nw arrival t cfg commit cs fs zs,
    (1 <= nw)%nat -> Permutation arrival (seq 0 nw) ->
    mp_create fo go hashf nw arrival t cfg commit cs fs zs
    = mp_create fo go hashf 1 [0%nat] t cfg commit cs fs zs.
Proof. intros F G fo go hashf FL. exact (mp_create_schedule_independent fo go hashf FL). Qed.
Print Assumptions C01_create_schedule_independent.

Theorem C01_inner_ipa_complete :
  forall (F G : Type) (fo : FOps F) (go : GOps F G) (hashf : list Z -> list Z),
  FieldLaws fo -> GroupLaws fo go -> (forall x, geqb go x x = true) ->
  forall t cfg a z k,
    c_rounds cfg = k -> length (c_srs cfg) = (2 ^ k)%nat -> length a = (2 ^ k)%nat ->
    length (compute_b fo cfg z) = (2 ^ k)%nat ->
    let c := msm go (c_srs cfg) a in
    let res := inner fo a (compute_b fo cfg z) in
    exists t' pr,
      ipa_create fo go hashf t cfg c a z = Some (t', pr)
      /\ length (pL pr) = k /\ length (pR pr) = k
      /\ (Forall (invertible fo) (ipa_challenges fo go hashf t cfg c pr z res) ->
          ipa_check fo go hashf t cfg c pr z res = Some (t', true)).
Proof. intros F G fo go hashf FL GL Hr. exact (ipa_complete fo go hashf FL GL Hr). Qed.
Print Assumptions C01_inner_ipa_complete.
