(* C01 - multiproof completeness.
   Main theorem C01_multiproof_complete: for EVERY non-empty list of honest openings
   (any number, any repetition pattern of the z_i, any polynomials), every worker count and
   arrival order, every transcript state and label, CreateMultiProof succeeds and
   CheckMultiProof run on the same transcript state accepts, both ending in the same
   transcript state (hence the same next challenge).  Abstract field with partial inverse
   (FieldLaws) and abstract module (GroupLaws), domain size 2^k for every k.
   Premises, all explicit: the group laws; differences of domain nodes invertible and the
   embedding of naturals additive (both PROVED for Fr, n = 256: C18_concrete_premises);
   and the run-time-decidable side conditions on the challenges actually drawn: t is not
   in the domain (t - i invertible, canonical value above n-1) and the k IPA round
   challenges are invertible.  Commitments are taken as the group elements Commit(f_i);
   independence of their representation is C07/C08.
   The group laws hold in an abstract group, not on projective REPRESENTATIONS up to Leibniz
   equality.  C01_complete_on_representations closes that gap: for any implementation go1 of
   the group interface (the code's coordinate-level operations) related to a lawful group go2
   by a relation that the operations preserve and that encoding and Equal respect, the
   prover run on representations produces the same transcript, the same scalars and related
   group elements, and the verifier run on representations accepts.  What remains a premise
   for Banderwagon is the existence of that relation (the curve group and "the formulas
   compute it": C08 proves the parts reachable by ring reasoning). *)
From Coq Require Import ZArith List Permutation Arith.
From GoIpa Require Import Model.Bytes Model.Alg Model.Transcript Model.Bary Model.Banderwagon Model.IPA Model.Multiproof
  Proofs.AlgLaws Proofs.GroupingProofs Proofs.MultiproofProofs Proofs.IPAProofs Proofs.BaryProofs Proofs.MultiproofComplete Proofs.Transfer.
Import ListNotations.

Theorem C01_grouping_loses_nothing :
  forall (F : Type) (fo : FOps F), FieldLaws fo ->
  forall n nw arrival ops, (1 <= nw)%nat -> Permutation arrival (seq 0 nw) -> ops_ok n ops ->
    group_polys fo n nw arrival ops = group_spec fo n ops.
Proof. intros F fo FL. exact (group_polys_schedule_independent fo FL). Qed.
Print Assumptions C01_grouping_loses_nothing.

Theorem C01_create_schedule_independent :
  forall (F G : Type) (fo : FOps F) (go : GOps F G) (hashf : list Z -> list Z), FieldLaws fo ->
  forall nw arrival t cfg commit cs fs zs,
    (1 <= nw)%nat -> Permutation arrival (seq 0 nw) ->
    mp_create fo go hashf nw arrival t cfg commit cs fs zs
    = mp_create fo go hashf 1 [0%nat] t cfg commit cs fs zs.
Proof. intros F G fo go hashf FL. exact (mp_create_schedule_independent fo go hashf FL). Qed.
Print Assumptions C01_create_schedule_independent.

Theorem C01_inner_ipa_complete :
  forall (F G : Type) (fo : FOps F) (go : GOps F G) (hashf : list Z -> list Z),
  FieldLaws fo -> GroupLaws fo go -> (forall x, geqb go x x = true) ->
  forall t cfg a z k,
    c_rounds cfg = k -> length (c_srs cfg) = (2 ^ k)%nat -> length a = (2 ^ k)%nat ->
    length (compute_b fo cfg z) = (2 ^ k)%nat ->
    let c := msm go (c_srs cfg) a in
    let res := inner fo a (compute_b fo cfg z) in
    exists t' pr,
      ipa_create fo go hashf t cfg c a z = Some (t', pr)
      /\ length (pL pr) = k /\ length (pR pr) = k
      /\ (Forall (invertible fo) (ipa_challenges fo go hashf t cfg c pr z res) ->
          ipa_check fo go hashf t cfg c pr z res = Some (t', true)).
Proof. intros F G fo go hashf FL GL Hr. exact (ipa_complete fo go hashf FL GL Hr). Qed.
Print Assumptions C01_inner_ipa_complete.

Theorem C01_multiproof_complete :
  forall (F G : Type) (fo : FOps F) (go : GOps F G) (hashf : list Z -> list Z),
  FieldLaws fo -> GroupLaws fo go -> (forall x, geqb go x x = true) ->
  (forall i j, dom fo (i + j) = fadd fo (dom fo i) (dom fo j)) ->
  forall (k : nat) (cfg : config (F := F) (G := G)),
    c_n cfg = (2 ^ k)%nat -> c_rounds cfg = k -> length (c_srs cfg) = (2 ^ k)%nat ->
    c_w cfg = new_weights fo (2 ^ k) -> nodes_ok fo (2 ^ k) ->
  forall nw arrival t (fs : list (list F)) (zs : list nat),
    (1 <= nw)%nat -> Permutation arrival (seq 0 nw) ->
    fs <> [] -> length zs = length fs ->
    Forall (fun f => length f = (2 ^ k)%nat) fs -> Forall (fun z => (z < 2 ^ k)%nat) zs ->
    let commit := msm go (c_srs cfg) in
    let cs := map commit fs in
    let ys := map (fun fz : list F * nat => nth (snd fz) (fst fz) (f0 fo)) (combine fs zs) in
    match mp_create fo go hashf nw arrival t cfg commit cs fs zs with
    | inr _ => False
    | inl (t', pr) =>
        let '(t4, tch, EmD, g2t) := mp_view fo go hashf cfg t pr cs ys zs in
        off_domain fo (2 ^ k) tch -> (Z.of_nat (2 ^ k) - 1 < f2z fo tch)%Z ->
        Forall (invertible fo) (ipa_challenges fo go hashf t4 cfg EmD (mpIPA pr) tch g2t) ->
        mp_check fo go hashf t cfg pr cs ys zs = Some (t', true)
    end.
Proof.
  intros F G fo go hashf FL GL Hr Hd k cfg H1 H2 H3 H4 H5.
  exact (mp_complete fo go hashf FL GL Hr Hd k cfg H1 H2 H3 H4 H5).
Qed.
Print Assumptions C01_multiproof_complete.

(* non-vacuity: a toy instance (Z/101 as a module over itself, domain of 4 points, 2 IPA
   rounds, toy hash) where an honest 3-opening statement with a repeated evaluation point
   is proved with 2 workers and verified, evaluated in the kernel *)
From GoIpa Require Import Model.Zq.
Definition toy_fo : FOps (Zq 101) :=
  mkFOps (Zq 101) zq_zero zq_one zq_add zq_sub zq_mul zq_neg zq_inv zq_eqb (zq_of_Z 101) zval.
Definition toy_hash (l : list Z) : list Z := [(fold_left Z.add l 11) mod 256; 1]%Z.
Definition toy_cfg : config (F := Zq 101) (G := Zq 101) :=
  mkCfg 4 2 (map (zq_of_Z 101) [3; 5; 7; 11]%Z) (zq_of_Z 101 13) (new_weights toy_fo 4).
Definition toy_mp_run (lab : Z) : option bool :=
  let fs := map (map (zq_of_Z 101)) [[1; 2; 3; 4]; [0; 0; 9; 0]; [100; 7; 0; 50]]%Z in
  let zs := [2; 0; 2]%nat in
  let commit := msm (fgo toy_fo) (c_srs toy_cfg) in
  let cs := map commit fs in
  let ys := map (fun fz : list (Zq 101) * nat => nth (snd fz) (fst fz) zq_zero) (combine fs zs) in
  match mp_create toy_fo (fgo toy_fo) toy_hash 2 [1; 0]%nat (t_new [lab]) toy_cfg commit cs fs zs with
  | inr _ => None
  | inl (_, pr) =>
      match mp_check toy_fo (fgo toy_fo) toy_hash (t_new [lab]) toy_cfg pr cs ys zs with
      | Some (_, ok) => Some ok
      | None => None
      end
  end.
Example C01_example_toy_multiproof : map toy_mp_run [1; 3; 4; 5; 6]%Z = repeat (Some true) 5.
Proof. vm_compute. reflexivity. Qed.

(* completeness for the run on representations, via any lawful group related to them *)
Theorem C01_complete_on_representations :
  forall (F G1 G2 : Type) (fo : FOps F) (go1 : GOps F G1) (go2 : GOps F G2) (hashf : list Z -> list Z),
  FieldLaws fo -> GroupLaws fo go2 ->
  forall rel : G1 -> G2 -> Prop,
  rel (g0 go1) (g0 go2) ->
  (forall a a' b b', rel a a' -> rel b b' -> rel (gadd go1 a b) (gadd go2 a' b')) ->
  (forall s p p', rel p p' -> rel (gmul go1 s p) (gmul go2 s p')) ->
  (forall a a', rel a a' -> rel (gneg go1 a) (gneg go2 a')) ->
  (forall a a', rel a a' -> genc go1 a = genc go2 a') ->
  (forall a a' b b', rel a a' -> rel b b' -> geqb go1 a b = geqb go2 a' b') ->
  (forall x, geqb go2 x x = true) ->
  (forall i j, dom fo (i + j) = fadd fo (dom fo i) (dom fo j)) ->
  forall k c1 c2 nw arrival t (fs : list (list F)) (zs : list nat),
    cfg_rel rel c1 c2 ->
    c_n c2 = (2 ^ k)%nat -> c_rounds c2 = k -> length (c_srs c2) = (2 ^ k)%nat ->
    c_w c2 = new_weights fo (2 ^ k) -> nodes_ok fo (2 ^ k) ->
    (1 <= nw)%nat -> Permutation arrival (seq 0 nw) ->
    fs <> [] -> length zs = length fs ->
    Forall (fun f => length f = (2 ^ k)%nat) fs -> Forall (fun z => (z < 2 ^ k)%nat) zs ->
    let cs1 := map (msm go1 (c_srs c1)) fs in
    let cs2 := map (msm go2 (c_srs c2)) fs in
    let ys := map (fun fz : list F * nat => nth (snd fz) (fst fz) (f0 fo)) (combine fs zs) in
    match mp_create fo go1 hashf nw arrival t c1 (msm go1 (c_srs c1)) cs1 fs zs,
          mp_create fo go2 hashf nw arrival t c2 (msm go2 (c_srs c2)) cs2 fs zs with
    | inl (t', pr1), inl (t'', pr2) =>
        t' = t'' /\ mp_rel rel pr1 pr2 /\
        (let '(t4, tch, EmD, g2t) := mp_view fo go2 hashf c2 t pr2 cs2 ys zs in
         off_domain fo (2 ^ k) tch -> (Z.of_nat (2 ^ k) - 1 < f2z fo tch)%Z ->
         Forall (invertible fo) (ipa_challenges fo go2 hashf t4 c2 EmD (mpIPA pr2) tch g2t) ->
         mp_check fo go1 hashf t c1 pr1 cs1 ys zs = Some (t', true))
    | _, _ => False
    end.
Proof.
  intros F G1 G2 fo go1 go2 hashf FL GL2 rel H0 Ha Hm Hn He Hq Hr Hd.
  exact (mp_complete_on_representations fo go1 go2 hashf FL GL2 rel H0 Ha Hm Hn He Hq Hr Hd).
Qed.
Print Assumptions C01_complete_on_representations.
