(* C10 - proof (de)serialisation is total, canonical and robust to I/O faults.
   Reader model (Model/Serde.v): a stream, an arbitrary plan of chunk sizes, EOF delivered
   either with the last bytes or on the next call, optionally an I/O error injected at an
   offset.  mp_decode / ipa_decode are the pure specification on byte strings. *)
From Coq Require Import ZArith List.
From GoIpa Require Import Model.Bytes Model.Zq Model.Codec Model.Banderwagon Model.Serde
  Proofs.BytesProofs Proofs.SerdeProofs.
Import ListNotations.
Open Scope Z_scope.

(* MultiProof.Read = pure decoding of the stream content, for EVERY chunk plan and both
   EOF styles; hence the outcome does not depend on the chunking *)
Theorem C10_multiproof_read_refines_spec : forall r,
  r_fail_at r = None -> mp_read true r = mp_decode (r_data r).
Proof. exact mp_read_spec. Qed.
Print Assumptions C10_multiproof_read_refines_spec.

Theorem C10_chunking_independent : forall r1 r2,
  r_fail_at r1 = None -> r_fail_at r2 = None -> r_data r1 = r_data r2 ->
  mp_read true r1 = mp_read true r2.
Proof. exact mp_read_chunking_independent. Qed.
Print Assumptions C10_chunking_independent.

(* accepted strings have exactly 576 bytes (17 points + scalar, nothing after);
   IPAProof.Read consumes exactly 544 bytes and applies the same field validation *)
Theorem C10_accepted_lengths : forall s,
  (forall v, mp_decode s = inl v -> len s = 576)
  /\ (forall ip rest, ipa_decode s = inl (ip, rest) -> len s = 544 + len rest).
Proof. intros s. exact (conj (mp_decode_accepts_only_576 s) (ipa_decode_consumes_544 s)). Qed.
Print Assumptions C10_accepted_lengths.

Theorem C10_ipa_read_refines_spec : forall r, r_fail_at r = None ->
  match ipa_decode (r_data r) with
  | inl (ip, rest) => exists r', ipa_read r = inl (ip, r') /\ r_data r' = rest
  | inr e => ipa_read r = inr e
  end.
Proof. exact ipa_read_spec_full. Qed.
Print Assumptions C10_ipa_read_refines_spec.

(* an I/O error before the last needed byte makes Read fail (any stream, chunking, EOF style) *)
Theorem C10_io_fault_gives_error : forall strict r,
  (avail r < 576 -> exists e, mp_read strict r = inr e)
  /\ (avail r < 544 -> exists e, ipa_read r = inr e).
Proof. intros strict r. exact (conj (mp_read_fault strict r) (ipa_read_fault r)). Qed.
Print Assumptions C10_io_fault_gives_error.

(* Read(Write(p)) = p, and for accepted input Write reproduces the input bytes
   (premises on the point codec: see C06_reencode_and_no_alias) *)
Theorem C10_roundtrips : forall D ip,
  (point_roundtrips D -> Forall point_roundtrips (ibL ip) -> Forall point_roundtrips (ibR ip) ->
   length (ibL ip) = 8%nat -> length (ibR ip) = 8%nat ->
   mp_decode (concat (mp_write_chunks D ip)) = inl (D, ip))
  /\ (point_reencodes -> forall s, bytes_ok s -> mp_decode s = inl (D, ip) ->
      concat (mp_write_chunks D ip) = s).
Proof.
  intros D ip. split.
  - exact (mp_write_read_roundtrip D ip).
  - intros HR s Hs Hd. exact (mp_decode_write HR s D ip Hs Hd).
Qed.
Print Assumptions C10_roundtrips.

(* a writer failing at any of its Write calls makes Write return an error *)
Theorem C10_failing_writer : forall chunks k written, (k < length chunks)%nat ->
  snd (write_all chunks (Some k) written) = true.
Proof. exact write_all_fails. Qed.
Print Assumptions C10_failing_writer.

(* finding F3 (fixed in /repo): for EVERY accepted string s, s ++ [b] delivered with the
   last byte together with io.EOF is accepted by the pinned EOF probe, rejected by the
   specification and by the repaired probe *)
Theorem C10_pinned_eof_probe_refuted : forall s v b plan,
  mp_decode s = inl v ->
  let r := mkR (s ++ [b]) plan true None 0 in
  mp_read false r = inl v /\ mp_decode (s ++ [b]) = inr SErrTrailing /\ mp_read true r = inr SErrTrailing.
Proof. exact mp_read_lax_refuted. Qed.
Print Assumptions C10_pinned_eof_probe_refuted.
