(* C07 - the compressed encoding is canonical.
   Representation level: an element P = (X,Y,Z) represents the affine point p when
   Z is invertible, X = xZ, Y = yZ.  Bytes is shown to be a function of the Banderwagon
   class {(x,y), (-x,-y)} of the represented point only; Equal is an equivalence on
   valid elements, holds between all representations of one class, and is never true
   against the all-zero value.
   C07_equal_iff_bytes proves "Equal <-> equal Bytes" for all valid elements (any two
   representations of curve points with y <> 0) under two EXPLICIT number-theoretic
   premises: p is prime and d is a non-square (stated as: d w^2 <> 1 for every w).
   C07_decode_bytes_roundtrip: decoding P.Bytes() (untrusted decoder) succeeds and gives an
   element with the same encoding, Equal to P, for every valid element - under the same two
   premises plus: the encoded x passes the subgroup test (true on the prime-order subgroup)
   and y^Q lies in the dyadic subgroup (Fermat + cyclic Fp^*, cf. C17).  The non-number-
   theoretic premises are shown to hold for the generator by kernel computation. *)
From Coq Require Import ZArith List.
From GoIpa Require Import Model.Zq Model.Alg Model.Edwards Model.SqrtChain Model.FpSqrt Model.Banderwagon
  Proofs.AlgLaws Proofs.EdwardsProofs Proofs.GroupProofs Proofs.BwProofs Proofs.CanonProofs Proofs.DyadicProofs Proofs.RoundTrip.
Open Scope Z_scope.

(* Bytes does not change under projective rescaling (any invertible factor, incl. the
   Z = 1 fast path) nor when the representation is replaced by the other class member *)
Theorem C07_bytes_depend_on_class_only : forall P Q p q,
  rep fpo P p -> rep fpo Q q -> class_eq fpo p q -> zval (snd p) <> 0 ->
  bw_bytes P = bw_bytes Q /\ bw_bytes P = aff_bytes p /\ length (bw_bytes P) = 32%nat.
Proof.
  intros P Q p q HP HQ C Hy.
  rewrite (bw_bytes_rep P p HP), (bw_bytes_rep Q q HQ).
  refine (conj _ (conj eq_refl _)).
  - destruct C as [->| ->]; [reflexivity|symmetry; exact (aff_bytes_flip p Hy)].
  - rewrite <- (bw_bytes_rep P p HP). apply bw_bytes_length.
Qed.
Print Assumptions C07_bytes_depend_on_class_only.

(* Equal holds between any two representations of class-equal points *)
Theorem C07_equal_on_representations : forall P Q p q,
  rep fpo P p -> rep fpo Q q -> class_eq fpo p q -> nonzero_xy P -> nonzero_xy Q ->
  bw_equal P Q = true.
Proof. exact bw_equal_of_class. Qed.
Print Assumptions C07_equal_on_representations.

(* Equal is reflexive, symmetric and transitive on valid elements *)
Theorem C07_equal_equivalence : forall P Q R,
  (nonzero_xy P -> bw_equal P P = true)
  /\ bw_equal P Q = bw_equal Q P
  /\ ((let '(_, Y, _) := Q in invertible fpo Y) -> nonzero_xy P -> nonzero_xy R ->
      bw_equal P Q = true -> bw_equal Q R = true -> bw_equal P R = true).
Proof. intros P Q R. exact (conj (bw_equal_refl P) (conj (bw_equal_sym P Q) (bw_equal_trans P Q R))). Qed.
Print Assumptions C07_equal_equivalence.

(* ... and never true when one side is the all-zero (uninitialised) value *)
Theorem C07_equal_all_zero_false : forall P Z1,
  bw_equal (zq_zero, zq_zero, Z1) P = false /\ bw_equal P (zq_zero, zq_zero, Z1) = false.
Proof. exact bw_equal_zero_false. Qed.
Print Assumptions C07_equal_all_zero_false.

(* Equal is exactly equality of x/y *)
Theorem C07_equal_iff_same_slope : forall P Q p q,
  rep fpo P p -> rep fpo Q q -> invertible fpo (snd p) -> invertible fpo (snd q) ->
  nonzero_xy P -> nonzero_xy Q ->
  (bw_equal P Q = true <-> bw_map_to_base P = bw_map_to_base Q).
Proof. exact bw_equal_iff_map. Qed.
Print Assumptions C07_equal_iff_same_slope.

(* MAIN: Equal exactly when the compressed encodings are equal *)
Theorem C07_equal_iff_bytes :
  Znumtheory.prime p_mod -> (forall w : Fp, zq_mul bw_d (zq_mul w w) <> zq_one) ->
  forall P Q p q,
    rep fpo P p -> rep fpo Q q -> on_curve_p p -> on_curve_p q ->
    zval (snd p) <> 0 -> zval (snd q) <> 0 -> nonzero_xy P -> nonzero_xy Q ->
    (bw_equal P Q = true <-> bw_bytes P = bw_bytes Q).
Proof. exact equal_iff_bytes. Qed.
Print Assumptions C07_equal_iff_bytes.

Example C07_example :
  let G2 := bw_double bw_generator in
  let G2' := (let '(X, Y, Z) := G2 in (zq_neg X, zq_neg Y, Z)) in
  bw_bytes G2 = bw_bytes G2' /\ bw_equal G2 G2' = true /\ bw_equal G2 bw_generator = false
  /\ bw_bytes G2 <> bw_bytes bw_generator.
Proof. vm_compute. repeat split; discriminate. Qed.

(* Decoding P.Bytes() succeeds and gives an element Equal to P (and with the same bytes) *)
Theorem C07_decode_bytes_roundtrip :
  Znumtheory.prime p_mod -> (forall w : Fp, zq_mul bw_d (zq_mul w w) <> zq_one) ->
  forall P p,
    rep fpo P p -> on_curve_p p -> zval (snd p) <> 0 -> nonzero_xy P ->
    subgroup_check (cx p) = true ->
    in_dyadic (zq_pow (snd p) chain_exp_root) ->
    exists P', bw_set_bytes (bw_bytes P) false = inl P'
               /\ bw_bytes P' = bw_bytes P /\ bw_equal P' P = true.
Proof. exact decode_bytes_roundtrip. Qed.
Print Assumptions C07_decode_bytes_roundtrip.
