(* C13 - operations are pure.
   Model/Store.v: a store = shared configuration (SRS, Q, tables, weights, package-level
   constants) + caller-visible objects; every API call is a record (objects read, objects
   it may write, a function from configuration and read values to written values and
   result).  The theorems are generic over ALL such calls: they lift the one-step frame
   to every finite history and show that a call's result depends only on the
   configuration and the objects it reads.  That each REAL call stays inside its declared
   write set (receivers / outputs; for CreateMultiProof the re-normalised commitments) is
   what the correspondence checks (deep fingerprints before/after every call in random
   histories).  The one permitted effect on inputs, re-normalisation, keeps elements
   Equal with the same Bytes (C19_normal_form). *)
From Coq Require Import List Arith.
From GoIpa Require Import Model.Store Proofs.StoreProofs.
Import ListNotations.

Section C13.
  Context {C V R : Type} (d : V).
  Local Notation call := (call (C := C) (V := V) (R := R)).
  Local Notation store := (store (C := C) (V := V)).

  (* one call: configuration unchanged, no object created or destroyed, every object
     outside the declared write set unchanged *)
  Theorem C13_step_frame : forall (s : store) (k : call),
    fst (fst (step d s k)) = fst s
    /\ length (snd (fst (step d s k))) = length (snd s)
    /\ forall i, ~ In i (c_writes k) -> nth i (snd (fst (step d s k))) d = nth i (snd s) d.
  Proof. exact (step_frame d). Qed.

  (* every finite history: the configuration is never modified; an object that no call of
     the history declares as written is never modified *)
  Theorem C13_history_frame : forall (ks : list call) (s : store),
    fst (fst (run d s ks)) = fst s
    /\ length (snd (fst (run d s ks))) = length (snd s)
    /\ forall i, (forall k, In k ks -> ~ In i (c_writes k)) -> nth i (snd (fst (run d s ks))) d = nth i (snd s) d.
  Proof. exact (history_frame d). Qed.

  (* the result of any call (and of any script) is independent of the calls that preceded
     it: two stores with the same configuration that agree on the objects read give the
     same results *)
  Theorem C13_result_history_independent : forall (ks : list call) (S : nat -> Prop) (s1 s2 : store),
    agree d S s1 s2 -> (forall k i, In k ks -> In i (c_reads k) -> S i) ->
    snd (run d s1 ks) = snd (run d s2 ks) /\ agree d S (fst (run d s1 ks)) (fst (run d s2 ks)).
  Proof. exact (run_agree d). Qed.
End C13.
Print Assumptions C13_step_frame.
Print Assumptions C13_history_frame.
Print Assumptions C13_result_history_independent.

(* non-vacuity: a store of numbers, a call that reads objects 0,1 and writes their sum to 2 *)
Example C13_example :
  let k := mkCall (C := nat) [0; 1] [2] (fun c vs => ([c + nth 0 vs 0 + nth 1 vs 0], nth 0 vs 0)) in
  run 0 (10, [1; 2; 3; 4]) [k; k] = ((10, [1; 2; 13; 4]), [1; 1]).
Proof. reflexivity. Qed.
