(* C18 - barycentric evaluation and in-domain division.
   Generic over any commutative ring with partial inverse and EVERY domain size n >= 1
   (the code fixes n = 256); premises: differences of distinct nodes invertible
   (nodes_ok), t - node invertible (off_domain), naturals embed additively.  For the
   concrete scalar field and n = 256 the node premises are discharged (last theorem).
   Link to COEFFICIENT form: C18_barycentric_is_polynomial_evaluation - for every polynomial
   q with at most n coefficients, <evaluations of q, ComputeBarycentricCoefficients(t)> = q(t)
   (generalised partial fractions sum_i q(x_i)/(A'(x_i)(t-x_i)) = q(t)/A(t), by induction on
   the domain size with synthetic division).  With C18_quotient_evaluation this gives the
   quotient in coefficient form as well: <DivideOnDomain k f, b(t)> = (q(t) - q(x_k))/(t - x_k).
   PARTIAL: the value of the quotient AT the node k itself (the q_k entry) is characterised
   through the evaluation identity only. *)
From Coq Require Import ZArith List Arith.
From GoIpa Require Import Model.Zq Model.Alg Model.Bary Model.Banderwagon Model.FpSqrt
  Proofs.AlgLaws Proofs.BaryProofs Proofs.BaryPoly.
Import ListNotations.

Section C18.
  Context {F : Type} (fo : FOps F) (FL : FieldLaws fo).
  Local Notation dom := (dom fo).
  Local Notation inv := (finv fo).

  (* the precomputed tables equal their defining products and inverses, with the code's
     index layout (second half = inverses / negated inverses) *)
  Theorem C18_weight_tables : forall n i,
    (i < n)%nat ->
    nth i (w_bary (new_weights fo n)) (f0 fo) = bary_weight fo n i
    /\ nth (i + Nat.div (length (w_bary (new_weights fo n))) 2) (w_bary (new_weights fo n)) (f0 fo)
       = inv (bary_weight fo n i)
    /\ ((1 <= i)%nat -> get_inverted_element fo (new_weights fo n) i false = inv (dom i)
                        /\ get_inverted_element fo (new_weights fo n) i true = fsub fo (f0 fo) (inv (dom i)))
    /\ (forall j, (j < n)%nat -> get_ratio_of_weights fo (new_weights fo n) i j
                                 = fmul fo (bary_weight fo n i) (inv (bary_weight fo n j))).
  Proof.
    intros n i Hi. refine (conj (w_bary_lo fo n i Hi) (conj (w_bary_hi fo n i Hi) (conj _ _))).
    - intros H1. exact (conj (w_invdom_pos fo n i H1 Hi) (w_invdom_neg fo n i H1 Hi)).
    - intros j Hj. exact (w_ratio fo n i j Hi Hj).
  Qed.

  (* A'(i) = prod_{j <> i} (i - j): recursion over the domain size *)
  Theorem C18_weight_products : forall n i,
    ((i < n)%nat -> bary_weight fo (S n) i = fmul fo (bary_weight fo n i) (fsub fo (dom i) (dom n)))
    /\ bary_weight fo (S n) n = Apoly fo n (dom n).
  Proof. intros n i. exact (conj (bw_S_lt fo n i) (bw_S_n fo n)). Qed.

  (* ComputeBarycentricCoefficients: b_i(t) = A(t) / (A'(i) (t - i)), and they sum to 1 *)
  Theorem C18_barycentric_coefficients : forall n t,
    nodes_ok fo n -> off_domain fo n t ->
    bary_coeffs fo n (batch_invert fo) (new_weights fo n) t = map (bcoef fo n t) (seq 0 n)
    /\ ((1 <= n)%nat -> fsum fo (map (bcoef fo n t) (seq 0 n)) = f1 fo).
  Proof.
    intros n t Hn Ht. split; [exact (bary_coeffs_spec fo FL n t Hn Ht)|].
    intros H1. exact (bcoef_sum_one fo FL n t H1 Hn Ht).
  Qed.

  Theorem C18_partial_fractions : forall n t, (1 <= n)%nat -> nodes_ok fo n -> off_domain fo n t ->
    fsum fo (map (fun i => inv (fmul fo (bary_weight fo n i) (fsub fo t (dom i)))) (seq 0 n))
    = inv (Apoly fo n t).
  Proof. exact (partial_fractions fo FL). Qed.

  Hypothesis dom_add : forall i j, dom (i + j) = fadd fo (dom i) (dom j).

  (* DivideOnDomain k f: entry i <> k is (f_i - f_k)/(i - k); entry k is
     - sum_{j <> k} A'(k)/A'(j) q_j  (as coded, for every k) *)
  Theorem C18_divide_on_domain : forall n k f, nodes_ok fo n -> (k < n)%nat ->
    divide_on_domain fo n (new_weights fo n) k f
    = map (fun i => if Nat.eqb i k
                    then fsub fo (f0 fo)
                           (fsum fo (map (fun j => fmul fo (fmul fo (bary_weight fo n k) (inv (bary_weight fo n j)))
                                                          (qoff fo n k f j)) (seq 0 n)))
                    else qoff fo n k f i) (seq 0 n).
  Proof. exact (divide_on_domain_spec fo FL dom_add). Qed.

  (* ... and it IS the quotient: evaluated at any t outside the domain,
     <DivideOnDomain k f, b(t)> = (<f, b(t)> - f_k) / (t - k) *)
  Theorem C18_quotient_evaluation : forall n k f t,
    (1 <= n)%nat -> nodes_ok fo n -> off_domain fo n t -> (k < n)%nat -> length f = n ->
    inner fo (divide_on_domain fo n (new_weights fo n) k f) (map (bcoef fo n t) (seq 0 n))
    = fmul fo (fsub fo (inner fo f (map (bcoef fo n t) (seq 0 n))) (nth k f (f0 fo)))
              (inv (fsub fo t (dom k))).
  Proof. exact (quotient_eval_identity fo FL dom_add). Qed.

  (* generalised partial fractions and the coefficient-form link *)
  Theorem C18_partial_fractions_poly : forall n q t, (length q <= n)%nat -> nodes_ok fo n -> off_domain fo n t ->
    fsum fo (map (fun i => fmul fo (peval fo q (dom i)) (inv (fmul fo (bary_weight fo n i) (fsub fo t (dom i))))) (seq 0 n))
    = fmul fo (peval fo q t) (inv (Apoly fo n t)).
  Proof. exact (partial_fractions_poly fo FL). Qed.

  Theorem C18_barycentric_is_polynomial_evaluation : forall n q t,
    (length q <= n)%nat -> nodes_ok fo n -> off_domain fo n t ->
    inner fo (map (fun i => peval fo q (dom i)) (seq 0 n))
             (bary_coeffs fo n (batch_invert fo) (new_weights fo n) t) = peval fo q t.
  Proof. exact (inner_bary_coeffs_poly fo FL). Qed.
End C18.
Print Assumptions C18_partial_fractions_poly.
Print Assumptions C18_barycentric_is_polynomial_evaluation.
Print Assumptions C18_weight_tables.
Print Assumptions C18_weight_products.
Print Assumptions C18_barycentric_coefficients.
Print Assumptions C18_partial_fractions.
Print Assumptions C18_divide_on_domain.
Print Assumptions C18_quotient_evaluation.

(* the concrete instance: Fr, n = 256 *)
Theorem C18_concrete_premises :
  nodes_ok fro 256 /\ (forall i j, dom fro (i + j) = fadd fro (dom fro i) (dom fro j)).
Proof. exact (conj fro_nodes_ok fro_dom_add). Qed.
Print Assumptions C18_concrete_premises.
