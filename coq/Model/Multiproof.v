(* Model of multiproof.go (protocol level). *)
From Coq Require Import ZArith List Bool.
From GoIpa Require Import Model.Bytes Model.Alg Model.Transcript Model.Bary Model.Banderwagon Model.IPA.
Import ListNotations.

Definition lbl_multiproof : list Z := [109; 117; 108; 116; 105; 112; 114; 111; 111; 102]%Z.
Definition lbl_z : list Z := [122]%Z.
Definition lbl_y : list Z := [121]%Z.
Definition lbl_D : list Z := [68]%Z.
Definition lbl_E : list Z := [69]%Z.
Definition lbl_t : list Z := [116]%Z.
Definition lbl_r : list Z := [114]%Z.

Section Multiproof.
  Context {F G : Type} (fo : FOps F) (go : GOps F G) (hashf : list Z -> list Z).
  Local Notation config := (config (F := F) (G := G)).
  Local Notation ipa_proof := (ipa_proof (F := F) (G := G)).

  Record multiproof : Type := mkMP { mpIPA : ipa_proof; mpD : G }.

  Definition zeros (n : nat) : list F := repeat (f0 fo) n.

  (* ---- groupPolynomialsByEvaluationPoint ---- *)
  Definition table : Type := list (option (list F)).       (* one slot per domain index *)
  Definition empty_table (n : nat) : table := repeat None n.

  Fixpoint slot_update (tb : table) (z : nat) (f : option (list F) -> option (list F)) : table :=
    match tb, z with
    | [], _ => []
    | s :: tb', O => f s :: tb'
    | s :: tb', S z' => s :: slot_update tb' z' f
    end.

  (* one opening (index i given by its power r^i) folded into a worker's table *)
  Definition worker_add (n : nat) (tb : table) (ri : F) (f : list F) (z : nat) : table :=
    slot_update tb z (fun s =>
      let cur := match s with Some v => v | None => zeros n end in
      Some (vadd fo cur (vscale fo ri f))).

  (* the openings are given as triples (r^i, f_i, z_i) *)
  Definition worker_agg (n : nat) (ops : list (F * list F * nat)) : table :=
    fold_left (fun tb o => let '(ri, f, z) := o in worker_add n tb ri f z) ops (empty_table n).

  (* merge one worker result into the accumulated table (arrival order) *)
  Fixpoint merge_tables (acc wt : table) : table :=
    match acc, wt with
    | a :: acc', w :: wt' =>
        (match w with
         | None => a
         | Some wv => match a with
                      | None => Some wv
                      | Some av => Some (vadd fo av wv)
                      end
         end) :: merge_tables acc' wt'
    | _, _ => acc
    end.

  (* worker i of numWorkers works on [i*batch, min((i+1)*batch, len)) *)
  Definition worker_slice {A} (l : list A) (batch i : nat) : list A :=
    firstn batch (skipn (i * batch) l).

  Definition group_polys (n numWorkers : nat) (arrival : list nat)
             (ops : list (F * list F * nat)) : table :=
    let batch := Nat.div (length ops + numWorkers - 1) numWorkers in
    fold_left (fun acc i => merge_tables acc (worker_agg n (worker_slice ops batch i)))
              arrival (empty_table n).

  (* specification: slot z = sum over i with z_i = z of r^i f_i, None if unused *)
  Definition group_spec (n : nat) (ops : list (F * list F * nat)) : table :=
    worker_agg n ops.

  (* ---- CreateMultiProof ---- *)
  Inductive mp_err : Type := MPErrPolyLen | MPErrLenFs | MPErrLenZs | MPErrZero | MPErrIPA.

  Fixpoint absorb_openings (t : tstate) (cs : list G) (zs : list nat) (ys : list F) : tstate :=
    match cs, zs, ys with
    | c :: cs', z :: zs', y :: ys' =>
        let t := t_append_point t (genc go c) lbl_C in
        let t := t_append_scalar fo t (fofz fo (Z.of_nat z)) lbl_z in
        let t := t_append_scalar fo t y lbl_y in
        absorb_openings t cs' zs' ys'
    | _, _, _ => t
    end.

  Definition used_slots (tb : table) : list (nat * list F) :=
    fold_right (fun (p : nat * option (list F)) acc =>
                  match snd p with Some v => (fst p, v) :: acc | None => acc end)
               [] (combine (seq 0 (length tb)) tb).

  Definition mp_create (numWorkers : nat) (arrival : list nat)
             (t : tstate) (cfg : config) (commit : list F -> G)
             (cs : list G) (fs : list (list F)) (zs : list nat)
    : (tstate * multiproof) + mp_err :=
    let n := c_n cfg in
    let t := t_domain_sep t lbl_multiproof in
    if negb (forallb (fun f => Nat.eqb (length f) n) fs) then inr MPErrPolyLen else
    if negb (Nat.eqb (length cs) (length fs)) then inr MPErrLenFs else
    if negb (Nat.eqb (length cs) (length zs)) then inr MPErrLenZs else
    if Nat.eqb (length cs) 0 then inr MPErrZero else
    let ys := map (fun fz : list F * nat => nth (snd fz) (fst fz) (f0 fo)) (combine fs zs) in
    let t := absorb_openings t cs zs ys in
    let '(t, r) := t_challenge fo hashf t lbl_r in
    let powers := powers_of fo r (length cs) in
    let grouped := group_polys n numWorkers arrival (combine (combine powers fs) zs) in
    let used := used_slots grouped in
    let g_x := fold_left (fun acc (zf : nat * list F) =>
                            vadd fo acc (divide_on_domain fo n (c_w cfg) (fst zf) (snd zf)))
                         used (zeros n) in
    let D := commit g_x in
    let t := t_append_point t (genc go D) lbl_D in
    let '(t, tch) := t_challenge fo hashf t lbl_t in
    let den_inv := batch_invert fo (map (fun zf : nat * list F => fsub fo tch (fofz fo (Z.of_nat (fst zf)))) used) in
    let h_x := fold_left (fun acc (p : (nat * list F) * F) =>
                            vadd fo acc (vscale fo (snd p) (snd (fst p))))
                         (combine used den_inv) (zeros n) in
    let h_minus_g := vsub fo h_x g_x in
    let E := commit h_x in
    let t := t_append_point t (genc go E) lbl_E in
    let EmD := gadd go E (gneg go D) in
    match ipa_create fo go hashf t cfg EmD h_minus_g tch with
    | None => inr MPErrIPA
    | Some (t, ip) => inl (t, mkMP ip D)
    end.

  (* ---- CheckMultiProof ---- *)
  Definition mp_check (t : tstate) (cfg : config) (pr : multiproof)
             (cs : list G) (ys : list F) (zs : list nat) : option (tstate * bool) :=
    let n := c_n cfg in
    let t := t_domain_sep t lbl_multiproof in
    if negb (Nat.eqb (length cs) (length ys)) then None else
    if negb (Nat.eqb (length cs) (length zs)) then None else
    if Nat.eqb (length cs) 0 then None else
    let t := absorb_openings t cs zs ys in
    let '(t, r) := t_challenge fo hashf t lbl_r in
    let powers := powers_of fo r (length cs) in
    let t := t_append_point t (genc go (mpD pr)) lbl_D in
    let '(t, tch) := t_challenge fo hashf t lbl_t in
    (* groupedEvals[z] += r^i * y_i *)
    let grouped := fold_left (fun (ge : list F) (p : (F * F) * nat) =>
                                let '((ri, y), z) := p in
                                firstn z ge ++ (fadd fo (nth z ge (f0 fo)) (fmul fo ri y)) :: skipn (S z) ge)
                             (combine (combine powers ys) zs) (zeros n) in
    let helper := batch_invert fo (map (fun i => fsub fo tch (fofz fo (Z.of_nat i))) (seq 0 n)) in
    let g2t := fold_left (fun acc (p : F * F) =>
                            if feqb fo (fst p) (f0 fo) then acc
                            else fadd fo acc (fmul fo (fst p) (snd p)))
                         (combine grouped helper) (f0 fo) in
    let msm_scalars := map (fun p : F * nat => fmul fo (fst p) (nth (snd p) helper (f0 fo)))
                           (combine powers zs) in
    let E := msm go cs msm_scalars in
    let t := t_append_point t (genc go E) lbl_E in
    let EmD := gadd go E (gneg go (mpD pr)) in
    ipa_check fo go hashf t cfg EmD (mpIPA pr) tch g2t.
End Multiproof.
