(* Scalar-field (Fr) encodings: bandersnatch/fr Bytes / BytesLE / SetBytes /
   SetBytesLE / SetBytesLECanonical / SetBigInt, and fp.BytesLE.
   Decoders return the decoded value together with the content of the caller's
   buffer after the call (the property speaks about it). *)
From Coq Require Import ZArith List Bool.
From GoIpa Require Import Model.Bytes Model.Zq.
Import ListNotations.
Open Scope Z_scope.

Definition fr_bytes (s : Fr) : list Z := be_enc 32 (zval s).
Definition fr_bytes_le (s : Fr) : list Z := le_enc 32 (zval s).
Definition fp_bytes_le (x : Fp) : list Z := le_enc 32 (zval x).

(* SetBigInt: fast paths of the code, v >= 0 *)
Definition fr_set_big_int (v : Z) : Fr :=
  if v =? r_mod then fr 0
  else if (v <? r_mod) && (0 <=? v) then fr v
  else fr (v mod r_mod).

Definition fr_set_bytes (b : list Z) : Fr * list Z := (fr_set_big_int (be_val b), b).
Definition fr_set_bytes_le (b : list Z) : Fr * list Z := (fr_set_big_int (le_val b), b).
Definition fr_set_bytes_le_canonical (b : list Z) : option Fr * list Z :=
  if le_val b <? r_mod then (Some (fr_set_big_int (le_val b)), b) else (None, b).

(* behaviour of the pinned commit before the repair (finding F1): the decoder
   reversed the caller's slice in place and parsed it big-endian *)
Definition fr_set_bytes_le_prefix (b : list Z) : Fr * list Z :=
  (fr_set_big_int (be_val (rev b)), rev b).
