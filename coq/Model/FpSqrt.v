(* Model of bandersnatch/fp/sqrt.go (SqrtPrecomp) on the base field Fp. *)
From Coq Require Import ZArith List Bool.
From GoIpa Require Import Model.Zq Model.Alg Model.SqrtChain.
Import ListNotations.
Open Scope Z_scope.

Definition fpo : FOps Fp :=
  mkFOps Fp zq_zero zq_one zq_add zq_sub zq_mul zq_neg zq_inv zq_eqb fp zval.
Definition fro : FOps Fr :=
  mkFOps Fr zq_zero zq_one zq_add zq_sub zq_mul zq_neg zq_inv zq_eqb fr zval.

(* ---- generic interpreter of the addition chain over a "multiplication" ---- *)
Section Chain.
  Context {T : Type} (mul : T -> T -> T) (dflt : T).
  Fixpoint sqn (x : T) (n : nat) : T :=
    match n with O => x | S n' => sqn (mul x x) n' end.
  Definition set_reg (i : nat) (v : T) (regs : list T) : list T :=
    firstn i regs ++ v :: skipn (S i) regs.
  Definition get_reg (i : nat) (regs : list T) : T := nth i regs dflt.
  Definition chain_step (regs : list T) (o : chain_op) : list T :=
    match o with
    | CSq d s => set_reg d (mul (get_reg s regs) (get_reg s regs)) regs
    | CMul d a b => set_reg d (mul (get_reg a regs) (get_reg b regs)) regs
    | CSqN d n => set_reg d (sqn (get_reg d regs) n) regs
    end.
  Definition chain_interp (ops : list chain_op) (regs : list T) : list T :=
    fold_left chain_step ops regs.
  Definition chain_init (z : T) : list T := z :: repeat dflt (pred chain_nregs).
End Chain.

(* exponents computed by the chain (interpreted in (Z,+)) *)
Definition chain_exponents : list Z := chain_interp Z.add 0 sqrt_chain (chain_init 0 1).
Definition chain_exp_candidate : Z := get_reg 0 chain_reg_candidate chain_exponents.
Definition chain_exp_root : Z := get_reg 0 chain_reg_root chain_exponents.

(* sqrtAlg_ComputeRelevantPowers *)
Definition relevant_powers (z : Fp) : Fp * Fp :=
  let regs := chain_interp zq_mul zq_one sqrt_chain (chain_init zq_one z) in
  (get_reg zq_one chain_reg_candidate regs, get_reg zq_one chain_reg_root regs).

(* ---- precomputed constants ---- *)
Definition dyadic_root0 : Fp :=
  fp 10238227357739495823651030575849232062558860180284477541189508159991286009131.
Definition dyadic_root (i : nat) : Fp := sqn zq_mul dyadic_root0 i.        (* g^(2^i) *)
Definition recon_root : Fp := dyadic_root 24.                             (* order 2^8 *)
(* sqrtPrecomp_PrecomputedBlocks[i][j] = g^(j << 8i) *)
Definition block_elem (i : nat) (j : Z) : Fp := zq_pow (dyadic_root (8 * i)) j.

(* key of the dlog LUT: low 16 bits of limb 0 of the Montgomery representation *)
Definition mont_key (x : Fp) : Z := ((zval x * 2 ^ 256) mod p_mod) mod 65536.

(* powers rho^0 .. rho^255 and their keys *)
Fixpoint pow_list (n : nat) (cur x : Fp) : list Fp :=
  match n with O => [] | S n' => cur :: pow_list n' (zq_mul cur x) x end.
Definition lut_keys : list Z := map mont_key (pow_list 256 zq_one recon_root).

Fixpoint find_key (k : Z) (keys : list Z) (i : Z) : option Z :=
  match keys with
  | [] => None
  | k' :: ks => if k' =? k then Some i else find_key k ks (i + 1)
  end.
(* the Go loop overwrites, so on duplicate keys the last index would win; the
   keys are distinct (proved), so first = last.  Missing key: Go map returns 0. *)
Definition neg_dlog (x : Fp) : Z :=
  match find_key (mont_key x) lut_keys 0 with
  | Some i => (- i) mod 256
  | None => 0
  end.

Definition byte_of (e : Z) (j : nat) : Z := (Z.shiftr e (8 * Z.of_nat j)) mod 256.

(* product over j < i of blocks[j + 3 - i][byte j of negExp] *)
Fixpoint unset_known (i : nat) (j : nat) (negexp : Z) (acc : Fp) : Fp :=
  match j with
  | O => acc
  | S j' => (* process indices 0 .. j-1 in increasing order *)
      let acc' := unset_known i j' negexp acc in
      zq_mul acc' (block_elem (j' + 3 - i) (byte_of negexp j'))
  end.

(* invSqrtEqDyadic: None = "false"; Some z' = "true" with z rewritten to z' *)
Definition inv_sqrt_eq_dyadic (z : Fp) : option Fp :=
  let p0 := z in
  let p1 := sqn zq_mul p0 8 in
  let p2 := sqn zq_mul p1 8 in
  let p3 := sqn zq_mul p2 8 in
  let e0 := neg_dlog p3 in
  if Z.odd e0 then None else
  let e1 := Z.lor e0 (Z.shiftl (neg_dlog (unset_known 1 1 e0 p2)) 8) in
  let e2 := Z.lor e1 (Z.shiftl (neg_dlog (unset_known 2 2 e1 p1)) 16) in
  let e3 := Z.lor e2 (Z.shiftl (neg_dlog (unset_known 3 3 e2 p0)) 24) in
  let h := Z.shiftr e3 1 in
  Some (zq_mul (zq_mul (zq_mul (zq_mul zq_one (block_elem 0 (byte_of h 0))) (block_elem 1 (byte_of h 1)))
                       (block_elem 2 (byte_of h 2))) (block_elem 3 (byte_of h 3))).

Definition sqrt_precomp (x : Fp) : option Fp :=
  if zq_is_zero x then Some zq_zero else
  let '(cand, root) := relevant_powers x in
  match inv_sqrt_eq_dyadic root with
  | None => None
  | Some root' => Some (zq_mul cand root')
  end.
