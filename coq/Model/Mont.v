(* Model of bandersnatch/fr/element.go arithmetic.
   Limb level: 4 x 64-bit limbs, the portable functions line by line.
   Integer level: the same operations on Montgomery representatives as integers. *)
From Coq Require Import ZArith List Bool.
Import ListNotations.
Open Scope Z_scope.

Definition W : Z := 2 ^ 64.
Definition q0 : Z := 8429901452645165025.
Definition q1 : Z := 18415085837358793841.
Definition q2 : Z := 922804724659942912.
Definition q3 : Z := 2088379214866112338.
Definition qInvNeg : Z := 17410672245482742751.
Definition qmod : Z := 13108968793781547619861935127046491459309155893440570251786403306729687672801.

Definition limbs : Type := (Z * Z * Z * Z)%type.
Definition lval (x : limbs) : Z :=
  let '(x0, x1, x2, x3) := x in x0 + W * (x1 + W * (x2 + W * x3)).
Definition limbs_of (v : Z) : limbs :=
  (v mod W, (v / W) mod W, (v / W / W) mod W, (v / W / W / W) mod W).

(* math/bits and arith.go *)
Definition mul64 (a b : Z) : Z * Z := ((a * b) / W, (a * b) mod W).
Definition add64 (a b c : Z) : Z * Z := ((a + b + c) mod W, (a + b + c) / W).       (* sum, carry *)
Definition sub64 (a b bw : Z) : Z * Z := ((a - b - bw) mod W, if a - b - bw <? 0 then 1 else 0). (* diff, borrow *)
Definition madd0 (a b c : Z) : Z := (a * b + c) / W.
Definition madd1 (a b c : Z) : Z * Z := ((a * b + c) / W, (a * b + c) mod W).
Definition madd2 (a b c d : Z) : Z * Z := ((a * b + c + d) / W, (a * b + c + d) mod W).
Definition madd3 (a b c d e : Z) : Z * Z :=
  (((a * b + c + d) / W + e) mod W, (a * b + c + d) mod W).

(* "if z >= q then z -= q" with the code's comparison and borrow chain *)
Definition smaller_than_q (z : limbs) : bool :=
  let '(z0, z1, z2, z3) := z in
  (z3 <? q3) || ((z3 =? q3) && ((z2 <? q2) || ((z2 =? q2) && ((z1 <? q1) || ((z1 =? q1) && (z0 <? q0)))))).
Definition sub_q (z : limbs) : limbs :=
  let '(z0, z1, z2, z3) := z in
  let '(r0, b) := sub64 z0 q0 0 in
  let '(r1, b) := sub64 z1 q1 b in
  let '(r2, b) := sub64 z2 q2 b in
  let '(r3, _) := sub64 z3 q3 b in
  (r0, r1, r2, r3).
Definition reduce_generic (z : limbs) : limbs := if smaller_than_q z then z else sub_q z.

(* one CIOS round of _mulGeneric: v = x[i]; t = running value *)
Definition mul_round0 (v : Z) (y : limbs) : limbs :=
  let '(y0, y1, y2, y3) := y in
  let '(c1, c0) := mul64 v y0 in
  let m := (c0 * qInvNeg) mod W in
  let c2 := madd0 m q0 c0 in
  let '(c1, c0) := madd1 v y1 c1 in
  let '(c2, t0) := madd2 m q1 c2 c0 in
  let '(c1, c0) := madd1 v y2 c1 in
  let '(c2, t1) := madd2 m q2 c2 c0 in
  let '(c1, c0) := madd1 v y3 c1 in
  let '(t3, t2) := madd3 m q3 c0 c2 c1 in
  (t0, t1, t2, t3).
Definition mul_round (v : Z) (y t : limbs) : limbs :=
  let '(y0, y1, y2, y3) := y in
  let '(t0, t1, t2, t3) := t in
  let '(c1, c0) := madd1 v y0 t0 in
  let m := (c0 * qInvNeg) mod W in
  let c2 := madd0 m q0 c0 in
  let '(c1, c0) := madd2 v y1 c1 t1 in
  let '(c2, t0') := madd2 m q1 c2 c0 in
  let '(c1, c0) := madd2 v y2 c1 t2 in
  let '(c2, t1') := madd2 m q2 c2 c0 in
  let '(c1, c0) := madd2 v y3 c1 t3 in
  let '(t3', t2') := madd3 m q3 c0 c2 c1 in
  (t0', t1', t2', t3').

Definition mul_generic (x y : limbs) : limbs :=
  let '(x0, x1, x2, x3) := x in
  reduce_generic (mul_round x3 y (mul_round x2 y (mul_round x1 y (mul_round0 x0 y)))).

Definition from_mont_round (z : limbs) : limbs :=
  let '(z0, z1, z2, z3) := z in
  let m := (z0 * qInvNeg) mod W in
  let c := madd0 m q0 z0 in
  let '(c, r0) := madd2 m q1 z1 c in
  let '(c, r1) := madd2 m q2 z2 c in
  let '(c, r2) := madd2 m q3 z3 c in
  (r0, r1, r2, c).
Definition from_mont_generic (z : limbs) : limbs :=
  reduce_generic (from_mont_round (from_mont_round (from_mont_round (from_mont_round z)))).

Definition add_generic (x y : limbs) : limbs :=
  let '(x0, x1, x2, x3) := x in let '(y0, y1, y2, y3) := y in
  let '(z0, c) := add64 x0 y0 0 in
  let '(z1, c) := add64 x1 y1 c in
  let '(z2, c) := add64 x2 y2 c in
  let '(z3, _) := add64 x3 y3 c in
  reduce_generic (z0, z1, z2, z3).
Definition double_generic (x : limbs) : limbs := add_generic x x.
Definition sub_generic (x y : limbs) : limbs :=
  let '(x0, x1, x2, x3) := x in let '(y0, y1, y2, y3) := y in
  let '(z0, b) := sub64 x0 y0 0 in
  let '(z1, b) := sub64 x1 y1 b in
  let '(z2, b) := sub64 x2 y2 b in
  let '(z3, b) := sub64 x3 y3 b in
  if b =? 0 then (z0, z1, z2, z3) else
  let '(r0, c) := add64 z0 q0 0 in
  let '(r1, c) := add64 z1 q1 c in
  let '(r2, c) := add64 z2 q2 c in
  let '(r3, _) := add64 z3 q3 c in
  (r0, r1, r2, r3).
Definition neg_generic (x : limbs) : limbs :=
  let '(x0, x1, x2, x3) := x in
  if (x0 =? 0) && (x1 =? 0) && (x2 =? 0) && (x3 =? 0) then (0, 0, 0, 0) else
  let '(z0, b) := sub64 q0 x0 0 in
  let '(z1, b) := sub64 q1 x1 b in
  let '(z2, b) := sub64 q2 x2 b in
  let '(z3, _) := sub64 q3 x3 b in
  (z0, z1, z2, z3).
Definition butterfly_generic (a b : limbs) : limbs * limbs := (add_generic a b, sub_generic a b).

(* ---- integer level on Montgomery representatives (values < q) ---- *)
Definition Rm : Z := 2 ^ 256.
Definition i_add (x y : Z) : Z := (x + y) mod qmod.
Definition i_sub (x y : Z) : Z := (x - y) mod qmod.
Definition i_neg (x : Z) : Z := (- x) mod qmod.
Definition i_double (x : Z) : Z := (2 * x) mod qmod.

Fixpoint egcd_m (fuel : nat) (r0 r1 s0 s1 : Z) : Z * Z :=
  match fuel with
  | O => (r0, s0)
  | S f => if r1 =? 0 then (r0, s0)
           else let qt := r0 / r1 in egcd_m f r1 (r0 - qt * r1) s1 (s0 - qt * s1)
  end.
Definition inv_q (a : Z) : Z :=
  let '(g, u) := egcd_m 800 (a mod qmod) qmod 1 0 in if g =? 1 then u mod qmod else 0.
Definition Rinv : Z := inv_q (Rm mod qmod).
(* Montgomery product: x*y/R mod q *)
Definition i_mul (x y : Z) : Z := (x * y * Rinv) mod qmod.
Definition i_from_mont (x : Z) : Z := (x * Rinv) mod qmod.
Definition i_to_mont (x : Z) : Z := (x * Rm) mod qmod.
(* Inverse in Montgomery form: (x/R)^-1 * R = x^-1 R^2; 0 -> 0 *)
Definition i_inverse (x : Z) : Z := (inv_q x * (Rm * Rm mod qmod)) mod qmod.
Definition i_div (x y : Z) : Z := i_mul x (i_inverse y).

Fixpoint i_pow_pos (x : Z) (e : positive) : Z :=
  match e with
  | xH => x
  | xO e' => let t := i_pow_pos x e' in i_mul t t
  | xI e' => let t := i_pow_pos x e' in i_mul (i_mul t t) x
  end.
Definition i_one : Z := Rm mod qmod.
(* Exp: square-and-multiply from the top bit; exponent 0 -> 1 *)
Definition i_exp (x e : Z) : Z := match e with Zpos p => i_pow_pos x p | _ => i_one end.

Definition legendre_exp : Z := (qmod - 1) / 2.
Definition i_legendre (x : Z) : Z :=
  let l := i_exp x legendre_exp in
  if l =? 0 then 0 else if l =? i_one then 1 else -1.

(* Sqrt: Tonelli-Shanks as coded (q - 1 = 2^5 * s); g = nonResidue^s in Montgomery form *)
Definition sqrt_s_exp : Z := 0x73eda753299d7d483339d80809a1d803fe3e1c01d06411c5d3f41ad4a1db9f.
Definition sqrt_g : Z := lval (5415081136944170355, 16923187137941795325, 11911047149493888393, 436996551065533341).
Fixpoint i_sqn (x : Z) (n : nat) : Z := match n with O => x | S n' => i_sqn (i_mul x x) n' end.
(* number of squarings m until t = 1 (bounded by fuel) *)
Fixpoint order_log (fuel : nat) (t m : Z) : Z :=
  match fuel with
  | O => m
  | S f => if t =? i_one then m else order_log f (i_mul t t) (m + 1)
  end.
Fixpoint sqrt_loop (fuel : nat) (y b g r : Z) : option Z :=
  match fuel with
  | O => None
  | S f =>
      let m := order_log 70 b 0 in
      if m =? 0 then Some y else
      let t := i_sqn g (Z.to_nat (r - m - 1)) in
      let g' := i_mul t t in
      sqrt_loop f (i_mul y t) (i_mul b g') g' m
  end.
(* result: None = nil (non-residue) *)
Definition i_sqrt (x : Z) : option Z :=
  let w := i_exp x sqrt_s_exp in
  let y := i_mul x w in
  let b := i_mul w y in
  let t := i_sqn b 4 in
  if t =? 0 then Some 0
  else if negb (t =? i_one) then None
  else sqrt_loop 10 y b sqrt_g 5.

Definition i_mul_by (c x : Z) : Z :=
  if c =? 3 then i_add (i_double x) x
  else if c =? 5 then i_add (i_double (i_double x)) x
  else i_mul x (i_to_mont c).
Definition i_mul_by13 (x : Z) : Z := i_mul x (i_to_mont 13).

Definition i_cmp (x y : Z) : Z :=
  let a := i_from_mont x in let b := i_from_mont y in
  if a <? b then -1 else if b <? a then 1 else 0.
Definition i_lex_largest (x : Z) : bool := (qmod - 1) / 2 <? i_from_mont x.
