(* Integers modulo q as canonical residues.  Elements carry a (boolean, hence
   unique) proof of canonicity, so equality is Leibniz; the proof is erased by
   extraction (an element extracts to a bare integer). *)
From Coq Require Import ZArith List Bool.
Import ListNotations.
Open Scope Z_scope.

Record Zq (q : Z) : Type := mkZq { zval : Z; zok : (zval mod q =? zval) = true }.
Arguments mkZq q zval zok : clear implicits.
Arguments zval {q} _.
Arguments zok {q} _.

Lemma mod_canon (q x : Z) : ((x mod q) mod q =? x mod q) = true.
Proof. rewrite Zmod_mod. apply Z.eqb_refl. Qed.

Definition zq_of_Z (q x : Z) : Zq q := mkZq q (x mod q) (mod_canon q x).

Section Ops.
  Context {q : Z}.
  Definition zq_zero : Zq q := zq_of_Z q 0.
  Definition zq_one : Zq q := zq_of_Z q 1.
  Definition zq_add (a b : Zq q) : Zq q := zq_of_Z q (zval a + zval b).
  Definition zq_sub (a b : Zq q) : Zq q := zq_of_Z q (zval a - zval b).
  Definition zq_mul (a b : Zq q) : Zq q := zq_of_Z q (zval a * zval b).
  Definition zq_neg (a : Zq q) : Zq q := zq_of_Z q (- zval a).
  Definition zq_eqb (a b : Zq q) : bool := zval a =? zval b.
  Definition zq_is_zero (a : Zq q) : bool := zval a =? 0.

  (* extended Euclid on fuel: egcd r0 r1 s0 s1 keeps r_i = s_i * a (mod q) *)
  Fixpoint egcd (fuel : nat) (r0 r1 s0 s1 : Z) : Z * Z :=
    match fuel with
    | O => (r0, s0)
    | S f =>
        if r1 =? 0 then (r0, s0)
        else let qt := r0 / r1 in egcd f r1 (r0 - qt * r1) s1 (s0 - qt * s1)
    end.

  (* modular inverse; 0 when there is none (in particular inv 0 = 0) *)
  Definition inv_mod (a : Z) : Z :=
    let '(g, u) := egcd 800 a q 1 0 in
    if g =? 1 then u mod q else 0.

  Definition zq_inv (a : Zq q) : Zq q := zq_of_Z q (inv_mod (zval a)).
  Definition zq_div (a b : Zq q) : Zq q := zq_mul a (zq_inv b).

  Fixpoint zq_pow_pos (a : Zq q) (e : positive) : Zq q :=
    match e with
    | xH => a
    | xO e' => let t := zq_pow_pos a e' in zq_mul t t
    | xI e' => let t := zq_pow_pos a e' in zq_mul a (zq_mul t t)
    end.
  Definition zq_pow (a : Zq q) (e : Z) : Zq q :=
    match e with
    | Zpos p => zq_pow_pos a p
    | _ => zq_one
    end.

  (* "lexicographically largest": value strictly above (q-1)/2 *)
  Definition zq_lex_largest (a : Zq q) : bool := (q - 1) / 2 <? zval a.

  (* Euler criterion: 0, 1 or -1 (returned as q-1 -> -1) *)
  Definition zq_legendre (a : Zq q) : Z :=
    let l := zval (zq_pow a ((q - 1) / 2)) in
    if l =? 0 then 0 else if l =? 1 then 1 else -1.
End Ops.

(* the two moduli of the library *)
Definition p_mod : Z := 52435875175126190479447740508185965837690552500527637822603658699938581184513.
Definition r_mod : Z := 13108968793781547619861935127046491459309155893440570251786403306729687672801.

Definition Fp := Zq p_mod.
Definition Fr := Zq r_mod.
Definition fp (x : Z) : Fp := zq_of_Z p_mod x.
Definition fr (x : Z) : Fr := zq_of_Z r_mod x.
