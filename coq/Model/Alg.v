(* Operation records over which the protocol-level model is written once:
   instantiated abstractly (with laws as hypotheses) for the proofs and with
   the concrete Fr / Banderwagon operations for execution. *)
From Coq Require Import ZArith List.
Import ListNotations.

Record FOps (F : Type) : Type := mkFOps {
  f0 : F; f1 : F;
  fadd : F -> F -> F; fsub : F -> F -> F; fmul : F -> F -> F; fneg : F -> F;
  finv : F -> F;            (* inverse, 0 for 0 *)
  feqb : F -> F -> bool;
  fofz : Z -> F;            (* integer, reduced into the field *)
  f2z : F -> Z              (* canonical integer value *)
}.
Arguments f0 {F} _. Arguments f1 {F} _. Arguments fadd {F} _. Arguments fsub {F} _.
Arguments fmul {F} _. Arguments fneg {F} _. Arguments finv {F} _. Arguments feqb {F} _.
Arguments fofz {F} _. Arguments f2z {F} _.

Record GOps (F G : Type) : Type := mkGOps {
  g0 : G;
  gadd : G -> G -> G; gneg : G -> G;
  gmul : F -> G -> G;       (* scalar multiplication *)
  geqb : G -> G -> bool;    (* equality of group elements (Banderwagon Equal) *)
  genc : G -> list Z        (* canonical 32-byte encoding *)
}.
Arguments g0 {F G} _. Arguments gadd {F G} _. Arguments gneg {F G} _.
Arguments gmul {F G} _. Arguments geqb {F G} _. Arguments genc {F G} _.

Section Generic.
  Context {F G : Type} (fo : FOps F) (go : GOps F G).

  Definition gsub (a b : G) : G := gadd go a (gneg go b).

  (* inner product; the code returns an error on a length mismatch, callers
     below only use it on equal lengths (checked by the shape functions) *)
  Fixpoint inner (a b : list F) : F :=
    match a, b with
    | x :: a', y :: b' => fadd fo (fmul fo x y) (inner a' b')
    | _, _ => f0 fo
    end.

  (* specification of every multi-scalar multiplication: sum_i s_i * P_i *)
  Fixpoint msm (ps : list G) (ss : list F) : G :=
    match ps, ss with
    | p :: ps', s :: ss' => gadd go (gmul go s p) (msm ps' ss')
    | _, _ => g0 go
    end.

  Fixpoint vadd (a b : list F) : list F :=
    match a, b with
    | x :: a', y :: b' => fadd fo x y :: vadd a' b'
    | _, _ => []
    end.
  Fixpoint vsub (a b : list F) : list F :=
    match a, b with
    | x :: a', y :: b' => fsub fo x y :: vsub a' b'
    | _, _ => []
    end.
  Definition vscale (k : F) (a : list F) : list F := map (fmul fo k) a.

  (* [1; x; x^2; ...; x^(n-1)] *)
  Fixpoint powers_from (n : nat) (cur x : F) : list F :=
    match n with O => [] | S n' => cur :: powers_from n' (fmul fo cur x) x end.
  Definition powers_of (x : F) (n : nat) : list F := powers_from n (f1 fo) x.
End Generic.
