(* SHA-256 (FIPS 180-4) on byte lists; 32-bit words are Z with explicit mod 2^32. *)
From Coq Require Import ZArith List Bool.
From GoIpa Require Import Model.Bytes.
Import ListNotations.
Open Scope Z_scope.

Definition w32 : Z := 4294967296.
Definition add32 (a b : Z) : Z := (a + b) mod w32.
Definition rotr (n x : Z) : Z := Z.lor (Z.shiftr x n) ((Z.shiftl x (32 - n)) mod w32).
Definition shr (n x : Z) : Z := Z.shiftr x n.
Definition not32 (x : Z) : Z := Z.lxor x 4294967295.
Definition ch (x y z : Z) : Z := Z.lxor (Z.land x y) (Z.land (not32 x) z).
Definition maj (x y z : Z) : Z := Z.lxor (Z.lxor (Z.land x y) (Z.land x z)) (Z.land y z).
Definition bsig0 (x : Z) : Z := Z.lxor (Z.lxor (rotr 2 x) (rotr 13 x)) (rotr 22 x).
Definition bsig1 (x : Z) : Z := Z.lxor (Z.lxor (rotr 6 x) (rotr 11 x)) (rotr 25 x).
Definition ssig0 (x : Z) : Z := Z.lxor (Z.lxor (rotr 7 x) (rotr 18 x)) (shr 3 x).
Definition ssig1 (x : Z) : Z := Z.lxor (Z.lxor (rotr 17 x) (rotr 19 x)) (shr 10 x).

Definition sha_k : list Z := [
  0x428a2f98; 0x71374491; 0xb5c0fbcf; 0xe9b5dba5; 0x3956c25b; 0x59f111f1; 0x923f82a4; 0xab1c5ed5;
  0xd807aa98; 0x12835b01; 0x243185be; 0x550c7dc3; 0x72be5d74; 0x80deb1fe; 0x9bdc06a7; 0xc19bf174;
  0xe49b69c1; 0xefbe4786; 0x0fc19dc6; 0x240ca1cc; 0x2de92c6f; 0x4a7484aa; 0x5cb0a9dc; 0x76f988da;
  0x983e5152; 0xa831c66d; 0xb00327c8; 0xbf597fc7; 0xc6e00bf3; 0xd5a79147; 0x06ca6351; 0x14292967;
  0x27b70a85; 0x2e1b2138; 0x4d2c6dfc; 0x53380d13; 0x650a7354; 0x766a0abb; 0x81c2c92e; 0x92722c85;
  0xa2bfe8a1; 0xa81a664b; 0xc24b8b70; 0xc76c51a3; 0xd192e819; 0xd6990624; 0xf40e3585; 0x106aa070;
  0x19a4c116; 0x1e376c08; 0x2748774c; 0x34b0bcb5; 0x391c0cb3; 0x4ed8aa4a; 0x5b9cca4f; 0x682e6ff3;
  0x748f82ee; 0x78a5636f; 0x84c87814; 0x8cc70208; 0x90befffa; 0xa4506ceb; 0xbef9a3f7; 0xc67178f2].

Definition sha_h0 : list Z := [
  0x6a09e667; 0xbb67ae85; 0x3c6ef372; 0xa54ff53a; 0x510e527f; 0x9b05688c; 0x1f83d9ab; 0x5be0cd19].

Definition sha_pad (msg : list Z) : list Z :=
  let l := len msg in
  msg ++ [128] ++ repeat_z (Z.to_nat ((55 - l) mod 64)) 0 ++ be_enc 8 (8 * l).

(* 16 big-endian words of a 64-byte block *)
Fixpoint words_be (n : nat) (bs : list Z) : list Z :=
  match n with
  | O => []
  | S n' => be_val (firstn 4 bs) :: words_be n' (skipn 4 bs)
  end.

Definition sstate := (Z * Z * Z * Z * Z * Z * Z * Z)%type.

(* rounds: q = sliding window of the 16 most recent schedule words, oldest first *)
Fixpoint sha_rounds (ks : list Z) (q : list Z) (s : sstate) : sstate :=
  match ks with
  | [] => s
  | k :: ks' =>
      let '(a, b, c, d, e, f, g, h) := s in
      let wt := nth 0 q 0 in
      let nxt := add32 (add32 (ssig1 (nth 14 q 0)) (nth 9 q 0)) (add32 (ssig0 (nth 1 q 0)) wt) in
      let t1 := add32 (add32 (add32 h (bsig1 e)) (add32 (ch e f g) k)) wt in
      let t2 := add32 (bsig0 a) (maj a b c) in
      sha_rounds ks' (tl q ++ [nxt]) (add32 t1 t2, a, b, c, add32 d t1, e, f, g)
  end.

Definition sha_block (s : sstate) (blk : list Z) : sstate :=
  let '(a, b, c, d, e, f, g, h) := s in
  let '(a', b', c', d', e', f', g', h') := sha_rounds sha_k (words_be 16 blk) s in
  (add32 a a', add32 b b', add32 c c', add32 d d', add32 e e', add32 f f', add32 g g', add32 h h').

Fixpoint sha_blocks (fuel : nat) (s : sstate) (bs : list Z) : sstate :=
  match fuel with
  | O => s
  | S f => match bs with
           | [] => s
           | _ => sha_blocks f (sha_block s (firstn 64 bs)) (skipn 64 bs)
           end
  end.

Definition sha_init : sstate :=
  (0x6a09e667, 0xbb67ae85, 0x3c6ef372, 0xa54ff53a, 0x510e527f, 0x9b05688c, 0x1f83d9ab, 0x5be0cd19).

Definition sha256 (msg : list Z) : list Z :=
  let p := sha_pad msg in
  let '(a, b, c, d, e, f, g, h) := sha_blocks (S (Nat.div (length p) 64)) sha_init p in
  be_enc 4 a ++ be_enc 4 b ++ be_enc 4 c ++ be_enc 4 d ++
  be_enc 4 e ++ be_enc 4 f ++ be_enc 4 g ++ be_enc 4 h.
