(* Model of banderwagon/precomp.go: per-point window tables, signed-window recoding with
   carry as coded in PrecompPoint.ScalarMul, MSMPrecomp.MSM.  Generic over the group. *)
From Coq Require Import ZArith List Bool.
From GoIpa Require Import Model.Alg.
Import ListNotations.
Open Scope Z_scope.

(* the window loop of PrecompPoint.ScalarMul on the regular (non-Montgomery) value s:
   one entry per window, 0 = nothing added, d > 0 = add table[k][d-1],
   d < 0 = add the negation of table[k][-d-1]; returns the final carry *)
Fixpoint pc_loop (fuel : nat) (w s carry : Z) : list Z * Z :=
  match fuel with
  | O => ([], carry)
  | S f =>
      let wv := s mod 2 ^ w + carry in
      if wv =? 0 then
        let '(ds, c) := pc_loop f w (s / 2 ^ w) carry in (0 :: ds, c)
      else if 2 ^ (w - 1) <? wv then
        let '(ds, c) := pc_loop f w (s / 2 ^ w) 1 in (- (2 ^ w - wv) :: ds, c)
      else
        let '(ds, c) := pc_loop f w (s / 2 ^ w) 0 in (wv :: ds, c)
  end.

Definition pc_nwindows (w : Z) : nat := Z.to_nat (256 / w).
Definition pc_digits (w s : Z) : list Z * Z := pc_loop (pc_nwindows w) w s 0.

Section Group.
  Context {F G : Type} (fo : FOps F) (go : GOps F G).

  (* one window: curr, curr+base, ...  (2^(w-1) entries) *)
  Fixpoint pc_window (n : nat) (curr base : G) : list G :=
    match n with O => [] | S n' => curr :: pc_window n' (gadd go curr base) base end.

  (* NewPrecompPoint: window k is built from base_k = 2^(w k) * P *)
  Fixpoint pc_table (nw : nat) (w : Z) (base : G) : list (list G) :=
    match nw with
    | O => []
    | S nw' => pc_window (Z.to_nat (2 ^ (w - 1))) base base
               :: pc_table nw' w (gmul go (fofz fo (2 ^ w)) base)
    end.

  Definition pc_apply (res : G) (win : list G) (d : Z) : G :=
    if d =? 0 then res
    else if 0 <? d then gadd go res (nth (Z.to_nat (d - 1)) win (g0 go))
    else gadd go res (gneg go (nth (Z.to_nat (- d - 1)) win (g0 go))).

  Fixpoint pc_accumulate (res : G) (table : list (list G)) (ds : list Z) : G :=
    match table, ds with
    | win :: table', d :: ds' => pc_accumulate (pc_apply res win d) table' ds'
    | _, _ => res
    end.

  (* PrecompPoint.ScalarMul: res += s * P using P's table *)
  Definition pc_scalar_mul (w : Z) (table : list (list G)) (s : Z) (res : G) : G :=
    pc_accumulate res table (fst (pc_digits w s)).

  (* window-size rule of NewPrecompMSM: 16 bits for the first 5 points, 8 otherwise *)
  Definition pc_window_size (i : nat) : Z := if Nat.ltb i 5 then 16 else 8.

  Definition pc_msm_tables (points : list G) : list (Z * list (list G)) :=
    map (fun ip : nat * G => let w := pc_window_size (fst ip) in (w, pc_table (pc_nwindows w) w (snd ip)))
        (combine (seq 0 (length points)) points).

  (* MSMPrecomp.MSM: zero scalars skipped; scalars given by their canonical values *)
  Fixpoint pc_msm (tables : list (Z * list (list G))) (ss : list Z) (res : G) : G :=
    match tables, ss with
    | (w, tb) :: tables', s :: ss' =>
        pc_msm tables' ss' (if s =? 0 then res else pc_scalar_mul w tb s res)
    | _, _ => res
    end.
End Group.
