(* Model of ipa/prover.go, ipa/verifier.go, ipa/config.go (protocol level),
   generic over field / group operations, the hash and the domain size. *)
From Coq Require Import ZArith List Bool.
From GoIpa Require Import Model.Bytes Model.Alg Model.Transcript Model.Bary Model.Banderwagon.
Import ListNotations.

(* ASCII labels *)
Definition lbl_ipa : list Z := [105; 112; 97]%Z.
Definition lbl_C : list Z := [67]%Z.
Definition lbl_input_point : list Z := [105; 110; 112; 117; 116; 32; 112; 111; 105; 110; 116]%Z.
Definition lbl_output_point : list Z := [111; 117; 116; 112; 117; 116; 32; 112; 111; 105; 110; 116]%Z.
Definition lbl_w : list Z := [119]%Z.
Definition lbl_L : list Z := [76]%Z.
Definition lbl_R : list Z := [82]%Z.
Definition lbl_x : list Z := [120]%Z.

Section IPA.
  Context {F G : Type} (fo : FOps F) (go : GOps F G) (hashf : list Z -> list Z).

  Record config : Type := mkCfg {
    c_n : nat;               (* vector length (256) *)
    c_rounds : nat;          (* log2 n (8) *)
    c_srs : list G;
    c_Q : G;
    c_w : weights (F := F)
  }.

  Record ipa_proof : Type := mkIPA { pL : list G; pR : list G; pA : F }.

  Definition unit_vec (n i : nat) : list F :=
    map (fun j => if Nat.eqb j i then f1 fo else f0 fo) (seq 0 n).

  (* computeBVector: in-domain iff canonical value <= n-1 *)
  Definition compute_b (cfg : config) (z : F) : list F :=
    if (Z.of_nat (c_n cfg) - 1 <? f2z fo z)%Z
    then bary_coeffs fo (c_n cfg) (batch_invert fo) (c_w cfg) z
    else unit_vec (c_n cfg) (Z.to_nat (f2z fo z)).

  Definition fold_scalars (a b : list F) (x : F) : list F :=
    map (fun p : F * F => fadd fo (fmul fo x (snd p)) (fst p)) (combine a b).
  Definition fold_points (a b : list G) (x : F) : list G :=
    map (fun p : G * G => gadd go (gmul go x (snd p)) (fst p)) (combine a b).

  (* commit([C1, q], [1, z]) *)
  Definition commit2 (c1 q : G) (z : F) : G := msm go [c1; q] [f1 fo; z].

  Fixpoint ipa_rounds (k : nat) (t : tstate) (q : G) (a b : list F) (g : list G)
           (accL accR : list G) : tstate * list G * list G * list F :=
    match k with
    | O => (t, rev accL, rev accR, a)
    | S k' =>
        let mid := Nat.div (length a) 2 in
        let aL := firstn mid a in let aR := skipn mid a in
        let bL := firstn mid b in let bR := skipn mid b in
        let gL := firstn mid g in let gR := skipn mid g in
        let zL := inner fo aR bL in
        let zR := inner fo aL bR in
        let cL := commit2 (msm go gL aR) q zL in
        let cR := commit2 (msm go gR aL) q zR in
        let t := t_append_point t (genc go cL) lbl_L in
        let t := t_append_point t (genc go cR) lbl_R in
        let '(t, x) := t_challenge fo hashf t lbl_x in
        let xinv := finv fo x in
        ipa_rounds k' t q (fold_scalars aL aR x) (fold_scalars bL bR xinv)
                   (fold_points gL gR xinv) (cL :: accL) (cR :: accR)
    end.

  (* CreateIPAProof; None = error *)
  Definition ipa_create (t : tstate) (cfg : config) (commitment : G) (a : list F) (z : F)
    : option (tstate * ipa_proof) :=
    let t := t_domain_sep t lbl_ipa in
    let b := compute_b cfg z in
    if negb (Nat.eqb (length a) (length b)) then None else
    let ip := inner fo a b in
    let t := t_append_point t (genc go commitment) lbl_C in
    let t := t_append_scalar fo t z lbl_input_point in
    let t := t_append_scalar fo t ip lbl_output_point in
    let '(t, w) := t_challenge fo hashf t lbl_w in
    let q := gmul go w (c_Q cfg) in
    let '(t, L, R, a') := ipa_rounds (c_rounds cfg) t q a b (c_srs cfg) [] [] in
    match a' with
    | [a0] => Some (t, mkIPA L R a0)
    | _ => None
    end.

  Fixpoint gen_challenges (t : tstate) (L R : list G) : tstate * list F :=
    match L, R with
    | l :: L', r :: R' =>
        let t := t_append_point t (genc go l) lbl_L in
        let t := t_append_point t (genc go r) lbl_R in
        let '(t, x) := t_challenge fo hashf t lbl_x in
        let '(t, xs) := gen_challenges t L' R' in (t, x :: xs)
    | _, _ => (t, [])
    end.

  (* folding scalar for index i: product of xinv_j over j with bit (k-1-j) of i set *)
  Fixpoint folding_scalar_aux (k : nat) (j : nat) (xinvs : list F) (i : nat) (acc : F) : F :=
    match xinvs with
    | [] => acc
    | xi :: rest =>
        let acc' := if Nat.testbit i (k - 1 - j) then fmul fo acc xi else acc in
        folding_scalar_aux k (S j) rest i acc'
    end.
  Definition folding_scalars (k : nat) (xinvs : list F) (n : nat) : list F :=
    map (fun i => folding_scalar_aux k 0 xinvs i (f1 fo)) (seq 0 n).

  Fixpoint fold_commitment (c : G) (xs xinvs : list F) (L R : list G) : G :=
    match xs, xinvs, L, R with
    | x :: xs', xi :: xinvs', l :: L', r :: R' =>
        fold_commitment (msm go [c; l; r] [f1 fo; x; xi]) xs' xinvs' L' R'
    | _, _, _, _ => c
    end.

  (* CheckIPAProof; None = error (shape), Some b = decision *)
  Definition ipa_check (t : tstate) (cfg : config) (commitment : G) (pr : ipa_proof)
             (z result : F) : option (tstate * bool) :=
    let t := t_domain_sep t lbl_ipa in
    if negb (Nat.eqb (length (pL pr)) (length (pR pr))) then None else
    if negb (Nat.eqb (length (pL pr)) (c_rounds cfg)) then None else
    let b := compute_b cfg z in
    let t := t_append_point t (genc go commitment) lbl_C in
    let t := t_append_scalar fo t z lbl_input_point in
    let t := t_append_scalar fo t result lbl_output_point in
    let '(t, w) := t_challenge fo hashf t lbl_w in
    let q := gmul go w (c_Q cfg) in
    let commitment := gadd go commitment (gmul go result q) in
    let '(t, xs) := gen_challenges t (pL pr) (pR pr) in
    let xinvs := batch_invert fo xs in
    let commitment := fold_commitment commitment xs xinvs (pL pr) (pR pr) in
    let fs := folding_scalars (length xs) xinvs (length (c_srs cfg)) in
    let g0' := msm go (c_srs cfg) fs in
    let b0 := inner fo b fs in
    let got := gadd go (gmul go (pA pr) g0') (gmul go (fmul fo b0 (pA pr)) q) in
    Some (t, geqb go got commitment).
End IPA.
