(* Concrete instantiation of the generic model with Fr, Banderwagon and
   SHA-256: the functions that are extracted and run against the code. *)
From Coq Require Import ZArith List Bool.
From GoIpa Require Import Model.Bytes Model.Zq Model.Sha256 Model.Alg Model.Transcript
  Model.Edwards Model.FpSqrt Model.Banderwagon Model.Codec Model.Bary Model.IPA
  Model.Multiproof Model.Serde Model.Pippenger Model.Mont Model.Precomp.
Import ListNotations.
Open Scope Z_scope.

(* "eth_verkle_oct_2021" *)
Definition crs_seed : list Z :=
  [101; 116; 104; 95; 118; 101; 114; 107; 108; 101; 95; 111; 99; 116; 95; 50; 48; 50; 49].

(* ipa.GenerateRandomPoints; fuel bounds the number of candidate x tried *)
Fixpoint gen_points (fuel need : nat) (incr : Z) : list element :=
  match fuel with
  | O => []
  | S f =>
      match need with
      | O => []
      | S need' =>
          let h := sha256 (crs_seed ++ be_enc 8 incr) in
          let x := fp (be_val h) in
          match bw_set_bytes (fp_bytes x) false with
          | inl p => p :: gen_points f need' (incr + 1)
          | inr _ => gen_points f need (incr + 1)
          end
      end
  end.

Definition c_weights : weights (F := Fr) := new_weights fro 256.
Definition c_config (srs : list element) : config (F := Fr) (G := element) :=
  mkCfg 256 8 srs bw_generator c_weights.

(* Commit = sum v_i * G_i (specification) *)
Definition c_commit (srs : list element) (v : list Fr) : element := msm bwo srs v.

Definition c_transcript_run (label : list Z) (ops : list top) : list Fr :=
  snd (t_run fro sha256 (t_new label) ops).
Definition c_transcript_spec_run (label : list Z) (ops : list top) : list Fr :=
  snd (sp_run fro sha256 (sp_new label) ops).

Definition c_ipa_create := ipa_create fro bwo sha256.
Definition c_ipa_check := ipa_check fro bwo sha256.
Definition c_mp_create (nw : nat) (arrival : list nat) t srs :=
  mp_create fro bwo sha256 nw arrival t (c_config srs) (c_commit srs).
Definition c_mp_check := mp_check fro bwo sha256.
Definition c_challenge := t_challenge fro sha256.
Definition c_divide_on_domain := divide_on_domain fro 256 c_weights.
Definition c_bary_coeffs := bary_coeffs fro 256 (batch_invert fro) c_weights.
Definition c_compute_b srs := compute_b fro (c_config srs).
Definition c_batch_invert_fr := batch_invert fro.
Definition c_batch_invert_fp := batch_invert fpo.
Definition c_inner := inner fro.
Definition c_msm := msm bwo.

(* algorithm-level MSM (bucket method) instantiated with the concrete group *)
Definition c_msm_inner (c : Z) (points : list element) (scalars : list Fr) (split_first : bool) : element :=
  msm_inner bwo c points (fst (partition_scalars c (map zval scalars))) split_first.

(* the whole of MultiExp (window / split choice, slices, completion order given by [rev_order]) *)
Definition c_multi_exp (nbTasks : Z) (rev_order : bool) (points : list element) (scalars : list Fr)
           (split_first : bool) : option element :=
  multi_exp_top bwo 40 nbTasks (fun k => if rev_order then rev (seq 0 (k - 1)) else seq 0 (k - 1))
                points (map zval scalars) split_first.

(* fr.BatchInvert on Montgomery representatives *)
Definition monto : FOps Z :=
  mkFOps Z 0 i_one i_add i_sub i_mul i_neg i_inverse Z.eqb (fun v => i_to_mont v) (fun x => i_from_mont x).
Definition c_batch_invert_mont := batch_invert monto.

(* algorithm-level commitment: precomputed window tables (banderwagon/precomp.go) *)
Definition c_pc_table (i : nat) (p : element) : Z * list (list element) :=
  let w := pc_window_size i in (w, pc_table fro bwo (pc_nwindows w) w p).
Definition c_pc_scalar_mul (wt : Z * list (list element)) (s : Fr) (res : element) : element :=
  if zval s =? 0 then res else pc_scalar_mul bwo (fst wt) (snd wt) (zval s) res.
