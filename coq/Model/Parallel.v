(* Model of common/parallel/execute.go:Execute (range computation) and of the
   spawn / WaitGroup join protocol.  Executable definitions only. *)
From Coq Require Import ZArith List Bool.
Import ListNotations.
Open Scope Z_scope.

(* ---- range computation: mirrors the Go loop line by line ---- *)

(* loop state: i, extraTasks, extraTasksOffset; k = remaining iterations *)
Fixpoint ranges_loop (k : nat) (i per extra off : Z) : list (Z * Z) :=
  match k with
  | O => []
  | S k' =>
      let s := i * per + off in
      let e := s + per in
      if 0 <? extra
      then (s, e + 1) :: ranges_loop k' (i + 1) per (extra - 1) (off + 1)
      else (s, e) :: ranges_loop k' (i + 1) per extra off
  end.

(* nbIterations = n, nbTasks = m (maxCpus[0] or runtime.NumCPU()) *)
Definition execute_ranges (n m : Z) : list (Z * Z) :=
  let per0 := n / m in
  let per := if per0 <? 1 then 1 else per0 in
  let tasks := if per0 <? 1 then n else m in
  let extra := n - tasks * per in
  ranges_loop (Z.to_nat tasks) 0 per extra 0.

(* ---- spawn / WaitGroup transition system ----
   Main thread: for each of k tasks { wg.Add(1); go task } ; wg.Wait() ; return.
   A task: run work ; wg.Done().
   State: tospawn = tasks main has not spawned yet,
          running = identifiers of tasks spawned and not finished,
          finished = identifiers of tasks whose work function has returned,
          wg = WaitGroup counter, returned = main has passed wg.Wait(). *)
Record jstate := mkJ {
  tospawn : list nat;
  running : list nat;
  finished : list nat;
  wg : Z;
  returned : bool
}.

Inductive jstep_label := JSpawn | JFinish (t : nat) | JReturn.

Fixpoint remove_first (t : nat) (l : list nat) : option (list nat) :=
  match l with
  | [] => None
  | x :: xs => if Nat.eqb x t then Some xs
               else match remove_first t xs with
                    | Some r => Some (x :: r) | None => None end
  end.

(* partial step function: None = the step is not enabled *)
Definition jstep (s : jstate) (l : jstep_label) : option jstate :=
  if returned s then None else
  match l with
  | JSpawn =>
      match tospawn s with
      | [] => None
      | t :: ts => Some (mkJ ts (t :: running s) (finished s) (wg s + 1) false)
      end
  | JFinish t =>
      match remove_first t (running s) with
      | None => None
      | Some r => Some (mkJ (tospawn s) r (t :: finished s) (wg s - 1) false)
      end
  | JReturn =>
      match tospawn s with
      | [] => if wg s =? 0 then Some (mkJ [] (running s) (finished s) (wg s) true) else None
      | _ => None
      end
  end.

Definition jinit (tasks : list nat) : jstate := mkJ tasks [] [] 0 false.

Fixpoint jrun (s : jstate) (ls : list jstep_label) : option jstate :=
  match ls with
  | [] => Some s
  | l :: ls' => match jstep s l with Some s' => jrun s' ls' | None => None end
  end.

(* ---- channel fan-in: k senders each send one value on a channel of capacity cap,
   one receiver takes k values (groupPolynomialsByEvaluationPoint: cap 0;
   partitionScalars: cap = nbTasks >= number of Execute tasks; MSM splits; chunk channels) ---- *)
Record fstate := mkF { f_tosend : nat; f_buf : nat; f_recv : nat }.
Inductive flabel := FSend | FRecv | FHandoff.
Definition fstep (cap k : nat) (s : fstate) (l : flabel) : option fstate :=
  match l with
  | FSend => if (0 <? f_tosend s)%nat && (f_buf s <? cap)%nat
             then Some (mkF (f_tosend s - 1) (f_buf s + 1) (f_recv s)) else None
  | FRecv => if (0 <? f_buf s)%nat && (f_recv s <? k)%nat
             then Some (mkF (f_tosend s) (f_buf s - 1) (f_recv s + 1)) else None
  | FHandoff => if (0 <? f_tosend s)%nat && (f_buf s =? 0)%nat && (f_recv s <? k)%nat
                then Some (mkF (f_tosend s - 1) 0 (f_recv s + 1)) else None
  end.
Definition finit (senders : nat) : fstate := mkF senders 0 0.
Fixpoint frun (cap k : nat) (s : fstate) (ls : list flabel) : option fstate :=
  match ls with
  | [] => Some s
  | l :: ls' => match fstep cap k s l with Some s' => frun cap k s' ls' | None => None end
  end.
