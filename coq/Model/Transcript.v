(* Model of common/transcript.go.  Implementation level: the running SHA-256
   state is represented by the bytes written into it since the last reset
   ([absorbed]); [buff] is the bytes.Buffer of pending appends. *)
From Coq Require Import ZArith List.
From GoIpa Require Import Model.Bytes Model.Alg.
Import ListNotations.
Open Scope Z_scope.

Record tstate : Type := mkT { absorbed : list Z; buff : list Z }.

Section Transcript.
  Context {F : Type} (fo : FOps F) (hashf : list Z -> list Z).

  Definition t_new (label : list Z) : tstate := mkT label [].
  Definition t_domain_sep (t : tstate) (label : list Z) : tstate :=
    mkT (absorbed t) (buff t ++ label).
  Definition t_append_message (t : tstate) (msg label : list Z) : tstate :=
    mkT (absorbed t) ((buff t ++ label) ++ msg).
  Definition scalar_bytes (s : F) : list Z := le_enc 32 (f2z fo s).
  Definition t_append_scalar (t : tstate) (s : F) (label : list Z) : tstate :=
    t_append_message t (scalar_bytes s) label.
  (* AppendPoint: the caller passes point.Bytes() *)
  Definition t_append_point (t : tstate) (pbytes label : list Z) : tstate :=
    t_append_message t pbytes label.

  Definition t_challenge (t : tstate) (label : list Z) : tstate * F :=
    let t1 := t_domain_sep t label in
    let digest := hashf (absorbed t1 ++ buff t1) in
    let c := fofz fo (le_val digest) in
    (* state.Reset(); buff.Reset(); AppendScalar(c, label) *)
    (t_append_scalar (mkT [] []) c label, c).
End Transcript.

(* Specification level: one pending byte string. *)
Section Spec.
  Context {F : Type} (fo : FOps F) (hashf : list Z -> list Z).
  Definition sp_new (label : list Z) : list Z := label.
  Definition sp_append (pend msg label : list Z) : list Z := pend ++ label ++ msg.
  Definition sp_challenge (pend label : list Z) : list Z * F :=
    let c := fofz fo (le_val (hashf (pend ++ label))) in
    (label ++ le_enc 32 (f2z fo c), c).
End Spec.

(* operation sequences, for the history-level statements and the harness *)
Inductive top : Type :=
| TDomainSep (label : list Z)
| TMessage (msg label : list Z)
| TScalar (s : Z) (label : list Z)          (* scalar given by its integer value *)
| TPoint (pbytes label : list Z)            (* point given by its Bytes() *)
| TChallenge (label : list Z).

Section Run.
  Context {F : Type} (fo : FOps F) (hashf : list Z -> list Z).
  Fixpoint t_run (t : tstate) (ops : list top) : tstate * list F :=
    match ops with
    | [] => (t, [])
    | o :: ops' =>
        match o with
        | TDomainSep l => t_run (t_domain_sep t l) ops'
        | TMessage m l => t_run (t_append_message t m l) ops'
        | TScalar s l => t_run (t_append_scalar fo t (fofz fo s) l) ops'
        | TPoint p l => t_run (t_append_point t p l) ops'
        | TChallenge l =>
            let '(t', c) := t_challenge fo hashf t l in
            let '(t'', cs) := t_run t' ops' in (t'', c :: cs)
        end
    end.

  Fixpoint sp_run (pend : list Z) (ops : list top) : list Z * list F :=
    match ops with
    | [] => (pend, [])
    | o :: ops' =>
        match o with
        | TDomainSep l => sp_run (pend ++ l) ops'
        | TMessage m l => sp_run (sp_append pend m l) ops'
        | TScalar s l => sp_run (sp_append pend (le_enc 32 (f2z fo (fofz fo s))) l) ops'
        | TPoint p l => sp_run (sp_append pend p l) ops'
        | TChallenge l =>
            let '(pend', c) := sp_challenge fo hashf pend l in
            let '(pend'', cs) := sp_run pend' ops' in (pend'', c :: cs)
        end
    end.
End Run.
