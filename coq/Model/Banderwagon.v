(* Model of package banderwagon (element.go) and of bandersnatch.computeY /
   GetPointFromX, on the concrete base field Fp. *)
From Coq Require Import ZArith List Bool.
From GoIpa Require Import Model.Bytes Model.Zq Model.Alg Model.Edwards Model.FpSqrt.
Import ListNotations.
Open Scope Z_scope.

Definition bw_a : Fp := fp (-5).
Definition bw_d : Fp := fp 45022363124591815672509500913686876175488063829319466900776701791074614335719.
Definition bw_gen_x : Fp := fp 18886178867200960497001835917649091219057080094937609519140440539760939937304.
Definition bw_gen_y : Fp := fp 19188667384257783945677642223292697773471335439753913231509108946878080696678.

Definition element : Type := (Fp * Fp * Fp)%type.       (* inner PointProj X, Y, Z *)

Definition bw_generator : element := (bw_gen_x, bw_gen_y, zq_one).
Definition bw_identity : element := (zq_zero, zq_one, zq_one).

Definition bw_add : element -> element -> element := p_add fpo bw_a bw_d.
Definition bw_double : element -> element := p_double fpo bw_a.
Definition bw_neg : element -> element := p_neg fpo.
Definition bw_sub (p q : element) : element := bw_add p (bw_neg q).
Definition bw_add_mixed : element -> Fp * Fp -> element := p_mixed_add fpo bw_a bw_d.
(* specification of ScalarMul: double-and-add on the canonical value of the scalar *)
Definition bw_smul (s : Fr) (p : element) : element := p_smul fpo bw_a bw_d (zval s) p.

(* affine coordinates as computed by Bytes(): Z = 1 fast path, else FromProj *)
Definition bw_affine (p : element) : Fp * Fp :=
  let '(X, Y, Z) := p in
  if zq_eqb Z zq_one then (X, Y) else p_to_affine fpo p.

Definition fp_bytes (x : Fp) : list Z := be_enc 32 (zval x).

Definition bw_bytes (p : element) : list Z :=
  let '(x, y) := bw_affine p in
  fp_bytes (if zq_lex_largest y then x else zq_neg x).

Definition bw_bytes_uncompressed (p : element) : list Z :=
  let '(x, y) := p_to_affine fpo p in fp_bytes x ++ fp_bytes y.

Definition bw_equal (p q : element) : bool :=
  let '(x1, y1, _) := p in let '(x2, y2, _) := q in
  if zq_is_zero x1 && zq_is_zero y1 then false
  else if zq_is_zero x2 && zq_is_zero y2 then false
  else zq_eqb (zq_mul x1 y2) (zq_mul y1 x2).

(* bandersnatch.computeY / GetPointFromX *)
Definition compute_y (x : Fp) (choose_largest : bool) : option Fp :=
  let x2 := zq_mul x x in
  let den := zq_sub (zq_mul x2 bw_d) zq_one in
  let num := zq_sub (zq_mul x2 bw_a) zq_one in
  match sqrt_precomp (zq_div num den) with
  | None => None
  | Some s => if Bool.eqb choose_largest (zq_lex_largest s) then Some s else Some (zq_neg s)
  end.

Definition get_point_from_x (x : Fp) (choose_largest : bool) : option (Fp * Fp) :=
  match compute_y x choose_largest with
  | None => None
  | Some y => Some (x, y)
  end.

(* subgroupCheck: Legendre(1 - a x^2) must be +1 *)
Definition subgroup_check (x : Fp) : bool :=
  0 <? zq_legendre (zq_sub zq_one (zq_mul (zq_mul x x) bw_a)).

Inductive dec_err : Type := ErrSize | ErrNonCanonical | ErrNotOnCurve | ErrWrongY | ErrSubgroup.

(* Element.setBytes *)
Definition bw_set_bytes (buf : list Z) (trusted : bool) : element + dec_err :=
  if negb (len buf =? 32) then inr ErrSize else
  let v := be_val buf in
  if negb (v <? p_mod) then inr ErrNonCanonical else
  let x := fp v in
  match get_point_from_x x true with
  | None => inr ErrNotOnCurve
  | Some (px, py) =>
      if negb trusted && negb (subgroup_check x) then inr ErrSubgroup
      else inl (px, py, zq_one)
  end.

(* Element.SetBytesUncompressed.  [canonical_x] selects the decoder used for x:
   false = the reducing fp.SetBytes, true = SetBytesCanonical *)
Definition bw_set_bytes_uncompressed (canonical_x : bool) (buf : list Z) (trusted : bool)
  : element + dec_err :=
  if negb (len buf =? 64) then inr ErrSize else
  let xb := firstn 32 buf in
  let yb := skipn 32 buf in
  if canonical_x && negb trusted && negb (be_val xb <? p_mod) then inr ErrNonCanonical else
  let x := fp (be_val xb) in
  if trusted then inl (x, fp (be_val yb), zq_one) else
  match get_point_from_x x true with
  | None => inr ErrNotOnCurve
  | Some (_, py) =>
      if negb (list_eqb (fp_bytes py) yb) then inr ErrWrongY
      else if negb (subgroup_check x) then inr ErrSubgroup
      else inl (x, py, zq_one)
  end.

(* MapToScalarField: X / Y in Fp, little-endian integer reduced mod r *)
Definition bw_map_to_base (p : element) : Fp := let '(X, Y, _) := p in zq_div X Y.
Definition bw_map_to_scalar (p : element) : Fr := fr (zval (bw_map_to_base p)).

(* Normalize: error (None) when Z = 0 *)
Definition bw_normalize (p : element) : option element :=
  let '(X, Y, Z) := p in
  if zq_is_zero Z then None else
  let '(x, y) := p_to_affine fpo p in Some (x, y, zq_one).

Definition bw_is_on_curve (p : element) : bool := on_curve fpo bw_a bw_d (p_to_affine fpo p).

(* the group operations record used by the protocol-level model *)
Definition bwo : GOps Fr element :=
  mkGOps Fr element bw_identity bw_add bw_neg bw_smul bw_equal bw_bytes.

(* ---- batch helpers, mirroring the code's batch inversion ---- *)
(* Montgomery batch inversion with zero skipping (fp.BatchInvert / fr.BatchInvert) *)
Section Batch.
  Context {F : Type} (fo : FOps F).
  (* forward pass: prefix products (skipping zeros) *)
  Fixpoint bi_forward (acc : F) (l : list F) : list F * F :=
    match l with
    | [] => ([], acc)
    | x :: l' =>
        if feqb fo x (f0 fo)
        then let '(r, a) := bi_forward acc l' in (f0 fo :: r, a)
        else let '(r, a) := bi_forward (fmul fo acc x) l' in (acc :: r, a)
    end.
  (* backward pass over the reversed lists *)
  Fixpoint bi_backward (accinv : F) (rev_in rev_pre : list F) : list F :=
    match rev_in, rev_pre with
    | x :: xs, pr :: prs =>
        if feqb fo x (f0 fo)
        then f0 fo :: bi_backward accinv xs prs
        else fmul fo pr accinv :: bi_backward (fmul fo accinv x) xs prs
    | _, _ => []
    end.
  Definition batch_invert (l : list F) : list F :=
    let '(pre, acc) := bi_forward (f1 fo) l in
    rev (bi_backward (finv fo acc) (rev l) (rev pre)).
End Batch.

Definition bw_elements_to_bytes (ps : list element) : list (list Z) :=
  let zinvs := batch_invert fpo (map (fun p : element => let '(_, _, Z) := p in Z) ps) in
  map (fun pz : element * Fp =>
         let '((X, Y, _), zi) := pz in
         let x := zq_mul X zi in let y := zq_mul Y zi in
         fp_bytes (if zq_lex_largest y then x else zq_neg x)) (combine ps zinvs).

Definition bw_batch_to_bytes_uncompressed (ps : list element) : list (list Z) :=
  let zinvs := batch_invert fpo (map (fun p : element => let '(_, _, Z) := p in Z) ps) in
  map (fun pz : element * Fp =>
         let '((X, Y, _), zi) := pz in
         fp_bytes (zq_mul X zi) ++ fp_bytes (zq_mul Y zi)) (combine ps zinvs).

Definition bw_batch_map_to_scalar (ps : list element) : list Fr :=
  let yinvs := batch_invert fpo (map (fun p : element => let '(_, Y, _) := p in Y) ps) in
  map (fun py : element * Fp =>
         let '((X, _, _), yi) := py in fr (zval (zq_mul X yi))) (combine ps yinvs).

(* ---- BatchNormalize over a store of elements addressed by index (pointer) ----
   The code de-duplicates the pointers with a map, fails without touching anything
   if some pointed element has Z = 0, and otherwise normalises every pointed
   element; [idxs] is the pointer list in ANY enumeration order, duplicates allowed. *)
Definition zcoord_of (p : element) : Fp := let '(_, _, Z) := p in Z.
Fixpoint set_nth {A} (l : list A) (k : nat) (v : A) : list A :=
  match l, k with
  | [], _ => []
  | _ :: l', O => v :: l'
  | x :: l', S k' => x :: set_nth l' k' v
  end.
Definition norm1 (p : element) : element :=
  match bw_normalize p with Some q => q | None => p end.
Definition bw_batch_normalize (st : list element) (idxs : list nat) : option (list element) :=
  if existsb (fun i => zq_is_zero (zcoord_of (nth i st bw_identity))) idxs then None
  else Some (fold_left (fun s i => set_nth s i (norm1 (nth i s bw_identity))) idxs st).
