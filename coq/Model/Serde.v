(* Model of the proof (de)serialisation: io.Reader / io.Writer behaviours,
   io.ReadAtLeast, common.ReadPoint / ReadScalar, IPAProof.Read/Write,
   MultiProof.Read/Write. *)
From Coq Require Import ZArith List Bool.
From GoIpa Require Import Model.Bytes Model.Zq Model.Alg Model.Codec Model.FpSqrt Model.Banderwagon.
Import ListNotations.
Open Scope Z_scope.

(* ---- reader model ----
   data: the stream; plan: maximal chunk size of successive Read calls (>= 1,
   exhausted plan = unlimited); eof_with_data: the reader returns io.EOF
   together with the last bytes (iotest.DataErrReader style) instead of on the
   next call; fail_at: Some k = an I/O error is raised once k bytes were
   delivered (k < length data). *)
Record reader : Type := mkR {
  r_data : list Z; r_plan : list Z; r_eof_with_data : bool; r_fail_at : option Z; r_pos : Z }.

Inductive rerr : Type := RNone | REOF | RFail.

(* one Read(buf) call with len(buf) = want >= 1 *)
Definition r_read (r : reader) (want : Z) : list Z * rerr * reader :=
  let limit := match r_fail_at r with Some k => k | None => len (r_data r) + r_pos r end in
  (* r_data holds the undelivered suffix; r_pos = bytes delivered so far *)
  let avail := Z.min (len (r_data r)) (limit - r_pos r) in
  if avail <=? 0 then
    ([], if len (r_data r) =? 0 then REOF else RFail, r)
  else
    let chunk := match r_plan r with c :: _ => Z.max 1 c | [] => want end in
    let m := Z.min want (Z.min chunk avail) in
    let out := firstn (Z.to_nat m) (r_data r) in
    let rest := skipn (Z.to_nat m) (r_data r) in
    let r' := mkR rest (tl (r_plan r)) (r_eof_with_data r) (r_fail_at r) (r_pos r + m) in
    let at_end := (len rest =? 0) in
    (out, if r_eof_with_data r && at_end then REOF else RNone, r').

Inductive ral_res : Type := RalOk | RalErr.

(* io.ReadAtLeast(r, buf[32], 32): loop while n < min && err == nil *)
Fixpoint read_at_least (fuel : nat) (r : reader) (got : list Z) (min : Z) : list Z * ral_res * reader :=
  match fuel with
  | O => (got, RalErr, r)
  | S f =>
      if min <=? len got then (got, RalOk, r) else
      let '(bs, e, r') := r_read r (min - len got) in
      let got' := got ++ bs in
      match e with
      | RNone => read_at_least f r' got' min
      | _ => (got', if min <=? len got' then RalOk else RalErr, r')
      end
  end.

Inductive serr : Type := SErrIO | SErrPoint (e : dec_err) | SErrScalar | SErrTrailing.

Definition read_point (r : reader) : (element * reader) + serr :=
  let '(bs, res, r') := read_at_least 40 r [] 32 in
  match res with
  | RalErr => inr SErrIO
  | RalOk => match bw_set_bytes bs false with
             | inl p => inl (p, r')
             | inr e => inr (SErrPoint e)
             end
  end.

Definition read_scalar (r : reader) : (Fr * reader) + serr :=
  let '(bs, res, r') := read_at_least 40 r [] 32 in
  match res with
  | RalErr => inr SErrIO
  | RalOk => match fst (fr_set_bytes_le_canonical bs) with
             | Some s => inl (s, r')
             | None => inr SErrScalar
             end
  end.

Fixpoint read_points (k : nat) (r : reader) : (list element * reader) + serr :=
  match k with
  | O => inl ([], r)
  | S k' => match read_point r with
            | inr e => inr e
            | inl (p, r') => match read_points k' r' with
                             | inr e => inr e
                             | inl (ps, r'') => inl (p :: ps, r'')
                             end
            end
  end.

Record ipa_bytes_proof : Type := mkIB { ibL : list element; ibR : list element; ibA : Fr }.

Definition ipa_read (r : reader) : (ipa_bytes_proof * reader) + serr :=
  match read_points 8 r with
  | inr e => inr e
  | inl (L, r1) =>
      match read_points 8 r1 with
      | inr e => inr e
      | inl (R, r2) =>
          match read_scalar r2 with
          | inr e => inr e
          | inl (a, r3) => inl (mkIB L R a, r3)
          end
      end
  end.

(* MultiProof.Read.  [strict_probe] = false models the pinned commit (the EOF
   probe looks only at the error), true the repaired probe (n = 0 and io.EOF) *)
Definition mp_read (strict_probe : bool) (r : reader) : (element * ipa_bytes_proof) + serr :=
  match read_point r with
  | inr e => inr e
  | inl (D, r1) =>
      match ipa_read r1 with
      | inr e => inr e
      | inl (ip, r2) =>
          let '(bs, e, _) := r_read r2 1 in
          match e with
          | REOF => if strict_probe && negb (len bs =? 0) then inr SErrTrailing else inl (D, ip)
          | _ => inr SErrTrailing
          end
      end
  end.

(* ---- writer model: the k-th Write call fails (None = never) ---- *)
Definition ipa_write_chunks (ip : ipa_bytes_proof) : list (list Z) :=
  map bw_bytes (ibL ip) ++ map bw_bytes (ibR ip) ++ [fr_bytes_le (ibA ip)].
Definition mp_write_chunks (D : element) (ip : ipa_bytes_proof) : list (list Z) :=
  bw_bytes D :: ipa_write_chunks ip.

(* returns the bytes that reached the writer and whether Write returned an error *)
Fixpoint write_all (chunks : list (list Z)) (fail_at : option nat) (written : list Z) : list Z * bool :=
  match chunks with
  | [] => (written, false)
  | c :: cs =>
      match fail_at with
      | Some O => (written, true)
      | Some (S k) => write_all cs (Some k) (written ++ c)
      | None => write_all cs None (written ++ c)
      end
  end.
