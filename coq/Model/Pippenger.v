(* Model of bandersnatch/multiexp.go: signed-digit partitioning of the scalars
   (limb level, as coded), bucket method per chunk, chunk combination, the
   recursive split loop and the split sum. *)
From Coq Require Import ZArith List Bool.
From GoIpa Require Import Model.Alg.
Import ListNotations.
Open Scope Z_scope.

Definition u64 (x : Z) : Z := x mod 2 ^ 64.
Definition limb (s i : Z) : Z := (s / 2 ^ (64 * i)) mod 2 ^ 64.

Definition nb_chunks (c : Z) : Z := 256 / c + (if 256 mod c =? 0 then 0 else 1).

Record selector : Type := mkSel {
  s_index : Z; s_mask : Z; s_shift : Z; s_multi : bool; s_maskHigh : Z; s_shiftHigh : Z }.

Definition mk_selector (c chunk : Z) : selector :=
  let jc := chunk * c in
  let index := jc / 64 in
  let shift := jc - index * 64 in
  let mask := u64 (Z.shiftl (2 ^ c - 1) shift) in
  let multi := negb (64 mod c =? 0) && (64 - c <? shift) && (index <? 3) in
  if multi
  then let nbh := shift - (64 - c) in mkSel index mask shift true (2 ^ nbh - 1) (c - nbh)
  else mkSel index mask shift false 0 0.

(* bits selected from a 4-limb value by a selector *)
Definition sel_bits (s : Z) (sel : selector) : Z :=
  Z.shiftr (Z.land (limb s (s_index sel)) (s_mask sel)) (s_shift sel)
  + (if s_multi sel
     then Z.shiftl (Z.land (limb s (s_index sel + 1)) (s_maskHigh sel)) (s_shiftHigh sel)
     else 0).

(* out[i] |= v  on a value represented by its integer (limbs packed) *)
Definition or_limb (out i v : Z) : Z := Z.lor out (Z.shiftl v (64 * i)).

(* the per-scalar chunk loop of partitionScalars; s = regular (non-Montgomery) value *)
Fixpoint part_loop (fuel : nat) (c s chunk carry out : Z) : Z * Z :=
  match fuel with
  | O => (out, carry)
  | S f =>
      let sel := mk_selector c chunk in
      let digit0 := carry + sel_bits s sel in
      if digit0 =? 0 then part_loop f c s (chunk + 1) 0 out else
      let over := 2 ^ (c - 1) <=? digit0 in
      let digit := if over then digit0 - 2 ^ c else digit0 in
      let carry' := if over then 1 else 0 in
      let bits := if 0 <=? digit then digit else Z.lor (- digit - 1) (2 ^ (c - 1)) in
      let out1 := or_limb out (s_index sel) (u64 (Z.shiftl bits (s_shift sel))) in
      let out2 := if s_multi sel
                  then or_limb out1 (s_index sel + 1) (Z.shiftr bits (s_shiftHigh sel))
                  else out1 in
      part_loop f c s (chunk + 1) carry' out2
  end.

(* one scalar: (packed digits as a 256-bit integer, counted as "small value"?) *)
Definition partition_scalar (c s : Z) : Z * bool :=
  let is_u64 := s <? 2 ^ 64 in
  if is_u64 && (s =? 0) then (0, false) else
  let small := is_u64 && (Z.land s (2 ^ c - 1) =? s) in
  (fst (part_loop (Z.to_nat (nb_chunks c)) c s 0 0 0), small).

Definition partition_scalars (c : Z) (ss : list Z) : list Z * Z :=
  let rs := map (partition_scalar c) ss in
  (map fst rs, Z.of_nat (length (filter (fun r => snd r) rs))).

(* signed digit read back from the packed value by the chunk processor *)
Definition chunk_bits (c packed chunk : Z) : Z := sel_bits packed (mk_selector c chunk).
Definition signed_of_bits (c bits : Z) : Z :=
  if bits =? 0 then 0
  else if Z.land bits (2 ^ (c - 1)) =? 0 then bits
  else - (Z.land bits (2 ^ (c - 1) - 1)) - 1.

(* arithmetic specification of the recoding: windows with carry *)
Fixpoint recode (fuel : nat) (c s carry : Z) : list Z * Z :=
  match fuel with
  | O => ([], carry)
  | S f =>
      let w := carry + s mod 2 ^ c in
      let over := 2 ^ (c - 1) <=? w in
      let d := if over then w - 2 ^ c else w in
      let '(ds, cf) := recode f c (s / 2 ^ c) (if over then 1 else 0) in
      (d :: ds, cf)
  end.

(* ---- group level ---- *)
Section Group.
  Context {F G : Type} (go : GOps F G).

  Fixpoint list_update {A} (l : list A) (k : nat) (f : A -> A) : list A :=
    match l, k with
    | [], _ => []
    | x :: l', O => f x :: l'
    | x :: l', S k' => x :: list_update l' k' f
    end.

  (* msmProcessChunk: accumulate into buckets, then running sum.
     digits are given as signed integers (0 = skip) *)
  Definition bucket_accumulate (nbuckets : nat) (pds : list (G * Z)) : list G :=
    fold_left (fun buckets (pd : G * Z) =>
                 let '(p, d) := pd in
                 if d =? 0 then buckets
                 else if 0 <? d then list_update buckets (Z.to_nat (d - 1)) (fun b => gadd go p b)
                 else list_update buckets (Z.to_nat (- d - 1)) (fun b => gadd go b (gneg go p)))
              pds (repeat (g0 go) nbuckets).

  (* for k = len-1 downto 0: runningSum += buckets[k]; total += runningSum *)
  Definition bucket_reduce (buckets : list G) : G :=
    snd (fold_right (fun b (st : G * G) =>
                       let running := gadd go (fst st) b in
                       (running, gadd go (snd st) running))
                    (g0 go, g0 go) buckets).

  Definition process_chunk (nbuckets : nat) (pds : list (G * Z)) : G :=
    bucket_reduce (bucket_accumulate nbuckets pds).

  Fixpoint gdouble_n (n : nat) (p : G) : G :=
    match n with O => p | S n' => gdouble_n n' (gadd go p p) end.

  (* msmReduceChunk: totals given lowest chunk first *)
  Definition reduce_chunks (c : nat) (totals_rev : list G) : G :=
    (* totals_rev = highest chunk first *)
    match totals_rev with
    | [] => g0 go
    | t :: rest =>
        fold_left (fun acc tj => gadd go (gdouble_n c acc) tj) rest t
    end.

  (* digits of all scalars for chunk j *)
  Definition chunk_pds (c : Z) (points : list G) (packed : list Z) (j : Z) : list (G * Z) :=
    combine points (map (fun pk => signed_of_bits c (chunk_bits c pk j)) packed).

  (* msmCk: chunk 0 possibly split in two halves at len/2 *)
  Definition msm_inner (c : Z) (points : list G) (packed : list Z) (split_first : bool) : G :=
    let nb := nb_chunks c in
    let full := Z.to_nat (2 ^ (c - 1)) in
    let lastc := 256 - c * (256 / c) in
    let nbuckets (j : Z) : nat :=
      if (256 mod c =? 0) then full
      else if j =? nb - 1 then Z.to_nat (2 ^ (lastc - 1)) else full in
    let total (j : Z) : G :=
      if (j =? 0) && split_first then
        let h := Nat.div (length points) 2 in
        gadd go (process_chunk (nbuckets 0) (chunk_pds c (firstn h points) (firstn h packed) 0))
                (process_chunk (nbuckets 0) (chunk_pds c (skipn h points) (skipn h packed) 0))
      else process_chunk (nbuckets j) (chunk_pds c points packed j) in
    let js := map Z.of_nat (seq 0 (Z.to_nat nb)) in
    reduce_chunks (Z.to_nat c) (rev (map total js)).
End Group.

(* ---- MultiExp: choice of window and number of splits ---- *)
Fixpoint split_loop (fuel : nat) (bestC : Z -> Z) (nbTasks nbPoints nbSplits : Z) : option (Z * Z * Z) :=
  match fuel with
  | O => None
  | S f =>
      let c := bestC nbPoints in
      let nbChunks := nb_chunks c * nbSplits in
      if nbChunks <? nbTasks
      then split_loop f bestC nbTasks (nbPoints / 2) (nbSplits * 2)
      else Some (c, nbSplits, nbPoints)
  end.

(* bestC: the cost model of the code on exact rationals:
   cost(c) = 256 * (n + 2^c) / c, minimised over the implemented windows, first minimum wins *)
Definition implemented_cs : list Z := [4; 5; 6; 7; 8; 9; 10; 11; 12; 13; 14; 15; 16; 20; 21].
Definition best_c (nbPoints : Z) : Z :=
  fst (fold_left (fun (best : Z * (Z * Z)) c =>
                    let '(bc, (bn, bd)) := best in
                    let num := 256 * (nbPoints + 2 ^ c) in
                    (* num/c < bn/bd  <->  num*bd < bn*c *)
                    if (bc =? 0) || (num * bd <? bn * c) then (c, (num, c)) else best)
                 implemented_cs (0, (0, 1))).

Section Split.
  Context {F G : Type} (go : GOps F G).
  (* ranges of the nbSplits sub-MSMs over n points with chunk length nbPoints *)
  Definition split_slices {A} (l : list A) (nbSplits nbPoints : nat) : list (list A) :=
    map (fun i => firstn nbPoints (skipn (i * nbPoints) l)) (seq 0 (nbSplits - 1))
    ++ [skipn ((nbSplits - 1) * nbPoints) l].

  (* MultiExp after the choice of (c, nbSplits, nbPoints): nbSplits-1 goroutines run msmInner
     on slices of nbPoints (points, packed scalars), the caller on the rest; the partial
     results are added to the caller's in the order in which the goroutines finish *)
  Definition multi_exp (c : Z) (nbSplits nbPoints : nat) (order : list nat)
             (points : list G) (scalars : list Z) (split_first : bool) : G :=
    let packed := fst (partition_scalars c scalars) in
    let parts := map (fun pk => msm_inner go c (fst pk) (snd pk) split_first)
                     (combine (split_slices points nbSplits nbPoints) (split_slices packed nbSplits nbPoints)) in
    fold_left (fun acc i => gadd go acc (nth i parts (g0 go))) order (last parts (g0 go)).

  (* the whole of MultiExp: window / split choice, then the above *)
  Definition multi_exp_top (fuel : nat) (nbTasks : Z) (order : nat -> list nat)
             (points : list G) (scalars : list Z) (split_first : bool) : option G :=
    match split_loop fuel best_c nbTasks (Z.of_nat (length points)) 1 with
    | None => None
    | Some (c, nbSplits, nbPoints) =>
        Some (multi_exp c (Z.to_nat nbSplits) (Z.to_nat nbPoints) (order (Z.to_nat nbSplits)) points scalars split_first)
    end.
End Split.
