(* API calls as effects on a store of caller-visible objects plus a shared configuration
   (SRS, Q, tables, weights, package-level constants).  A call declares the objects it
   reads and the objects it may write (receivers / outputs; for CreateMultiProof also the
   commitments it re-normalises); its results and written values are a function of the
   configuration and of the values read.  Executable: histories can be run. *)
From Coq Require Import List Arith Bool.
Import ListNotations.

Section Store.
  Context {C V R : Type}.

  Record call : Type := mkCall {
    c_reads : list nat;
    c_writes : list nat;
    c_run : C -> list V -> list V * R      (* new values for c_writes (in order), result *)
  }.

  Definition store : Type := (C * list V)%type.

  Fixpoint set_at (l : list V) (k : nat) (v : V) : list V :=
    match l, k with
    | [], _ => []
    | _ :: l', O => v :: l'
    | x :: l', S k' => x :: set_at l' k' v
    end.
  Fixpoint set_many (objs : list V) (idxs : list nat) (vals : list V) : list V :=
    match idxs, vals with
    | i :: is', v :: vs' => set_many (set_at objs i v) is' vs'
    | _, _ => objs
    end.

  Definition step (d : V) (s : store) (k : call) : store * R :=
    let '(nv, r) := c_run k (fst s) (map (fun i => nth i (snd s) d) (c_reads k)) in
    ((fst s, set_many (snd s) (c_writes k) nv), r).

  Fixpoint run (d : V) (s : store) (ks : list call) : store * list R :=
    match ks with
    | [] => (s, [])
    | k :: ks' => let '(s1, r) := step d s k in
                  let '(s2, rs) := run d s1 ks' in (s2, r :: rs)
    end.

  (* interleavings of two scripts: a list of booleans picks the next goroutine *)
  Fixpoint merge (sched : list bool) (a b : list call) : list (bool * call) :=
    match sched, a, b with
    | true :: sc, x :: a', _ => (true, x) :: merge sc a' b
    | false :: sc, _, y :: b' => (false, y) :: merge sc a b'
    | _ :: sc, [], y :: b' => (false, y) :: merge sc [] b'
    | _ :: sc, x :: a', [] => (true, x) :: merge sc a' []
    | _, _, _ => []
    end.
End Store.
