(* Twisted Edwards arithmetic  a x^2 + y^2 = 1 + d x^2 y^2, generic over the
   field operations: the affine law and the coordinate formulas used by the
   code (gnark-crypto PointProj / PointExtended, repo ExtendedAddNormalized). *)
From Coq Require Import ZArith List Bool.
From GoIpa Require Import Model.Alg.
Import ListNotations.

Section Edwards.
  Context {F : Type} (fo : FOps F) (ca cd : F).
  Local Notation "x + y" := (fadd fo x y).
  Local Notation "x - y" := (fsub fo x y).
  Local Notation "x * y" := (fmul fo x y).
  Local Notation "- x" := (fneg fo x).
  Local Notation "0" := (f0 fo).
  Local Notation "1" := (f1 fo).

  Definition aff : Type := (F * F)%type.
  Definition proj : Type := (F * F * F)%type.
  Definition ext : Type := (F * F * F * F)%type.       (* X, Y, Z, T *)
  Definition extn : Type := (F * F * F)%type.          (* X, Y, T  with Z = 1 *)

  Definition on_curve (p : aff) : bool :=
    let '(x, y) := p in
    feqb fo (ca * (x * x) + y * y) (1 + cd * (x * x) * (y * y)).

  (* affine group law *)
  Definition a_add (p q : aff) : aff :=
    let '(x1, y1) := p in let '(x2, y2) := q in
    let t := cd * (x1 * x2) * (y1 * y2) in
    ((x1 * y2 + y1 * x2) * finv fo (1 + t), (y1 * y2 - ca * (x1 * x2)) * finv fo (1 - t)).
  Definition a_neg (p : aff) : aff := let '(x, y) := p in (- x, y).
  Definition a_zero : aff := (0, 1).

  (* gnark PointProj *)
  Definition p_identity : proj := (0, 1, 1).
  Definition p_neg (p : proj) : proj := let '(X, Y, Z) := p in (- X, Y, Z).
  Definition p_from_affine (p : aff) : proj := let '(x, y) := p in (x, y, 1).
  Definition p_to_affine (p : proj) : aff :=
    let '(X, Y, Z) := p in let I := finv fo Z in (X * I, Y * I).

  Definition p_add (p1 p2 : proj) : proj :=
    let '(X1, Y1, Z1) := p1 in let '(X2, Y2, Z2) := p2 in
    let A := Z1 * Z2 in
    let B := A * A in
    let C := X1 * X2 in
    let D := Y1 * Y2 in
    let E := cd * C * D in
    let Fv := B - E in
    let Gv := B + E in
    let H := X1 + Y1 in
    let I := X2 + Y2 in
    let X3 := (((H * I - C) - D) * A) * Fv in
    let Y3 := ((D + - (ca * C)) * A) * Gv in
    (X3, Y3, Fv * Gv).

  Definition p_mixed_add (p1 : proj) (p2 : aff) : proj :=
    let '(X1, Y1, Z1) := p1 in let '(x2, y2) := p2 in
    let B := Z1 * Z1 in
    let C := X1 * x2 in
    let D := Y1 * y2 in
    let E := cd * C * D in
    let Fv := B - E in
    let Gv := B + E in
    let H := X1 + Y1 in
    let I := x2 + y2 in
    let X3 := (((H * I - C) - D) * Z1) * Fv in
    let Y3 := ((D - ca * C) * Z1) * Gv in
    (X3, Y3, Fv * Gv).

  Definition p_double (p1 : proj) : proj :=
    let '(X1, Y1, Z1) := p1 in
    let B := (X1 + Y1) * (X1 + Y1) in
    let C := X1 * X1 in
    let D := Y1 * Y1 in
    let E := ca * C in
    let Fv := E + D in
    let H := Z1 * Z1 in
    let J := (Fv - H) - H in
    (((B - C) - D) * J, (E - D) * Fv, Fv * J).

  (* gnark PointExtended.Add *)
  Definition e_add (p1 p2 : ext) : ext :=
    let '(X1, Y1, Z1, T1) := p1 in let '(X2, Y2, Z2, T2) := p2 in
    let A := X1 * X2 in
    let B := Y1 * Y2 in
    let C := (T1 * T2) * cd in
    let D := Z1 * Z2 in
    let E := (((X2 + Y2) * (X1 + Y1)) - A) - B in
    let Fv := D - C in
    let Gv := D + C in
    let H := B - ca * A in
    (E * Fv, Gv * H, Fv * Gv, E * H).

  (* repo: bandersnatch.ExtendedAddNormalized (second operand has Z = 1) *)
  Definition e_add_norm (p1 : ext) (p2 : extn) : ext :=
    let '(X1, Y1, Z1, T1) := p1 in let '(X2, Y2, T2) := p2 in
    let A := X1 * X2 in
    let B := Y1 * Y2 in
    let C := (T1 * T2) * cd in
    let D := Z1 in
    let E := (((X2 + Y2) * (X1 + Y1)) - A) - B in
    let Fv := D - C in
    let Gv := D + C in
    let H := B - ca * A in
    (E * Fv, Gv * H, Fv * Gv, E * H).

  Definition en_neg (p : extn) : extn := let '(X, Y, T) := p in (- X, Y, - T).

  (* repo: PointExtendedFromProj *)
  Definition e_from_proj (p : proj) : ext :=
    let '(X, Y, Z) := p in (X, Y, Z, (X * Y) * finv fo Z).
  Definition e_to_proj (p : ext) : proj := let '(X, Y, Z, T) := p in (X, Y, Z).

  (* specification of scalar multiplication: double-and-add over the binary
     expansion, most significant bit first *)
  Fixpoint p_smul_pos (P : proj) (e : positive) : proj :=
    match e with
    | xH => P
    | xO e' => p_double (p_smul_pos P e')
    | xI e' => p_add (p_double (p_smul_pos P e')) P
    end.
  Definition p_smul (k : Z) (P : proj) : proj :=
    match k with
    | Zpos e => p_smul_pos P e
    | _ => p_identity
    end.
End Edwards.
