(* Bytes are integers in [0,256).  Big-/little-endian codecs on Z. *)
From Coq Require Import ZArith List Bool.
Import ListNotations.
Open Scope Z_scope.

Definition byte_ok (b : Z) : bool := (0 <=? b) && (b <? 256).

(* little-endian value of a byte list: b0 + 256*b1 + ... *)
Fixpoint le_val (bs : list Z) : Z :=
  match bs with
  | [] => 0
  | b :: bs' => b + 256 * le_val bs'
  end.

(* big-endian value, accumulator style (as math/big SetBytes) *)
Fixpoint be_val_acc (acc : Z) (bs : list Z) : Z :=
  match bs with
  | [] => acc
  | b :: bs' => be_val_acc (acc * 256 + b) bs'
  end.
Definition be_val (bs : list Z) : Z := be_val_acc 0 bs.

(* fixed-width little-endian encoding of x (x taken mod 256^n) *)
Fixpoint le_enc (n : nat) (x : Z) : list Z :=
  match n with
  | O => []
  | S n' => (x mod 256) :: le_enc n' (x / 256)
  end.

Definition be_enc (n : nat) (x : Z) : list Z := rev (le_enc n x).

Definition len {A} (l : list A) : Z := Z.of_nat (length l).

Fixpoint list_eqb (a b : list Z) : bool :=
  match a, b with
  | [], [] => true
  | x :: a', y :: b' => (x =? y) && list_eqb a' b'
  | _, _ => false
  end.

(* first n elements / rest, total *)
Definition take {A} (n : nat) (l : list A) := firstn n l.
Definition drop {A} (n : nat) (l : list A) := skipn n l.

Fixpoint repeat_z (n : nat) (x : Z) : list Z :=
  match n with O => [] | S n' => x :: repeat_z n' x end.

(* ASCII bytes of short labels are given as literal lists by the users. *)
