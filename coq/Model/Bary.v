(* Model of ipa/barycentric.go, generic over the field operations and the
   domain size n (the code fixes n = 256). *)
From Coq Require Import ZArith List Bool.
From GoIpa Require Import Model.Alg.
Import ListNotations.

Section Bary.
  Context {F : Type} (fo : FOps F) (n : nat).
  Local Notation "x + y" := (fadd fo x y).
  Local Notation "x - y" := (fsub fo x y).
  Local Notation "x * y" := (fmul fo x y).

  Definition dom (i : nat) : F := fofz fo (Z.of_nat i).

  (* computeBarycentricWeightForElement: prod_{j <> i} (i - j), j increasing *)
  Definition bary_weight (i : nat) : F :=
    fold_left (fun total j => if Nat.eqb j i then total else total * (dom i - dom j))
              (seq 0 n) (f1 fo).

  Record weights : Type := mkW { w_bary : list F; w_invdom : list F }.

  Definition new_weights : weights :=
    let ws := map bary_weight (seq 0 n) in
    let ks := map (fun k => finv fo (dom k)) (seq 1 (n - 1)) in
    mkW (ws ++ map (finv fo) ws) (ks ++ map (fun k => f0 fo - k) ks).

  (* accessors, with the code's index arithmetic *)
  Definition get_inverted_element (w : weights) (element : nat) (is_neg : bool) : F :=
    let index := (element - 1)%nat in
    let index := if is_neg then (index + Nat.div (length (w_invdom w)) 2)%nat else index in
    nth index (w_invdom w) (f0 fo).
  Definition get_ratio_of_weights (w : weights) (numerator denominator : nat) : F :=
    nth numerator (w_bary w) (f0 fo)
    * nth (denominator + Nat.div (length (w_bary w)) 2) (w_bary w) (f0 fo).

  (* ComputeBarycentricCoefficients *)
  Definition bary_coeffs (batch_inv : list F -> list F) (w : weights) (point : F) : list F :=
    let evals := map (fun i => (point - dom i) * nth i (w_bary w) (f0 fo)) (seq 0 n) in
    let total := fold_left (fun t i => t * (point - dom i)) (seq 0 n) (f1 fo) in
    map (fun e => e * total) (batch_inv evals).

  (* DivideOnDomain index f *)
  Definition divide_on_domain (w : weights) (index : nat) (f : list F) : list F :=
    let y := nth index f (f0 fo) in
    let qi (i : nat) : F :=
      let is_neg := Nat.ltb i index in
      let absden := if is_neg then (index - i)%nat else (i - index)%nat in
      (nth i f (f0 fo) - y) * get_inverted_element w absden is_neg in
    let qk := fold_left (fun acc i => if Nat.eqb i index then acc
                                      else acc - get_ratio_of_weights w index i * qi i)
                        (seq 0 n) (f0 fo) in
    map (fun i => if Nat.eqb i index then qk else qi i) (seq 0 n).
End Bary.
