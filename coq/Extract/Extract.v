(* Extraction of the executable model to OCaml.  Only the two standard
   extraction libraries are used; no hand-written Extract Constant. *)
From Coq Require Import ExtrOcamlBasic ExtrOcamlZBigInt.
From GoIpa Require Import Model.Parallel Model.Bytes Model.Zq Model.Sha256 Model.Alg
  Model.Transcript Model.Edwards Model.FpSqrt Model.Banderwagon Model.Codec Model.Bary
  Model.IPA Model.Multiproof Model.Serde Model.Pippenger Model.Mont Model.Precomp Model.Concrete.

Extraction "model.ml"
  execute_ranges
  sha256 le_val be_val le_enc be_enc
  fp fr zq_add zq_sub zq_mul zq_neg zq_inv zq_pow zq_legendre zq_lex_largest zq_eqb
  fr_bytes fr_bytes_le fp_bytes_le fr_set_bytes fr_set_bytes_le fr_set_bytes_le_canonical
  fr_set_bytes_le_prefix
  sqrt_precomp get_point_from_x chain_exp_candidate chain_exp_root
  bw_generator bw_identity bw_add bw_double bw_neg bw_sub bw_add_mixed bw_smul bw_affine
  bw_bytes bw_bytes_uncompressed bw_equal bw_set_bytes bw_set_bytes_uncompressed
  bw_map_to_scalar bw_normalize bw_batch_normalize bw_is_on_curve bw_elements_to_bytes
  bw_batch_to_bytes_uncompressed bw_batch_map_to_scalar subgroup_check
  gen_points c_weights c_config c_commit c_transcript_run c_transcript_spec_run
  c_ipa_create c_ipa_check c_mp_create c_mp_check c_challenge t_new
  c_divide_on_domain c_bary_coeffs c_compute_b c_batch_invert_fr c_batch_invert_fp c_inner c_msm
  lval limbs_of mul_generic from_mont_generic add_generic double_generic sub_generic neg_generic
  reduce_generic butterfly_generic i_add i_sub i_neg i_double i_mul i_from_mont i_to_mont i_inverse i_div
  i_exp i_legendre i_sqrt i_mul_by i_cmp i_lex_largest c_batch_invert_mont
  partition_scalars c_msm_inner c_multi_exp best_c split_loop nb_chunks
  c_pc_table c_pc_scalar_mul pc_digits
  read_point read_scalar mp_read ipa_read mp_write_chunks ipa_write_chunks write_all mkR.
