(* Extraction of the executable model to OCaml.  Only the two standard
   extraction libraries are used; no hand-written Extract Constant. *)
From Coq Require Import ExtrOcamlBasic ExtrOcamlZBigInt.
From GoIpa Require Import Model.Parallel.

Extraction "model.ml" execute_ranges.
