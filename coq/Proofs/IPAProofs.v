(* IPA completeness: for every vector length 2^k, every basis, every b-vector and every
   transcript, the proof produced by the model of CreateIPAProof is accepted by the model
   of CheckIPAProof, provided the round challenges drawn are invertible.  Abstract field
   (FieldLaws) and abstract module (GroupLaws). *)
From Coq Require Import ZArith List Bool Lia Ring Arith.
From AAC_tactics Require Import AAC.
From GoIpa Require Import Model.Bytes Model.Alg Model.Transcript Model.Bary Model.Banderwagon Model.IPA
  Proofs.AlgLaws.
Import ListNotations.

(* ------------------------------------------------------------------ *)
(* module facts: msm over any GOps satisfying GroupLaws                 *)
(* ------------------------------------------------------------------ *)
Section Module.
  Context {F G : Type} (fo : FOps F) (go : GOps F G) (FL : FieldLaws fo) (GL : GroupLaws fo go).
  Local Notation "0" := (f0 fo).
  Local Notation "1" := (f1 fo).
  Local Infix "+" := (fadd fo).
  Local Infix "*" := (fmul fo).
  Local Infix "⊕" := (gadd go) (at level 50, left associativity).
  Local Infix "•" := (gmul go) (at level 40).
  Local Notation O := (g0 go).
  Add Ring FringM : (fl_ring fo FL).

  Lemma gid_r a : a ⊕ O = a.
  Proof. rewrite (gl_comm fo go GL). apply (gl_id fo go GL). Qed.

  Lemma gmul_zero_l p : 0 • p = O.
  Proof.
    (* 0p + 0p = 0p, cancel *)
    assert (H : 0 • p ⊕ 0 • p = 0 • p).
    { rewrite <- (gl_mul_add_l fo go GL). f_equal. ring. }
    transitivity ((0 • p ⊕ 0 • p) ⊕ gneg go (0 • p)).
    - rewrite <- (gl_assoc fo go GL), (gl_inv fo go GL), gid_r. reflexivity.
    - rewrite H. apply (gl_inv fo go GL).
  Qed.

  Lemma gmul_O s : s • O = O.
  Proof.
    assert (H : s • O ⊕ s • O = s • O).
    { rewrite <- (gl_mul_add_r fo go GL), (gl_id fo go GL). reflexivity. }
    transitivity ((s • O ⊕ s • O) ⊕ gneg go (s • O)).
    - rewrite <- (gl_assoc fo go GL), (gl_inv fo go GL), gid_r. reflexivity.
    - rewrite H. apply (gl_inv fo go GL).
  Qed.

  Global Instance gadd_Assoc : Associative eq (gadd go).
  Proof. intros a b c. apply (gl_assoc fo go GL). Qed.
  Global Instance gadd_Comm : Commutative eq (gadd go).
  Proof. intros a b. apply (gl_comm fo go GL). Qed.

  Lemma msm_nil_r ps : msm go ps [] = O.
  Proof. destruct ps; reflexivity. Qed.

  Lemma msm_app ps1 : forall ss1 ps2 ss2, length ps1 = length ss1 ->
    msm go (ps1 ++ ps2) (ss1 ++ ss2) = msm go ps1 ss1 ⊕ msm go ps2 ss2.
  Proof.
    induction ps1 as [|p ps1 IH]; intros [|s ss1] ps2 ss2 H; try discriminate; cbn [app msm].
    - symmetry. apply (gl_id fo go GL).
    - rewrite IH by (cbn in H; lia). apply (gl_assoc fo go GL).
  Qed.

  Lemma msm_scale k ps : forall ss, k • msm go ps ss = msm go ps (vscale fo k ss).
  Proof.
    induction ps as [|p ps IH]; intros [|s ss]; cbn [msm vscale map]; try apply gmul_O.
    rewrite (gl_mul_add_r fo go GL), IH, <- (gl_mul_mul fo go GL). reflexivity.
  Qed.

  Lemma fold_scalars_length x : forall aL aR : list F, length aR = length aL ->
    length (fold_scalars fo aL aR x) = length aL.
  Proof. intros aL aR H. unfold fold_scalars. rewrite map_length, combine_length, H. apply Nat.min_id. Qed.
  Lemma fold_points_length y : forall gL gR : list G, length gR = length gL ->
    length (fold_points go gL gR y) = length gL.
  Proof. intros gL gR H. unfold fold_points. rewrite map_length, combine_length, H. apply Nat.min_id. Qed.

  (* linearity in the scalars *)
  Lemma msm_fold_scalars x : forall g aL aR, length aL = length g -> length aR = length g ->
    msm go g (fold_scalars fo aL aR x) = msm go g aL ⊕ x • msm go g aR.
  Proof.
    induction g as [|g1 g IH]; intros [|a1 aL] [|a2 aR] H1 H2; try discriminate.
    - cbn. rewrite gmul_O, gid_r. reflexivity.
    - unfold fold_scalars in *. cbn [combine map fst snd msm].
      rewrite IH by (cbn in *; lia).
      rewrite (gl_mul_add_l fo go GL), (gl_mul_add_r fo go GL), (gl_mul_mul fo go GL).
      aac_reflexivity.
  Qed.

  (* linearity in the points *)
  Lemma msm_fold_points y : forall gL gR a, length gR = length gL -> length a = length gL ->
    msm go (fold_points go gL gR y) a = msm go gL a ⊕ y • msm go gR a.
  Proof.
    induction gL as [|g1 gL IH]; intros [|g2 gR] [|a1 a] H1 H2; try discriminate.
    - cbn. rewrite gmul_O, gid_r. reflexivity.
    - unfold fold_points in *. cbn [combine map fst snd msm].
      rewrite IH by (cbn in *; lia).
      rewrite !(gl_mul_add_r fo go GL), <- !(gl_mul_mul fo go GL).
      replace (a1 * y) with (y * a1) by ring.
      aac_reflexivity.
  Qed.

  Lemma msm_fold x y gL gR aL aR :
    length gR = length gL -> length aL = length gL -> length aR = length gL ->
    msm go (fold_points go gL gR y) (fold_scalars fo aL aR x)
    = (msm go gL aL ⊕ x • msm go gL aR) ⊕ (y • msm go gR aL ⊕ (y * x) • msm go gR aR).
  Proof.
    intros H1 H2 H3.
    rewrite msm_fold_points by (rewrite ?fold_scalars_length; lia).
    rewrite !msm_fold_scalars by lia.
    rewrite (gl_mul_add_r fo go GL), <- (gl_mul_mul fo go GL). reflexivity.
  Qed.
End Module.

(* F as a module over itself: inner products are multi-scalar multiplications *)
Section FModule.
  Context {F : Type} (fo : FOps F) (FL : FieldLaws fo).
  Add Ring FringFM : (fl_ring fo FL).
  Definition fgo : GOps F F := mkGOps F F (f0 fo) (fadd fo) (fneg fo) (fmul fo) (feqb fo) (fun _ => []).
  Lemma fgo_laws : GroupLaws fo fgo.
  Proof. constructor; cbn; intros; ring. Qed.
  Lemma inner_msm a : forall b, inner fo a b = msm fgo b a.
  Proof. induction a as [|x a IH]; intros [|y b]; cbn; auto. rewrite IH. reflexivity. Qed.
  Lemma fold_scalars_points bL bR y : fold_scalars fo bL bR y = fold_points fgo bL bR y.
  Proof. reflexivity. Qed.

  Lemma inner_app a1 : forall b1 a2 b2, length a1 = length b1 ->
    inner fo (a1 ++ a2) (b1 ++ b2) = fadd fo (inner fo a1 b1) (inner fo a2 b2).
  Proof.
    intros b1 a2 b2 H. rewrite !inner_msm. apply (msm_app fo fgo fgo_laws). lia.
  Qed.

  Lemma inner_fold x y aL aR bL bR :
    length aR = length aL -> length bL = length aL -> length bR = length aL ->
    inner fo (fold_scalars fo aL aR x) (fold_scalars fo bL bR y)
    = fadd fo (fadd fo (inner fo aL bL) (fmul fo x (inner fo aR bL)))
              (fadd fo (fmul fo y (inner fo aL bR)) (fmul fo (fmul fo y x) (inner fo aR bR))).
  Proof.
    intros H1 H2 H3. rewrite !inner_msm, (fold_scalars_points bL bR y).
    apply (msm_fold fo fgo FL fgo_laws x y bL bR aL aR); lia.
  Qed.
End FModule.

(* ------------------------------------------------------------------ *)
(* the folding scalars: bit trick = recursive doubling                  *)
(* ------------------------------------------------------------------ *)
Section FoldingScalars.
  Local Open Scope nat_scope.
  Context {F : Type} (fo : FOps F) (FL : FieldLaws fo).
  Local Notation "1" := (f1 fo).
  Local Infix "*" := (fmul fo).
  Add Ring FringFS : (fl_ring fo FL).

  (* [1] ; then s ++ xi*s : index i gets the product of the xi_j whose bit (k-1-j) is set in i *)
  Fixpoint fs_spec (xis : list F) : list F :=
    match xis with
    | [] => [1]
    | xi :: r => fs_spec r ++ map (fmul fo xi) (fs_spec r)
    end.

  Lemma fs_spec_length xis : length (fs_spec xis) = 2 ^ length xis.
  Proof.
    induction xis as [|xi r IH]; cbn [fs_spec length]; [reflexivity|].
    rewrite app_length, map_length, IH. cbn [Nat.pow]. lia.
  Qed.

  Lemma aux_acc k : forall xis j i acc,
    folding_scalar_aux fo k j xis i acc = acc * folding_scalar_aux fo k j xis i 1.
  Proof.
    induction xis as [|xi r IH]; intros j i acc; cbn [folding_scalar_aux]; [ring|].
    destruct (Nat.testbit i (k - 1 - j)).
    - rewrite (IH (S j) i (acc * xi)), (IH (S j) i (1 * xi)). ring.
    - apply IH.
  Qed.

  (* bits below position m of i + 2^m are those of i; bit m is set *)
  Lemma testbit_low i m b : i < 2 ^ m -> b < m -> Nat.testbit (i + 2 ^ m) b = Nat.testbit i b.
  Proof.
    intros Hi Hb. rewrite <- (Nat.mod_pow2_bits_low (i + 2 ^ m) m b Hb).
    rewrite <- (Nat.mul_1_l (2 ^ m)) at 1. rewrite Nat.mod_add by (apply Nat.pow_nonzero; lia).
    rewrite Nat.mod_small by exact Hi. reflexivity.
  Qed.
  Lemma testbit_top i m : i < 2 ^ m -> Nat.testbit (i + 2 ^ m) m = true /\ Nat.testbit i m = false.
  Proof.
    intros Hi. split.
    - apply Nat.testbit_true. rewrite <- (Nat.mul_1_l (2 ^ m)) at 1.
      rewrite Nat.div_add by (apply Nat.pow_nonzero; lia). rewrite Nat.div_small by exact Hi. reflexivity.
    - apply Nat.testbit_false. rewrite Nat.div_small by exact Hi. reflexivity.
  Qed.

  (* the auxiliary only looks at bits below k - j *)
  Lemma aux_ext k : forall xis j i1 i2 acc, length xis + j <= k ->
    (forall b, b < k - j -> Nat.testbit i1 b = Nat.testbit i2 b) ->
    folding_scalar_aux fo k j xis i1 acc = folding_scalar_aux fo k j xis i2 acc.
  Proof.
    induction xis as [|xi r IH]; intros j i1 i2 acc Hl Hb; cbn [folding_scalar_aux]; [reflexivity|].
    cbn [length] in Hl. rewrite (Hb (k - 1 - j)) by lia.
    destruct (Nat.testbit i2 (k - 1 - j)); apply IH; try lia; intros b Hlt; apply Hb; lia.
  Qed.

  Lemma seq_shift_add a n : seq a n = map (fun i => i + a) (seq 0 n).
  Proof.
    revert a. induction n as [|n IH]; intros a; cbn [seq map]; [reflexivity|].
    f_equal. rewrite (IH (S a)), (IH (S O)). rewrite map_map. apply map_ext. intros i. lia.
  Qed.

  Lemma folding_scalars_gen k : forall xis j, length xis + j = k ->
    map (fun i => folding_scalar_aux fo k j xis i 1) (seq 0 (2 ^ length xis)) = fs_spec xis.
  Proof.
    induction xis as [|xi r IH]; intros j Hl; cbn [length] in *.
    - cbn. reflexivity.
    - set (m := length r) in *. cbn [fs_spec].
      replace (2 ^ S m) with (2 ^ m + 2 ^ m) by (cbn [Nat.pow]; lia).
      rewrite seq_app, map_app. cbn [Nat.add]. f_equal.
      + rewrite <- (IH (S j)) by lia. apply map_ext_in. intros i Hi. apply in_seq in Hi.
        cbn [folding_scalar_aux]. replace (k - 1 - j) with m by lia.
        destruct (testbit_top i m ltac:(lia)) as [_ ->]. reflexivity.
      + rewrite (seq_shift_add (2 ^ m)), map_map. rewrite <- (IH (S j)) by lia. rewrite map_map.
        apply map_ext_in. intros i Hi. apply in_seq in Hi.
        cbn [folding_scalar_aux]. replace (k - 1 - j) with m by lia.
        destruct (testbit_top i m ltac:(lia)) as [-> _].
        rewrite aux_acc. f_equal; [ring|].
        apply aux_ext; [lia|]. intros b Hb. apply testbit_low; lia.
  Qed.

  Theorem folding_scalars_spec xis :
    folding_scalars fo (length xis) xis (2 ^ length xis) = fs_spec xis.
  Proof. unfold folding_scalars. apply folding_scalars_gen. lia. Qed.
End FoldingScalars.

(* ------------------------------------------------------------------ *)
(* rounds                                                               *)
(* ------------------------------------------------------------------ *)
Section Rounds.
  Local Open Scope nat_scope.
  Context {F G : Type} (fo : FOps F) (go : GOps F G) (hashf : list Z -> list Z)
          (FL : FieldLaws fo) (GL : GroupLaws fo go).
  Local Notation "0" := (f0 fo).
  Local Notation "1" := (f1 fo).
  Local Infix "+" := (fadd fo).
  Local Infix "*" := (fmul fo).
  Local Infix "⊕" := (gadd go) (at level 50, left associativity).
  Local Infix "•" := (gmul go) (at level 40).
  Local Notation O := (g0 go).
  Local Notation invertible := (invertible fo).
  Add Ring FringR : (fl_ring fo FL).
  Local Instance gA : Associative eq (gadd go) := gadd_Assoc fo go GL.
  Local Instance gC : Commutative eq (gadd go) := gadd_Comm fo go GL.

  (* the committed statement: <a,G> + <a,b> q *)
  Definition Pst (q : G) (a b : list F) (g : list G) : G := msm go g a ⊕ inner fo a b • q.

  Lemma commit2_eq c1 q z : commit2 fo go c1 q z = c1 ⊕ z • q.
  Proof.
    unfold commit2. cbn [msm]. rewrite (gl_mul_1 fo go GL), (gid_r fo go GL). reflexivity.
  Qed.

  Lemma round_invariant q x xi aL aR bL bR gL gR :
    length aR = length aL -> length bL = length aL -> length bR = length aL ->
    length gL = length aL -> length gR = length aL -> x * xi = 1 ->
    Pst q (fold_scalars fo aL aR x) (fold_scalars fo bL bR xi) (fold_points go gL gR xi)
    = (Pst q (aL ++ aR) (bL ++ bR) (gL ++ gR)
        ⊕ x • commit2 fo go (msm go gL aR) q (inner fo aR bL))
        ⊕ xi • commit2 fo go (msm go gR aL) q (inner fo aL bR).
  Proof.
    intros H1 H2 H3 H4 H5 Hx. unfold Pst.
    rewrite (msm_fold fo go FL GL x xi gL gR aL aR) by lia.
    rewrite (inner_fold fo FL x xi aL aR bL bR) by lia.
    rewrite (msm_app fo go GL gL aL gR aR) by lia.
    rewrite (inner_app fo FL aL bL aR bR) by lia.
    rewrite !commit2_eq.
    assert (Hx' : xi * x = 1) by (rewrite <- Hx; ring). rewrite Hx'.
    rewrite !(gl_mul_add_l fo go GL), !(gl_mul_add_r fo go GL), !(gl_mul_1 fo go GL).
    rewrite <- !(gl_mul_mul fo go GL).
    replace (1 * inner fo aR bR) with (inner fo aR bR) by ring.
    aac_reflexivity.
  Qed.

  (* pure folding of the three vectors by a list of challenges *)
  Fixpoint fold_all_a (xs : list F) (a : list F) : list F :=
    match xs with
    | [] => a
    | x :: r => let mid := length a / 2 in fold_all_a r (fold_scalars fo (firstn mid a) (skipn mid a) x)
    end.
  Fixpoint fold_all_g (xis : list F) (g : list G) : list G :=
    match xis with
    | [] => g
    | xi :: r => let mid := length g / 2 in fold_all_g r (fold_points go (firstn mid g) (skipn mid g) xi)
    end.

  Lemma half_pow k : 2 ^ S k / 2 = 2 ^ k.
  Proof. cbn [Nat.pow]. rewrite Nat.mul_comm. apply Nat.div_mul. lia. Qed.

  Lemma split_half {A} (l : list A) k : length l = 2 ^ S k ->
    length (firstn (2 ^ k) l) = 2 ^ k /\ length (skipn (2 ^ k) l) = 2 ^ k
    /\ l = firstn (2 ^ k) l ++ skipn (2 ^ k) l.
  Proof.
    intros H. cbn [Nat.pow] in H. rewrite firstn_length, skipn_length.
    repeat split; try lia. symmetry. apply firstn_skipn.
  Qed.

  (* the prover loop: produces L, R of length k; the verifier regenerates exactly the
     same challenges and reaches the same transcript; folding the statement with them
     gives the statement about the folded vectors *)
  Lemma rounds_spec : forall k t q a b g accL accR,
    length a = 2 ^ k -> length b = 2 ^ k -> length g = 2 ^ k ->
    exists Ls Rs xs t',
      ipa_rounds fo go hashf k t q a b g accL accR = (t', rev accL ++ Ls, rev accR ++ Rs, fold_all_a xs a)
      /\ length Ls = k /\ length Rs = k /\ length xs = k
      /\ gen_challenges fo go hashf t Ls Rs = (t', xs)
      /\ (Forall invertible xs ->
          fold_commitment fo go (Pst q a b g) xs (map (finv fo) xs) Ls Rs
          = Pst q (fold_all_a xs a) (fold_all_a (map (finv fo) xs) b) (fold_all_g (map (finv fo) xs) g)).
  Proof.
    induction k as [|k IH]; intros t q a b g accL accR Ha Hb Hg.
    - exists [], [], [], t. cbn [ipa_rounds fold_all_a gen_challenges map fold_commitment fold_all_g length].
      rewrite !app_nil_r. repeat split; reflexivity.
    - cbn [ipa_rounds]. rewrite Ha, half_pow.
      destruct (split_half a k Ha) as (HaL & HaR & Ea).
      destruct (split_half b k Hb) as (HbL & HbR & Eb).
      destruct (split_half g k Hg) as (HgL & HgR & Eg).
      set (aL := firstn (2 ^ k) a) in *. set (aR := skipn (2 ^ k) a) in *.
      set (bL := firstn (2 ^ k) b) in *. set (bR := skipn (2 ^ k) b) in *.
      set (gL := firstn (2 ^ k) g) in *. set (gR := skipn (2 ^ k) g) in *.
      set (cL := commit2 fo go (msm go gL aR) q (inner fo aR bL)).
      set (cR := commit2 fo go (msm go gR aL) q (inner fo aL bR)).
      set (t1 := t_append_point (t_append_point t (genc go cL) lbl_L) (genc go cR) lbl_R).
      destruct (t_challenge fo hashf t1 lbl_x) as [t2 x] eqn:Ech.
      specialize (IH t2 q (fold_scalars fo aL aR x) (fold_scalars fo bL bR (finv fo x))
                     (fold_points go gL gR (finv fo x)) (cL :: accL) (cR :: accR)).
      destruct IH as (Ls & Rs & xs & t' & Hrun & HLs & HRs & Hxs & Hgen & Hfold).
      { rewrite fold_scalars_length; lia. }
      { rewrite fold_scalars_length; lia. }
      { rewrite (fold_points_length go); lia. }
      exists (cL :: Ls), (cR :: Rs), (x :: xs), t'.
      split.
      { rewrite Hrun. cbn [rev]. rewrite <- !app_assoc. cbn [app fold_all_a].
        rewrite Ha, half_pow. reflexivity. }
      split; [cbn; lia|]. split; [cbn; lia|]. split; [cbn; lia|].
      split.
      { cbn [gen_challenges]. fold t1. rewrite Ech, Hgen. reflexivity. }
      intros Hinv. pose proof (Forall_inv Hinv) as Hx. pose proof (Forall_inv_tail Hinv) as Hinv'.
      cbn [map fold_commitment fold_all_a fold_all_g]. rewrite Ha, Hb, Hg, !half_pow.
      fold aL aR bL bR gL gR.
      rewrite <- (Hfold Hinv'). f_equal.
      cbn [msm]. rewrite (gl_mul_1 fo go GL), (gid_r fo go GL).
      rewrite (round_invariant q x (finv fo x) aL aR bL bR gL gR) by (try lia; apply (finv_r fo FL), Hx).
      rewrite <- Ea, <- Eb, <- Eg. fold cL cR. apply (gl_assoc fo go GL).
  Qed.
End Rounds.

(* ------------------------------------------------------------------ *)
(* completeness                                                         *)
(* ------------------------------------------------------------------ *)
Section Complete.
  Local Open Scope nat_scope.
  Context {F G : Type} (fo : FOps F) (go : GOps F G) (hashf : list Z -> list Z)
          (FL : FieldLaws fo) (GL : GroupLaws fo go).
  Local Notation "0" := (f0 fo).
  Local Notation "1" := (f1 fo).
  Local Infix "+" := (fadd fo).
  Local Infix "*" := (fmul fo).
  Local Infix "⊕" := (gadd go) (at level 50, left associativity).
  Local Infix "•" := (gmul go) (at level 40).
  Local Notation invertible := (invertible fo).
  Add Ring FringC : (fl_ring fo FL).

  Lemma inner_comm a : forall b, inner fo a b = inner fo b a.
  Proof. induction a as [|x a IH]; intros [|y b]; cbn; auto. rewrite IH. ring. Qed.

  Lemma fold_all_g_spec : forall xis g, length g = 2 ^ length xis ->
    fold_all_g go xis g = [msm go g (fs_spec fo xis)].
  Proof.
    induction xis as [|xi r IH]; intros g Hg.
    - cbn [length Nat.pow] in Hg. destruct g as [|g0 [|? ?]]; try discriminate.
      cbn. rewrite (gl_mul_1 fo go GL), (gid_r fo go GL). reflexivity.
    - cbn [fold_all_g fs_spec]. cbn [length] in Hg. rewrite Hg, half_pow.
      destruct (split_half g (length r) Hg) as (HL & HR & Eg).
      rewrite IH by (rewrite (fold_points_length go); lia).
      rewrite (msm_fold_points fo go FL GL) by (rewrite ?fs_spec_length; lia).
      f_equal. rewrite Eg at 3.
      rewrite (msm_app fo go GL) by (rewrite fs_spec_length; lia).
      f_equal. apply (msm_scale fo go GL).
  Qed.

  Lemma fold_all_a_as_g : forall xis b, fold_all_a fo xis b = fold_all_g (fgo fo) xis b.
  Proof. induction xis as [|xi r IH]; intros b; cbn [fold_all_a fold_all_g]; [reflexivity|]. apply IH. Qed.

End Complete.

Section Final.
  Local Open Scope nat_scope.
  Context {F G : Type} (fo : FOps F) (go : GOps F G) (hashf : list Z -> list Z)
          (FL : FieldLaws fo) (GL : GroupLaws fo go).
  Hypothesis geqb_refl : forall x, geqb go x x = true.
  Local Notation "0" := (f0 fo).
  Local Notation "1" := (f1 fo).
  Local Infix "+" := (fadd fo).
  Local Infix "*" := (fmul fo).
  Local Infix "⊕" := (gadd go) (at level 50, left associativity).
  Local Infix "•" := (gmul go) (at level 40).
  Local Notation invertible := (invertible fo).
  Add Ring FringFin : (fl_ring fo FL).

  Lemma fold_all_a_spec xis b : length b = 2 ^ length xis ->
    fold_all_a fo xis b = [inner fo (fs_spec fo xis) b].
  Proof.
    intros H. rewrite (fold_all_a_as_g fo), (fold_all_g_spec fo (fgo fo) FL (fgo_laws fo FL) xis b H).
    rewrite <- (inner_msm fo). reflexivity.
  Qed.

  Lemma inv0_invertible x : invertible x -> inv0 fo x = finv fo x.
  Proof.
    intros H. unfold inv0. destruct (feqb fo x 0) eqn:E; [|reflexivity].
    apply (fl_eqb fo FL) in E. exfalso. exact (invertible_nonzero fo FL x H E).
  Qed.

  Lemma batch_invert_invertible xs : Forall invertible xs -> batch_invert fo xs = map (finv fo) xs.
  Proof.
    intros H. rewrite (batch_invert_correct fo FL xs).
    - apply map_ext_in. intros x Hx. apply inv0_invertible. exact (proj1 (Forall_forall _ _) H x Hx).
    - unfold all_nz_invertible. eapply Forall_impl; [|exact H]. intros x Hx _. exact Hx.
  Qed.

  (* the round challenges the verifier derives for a proof *)
  Definition ipa_challenges (t : tstate) (cfg : config (F := F) (G := G)) (c : G)
             (pr : ipa_proof (F := F) (G := G)) (z res : F) : list F :=
    let t := t_domain_sep t lbl_ipa in
    let t := t_append_point t (genc go c) lbl_C in
    let t := t_append_scalar fo t z lbl_input_point in
    let t := t_append_scalar fo t res lbl_output_point in
    let '(t, w) := t_challenge fo hashf t lbl_w in
    snd (gen_challenges fo go hashf t (pL pr) (pR pr)).

  (* IPA completeness *)
  Theorem ipa_complete t cfg a z k :
    c_rounds cfg = k -> length (c_srs cfg) = 2 ^ k -> length a = 2 ^ k ->
    length (compute_b fo cfg z) = 2 ^ k ->
    let c := msm go (c_srs cfg) a in
    let res := inner fo a (compute_b fo cfg z) in
    exists t' pr,
      ipa_create fo go hashf t cfg c a z = Some (t', pr)
      /\ length (pL pr) = k /\ length (pR pr) = k
      /\ (Forall invertible (ipa_challenges t cfg c pr z res) ->
          ipa_check fo go hashf t cfg c pr z res = Some (t', true)).
  Proof.
    intros Hk Hsrs Ha Hb c res. unfold ipa_create, ipa_check, ipa_challenges.
    set (b := compute_b fo cfg z) in *.
    rewrite Ha, Hb, Nat.eqb_refl. cbn [negb]. fold res.
    set (t0 := t_append_scalar fo (t_append_scalar fo (t_append_point (t_domain_sep t lbl_ipa) (genc go c) lbl_C)
                                     z lbl_input_point) res lbl_output_point).
    destruct (t_challenge fo hashf t0 lbl_w) as [tw w].
    set (q := w • c_Q cfg).
    destruct (rounds_spec fo go hashf FL GL (c_rounds cfg) tw q a b (c_srs cfg) [] [])
      as (Ls & Rs & xs & t' & Hrun & HLs & HRs & Hxs & Hgen & Hfold); try (rewrite Hk; assumption).
    rewrite Hrun. cbn [rev app].
    assert (Ha0 : fold_all_a fo xs a = [inner fo (fs_spec fo xs) a]).
    { apply fold_all_a_spec. rewrite Hxs, Hk. exact Ha. }
    rewrite Ha0. eexists t', _. split; [reflexivity|]. cbn [pL pR pA].
    split; [rewrite HLs; exact Hk|]. split; [rewrite HRs; exact Hk|].
    rewrite Hgen. cbn [snd]. intros Hinv.
    rewrite HLs, HRs, !Nat.eqb_refl. cbn [negb].
    rewrite (batch_invert_invertible xs Hinv).
    set (xis := map (finv fo) xs) in *.
    assert (Hlx : length xis = k) by (unfold xis; rewrite map_length, Hxs, Hk; reflexivity).
    (* the statement folded by the verifier *)
    assert (Hc : c ⊕ res • q = Pst fo go q a b (c_srs cfg)) by reflexivity.
    rewrite Hc, (Hfold Hinv). rewrite Ha0.
    rewrite (fold_all_a_spec xis b) by (rewrite Hlx; exact Hb).
    rewrite (fold_all_g_spec fo go FL GL xis (c_srs cfg)) by (rewrite Hlx; exact Hsrs).
    rewrite Hxs, Hsrs, <- Hk, <- Hxs. rewrite <- (map_length (finv fo) xs). fold xis.
    rewrite (folding_scalars_spec fo FL xis).
    unfold Pst. cbn [msm inner]. rewrite (gid_r fo go GL).
    set (a0 := inner fo (fs_spec fo xs) a).
    rewrite (inner_comm fo FL b (fs_spec fo xis)).
    replace (a0 * inner fo (fs_spec fo xis) b + 0) with (inner fo (fs_spec fo xis) b * a0) by ring.
    rewrite geqb_refl. reflexivity.
  Qed.
End Final.

Section ComputeB.
  Local Open Scope nat_scope.
  Context {F G : Type} (fo : FOps F) (FL : FieldLaws fo).
  Add Ring FringCB : (fl_ring fo FL).

  Lemma unit_vec_length n i : length (unit_vec fo n i) = n.
  Proof. unfold unit_vec. rewrite map_length, seq_length. reflexivity. Qed.

  Lemma bary_coeffs_length n w z : length (bary_coeffs fo n (batch_invert fo) w z) = n.
  Proof.
    unfold bary_coeffs. rewrite map_length, (batch_invert_length fo FL), map_length, seq_length. reflexivity.
  Qed.

  Lemma compute_b_length (cfg : config (F := F) (G := G)) z : length (compute_b fo cfg z) = c_n cfg.
  Proof.
    unfold compute_b. destruct (Z.ltb _ _); [apply bary_coeffs_length|apply unit_vec_length].
  Qed.

  (* in-domain / out-of-domain switch: exactly between n-1 and n on canonical integers *)
  Lemma compute_b_switch (cfg : config (F := F) (G := G)) z :
    ((f2z fo z <= Z.of_nat (c_n cfg) - 1)%Z -> compute_b fo cfg z = unit_vec fo (c_n cfg) (Z.to_nat (f2z fo z)))
    /\ ((Z.of_nat (c_n cfg) - 1 < f2z fo z)%Z ->
        compute_b fo cfg z = bary_coeffs fo (c_n cfg) (batch_invert fo) (c_w cfg) z).
  Proof.
    unfold compute_b. split; intros H.
    - destruct (Z.ltb_spec (Z.of_nat (c_n cfg) - 1) (f2z fo z)); [lia|reflexivity].
    - destruct (Z.ltb_spec (Z.of_nat (c_n cfg) - 1) (f2z fo z)); [reflexivity|lia].
  Qed.

  (* <a, e_i> = a_i *)
  Lemma inner_unit_gen (a : list F) : forall s i,
    inner fo a (map (fun j => if Nat.eqb j i then f1 fo else f0 fo) (seq s (length a)))
    = if (s <=? i) && (i <? s + length a) then nth (i - s) a (f0 fo) else f0 fo.
  Proof.
    induction a as [|x a IH]; intros s i; cbn [length seq map inner].
    - destruct (s <=? i) eqn:E1; cbn [andb]; [|reflexivity].
      destruct (i <? s + 0) eqn:E2; [|reflexivity]. apply Nat.leb_le in E1. apply Nat.ltb_lt in E2. lia.
    - rewrite IH. destruct (Nat.eqb_spec s i) as [->|Hne].
      + rewrite Nat.leb_refl. replace (i <? i + S (length a)) with true by (symmetry; apply Nat.ltb_lt; lia).
        replace (S i <=? i) with false by (symmetry; apply Nat.leb_gt; lia).
        cbn [andb]. rewrite Nat.sub_diag. cbn [nth]. ring.
      + destruct (s <=? i) eqn:E1.
        * apply Nat.leb_le in E1. replace (S s <=? i) with true by (symmetry; apply Nat.leb_le; lia).
          replace (i <? S s + length a) with (i <? s + S (length a)) by (f_equal; lia).
          cbn [andb]. destruct (i <? s + S (length a)); [|ring].
          replace (i - s) with (S (i - S s)) by lia. cbn [nth]. ring.
        * apply Nat.leb_gt in E1. replace (S s <=? i) with false by (symmetry; apply Nat.leb_gt; lia).
          cbn [andb]. ring.
  Qed.

  Theorem inner_unit_vec a i : i < length a -> inner fo a (unit_vec fo (length a) i) = nth i a (f0 fo).
  Proof.
    intros H. unfold unit_vec. rewrite (inner_unit_gen a 0 i). cbn [Nat.leb andb Nat.add].
    replace (i <? length a) with true by (symmetry; apply Nat.ltb_lt; exact H). rewrite Nat.sub_0_r. reflexivity.
  Qed.
End ComputeB.

(* ------------------------------------------------------------------ *)
(* the verifier IS the textbook (recursive-folding) verifier             *)
(* ------------------------------------------------------------------ *)
Section RefinesSpec.
  Local Open Scope nat_scope.
  Context {F G : Type} (fo : FOps F) (go : GOps F G) (hashf : list Z -> list Z)
          (FL : FieldLaws fo) (GL : GroupLaws fo go).

  (* textbook verifier: derive w and the round challenges from the transcript, fold the
     basis and the b-vector round by round with the inverted challenges, fold the
     commitment, and test  a*G' + (a*b')*q = C'  *)
  Definition ipa_check_spec (t : tstate) (cfg : config (F := F) (G := G)) (c : G)
             (pr : ipa_proof (F := F) (G := G)) (z res : F) : option (tstate * bool) :=
    let t := t_domain_sep t lbl_ipa in
    if negb (Nat.eqb (length (pL pr)) (length (pR pr))) then None else
    if negb (Nat.eqb (length (pL pr)) (c_rounds cfg)) then None else
    let t := t_append_point t (genc go c) lbl_C in
    let t := t_append_scalar fo t z lbl_input_point in
    let t := t_append_scalar fo t res lbl_output_point in
    let '(t, w) := t_challenge fo hashf t lbl_w in
    let q := gmul go w (c_Q cfg) in
    let '(t, xs) := gen_challenges fo go hashf t (pL pr) (pR pr) in
    let xinvs := batch_invert fo xs in
    let cfold := fold_commitment fo go (gadd go c (gmul go res q)) xs xinvs (pL pr) (pR pr) in
    let g' := hd (g0 go) (fold_all_g go xinvs (c_srs cfg)) in
    let b' := hd (f0 fo) (fold_all_a fo xinvs (compute_b fo cfg z)) in
    Some (t, geqb go (gadd go (gmul go (pA pr) g') (gmul go (fmul fo b' (pA pr)) q)) cfold).

  Lemma gen_challenges_length L : forall R t, length R = length L ->
    length (snd (gen_challenges fo go hashf t L R)) = length L.
  Proof.
    induction L as [|l L IH]; intros [|r R] t H; try discriminate; cbn [gen_challenges]; [reflexivity|].
    destruct (t_challenge fo hashf _ lbl_x) as [t1 x]. specialize (IH R t1 ltac:(cbn in H; lia)).
    destruct (gen_challenges fo go hashf t1 L R) as [t2 xs]. cbn [snd length] in *. lia.
  Qed.

  Theorem ipa_check_refines_spec t cfg c pr z res :
    length (c_srs cfg) = 2 ^ c_rounds cfg -> length (compute_b fo cfg z) = 2 ^ c_rounds cfg ->
    ipa_check fo go hashf t cfg c pr z res = ipa_check_spec t cfg c pr z res.
  Proof.
    intros Hs Hb. unfold ipa_check, ipa_check_spec.
    destruct (Nat.eqb (length (pL pr)) (length (pR pr))) eqn:E1; cbn [negb]; [|reflexivity].
    destruct (Nat.eqb (length (pL pr)) (c_rounds cfg)) eqn:E2; cbn [negb]; [|reflexivity].
    apply Nat.eqb_eq in E1, E2.
    destruct (t_challenge fo hashf _ lbl_w) as [t1 w].
    pose proof (gen_challenges_length (pL pr) (pR pr) t1 (eq_sym E1)) as Hl.
    destruct (gen_challenges fo go hashf t1 (pL pr) (pR pr)) as [t2 xs]. cbn [snd] in Hl.
    set (xinvs := batch_invert fo xs).
    assert (Hlx : length xinvs = c_rounds cfg) by (unfold xinvs; rewrite (batch_invert_length fo FL); lia).
    rewrite Hl, E2, <- Hlx, Hs, <- Hlx.
    rewrite (folding_scalars_spec fo FL xinvs).
    rewrite (fold_all_g_spec fo go FL GL xinvs (c_srs cfg)) by (rewrite Hlx; exact Hs).
    rewrite (fold_all_a_as_g fo), (fold_all_g_spec fo (fgo fo) FL (fgo_laws fo FL) xinvs (compute_b fo cfg z))
      by (rewrite Hlx; exact Hb).
    cbn [hd]. rewrite <- (inner_msm fo). rewrite (inner_comm fo FL (compute_b fo cfg z)). reflexivity.
  Qed.
End RefinesSpec.
