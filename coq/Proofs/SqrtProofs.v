(* bandersnatch/fp/sqrt.go: the addition chain computes z^((Q+1)/2) and z^Q where
   p - 1 = 2^32 Q; zero; conditional soundness of the table-driven square root;
   sign selection of computeY / GetPointFromX. *)
From Coq Require Import ZArith List Bool Lia.
From GoIpa Require Import Model.Bytes Model.Zq Model.Alg Model.SqrtChain Model.FpSqrt Model.Edwards Model.Banderwagon
  Proofs.ZqProofs Proofs.ZqField Proofs.AlgLaws Proofs.CodecProofs Proofs.BwProofs.
Import ListNotations.
Open Scope Z_scope.

(* ---- the chain as data: exponents ---- *)
Definition Qodd : Z := (p_mod - 1) / 2 ^ 32.
Theorem chain_exponents_spec :
  p_mod - 1 = 2 ^ 32 * Qodd /\ Z.odd Qodd = true
  /\ chain_exp_root = Qodd /\ 2 * chain_exp_candidate = Qodd + 1
  /\ forallb (fun e => 0 <=? e) chain_exponents = true.
Proof. vm_compute. repeat split; reflexivity. Qed.

(* ---- generic: interpreting the chain over a power function ---- *)
Section ChainGeneric.
  Context {T : Type} (mul : T -> T -> T) (one : T) (pw : Z -> T).
  Hypothesis pw_0 : pw 0 = one.
  Hypothesis pw_add : forall a b, 0 <= a -> 0 <= b -> pw (a + b) = mul (pw a) (pw b).

  Definition nonneg (l : list Z) : Prop := Forall (fun e => 0 <= e) l.

  Lemma get_reg_map i l : get_reg one i (map pw l) = pw (get_reg 0 i l).
  Proof.
    unfold get_reg. rewrite <- pw_0. apply map_nth.
  Qed.
  Lemma set_reg_map i v l : set_reg i (pw v) (map pw l) = map pw (set_reg i v l).
  Proof. unfold set_reg. rewrite map_app, firstn_map. cbn [map]. rewrite skipn_map. reflexivity. Qed.
  Lemma get_reg_nonneg i l : nonneg l -> 0 <= get_reg 0 i l.
  Proof.
    intros H. unfold get_reg. destruct (Nat.lt_ge_cases i (length l)) as [Hi|Hi].
    - exact (proj1 (Forall_forall _ _) H _ (nth_In l 0 Hi)).
    - rewrite nth_overflow by exact Hi. lia.
  Qed.
  Lemma in_firstn' {A} (x : A) i : forall l, In x (firstn i l) -> In x l.
  Proof. induction i as [|i IH]; intros [|y l] Hx; cbn in *; try tauto. destruct Hx; auto. Qed.
  Lemma in_skipn' {A} (x : A) k : forall l, In x (skipn k l) -> In x l.
  Proof. induction k as [|k IH]; intros [|y l] Hx; cbn in *; auto. Qed.
  Lemma set_reg_nonneg i v l : 0 <= v -> nonneg l -> nonneg (set_reg i v l).
  Proof.
    intros Hv H. unfold set_reg, nonneg in *. apply Forall_app. split.
    - apply Forall_forall. intros x Hx. apply (proj1 (Forall_forall _ _) H). apply (in_firstn' x i l Hx).
    - constructor; [exact Hv|]. apply Forall_forall. intros x Hx. apply (proj1 (Forall_forall _ _) H).
      apply (in_skipn' x (S i) l Hx).
  Qed.

  Lemma sqn_pw n : forall e, 0 <= e -> sqn mul (pw e) n = pw (sqn Z.add e n) /\ 0 <= sqn Z.add e n.
  Proof.
    induction n as [|n IH]; intros e He; cbn [sqn]; [split; [reflexivity|exact He]|].
    rewrite <- pw_add by exact He. apply IH. lia.
  Qed.

  Lemma chain_step_map regs o : nonneg regs ->
    chain_step mul one (map pw regs) o = map pw (chain_step Z.add 0 regs o) /\ nonneg (chain_step Z.add 0 regs o).
  Proof.
    intros H. destruct o as [d s|d a b|d n]; cbn [chain_step].
    - rewrite !get_reg_map, <- pw_add by (apply get_reg_nonneg, H). rewrite set_reg_map.
      split; [reflexivity|]. apply set_reg_nonneg; [|exact H]. pose proof (get_reg_nonneg s regs H). lia.
    - rewrite !get_reg_map, <- pw_add by (apply get_reg_nonneg, H). rewrite set_reg_map.
      split; [reflexivity|]. apply set_reg_nonneg; [|exact H].
      pose proof (get_reg_nonneg a regs H). pose proof (get_reg_nonneg b regs H). lia.
    - rewrite get_reg_map. destruct (sqn_pw n (get_reg 0 d regs) (get_reg_nonneg d regs H)) as [E N].
      rewrite E, set_reg_map. split; [reflexivity|]. apply set_reg_nonneg; assumption.
  Qed.

  Theorem chain_interp_map ops : forall regs, nonneg regs ->
    chain_interp mul one ops (map pw regs) = map pw (chain_interp Z.add 0 ops regs).
  Proof.
    unfold chain_interp. induction ops as [|o ops IH]; intros regs H; cbn [fold_left]; [reflexivity|].
    destruct (chain_step_map regs o H) as [E N]. rewrite E. apply IH, N.
  Qed.
End ChainGeneric.

(* ---- powers in Fp ---- *)
Lemma zq_pow_pos_val {q} (a : Zq q) e : 1 < q -> zval (zq_pow_pos a e) = (zval a ^ Zpos e) mod q.
Proof.
  intros Hq. induction e as [e IH|e IH|]; cbn [zq_pow_pos].
  - unfold zq_mul. rewrite !zval_of_Z, IH. set (X := zval a ^ Z.pos e). set (va := zval a).
    rewrite Z.mul_mod_idemp_r by lia.
    replace (va * (X mod q * (X mod q))) with ((va * (X mod q)) * (X mod q)) by ring.
    rewrite Zmult_mod_idemp_r.
    replace (va * (X mod q) * X) with ((va * X) * (X mod q)) by ring.
    rewrite Zmult_mod_idemp_r. f_equal. unfold X, va.
    rewrite Pos2Z.inj_xI. replace (2 * Z.pos e + 1) with (Z.pos e + Z.pos e + 1) by lia.
    rewrite !Z.pow_add_r by lia. rewrite Z.pow_1_r. ring.
  - unfold zq_mul. rewrite zval_of_Z, IH. rewrite <- Z.mul_mod by lia. f_equal.
    rewrite Pos2Z.inj_xO. replace (2 * Z.pos e) with (Z.pos e + Z.pos e) by lia. rewrite Z.pow_add_r by lia. reflexivity.
  - rewrite Z.pow_1_r. symmetry. apply zval_canon.
Qed.

Lemma zq_pow_val {q} (a : Zq q) e : 1 < q -> 0 <= e -> zval (zq_pow a e) = (zval a ^ e) mod q.
Proof.
  intros Hq He. destruct e as [|e|e]; [|apply zq_pow_pos_val, Hq|lia].
  cbn [zq_pow]. unfold zq_one. rewrite zval_of_Z. reflexivity.
Qed.

Lemma fp_pow_add (z : Fp) a b : 0 <= a -> 0 <= b -> zq_pow z (a + b) = zq_mul (zq_pow z a) (zq_pow z b).
Proof.
  intros Ha Hb. apply zq_eq. unfold zq_mul. rewrite zval_of_Z, !zq_pow_val by (try apply p_mod_gt1; lia).
  rewrite <- Z.mul_mod by (pose proof p_mod_gt1; lia). rewrite Z.pow_add_r by lia. reflexivity.
Qed.
Lemma fp_pow_1 (z : Fp) : zq_pow z 1 = z.
Proof. reflexivity. Qed.

(* the chain computes the two powers, for every z *)
Theorem relevant_powers_spec (z : Fp) :
  relevant_powers z = (zq_pow z chain_exp_candidate, zq_pow z chain_exp_root).
Proof.
  unfold relevant_powers, chain_exp_candidate, chain_exp_root, chain_exponents.
  assert (Hinit : chain_init zq_one z = map (zq_pow z) (chain_init 0 1)) by reflexivity.
  rewrite Hinit.
  rewrite (chain_interp_map zq_mul zq_one (zq_pow z) eq_refl (fp_pow_add z) sqrt_chain (chain_init 0 1)).
  2:{ unfold nonneg. cbn. repeat constructor; lia. }
  rewrite !(get_reg_map zq_one (zq_pow z) eq_refl). reflexivity.
Qed.

(* ---- SqrtPrecomp ---- *)
Theorem sqrt_precomp_zero : sqrt_precomp zq_zero = Some zq_zero.
Proof. reflexivity. Qed.

Theorem sqrt_precomp_zero_only x : zval x = 0 -> sqrt_precomp x = Some zq_zero.
Proof. intros H. unfold sqrt_precomp, zq_is_zero. rewrite H. reflexivity. Qed.

(* soundness, conditional on the dyadic (2^32-th roots of unity) step AT rho = z^Q: if
   invSqrtEqDyadic returns w for this rho only when w^2 rho = 1, then the returned root squares
   to z.  (DyadicProofs.v proves the condition for every rho in the subgroup generated by the
   dyadic root, and refutes it for rho outside.) *)
Definition dyadic_sound_at (rho : Fp) : Prop :=
  forall w, inv_sqrt_eq_dyadic rho = Some w -> zq_mul (zq_mul w w) rho = zq_one.

Add Ring FpRingS : (zq_ring_theory p_mod p_mod_gt1).

Local Opaque chain_exp_candidate chain_exp_root chain_exponents.
Theorem sqrt_precomp_sound (z y : Fp) :
  dyadic_sound_at (zq_pow z chain_exp_root) -> sqrt_precomp z = Some y -> zq_mul y y = z.
Proof.
  intros HD. unfold sqrt_precomp. destruct (zq_is_zero z) eqn:Ez.
  - intros H. injection H as <-. apply fp_is_zero_eq in Ez. subst z. apply zq_eq. reflexivity.
  - rewrite relevant_powers_spec.
    destruct (inv_sqrt_eq_dyadic (zq_pow z chain_exp_root)) as [w|] eqn:Ew; [|discriminate].
    intros H. assert (Hy : y = zq_mul (zq_pow z chain_exp_candidate) w) by congruence. subst y. clear H.
    pose proof (HD _ Ew) as Hw.
    destruct chain_exponents_spec as (_ & _ & Hroot & Hcand & _).
    set (c := zq_pow z chain_exp_candidate) in *. set (rho := zq_pow z chain_exp_root) in *.
    assert (Hc2 : zq_mul c c = zq_mul rho z).
    { assert (HQ : 0 <= Qodd) by (unfold Qodd; apply Z.div_pos; [vm_compute; discriminate|reflexivity]).
      assert (Hc0 : 0 <= chain_exp_candidate) by lia.
      assert (Hr0 : 0 <= chain_exp_root) by lia.
      unfold c, rho.
      transitivity (zq_pow z (chain_exp_candidate + chain_exp_candidate)); [symmetry; apply fp_pow_add; lia|].
      transitivity (zq_pow z (chain_exp_root + 1)); [f_equal; lia|].
      rewrite fp_pow_add by lia. rewrite fp_pow_1. reflexivity. }
    unfold Fp in *.
    transitivity (zq_mul (zq_mul c c) (zq_mul w w)); [ring|]. rewrite Hc2.
    transitivity (zq_mul z (zq_mul (zq_mul w w) rho)); [ring|]. rewrite Hw. ring.
Qed.

(* the input is not modified: the model is a function; the result depends on z only *)

(* ---- computeY / GetPointFromX: nil exactly when the root is nil, x kept, sign as requested ---- *)
Theorem get_point_from_x_spec x b :
  (get_point_from_x x b = None <-> sqrt_precomp (zq_div (zq_sub (zq_mul (zq_mul x x) bw_a) zq_one)
                                                     (zq_sub (zq_mul (zq_mul x x) bw_d) zq_one)) = None)
  /\ (forall px py, get_point_from_x x b = Some (px, py) ->
        px = x /\ (zval py <> 0 -> zq_lex_largest py = b)).
Proof.
  unfold get_point_from_x, compute_y.
  set (v := zq_div _ _). destruct (sqrt_precomp v) as [s|].
  - split.
    + destruct (Bool.eqb b (zq_lex_largest s)); split; discriminate.
    + intros px py. destruct (Bool.eqb b (zq_lex_largest s)) eqn:E; intros H; injection H as <- <-; split; try reflexivity.
      * intros _. symmetry. apply Bool.eqb_prop, E.
      * intros Hy. assert (Hs : zval s <> 0).
        { intros Hz. apply Hy. unfold zq_neg. rewrite zval_of_Z, Hz. reflexivity. }
        rewrite (lex_largest_neg s Hs). destruct b, (zq_lex_largest s); cbn in *; congruence.
  - split; [split; reflexivity|]. intros px py H. discriminate.
Qed.

(* the dlog look-up table has 256 distinct keys (so the Go map built from it is injective) *)
Fixpoint all_distinct (l : list Z) : bool :=
  match l with [] => true | x :: r => negb (existsb (Z.eqb x) r) && all_distinct r end.
Theorem lut_keys_distinct : length lut_keys = 256%nat /\ all_distinct lut_keys = true.
Proof. vm_compute. split; reflexivity. Qed.

(* computeY: the returned y puts (x, y) on the curve  a x^2 + y^2 = 1 + d x^2 y^2, provided the
   square root is sound and the denominator d x^2 - 1 is invertible *)
Theorem compute_y_on_curve (x y : Fp) b :
  dyadic_sound_at (zq_pow (zq_div (zq_sub (zq_mul (zq_mul x x) bw_a) zq_one)
                                  (zq_sub (zq_mul (zq_mul x x) bw_d) zq_one)) chain_exp_root) ->
  AlgLaws.invertible fpo (zq_sub (zq_mul (zq_mul x x) bw_d) zq_one) ->
  compute_y x b = Some y ->
  zq_add (zq_mul bw_a (zq_mul x x)) (zq_mul y y) = zq_add zq_one (zq_mul (zq_mul bw_d (zq_mul x x)) (zq_mul y y)).
Proof.
  intros HD Hden. unfold compute_y.
  set (den := zq_sub (zq_mul (zq_mul x x) bw_d) zq_one) in *.
  set (num := zq_sub (zq_mul (zq_mul x x) bw_a) zq_one) in *.
  destruct (sqrt_precomp (zq_div num den)) as [s|] eqn:Es; [|discriminate].
  pose proof (sqrt_precomp_sound _ _ HD Es) as Hs. clear HD.
  assert (Hy2 : forall y0, (y0 = s \/ y0 = zq_neg s) -> zq_mul (zq_mul y0 y0) den = num).
  { intros y0 Hy0. assert (E : zq_mul y0 y0 = zq_mul s s) by (destruct Hy0 as [->| ->]; unfold Fp in *; ring).
    rewrite E, Hs. unfold zq_div.
    pose proof (AlgLaws.finv_r fpo fp_field_laws den Hden) as Hi. cbn [fmul f1 finv fpo] in Hi.
    unfold Fp in *. transitivity (zq_mul num (zq_mul den (zq_inv den))); [ring|]. rewrite Hi. ring. }
  intros H.
  assert (Hy : y = s \/ y = zq_neg s).
  { destruct (Bool.eqb b (zq_lex_largest s)); [left|right]; congruence. }
  specialize (Hy2 y Hy). unfold num, den in Hy2. unfold Fp in *.
  (* y^2 (d x^2 - 1) = a x^2 - 1  <->  curve equation *)
  transitivity (zq_add (zq_add (zq_sub (zq_mul (zq_mul x x) bw_a) zq_one) zq_one) (zq_mul y y)); [ring|].
  rewrite <- Hy2. ring.
Qed.
