From Coq Require Import ZArith List Bool Lia.
From GoIpa Require Import Model.Parallel.
Import ListNotations.
Open Scope Z_scope.

(* contiguous chain of non-empty ranges from a to b *)
Inductive chain : Z -> list (Z * Z) -> Z -> Prop :=
| chain_nil a : chain a [] a
| chain_cons a e rs b : a < e -> chain e rs b -> chain a ((a, e) :: rs) b.

Definition in_range (x : Z) (r : Z * Z) : bool := (fst r <=? x) && (x <? snd r).

Definition cover_count (x : Z) (rs : list (Z * Z)) : nat :=
  length (filter (in_range x) rs).

Lemma chain_le a rs b : chain a rs b -> a <= b.
Proof. induction 1; lia. Qed.

Lemma chain_cover_outside_low a rs b x : chain a rs b -> x < a -> cover_count x rs = 0%nat.
Proof.
  induction 1 as [|a e rs b Hlt Hc IH]; intros Hx; [reflexivity|].
  unfold cover_count in *. cbn [filter]. unfold in_range at 1. cbn [fst snd].
  destruct (a <=? x) eqn:E; [lia|]. cbn. apply IH. lia.
Qed.

Lemma chain_cover_once a rs b x : chain a rs b -> a <= x < b -> cover_count x rs = 1%nat.
Proof.
  induction 1 as [|a e rs b Hlt Hc IH]; intros Hx; [lia|].
  unfold cover_count in *. cbn [filter]. unfold in_range at 1. cbn [fst snd].
  destruct (a <=? x) eqn:E1; [|lia].
  destruct (x <? e) eqn:E2; cbn.
  - f_equal. apply (chain_cover_outside_low _ _ _ _ Hc). lia.
  - apply IH. lia.
Qed.

Lemma chain_cover_outside_high a rs b x : chain a rs b -> b <= x -> cover_count x rs = 0%nat.
Proof.
  induction 1 as [|a e rs b Hlt Hc IH]; intros Hx; [reflexivity|].
  unfold cover_count in *. cbn [filter]. unfold in_range at 1. cbn [fst snd].
  pose proof (chain_le _ _ _ Hc).
  destruct (x <? e) eqn:E2; [lia|]. rewrite andb_false_r. apply IH. lia.
Qed.

Definition size_ok (q : Z) (r : Z * Z) : Prop := snd r - fst r = q \/ snd r - fst r = q + 1.

Lemma ranges_loop_length k i per extra off :
  length (ranges_loop k i per extra off) = k.
Proof.
  revert i extra off; induction k as [|k IH]; intros; cbn [ranges_loop]; [reflexivity|].
  destruct (0 <? extra); cbn [length]; rewrite IH; reflexivity.
Qed.

Lemma ranges_loop_chain k i per extra off :
  1 <= per -> 0 <= extra ->
  chain (i * per + off) (ranges_loop k i per extra off)
        (i * per + off + Z.of_nat k * per + Z.min extra (Z.of_nat k)).
Proof.
  intros Hper. revert i extra off; induction k as [|k IH]; intros i extra off Hex.
  - cbn [ranges_loop]. replace (_ + _ + _ + _) with (i * per + off) by lia. constructor.
  - cbn [ranges_loop]. destruct (0 <? extra) eqn:E.
    + constructor; [lia|].
      specialize (IH (i + 1) (extra - 1) (off + 1) ltac:(lia)).
      replace ((i + 1) * per + (off + 1)) with (i * per + off + per + 1) in IH by lia.
      replace (i * per + off + Z.of_nat (S k) * per + Z.min extra (Z.of_nat (S k)))
        with (i * per + off + per + 1 + Z.of_nat k * per + Z.min (extra - 1) (Z.of_nat k)) by lia.
      exact IH.
    + constructor; [lia|].
      specialize (IH (i + 1) extra off ltac:(lia)).
      replace ((i + 1) * per + off) with (i * per + off + per) in IH by lia.
      replace (i * per + off + Z.of_nat (S k) * per + Z.min extra (Z.of_nat (S k)))
        with (i * per + off + per + Z.of_nat k * per + Z.min extra (Z.of_nat k)) by lia.
      exact IH.
Qed.

Lemma ranges_loop_sizes k i per extra off :
  Forall (size_ok per) (ranges_loop k i per extra off).
Proof.
  revert i extra off; induction k as [|k IH]; intros; cbn [ranges_loop]; [constructor|].
  destruct (0 <? extra); constructor; try apply IH; unfold size_ok; cbn [fst snd]; lia.
Qed.

(* parameters actually used by Execute *)
Lemma execute_params n m :
  0 <= n -> 1 <= m ->
  let per0 := n / m in
  let per := if per0 <? 1 then 1 else per0 in
  let tasks := if per0 <? 1 then n else m in
  let extra := n - tasks * per in
  1 <= per /\ 0 <= tasks /\ 0 <= extra /\ extra <= tasks /\ tasks * per + extra = n
  /\ tasks = Z.min n m.
Proof.
  intros Hn Hm. cbv zeta.
  pose proof (Z.div_mod n m ltac:(lia)) as Hdm.
  pose proof (Z.mod_pos_bound n m ltac:(lia)) as Hmod.
  pose proof (Z.div_pos n m Hn ltac:(lia)) as Hdiv.
  destruct (n / m <? 1) eqn:E.
  - assert (n / m = 0) as H0 by lia.
    assert (n < m) by (rewrite H0 in Hdm; lia). lia.
  - assert (m <= n) by nia.
    assert (n - m * (n / m) = n mod m) by lia. lia.
Qed.

Theorem execute_ranges_chain n m :
  0 <= n -> 1 <= m -> chain 0 (execute_ranges n m) n.
Proof.
  intros Hn Hm. unfold execute_ranges.
  destruct (execute_params n m Hn Hm) as (Hper & Ht & Hex & Hle & Hsum & _).
  cbv zeta in *.
  set (per := if n / m <? 1 then 1 else n / m) in *.
  set (tasks := if n / m <? 1 then n else m) in *.
  pose proof (ranges_loop_chain (Z.to_nat tasks) 0 per (n - tasks * per) 0 Hper Hex) as H.
  rewrite Z2Nat.id in H by lia.
  replace (0 * per + 0) with 0 in H by lia.
  replace (0 + tasks * per + Z.min (n - tasks * per) tasks) with n in H by lia.
  exact H.
Qed.

Theorem execute_ranges_count n m :
  0 <= n -> 1 <= m -> Z.of_nat (length (execute_ranges n m)) = Z.min n m.
Proof.
  intros Hn Hm. unfold execute_ranges. rewrite ranges_loop_length.
  destruct (execute_params n m Hn Hm) as (_ & Ht & _ & _ & _ & Hmin). cbv zeta in *.
  rewrite Z2Nat.id by lia. exact Hmin.
Qed.

Theorem execute_ranges_balanced n m :
  0 <= n -> 1 <= m -> exists q, Forall (size_ok q) (execute_ranges n m).
Proof.
  intros. unfold execute_ranges. eexists. apply ranges_loop_sizes.
Qed.

Lemma chain_bounds a rs b : chain a rs b ->
  Forall (fun r => a <= fst r /\ fst r < snd r /\ snd r <= b) rs.
Proof.
  induction 1 as [|a e rs b Hlt Hc IH]; constructor.
  - cbn. pose proof (chain_le _ _ _ Hc). lia.
  - eapply Forall_impl; [|exact IH]. cbn. intros r Hr. lia.
Qed.

(* ---- join protocol ---- *)

Definition jinv (all : list nat) (s : jstate) : Prop :=
  wg s = Z.of_nat (length (running s)) /\
  (returned s = true -> tospawn s = [] /\ running s = []) /\
  (forall t, In t all <-> In t (tospawn s) \/ In t (running s) \/ In t (finished s)).

Lemma remove_first_spec t l r : remove_first t l = Some r ->
  length l = S (length r) /\ (forall x, In x l <-> x = t \/ In x r).
Proof.
  revert r; induction l as [|y ys IH]; intros r H; cbn in H; [discriminate|].
  destruct (Nat.eqb y t) eqn:E.
  - apply Nat.eqb_eq in E. inversion H; subst. split; [reflexivity|]. intros x; cbn. intuition.
  - destruct (remove_first t ys) as [r'|] eqn:E'; [|discriminate]. inversion H; subst.
    destruct (IH r' eq_refl) as [Hl Hi]. split; [cbn; lia|].
    intros x; cbn. rewrite Hi. intuition.
Qed.

Lemma jinit_inv all : jinv all (jinit all).
Proof.
  unfold jinv, jinit; cbn. split; [reflexivity|]. split; [discriminate|]. intros t; intuition.
Qed.

Lemma jstep_inv all s l s' : jinv all s -> jstep s l = Some s' -> jinv all s'.
Proof.
  unfold jinv, jstep. intros (Hwg & Hret & Hall) H.
  destruct (returned s) eqn:R; [discriminate|].
  destruct l as [|t|].
  - destruct (tospawn s) as [|t ts] eqn:E; [discriminate|]. inversion H; subst; cbn.
    split; [cbn; lia|]. split; [discriminate|].
    intros x. rewrite Hall. cbn. intuition.
  - destruct (remove_first t (running s)) as [r|] eqn:E; [|discriminate].
    inversion H; subst; cbn. destruct (remove_first_spec _ _ _ E) as [Hl Hi].
    split; [lia|]. split; [discriminate|].
    intros x. rewrite Hall, Hi. cbn. intuition.
  - destruct (tospawn s) eqn:E; [|discriminate].
    destruct (wg s =? 0) eqn:W; [|discriminate]. inversion H; subst; cbn.
    split; [exact Hwg|]. split.
    + intros _. split; [reflexivity|]. destruct (running s); [reflexivity|cbn in Hwg; lia].
    + intros x. rewrite Hall. cbn. intuition.
Qed.

Lemma jrun_inv all s ls s' : jinv all s -> jrun s ls = Some s' -> jinv all s'.
Proof.
  revert s; induction ls as [|l ls IH]; intros s Hi H; cbn in H.
  - inversion H; subst; exact Hi.
  - destruct (jstep s l) as [s1|] eqn:E; [|discriminate].
    eapply IH; [eapply jstep_inv; eassumption|exact H].
Qed.

(* For every schedule: once Execute has returned, every task has finished. *)
Theorem execute_joins all ls s :
  jrun (jinit all) ls = Some s -> returned s = true ->
  forall t, In t all -> In t (finished s).
Proof.
  intros Hrun Hret t Ht.
  destruct (jrun_inv all _ _ _ (jinit_inv all) Hrun) as (_ & Hr & Hall).
  destruct (Hr Hret) as [H1 H2]. apply Hall in Ht. rewrite H1, H2 in Ht.
  cbn in Ht. intuition.
Qed.

(* progress: a non-returned state always has an enabled step (no deadlock) *)
Theorem execute_progress all ls s :
  jrun (jinit all) ls = Some s -> returned s = false ->
  exists l s', jstep s l = Some s'.
Proof.
  intros Hrun Hret.
  destruct (jrun_inv all _ _ _ (jinit_inv all) Hrun) as (Hwg & _ & _).
  unfold jstep. rewrite Hret.
  destruct (tospawn s) as [|t ts] eqn:E.
  - destruct (running s) as [|t r] eqn:R.
    + exists JReturn. cbn in Hwg. rewrite Hwg. cbn. eauto.
    + exists (JFinish t). cbn. rewrite Nat.eqb_refl. eauto.
  - exists JSpawn. eauto.
Qed.

(* full statement of the range property, assembled *)
Definition ranges_spec (n m : Z) (rs : list (Z * Z)) : Prop :=
  chain 0 rs n
  /\ Z.of_nat (length rs) = Z.min n m
  /\ (exists q, Forall (size_ok q) rs)
  /\ Forall (fun r => 0 <= fst r /\ fst r < snd r /\ snd r <= n) rs
  /\ (forall x, 0 <= x < n -> cover_count x rs = 1%nat)
  /\ (forall x, x < 0 \/ n <= x -> cover_count x rs = 0%nat).

Lemma execute_ranges_spec n m : 0 <= n -> 1 <= m -> ranges_spec n m (execute_ranges n m).
Proof.
  intros Hn Hm. pose proof (execute_ranges_chain n m Hn Hm) as Hc.
  unfold ranges_spec. repeat split.
  - exact Hc.
  - apply execute_ranges_count; assumption.
  - apply execute_ranges_balanced; assumption.
  - apply (chain_bounds _ _ _ Hc).
  - intros x Hx. eapply chain_cover_once; eassumption.
  - intros x [Hx|Hx].
    + eapply chain_cover_outside_low; eassumption.
    + eapply chain_cover_outside_high; eassumption.
Qed.

(* ---- channel fan-in ---- *)
Lemma fstep_inv cap k s l s' :
  fstep cap k s l = Some s' ->
  (f_tosend s' + f_buf s' + f_recv s' = f_tosend s + f_buf s + f_recv s)%nat
  /\ (2 * f_tosend s' + f_buf s' < 2 * f_tosend s + f_buf s)%nat.
Proof.
  destruct l; cbn [fstep];
    repeat match goal with |- context [if ?b then _ else _] => destruct b eqn:? end; try discriminate;
    intros H; injection H as <-; cbn [f_tosend f_buf f_recv];
    repeat match goal with H : (_ && _)%bool = true |- _ => apply andb_prop in H as [? ?] end;
    repeat match goal with H : (_ <? _)%nat = true |- _ => apply Nat.ltb_lt in H end;
    repeat match goal with H : (_ =? _)%nat = true |- _ => apply Nat.eqb_eq in H end; lia.
Qed.

Lemma frun_inv cap k ls : forall s s', frun cap k s ls = Some s' ->
  (f_tosend s' + f_buf s' + f_recv s' = f_tosend s + f_buf s + f_recv s)%nat
  /\ (length ls + (2 * f_tosend s' + f_buf s') <= 2 * f_tosend s + f_buf s)%nat.
Proof.
  induction ls as [|l ls IH]; intros s s' H; cbn [frun] in H.
  - injection H as <-. cbn. lia.
  - destruct (fstep cap k s l) as [s1|] eqn:E; [|discriminate].
    destruct (fstep_inv _ _ _ _ _ E). destruct (IH _ _ H). cbn [length]. lia.
Qed.

(* when as many values are received as there are senders: no reachable state is stuck
   before all k values are received (for EVERY capacity, 0 included), every run has at
   most 2k steps, and at the end every value has been received exactly once *)
Theorem fanin_no_deadlock cap k ls s :
  frun cap k (finit k) ls = Some s ->
  (length ls <= 2 * k)%nat
  /\ (f_tosend s + f_buf s + f_recv s = k)%nat
  /\ ((f_recv s < k)%nat -> exists l s', fstep cap k s l = Some s').
Proof.
  intros H. destruct (frun_inv _ _ _ _ _ H) as [I1 I2]. cbn [finit f_tosend f_buf f_recv] in *.
  split; [lia|]. split; [lia|]. intros Hr.
  destruct (f_buf s) as [|b] eqn:Eb.
  - exists FHandoff. cbn [fstep]. rewrite Eb.
    replace (0 <? f_tosend s)%nat with true by (symmetry; apply Nat.ltb_lt; lia).
    replace (f_recv s <? k)%nat with true by (symmetry; apply Nat.ltb_lt; lia).
    cbn. eexists. reflexivity.
  - exists FRecv. cbn [fstep]. rewrite Eb.
    replace (f_recv s <? k)%nat with true by (symmetry; apply Nat.ltb_lt; lia).
    cbn. eexists. reflexivity.
Qed.

(* ... whereas a receiver that takes FEWER values than there are senders on a channel whose
   capacity is below the surplus leaves senders blocked forever (the failure mode of a
   fan-out wider than the channel capacity) *)
Theorem fanin_surplus_senders_block :
  exists s, frun 1 1 (finit 3) [FHandoff; FSend] = Some s
            /\ f_tosend s = 1%nat /\ forall l, fstep 1 1 s l = None.
Proof. eexists. split; [reflexivity|]. split; [reflexivity|]. intros []; reflexivity. Qed.

(* the index ranges of one Execute call are pairwise disjoint: every index is covered by
   exactly one range, so per-index writes of different tasks cannot conflict *)
Theorem execute_ranges_disjoint n m x : 0 <= n -> 1 <= m ->
  cover_count x (execute_ranges n m) = (if (0 <=? x) && (x <? n) then 1%nat else 0%nat).
Proof.
  intros Hn Hm. pose proof (execute_ranges_chain n m Hn Hm) as Hc.
  destruct (Z.leb_spec 0 x); destruct (Z.ltb_spec x n); cbn [andb].
  - apply (chain_cover_once 0 _ n); [exact Hc|lia].
  - apply (chain_cover_outside_high 0 _ n); [exact Hc|lia].
  - apply (chain_cover_outside_low 0 _ n); [exact Hc|lia].
  - apply (chain_cover_outside_low 0 _ n); [exact Hc|lia].
Qed.
