(* Barycentric evaluation and in-domain division (ipa/barycentric.go), over any
   commutative ring with partial inverse (FieldLaws), domain 0..n-1 for EVERY n >= 1.
   Premises: differences of distinct nodes invertible, point - node invertible, and the
   embedding of naturals additive. *)
From Coq Require Import ZArith List Bool Lia Ring Arith.
From GoIpa Require Import Model.Alg Model.Bary Model.Banderwagon Proofs.AlgLaws.
Import ListNotations.

Section Frac.
  Context {F : Type} (fo : FOps F) (FL : FieldLaws fo).
  Local Notation "0" := (f0 fo).
  Local Notation "1" := (f1 fo).
  Local Infix "+" := (fadd fo).
  Local Infix "*" := (fmul fo).
  Local Infix "-" := (fsub fo).
  Local Notation "- x" := (fneg fo x).
  Local Notation inv := (finv fo).
  Local Notation invertible := (invertible fo).
  Add Ring FringFr : (fl_ring fo FL).

  Lemma inv_l x : invertible x -> inv x * x = 1.
  Proof. apply (finv_l fo FL). Qed.
  Lemma inv_r' x : invertible x -> x * inv x = 1.
  Proof. apply (finv_r fo FL). Qed.

  Lemma invertible_neg x : invertible x -> invertible (- x).
  Proof. intros [y H]. exists (- y). rewrite <- H. ring. Qed.
  Lemma inv_neg x : invertible x -> inv (- x) = - inv x.
  Proof.
    intros H. apply (inverse_unique fo FL (- x)); [apply inv_r', invertible_neg, H|].
    transitivity (x * inv x); [ring|apply inv_r', H].
  Qed.
  Lemma invertible_inv x : invertible x -> invertible (inv x).
  Proof. intros H. exists x. apply inv_l, H. Qed.
  Lemma inv_inv x : invertible x -> inv (inv x) = x.
  Proof.
    intros H. apply (inverse_unique fo FL (inv x)); [apply inv_r', invertible_inv, H|apply inv_l, H].
  Qed.

  (* cancellation: d invertible, a * d = b * d -> a = b *)
  Lemma mul_cancel_r d a b : invertible d -> a * d = b * d -> a = b.
  Proof.
    intros H E. transitivity (a * d * inv d); [transitivity (a * (d * inv d)); [rewrite inv_r' by exact H; ring|ring]|].
    rewrite E. transitivity (b * (d * inv d)); [ring|rewrite inv_r' by exact H; ring].
  Qed.

  (* n1/d1 = n2/d2  from  n1 d2 = n2 d1 *)
  Lemma frac_eq n1 d1 n2 d2 : invertible d1 -> invertible d2 ->
    n1 * d2 = n2 * d1 -> n1 * inv d1 = n2 * inv d2.
  Proof.
    intros H1 H2 E. apply (mul_cancel_r (d1 * d2)); [apply invertible_mul; assumption|].
    transitivity (n1 * d2 * (d1 * inv d1)); [ring|]. rewrite inv_r' by exact H1.
    transitivity (n2 * d1 * (d2 * inv d2)); [rewrite inv_r' by exact H2; rewrite E; ring|ring].
  Qed.

  (* n1/d1 + n2/d2 = (n1 d2 + n2 d1)/(d1 d2) *)
  Lemma frac_add n1 d1 n2 d2 : invertible d1 -> invertible d2 ->
    n1 * inv d1 + n2 * inv d2 = (n1 * d2 + n2 * d1) * inv (d1 * d2).
  Proof.
    intros H1 H2. rewrite (finv_mul fo FL d1 d2 H1 H2).
    transitivity (n1 * inv d1 * (d2 * inv d2) + n2 * inv d2 * (d1 * inv d1)); [|ring].
    rewrite !inv_r' by assumption. ring.
  Qed.

  (* finite sums *)
  Fixpoint fsum (l : list F) : F := match l with [] => 0 | x :: l' => x + fsum l' end.
  Lemma fsum_app a b : fsum (a ++ b) = fsum a + fsum b.
  Proof. induction a as [|x a IH]; cbn [app fsum]; [ring|rewrite IH; ring]. Qed.
  Lemma fsum_map_add {A} (f g : A -> F) l : fsum (map (fun i => f i + g i) l) = fsum (map f l) + fsum (map g l).
  Proof. induction l as [|x l IH]; cbn [map fsum]; [ring|rewrite IH; ring]. Qed.
  Lemma fsum_map_scale {A} k (f : A -> F) l : fsum (map (fun i => k * f i) l) = k * fsum (map f l).
  Proof. induction l as [|x l IH]; cbn [map fsum]; [ring|rewrite IH; ring]. Qed.
  Lemma fsum_map_ext {A} (f g : A -> F) l : (forall i, In i l -> f i = g i) -> fsum (map f l) = fsum (map g l).
  Proof. intros H. f_equal. apply map_ext_in, H. Qed.
  Lemma inner_maps {A} (f g : A -> F) l : inner fo (map f l) (map g l) = fsum (map (fun i => f i * g i) l).
  Proof. induction l as [|x l IH]; cbn [map inner fsum]; [reflexivity|rewrite IH; reflexivity]. Qed.
End Frac.

Section Bary.
  Context {F : Type} (fo : FOps F) (FL : FieldLaws fo).
  Local Notation "0" := (f0 fo).
  Local Notation "1" := (f1 fo).
  Local Infix "+" := (fadd fo).
  Local Infix "*" := (fmul fo).
  Local Infix "-" := (fsub fo).
  Local Notation "- x" := (fneg fo x).
  Local Notation inv := (finv fo).
  Local Notation invertible := (invertible fo).
  Local Notation dom := (dom fo).
  Add Ring FringB : (fl_ring fo FL).

  (* A_n(t) = prod_{i<n} (t - i) *)
  Definition Apoly (n : nat) (t : F) : F := fold_left (fun acc i => acc * (t - dom i)) (seq 0 n) 1.

  (* premises *)
  Definition nodes_ok (n : nat) : Prop :=
    forall i j, (i < n)%nat -> (j < n)%nat -> i <> j -> invertible (dom i - dom j).
  Definition off_domain (n : nat) (t : F) : Prop := forall i, (i < n)%nat -> invertible (t - dom i).

  Lemma nodes_ok_S n : nodes_ok (S n) -> nodes_ok n.
  Proof. intros H i j Hi Hj Hn. apply H; lia. Qed.
  Lemma off_domain_S n t : off_domain (S n) t -> off_domain n t.
  Proof. intros H i Hi. apply H; lia. Qed.
  Lemma nodes_off n : nodes_ok (S n) -> off_domain n (dom n).
  Proof. intros H i Hi. apply H; lia. Qed.

  Lemma Apoly_S n t : Apoly (S n) t = Apoly n t * (t - dom n).
  Proof. unfold Apoly. rewrite seq_S, fold_left_app. reflexivity. Qed.

  Lemma Apoly_invertible n t : off_domain n t -> invertible (Apoly n t).
  Proof.
    induction n as [|n IH]; intros H.
    - apply invertible_1, FL.
    - rewrite Apoly_S. apply invertible_mul; [exact FL|apply IH, off_domain_S, H|apply H; lia].
  Qed.

  Lemma bw_S_lt n i : (i < n)%nat -> bary_weight fo (S n) i = bary_weight fo n i * (dom i - dom n).
  Proof.
    intros Hi. unfold bary_weight. rewrite seq_S, fold_left_app. cbn [fold_left Nat.add].
    replace (Nat.eqb n i) with false by (symmetry; apply Nat.eqb_neq; lia). reflexivity.
  Qed.

  Lemma bw_S_n n : bary_weight fo (S n) n = Apoly n (dom n).
  Proof.
    unfold bary_weight, Apoly. rewrite seq_S, fold_left_app. cbn [fold_left Nat.add]. rewrite Nat.eqb_refl.
    assert (H : forall l acc, (forall j, In j l -> j <> n) ->
              fold_left (fun total j => if Nat.eqb j n then total else total * (dom n - dom j)) l acc
              = fold_left (fun acc i => acc * (dom n - dom i)) l acc).
    { induction l as [|j l IHl]; intros acc Hl; cbn [fold_left]; [reflexivity|].
      replace (Nat.eqb j n) with false by (symmetry; apply Nat.eqb_neq, Hl; left; reflexivity).
      apply IHl. intros k Hk. apply Hl. right. exact Hk. }
    apply H. intros j Hj. apply in_seq in Hj. lia.
  Qed.

  Lemma bw_invertible n : forall i, nodes_ok n -> (i < n)%nat -> invertible (bary_weight fo n i).
  Proof.
    induction n as [|n IH]; intros i Hn Hi; [lia|].
    destruct (Nat.eq_dec i n) as [->|Hne].
    - rewrite bw_S_n. apply Apoly_invertible, nodes_off, Hn.
    - rewrite bw_S_lt by lia. apply invertible_mul; [exact FL|apply IH; [apply nodes_ok_S, Hn|lia]|apply Hn; lia].
  Qed.

  (* 1/((a)(b)) with a + b = c:  1/(a b) = (1/c) (1/a + 1/b) *)
  Lemma split_inv a b c : invertible a -> invertible b -> invertible c -> a + b = c ->
    inv (a * b) = inv c * (inv a + inv b).
  Proof.
    intros Ha Hb Hc E. rewrite (finv_mul fo FL a b Ha Hb).
    apply (mul_cancel_r fo FL c); [exact Hc|].
    transitivity (inv a * inv b * (a + b)); [rewrite E; reflexivity|].
    transitivity (inv b * (a * inv a) + inv a * (b * inv b)); [ring|].
    rewrite !(inv_r' fo FL) by assumption.
    transitivity ((inv a + inv b) * (c * inv c)); [rewrite (inv_r' fo FL) by exact Hc; ring|ring].
  Qed.

  (* partial fractions: sum_i 1/(A'(i)(t - i)) = 1/A(t), n >= 1 *)
  Theorem partial_fractions n : forall t, (1 <= n)%nat -> nodes_ok n -> off_domain n t ->
    fsum fo (map (fun i => inv (bary_weight fo n i * (t - dom i))) (seq 0 n)) = inv (Apoly n t).
  Proof.
    induction n as [|n IH]; intros t Hn1 Hnodes Hoff; [lia|].
    destruct n as [|n'].
    - (* n = 1 *)
      cbn [seq map]. unfold bary_weight, Apoly. cbn [seq fold_left Nat.eqb]. cbn [fsum].
      ring.
    - set (n := S n') in *.
      assert (Hnodes' : nodes_ok n) by (apply nodes_ok_S, Hnodes).
      assert (Hoff' : off_domain n t) by (apply off_domain_S, Hoff).
      assert (Hdn : off_domain n (dom n)) by (apply nodes_off, Hnodes).
      assert (Htn : invertible (t - dom n)) by (apply Hoff; lia).
      rewrite seq_S, map_app, (fsum_app fo FL). cbn [Nat.add map fsum].
      rewrite bw_S_n, Apoly_S.
      (* the terms i < n *)
      assert (Hterms : forall i, In i (seq 0 n) ->
                inv (bary_weight fo (S n) i * (t - dom i))
                = inv (t - dom n) * (inv (bary_weight fo n i * (t - dom i))
                                     + - inv (bary_weight fo n i * (dom n - dom i)))).
      { intros i Hi. apply in_seq in Hi. rewrite bw_S_lt by lia.
        assert (Hw : invertible (bary_weight fo n i)) by (apply bw_invertible; [exact Hnodes'|lia]).
        assert (Hti : invertible (t - dom i)) by (apply Hoff; lia).
        assert (Hin : invertible (dom i - dom n)) by (apply Hnodes; lia).
        assert (Hni : invertible (dom n - dom i)) by (apply Hnodes; lia).
        replace (bary_weight fo n i * (dom i - dom n) * (t - dom i))
          with (bary_weight fo n i * ((dom i - dom n) * (t - dom i))) by ring.
        rewrite (finv_mul fo FL _ _ Hw (invertible_mul fo FL _ _ Hin Hti)).
        rewrite (split_inv (dom i - dom n) (t - dom i) (t - dom n) Hin Hti Htn) by ring.
        rewrite !(finv_mul fo FL) by assumption.
        replace (dom i - dom n) with (- (dom n - dom i)) by ring.
        rewrite (inv_neg fo FL _ Hni). ring. }
      rewrite (fsum_map_ext fo _ _ _ Hterms).
      rewrite (fsum_map_scale fo FL), (fsum_map_add fo FL).
      rewrite (IH t) by (try assumption; lia).
      assert (Hneg : fsum fo (map (fun i => - inv (bary_weight fo n i * (dom n - dom i))) (seq 0 n))
                     = - inv (Apoly n (dom n))).
      { rewrite <- (IH (dom n)) by (try assumption; lia).
        transitivity (fsum fo (map (fun i => (- (1)) * inv (bary_weight fo n i * (dom n - dom i))) (seq 0 n))).
        - apply (fsum_map_ext fo). intros i _. ring.
        - rewrite (fsum_map_scale fo FL). ring. }
      rewrite Hneg.
      assert (HAt : invertible (Apoly n t)) by (apply Apoly_invertible, Hoff').
      assert (HAn : invertible (Apoly n (dom n))) by (apply Apoly_invertible, Hdn).
      rewrite !(finv_mul fo FL) by assumption. ring.
  Qed.

  (* ---- the weight tables ---- *)
  Lemma nth_map_seq {A} (g : nat -> A) s n i d : (i < n)%nat -> nth i (map g (seq s n)) d = g (s + i)%nat.
  Proof.
    revert s i. induction n as [|n IH]; intros s i Hi; [lia|].
    destruct i as [|i]; cbn [seq map nth]; [f_equal; lia|]. rewrite IH by lia. f_equal. lia.
  Qed.

  Lemma w_bary_lo n i : (i < n)%nat -> nth i (w_bary (new_weights fo n)) 0 = bary_weight fo n i.
  Proof.
    intros Hi. cbn [new_weights w_bary]. rewrite app_nth1 by (rewrite map_length, seq_length; exact Hi).
    rewrite nth_map_seq by exact Hi. reflexivity.
  Qed.
  Lemma w_bary_hi n i : (i < n)%nat ->
    nth (i + Nat.div (length (w_bary (new_weights fo n))) 2) (w_bary (new_weights fo n)) 0 = inv (bary_weight fo n i).
  Proof.
    intros Hi. cbn [new_weights w_bary]. rewrite app_length, !map_length, seq_length.
    replace ((n + n) / 2)%nat with n by (replace (n + n)%nat with (n * 2)%nat by lia; symmetry; apply Nat.div_mul; lia).
    rewrite app_nth2 by (rewrite map_length, seq_length; lia). rewrite map_length, seq_length.
    replace (i + n - n)%nat with i by lia.
    rewrite (nth_indep _ 0 (inv 0)) by (rewrite !map_length, seq_length; exact Hi).
    rewrite map_nth. rewrite nth_map_seq by exact Hi. reflexivity.
  Qed.
  Lemma w_invdom_pos n e : (1 <= e)%nat -> (e < n)%nat ->
    get_inverted_element fo (new_weights fo n) e false = inv (dom e).
  Proof.
    intros H1 H2. unfold get_inverted_element. cbn [new_weights w_invdom].
    rewrite app_nth1 by (rewrite map_length, seq_length; lia).
    rewrite nth_map_seq by lia. f_equal. f_equal. lia.
  Qed.
  Lemma w_invdom_neg n e : (1 <= e)%nat -> (e < n)%nat ->
    get_inverted_element fo (new_weights fo n) e true = 0 - inv (dom e).
  Proof.
    intros H1 H2. unfold get_inverted_element. cbn [new_weights w_invdom].
    rewrite app_length, !map_length, seq_length.
    replace ((n - 1 + (n - 1)) / 2)%nat with (n - 1)%nat
      by (replace (n - 1 + (n - 1))%nat with ((n - 1) * 2)%nat by lia; symmetry; apply Nat.div_mul; lia).
    rewrite app_nth2 by (rewrite map_length, seq_length; lia). rewrite map_length, seq_length.
    replace (e - 1 + (n - 1) - (n - 1))%nat with (e - 1)%nat by lia.
    rewrite (nth_indep _ 0 (0 - inv 0)) by (rewrite !map_length, seq_length; lia).
    rewrite (map_nth (fun k => 0 - k)). rewrite nth_map_seq by lia. f_equal. f_equal. f_equal. lia.
  Qed.
  Lemma w_ratio n num den : (num < n)%nat -> (den < n)%nat ->
    get_ratio_of_weights fo (new_weights fo n) num den = bary_weight fo n num * inv (bary_weight fo n den).
  Proof. intros H1 H2. unfold get_ratio_of_weights. rewrite w_bary_lo, w_bary_hi by assumption. reflexivity. Qed.

  (* ---- barycentric coefficients ---- *)
  Definition bcoef (n : nat) (t : F) (i : nat) : F := inv ((t - dom i) * bary_weight fo n i) * Apoly n t.

  Theorem bary_coeffs_spec n t : nodes_ok n -> off_domain n t ->
    bary_coeffs fo n (batch_invert fo) (new_weights fo n) t = map (bcoef n t) (seq 0 n).
  Proof.
    intros Hn Ht. unfold bary_coeffs.
    set (evals := map (fun i => (t - dom i) * nth i (w_bary (new_weights fo n)) 0) (seq 0 n)).
    assert (He : evals = map (fun i => (t - dom i) * bary_weight fo n i) (seq 0 n)).
    { apply map_ext_in. intros i Hi. apply in_seq in Hi. rewrite w_bary_lo by lia. reflexivity. }
    assert (Hinv : Forall invertible evals).
    { rewrite He. apply Forall_forall. intros x Hx. apply in_map_iff in Hx as (i & <- & Hi). apply in_seq in Hi.
      apply invertible_mul; [exact FL|apply Ht; lia|apply bw_invertible; [exact Hn|lia]]. }
    rewrite (batch_invert_correct fo FL evals).
    2:{ unfold all_nz_invertible. eapply Forall_impl; [|exact Hinv]. intros x Hx _. exact Hx. }
    rewrite map_map. rewrite He at 1. rewrite map_map. apply map_ext_in. intros i Hi. apply in_seq in Hi.
    unfold bcoef. fold (Apoly n t). f_equal.
    unfold inv0. destruct (feqb fo _ 0) eqn:E; [|reflexivity].
    apply (fl_eqb fo FL) in E. exfalso.
    assert (Hx : invertible ((t - dom i) * bary_weight fo n i))
      by (apply invertible_mul; [exact FL|apply Ht; lia|apply bw_invertible; [exact Hn|lia]]).
    exact (invertible_nonzero fo FL _ Hx E).
  Qed.

  (* the coefficients sum to one *)
  Theorem bcoef_sum_one n t : (1 <= n)%nat -> nodes_ok n -> off_domain n t ->
    fsum fo (map (bcoef n t) (seq 0 n)) = 1.
  Proof.
    intros H1 Hn Ht. unfold bcoef.
    transitivity (fsum fo (map (fun i => Apoly n t * inv (bary_weight fo n i * (t - dom i))) (seq 0 n))).
    - apply (fsum_map_ext fo). intros i _.
      replace ((t - dom i) * bary_weight fo n i) with (bary_weight fo n i * (t - dom i)) by ring. ring.
    - rewrite (fsum_map_scale fo FL), (partial_fractions n t H1 Hn Ht).
      apply (inv_r' fo FL), Apoly_invertible, Ht.
  Qed.

  (* ---- DivideOnDomain ---- *)
  Hypothesis dom_add : forall i j, dom (i + j) = dom i + dom j.

  Lemma inverted_element_spec n i k : nodes_ok n -> (i < n)%nat -> (k < n)%nat -> i <> k ->
    get_inverted_element fo (new_weights fo n)
      (if Nat.ltb i k then (k - i)%nat else (i - k)%nat) (Nat.ltb i k) = inv (dom i - dom k).
  Proof.
    intros Hn Hi Hk Hne. destruct (Nat.ltb_spec i k) as [Hlt|Hge].
    - rewrite w_invdom_neg by lia.
      assert (E : dom i - dom k = - dom (k - i)).
      { replace k with (i + (k - i))%nat at 1 by lia. rewrite dom_add. ring. }
      assert (Hd : invertible (dom (k - i))).
      { replace (dom (k - i)) with (dom k - dom i); [apply Hn; lia|].
        replace k with (i + (k - i))%nat at 1 by lia. rewrite dom_add. ring. }
      rewrite E, (inv_neg fo FL _ Hd). ring.
    - rewrite w_invdom_pos by lia. f_equal.
      replace i with (k + (i - k))%nat at 2 by lia. rewrite dom_add. ring.
  Qed.

  Lemma fold_skip_sum (c : nat -> F) k l : forall a0,
    fold_left (fun acc i => if Nat.eqb i k then acc else acc - c i) l a0
    = a0 - fsum fo (map (fun i => if Nat.eqb i k then 0 else c i) l).
  Proof.
    induction l as [|i l IH]; intros a0; cbn [fold_left map fsum]; [ring|].
    rewrite IH. destruct (Nat.eqb i k); ring.
  Qed.

  Lemma fsum_indicator c k n : (k < n)%nat ->
    fsum fo (map (fun i => if Nat.eqb i k then c else 0) (seq 0 n)) = c.
  Proof.
    intros Hk.
    assert (H : forall s m, fsum fo (map (fun i => if Nat.eqb i k then c else 0) (seq s m))
                            = if (s <=? k)%nat && (k <? s + m)%nat then c else 0).
    { intros s m. revert s. induction m as [|m IH]; intros s; cbn [seq map fsum].
      - destruct (s <=? k)%nat eqn:E1; cbn [andb]; [|reflexivity].
        destruct (k <? s + 0)%nat eqn:E2; [|reflexivity].
        apply Nat.leb_le in E1. apply Nat.ltb_lt in E2. lia.
      - rewrite IH. destruct (Nat.eqb_spec s k) as [->|Hne].
        + rewrite Nat.leb_refl. replace (k <? k + S m)%nat with true by (symmetry; apply Nat.ltb_lt; lia).
          replace (S k <=? k)%nat with false by (symmetry; apply Nat.leb_gt; lia). cbn [andb]. ring.
        + destruct (s <=? k)%nat eqn:E1.
          * apply Nat.leb_le in E1. replace (S s <=? k)%nat with true by (symmetry; apply Nat.leb_le; lia).
            replace (k <? S s + m)%nat with (k <? s + S m)%nat by (f_equal; lia). cbn [andb].
            destruct (k <? s + S m)%nat; ring.
          * apply Nat.leb_gt in E1. replace (S s <=? k)%nat with false by (symmetry; apply Nat.leb_gt; lia).
            cbn [andb]. ring. }
    rewrite H. cbn [Nat.leb andb Nat.add]. replace (k <? n)%nat with true by (symmetry; apply Nat.ltb_lt; exact Hk).
    reflexivity.
  Qed.

  (* q'_i : the off-diagonal quotient values, 0 at k *)
  Definition qoff (n k : nat) (f : list F) (i : nat) : F :=
    if Nat.eqb i k then 0 else (nth i f 0 - nth k f 0) * inv (dom i - dom k).

  Theorem divide_on_domain_spec n k f : nodes_ok n -> (k < n)%nat ->
    divide_on_domain fo n (new_weights fo n) k f
    = map (fun i => if Nat.eqb i k
                    then 0 - fsum fo (map (fun j => bary_weight fo n k * inv (bary_weight fo n j) * qoff n k f j) (seq 0 n))
                    else qoff n k f i) (seq 0 n).
  Proof.
    intros Hn Hk. unfold divide_on_domain. cbv zeta.
    set (qi := fun i : nat => (nth i f 0 - nth k f 0) *
               get_inverted_element fo (new_weights fo n) (if Nat.ltb i k then (k - i)%nat else (i - k)%nat) (Nat.ltb i k)).
    assert (Hqi : forall i, (i < n)%nat -> i <> k -> qi i = qoff n k f i).
    { intros i Hi Hne. unfold qi, qoff. replace (Nat.eqb i k) with false by (symmetry; apply Nat.eqb_neq; exact Hne).
      rewrite inverted_element_spec by assumption. reflexivity. }
    apply map_ext_in. intros i Hi. apply in_seq in Hi.
    destruct (Nat.eqb_spec i k) as [->|Hne]; [|apply Hqi; lia].
    change (fold_left (fun acc j => if Nat.eqb j k then acc else acc - (get_ratio_of_weights fo (new_weights fo n) k j * qi j)) (seq 0 n) 0
            = 0 - fsum fo (map (fun j => bary_weight fo n k * inv (bary_weight fo n j) * qoff n k f j) (seq 0 n))).
    rewrite (fold_skip_sum (fun j => get_ratio_of_weights fo (new_weights fo n) k j * qi j) k (seq 0 n) 0).
    f_equal. apply (fsum_map_ext fo). intros j Hj. apply in_seq in Hj.
    destruct (Nat.eqb_spec j k) as [->|Hnj].
    - unfold qoff. rewrite Nat.eqb_refl. ring.
    - rewrite w_ratio by lia. rewrite Hqi by lia. reflexivity.
  Qed.

  (* the quotient agrees with (f_i - f_k)/(i - k) off the diagonal (definitionally, above),
     and evaluating it at t gives (p(t) - p(k))/(t - k):
       <DivideOnDomain k f, b(t)> = (<f, b(t)> - f_k)/(t - k)        *)
  Theorem quotient_eval_identity n k f t :
    (1 <= n)%nat -> nodes_ok n -> off_domain n t -> (k < n)%nat -> length f = n ->
    inner fo (divide_on_domain fo n (new_weights fo n) k f) (map (bcoef n t) (seq 0 n))
    = (inner fo f (map (bcoef n t) (seq 0 n)) - nth k f 0) * inv (t - dom k).
  Proof.
    intros H1 Hn Ht Hk Hf.
    rewrite (divide_on_domain_spec n k f Hn Hk).
    set (W := bary_weight fo n). set (b := bcoef n t). set (q := qoff n k f). set (fk := nth k f 0).
    set (S := fsum fo (map (fun j => W k * inv (W j) * q j) (seq 0 n))).
    rewrite (inner_maps fo).
    (* split Q_i b_i = q_i b_i + [i = k] (0 - S) b_k *)
    transitivity (fsum fo (map (fun i => q i * b i) (seq 0 n))
                  + fsum fo (map (fun i => if Nat.eqb i k then (0 - S) * b k else 0) (seq 0 n))).
    { rewrite <- (fsum_map_add fo FL). apply (fsum_map_ext fo). intros i _.
      destruct (Nat.eqb_spec i k) as [->|Hne].
      - unfold q at 1, qoff. rewrite Nat.eqb_refl. ring.
      - ring. }
    rewrite (fsum_indicator _ k n Hk).
    (* (0 - S) b_k = - sum_j q_j inv(W_j) inv(t - d_k) A *)
    assert (HWk : invertible (W k)) by (apply bw_invertible; assumption).
    assert (Htk : invertible (t - dom k)) by (apply Ht; exact Hk).
    assert (HSb : (0 - S) * b k
                  = fsum fo (map (fun j => - (q j * (inv (W j) * inv (t - dom k) * Apoly n t))) (seq 0 n))).
    { unfold S, b, bcoef. fold W. rewrite (finv_mul fo FL _ _ Htk HWk).
      transitivity (fsum fo (map (fun j => (- (inv (t - dom k) * Apoly n t * (W k * inv (W k)))) * (inv (W j) * q j)) (seq 0 n))).
      - rewrite (fsum_map_scale fo FL).
        transitivity ((0 - fsum fo (map (fun j => W k * (inv (W j) * q j)) (seq 0 n))) * (inv (t - dom k) * inv (W k) * Apoly n t)).
        + f_equal. f_equal. apply (fsum_map_ext fo). intros j _. ring.
        + rewrite (fsum_map_scale fo FL). ring.
      - apply (fsum_map_ext fo). intros j _. rewrite (inv_r' fo FL _ HWk). ring. }
    rewrite HSb, <- (fsum_map_add fo FL).
    (* termwise *)
    transitivity (fsum fo (map (fun i => inv (t - dom k) * ((nth i f 0 - fk) * b i)) (seq 0 n))).
    { apply (fsum_map_ext fo). intros i Hi. apply in_seq in Hi.
      unfold q, qoff. destruct (Nat.eqb_spec i k) as [->|Hne].
      - fold fk. ring.
      - fold fk. unfold b, bcoef. fold W.
        assert (HWi : invertible (W i)) by (apply bw_invertible; [exact Hn|lia]).
        assert (Hti : invertible (t - dom i)) by (apply Ht; lia).
        assert (Hik : invertible (dom i - dom k)) by (apply Hn; lia).
        rewrite (finv_mul fo FL _ _ Hti HWi).
        (* inv(t-di) - inv(t-dk) = (di - dk) inv(t-di) inv(t-dk) *)
        assert (Hd : inv (t - dom i) + - inv (t - dom k) = (dom i - dom k) * (inv (t - dom i) * inv (t - dom k))).
        { apply (mul_cancel_r fo FL ((t - dom i) * (t - dom k))); [apply invertible_mul; assumption|].
          transitivity ((t - dom k) * ((t - dom i) * inv (t - dom i)) + - ((t - dom i) * ((t - dom k) * inv (t - dom k)))); [ring|].
          rewrite !(inv_r' fo FL) by assumption.
          transitivity ((dom i - dom k) * (((t - dom i) * inv (t - dom i)) * ((t - dom k) * inv (t - dom k)))); [|ring].
          rewrite !(inv_r' fo FL) by assumption. ring. }
        transitivity ((nth i f 0 - fk) * inv (dom i - dom k) * (inv (W i) * Apoly n t) * (inv (t - dom i) + - inv (t - dom k))); [ring|].
        rewrite Hd.
        transitivity ((nth i f 0 - fk) * ((dom i - dom k) * inv (dom i - dom k)) * (inv (W i) * Apoly n t) * (inv (t - dom i) * inv (t - dom k))); [ring|].
        rewrite (inv_r' fo FL _ Hik). ring. }
    rewrite (fsum_map_scale fo FL).
    (* sum_i (f_i - f_k) b_i = <f,b> - f_k *)
    assert (Hsum : fsum fo (map (fun i => (nth i f 0 - fk) * b i) (seq 0 n))
                   = inner fo f (map b (seq 0 n)) - fk).
    { transitivity (fsum fo (map (fun i => nth i f 0 * b i) (seq 0 n)) + (- fk) * fsum fo (map b (seq 0 n))).
      - rewrite <- (fsum_map_scale fo FL), <- (fsum_map_add fo FL). apply (fsum_map_ext fo). intros i _. ring.
      - unfold b. rewrite (bcoef_sum_one n t H1 Hn Ht). fold b.
        assert (Hfm : f = map (fun i => nth i f 0) (seq 0 n)).
        { rewrite <- Hf. clear. induction f as [|x f IH]; [reflexivity|].
          cbn [length seq map nth]. f_equal. rewrite <- seq_shift, map_map. exact IH. }
        replace (inner fo f (map b (seq 0 n)))
          with (inner fo (map (fun i => nth i f 0) (seq 0 n)) (map b (seq 0 n))) by (rewrite <- Hfm; reflexivity).
        rewrite (inner_maps fo). ring. }
    rewrite Hsum. ring.
  Qed.
End Bary.

(* ---- the concrete scalar field: premises of the theorems hold for n = 256 over Fr ---- *)
From GoIpa Require Import Model.Zq Model.FpSqrt Proofs.ZqProofs Proofs.ZqField.
Section ConcreteFr.
  Open Scope Z_scope.
  Lemma fro_dom_add i j : dom fro (i + j) = fadd fro (dom fro i) (dom fro j).
  Proof.
    unfold dom. cbn [fofz fadd fro]. apply zq_eq. unfold fr, zq_add. rewrite !zval_of_Z.
    rewrite Nat2Z.inj_add. rewrite <- Zplus_mod. reflexivity.
  Qed.

  Definition small_diffs : list Z := map (fun k => Z.of_nat k - 255) (seq 0 511).
  Lemma small_diffs_invertible :
    forallb (fun d => (d =? 0) || (zval (zq_mul (fr d) (zq_inv (fr d))) =? 1)) small_diffs = true.
  Proof. vm_compute. reflexivity. Qed.

  Lemma fro_nodes_ok : nodes_ok fro 256.
  Proof.
    intros i j Hi Hj Hne.
    assert (E : fsub fro (dom fro i) (dom fro j) = fr (Z.of_nat i - Z.of_nat j)).
    { unfold dom. cbn [fofz fsub fro]. apply zq_eq. unfold fr, zq_sub. rewrite !zval_of_Z.
      rewrite <- Zminus_mod. reflexivity. }
    rewrite E. set (d := Z.of_nat i - Z.of_nat j).
    assert (Hin : In d small_diffs).
    { unfold small_diffs. apply in_map_iff. exists (Z.to_nat (d + 255)). split; [lia|apply in_seq; lia]. }
    pose proof (proj1 (forallb_forall _ _) small_diffs_invertible d Hin) as H.
    apply orb_prop in H as [H|H]; [lia|].
    exists (zq_inv (fr d)). cbn [fmul f1 fro]. apply zq_eq. apply Z.eqb_eq in H. rewrite H. reflexivity.
  Qed.
End ConcreteFr.
