(* Assembly of the bucket-method MSM (bandersnatch/multiexp.go, msmInnerG1Jac / msmCk):
   for every implemented window width c, every list of points and canonical scalars and
   either way of processing the first chunk, the result is sum_i s_i P_i.
   Built from: partition_scalar_digits (limb level recoding), process_chunk_spec (bucket
   accumulation + running sum, with the smaller bucket array of the last chunk),
   reduce_chunks_spec / chunks_horner (combination), msmzv_app (split of the first chunk). *)
From Coq Require Import ZArith List Bool Lia.
From GoIpa Require Import Model.Alg Model.Pippenger Proofs.AlgLaws Proofs.IPAProofs
  Proofs.PippengerProofs Proofs.MsmProofs Proofs.PartitionProofs.
Import ListNotations.
Open Scope Z_scope.

(* ---- integer facts on digit lists ---- *)
Lemma digits_val_app c a b : 0 <= c ->
  digits_val c (a ++ b) = digits_val c a + 2 ^ (c * Z.of_nat (length a)) * digits_val c b.
Proof.
  intros Hc. induction a as [|x a IH]; cbn [app length].
  - cbn [Z.of_nat]. rewrite Z.mul_0_r, Z.pow_0_r. unfold digits_val at 2. cbn [fold_right]. lia.
  - unfold digits_val in *. cbn [fold_right]. rewrite IH.
    rewrite Nat2Z.inj_succ. replace (c * Z.succ (Z.of_nat (length a))) with (c + c * Z.of_nat (length a)) by lia.
    rewrite Z.pow_add_r by (try lia; apply Z.mul_nonneg_nonneg; lia). ring.
Qed.

Lemma digits_val_bound c ds : 1 <= c ->
  Forall (fun d => - 2 ^ (c - 1) <= d <= 2 ^ (c - 1) - 1) ds ->
  - 2 ^ (c * Z.of_nat (length ds)) < digits_val c ds < 2 ^ (c * Z.of_nat (length ds)).
Proof.
  intros Hc. pose proof (pow2_pos' (c - 1) ltac:(lia)) as Hh.
  assert (E2 : 2 ^ c = 2 * 2 ^ (c - 1)) by (apply pow2_half; lia).
  induction 1 as [|d r Hd _ IH]; cbn [length].
  - cbn. lia.
  - unfold digits_val in *. cbn [fold_right].
    rewrite Nat2Z.inj_succ. replace (c * Z.succ (Z.of_nat (length r))) with (c + c * Z.of_nat (length r)) by lia.
    rewrite Z.pow_add_r by (try lia; apply Z.mul_nonneg_nonneg; lia).
    set (P := 2 ^ (c * Z.of_nat (length r))) in *. set (v := fold_right (fun d acc => d + 2 ^ c * acc) 0 r) in *.
    assert (HP : 0 < P) by (apply pow2_pos', Z.mul_nonneg_nonneg; lia).
    assert (2 ^ c * v <= 2 ^ c * (P - 1)) by (apply Z.mul_le_mono_nonneg_l; lia).
    assert (2 ^ c * (- P + 1) <= 2 ^ c * v) by (apply Z.mul_le_mono_nonneg_l; lia).
    assert (2 ^ c * (P - 1) = 2 ^ c * P - 2 ^ c) by ring.
    assert (2 ^ c * (- P + 1) = - (2 ^ c * P) + 2 ^ c) by ring. lia.
Qed.

Lemma nth_last_len (l : list Z) n : length l = S n -> nth n l 0 = last l 0.
Proof.
  intros Hl. assert (Hne : l <> []) by (intros ->; discriminate).
  rewrite (app_removelast_last 0 Hne) at 1.
  assert (length (removelast l) = n).
  { pose proof (f_equal (@length Z) (app_removelast_last 0 Hne)) as E. rewrite app_length in E. cbn in E. lia. }
  rewrite app_nth2 by lia. replace (n - length (removelast l))%nat with 0%nat by lia. reflexivity.
Qed.

(* the top digit of a canonical scalar: nonnegative and at most 2^(255 - K), K = position of
   the last window; this is why the last chunk can use a smaller bucket array *)
Lemma top_digit_bound c s : 2 <= c -> 0 <= s < 2 ^ 253 ->
  let nb := Z.to_nat (nb_chunks c) in
  let K := (nb_chunks c - 1) * c in
  0 <= nth (nb - 1) (fst (recode nb c s 0)) 0 <= 2 ^ (255 - K).
Proof.
  intros Hc Hs nb K.
  pose proof (nb_chunks_pos c ltac:(lia)) as Hnb1.
  pose proof (nb_chunks_windows c) as Hwin.
  destruct (recode_real_value c s Hc Hs) as (Hval & Hrange & Hlen). fold nb in Hval, Hrange, Hlen.
  set (ds := fst (recode nb c s 0)) in *.
  assert (Hnbz : Z.of_nat nb = nb_chunks c) by (unfold nb; rewrite Z2Nat.id; lia).
  assert (Hne : ds <> []) by (intros E; rewrite E in Hlen; cbn in Hlen; lia).
  assert (Hl : length ds = S (nb - 1)) by lia.
  rewrite (nth_last_len ds (nb - 1) Hl).
  pose proof (app_removelast_last 0 Hne) as Eds.
  set (a := removelast ds) in *. set (t := last ds 0) in *.
  assert (Hla : length a = (nb - 1)%nat).
  { pose proof (f_equal (@length Z) Eds) as E. rewrite app_length in E. cbn in E. lia. }
  rewrite Eds in Hval, Hrange. apply Forall_app in Hrange. destruct Hrange as [Hra Hrt].
  rewrite digits_val_app in Hval by lia. unfold digits_val at 2 in Hval. cbn [fold_right] in Hval.
  pose proof (digits_val_bound c a ltac:(lia) Hra) as Hb.
  rewrite Hla in Hval, Hb. replace (c * Z.of_nat (nb - 1)) with K in Hval, Hb by (unfold K; lia).
  assert (HK : 0 <= K) by (unfold K; apply Z.mul_nonneg_nonneg; lia).
  assert (HK2 : K < 256).
  { unfold K. destruct (Z_le_gt_dec c 256); [apply Hwin; lia|].
    unfold nb_chunks. rewrite Z.div_small, Z.mod_small by lia. cbn. lia. }
  set (P := 2 ^ K) in *. assert (HP : 0 < P) by (apply pow2_pos'; lia).
  set (v := digits_val c a) in *.
  replace (2 ^ c * 0) with 0 in Hval by ring. rewrite Z.add_0_r in Hval.
  split.
  - destruct (Z_lt_ge_dec t 0) as [Hn|]; [|lia].
    assert (P * t <= P * (-1)) by (apply Z.mul_le_mono_nonneg_l; lia). lia.
  - destruct (Z_le_gt_dec t (2 ^ (255 - K))) as [|Hg]; [assumption|exfalso].
    assert (P * (2 ^ (255 - K) + 1) <= P * t) by (apply Z.mul_le_mono_nonneg_l; lia).
    assert (E : P * 2 ^ (255 - K) = 2 ^ 255) by (unfold P; rewrite <- Z.pow_add_r by lia; f_equal; lia).
    assert (2 ^ 253 < 2 ^ 255) by reflexivity.
    replace (P * (2 ^ (255 - K) + 1)) with (P * 2 ^ (255 - K) + P) in * by ring. lia.
Qed.


(* ---- the zero scalar: shortcut of partitionScalars = what the loop would write ---- *)
Lemma sel_bits_zero sel : sel_bits 0 sel = 0.
Proof.
  unfold sel_bits, limb. rewrite !Zdiv_0_l, !Zmod_0_l, !Z.land_0_l, Z.shiftr_0_l, Z.shiftl_0_l.
  destruct (s_multi sel); reflexivity.
Qed.

Lemma part_loop_zero c : forall f chunk out, part_loop f c 0 chunk 0 out = (out, 0).
Proof.
  induction f as [|f IH]; intros chunk out; [reflexivity|].
  rewrite part_loop_S. cbv zeta. rewrite sel_bits_zero. cbn [Z.add Z.eqb]. apply IH.
Qed.

Lemma partition_scalar_fst c s :
  fst (partition_scalar c s) = fst (part_loop (Z.to_nat (nb_chunks c)) c s 0 0 0).
Proof.
  unfold partition_scalar. cbv zeta.
  destruct ((s <? 2 ^ 64) && (s =? 0)) eqn:E; [|reflexivity].
  apply andb_true_iff in E. destruct E as [_ E]. apply Z.eqb_eq in E. subst s.
  rewrite part_loop_zero. reflexivity.
Qed.

(* the digits the chunk processor reads from the packed scalar *)
Definition digits_of (c s : Z) : list Z := fst (recode (Z.to_nat (nb_chunks c)) c s 0).

Lemma read_back c s j : 2 <= c <= 64 -> 0 <= s < 2 ^ 253 -> (j < Z.to_nat (nb_chunks c))%nat ->
  signed_of_bits c (chunk_bits c (fst (partition_scalar c s)) (Z.of_nat j)) = nth j (digits_of c s) 0.
Proof.
  intros Hc Hs Hj. rewrite partition_scalar_fst.
  destruct (partition_scalar_digits c s Hc Hs) as (_ & _ & H). apply H. exact Hj.
Qed.

(* sum_{k<m} B^k l[a+k] *)
Fixpoint dvf (c : Z) (l : list Z) (a m : nat) : Z :=
  match m with O => 0 | S m' => nth a l 0 + 2 ^ c * dvf c l (S a) m' end.
Lemma dvf_cons c x l : forall m a, dvf c (x :: l) (S a) m = dvf c l a m.
Proof. induction m as [|m IH]; intros a; cbn [dvf]; [reflexivity|]. rewrite IH. reflexivity. Qed.
Lemma dvf_all c l : dvf c l 0 (length l) = digits_val c l.
Proof.
  induction l as [|x l IH]; cbn [length dvf]; [reflexivity|].
  rewrite dvf_cons, IH. reflexivity.
Qed.

Lemma vaddz_map {A} (f g : A -> Z) l : vaddz (map f l) (map g l) = map (fun x => f x + g x) l.
Proof. induction l as [|x l IH]; cbn; [reflexivity|]. rewrite IH. reflexivity. Qed.

(* recombination of the digit columns: column i of the Horner sum is the value of row i *)
Lemma vhorner_columns c (dg : Z -> list Z) ss : forall m a,
  vhorner (2 ^ c) (length ss) (map (fun j => map (fun s => nth j (dg s) 0) ss) (seq a m))
  = map (fun s => dvf c (dg s) a m) ss.
Proof.
  induction m as [|m IH]; intros a; cbn [seq map vhorner dvf].
  - induction ss as [|s ss IHs]; cbn; [reflexivity|]. f_equal. exact IHs.
  - rewrite IH, map_map, vaddz_map. reflexivity.
Qed.

Section Inner.
  Context {F G : Type} (fo : FOps F) (go : GOps F G) (FL : FieldLaws fo) (GL : GroupLaws fo go).
  Hypothesis fofz_add : forall a b, fofz fo (a + b) = fadd fo (fofz fo a) (fofz fo b).
  Hypothesis fofz_mul : forall a b, fofz fo (a * b) = fmul fo (fofz fo a) (fofz fo b).
  Hypothesis fofz_1 : fofz fo 1 = f1 fo.
  Local Notation msmzv := (msmzv fo go).

  Definition dbound (nb : nat) (d : Z) : Prop := - Z.of_nat nb <= d <= Z.of_nat nb.

  Lemma digits_in_combine nb (ps : list G) : forall ds, Forall (dbound nb) ds -> digits_in nb (combine ps ds).
  Proof.
    induction ps as [|p ps IH]; intros [|d ds] H; cbn [combine]; try constructor.
    - cbn [snd]. exact (Forall_inv H).
    - apply IH. exact (Forall_inv_tail H).
  Qed.

  Lemma chunk_total nbk ps ds : Forall (dbound nbk) ds -> process_chunk go nbk (combine ps ds) = msmzv ps ds.
  Proof.
    intros H. rewrite (process_chunk_spec fo go FL GL fofz_add fofz_1) by (apply digits_in_combine; exact H).
    apply msmz_combine.
  Qed.

  (* number of buckets used for chunk j, as in msmCk *)
  Definition nbuckets (c j : Z) : nat :=
    if (256 mod c =? 0) then Z.to_nat (2 ^ (c - 1))
    else if j =? nb_chunks c - 1 then Z.to_nat (2 ^ (256 - c * (256 / c) - 1)) else Z.to_nat (2 ^ (c - 1)).

  Lemma digit_fits_buckets c s j : 2 <= c <= 64 -> 0 <= s < 2 ^ 253 -> (j < Z.to_nat (nb_chunks c))%nat ->
    dbound (nbuckets c (Z.of_nat j)) (nth j (digits_of c s) 0).
  Proof.
    intros Hc Hs Hj. unfold dbound, nbuckets.
    destruct (recode_real_value c s ltac:(lia) Hs) as (_ & Hrange & Hlen).
    pose proof (proj1 (Forall_forall _ _) Hrange _ (@nth_In Z j _ 0 ltac:(rewrite Hlen; exact Hj))) as Hd.
    fold (digits_of c s) in Hd. cbv beta in Hd.
    pose proof (pow2_pos' (c - 1) ltac:(lia)) as Hh.
    destruct (Z.eqb_spec (256 mod c) 0) as [E|E]; [rewrite Z2Nat.id by lia; lia|].
    destruct (Z.eqb_spec (Z.of_nat j) (nb_chunks c - 1)) as [Ej|Ej]; [|rewrite Z2Nat.id by lia; lia].
    pose proof (top_digit_bound c s ltac:(lia) Hs) as Ht. cbv zeta in Ht.
    replace (Z.to_nat (nb_chunks c) - 1)%nat with j in Ht by lia. fold (digits_of c s) in Ht.
    assert (EK : 255 - (nb_chunks c - 1) * c = 256 - c * (256 / c) - 1).
    { unfold nb_chunks. destruct (Z.eqb_spec (256 mod c) 0); [contradiction|]. ring. }
    rewrite EK in Ht.
    pose proof (Z.div_mod 256 c ltac:(lia)) as Hdm. pose proof (Z.mod_pos_bound 256 c ltac:(lia)) as Hm.
    assert (0 <= 256 - c * (256 / c) - 1) by lia.
    rewrite Z2Nat.id by (apply Z.lt_le_incl, pow2_pos'; lia). lia.
  Qed.

  (* MAIN: the bucket-method MSM on the packed scalars written by partitionScalars *)
  Theorem msm_inner_spec c points ss split :
    2 <= c <= 64 -> length points = length ss -> Forall (fun s => 0 <= s < 2 ^ 253) ss ->
    msm_inner go c points (fst (partition_scalars c ss)) split = msmzv points ss.
  Proof.
    intros Hc Hlen Hss.
    pose proof (nb_chunks_pos c ltac:(lia)) as Hnb1.
    set (nb := Z.to_nat (nb_chunks c)).
    set (col := fun j : nat => map (fun s => nth j (digits_of c s) 0) ss).
    set (packed := fst (partition_scalars c ss)).
    assert (Epk : packed = map (fun s => fst (partition_scalar c s)) ss).
    { unfold packed, partition_scalars. cbv zeta. cbn [fst]. apply map_map. }
    assert (A : forall j, (j < nb)%nat ->
              map (fun pk => signed_of_bits c (chunk_bits c pk (Z.of_nat j))) packed = col j).
    { intros j Hj. rewrite Epk, map_map. apply map_ext_in. intros s Hin.
      apply read_back; [exact Hc| exact (proj1 (Forall_forall _ _) Hss s Hin) | exact Hj]. }
    assert (B : forall j, (j < nb)%nat -> Forall (dbound (nbuckets c (Z.of_nat j))) (col j)).
    { intros j Hj. apply Forall_forall. intros d Hin. apply in_map_iff in Hin. destruct Hin as (s & <- & Hin).
      apply digit_fits_buckets; [exact Hc| exact (proj1 (Forall_forall _ _) Hss s Hin) | exact Hj]. }
    assert (Lcol : forall j, length (col j) = length points) by (intros j; unfold col; rewrite map_length; lia).
    assert (Lpk : length packed = length points) by (rewrite Epk, map_length; lia).
    (* every chunk total is the MSM with the digit column *)
    assert (T : forall j, In j (seq 0 nb) ->
      (if (Z.of_nat j =? 0) && split
       then gadd go (process_chunk go (nbuckets c 0)
                       (chunk_pds c (firstn (Nat.div (length points) 2) points) (firstn (Nat.div (length points) 2) packed) 0))
                    (process_chunk go (nbuckets c 0)
                       (chunk_pds c (skipn (Nat.div (length points) 2) points) (skipn (Nat.div (length points) 2) packed) 0))
       else process_chunk go (nbuckets c (Z.of_nat j)) (chunk_pds c points packed (Z.of_nat j)))
      = msmzv points (col j)).
    { intros j Hin. apply in_seq in Hin. assert (Hj : (j < nb)%nat) by lia.
      destruct ((Z.of_nat j =? 0) && split) eqn:E.
      - apply andb_true_iff in E. destruct E as [E _]. apply Z.eqb_eq in E. assert (j = 0%nat) by lia. subst j.
        set (h := Nat.div (length points) 2).
        unfold chunk_pds. rewrite <- firstn_map, <- skipn_map.
        change 0 with (Z.of_nat 0) at 2 4. rewrite (A 0%nat Hj).
        pose proof (B 0%nat Hj) as B0. cbn [Z.of_nat] in B0.
        rewrite <- (firstn_skipn h (col 0%nat)) in B0. apply Forall_app in B0. destruct B0 as [B1 B2].
        rewrite (chunk_total _ _ _ B1), (chunk_total _ _ _ B2).
        rewrite <- (msmzv_app fo go GL) by (rewrite !firstn_length, Lcol; reflexivity).
        rewrite !firstn_skipn. reflexivity.
      - unfold chunk_pds. rewrite (A j Hj). apply chunk_total. apply B. exact Hj. }
    unfold msm_inner. cbv zeta. fold nb. rewrite map_map.
    fold packed.
    rewrite (map_ext_in _ (fun j => msmzv points (col j))).
    2:{ intros j Hin. rewrite <- (T j Hin). unfold nbuckets. reflexivity. }
    rewrite <- (map_map col (msmzv points)).
    rewrite (reduce_chunks_spec fo go GL fofz_add fofz_mul fofz_1). rewrite Z2Nat.id by lia.
    rewrite (chunks_horner fo go FL GL fofz_add fofz_mul).
    2:{ apply Forall_forall. intros D Hin. apply in_map_iff in Hin. destruct Hin as (j & <- & _). apply Lcol. }
    rewrite Hlen. unfold col. rewrite (vhorner_columns c (digits_of c) ss nb 0).
    f_equal. rewrite <- (map_id ss) at 2. apply map_ext_in. intros s Hin.
    pose proof (proj1 (Forall_forall _ _) Hss s Hin) as Hs. cbv beta in Hs.
    destruct (recode_real_value c s ltac:(lia) Hs) as (Hval & _ & Hl). fold (digits_of c s) in Hval, Hl.
    fold nb in Hl. rewrite <- Hl, dvf_all. exact Hval.
  Qed.
End Inner.
