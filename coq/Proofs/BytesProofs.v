From Coq Require Import ZArith List Bool Lia.
From GoIpa Require Import Model.Bytes.
Import ListNotations.
Open Scope Z_scope.

Definition bytes_ok (l : list Z) : Prop := Forall (fun b => 0 <= b < 256) l.

Lemma le_val_nonneg l : bytes_ok l -> 0 <= le_val l.
Proof. induction 1 as [|b l Hb _ IH]; cbn [le_val]; lia. Qed.

Lemma le_val_bound l : bytes_ok l -> le_val l < 256 ^ Z.of_nat (length l).
Proof.
  induction 1 as [|b l Hb Hl IH]; cbn [le_val length]; [lia|].
  rewrite Nat2Z.inj_succ, Z.pow_succ_r by lia. lia.
Qed.

Lemma le_enc_length n x : length (le_enc n x) = n.
Proof. revert x; induction n as [|n IH]; intros; cbn [le_enc length]; [reflexivity|]. now rewrite IH. Qed.

Lemma le_enc_ok n x : bytes_ok (le_enc n x).
Proof.
  revert x; induction n as [|n IH]; intros; cbn [le_enc]; constructor.
  - apply Z.mod_pos_bound; lia.
  - apply IH.
Qed.

Lemma le_val_enc n x : le_val (le_enc n x) = x mod 256 ^ Z.of_nat n.
Proof.
  revert x; induction n as [|n IH]; intros x; cbn [le_enc le_val].
  - cbn. now rewrite Z.mod_1_r.
  - rewrite IH, Nat2Z.inj_succ, Z.pow_succ_r by lia.
    rewrite Z.rem_mul_r by lia. reflexivity.
Qed.

Lemma le_enc_val l : bytes_ok l -> le_enc (length l) (le_val l) = l.
Proof.
  induction 1 as [|b l Hb Hl IH]; cbn [le_enc le_val length]; [reflexivity|].
  f_equal.
  - replace (b + 256 * le_val l) with (b + le_val l * 256) by lia.
    rewrite Z_mod_plus_full. apply Z.mod_small; lia.
  - replace (b + 256 * le_val l) with (le_val l * 256 + b) by lia.
    rewrite Z.div_add_l by lia. rewrite Z.div_small by lia.
    rewrite Z.add_0_r. exact IH.
Qed.

Lemma be_val_acc_app acc l1 l2 : be_val_acc acc (l1 ++ l2) = be_val_acc (be_val_acc acc l1) l2.
Proof. revert acc; induction l1 as [|b l IH]; intros; cbn; [reflexivity|apply IH]. Qed.

Lemma be_val_acc_lin acc l : be_val_acc acc l = acc * 256 ^ Z.of_nat (length l) + be_val_acc 0 l.
Proof.
  revert acc; induction l as [|b l IH]; intros acc; cbn [be_val_acc length].
  - cbn. lia.
  - rewrite IH, (IH (0 * 256 + b)), Nat2Z.inj_succ, Z.pow_succ_r by lia. ring.
Qed.

Lemma be_val_rev l : be_val (rev l) = le_val l.
Proof.
  unfold be_val. induction l as [|b l IH]; cbn [rev le_val]; [reflexivity|].
  rewrite be_val_acc_app, IH. cbn [be_val_acc]. lia.
Qed.

Lemma le_val_rev l : le_val (rev l) = be_val l.
Proof. rewrite <- be_val_rev, rev_involutive. reflexivity. Qed.

Lemma be_val_enc n x : be_val (be_enc n x) = x mod 256 ^ Z.of_nat n.
Proof. unfold be_enc. rewrite be_val_rev. apply le_val_enc. Qed.

Lemma be_enc_length n x : length (be_enc n x) = n.
Proof. unfold be_enc. rewrite rev_length. apply le_enc_length. Qed.

Lemma bytes_ok_rev l : bytes_ok l -> bytes_ok (rev l).
Proof. unfold bytes_ok. intros H. apply Forall_rev. exact H. Qed.

Lemma be_enc_ok n x : bytes_ok (be_enc n x).
Proof. apply bytes_ok_rev, le_enc_ok. Qed.

Lemma be_val_nonneg l : bytes_ok l -> 0 <= be_val l.
Proof. intros H. rewrite <- le_val_rev. apply le_val_nonneg, bytes_ok_rev, H. Qed.

Lemma be_val_bound l : bytes_ok l -> be_val l < 256 ^ Z.of_nat (length l).
Proof.
  intros H. rewrite <- le_val_rev, <- rev_length. apply le_val_bound, bytes_ok_rev, H.
Qed.

Lemma be_enc_val l : bytes_ok l -> be_enc (length l) (be_val l) = l.
Proof.
  intros H. unfold be_enc. rewrite <- le_val_rev, <- rev_length.
  rewrite le_enc_val by (apply bytes_ok_rev, H). apply rev_involutive.
Qed.

(* injectivity of fixed-width encodings on the represented range *)
Lemma le_enc_inj n x y : 0 <= x < 256 ^ Z.of_nat n -> 0 <= y < 256 ^ Z.of_nat n ->
  le_enc n x = le_enc n y -> x = y.
Proof.
  intros Hx Hy H. apply (f_equal le_val) in H. rewrite !le_val_enc in H.
  rewrite !Z.mod_small in H by lia. exact H.
Qed.

Lemma be_enc_inj n x y : 0 <= x < 256 ^ Z.of_nat n -> 0 <= y < 256 ^ Z.of_nat n ->
  be_enc n x = be_enc n y -> x = y.
Proof.
  intros Hx Hy H. apply (f_equal be_val) in H. rewrite !be_val_enc in H.
  rewrite !Z.mod_small in H by lia. exact H.
Qed.

Lemma list_eqb_eq a b : list_eqb a b = true <-> a = b.
Proof.
  revert b; induction a as [|x a IH]; intros [|y b]; cbn; try (split; congruence).
  rewrite andb_true_iff, Z.eqb_eq, IH. split; [intros [-> ->]; reflexivity|intros H; inversion H; auto].
Qed.

Lemma bytes_ok_firstn n l : bytes_ok l -> bytes_ok (firstn n l).
Proof. unfold bytes_ok. revert l; induction n as [|n IH]; intros [|x l] H; cbn; try constructor; inversion H; subst; auto. Qed.
Lemma bytes_ok_skipn n l : bytes_ok l -> bytes_ok (skipn n l).
Proof. unfold bytes_ok. revert l; induction n as [|n IH]; intros [|x l] H; cbn; auto. inversion H; subst; auto. Qed.
