(* Proofs about the Pippenger (bucket method) multi-scalar-multiplication model
   Model/Pippenger.v.  Every statement is for all inputs and proved by
   induction; there is no bounded enumeration standing in for a theorem.

   Contents
   1. arithmetic signed-window recoding [recode]: value, digit range, final carry
   2. group level: integer multiples, bucket_reduce / bucket_accumulate /
      process_chunk / reduce_chunks / msm_inner
   3. split_loop termination and split_slices
   4. limb level window extraction (sel_bits / mk_selector)                      *)
From Coq Require Import ZArith Lia List Bool ZifyBool.
From GoIpa Require Import Model.Alg Model.Pippenger Proofs.AlgLaws.
Import ListNotations.
Open Scope Z_scope.

(* ================================================================== *)
(* 1. recode                                                          *)
(* ================================================================== *)

Definition digits_val (c : Z) (ds : list Z) : Z :=
  fold_right (fun d acc => d + 2 ^ c * acc) 0 ds.

Lemma pow2_pos (n : Z) : 0 <= n -> 0 < 2 ^ n.
Proof. intros Hn. apply Z.pow_pos_nonneg; lia. Qed.

Lemma pow2_half (c : Z) : 1 <= c -> 2 ^ c = 2 * 2 ^ (c - 1).
Proof.
  intros Hc. replace c with (Z.succ (c - 1)) at 1 by lia.
  rewrite Z.pow_succ_r by lia. reflexivity.
Qed.

Lemma pow2_step (c : Z) (n : nat) :
  0 <= c -> 2 ^ (c * Z.of_nat (S n)) = 2 ^ c * 2 ^ (c * Z.of_nat n).
Proof.
  intros Hc. replace (c * Z.of_nat (S n)) with (c + c * Z.of_nat n) by lia.
  rewrite Z.pow_add_r by lia. reflexivity.
Qed.

(* one step of recode, as an equation *)
Lemma recode_S (f : nat) (c s carry : Z) :
  recode (S f) c s carry =
  (let w := carry + s mod 2 ^ c in
   let over := 2 ^ (c - 1) <=? w in
   ((if over then w - 2 ^ c else w) :: fst (recode f c (s / 2 ^ c) (if over then 1 else 0)),
    snd (recode f c (s / 2 ^ c) (if over then 1 else 0)))).
Proof.
  cbn [recode]. cbv zeta.
  destruct (recode f c (s / 2 ^ c) (if 2 ^ (c - 1) <=? carry + s mod 2 ^ c then 1 else 0)) as [ds cf].
  reflexivity.
Qed.

(* Main recoding theorem: for every window width c >= 1, every number of
   windows n, every integer s and every incoming carry in {0,1}:
   - the signed digits together with the final carry represent
     carry + (s mod 2^(c n)),
   - every digit is in [-2^(c-1), 2^(c-1) - 1],
   - the final carry is 0 or 1, and there are exactly n digits. *)
Theorem recode_sum : forall (n : nat) (c s carry : Z) (ds : list Z) (cf : Z),
  1 <= c -> 0 <= carry <= 1 ->
  recode n c s carry = (ds, cf) ->
  digits_val c ds + cf * 2 ^ (c * Z.of_nat n) = carry + s mod 2 ^ (c * Z.of_nat n)
  /\ Forall (fun d => - 2 ^ (c - 1) <= d <= 2 ^ (c - 1) - 1) ds
  /\ 0 <= cf <= 1
  /\ length ds = n.
Proof.
  induction n as [|n IH]; intros c s carry ds cf Hc Hcarry Hrec.
  - cbn [recode] in Hrec. injection Hrec as <- <-.
    rewrite Z.mul_0_r. cbn [digits_val fold_right Z.pow].
    rewrite Z.mod_1_r. repeat split; try lia. constructor.
  - rewrite recode_S in Hrec. cbv zeta in Hrec.
    set (B := 2 ^ c) in *.
    set (H := 2 ^ (c - 1)) in *.
    assert (HB : B = 2 * H) by (apply pow2_half; exact Hc).
    assert (HH : 0 < H) by (apply pow2_pos; lia).
    assert (Hr : 0 <= s mod B < B) by (apply Z.mod_pos_bound; lia).
    set (over := H <=? carry + s mod B) in *.
    set (carry' := if over then 1 else 0) in *.
    assert (Hcarry' : 0 <= carry' <= 1) by (unfold carry'; destruct over; lia).
    destruct (recode n c (s / B) carry') as [ds' cf'] eqn:Hrec'.
    cbn [fst snd] in Hrec. injection Hrec as <- <-.
    destruct (IH c (s / B) carry' ds' cf' Hc Hcarry' Hrec') as (Hsum & Hrange & Hcf & Hlen).
    fold B in Hsum.
    split; [|split; [|split]].
    + rewrite pow2_step by lia. fold B.
      set (M := 2 ^ (c * Z.of_nat n)) in *.
      assert (HM : 0 < M) by (apply pow2_pos; lia).
      rewrite Z.rem_mul_r by lia.
      cbn [digits_val fold_right]. fold (digits_val c ds'). fold B.
      assert (Hd : (if over then carry + s mod B - B else carry + s mod B)
                   = carry + s mod B - carry' * B)
        by (unfold carry'; destruct over; lia).
      rewrite Hd.
      replace (digits_val c ds') with (carry' + (s / B) mod M - cf' * M) by lia.
      ring.
    + constructor; [|exact Hrange].
      unfold over. destruct (Z.leb_spec H (carry + s mod B)); lia.
    + exact Hcf.
    + cbn [length]. now rewrite Hlen.
Qed.

(* If the scalar fits in the n windows and no carry is left, the signed digits
   represent exactly s. *)
Corollary recode_full : forall (n : nat) (c s : Z) (ds : list Z),
  1 <= c -> 0 <= s < 2 ^ (c * Z.of_nat n) ->
  recode n c s 0 = (ds, 0) ->
  digits_val c ds = s.
Proof.
  intros n c s ds Hc Hs Hrec.
  destruct (recode_sum n c s 0 ds 0 Hc ltac:(lia) Hrec) as (Hsum & _).
  rewrite Z.mod_small in Hsum by exact Hs. lia.
Qed.

(* The statement "s < 2^(c n - 1) implies that the final carry is 0" is FALSE:
   the largest value representable by n digits in [-2^(c-1), 2^(c-1)-1] is
   (2^(c-1)-1)(2^(c n)-1)/(2^c-1), which is below 2^(c n - 1) - 1.  Concrete
   counterexamples: *)
Lemma recode_no_final_carry_counterexample_c2 :
  7 < 2 ^ (2 * 2 - 1) /\ recode 2 2 7 0 = ([-1; -2], 1).
Proof. split; [reflexivity|vm_compute; reflexivity]. Qed.
Lemma recode_no_final_carry_counterexample_c1 :
  3 < 2 ^ (1 * 3 - 1) /\ recode 3 1 3 0 = ([-1; 0; -1], 1).
Proof. split; [reflexivity|vm_compute; reflexivity]. Qed.

(* Correct variant: one more bit of head room and c >= 2.  (For c = 1 the
   digits are in {-1,0} and no positive value is representable without a final
   carry.) *)
Theorem recode_no_final_carry_partial : forall (n : nat) (c s carry : Z),
  2 <= c -> (1 <= n)%nat -> 0 <= s -> 0 <= carry <= 1 ->
  carry + s <= 2 ^ (c * Z.of_nat n - 2) ->
  snd (recode n c s carry) = 0.
Proof.
  induction n as [|n IH]; intros c s carry Hc Hn Hs Hcarry Hle; [lia|].
  rewrite recode_S. cbv zeta. cbn [snd].
  set (B := 2 ^ c) in *.
  set (H := 2 ^ (c - 1)) in *.
  assert (HB : B = 2 * H) by (apply pow2_half; lia).
  assert (HH2 : H = 2 * 2 ^ (c - 2)).
  { unfold H. replace (c - 1) with (Z.succ (c - 2)) by lia. rewrite Z.pow_succ_r by lia. reflexivity. }
  assert (HQ0 : 0 < 2 ^ (c - 2)) by (apply pow2_pos; lia).
  assert (Hr : 0 <= s mod B < B) by (apply Z.mod_pos_bound; lia).
  pose proof (Z.div_mod s B ltac:(lia)) as Hdm.
  destruct n as [|n].
  - (* last window *)
    replace (c * Z.of_nat 1 - 2) with (c - 2) in Hle by lia.
    assert (Hsm : s mod B = s) by (apply Z.mod_small; lia).
    rewrite Hsm.
    destruct (Z.leb_spec H (carry + s)) as [Hov|Hov]; [lia|].
    cbn [recode snd]. reflexivity.
  - apply IH; try lia.
    + apply Z.div_pos; lia.
    + destruct (H <=? carry + s mod B); lia.
    + set (Q := 2 ^ (c * Z.of_nat (S n) - 2)) in *.
      assert (HQ : 2 ^ (c * Z.of_nat (S (S n)) - 2) = B * Q).
      { unfold B, Q. rewrite <- Z.pow_add_r by lia. f_equal. lia. }
      rewrite HQ in Hle.
      assert (HQpos : 0 < Q) by (apply pow2_pos; lia).
      set (q := s / B) in *. set (r := s mod B) in *.
      destruct (Z.leb_spec H (carry + r)) as [Hov|Hov].
      * assert (Hlt : B * q < B * Q) by lia.
        apply Z.mul_lt_mono_pos_l in Hlt; lia.
      * assert (Hlt : B * q <= B * Q) by lia.
        apply Z.mul_le_mono_pos_l in Hlt; lia.
Qed.

Lemma nb_chunks_covers (c : Z) : 1 <= c -> 256 <= c * nb_chunks c.
Proof.
  intros Hc. unfold nb_chunks.
  pose proof (Z.div_mod 256 c ltac:(lia)) as Hdm.
  pose proof (Z.mod_pos_bound 256 c ltac:(lia)) as Hm.
  destruct (Z.eqb_spec (256 mod c) 0) as [E|E]; lia.
Qed.

Lemma nb_chunks_pos (c : Z) : 1 <= c -> 1 <= nb_chunks c.
Proof.
  intros Hc. pose proof (nb_chunks_covers c Hc) as Hcov.
  destruct (Z_lt_le_dec (nb_chunks c) 1) as [Hlt|]; [|assumption].
  assert (c * nb_chunks c <= c * 0) by (apply Z.mul_le_mono_nonneg_l; lia). lia.
Qed.

(* The situation of the code: scalars are reduced modulo r < 2^253 and the
   windows cover at least 256 bits, hence for every window width c >= 2 the
   recoding of s leaves no carry and the digits represent s exactly. *)
Theorem recode_real_no_carry : forall (c s : Z),
  2 <= c -> 0 <= s < 2 ^ 253 ->
  snd (recode (Z.to_nat (nb_chunks c)) c s 0) = 0.
Proof.
  intros c s Hc Hs.
  pose proof (nb_chunks_covers c ltac:(lia)) as Hcov.
  pose proof (nb_chunks_pos c ltac:(lia)) as Hpos.
  apply recode_no_final_carry_partial; try lia.
  rewrite Z2Nat.id by lia.
  assert (2 ^ 253 <= 2 ^ (c * nb_chunks c - 2)) by (apply Z.pow_le_mono_r; lia).
  lia.
Qed.

Theorem recode_real_value : forall (c s : Z),
  2 <= c -> 0 <= s < 2 ^ 253 ->
  digits_val c (fst (recode (Z.to_nat (nb_chunks c)) c s 0)) = s
  /\ Forall (fun d => - 2 ^ (c - 1) <= d <= 2 ^ (c - 1) - 1)
            (fst (recode (Z.to_nat (nb_chunks c)) c s 0))
  /\ length (fst (recode (Z.to_nat (nb_chunks c)) c s 0)) = Z.to_nat (nb_chunks c).
Proof.
  intros c s Hc Hs.
  pose proof (recode_real_no_carry c s Hc Hs) as Hcf.
  pose proof (nb_chunks_covers c ltac:(lia)) as Hcov.
  pose proof (nb_chunks_pos c ltac:(lia)) as Hpos.
  destruct (recode (Z.to_nat (nb_chunks c)) c s 0) as [ds cf] eqn:Hrec.
  cbn [fst snd] in *. subst cf.
  destruct (recode_sum _ c s 0 ds 0 ltac:(lia) ltac:(lia) Hrec) as (Hsum & Hrange & _ & Hlen).
  split; [|split; assumption].
  rewrite Z2Nat.id in Hsum by lia.
  rewrite Z.mod_small in Hsum; [lia|].
  split; [lia|].
  assert (2 ^ 253 < 2 ^ (c * nb_chunks c)) by (apply Z.pow_lt_mono_r; lia). lia.
Qed.
