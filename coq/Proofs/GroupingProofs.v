(* groupPolynomialsByEvaluationPoint: for every number of workers >= 1 and every
   arrival order of the worker results, the merged table equals the sequential
   aggregation of all openings (no opening lost or counted twice, whatever
   len mod numWorkers is, also when numWorkers > len). *)
From Coq Require Import ZArith List Bool Lia Ring Permutation Arith.
From GoIpa Require Import Model.Alg Model.Transcript Model.Bary Model.Banderwagon Model.IPA Model.Multiproof
  Proofs.AlgLaws.
Import ListNotations.

Section Grouping.
  Context {F : Type} (fo : FOps F) (FL : FieldLaws fo).
  Local Notation "0" := (f0 fo).
  Local Infix "+" := (fadd fo).
  Local Infix "*" := (fmul fo).
  Add Ring FringGp : (fl_ring fo FL).
  Local Notation vadd := (vadd fo).
  Local Notation vscale := (vscale fo).
  Local Notation zeros := (zeros fo).
  Local Notation table := (list (option (list F))).

  (* ---- vectors ---- *)
  Lemma vadd_length a : forall b, length (vadd a b) = Nat.min (length a) (length b).
  Proof. induction a as [|x a IH]; intros [|y b]; cbn; auto. Qed.
  Lemma vscale_length k a : length (vscale k a) = length a.
  Proof. apply map_length. Qed.
  Lemma zeros_length n : length (zeros n) = n.
  Proof. apply repeat_length. Qed.
  Lemma vadd_assoc a : forall b c, vadd (vadd a b) c = vadd a (vadd b c).
  Proof. induction a as [|x a IH]; intros [|y b] [|z c]; cbn; auto. rewrite IH. f_equal. ring. Qed.
  Lemma vadd_comm a : forall b, vadd a b = vadd b a.
  Proof. induction a as [|x a IH]; intros [|y b]; cbn; auto. rewrite IH. f_equal. ring. Qed.
  Lemma vadd_zeros_l v : vadd (zeros (length v)) v = v.
  Proof.
    unfold Multiproof.zeros. induction v as [|x v IH]; cbn [length repeat Alg.vadd]; [reflexivity|].
    rewrite IH. f_equal. ring.
  Qed.

  (* ---- tables: all vectors of length n, table of length m ---- *)
  Definition slot_ok (n : nat) (s : option (list F)) : Prop :=
    match s with Some v => length v = n | None => True end.
  Definition wf (n m : nat) (tb : table) : Prop := length tb = m /\ Forall (slot_ok n) tb.

  Lemma wf_empty n m : wf n m (empty_table m).
  Proof. split; [apply repeat_length|]. apply Forall_forall. intros s H. apply repeat_spec in H. subst. exact I. Qed.

  Definition merge_slot (a w : option (list F)) : option (list F) :=
    match w with
    | None => a
    | Some wv => match a with None => Some wv | Some av => Some (vadd av wv) end
    end.

  Lemma merge_cons a acc w wt :
    merge_tables fo (a :: acc) (w :: wt) = merge_slot a w :: merge_tables fo acc wt.
  Proof. reflexivity. Qed.

  Lemma merge_slot_ok n a w : slot_ok n a -> slot_ok n w -> slot_ok n (merge_slot a w).
  Proof.
    destruct a as [av|], w as [wv|]; cbn; auto. intros Ha Hw. rewrite vadd_length, Ha, Hw. apply Nat.min_id.
  Qed.

  Lemma wf_merge n m a b : wf n m a -> wf n m b -> wf n m (merge_tables fo a b).
  Proof.
    revert a b. induction m as [|m IH]; intros a b [La Fa] [Lb Fb].
    - destruct a; [|discriminate]. split; [reflexivity|constructor].
    - destruct a as [|x a]; [discriminate|]. destruct b as [|y b]; [discriminate|].
      rewrite merge_cons. inversion Fa; inversion Fb; subst.
      destruct (IH a b) as [L' F']; [split; auto|split; auto|].
      split; [cbn; f_equal; exact L'|constructor; [apply merge_slot_ok; assumption|exact F']].
  Qed.

  Lemma merge_slot_assoc a b c : merge_slot (merge_slot a b) c = merge_slot a (merge_slot b c).
  Proof. destruct a, b, c; cbn; auto. rewrite vadd_assoc. reflexivity. Qed.
  Lemma merge_slot_comm a b : merge_slot a b = merge_slot b a.
  Proof. destruct a, b; cbn; auto. rewrite vadd_comm. reflexivity. Qed.

  Lemma merge_assoc m : forall a b c, length a = m -> length b = m -> length c = m ->
    merge_tables fo (merge_tables fo a b) c = merge_tables fo a (merge_tables fo b c).
  Proof.
    induction m as [|m IH]; intros [|x a] [|y b] [|z c] La Lb Lc; try discriminate; [reflexivity|].
    rewrite !merge_cons, merge_slot_assoc, IH; auto.
  Qed.
  Lemma merge_comm m : forall a b, length a = m -> length b = m ->
    merge_tables fo a b = merge_tables fo b a.
  Proof.
    induction m as [|m IH]; intros [|x a] [|y b] La Lb; try discriminate; [reflexivity|].
    rewrite !merge_cons, merge_slot_comm, (IH a b); auto.
  Qed.
  Lemma merge_empty_r m : forall a, length a = m -> merge_tables fo a (empty_table m) = a.
  Proof.
    induction m as [|m IH]; intros [|x a] La; try discriminate; [reflexivity|].
    cbn [empty_table repeat]. rewrite merge_cons. cbn [merge_slot]. f_equal. apply IH. auto.
  Qed.
  Lemma merge_empty_l m a : length a = m -> merge_tables fo (empty_table m) a = a.
  Proof. intros H. rewrite (merge_comm m); [apply merge_empty_r, H|apply repeat_length|exact H]. Qed.

  (* ---- one opening folded into a table = merge with the singleton table ---- *)
  Lemma slot_update_length (tb : table) z f : length (slot_update tb z f) = length tb.
  Proof. revert z; induction tb as [|s tb IH]; intros [|z]; cbn; auto. Qed.

  Lemma worker_add_merge n m : forall (tb : table) ri f z,
    wf n m tb -> length f = n ->
    worker_add fo n tb ri f z
    = merge_tables fo tb (worker_add fo n (empty_table m) ri f z).
  Proof.
    induction m as [|m IH]; intros tb ri f z [L Fa] Hf.
    - destruct tb; [|discriminate]. reflexivity.
    - destruct tb as [|s tb]; [discriminate|].
      pose proof (Forall_inv Fa) as Hs. pose proof (Forall_inv_tail Fa) as Fa'.
      destruct z as [|z]; unfold worker_add; cbn [empty_table repeat slot_update].
      + rewrite merge_cons. fold (@empty_table F m). rewrite (merge_empty_r m) by (cbn in L; lia).
        f_equal. destruct s as [v|]; cbn [merge_slot].
        * f_equal. f_equal. rewrite <- (vscale_length ri f) in Hf. rewrite <- Hf. symmetry. apply vadd_zeros_l.
        * reflexivity.
      + rewrite merge_cons. cbn [merge_slot]. f_equal.
        fold (@empty_table F m). apply (IH tb ri f z); [split; [cbn in L; lia|assumption]|exact Hf].
  Qed.

  Lemma wf_worker_add n m tb ri f z : wf n m tb -> length f = n -> wf n m (worker_add fo n tb ri f z).
  Proof.
    intros [L Fa] Hf. split; [unfold worker_add; rewrite slot_update_length; exact L|].
    unfold worker_add. clear L. revert z. induction Fa as [|s tb Hs Fa IH]; intros [|z]; cbn; constructor; auto.
    destruct s as [v|]; cbn in *; rewrite vadd_length, vscale_length, ?zeros_length, ?Hs, Hf; apply Nat.min_id.
  Qed.

  Definition ops_ok (n : nat) (ops : list (F * list F * nat)) : Prop :=
    Forall (fun o => length (snd (fst o)) = n) ops.

  Definition step (n : nat) (tb : table) (o : F * list F * nat) : table :=
    let '(ri, f, z) := o in worker_add fo n tb ri f z.

  Lemma worker_agg_unfold n ops : worker_agg fo n ops = fold_left (step n) ops (empty_table n).
  Proof. reflexivity. Qed.

  Lemma wf_fold n m ops : forall tb, wf n m tb -> ops_ok n ops -> wf n m (fold_left (step n) ops tb).
  Proof.
    induction ops as [|[[ri f] z] ops IH]; intros tb Htb Hops; cbn [fold_left]; [exact Htb|].
    pose proof (Forall_inv Hops) as Hf. pose proof (Forall_inv_tail Hops) as Hops'. cbn [fst snd] in Hf.
    apply IH; [apply wf_worker_add; assumption|exact Hops'].
  Qed.

  (* homomorphism: continuing the fold from tb = merging tb with the fold from empty *)
  Lemma fold_merge n m ops : forall tb, wf n m tb -> ops_ok n ops ->
    fold_left (step n) ops tb = merge_tables fo tb (fold_left (step n) ops (empty_table m)).
  Proof.
    induction ops as [|[[ri f] z] ops IH]; intros tb Htb Hops; cbn [fold_left].
    - symmetry. apply (merge_empty_r m), Htb.
    - pose proof (Forall_inv Hops) as Hf. pose proof (Forall_inv_tail Hops) as Hops'. cbn [fst snd] in Hf. cbn [step].
      rewrite (IH (worker_add fo n tb ri f z)) by (try apply wf_worker_add; assumption).
      rewrite (IH (worker_add fo n (empty_table m) ri f z))
        by (try apply wf_worker_add; try apply wf_empty; assumption).
      rewrite (worker_add_merge n m tb ri f z Htb Hf).
      apply (merge_assoc m).
      + apply Htb.
      + apply (wf_worker_add n m); [apply wf_empty|exact Hf].
      + apply (wf_fold n m); [apply wf_empty|exact Hops'].
  Qed.

  Corollary worker_agg_app n ops1 ops2 : ops_ok n ops1 -> ops_ok n ops2 ->
    worker_agg fo n (ops1 ++ ops2) = merge_tables fo (worker_agg fo n ops1) (worker_agg fo n ops2).
  Proof.
    intros H1 H2. unfold worker_agg. change (fun tb o => let '(ri, f, z) := o in worker_add fo n tb ri f z) with (step n).
    rewrite fold_left_app. apply (fold_merge n n); [apply (wf_fold n n); [apply wf_empty|exact H1]|exact H2].
  Qed.

  Lemma wf_worker_agg n ops : ops_ok n ops -> wf n n (worker_agg fo n ops).
  Proof. intros H. apply (wf_fold n n); [apply wf_empty|exact H]. Qed.

  (* ---- folding worker results in any order ---- *)
  Section Perm.
    Variables (n : nat) (W : nat -> table).
    Hypothesis W_wf : forall i, wf n n (W i).
    Definition g (acc : table) (i : nat) : table := merge_tables fo acc (W i).

    Lemma g_wf acc i : wf n n acc -> wf n n (g acc i).
    Proof. intros H. apply wf_merge; [exact H|apply W_wf]. Qed.
    Lemma fold_g_wf l : forall acc, wf n n acc -> wf n n (fold_left g l acc).
    Proof. induction l as [|i l IH]; intros acc H; cbn; [exact H|apply IH, g_wf, H]. Qed.

    Lemma g_swap acc i j : wf n n acc -> g (g acc i) j = g (g acc j) i.
    Proof.
      intros H. unfold g. pose proof (W_wf i) as [Li _]. pose proof (W_wf j) as [Lj _]. destruct H as [La _].
      rewrite !(merge_assoc n) by assumption. f_equal. apply (merge_comm n); assumption.
    Qed.

    Lemma fold_g_perm l l' : Permutation l l' -> forall acc, wf n n acc ->
      fold_left g l acc = fold_left g l' acc.
    Proof.
      induction 1 as [|x l l' HP IH|x y l|l l' l'' HP1 IH1 HP2 IH2]; intros acc Hacc; cbn [fold_left].
      - reflexivity.
      - apply IH, g_wf, Hacc.
      - rewrite (g_swap acc y x Hacc). reflexivity.
      - rewrite IH1 by exact Hacc. apply IH2, Hacc.
    Qed.
  End Perm.

  (* ---- the slices partition the list ---- *)
  Lemma concat_slices {A} (l : list A) (b : nat) : forall k,
    concat (map (fun i => worker_slice l b i) (seq 0 k)) = firstn (k * b) l.
  Proof.
    induction k as [|k IH]; [reflexivity|].
    rewrite seq_S, map_app, concat_app, IH. cbn [map concat Nat.add]. rewrite app_nil_r.
    unfold worker_slice. replace (S k * b)%nat with (k * b + b)%nat by lia.
    clear IH. generalize (k * b)%nat as a. intros a. revert l.
    induction a as [|a IHa]; intros l; [reflexivity|].
    destruct l as [|x l]; [now rewrite !skipn_nil, !firstn_nil|].
    cbn [firstn skipn Nat.add app]. f_equal. apply IHa.
  Qed.

  Lemma ceil_div_covers len nw : (1 <= nw)%nat -> (len <= nw * ((len + nw - 1) / nw))%nat.
  Proof.
    intros H. pose proof (Nat.div_mod (len + nw - 1) nw ltac:(lia)) as E.
    pose proof (Nat.mod_upper_bound (len + nw - 1) nw ltac:(lia)) as B. lia.
  Qed.

  Lemma Forall_firstn' {A} (P : A -> Prop) k : forall l, Forall P l -> Forall P (firstn k l).
  Proof. induction k as [|k IH]; intros [|x l] H; cbn; try constructor; inversion H; subst; auto. Qed.
  Lemma Forall_skipn' {A} (P : A -> Prop) k : forall l, Forall P l -> Forall P (skipn k l).
  Proof. induction k as [|k IH]; intros [|x l] H; cbn; auto. inversion H; subst; auto. Qed.

  Lemma ops_ok_slice n (ops : list (F * list F * nat)) b i : ops_ok n ops -> ops_ok n (worker_slice ops b i).
  Proof. intros H. unfold worker_slice, ops_ok in *. apply Forall_firstn', Forall_skipn', H. Qed.

  (* in-order fold of the worker tables = aggregation of the concatenated slices *)
  Lemma fold_in_order n (S : nat -> list (F * list F * nat)) : (forall i, ops_ok n (S i)) ->
    forall l, fold_left (g (fun i => worker_agg fo n (S i))) l (empty_table n)
              = worker_agg fo n (concat (map S l)).
  Proof.
    intros HS l.
    assert (Hgen : forall acc_ops, ops_ok n acc_ops ->
              fold_left (g (fun i => worker_agg fo n (S i))) l (worker_agg fo n acc_ops)
              = worker_agg fo n (acc_ops ++ concat (map S l))).
    { induction l as [|i l IH]; intros acc_ops Hacc; cbn [fold_left map concat].
      - rewrite app_nil_r. reflexivity.
      - unfold g at 2. rewrite <- worker_agg_app by (try apply HS; assumption).
        rewrite IH by (unfold ops_ok; apply Forall_app; split; [exact Hacc|apply HS]).
        rewrite app_assoc. reflexivity. }
    exact (Hgen [] (Forall_nil _)).
  Qed.

  (* MAIN: schedule independence of the grouping *)
  Theorem group_polys_schedule_independent n numWorkers arrival ops :
    (1 <= numWorkers)%nat -> Permutation arrival (seq 0 numWorkers) -> ops_ok n ops ->
    group_polys fo n numWorkers arrival ops = group_spec fo n ops.
  Proof.
    intros Hnw HP Hops. unfold group_polys, group_spec.
    set (batch := ((length ops + numWorkers - 1) / numWorkers)%nat).
    set (S := fun i => worker_slice ops batch i).
    assert (HS : forall i, ops_ok n (S i)) by (intros i; apply ops_ok_slice, Hops).
    change (fun acc i => merge_tables fo acc (worker_agg fo n (worker_slice ops batch i)))
      with (g (fun i => worker_agg fo n (S i))).
    rewrite (fold_g_perm n (fun i => worker_agg fo n (S i)) (fun i => wf_worker_agg n (S i) (HS i))
               arrival (seq 0 numWorkers) HP) by apply wf_empty.
    rewrite (fold_in_order n S HS). f_equal. unfold S. rewrite concat_slices.
    apply firstn_all2. unfold batch. pose proof (ceil_div_covers (length ops) numWorkers Hnw). lia.
  Qed.
End Grouping.
