(* Transfer between two implementations of the group interface related by a relation that
   the operations preserve and that encoding and equality test respect - in particular between
   the REPRESENTATION-level operations of the code (projective coordinates, where the group
   laws do not hold up to Leibniz equality) and an ABSTRACT group (where they do).
   The protocol programs (prover and verifier of IPA and multiproof) run on related inputs
   give equal transcripts, equal scalars, equal decisions and related group outputs.
   Hence every theorem proved over an abstract module (GroupLaws) applies to the run on
   representations as soon as such a relation to a lawful group exists. *)
From Coq Require Import ZArith List Bool Lia.
From GoIpa Require Import Model.Bytes Model.Alg Model.Transcript Model.Bary Model.Banderwagon Model.IPA Model.Multiproof.
Import ListNotations.

Lemma Forall2_firstn {A B} (P : A -> B -> Prop) n : forall l l', Forall2 P l l' -> Forall2 P (firstn n l) (firstn n l').
Proof. induction n as [|n IH]; intros l l' H; [constructor|]. destruct H; cbn [firstn]; constructor; auto. Qed.
Lemma Forall2_skipn {A B} (P : A -> B -> Prop) n : forall l l', Forall2 P l l' -> Forall2 P (skipn n l) (skipn n l').
Proof. induction n as [|n IH]; intros l l' H; [exact H|]. destruct H; cbn [skipn]; [constructor|auto]. Qed.
Lemma Forall2_len {A B} (P : A -> B -> Prop) l l' : Forall2 P l l' -> length l = length l'.
Proof. induction 1; cbn; auto. Qed.
Lemma Forall2_rev' {A B} (P : A -> B -> Prop) l l' : Forall2 P l l' -> Forall2 P (rev l) (rev l').
Proof. induction 1; cbn [rev]; [constructor|]. apply Forall2_app; [assumption|constructor; [assumption|constructor]]. Qed.

Section Transfer.
  Context {F G1 G2 : Type} (fo : FOps F) (go1 : GOps F G1) (go2 : GOps F G2) (hashf : list Z -> list Z).
  Variable rel : G1 -> G2 -> Prop.
  Hypothesis g0_rel : rel (g0 go1) (g0 go2).
  Hypothesis gadd_rel : forall a a' b b', rel a a' -> rel b b' -> rel (gadd go1 a b) (gadd go2 a' b').
  Hypothesis gmul_rel : forall s p p', rel p p' -> rel (gmul go1 s p) (gmul go2 s p').
  Hypothesis gneg_rel : forall a a', rel a a' -> rel (gneg go1 a) (gneg go2 a').
  Hypothesis genc_rel : forall a a', rel a a' -> genc go1 a = genc go2 a'.
  Hypothesis geqb_rel : forall a a' b b', rel a a' -> rel b b' -> geqb go1 a b = geqb go2 a' b'.

  Definition cfg_rel (c1 : config (F := F) (G := G1)) (c2 : config (F := F) (G := G2)) : Prop :=
    c_n c1 = c_n c2 /\ c_rounds c1 = c_rounds c2 /\ c_w c1 = c_w c2
    /\ Forall2 rel (c_srs c1) (c_srs c2) /\ rel (c_Q c1) (c_Q c2).
  Definition ipa_rel (p1 : ipa_proof (F := F) (G := G1)) (p2 : ipa_proof (F := F) (G := G2)) : Prop :=
    Forall2 rel (pL p1) (pL p2) /\ Forall2 rel (pR p1) (pR p2) /\ pA p1 = pA p2.
  Definition mp_rel (p1 : multiproof (F := F) (G := G1)) (p2 : multiproof (F := F) (G := G2)) : Prop :=
    ipa_rel (mpIPA p1) (mpIPA p2) /\ rel (mpD p1) (mpD p2).

  Lemma msm_rel ps ps' : Forall2 rel ps ps' -> forall ss, rel (msm go1 ps ss) (msm go2 ps' ss).
  Proof.
    induction 1 as [|p p' ps ps' Hp _ IH]; intros [|s ss]; cbn [msm]; try exact g0_rel.
    apply gadd_rel; [apply gmul_rel, Hp|apply IH].
  Qed.

  Lemma compute_b_rel c1 c2 z : cfg_rel c1 c2 -> compute_b fo c1 z = compute_b fo c2 z.
  Proof. intros (Hn & _ & Hw & _). unfold compute_b. rewrite Hn, Hw. reflexivity. Qed.

  Lemma fold_points_rel a a' : Forall2 rel a a' -> forall b b' x, Forall2 rel b b' ->
    Forall2 rel (fold_points go1 a b x) (fold_points go2 a' b' x).
  Proof.
    unfold fold_points. induction 1 as [|p p' a a' Hp _ IH]; intros b b' x Hb; cbn [combine map]; [constructor|].
    destruct Hb as [|q q' b b' Hq Hb]; cbn [combine map]; constructor.
    - cbn [fst snd]. apply gadd_rel; [apply gmul_rel, Hq|exact Hp].
    - apply IH, Hb.
  Qed.

  Lemma commit2_rel c c' q q' z : rel c c' -> rel q q' -> rel (commit2 fo go1 c q z) (commit2 fo go2 c' q' z).
  Proof. intros Hc Hq. unfold commit2. apply msm_rel. repeat constructor; assumption. Qed.

  (* the prover's rounds *)
  Lemma ipa_rounds_rel k : forall t q q' a b g g' accL accL' accR accR',
    rel q q' -> Forall2 rel g g' -> Forall2 rel accL accL' -> Forall2 rel accR accR' ->
    let '(t1, L1, R1, a1) := ipa_rounds fo go1 hashf k t q a b g accL accR in
    let '(t2, L2, R2, a2) := ipa_rounds fo go2 hashf k t q' a b g' accL' accR' in
    t1 = t2 /\ Forall2 rel L1 L2 /\ Forall2 rel R1 R2 /\ a1 = a2.
  Proof.
    induction k as [|k IH]; intros t q q' a b g g' accL accL' accR accR' Hq Hg HL HR.
    - cbn [ipa_rounds]. repeat split; try apply Forall2_rev'; assumption.
    - cbn [ipa_rounds]. cbv zeta.
      set (mid := Nat.div (length a) 2).
      assert (HcL : rel (commit2 fo go1 (msm go1 (firstn mid g) (skipn mid a)) q (inner fo (skipn mid a) (firstn mid b)))
                        (commit2 fo go2 (msm go2 (firstn mid g') (skipn mid a)) q' (inner fo (skipn mid a) (firstn mid b))))
        by (apply commit2_rel; [apply msm_rel, Forall2_firstn, Hg|exact Hq]).
      assert (HcR : rel (commit2 fo go1 (msm go1 (skipn mid g) (firstn mid a)) q (inner fo (firstn mid a) (skipn mid b)))
                        (commit2 fo go2 (msm go2 (skipn mid g') (firstn mid a)) q' (inner fo (firstn mid a) (skipn mid b))))
        by (apply commit2_rel; [apply msm_rel, Forall2_skipn, Hg|exact Hq]).
      rewrite (genc_rel _ _ HcL), (genc_rel _ _ HcR).
      destruct (t_challenge fo hashf _ lbl_x) as [t1 x].
      apply IH; try assumption.
      + apply fold_points_rel; [apply Forall2_firstn, Hg|apply Forall2_skipn, Hg].
      + constructor; assumption.
      + constructor; assumption.
  Qed.

  (* CreateIPAProof *)
  Theorem ipa_create_rel t c1 c2 cm cm' a z : cfg_rel c1 c2 -> rel cm cm' ->
    match ipa_create fo go1 hashf t c1 cm a z, ipa_create fo go2 hashf t c2 cm' a z with
    | Some (t1, p1), Some (t2, p2) => t1 = t2 /\ ipa_rel p1 p2
    | None, None => True
    | _, _ => False
    end.
  Proof.
    intros Hcfg Hcm. pose proof Hcfg as (Hn & Hr & Hw & Hsrs & HQ).
    unfold ipa_create. rewrite (compute_b_rel c1 c2 z Hcfg).
    destruct (negb (Nat.eqb (length a) (length (compute_b fo c2 z)))); [exact I|].
    rewrite (genc_rel _ _ Hcm). destruct (t_challenge fo hashf _ lbl_w) as [t1 w].
    rewrite Hr.
    pose proof (ipa_rounds_rel (c_rounds c2) t1 (gmul go1 w (c_Q c1)) (gmul go2 w (c_Q c2)) a (compute_b fo c2 z)
                  (c_srs c1) (c_srs c2) [] [] [] [] (gmul_rel _ _ _ HQ) Hsrs (Forall2_nil _) (Forall2_nil _)) as H.
    destruct (ipa_rounds fo go1 hashf _ _ _ _ _ _ _ _) as [[[ta La] Ra] aa].
    destruct (ipa_rounds fo go2 hashf _ _ _ _ _ _ _ _) as [[[tb Lb] Rb] ab].
    destruct H as (-> & HL & HR & ->).
    destruct ab as [|a0 [|a1 rest]]; try exact I.
    split; [reflexivity|]. unfold ipa_rel. cbn [pL pR pA]. auto.
  Qed.

  Lemma gen_challenges_rel L L' : Forall2 rel L L' -> forall R R' t, Forall2 rel R R' ->
    gen_challenges fo go1 hashf t L R = gen_challenges fo go2 hashf t L' R'.
  Proof.
    induction 1 as [|l l' L L' Hl _ IH]; intros R R' t HR.
    - destruct HR; reflexivity.
    - destruct HR as [|r r' R R' Hr HR]; cbn [gen_challenges]; [reflexivity|].
      rewrite (genc_rel l l' Hl), (genc_rel r r' Hr).
      destruct (t_challenge fo hashf _ lbl_x) as [t1 x]. rewrite (IH R R' t1 HR). reflexivity.
  Qed.

  Lemma fold_commitment_rel xs : forall xis L L' R R' c c',
    Forall2 rel L L' -> Forall2 rel R R' -> rel c c' ->
    rel (fold_commitment fo go1 c xs xis L R) (fold_commitment fo go2 c' xs xis L' R').
  Proof.
    induction xs as [|x xs IH]; intros xis L L' R R' c c' HL HR Hc; cbn [fold_commitment]; [exact Hc|].
    destruct xis as [|xi xis]; [exact Hc|].
    destruct HL as [|l l' L L' Hl HL]; [exact Hc|]. destruct HR as [|r r' R R' Hr HR]; [exact Hc|].
    apply IH; try assumption. apply msm_rel. repeat constructor; assumption.
  Qed.

  (* CheckIPAProof: same result (error / final transcript / decision) *)
  Theorem ipa_check_rel t c1 c2 cm cm' p1 p2 z res : cfg_rel c1 c2 -> rel cm cm' -> ipa_rel p1 p2 ->
    ipa_check fo go1 hashf t c1 cm p1 z res = ipa_check fo go2 hashf t c2 cm' p2 z res.
  Proof.
    intros Hcfg Hcm (HL & HR & HA). pose proof Hcfg as (Hn & Hr & Hw & Hsrs & HQ).
    unfold ipa_check.
    rewrite <- (Forall2_len rel _ _ HL), <- (Forall2_len rel _ _ HR), Hr.
    destruct (negb (Nat.eqb (length (pL p1)) (length (pR p1)))); [reflexivity|].
    destruct (negb (Nat.eqb (length (pL p1)) (c_rounds c2))); [reflexivity|].
    rewrite (genc_rel _ _ Hcm), (compute_b_rel c1 c2 z Hcfg).
    destruct (t_challenge fo hashf _ lbl_w) as [t1 w].
    rewrite (gen_challenges_rel _ _ HL _ _ t1 HR).
    destruct (gen_challenges fo go2 hashf t1 (pL p2) (pR p2)) as [t2 xs].
    rewrite <- (Forall2_len rel _ _ Hsrs), HA.
    f_equal. f_equal. apply geqb_rel.
    - apply gadd_rel; apply gmul_rel; [apply msm_rel, Hsrs|apply gmul_rel, HQ].
    - apply fold_commitment_rel; try assumption. apply gadd_rel; [exact Hcm|apply gmul_rel, gmul_rel, HQ].
  Qed.

  Lemma absorb_rel cs cs' : Forall2 rel cs cs' -> forall t zs ys,
    absorb_openings fo go1 t cs zs ys = absorb_openings fo go2 t cs' zs ys.
  Proof.
    induction 1 as [|c c' cs cs' Hc _ IH]; intros t zs ys; [reflexivity|].
    destruct zs as [|z zs], ys as [|y ys]; cbn [absorb_openings]; try reflexivity.
    rewrite (genc_rel c c' Hc). apply IH.
  Qed.

  (* CheckMultiProof *)
  Theorem mp_check_rel t c1 c2 p1 p2 cs cs' ys zs : cfg_rel c1 c2 -> mp_rel p1 p2 -> Forall2 rel cs cs' ->
    mp_check fo go1 hashf t c1 p1 cs ys zs = mp_check fo go2 hashf t c2 p2 cs' ys zs.
  Proof.
    intros Hcfg (Hip & HD) Hcs. pose proof Hcfg as (Hn & _). unfold mp_check.
    rewrite <- (Forall2_len rel cs cs' Hcs).
    destruct (negb (Nat.eqb (length cs) (length ys))); [reflexivity|].
    destruct (negb (Nat.eqb (length cs) (length zs))); [reflexivity|].
    destruct (Nat.eqb (length cs) 0); [reflexivity|].
    rewrite (absorb_rel cs cs' Hcs).
    destruct (t_challenge fo hashf _ lbl_r) as [t1 r].
    rewrite (genc_rel _ _ HD).
    destruct (t_challenge fo hashf _ lbl_t) as [t2 tch].
    rewrite Hn.
    set (sc := map _ (combine (powers_of fo r (length cs)) zs)).
    assert (HE : rel (msm go1 cs sc) (msm go2 cs' sc)) by (apply msm_rel, Hcs).
    rewrite (genc_rel _ _ HE).
    apply ipa_check_rel; try assumption.
    apply gadd_rel; [exact HE|apply gneg_rel, HD].
  Qed.

  (* CreateMultiProof *)
  Theorem mp_create_rel nw arrival t c1 c2 commit1 commit2' cs cs' fs zs :
    cfg_rel c1 c2 -> (forall v, rel (commit1 v) (commit2' v)) -> Forall2 rel cs cs' ->
    match mp_create fo go1 hashf nw arrival t c1 commit1 cs fs zs,
          mp_create fo go2 hashf nw arrival t c2 commit2' cs' fs zs with
    | inl (t1, p1), inl (t2, p2) => t1 = t2 /\ mp_rel p1 p2
    | inr e1, inr e2 => e1 = e2
    | _, _ => False
    end.
  Proof.
    intros Hcfg Hcommit Hcs. pose proof Hcfg as (Hn & Hr & Hw & _). unfold mp_create.
    rewrite <- (Forall2_len rel cs cs' Hcs), Hn, Hw.
    destruct (negb (forallb _ fs)); [reflexivity|].
    destruct (negb (Nat.eqb (length cs) (length fs))); [reflexivity|].
    destruct (negb (Nat.eqb (length cs) (length zs))); [reflexivity|].
    destruct (Nat.eqb (length cs) 0); [reflexivity|].
    rewrite (absorb_rel cs cs' Hcs).
    destruct (t_challenge fo hashf _ lbl_r) as [t1 r].
    set (gx := fold_left _ (used_slots _) (zeros fo (c_n c2))).
    rewrite (genc_rel _ _ (Hcommit gx)).
    destruct (t_challenge fo hashf _ lbl_t) as [t2 tch].
    set (hx := fold_left _ (combine _ _) (zeros fo (c_n c2))).
    rewrite (genc_rel _ _ (Hcommit hx)).
    pose proof (ipa_create_rel (t_append_point t2 (genc go2 (commit2' hx)) lbl_E) c1 c2
                  (gadd go1 (commit1 hx) (gneg go1 (commit1 gx))) (gadd go2 (commit2' hx) (gneg go2 (commit2' gx)))
                  (vsub fo hx gx) tch Hcfg (gadd_rel _ _ _ _ (Hcommit hx) (gneg_rel _ _ (Hcommit gx)))) as H.
    destruct (ipa_create fo go1 hashf _ c1 _ _ _) as [[ta pa]|]; destruct (ipa_create fo go2 hashf _ c2 _ _ _) as [[tb pb]|];
      try contradiction; [|reflexivity].
    destruct H as [-> Hp]. split; [reflexivity|]. split; [exact Hp|apply Hcommit].
  Qed.
End Transfer.

(* ---- completeness of the multiproof on representations, from completeness over a lawful
        abstract group related to them ---- *)
From Coq Require Import Permutation.
From GoIpa Require Import Proofs.AlgLaws Proofs.IPAProofs Proofs.BaryProofs Proofs.MultiproofComplete.
Section TransferComplete.
  Context {F G1 G2 : Type} (fo : FOps F) (go1 : GOps F G1) (go2 : GOps F G2) (hashf : list Z -> list Z)
          (FL : FieldLaws fo) (GL2 : GroupLaws fo go2).
  Variable rel : G1 -> G2 -> Prop.
  Hypothesis g0_rel : rel (g0 go1) (g0 go2).
  Hypothesis gadd_rel : forall a a' b b', rel a a' -> rel b b' -> rel (gadd go1 a b) (gadd go2 a' b').
  Hypothesis gmul_rel : forall s p p', rel p p' -> rel (gmul go1 s p) (gmul go2 s p').
  Hypothesis gneg_rel : forall a a', rel a a' -> rel (gneg go1 a) (gneg go2 a').
  Hypothesis genc_rel : forall a a', rel a a' -> genc go1 a = genc go2 a'.
  Hypothesis geqb_rel : forall a a' b b', rel a a' -> rel b b' -> geqb go1 a b = geqb go2 a' b'.
  Hypothesis geqb_refl2 : forall x, geqb go2 x x = true.
  Hypothesis dom_add : forall i j, dom fo (i + j) = fadd fo (dom fo i) (dom fo j).

  Theorem mp_complete_on_representations k c1 c2 nw arrival t (fs : list (list F)) (zs : list nat) :
    cfg_rel rel c1 c2 ->
    c_n c2 = (2 ^ k)%nat -> c_rounds c2 = k -> length (c_srs c2) = (2 ^ k)%nat ->
    c_w c2 = new_weights fo (2 ^ k) -> nodes_ok fo (2 ^ k) ->
    (1 <= nw)%nat -> Permutation arrival (seq 0 nw) ->
    fs <> [] -> length zs = length fs ->
    Forall (fun f => length f = (2 ^ k)%nat) fs -> Forall (fun z => (z < 2 ^ k)%nat) zs ->
    let cs1 := map (msm go1 (c_srs c1)) fs in
    let cs2 := map (msm go2 (c_srs c2)) fs in
    let ys := map (fun fz : list F * nat => nth (snd fz) (fst fz) (f0 fo)) (combine fs zs) in
    match mp_create fo go1 hashf nw arrival t c1 (msm go1 (c_srs c1)) cs1 fs zs,
          mp_create fo go2 hashf nw arrival t c2 (msm go2 (c_srs c2)) cs2 fs zs with
    | inl (t', pr1), inl (t'', pr2) =>
        t' = t'' /\ mp_rel rel pr1 pr2 /\
        (let '(t4, tch, EmD, g2t) := mp_view fo go2 hashf c2 t pr2 cs2 ys zs in
         off_domain fo (2 ^ k) tch -> (Z.of_nat (2 ^ k) - 1 < f2z fo tch)%Z ->
         Forall (invertible fo) (ipa_challenges fo go2 hashf t4 c2 EmD (mpIPA pr2) tch g2t) ->
         mp_check fo go1 hashf t c1 pr1 cs1 ys zs = Some (t', true))
    | _, _ => False
    end.
  Proof.
    intros Hcfg Hn Hr Hsl Hw Hnodes Hnw HP Hne Hlz Hfs Hzs cs1 cs2 ys.
    pose proof Hcfg as (_ & _ & _ & Hsrs & _).
    assert (Hcs : Forall2 rel cs1 cs2).
    { unfold cs1, cs2. clear -Hsrs g0_rel gadd_rel gmul_rel. induction fs as [|f fs' IH]; cbn [map]; constructor; [|exact IH].
      apply (msm_rel go1 go2 rel g0_rel gadd_rel gmul_rel), Hsrs. }
    pose proof (mp_create_rel fo go1 go2 hashf rel g0_rel gadd_rel gmul_rel gneg_rel genc_rel nw arrival t c1 c2
                  (msm go1 (c_srs c1)) (msm go2 (c_srs c2)) cs1 cs2 fs zs Hcfg
                  (fun v => msm_rel go1 go2 rel g0_rel gadd_rel gmul_rel _ _ Hsrs v) Hcs) as Hcr.
    pose proof (mp_complete fo go2 hashf FL GL2 geqb_refl2 dom_add k c2 Hn Hr Hsl Hw Hnodes nw arrival t fs zs
                  Hnw HP Hne Hlz Hfs Hzs) as Hcomp.
    cbv zeta in Hcomp. fold cs2 in Hcomp. fold ys in Hcomp.
    destruct (mp_create fo go1 hashf nw arrival t c1 (msm go1 (c_srs c1)) cs1 fs zs) as [[t' pr1]|e1];
      destruct (mp_create fo go2 hashf nw arrival t c2 (msm go2 (c_srs c2)) cs2 fs zs) as [[t'' pr2]|e2];
      try contradiction.
    destruct Hcr as [-> Hpr]. split; [reflexivity|]. split; [exact Hpr|].
    destruct (mp_view fo go2 hashf c2 t pr2 cs2 ys zs) as [[[t4 tch] EmD] g2t].
    intros H1 H2 H3. specialize (Hcomp H1 H2 H3). rewrite <- Hcomp.
    apply (mp_check_rel fo go1 go2 hashf rel g0_rel gadd_rel gmul_rel gneg_rel genc_rel geqb_rel); assumption.
  Qed.
End TransferComplete.
