(* Barycentric evaluation = evaluation of the interpolating polynomial in coefficient form:
   for every polynomial q with at most n coefficients (degree < n), every n >= 0 and every
   point t off the domain,  sum_i q(x_i) b_i(t) = q(t).  (ipa/barycentric.go; C04, C18.) *)
From Coq Require Import ZArith List Bool Lia Ring Arith.
From GoIpa Require Import Model.Alg Model.Bary Model.Banderwagon Model.IPA Proofs.AlgLaws Proofs.BaryProofs Proofs.IPAProofs.
Import ListNotations.

Section Poly.
  Context {F : Type} (fo : FOps F) (FL : FieldLaws fo).
  Local Notation "0" := (f0 fo).
  Local Notation "1" := (f1 fo).
  Local Infix "+" := (fadd fo).
  Local Infix "*" := (fmul fo).
  Local Infix "-" := (fsub fo).
  Local Notation "- x" := (fneg fo x).
  Local Notation inv := (finv fo).
  Local Notation invertible := (invertible fo).
  Local Notation dom := (dom fo).
  Local Notation Apoly := (Apoly fo).
  Local Notation nodes_ok := (nodes_ok fo).
  Local Notation off_domain := (off_domain fo).
  Local Notation fsum := (fsum fo).
  Local Notation bw := (bary_weight fo).
  Add Ring FringP : (fl_ring fo FL).

  (* coefficient form, lowest coefficient first *)
  Fixpoint peval (q : list F) (z : F) : F :=
    match q with [] => 0 | c :: q' => c + z * peval q' z end.

  (* synthetic division by (z - a) *)
  Fixpoint pdiv (q : list F) (a : F) : list F :=
    match q with
    | [] => []
    | c :: q' => match q' with [] => [] | _ => peval q' a :: pdiv q' a end
    end.

  Lemma pdiv_length q a : length (pdiv q a) = (length q - 1)%nat.
  Proof.
    induction q as [|c q IH]; [reflexivity|]. destruct q as [|d q']; [reflexivity|].
    change (pdiv (c :: d :: q') a) with (peval (d :: q') a :: pdiv (d :: q') a).
    cbn [length] in *. rewrite IH. lia.
  Qed.

  Lemma pdiv_spec q a z : peval q z = (z - a) * peval (pdiv q a) z + peval q a.
  Proof.
    induction q as [|c q IH]; [cbn; ring|]. destruct q as [|d q'].
    - cbn. ring.
    - change (pdiv (c :: d :: q') a) with (peval (d :: q') a :: pdiv (d :: q') a).
      set (p' := d :: q') in *. cbn [peval]. rewrite IH. ring.
  Qed.

  (* generalised partial fractions: sum_i q(x_i)/(A'(x_i)(t - x_i)) = q(t)/A(t) for deg q < n *)
  Theorem partial_fractions_poly n : forall q t, (length q <= n)%nat -> nodes_ok n -> off_domain n t ->
    fsum (map (fun i => peval q (dom i) * inv (bw n i * (t - dom i))) (seq 0 n)) = peval q t * inv (Apoly n t).
  Proof.
    induction n as [|n IH]; intros q t Hq Hnodes Hoff.
    - destruct q; [|cbn in Hq; lia]. cbn. ring.
    - set (y := dom n). set (q1 := pdiv q y).
      assert (Hq1 : (length q1 <= n)%nat) by (unfold q1; rewrite pdiv_length; lia).
      assert (Hnodes' : nodes_ok n) by (apply nodes_ok_S, Hnodes).
      assert (Hoff' : off_domain n t) by (apply off_domain_S, Hoff).
      assert (Hty : invertible (t - y)) by (apply Hoff; lia).
      assert (HAt : invertible (Apoly n t)) by (apply Apoly_invertible; [exact FL|exact Hoff']).
      (* every term i <= n:  q(x_i) = (x_i - y) q1(x_i) + q(y) *)
      assert (Hterm : forall i, In i (seq 0 (S n)) ->
                peval q (dom i) * inv (bw (S n) i * (t - dom i))
                = (if Nat.ltb i n then peval q1 (dom i) * inv (bw n i * (t - dom i)) else 0)
                  + peval q y * inv (bw (S n) i * (t - dom i))).
      { intros i Hi. apply in_seq in Hi. destruct (Nat.ltb_spec i n) as [Hlt|Hge].
        - rewrite (pdiv_spec q y (dom i)) at 1. fold q1.
          rewrite bw_S_lt by lia. fold y.
          assert (Hw : invertible (bw n i)) by (apply bw_invertible; [exact FL|exact Hnodes'|lia]).
          assert (Hti : invertible (t - dom i)) by (apply Hoff; lia).
          assert (Hiy : invertible (dom i - y)) by (apply Hnodes; lia).
          rewrite !(finv_mul fo FL) by (try assumption; apply (invertible_mul fo FL); assumption).
          transitivity (peval q1 (dom i) * (inv (bw n i) * inv (t - dom i)) * ((dom i - y) * inv (dom i - y))
                        + peval q y * (inv (bw n i) * inv (dom i - y) * inv (t - dom i))); [ring|].
          rewrite (inv_r' fo FL) by exact Hiy. ring.
        - assert (i = n) by lia. subst i. fold y. ring. }
      rewrite (fsum_map_ext fo _ _ _ Hterm).
      rewrite (fsum_map_add fo FL), (fsum_map_scale fo FL).
      rewrite (partial_fractions fo FL (S n) t ltac:(lia) Hnodes Hoff).
      (* the q1 part: the last index contributes 0 *)
      rewrite seq_S, map_app, (fsum_app fo FL). cbn [Nat.add map BaryProofs.fsum]. rewrite Nat.ltb_irrefl.
      rewrite (fsum_map_ext fo _ (fun i => peval q1 (dom i) * inv (bw n i * (t - dom i)))).
      2:{ intros i Hi. apply in_seq in Hi. destruct (Nat.ltb_spec i n); [reflexivity|lia]. }
      rewrite (IH q1 t Hq1 Hnodes' Hoff').
      rewrite Apoly_S. fold y. rewrite (finv_mul fo FL) by assumption.
      rewrite (pdiv_spec q y t). fold q1.
      transitivity (peval q1 t * inv (Apoly n t) * ((t - y) * inv (t - y)) + peval q y * (inv (Apoly n t) * inv (t - y))); [|ring].
      rewrite (inv_r' fo FL) by exact Hty. ring.
  Qed.

  (* barycentric evaluation of the evaluations of q  =  q(t) *)
  Theorem bary_eval_poly n q t : (length q <= n)%nat -> nodes_ok n -> off_domain n t ->
    fsum (map (fun i => peval q (dom i) * bcoef fo n t i) (seq 0 n)) = peval q t.
  Proof.
    intros Hq Hn Ht. unfold bcoef.
    transitivity (fsum (map (fun i => Apoly n t * (peval q (dom i) * inv (bw n i * (t - dom i)))) (seq 0 n))).
    - apply (fsum_map_ext fo). intros i _.
      replace ((t - dom i) * bw n i) with (bw n i * (t - dom i)) by ring. ring.
    - rewrite (fsum_map_scale fo FL), (partial_fractions_poly n q t Hq Hn Ht).
      transitivity (peval q t * (Apoly n t * inv (Apoly n t))); [ring|].
      rewrite (inv_r' fo FL) by (apply Apoly_invertible; [exact FL|exact Ht]). ring.
  Qed.

  (* as computed by the code: <evaluations of q, ComputeBarycentricCoefficients(t)> = q(t) *)
  Theorem inner_bary_coeffs_poly n q t : (length q <= n)%nat -> nodes_ok n -> off_domain n t ->
    inner fo (map (fun i => peval q (dom i)) (seq 0 n))
             (bary_coeffs fo n (batch_invert fo) (new_weights fo n) t) = peval q t.
  Proof.
    intros Hq Hn Ht. rewrite (bary_coeffs_spec fo FL n t Hn Ht), (inner_maps fo).
    apply bary_eval_poly; assumption.
  Qed.

  (* the value opened by the IPA at ANY field point is q(z), q any polynomial of degree < n
     through the committed evaluations: in the domain the unit vector picks the evaluation,
     outside the barycentric coefficients interpolate *)
  Theorem opened_value_is_poly_eval {G : Type} (cfg : config (F := F) (G := G)) q z :
    let n := c_n cfg in
    c_w cfg = new_weights fo n -> (length q <= n)%nat -> nodes_ok n ->
    (0 <= f2z fo z)%Z -> fofz fo (f2z fo z) = z ->
    ((Z.of_nat n - 1 < f2z fo z)%Z -> off_domain n z) ->
    inner fo (map (fun i => peval q (dom i)) (seq 0 n)) (compute_b fo cfg z) = peval q z.
  Proof.
    intros n Hw Hq Hn H0 Hrt Hoff. destruct (compute_b_switch fo cfg z) as [Hin Hout]. fold n in Hin, Hout.
    destruct (Z_le_gt_dec (f2z fo z) (Z.of_nat n - 1)) as [Hle|Hgt].
    - rewrite (Hin Hle).
      set (a := map (fun i => peval q (dom i)) (seq 0 n)).
      assert (La : length a = n) by (unfold a; rewrite map_length, seq_length; reflexivity).
      rewrite <- La at 1. rewrite (inner_unit_vec fo FL a) by lia.
      unfold a. rewrite nth_map_seq by lia. cbn [Nat.add]. f_equal.
      unfold Bary.dom. rewrite Z2Nat.id by lia. exact Hrt.
    - rewrite (Hout ltac:(lia)), Hw. apply inner_bary_coeffs_poly; [exact Hq|exact Hn|apply Hoff; lia].
  Qed.
End Poly.

(* ---- concrete: scalar field Fr, n = 256, the configuration of the code ---- *)
From GoIpa Require Import Model.Zq Model.FpSqrt Model.Concrete Proofs.ZqProofs Proofs.ZqField.
Section ConcretePoly.
  Open Scope Z_scope.
  Lemma zval_nonneg {q} (a : Zq q) : 1 < q -> 0 <= zval a.
  Proof. intros Hq. rewrite <- (zval_canon a). apply Z.mod_pos_bound. lia. Qed.

  (* for every polynomial q of degree < 256, every SRS and every scalar z (off-domain points
     with z - i invertible for all nodes i, which holds for every z > 255 when r is prime):
     <evaluations of q, computeBVector(z)> = q(z) *)
  Theorem concrete_opened_value srs (q : list Fr) (z : Fr) :
    (length q <= 256)%nat ->
    (255 < zval z -> off_domain fro 256 z) ->
    inner fro (map (fun i => peval fro q (dom fro i)) (seq 0 256)) (c_compute_b srs z) = peval fro q z.
  Proof.
    intros Hq Hoff. unfold c_compute_b.
    apply (opened_value_is_poly_eval fro fr_field_laws (c_config srs) q z); cbn [c_n c_w c_config f2z fofz fro].
    - reflexivity.
    - exact Hq.
    - exact fro_nodes_ok.
    - apply zval_nonneg, r_mod_gt1.
    - apply zq_of_Z_val.
    - intros H. apply Hoff. cbn in H. lia.
  Qed.
End ConcretePoly.
