(* Limb-level window extraction of partitionScalars (bandersnatch/multiexp.go): the
   selector (index, shift, mask, multi-word select, maskHigh, shiftHigh) applied to the
   four 64-bit limbs of a scalar returns exactly bits [c*chunk, c*chunk + c) of the value. *)
From Coq Require Import ZArith Lia Bool ZifyBool.
From GoIpa Require Import Model.Pippenger Proofs.PippengerProofs.
Open Scope Z_scope.

Lemma pow2_pos' n : 0 <= n -> 0 < 2 ^ n.
Proof. intros. apply Z.pow_pos_nonneg; lia. Qed.

(* (a mod 2^(m+k)) / 2^m = (a / 2^m) mod 2^k *)
Lemma mod_div_pow2 a m k : 0 <= m -> 0 <= k -> (a mod 2 ^ (m + k)) / 2 ^ m = (a / 2 ^ m) mod 2 ^ k.
Proof.
  intros Hm Hk. rewrite Z.pow_add_r by lia.
  rewrite Z.rem_mul_r by (pose proof (pow2_pos' m Hm); pose proof (pow2_pos' k Hk); lia).
  rewrite Z.mul_comm, Z.div_add by (pose proof (pow2_pos' m Hm); lia).
  rewrite Z.div_small by (apply Z.mod_pos_bound, pow2_pos'; lia). lia.
Qed.

Lemma land_ones' a n : 0 <= n -> Z.land a (2 ^ n - 1) = a mod 2 ^ n.
Proof. intros Hn. rewrite <- Z.land_ones by lia. f_equal. rewrite Z.ones_equiv. lia. Qed.

(* ((2^c - 1) * 2^shift) mod 2^64, shifted back = 2^(min c (64-shift)) - 1 *)
Lemma mask_shifted c shift : 1 <= c -> 0 <= shift < 64 ->
  Z.shiftr (u64 (Z.shiftl (2 ^ c - 1) shift)) shift = 2 ^ (Z.min c (64 - shift)) - 1.
Proof.
  intros Hc Hs. unfold u64. rewrite Z.shiftl_mul_pow2, Z.shiftr_div_pow2 by lia.
  replace 64 with (shift + (64 - shift)) at 1 by lia.
  rewrite (Z.mul_comm (2 ^ c - 1)). rewrite Z.pow_add_r by lia.
  pose proof (pow2_pos' shift ltac:(lia)) as Hp. pose proof (pow2_pos' (64 - shift) ltac:(lia)) as Hq.
  rewrite Z.mul_mod_distr_l by lia. rewrite Z.mul_comm, Z.div_mul by lia.
  destruct (Z.le_ge_cases c (64 - shift)) as [Hle|Hge].
  - rewrite Z.min_l by lia. apply Z.mod_small. split; [pose proof (pow2_pos' c ltac:(lia)); lia|].
    assert (2 ^ c <= 2 ^ (64 - shift)) by (apply Z.pow_le_mono_r; lia). lia.
  - rewrite Z.min_r by lia.
    (* 2^c - 1 = (2^(c-k) - 1) 2^k + (2^k - 1) *)
    set (k := 64 - shift) in *.
    replace (2 ^ c - 1) with ((2 ^ (c - k) - 1) * 2 ^ k + (2 ^ k - 1)).
    + rewrite Z.add_comm, Z.mod_add by lia. apply Z.mod_small. lia.
    + replace c with ((c - k) + k) at 2 by lia. rewrite Z.pow_add_r by lia. ring.
Qed.

Lemma limb_range s i : 0 <= limb s i < 2 ^ 64.
Proof. unfold limb. apply Z.mod_pos_bound. reflexivity. Qed.

(* low part: (limb land mask) >> shift = (limb / 2^shift) mod 2^(min c (64-shift)) *)
Lemma low_part L c shift : 0 <= L -> 1 <= c -> 0 <= shift < 64 ->
  Z.shiftr (Z.land L (u64 (Z.shiftl (2 ^ c - 1) shift))) shift = (L / 2 ^ shift) mod 2 ^ (Z.min c (64 - shift)).
Proof.
  intros HL Hc Hs. rewrite Z.shiftr_land, mask_shifted by lia.
  rewrite land_ones' by lia. rewrite Z.shiftr_div_pow2 by lia. reflexivity.
Qed.

Theorem window_extraction c chunk s :
  1 <= c <= 64 -> 0 <= chunk -> chunk * c < 256 -> 0 <= s < 2 ^ 256 ->
  sel_bits s (mk_selector c chunk) = (s / 2 ^ (chunk * c)) mod 2 ^ c.
Proof.
  intros Hc Hch Hin Hs. unfold mk_selector.
  set (jc := chunk * c). set (index := jc / 64). set (shift := jc - index * 64).
  assert (Hjc : 0 <= jc) by (unfold jc; apply Z.mul_nonneg_nonneg; lia).
  assert (Hidx : 0 <= index <= 3) by (unfold index; split; [apply Z.div_pos; lia|assert (jc / 64 < 4) by (apply Z.div_lt_upper_bound; lia); lia]).
  assert (Hsh : 0 <= shift < 64).
  { unfold shift, index. pose proof (Z.mod_pos_bound jc 64 ltac:(lia)). rewrite Z.mod_eq in H by lia. lia. }
  assert (Ejc : jc = 64 * index + shift) by (unfold shift; lia).
  set (S := s / 2 ^ (64 * index)).
  assert (HS : 0 <= S) by (apply Z.div_pos; [lia|apply pow2_pos'; lia]).
  assert (EL : limb s index = S mod 2 ^ 64) by reflexivity.
  assert (Etarget : (s / 2 ^ jc) mod 2 ^ c = (S / 2 ^ shift) mod 2 ^ c).
  { rewrite Ejc, Z.pow_add_r, <- Z.div_div by (try apply pow2_pos'; try lia; apply Z.pow_nonneg; lia). reflexivity. }
  rewrite Etarget.
  assert (Hdiv : 64 mod c = 0 -> shift + c <= 64).
  { intros Hm. apply Z.mod_divide in Hm; [|lia]. destruct Hm as [q Hq].
    (* jc = chunk c, 64 = q c: shift = jc - index*64 is a multiple of c below 64 *)
    assert (Hq0 : 0 < q) by nia.
    assert (Esh : shift = (chunk - index * q) * c) by (unfold shift, jc; nia).
    assert (chunk - index * q < q) by nia. nia. }
  destruct (negb (64 mod c =? 0) && (64 - c <? shift) && (index <? 3)) eqn:Emulti.
  - (* multi-word select *)
    apply andb_prop in Emulti as [Em Ei]. apply andb_prop in Em as [_ Ecross].
    apply Z.ltb_lt in Ecross, Ei.
    unfold sel_bits. cbn [s_index s_mask s_shift s_multi s_maskHigh s_shiftHigh].
    rewrite (low_part (limb s index) c shift) by (try lia; apply limb_range).
    rewrite Z.min_r by lia.
    set (nbh := shift - (64 - c)).
    rewrite land_ones' by (unfold nbh; lia). rewrite Z.shiftl_mul_pow2 by (unfold nbh; lia).
    replace (c - nbh) with (64 - shift) by (unfold nbh; lia).
    (* limbs of S *)
    assert (EL1 : limb s (index + 1) = (S / 2 ^ 64) mod 2 ^ 64).
    { unfold limb, S. replace (64 * (index + 1)) with (64 * index + 64) by lia.
      rewrite Z.pow_add_r, <- Z.div_div by (try apply pow2_pos'; try lia; apply Z.pow_nonneg; lia). reflexivity. }
    rewrite EL, EL1.
    (* (S mod 2^64)/2^shift mod 2^(64-shift) = (S/2^shift) mod 2^(64-shift) *)
    replace 64 with (shift + (64 - shift)) at 1 by lia. rewrite mod_div_pow2 by lia.
    rewrite Z.mod_mod by (pose proof (pow2_pos' (64 - shift) ltac:(lia)); lia).
    (* high part: ((S/2^64) mod 2^64) mod 2^nbh = (S/2^64) mod 2^nbh *)
    assert (Hnb : 0 <= nbh <= 64) by (unfold nbh; lia).
    assert (Ehi : ((S / 2 ^ 64) mod 2 ^ 64) mod 2 ^ nbh = (S / 2 ^ 64) mod 2 ^ nbh).
    { replace 64 with (nbh + (64 - nbh)) at 2 by lia. rewrite Z.pow_add_r by lia.
      rewrite Z.rem_mul_r by (pose proof (pow2_pos' nbh ltac:(lia)); pose proof (pow2_pos' (64 - nbh) ltac:(lia)); lia).
      rewrite Z.mul_comm, Z.mod_add by (pose proof (pow2_pos' nbh ltac:(lia)); lia).
      apply Z.mod_mod. pose proof (pow2_pos' nbh ltac:(lia)). lia. }
    rewrite Ehi.
    (* (S/2^shift) mod 2^c with c = (64-shift) + nbh *)
    set (T := S / 2 ^ shift).
    assert (ET : S / 2 ^ 64 = T / 2 ^ (64 - shift)).
    { unfold T. rewrite Z.div_div by (try apply pow2_pos'; lia). rewrite <- Z.pow_add_r by lia. f_equal. f_equal. lia. }
    rewrite ET.
    replace (2 ^ c) with (2 ^ (64 - shift) * 2 ^ nbh) by (rewrite <- Z.pow_add_r by lia; f_equal; unfold nbh; lia).
    rewrite Z.rem_mul_r by (pose proof (pow2_pos' (64 - shift) ltac:(lia)); pose proof (pow2_pos' nbh ltac:(lia)); lia).
    ring.
  - (* single-word select *)
    unfold sel_bits. cbn [s_index s_mask s_shift s_multi s_maskHigh s_shiftHigh]. rewrite Z.add_0_r.
    rewrite (low_part (limb s index) c shift) by (try lia; apply limb_range).
    rewrite EL.
    destruct (Z.le_gt_cases (shift + c) 64) as [Hfit|Hcross].
    + rewrite Z.min_l by lia.
      replace 64 with (shift + (64 - shift)) by lia. rewrite mod_div_pow2 by lia.
      (* ((S/2^shift) mod 2^(64-shift)) mod 2^c = (S/2^shift) mod 2^c since c <= 64-shift *)
      replace (64 - shift) with (c + (64 - shift - c)) by lia. rewrite Z.pow_add_r by lia.
      rewrite Z.rem_mul_r by (pose proof (pow2_pos' c ltac:(lia)); pose proof (pow2_pos' (64 - shift - c) ltac:(lia)); lia).
      rewrite Z.mul_comm, Z.mod_add by (pose proof (pow2_pos' c ltac:(lia)); lia).
      apply Z.mod_mod. pose proof (pow2_pos' c ltac:(lia)). lia.
    + (* the window crosses the limb but multi is off: only possible in the top limb *)
      assert (Hi3 : index = 3).
      { destruct (Z.eqb_spec (64 mod c) 0) as [Hm|Hm]; [specialize (Hdiv Hm); lia|].
        cbn [negb andb] in Emulti. destruct (64 - c <? shift) eqn:E1; [|lia].
        cbn [andb] in Emulti. lia. }
      rewrite Z.min_r by lia.
      assert (HS64 : S < 2 ^ 64).
      { unfold S. rewrite Hi3. apply Z.div_lt_upper_bound; [reflexivity|]. change (2 ^ (64 * 3) * 2 ^ 64) with (2 ^ 256). lia. }
      rewrite (Z.mod_small S) by lia.
      assert (Hq : 0 <= S / 2 ^ shift < 2 ^ (64 - shift)).
      { split; [apply Z.div_pos; [lia|apply pow2_pos'; lia]|]. apply Z.div_lt_upper_bound; [apply pow2_pos'; lia|].
        rewrite <- Z.pow_add_r by lia. replace (shift + (64 - shift)) with 64 by lia. exact HS64. }
      rewrite Z.mod_small by exact Hq. symmetry. apply Z.mod_small.
      assert (2 ^ (64 - shift) <= 2 ^ c) by (apply Z.pow_le_mono_r; lia). lia.
Qed.

(* the packed encoding of a signed digit (d >= 0: d itself; d < 0: (-d-1) | msb) is read
   back exactly by the chunk processor, for every digit in [-2^(c-1), 2^(c-1) - 1] *)
Definition encode_digit (c d : Z) : Z :=
  if d =? 0 then 0 else if 0 <=? d then d else Z.lor (- d - 1) (2 ^ (c - 1)).

Lemma lor_disjoint_add a n : 0 <= n -> 0 <= a < 2 ^ n -> Z.lor a (2 ^ n) = a + 2 ^ n.
Proof.
  intros Hn Ha.
  assert (Hland : Z.land a (2 ^ n) = 0).
  { apply Z.bits_inj'. intros m Hm. rewrite Z.land_spec, Z.bits_0.
    destruct (Z.eq_dec m n) as [->|Hne].
    - replace (Z.testbit a n) with false; [reflexivity|]. symmetry. apply Z.testbit_false; [lia|].
      rewrite Z.div_small by lia. reflexivity.
    - rewrite (Z.pow2_bits_false n m) by lia. apply andb_false_r. }
  rewrite <- Z.lxor_lor by exact Hland. symmetry. apply Z.add_nocarry_lxor, Hland.
Qed.

Theorem signed_digit_roundtrip c d : 2 <= c -> - 2 ^ (c - 1) <= d <= 2 ^ (c - 1) - 1 ->
  signed_of_bits c (encode_digit c d) = d /\ 0 <= encode_digit c d < 2 ^ c.
Proof.
  intros Hc Hd. pose proof (pow2_pos' (c - 1) ltac:(lia)) as Hh.
  assert (E2 : 2 ^ c = 2 * 2 ^ (c - 1)) by (replace c with (Z.succ (c - 1)) at 1 by lia; rewrite Z.pow_succ_r by lia; reflexivity).
  unfold encode_digit, signed_of_bits.
  destruct (Z.eqb_spec d 0) as [->|Hnz]; [cbn; split; [reflexivity|lia]|].
  destruct (Z.leb_spec 0 d) as [Hpos|Hneg].
  - (* positive: below half, msb clear *)
    destruct (Z.eqb_spec d 0); [lia|].
    assert (Hl : Z.land d (2 ^ (c - 1)) = 0).
    { apply Z.bits_inj'. intros m Hm. rewrite Z.land_spec, Z.bits_0.
      destruct (Z.eq_dec m (c - 1)) as [->|Hne].
      - replace (Z.testbit d (c - 1)) with false; [reflexivity|]. symmetry. apply Z.testbit_false; [lia|].
        rewrite Z.div_small by lia. reflexivity.
      - rewrite (Z.pow2_bits_false (c - 1) m) by lia. apply andb_false_r. }
    rewrite Hl. cbn [Z.eqb]. split; [reflexivity|lia].
  - (* negative: e = -d-1 in [0, half), encoded e + half *)
    set (e := - d - 1). assert (He : 0 <= e < 2 ^ (c - 1)) by (unfold e; lia).
    rewrite (lor_disjoint_add e (c - 1)) by lia.
    destruct (Z.eqb_spec (e + 2 ^ (c - 1)) 0); [lia|].
    assert (Hl : Z.land (e + 2 ^ (c - 1)) (2 ^ (c - 1)) <> 0).
    { rewrite <- (lor_disjoint_add e (c - 1)) by lia. rewrite Z.land_lor_distr_l, Z.land_diag.
      intros H0. apply Z.lor_eq_0_iff in H0. lia. }
    destruct (Z.eqb_spec (Z.land (e + 2 ^ (c - 1)) (2 ^ (c - 1))) 0); [contradiction|].
    split; [|lia].
    rewrite land_ones' by lia. rewrite Z.add_mod by lia. rewrite Z.mod_same by lia.
    rewrite Z.add_0_r, Z.mod_mod by lia. rewrite Z.mod_small by lia. unfold e. lia.
Qed.

(* ---- writing one packed digit into the output limbs ---- *)
Lemma lor_shift_add a b n : 0 <= n -> 0 <= a < 2 ^ n -> 0 <= b -> Z.lor a (Z.shiftl b n) = a + b * 2 ^ n.
Proof.
  intros Hn Ha Hb.
  assert (Hland : Z.land a (Z.shiftl b n) = 0).
  { apply Z.bits_inj'. intros m Hm. rewrite Z.land_spec, Z.bits_0.
    destruct (Z.lt_ge_cases m n) as [Hlt|Hge].
    - rewrite Z.shiftl_spec_low by lia. apply andb_false_r.
    - replace (Z.testbit a m) with false; [reflexivity|]. symmetry. apply Z.testbit_false; [lia|].
      assert (2 ^ n <= 2 ^ m) by (apply Z.pow_le_mono_r; lia). rewrite Z.div_small by lia. reflexivity. }
  rewrite <- Z.lxor_lor by exact Hland. rewrite <- Z.add_nocarry_lxor by exact Hland.
  rewrite Z.shiftl_mul_pow2 by lia. reflexivity.
Qed.

Definition write_field (c chunk out bits : Z) : Z :=
  let sel := mk_selector c chunk in
  let out1 := or_limb out (s_index sel) (u64 (Z.shiftl bits (s_shift sel))) in
  if s_multi sel then or_limb out1 (s_index sel + 1) (Z.shiftr bits (s_shiftHigh sel)) else out1.

Theorem write_field_spec c chunk out bits :
  1 <= c <= 64 -> 0 <= chunk -> chunk * c < 256 ->
  0 <= out < 2 ^ (chunk * c) -> 0 <= bits < 2 ^ c -> bits * 2 ^ (chunk * c) < 2 ^ 256 ->
  write_field c chunk out bits = out + bits * 2 ^ (chunk * c).
Proof.
  intros Hc Hch Hin Hout Hbits Hfit. unfold write_field, mk_selector.
  set (jc := chunk * c) in *. set (index := jc / 64). set (shift := jc - index * 64).
  assert (Hjc : 0 <= jc) by (unfold jc; apply Z.mul_nonneg_nonneg; lia).
  assert (Hidx : 0 <= index <= 3) by (unfold index; split; [apply Z.div_pos; lia|assert (jc / 64 < 4) by (apply Z.div_lt_upper_bound; lia); lia]).
  assert (Hsh : 0 <= shift < 64).
  { unfold shift, index. pose proof (Z.mod_pos_bound jc 64 ltac:(lia)). rewrite Z.mod_eq in H by lia. lia. }
  assert (Ejc : jc = 64 * index + shift) by (unfold shift; lia).
  pose proof (pow2_pos' shift ltac:(lia)) as Hps. pose proof (pow2_pos' (64 * index) ltac:(lia)) as Hpi.
  assert (E2 : 2 ^ jc = 2 ^ (64 * index) * 2 ^ shift) by (rewrite Ejc, Z.pow_add_r by lia; reflexivity).
  (* the low word: v = (bits 2^shift) mod 2^64 = 2^shift (bits mod 2^(64-shift)) *)
  set (v := u64 (Z.shiftl bits shift)).
  assert (Ev : v = (bits mod 2 ^ (64 - shift)) * 2 ^ shift).
  { unfold v, u64. rewrite Z.shiftl_mul_pow2 by lia.
    replace 64 with ((64 - shift) + shift) at 1 by lia. rewrite Z.pow_add_r by lia.
    rewrite Z.mul_mod_distr_r by (try lia; pose proof (pow2_pos' (64 - shift) ltac:(lia)); lia). reflexivity. }
  assert (Hlow : 0 <= bits mod 2 ^ (64 - shift) < 2 ^ (64 - shift)) by (apply Z.mod_pos_bound, pow2_pos'; lia).
  (* first write *)
  assert (W1 : or_limb out index v = out + (bits mod 2 ^ (64 - shift)) * 2 ^ jc).
  { unfold or_limb. rewrite Z.shiftl_mul_pow2 by lia. rewrite Ev.
    replace ((bits mod 2 ^ (64 - shift)) * 2 ^ shift * 2 ^ (64 * index))
      with (Z.shiftl (bits mod 2 ^ (64 - shift)) jc) by (rewrite Z.shiftl_mul_pow2 by lia; rewrite E2; ring).
    rewrite lor_shift_add by lia. reflexivity. }
  destruct (negb (64 mod c =? 0) && (64 - c <? shift) && (index <? 3)) eqn:Emulti;
    cbn [s_index s_shift s_multi s_shiftHigh]; fold v; rewrite W1.
  - (* multi: the high part goes to the next limb *)
    apply andb_prop in Emulti as [Em Ei]. apply andb_prop in Em as [_ Ecross]. apply Z.ltb_lt in Ecross, Ei.
    replace (c - (shift - (64 - c))) with (64 - shift) by lia.
    unfold or_limb. rewrite Z.shiftr_div_pow2 by lia.
    set (lo := bits mod 2 ^ (64 - shift)) in *. set (hi := bits / 2 ^ (64 - shift)).
    assert (Hhi : 0 <= hi) by (apply Z.div_pos; [lia|apply pow2_pos'; lia]).
    assert (Hb : bits = hi * 2 ^ (64 - shift) + lo).
    { unfold hi, lo. pose proof (Z.div_mod bits (2 ^ (64 - shift)) ltac:(pose proof (pow2_pos' (64 - shift) ltac:(lia)); lia)). lia. }
    assert (Hn : 64 * (index + 1) = jc + (64 - shift)) by lia.
    rewrite lor_shift_add.
    + rewrite Hn, Z.pow_add_r by lia. rewrite Hb at 1. ring.
    + lia.
    + split; [pose proof (pow2_pos' jc Hjc); nia|].
      rewrite Hn, Z.pow_add_r by lia.
      assert (lo * 2 ^ jc <= (2 ^ (64 - shift) - 1) * 2 ^ jc) by (apply Z.mul_le_mono_nonneg_r; [pose proof (pow2_pos' jc Hjc)|]; lia).
      pose proof (pow2_pos' jc Hjc). nia.
    + exact Hhi.
  - (* single write: nothing is truncated *)
    assert (Hnt : bits mod 2 ^ (64 - shift) = bits).
    { apply Z.mod_small. split; [lia|].
      destruct (Z.le_gt_cases (shift + c) 64) as [Hfit64|Hcross].
      - assert (2 ^ c <= 2 ^ (64 - shift)) by (apply Z.pow_le_mono_r; lia). lia.
      - (* crossing without multi: top limb, and the field fits below 2^256 *)
        assert (Hi3 : index = 3).
        { destruct (Z.eqb_spec (64 mod c) 0) as [Hm|Hm].
          - exfalso. apply Z.mod_divide in Hm; [|lia]. destruct Hm as [q Hq].
            assert (Hq0 : 0 < q) by nia.
            assert (Esh : shift = (chunk - index * q) * c) by (unfold shift, jc; nia).
            assert (chunk - index * q < q) by nia. nia.
          - cbn [negb andb] in Emulti. destruct (64 - c <? shift) eqn:E1; [|lia]. cbn [andb] in Emulti. lia. }
        (* bits 2^jc < 2^256 with jc = 192 + shift *)
        rewrite E2, Hi3 in Hfit. change (2 ^ (64 * 3)) with (2 ^ 192) in Hfit.
        assert (bits * 2 ^ shift < 2 ^ 64).
        { assert (2 ^ 256 = 2 ^ 192 * 2 ^ 64) by reflexivity. nia. }
        assert (2 ^ 64 = 2 ^ shift * 2 ^ (64 - shift)) by (rewrite <- Z.pow_add_r by lia; f_equal; lia).
        nia. }
    rewrite Hnt. reflexivity.
Qed.

(* ---- the whole per-scalar loop: packed output = sum of the encoded signed digits of
        the arithmetic recoding, final carry = recoding's carry ---- *)
Fixpoint packsum (c chunk : Z) (ds : list Z) : Z :=
  match ds with
  | nil => 0
  | cons d r => encode_digit c d * 2 ^ (chunk * c) + packsum c (chunk + 1) r
  end.
Fixpoint fits256 (c chunk : Z) (ds : list Z) : Prop :=
  match ds with
  | nil => True
  | cons d r => encode_digit c d * 2 ^ (chunk * c) < 2 ^ 256 /\ fits256 c (chunk + 1) r
  end.

Lemma part_loop_S f c s chunk carry out :
  part_loop (S f) c s chunk carry out =
  (let digit0 := carry + sel_bits s (mk_selector c chunk) in
   if digit0 =? 0 then part_loop f c s (chunk + 1) 0 out else
   let over := 2 ^ (c - 1) <=? digit0 in
   let digit := if over then digit0 - 2 ^ c else digit0 in
   let bits := if 0 <=? digit then digit else Z.lor (- digit - 1) (2 ^ (c - 1)) in
   part_loop f c s (chunk + 1) (if over then 1 else 0) (write_field c chunk out bits)).
Proof. reflexivity. Qed.

Theorem part_loop_spec : forall (f : nat) c s chunk carry out,
  2 <= c <= 64 -> 0 <= s < 2 ^ 256 -> 0 <= carry <= 1 -> 0 <= chunk ->
  ((1 <= f)%nat -> (chunk + Z.of_nat f - 1) * c < 256) ->
  0 <= out < 2 ^ (chunk * c) ->
  fits256 c chunk (fst (recode f c (s / 2 ^ (c * chunk)) carry)) ->
  part_loop f c s chunk carry out
  = (out + packsum c chunk (fst (recode f c (s / 2 ^ (c * chunk)) carry)),
     snd (recode f c (s / 2 ^ (c * chunk)) carry)).
Proof.
  induction f as [|f IH]; intros c s chunk carry out Hc Hs Hcar Hch Hwin Hout Hfit.
  - cbn [part_loop recode fst snd packsum]. f_equal. lia.
  - assert (Hstart : chunk * c < 256).
    { specialize (Hwin ltac:(lia)). rewrite Nat2Z.inj_succ in Hwin. nia. }
    pose proof (pow2_pos' (c - 1) ltac:(lia)) as Hh.
    assert (E2 : 2 ^ c = 2 * 2 ^ (c - 1)) by (replace c with (Z.succ (c - 1)) at 1 by lia; rewrite Z.pow_succ_r by lia; reflexivity).
    rewrite part_loop_S. cbv zeta.
    rewrite (window_extraction c chunk s) by lia.
    replace (chunk * c) with (c * chunk) by lia.
    set (s' := s / 2 ^ (c * chunk)) in *.
    assert (Hw : 0 <= s' mod 2 ^ c < 2 ^ c) by (apply Z.mod_pos_bound; lia).
    rewrite recode_S in Hfit |- *. cbv zeta in Hfit |- *. cbn [fst snd packsum fits256] in Hfit |- *.
    destruct Hfit as [Hfit1 Hfit'].
    assert (Enext : s' / 2 ^ c = s / 2 ^ (c * (chunk + 1))).
    { unfold s'. rewrite Z.div_div by (try apply pow2_pos'; try lia; apply Z.mul_nonneg_nonneg; lia).
      rewrite <- Z.pow_add_r by (try lia; apply Z.mul_nonneg_nonneg; lia). f_equal. f_equal. lia. }
    assert (Hwin' : (1 <= f)%nat -> (chunk + 1 + Z.of_nat f - 1) * c < 256).
    { intros Hf. specialize (Hwin ltac:(lia)). rewrite Nat2Z.inj_succ in Hwin. replace (chunk + 1 + Z.of_nat f - 1) with (chunk + Z.succ (Z.of_nat f) - 1) by lia. exact Hwin. }
    set (w := carry + s' mod 2 ^ c) in *.
    assert (Hpow : 2 ^ ((chunk + 1) * c) = 2 ^ (chunk * c) * 2 ^ c).
    { replace ((chunk + 1) * c) with (chunk * c + c) by lia. apply Z.pow_add_r; [apply Z.mul_nonneg_nonneg|]; lia. }
    pose proof (pow2_pos' (chunk * c) ltac:(apply Z.mul_nonneg_nonneg; lia)) as Hpc.
    destruct (Z.eqb_spec w 0) as [Hw0|Hw0].
    + (* window and carry zero: nothing written *)
      replace (2 ^ (c - 1) <=? w) with false by (symmetry; apply Z.leb_gt; lia).
      rewrite Hw0. cbn [encode_digit Z.eqb]. rewrite Z.mul_0_l, Z.add_0_l.
      rewrite Hw0 in Hfit'. replace (2 ^ (c - 1) <=? 0) with false in Hfit' by (symmetry; apply Z.leb_gt; lia).
      rewrite Enext in Hfit' |- *.
      apply IH; try assumption; try lia. split; [lia|]. rewrite Hpow.
      assert (2 ^ (chunk * c) * 1 <= 2 ^ (chunk * c) * 2 ^ c) by (apply Z.mul_le_mono_nonneg_l; lia). lia.
    + set (over := 2 ^ (c - 1) <=? w) in *. set (d := if over then w - 2 ^ c else w) in *.
      assert (Hd : - 2 ^ (c - 1) <= d <= 2 ^ (c - 1) - 1).
      { unfold d, over. destruct (Z.leb_spec (2 ^ (c - 1)) w); unfold w in *; lia. }
      assert (Ebits : (if 0 <=? d then d else Z.lor (- d - 1) (2 ^ (c - 1))) = encode_digit c d).
      { unfold encode_digit. destruct (Z.eqb_spec d 0) as [->|]; [reflexivity|reflexivity]. }
      rewrite Ebits. destruct (signed_digit_roundtrip c d ltac:(lia) Hd) as [_ Henc].
      replace (chunk * c) with (c * chunk) in * by lia.
      replace (c * chunk) with (chunk * c) in * by lia.
      rewrite (write_field_spec c chunk out (encode_digit c d)) by (try assumption; lia).
      rewrite Enext in Hfit' |- *.
      rewrite (IH c s (chunk + 1) (if over then 1 else 0) (out + encode_digit c d * 2 ^ (chunk * c)));
        try assumption; try lia.
      * f_equal. lia.
      * set (P := 2 ^ (chunk * c)) in *. set (e := encode_digit c d) in *.
        assert (He1 : 0 <= e * P) by (apply Z.mul_nonneg_nonneg; lia).
        assert (He2 : e * P <= (2 ^ c - 1) * P) by (apply Z.mul_le_mono_nonneg_r; lia).
        assert (He3 : (2 ^ c - 1) * P = P * 2 ^ c - P) by ring.
        split; [lia|]. rewrite Hpow. lia.
Qed.

(* ---- reading the packed digits back ---- *)
Fixpoint encval (c : Z) (ds : list Z) : Z :=
  match ds with nil => 0 | cons d r => encode_digit c d + 2 ^ c * encval c r end.

Lemma packsum_encval c : 0 <= c -> forall ds chunk, 0 <= chunk ->
  packsum c chunk ds = 2 ^ (chunk * c) * encval c ds.
Proof.
  intros Hc. induction ds as [|d r IH]; intros chunk Hch; cbn [packsum encval]; [ring|].
  rewrite IH by lia. replace ((chunk + 1) * c) with (chunk * c + c) by lia.
  rewrite Z.pow_add_r by (try lia; apply Z.mul_nonneg_nonneg; lia). ring.
Qed.

Definition encs_ok (c : Z) (ds : list Z) : Prop := List.Forall (fun d => 0 <= encode_digit c d < 2 ^ c) ds.

Lemma encval_nonneg c ds : 0 <= c -> encs_ok c ds -> 0 <= encval c ds.
Proof.
  intros Hc. induction 1 as [|d r Hd _ IH]; cbn [encval]; [lia|].
  pose proof (pow2_pos' c Hc). assert (0 <= 2 ^ c * encval c r) by (apply Z.mul_nonneg_nonneg; lia). lia.
Qed.

Lemma encval_digit c : 1 <= c -> forall ds j, encs_ok c ds -> (j < length ds)%nat ->
  (encval c ds / 2 ^ (Z.of_nat j * c)) mod 2 ^ c = encode_digit c (List.nth j ds 0).
Proof.
  intros Hc. pose proof (pow2_pos' c ltac:(lia)) as HB.
  induction ds as [|d r IH]; intros j Hok Hj; [cbn in Hj; lia|].
  pose proof (List.Forall_inv Hok) as Hd. pose proof (List.Forall_inv_tail Hok) as Hok'. cbv beta in Hd.
  cbn [encval List.nth]. destruct j as [|j].
  - cbn [Z.of_nat]. rewrite Z.mul_0_l, Z.pow_0_r, Z.div_1_r.
    replace (encode_digit c d + 2 ^ c * encval c r) with (encode_digit c d + encval c r * 2 ^ c) by ring.
    rewrite Z.mod_add by lia. apply Z.mod_small. exact Hd.
  - rewrite Nat2Z.inj_succ. replace (Z.succ (Z.of_nat j) * c) with (c + Z.of_nat j * c) by lia.
    rewrite Z.pow_add_r by (try lia; apply Z.mul_nonneg_nonneg; lia).
    rewrite <- Z.div_div by (try lia; apply pow2_pos', Z.mul_nonneg_nonneg; lia).
    replace (encode_digit c d + 2 ^ c * encval c r) with (encode_digit c d + encval c r * 2 ^ c) by ring.
    rewrite Z.div_add by lia. rewrite (Z.div_small (encode_digit c d)) by exact Hd. rewrite Z.add_0_l.
    apply IH; [exact Hok'|cbn in Hj; lia].
Qed.

(* every digit of the recoding of a scalar below 2^253 fits below bit 256 *)
Lemma recode_fits c : 2 <= c <= 64 -> forall (f : nat) chunk s' carry,
  0 <= s' -> 0 <= carry <= 1 -> 0 <= chunk -> s' * 2 ^ (chunk * c) < 2 ^ 253 ->
  ((1 <= f)%nat -> (chunk + Z.of_nat f - 1) * c < 256) ->
  fits256 c chunk (fst (recode f c s' carry)).
Proof.
  intros Hc. pose proof (pow2_pos' (c - 1) ltac:(lia)) as Hh.
  assert (E2 : 2 ^ c = 2 * 2 ^ (c - 1)) by (replace c with (Z.succ (c - 1)) at 1 by lia; rewrite Z.pow_succ_r by lia; reflexivity).
  induction f as [|f IH]; intros chunk s' carry Hs Hcar Hch Hb Hwin; [exact I|].
  assert (Hstart : chunk * c < 256).
  { specialize (Hwin ltac:(lia)). rewrite Nat2Z.inj_succ in Hwin. nia. }
  rewrite recode_S. cbv zeta. cbn [fst fits256].
  pose proof (pow2_pos' (chunk * c) ltac:(apply Z.mul_nonneg_nonneg; lia)) as HP.
  assert (Hw : 0 <= s' mod 2 ^ c < 2 ^ c) by (apply Z.mod_pos_bound; lia).
  set (w := carry + s' mod 2 ^ c) in *. set (over := 2 ^ (c - 1) <=? w) in *.
  set (d := if over then w - 2 ^ c else w) in *.
  assert (Hd : - 2 ^ (c - 1) <= d <= 2 ^ (c - 1) - 1).
  { unfold d, over. destruct (Z.leb_spec (2 ^ (c - 1)) w); unfold w in *; lia. }
  destruct (signed_digit_roundtrip c d ltac:(lia) Hd) as [_ Henc].
  split.
  - destruct (Z.le_gt_cases ((chunk + 1) * c) 256) as [Hin|Hout].
    + (* the whole window lies below bit 256 *)
      assert (2 ^ (chunk * c) * 2 ^ c <= 2 ^ 256).
      { rewrite <- Z.pow_add_r by (try lia; apply Z.mul_nonneg_nonneg; lia). apply Z.pow_le_mono_r; lia. }
      assert (encode_digit c d * 2 ^ (chunk * c) <= (2 ^ c - 1) * 2 ^ (chunk * c)) by (apply Z.mul_le_mono_nonneg_r; lia).
      assert ((2 ^ c - 1) * 2 ^ (chunk * c) = 2 ^ (chunk * c) * 2 ^ c - 2 ^ (chunk * c)) by ring. lia.
    + (* top, partial window: the digit is small and non-negative *)
      assert (Hc3 : 3 <= c) by (destruct (Z.eq_dec c 2) as [->|]; lia).
      assert (Hs253 : s' < 2 ^ (c - 3)).
      { assert (2 ^ 253 <= 2 ^ (chunk * c) * 2 ^ (c - 3)).
        { rewrite <- Z.pow_add_r by (try lia; apply Z.mul_nonneg_nonneg; lia). apply Z.pow_le_mono_r; lia. }
        assert (s' * 2 ^ (chunk * c) < 2 ^ (chunk * c) * 2 ^ (c - 3)) by lia.
        rewrite (Z.mul_comm s') in H0. apply Z.mul_lt_mono_pos_l in H0; lia. }
      assert (E3 : 2 ^ c = 8 * 2 ^ (c - 3)).
      { replace c with ((c - 3) + 3) at 1 by lia. rewrite Z.pow_add_r by lia. change (2 ^ 3) with 8. ring. }
      assert (E4 : 2 ^ (c - 1) = 4 * 2 ^ (c - 3)).
      { replace (c - 1) with ((c - 3) + 2) by lia. rewrite Z.pow_add_r by lia. change (2 ^ 2) with 4. ring. }
      pose proof (pow2_pos' (c - 3) ltac:(lia)) as H3.
      assert (Hsm : s' mod 2 ^ c = s') by (apply Z.mod_small; lia).
      assert (Hov : over = false) by (unfold over, w; rewrite Hsm; apply Z.leb_gt; lia).
      assert (Hdw : d = w) by (unfold d; rewrite Hov; reflexivity).
      assert (Hee : encode_digit c d <= d).
      { unfold encode_digit. destruct (Z.eqb_spec d 0); [lia|]. destruct (Z.leb_spec 0 d); [lia|]. unfold w in *. lia. }
      assert (encode_digit c d * 2 ^ (chunk * c) <= (s' + 1) * 2 ^ (chunk * c)).
      { apply Z.mul_le_mono_nonneg_r; [lia|]. unfold w in *. lia. }
      assert ((s' + 1) * 2 ^ (chunk * c) = s' * 2 ^ (chunk * c) + 2 ^ (chunk * c)) by ring.
      assert (2 ^ (chunk * c) < 2 ^ 256) by (apply Z.pow_lt_mono_r; lia).
      assert (2 ^ 253 + 2 ^ 256 < 2 * 2 ^ 256) by reflexivity.
      (* s' 2^(chunk c) < 2^253 and 2^(chunk c) <= 2^255 *)
      assert (2 ^ (chunk * c) <= 2 ^ 255) by (apply Z.pow_le_mono_r; lia).
      assert (2 ^ 253 + 2 ^ 255 < 2 ^ 256) by reflexivity. lia.
  - apply IH.
    + apply Z.div_pos; lia.
    + unfold over. destruct (2 ^ (c - 1) <=? w); lia.
    + lia.
    + (* (s'/2^c) 2^((chunk+1)c) <= s' 2^(chunk c) *)
      replace ((chunk + 1) * c) with (chunk * c + c) by lia.
      rewrite Z.pow_add_r by (try lia; apply Z.mul_nonneg_nonneg; lia).
      pose proof (Z.mul_div_le s' (2 ^ c) ltac:(lia)).
      assert (s' / 2 ^ c * (2 ^ (chunk * c) * 2 ^ c) = (2 ^ c * (s' / 2 ^ c)) * 2 ^ (chunk * c)) by ring.
      assert ((2 ^ c * (s' / 2 ^ c)) * 2 ^ (chunk * c) <= s' * 2 ^ (chunk * c)) by (apply Z.mul_le_mono_nonneg_r; lia).
      lia.
    + intros Hf. specialize (Hwin ltac:(lia)). rewrite Nat2Z.inj_succ in Hwin.
      replace (chunk + 1 + Z.of_nat f - 1) with (chunk + Z.succ (Z.of_nat f) - 1) by lia. exact Hwin.
Qed.

(* the packed value stays below 2^256 *)
Lemma encval_lt_pow c : 1 <= c -> forall ds, encs_ok c ds -> encval c ds < 2 ^ (Z.of_nat (length ds) * c).
Proof.
  intros Hc. pose proof (pow2_pos' c ltac:(lia)) as HB.
  induction 1 as [|d r Hd _ IH]; cbn [encval length]; [cbn; lia|].
  rewrite Nat2Z.inj_succ. replace (Z.succ (Z.of_nat (length r)) * c) with (c + Z.of_nat (length r) * c) by lia.
  rewrite Z.pow_add_r by (try lia; apply Z.mul_nonneg_nonneg; lia).
  set (M := 2 ^ (Z.of_nat (length r) * c)) in *.
  assert (2 ^ c * encval c r <= 2 ^ c * (M - 1)) by (apply Z.mul_le_mono_nonneg_l; lia).
  assert (2 ^ c * (M - 1) = 2 ^ c * M - 2 ^ c) by ring. lia.
Qed.

Lemma fits_last c ds : forall chunk, 0 <= chunk -> 1 <= c -> ds <> nil -> fits256 c chunk ds ->
  encode_digit c (List.last ds 0) * 2 ^ ((chunk + Z.of_nat (length ds) - 1) * c) < 2 ^ 256.
Proof.
  induction ds as [|d r IH]; intros chunk Hch Hc Hne Hf; [congruence|].
  destruct r as [|d' r'].
  - cbn [List.last length fits256] in *. replace (chunk + Z.of_nat 1 - 1) with chunk by lia. tauto.
  - cbn [fits256] in Hf. destruct Hf as [_ Hf]. specialize (IH (chunk + 1) ltac:(lia) Hc ltac:(discriminate) Hf).
    change (List.last (d :: d' :: r') 0) with (List.last (d' :: r') 0).
    replace (chunk + Z.of_nat (length (d :: d' :: r')) - 1) with (chunk + 1 + Z.of_nat (length (d' :: r')) - 1)
      by (cbn [length]; lia). exact IH.
Qed.

Lemma encval_split_last c : 1 <= c -> forall ds, encs_ok c ds -> ds <> nil ->
  encval c ds < (encode_digit c (List.last ds 0) + 1) * 2 ^ ((Z.of_nat (length ds) - 1) * c).
Proof.
  intros Hc. pose proof (pow2_pos' c ltac:(lia)) as HB.
  induction ds as [|d r IH]; intros Hok Hne; [congruence|].
  pose proof (List.Forall_inv Hok) as Hd. pose proof (List.Forall_inv_tail Hok) as Hok'. cbv beta in Hd.
  destruct r as [|d' r'].
  - cbn [encval List.last length]. replace ((Z.of_nat 1 - 1) * c) with 0 by lia. rewrite Z.pow_0_r. lia.
  - specialize (IH Hok' ltac:(discriminate)).
    change (List.last (d :: d' :: r') 0) with (List.last (d' :: r') 0).
    change (encval c (d :: d' :: r')) with (encode_digit c d + 2 ^ c * encval c (d' :: r')).
    replace ((Z.of_nat (length (d :: d' :: r')) - 1) * c) with (c + (Z.of_nat (length (d' :: r')) - 1) * c)
      by (cbn [length]; lia).
    rewrite Z.pow_add_r by (try lia; apply Z.mul_nonneg_nonneg; cbn [length]; lia).
    set (E := encode_digit c (List.last (d' :: r') 0)) in *.
    set (M := 2 ^ ((Z.of_nat (length (d' :: r')) - 1) * c)) in *.
    set (V := encval c (d' :: r')) in *.
    assert (2 ^ c * V <= 2 ^ c * ((E + 1) * M - 1)) by (apply Z.mul_le_mono_nonneg_l; lia).
    assert (2 ^ c * ((E + 1) * M - 1) = (E + 1) * (2 ^ c * M) - 2 ^ c) by ring. lia.
Qed.

Lemma packed_lt_256 c ds : 1 <= c -> encs_ok c ds -> fits256 c 0 ds ->
  (Z.of_nat (length ds) - 1) * c < 256 -> encval c ds < 2 ^ 256.
Proof.
  intros Hc Hok Hf HK. destruct ds as [|d r]; [cbn; reflexivity|].
  pose proof (encval_split_last c Hc (d :: r) Hok ltac:(discriminate)) as Hlt.
  pose proof (fits_last c (d :: r) 0 ltac:(lia) Hc ltac:(discriminate) Hf) as Hl.
  replace (0 + Z.of_nat (length (d :: r)) - 1) with (Z.of_nat (length (d :: r)) - 1) in Hl by lia.
  set (K := (Z.of_nat (length (d :: r)) - 1) * c) in *. set (E := encode_digit c (List.last (d :: r) 0)) in *.
  assert (HK0 : 0 <= K) by (unfold K; apply Z.mul_nonneg_nonneg; cbn [length]; lia).
  pose proof (pow2_pos' K HK0) as HP.
  assert (E256 : 2 ^ 256 = 2 ^ K * 2 ^ (256 - K)) by (rewrite <- Z.pow_add_r by lia; f_equal; lia).
  (* E 2^K < 2^K 2^(256-K)  ->  E + 1 <= 2^(256-K) *)
  assert (HE : E < 2 ^ (256 - K)).
  { rewrite E256, (Z.mul_comm E) in Hl. apply Z.mul_lt_mono_pos_l in Hl; lia. }
  assert ((E + 1) * 2 ^ K <= 2 ^ (256 - K) * 2 ^ K) by (apply Z.mul_le_mono_nonneg_r; lia).
  rewrite E256. lia.
Qed.

Lemma nb_chunks_windows c : 1 <= c <= 256 -> (nb_chunks c - 1) * c < 256.
Proof.
  intros Hc. unfold nb_chunks. pose proof (Z.div_mod 256 c ltac:(lia)) as Hdm.
  pose proof (Z.mod_pos_bound 256 c ltac:(lia)) as Hm.
  destruct (Z.eqb_spec (256 mod c) 0) as [E|E]; nia.
Qed.

(* MAIN (limb level): for every window width 2 <= c <= 64 and every canonical scalar, the
   packed limbs written by partitionScalars, read back chunk by chunk the way the chunk
   processor reads them, are exactly the signed digits of the arithmetic recoding; no carry
   is left *)
Theorem partition_scalar_digits c s :
  2 <= c <= 64 -> 0 <= s < 2 ^ 253 ->
  let nb := Z.to_nat (nb_chunks c) in
  let packed := fst (part_loop nb c s 0 0 0) in
  snd (part_loop nb c s 0 0 0) = 0
  /\ 0 <= packed < 2 ^ 256
  /\ forall j, (j < nb)%nat ->
       signed_of_bits c (chunk_bits c packed (Z.of_nat j)) = List.nth j (fst (recode nb c s 0)) 0.
Proof.
  intros Hc Hs nb packed.
  pose proof (nb_chunks_pos c ltac:(lia)) as Hnb1.
  pose proof (nb_chunks_windows c ltac:(lia)) as Hwin.
  assert (Hnbz : Z.of_nat nb = nb_chunks c) by (unfold nb; rewrite Z2Nat.id; lia).
  destruct (recode_real_value c s ltac:(lia) Hs) as (Hval & Hrange & Hlen). fold nb in Hval, Hrange, Hlen.
  pose proof (recode_real_no_carry c s ltac:(lia) Hs) as Hcf. fold nb in Hcf.
  set (ds := fst (recode nb c s 0)) in *.
  assert (Hs256 : s < 2 ^ 256) by (assert (2 ^ 253 < 2 ^ 256) by reflexivity; lia).
  assert (Hfit : fits256 c 0 ds).
  { unfold ds. apply recode_fits; try lia; try (rewrite Z.mul_0_l, Z.pow_0_r; lia);
      try (intros _; rewrite Hnbz; replace (0 + nb_chunks c - 1) with (nb_chunks c - 1) by lia; exact Hwin). }
  assert (Hok : encs_ok c ds).
  { unfold encs_ok. eapply List.Forall_impl; [|exact Hrange]. intros d Hd. apply (signed_digit_roundtrip c d ltac:(lia) Hd). }
  pose proof (part_loop_spec nb c s 0 0 0 Hc ltac:(lia) ltac:(lia) ltac:(lia)) as Hspec.
  rewrite Z.mul_0_r, Z.pow_0_r, Z.div_1_r in Hspec. fold ds in Hspec.
  specialize (Hspec ltac:(intros _; rewrite Hnbz; replace (0 + nb_chunks c - 1) with (nb_chunks c - 1) by lia; exact Hwin)
                    ltac:(first [lia | split; [lia|apply pow2_pos'; lia]]) Hfit).
  assert (Epk : packed = encval c ds).
  { unfold packed. rewrite Hspec. cbn [fst]. rewrite (packsum_encval c ltac:(lia) ds 0 ltac:(lia)).
    rewrite Z.mul_0_l, Z.pow_0_r. ring. }
  split; [rewrite Hspec; cbn [snd]; exact Hcf|].
  assert (Hpk : 0 <= packed < 2 ^ 256).
  { rewrite Epk. split; [apply encval_nonneg; [lia|exact Hok]|].
    apply packed_lt_256; try assumption; try lia; try (rewrite Hlen, Hnbz; exact Hwin). }
  split; [exact Hpk|]. intros j Hj.
  unfold chunk_bits. rewrite (window_extraction c (Z.of_nat j) packed) by (try lia; nia).
  rewrite Epk. rewrite (encval_digit c ltac:(lia) ds j Hok) by lia.
  apply signed_digit_roundtrip; [lia|].
  exact (proj1 (List.Forall_forall _ _) Hrange _ (@List.nth_In Z j ds 0 ltac:(lia))).
Qed.
