(* Limb-level window extraction of partitionScalars (bandersnatch/multiexp.go): the
   selector (index, shift, mask, multi-word select, maskHigh, shiftHigh) applied to the
   four 64-bit limbs of a scalar returns exactly bits [c*chunk, c*chunk + c) of the value. *)
From Coq Require Import ZArith Lia Bool ZifyBool.
From GoIpa Require Import Model.Pippenger.
Open Scope Z_scope.

Lemma pow2_pos' n : 0 <= n -> 0 < 2 ^ n.
Proof. intros. apply Z.pow_pos_nonneg; lia. Qed.

(* (a mod 2^(m+k)) / 2^m = (a / 2^m) mod 2^k *)
Lemma mod_div_pow2 a m k : 0 <= m -> 0 <= k -> (a mod 2 ^ (m + k)) / 2 ^ m = (a / 2 ^ m) mod 2 ^ k.
Proof.
  intros Hm Hk. rewrite Z.pow_add_r by lia.
  rewrite Z.rem_mul_r by (pose proof (pow2_pos' m Hm); pose proof (pow2_pos' k Hk); lia).
  rewrite Z.mul_comm, Z.div_add by (pose proof (pow2_pos' m Hm); lia).
  rewrite Z.div_small by (apply Z.mod_pos_bound, pow2_pos'; lia). lia.
Qed.

Lemma land_ones' a n : 0 <= n -> Z.land a (2 ^ n - 1) = a mod 2 ^ n.
Proof. intros Hn. rewrite <- Z.land_ones by lia. f_equal. rewrite Z.ones_equiv. lia. Qed.

(* ((2^c - 1) * 2^shift) mod 2^64, shifted back = 2^(min c (64-shift)) - 1 *)
Lemma mask_shifted c shift : 1 <= c -> 0 <= shift < 64 ->
  Z.shiftr (u64 (Z.shiftl (2 ^ c - 1) shift)) shift = 2 ^ (Z.min c (64 - shift)) - 1.
Proof.
  intros Hc Hs. unfold u64. rewrite Z.shiftl_mul_pow2, Z.shiftr_div_pow2 by lia.
  replace 64 with (shift + (64 - shift)) at 1 by lia.
  rewrite (Z.mul_comm (2 ^ c - 1)). rewrite Z.pow_add_r by lia.
  pose proof (pow2_pos' shift ltac:(lia)) as Hp. pose proof (pow2_pos' (64 - shift) ltac:(lia)) as Hq.
  rewrite Z.mul_mod_distr_l by lia. rewrite Z.mul_comm, Z.div_mul by lia.
  destruct (Z.le_ge_cases c (64 - shift)) as [Hle|Hge].
  - rewrite Z.min_l by lia. apply Z.mod_small. split; [pose proof (pow2_pos' c ltac:(lia)); lia|].
    assert (2 ^ c <= 2 ^ (64 - shift)) by (apply Z.pow_le_mono_r; lia). lia.
  - rewrite Z.min_r by lia.
    (* 2^c - 1 = (2^(c-k) - 1) 2^k + (2^k - 1) *)
    set (k := 64 - shift) in *.
    replace (2 ^ c - 1) with ((2 ^ (c - k) - 1) * 2 ^ k + (2 ^ k - 1)).
    + rewrite Z.add_comm, Z.mod_add by lia. apply Z.mod_small. lia.
    + replace c with ((c - k) + k) at 2 by lia. rewrite Z.pow_add_r by lia. ring.
Qed.

Lemma limb_range s i : 0 <= limb s i < 2 ^ 64.
Proof. unfold limb. apply Z.mod_pos_bound. reflexivity. Qed.

(* low part: (limb land mask) >> shift = (limb / 2^shift) mod 2^(min c (64-shift)) *)
Lemma low_part L c shift : 0 <= L -> 1 <= c -> 0 <= shift < 64 ->
  Z.shiftr (Z.land L (u64 (Z.shiftl (2 ^ c - 1) shift))) shift = (L / 2 ^ shift) mod 2 ^ (Z.min c (64 - shift)).
Proof.
  intros HL Hc Hs. rewrite Z.shiftr_land, mask_shifted by lia.
  rewrite land_ones' by lia. rewrite Z.shiftr_div_pow2 by lia. reflexivity.
Qed.

Theorem window_extraction c chunk s :
  1 <= c <= 64 -> 0 <= chunk -> chunk * c < 256 -> 0 <= s < 2 ^ 256 ->
  sel_bits s (mk_selector c chunk) = (s / 2 ^ (chunk * c)) mod 2 ^ c.
Proof.
  intros Hc Hch Hin Hs. unfold mk_selector.
  set (jc := chunk * c). set (index := jc / 64). set (shift := jc - index * 64).
  assert (Hjc : 0 <= jc) by (unfold jc; apply Z.mul_nonneg_nonneg; lia).
  assert (Hidx : 0 <= index <= 3) by (unfold index; split; [apply Z.div_pos; lia|assert (jc / 64 < 4) by (apply Z.div_lt_upper_bound; lia); lia]).
  assert (Hsh : 0 <= shift < 64).
  { unfold shift, index. pose proof (Z.mod_pos_bound jc 64 ltac:(lia)). rewrite Z.mod_eq in H by lia. lia. }
  assert (Ejc : jc = 64 * index + shift) by (unfold shift; lia).
  set (S := s / 2 ^ (64 * index)).
  assert (HS : 0 <= S) by (apply Z.div_pos; [lia|apply pow2_pos'; lia]).
  assert (EL : limb s index = S mod 2 ^ 64) by reflexivity.
  assert (Etarget : (s / 2 ^ jc) mod 2 ^ c = (S / 2 ^ shift) mod 2 ^ c).
  { rewrite Ejc, Z.pow_add_r, <- Z.div_div by (try apply pow2_pos'; try lia; apply Z.pow_nonneg; lia). reflexivity. }
  rewrite Etarget.
  assert (Hdiv : 64 mod c = 0 -> shift + c <= 64).
  { intros Hm. apply Z.mod_divide in Hm; [|lia]. destruct Hm as [q Hq].
    (* jc = chunk c, 64 = q c: shift = jc - index*64 is a multiple of c below 64 *)
    assert (Hq0 : 0 < q) by nia.
    assert (Esh : shift = (chunk - index * q) * c) by (unfold shift, jc; nia).
    assert (chunk - index * q < q) by nia. nia. }
  destruct (negb (64 mod c =? 0) && (64 - c <? shift) && (index <? 3)) eqn:Emulti.
  - (* multi-word select *)
    apply andb_prop in Emulti as [Em Ei]. apply andb_prop in Em as [_ Ecross].
    apply Z.ltb_lt in Ecross, Ei.
    unfold sel_bits. cbn [s_index s_mask s_shift s_multi s_maskHigh s_shiftHigh].
    rewrite (low_part (limb s index) c shift) by (try lia; apply limb_range).
    rewrite Z.min_r by lia.
    set (nbh := shift - (64 - c)).
    rewrite land_ones' by (unfold nbh; lia). rewrite Z.shiftl_mul_pow2 by (unfold nbh; lia).
    replace (c - nbh) with (64 - shift) by (unfold nbh; lia).
    (* limbs of S *)
    assert (EL1 : limb s (index + 1) = (S / 2 ^ 64) mod 2 ^ 64).
    { unfold limb, S. replace (64 * (index + 1)) with (64 * index + 64) by lia.
      rewrite Z.pow_add_r, <- Z.div_div by (try apply pow2_pos'; try lia; apply Z.pow_nonneg; lia). reflexivity. }
    rewrite EL, EL1.
    (* (S mod 2^64)/2^shift mod 2^(64-shift) = (S/2^shift) mod 2^(64-shift) *)
    replace 64 with (shift + (64 - shift)) at 1 by lia. rewrite mod_div_pow2 by lia.
    rewrite Z.mod_mod by (pose proof (pow2_pos' (64 - shift) ltac:(lia)); lia).
    (* high part: ((S/2^64) mod 2^64) mod 2^nbh = (S/2^64) mod 2^nbh *)
    assert (Hnb : 0 <= nbh <= 64) by (unfold nbh; lia).
    assert (Ehi : ((S / 2 ^ 64) mod 2 ^ 64) mod 2 ^ nbh = (S / 2 ^ 64) mod 2 ^ nbh).
    { replace 64 with (nbh + (64 - nbh)) at 2 by lia. rewrite Z.pow_add_r by lia.
      rewrite Z.rem_mul_r by (pose proof (pow2_pos' nbh ltac:(lia)); pose proof (pow2_pos' (64 - nbh) ltac:(lia)); lia).
      rewrite Z.mul_comm, Z.mod_add by (pose proof (pow2_pos' nbh ltac:(lia)); lia).
      apply Z.mod_mod. pose proof (pow2_pos' nbh ltac:(lia)). lia. }
    rewrite Ehi.
    (* (S/2^shift) mod 2^c with c = (64-shift) + nbh *)
    set (T := S / 2 ^ shift).
    assert (ET : S / 2 ^ 64 = T / 2 ^ (64 - shift)).
    { unfold T. rewrite Z.div_div by (try apply pow2_pos'; lia). rewrite <- Z.pow_add_r by lia. f_equal. f_equal. lia. }
    rewrite ET.
    replace (2 ^ c) with (2 ^ (64 - shift) * 2 ^ nbh) by (rewrite <- Z.pow_add_r by lia; f_equal; unfold nbh; lia).
    rewrite Z.rem_mul_r by (pose proof (pow2_pos' (64 - shift) ltac:(lia)); pose proof (pow2_pos' nbh ltac:(lia)); lia).
    ring.
  - (* single-word select *)
    unfold sel_bits. cbn [s_index s_mask s_shift s_multi s_maskHigh s_shiftHigh]. rewrite Z.add_0_r.
    rewrite (low_part (limb s index) c shift) by (try lia; apply limb_range).
    rewrite EL.
    destruct (Z.le_gt_cases (shift + c) 64) as [Hfit|Hcross].
    + rewrite Z.min_l by lia.
      replace 64 with (shift + (64 - shift)) by lia. rewrite mod_div_pow2 by lia.
      (* ((S/2^shift) mod 2^(64-shift)) mod 2^c = (S/2^shift) mod 2^c since c <= 64-shift *)
      replace (64 - shift) with (c + (64 - shift - c)) by lia. rewrite Z.pow_add_r by lia.
      rewrite Z.rem_mul_r by (pose proof (pow2_pos' c ltac:(lia)); pose proof (pow2_pos' (64 - shift - c) ltac:(lia)); lia).
      rewrite Z.mul_comm, Z.mod_add by (pose proof (pow2_pos' c ltac:(lia)); lia).
      apply Z.mod_mod. pose proof (pow2_pos' c ltac:(lia)). lia.
    + (* the window crosses the limb but multi is off: only possible in the top limb *)
      assert (Hi3 : index = 3).
      { destruct (Z.eqb_spec (64 mod c) 0) as [Hm|Hm]; [specialize (Hdiv Hm); lia|].
        cbn [negb andb] in Emulti. destruct (64 - c <? shift) eqn:E1; [|lia].
        cbn [andb] in Emulti. lia. }
      rewrite Z.min_r by lia.
      assert (HS64 : S < 2 ^ 64).
      { unfold S. rewrite Hi3. apply Z.div_lt_upper_bound; [reflexivity|]. change (2 ^ (64 * 3) * 2 ^ 64) with (2 ^ 256). lia. }
      rewrite (Z.mod_small S) by lia.
      assert (Hq : 0 <= S / 2 ^ shift < 2 ^ (64 - shift)).
      { split; [apply Z.div_pos; [lia|apply pow2_pos'; lia]|]. apply Z.div_lt_upper_bound; [apply pow2_pos'; lia|].
        rewrite <- Z.pow_add_r by lia. replace (shift + (64 - shift)) with 64 by lia. exact HS64. }
      rewrite Z.mod_small by exact Hq. symmetry. apply Z.mod_small.
      assert (2 ^ (64 - shift) <= 2 ^ c) by (apply Z.pow_le_mono_r; lia). lia.
Qed.

(* the packed encoding of a signed digit (d >= 0: d itself; d < 0: (-d-1) | msb) is read
   back exactly by the chunk processor, for every digit in [-2^(c-1), 2^(c-1) - 1] *)
Definition encode_digit (c d : Z) : Z :=
  if d =? 0 then 0 else if 0 <=? d then d else Z.lor (- d - 1) (2 ^ (c - 1)).

Lemma lor_disjoint_add a n : 0 <= n -> 0 <= a < 2 ^ n -> Z.lor a (2 ^ n) = a + 2 ^ n.
Proof.
  intros Hn Ha.
  assert (Hland : Z.land a (2 ^ n) = 0).
  { apply Z.bits_inj'. intros m Hm. rewrite Z.land_spec, Z.bits_0.
    destruct (Z.eq_dec m n) as [->|Hne].
    - replace (Z.testbit a n) with false; [reflexivity|]. symmetry. apply Z.testbit_false; [lia|].
      rewrite Z.div_small by lia. reflexivity.
    - rewrite (Z.pow2_bits_false n m) by lia. apply andb_false_r. }
  rewrite <- Z.lxor_lor by exact Hland. symmetry. apply Z.add_nocarry_lxor, Hland.
Qed.

Theorem signed_digit_roundtrip c d : 2 <= c -> - 2 ^ (c - 1) <= d <= 2 ^ (c - 1) - 1 ->
  signed_of_bits c (encode_digit c d) = d /\ 0 <= encode_digit c d < 2 ^ c.
Proof.
  intros Hc Hd. pose proof (pow2_pos' (c - 1) ltac:(lia)) as Hh.
  assert (E2 : 2 ^ c = 2 * 2 ^ (c - 1)) by (replace c with (Z.succ (c - 1)) at 1 by lia; rewrite Z.pow_succ_r by lia; reflexivity).
  unfold encode_digit, signed_of_bits.
  destruct (Z.eqb_spec d 0) as [->|Hnz]; [cbn; split; [reflexivity|lia]|].
  destruct (Z.leb_spec 0 d) as [Hpos|Hneg].
  - (* positive: below half, msb clear *)
    destruct (Z.eqb_spec d 0); [lia|].
    assert (Hl : Z.land d (2 ^ (c - 1)) = 0).
    { apply Z.bits_inj'. intros m Hm. rewrite Z.land_spec, Z.bits_0.
      destruct (Z.eq_dec m (c - 1)) as [->|Hne].
      - replace (Z.testbit d (c - 1)) with false; [reflexivity|]. symmetry. apply Z.testbit_false; [lia|].
        rewrite Z.div_small by lia. reflexivity.
      - rewrite (Z.pow2_bits_false (c - 1) m) by lia. apply andb_false_r. }
    rewrite Hl. cbn [Z.eqb]. split; [reflexivity|lia].
  - (* negative: e = -d-1 in [0, half), encoded e + half *)
    set (e := - d - 1). assert (He : 0 <= e < 2 ^ (c - 1)) by (unfold e; lia).
    rewrite (lor_disjoint_add e (c - 1)) by lia.
    destruct (Z.eqb_spec (e + 2 ^ (c - 1)) 0); [lia|].
    assert (Hl : Z.land (e + 2 ^ (c - 1)) (2 ^ (c - 1)) <> 0).
    { rewrite <- (lor_disjoint_add e (c - 1)) by lia. rewrite Z.land_lor_distr_l, Z.land_diag.
      intros H0. apply Z.lor_eq_0_iff in H0. lia. }
    destruct (Z.eqb_spec (Z.land (e + 2 ^ (c - 1)) (2 ^ (c - 1))) 0); [contradiction|].
    split; [|lia].
    rewrite land_ones' by lia. rewrite Z.add_mod by lia. rewrite Z.mod_same by lia.
    rewrite Z.add_0_r, Z.mod_mod by lia. rewrite Z.mod_small by lia. unfold e. lia.
Qed.
