(* The concrete residue rings Zq satisfy FieldLaws: in particular the
   extended-Euclid inverse of the model returns an inverse whenever one exists
   (no primality needed). *)
From Coq Require Import ZArith List Bool Lia Znumtheory.
From GoIpa Require Import Model.Zq Model.Alg Model.FpSqrt Proofs.ZqProofs Proofs.AlgLaws.
Open Scope Z_scope.

Section Egcd.
  Variables (q a : Z).
  Hypothesis q_pos : 0 < q.

  Definition cong (x y : Z) : Prop := (x - y) mod q = 0.

  Lemma cong_step r0 r1 s0 s1 qt :
    cong r0 (s0 * a) -> cong r1 (s1 * a) -> cong (r0 - qt * r1) ((s0 - qt * s1) * a).
  Proof.
    unfold cong. intros H0 H1.
    apply Z.mod_divide in H0; [|lia]. apply Z.mod_divide in H1; [|lia].
    apply Z.mod_divide; [lia|].
    destruct H0 as [k0 H0], H1 as [k1 H1]. exists (k0 - qt * k1). lia.
  Qed.

  Lemma egcd_spec : forall k fuel r0 r1 s0 s1,
    0 <= r0 -> 0 <= r1 < 2 ^ Z.of_nat k -> (2 * k + 1 <= fuel)%nat ->
    cong r0 (s0 * a) -> cong r1 (s1 * a) ->
    let '(g, u) := egcd fuel r0 r1 s0 s1 in
    g = Z.gcd r0 r1 /\ cong g (u * a).
  Proof.
    induction k as [|k IH]; intros fuel r0 r1 s0 s1 Hr0 Hr1 Hf H0 H1.
    - assert (r1 = 0) by (cbn in Hr1; lia). subst r1.
      destruct fuel as [|f]; [lia|]. cbn [egcd]. cbn. rewrite Z.gcd_0_r, Z.abs_eq by lia. auto.
    - destruct fuel as [|f]; [lia|]. cbn [egcd].
      destruct (r1 =? 0) eqn:E1.
      + apply Z.eqb_eq in E1. subst r1. rewrite Z.gcd_0_r, Z.abs_eq by lia. auto.
      + apply Z.eqb_neq in E1.
        set (r2 := r0 - r0 / r1 * r1).
        assert (Hr2 : r2 = r0 mod r1) by (unfold r2; rewrite Z.mod_eq by lia; lia).
        assert (Hr2b : 0 <= r2 < r1) by (rewrite Hr2; apply Z.mod_pos_bound; lia).
        assert (Hg1 : Z.gcd r1 r2 = Z.gcd r0 r1).
        { rewrite Hr2. rewrite (Z.gcd_comm r1), Z.gcd_mod by lia. apply Z.gcd_comm. }
        pose proof (cong_step r0 r1 s0 s1 (r0 / r1) H0 H1) as H2. fold r2 in H2.
        destruct f as [|f]; [lia|]. cbn [egcd].
        destruct (r2 =? 0) eqn:E2.
        * apply Z.eqb_eq in E2. rewrite <- Hg1, E2, Z.gcd_0_r, Z.abs_eq by lia. auto.
        * apply Z.eqb_neq in E2.
          set (r3 := r1 - r1 / r2 * r2).
          assert (Hr3 : r3 = r1 mod r2) by (unfold r3; rewrite Z.mod_eq by lia; lia).
          assert (Hr3b : 0 <= r3 < r2) by (rewrite Hr3; apply Z.mod_pos_bound; lia).
          assert (Hq1 : 1 <= r1 / r2) by (apply Z.div_le_lower_bound; lia).
          assert (Hhalf : 2 * r3 < r1).
          { pose proof (Z.div_mod r1 r2 E2). nia. }
          assert (Hg2 : Z.gcd r2 r3 = Z.gcd r0 r1).
          { rewrite <- Hg1, Hr3. rewrite (Z.gcd_comm r2), Z.gcd_mod by lia. apply Z.gcd_comm. }
          pose proof (cong_step r1 r2 s1 (s0 - r0 / r1 * s1) (r1 / r2) H1 H2) as H3. fold r3 in H3.
          assert (Hb : 0 <= r3 < 2 ^ Z.of_nat k).
          { rewrite Nat2Z.inj_succ, Z.pow_succ_r in Hr1 by lia. lia. }
          specialize (IH f r2 r3 (s0 - r0 / r1 * s1) (s1 - r1 / r2 * (s0 - r0 / r1 * s1))
                         ltac:(lia) Hb ltac:(lia) H2 H3).
          destruct (egcd f r2 r3 _ _) as [g u]. rewrite <- Hg2. exact IH.
  Qed.
End Egcd.

Lemma inv_mod_correct q a b :
  1 < q -> q < 2 ^ 256 -> 0 <= a < q -> (a * b) mod q = 1 ->
  (a * @inv_mod q a) mod q = 1.
Proof.
  intros Hq Hq2 Ha Hab. unfold inv_mod.
  pose proof (egcd_spec q a ltac:(lia) 256 800 a q 1 0 ltac:(lia)) as H.
  assert (Hc0 : cong q a (1 * a)) by (unfold cong; replace (a - 1 * a) with 0 by lia; apply Z.mod_0_l; lia).
  assert (Hc1 : cong q q (0 * a)) by (unfold cong; replace (q - 0 * a) with q by lia; apply Z.mod_same; lia).
  specialize (H ltac:(change (Z.of_nat 256) with 256; lia) ltac:(lia) Hc0 Hc1).
  destruct (egcd 800 a q 1 0) as [g u]. destruct H as [Hg Hu].
  (* gcd a q = 1 because a is invertible mod q *)
  assert (Hgcd : Z.gcd a q = 1).
  { apply Zgcd_1_rel_prime. apply bezout_rel_prime.
    pose proof (Z.div_mod (a * b) q ltac:(lia)) as Hdm. rewrite Hab in Hdm.
    apply Bezout_intro with (u := b) (v := - ((a * b) / q)). lia. }
  rewrite Hg, Hgcd. cbn [Z.eqb Pos.eqb].
  unfold cong in Hu. rewrite Hg, Hgcd in Hu.
  rewrite Zmult_mod_idemp_r.
  apply Z.mod_divide in Hu; [|lia]. destruct Hu as [k Hk].
  replace (a * u) with (1 + (- k) * q) by lia.
  rewrite Z_mod_plus_full. apply Z.mod_small. lia.
Qed.

Lemma egcd_S f r0 r1 s0 s1 :
  egcd (S f) r0 r1 s0 s1 =
  if r1 =? 0 then (r0, s0) else egcd f r1 (r0 - r0 / r1 * r1) s1 (s0 - r0 / r1 * s1).
Proof. reflexivity. Qed.

Section ZqFieldLaws.
  Variable q : Z.
  Hypothesis q_gt1 : 1 < q.
  Hypothesis q_small : q < 2 ^ 256.

  Definition zqo : FOps (Zq q) :=
    mkFOps (Zq q) zq_zero zq_one zq_add zq_sub zq_mul zq_neg zq_inv zq_eqb (zq_of_Z q) zval.

  Lemma zq_inv_spec (x y : Zq q) : zq_mul x y = zq_one -> zq_mul x (zq_inv x) = zq_one.
  Proof.
    intros H. apply (f_equal zval) in H. unfold zq_mul, zq_one in H. rewrite !zval_of_Z in H.
    rewrite (Z.mod_small 1) in H by lia.
    apply zq_eq. unfold zq_mul, zq_inv, zq_one. rewrite !zval_of_Z, (Z.mod_small 1) by lia.
    rewrite Zmult_mod_idemp_r.
    apply (inv_mod_correct q (zval x) (zval y)); try lia; try exact H. apply zval_range; lia.
  Qed.

  Lemma zq_inv_0 : zq_inv (zq_zero : Zq q) = zq_zero.
  Proof.
    apply zq_eq. unfold zq_inv, zq_zero. rewrite !zval_of_Z, Z.mod_0_l by lia.
    unfold inv_mod. change 800%nat with (S (S 798)).
    rewrite egcd_S. assert (Hq0 : (q =? 0) = false) by (apply Z.eqb_neq; lia). rewrite Hq0.
    replace (0 / q) with 0 by (symmetry; apply Z.div_0_l; lia).
    rewrite egcd_S. replace (0 - 0 * q) with 0 by lia. rewrite Z.eqb_refl.
    assert (Hq1 : (q =? 1) = false) by (apply Z.eqb_neq; lia). rewrite Hq1. reflexivity.
  Qed.

  Theorem zq_field_laws : FieldLaws zqo.
  Proof.
    constructor; cbn.
    - apply zq_ring_theory, q_gt1.
    - intros x y. apply zq_eqb_eq.
    - apply zq_inv_spec.
    - apply zq_inv_0.
    - intros H. apply (f_equal zval) in H. unfold zq_one, zq_zero in H. rewrite !zval_of_Z in H.
      rewrite Z.mod_small, Z.mod_small in H by lia. discriminate.
  Qed.
End ZqFieldLaws.

Lemma p_small : p_mod < 2 ^ 256. Proof. reflexivity. Qed.
Lemma r_small : r_mod < 2 ^ 256. Proof. reflexivity. Qed.

Theorem fp_field_laws : FieldLaws fpo.
Proof. exact (zq_field_laws p_mod p_mod_gt1 p_small). Qed.
Theorem fr_field_laws : FieldLaws fro.
Proof. exact (zq_field_laws r_mod r_mod_gt1 r_small). Qed.

(* the integers act on the concrete scalar field through a ring morphism: the premises
   fofz_add / fofz_mul / fofz_1 of the C05 / C09 theorems hold for fro *)
Theorem fro_fofz_morphism :
  (forall a b, fofz fro (a + b) = fadd fro (fofz fro a) (fofz fro b))
  /\ (forall a b, fofz fro (a * b) = fmul fro (fofz fro a) (fofz fro b))
  /\ fofz fro 1 = f1 fro.
Proof.
  split; [|split].
  - intros a b. cbn [fofz fadd fro]. apply zq_eq. unfold fr, zq_add. rewrite !zval_of_Z. apply Zplus_mod.
  - intros a b. cbn [fofz fmul fro]. apply zq_eq. unfold fr, zq_mul. rewrite !zval_of_Z. apply Zmult_mod.
  - cbn [fofz f1 fro]. apply zq_eq. reflexivity.
Qed.
