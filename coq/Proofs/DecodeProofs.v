(* Untrusted point decoding (Element.setBytes / SetBytesUncompressed): exact acceptance
   conditions, re-encoding, absence of aliases. *)
From Coq Require Import ZArith List Bool Lia.
From GoIpa Require Import Model.Bytes Model.Zq Model.Alg Model.Edwards Model.FpSqrt Model.Banderwagon
  Proofs.AlgLaws Proofs.EdwardsProofs Proofs.GroupProofs Proofs.ZqProofs Proofs.ZqField
  Proofs.BytesProofs Proofs.CodecProofs Proofs.BwProofs.
Import ListNotations.
Open Scope Z_scope.

(* exact acceptance condition of the compressed decoder, as a decidable predicate *)
Definition accepts32 (b : list Z) (trusted : bool) : option element :=
  if len b =? 32 then
    if be_val b <? p_mod then
      match compute_y (fp (be_val b)) true with
      | Some y => if trusted || subgroup_check (fp (be_val b)) then Some (fp (be_val b), y, zq_one) else None
      | None => None
      end
    else None
  else None.

Theorem bw_set_bytes_accepts_iff b trusted P :
  bw_set_bytes b trusted = inl P <-> accepts32 b trusted = Some P.
Proof.
  unfold bw_set_bytes, accepts32, get_point_from_x.
  destruct (len b =? 32); cbn [negb]; [|split; discriminate].
  destruct (be_val b <? p_mod); cbn [negb]; [|split; discriminate].
  destruct (compute_y (fp (be_val b)) true) as [y|]; [|split; discriminate].
  destruct trusted; cbn [negb andb orb].
  - split; intros H; injection H as <-; reflexivity.
  - destruct (subgroup_check (fp (be_val b))); cbn [negb]; split; intros H; try discriminate; injection H as <-; reflexivity.
Qed.

(* every rejected input gets one of the listed errors; the decoder is total *)
Theorem bw_set_bytes_total b trusted :
  (exists P, bw_set_bytes b trusted = inl P) \/ (exists e, bw_set_bytes b trusted = inr e).
Proof. destruct (bw_set_bytes b trusted); eauto. Qed.

Theorem bw_set_bytes_rejects b :
  (len b <> 32 -> bw_set_bytes b false = inr ErrSize)
  /\ (len b = 32 -> p_mod <= be_val b -> bw_set_bytes b false = inr ErrNonCanonical)
  /\ (len b = 32 -> be_val b < p_mod -> compute_y (fp (be_val b)) true = None ->
      bw_set_bytes b false = inr ErrNotOnCurve)
  /\ (len b = 32 -> be_val b < p_mod -> compute_y (fp (be_val b)) true <> None ->
      subgroup_check (fp (be_val b)) = false -> bw_set_bytes b false = inr ErrSubgroup).
Proof.
  unfold bw_set_bytes, get_point_from_x. repeat split.
  - intros H. destruct (len b =? 32) eqn:E; [lia|reflexivity].
  - intros -> H. cbn [Z.eqb Pos.eqb negb]. destruct (be_val b <? p_mod) eqn:E; [lia|reflexivity].
  - intros -> H Hc. cbn [Z.eqb Pos.eqb negb]. destruct (be_val b <? p_mod) eqn:E; [|lia]. cbn [negb]. rewrite Hc. reflexivity.
  - intros -> H Hc Hs. cbn [Z.eqb Pos.eqb negb]. destruct (be_val b <? p_mod) eqn:E; [|lia]. cbn [negb].
    destruct (compute_y (fp (be_val b)) true); [|congruence]. rewrite Hs. reflexivity.
Qed.

(* the y chosen by computeY(x, true) is the lexicographically largest root (unless 0) *)
Lemma compute_y_largest x y : compute_y x true = Some y -> zval y <> 0 -> zq_lex_largest y = true.
Proof.
  unfold compute_y. destruct (sqrt_precomp _) as [s|]; [|discriminate].
  destruct (zq_lex_largest s) eqn:E; cbn [Bool.eqb].
  - intros H. injection H as <-. auto.
  - intros H Hy. injection H as <-.
    assert (Hs : zval s <> 0).
    { intros Hz. apply Hy. unfold zq_neg. rewrite zval_of_Z, Hz. reflexivity. }
    rewrite (lex_largest_neg s Hs), E. reflexivity.
Qed.

Lemma fp_bytes_of_val b : bytes_ok b -> length b = 32%nat -> be_val b < p_mod ->
  fp_bytes (fp (be_val b)) = b.
Proof.
  intros Hok Hl Hlt. unfold fp_bytes, fp. rewrite zval_of_Z.
  pose proof (be_val_nonneg b Hok). rewrite Z.mod_small by lia.
  rewrite <- Hl. apply be_enc_val, Hok.
Qed.

(* accepted input re-encodes to exactly the same bytes *)
Theorem bw_set_bytes_reencode b trusted X Y Z :
  bytes_ok b -> bw_set_bytes b trusted = inl (X, Y, Z) -> zval Y <> 0 -> bw_bytes (X, Y, Z) = b.
Proof.
  intros Hok H Hy. apply bw_set_bytes_accepts_iff in H. unfold accepts32 in H.
  destruct (len b =? 32) eqn:El; [|discriminate].
  destruct (be_val b <? p_mod) eqn:Ev; [|discriminate].
  destruct (compute_y (fp (be_val b)) true) as [y|] eqn:Ey; [|discriminate].
  destruct (trusted || subgroup_check _); [|discriminate].
  injection H as <- <- <-.
  unfold bw_bytes, bw_affine. rewrite (proj2 (fp_eqb_eq zq_one zq_one) eq_refl).
  rewrite (compute_y_largest _ _ Ey Hy).
  apply fp_bytes_of_val; [exact Hok|unfold len in El; lia|lia].
Qed.

(* hence no element has two accepted encodings: strings decoding to the same
   element are identical *)
Corollary bw_set_bytes_injective b1 b2 X Y Z :
  bytes_ok b1 -> bytes_ok b2 -> zval Y <> 0 ->
  bw_set_bytes b1 false = inl (X, Y, Z) -> bw_set_bytes b2 false = inl (X, Y, Z) -> b1 = b2.
Proof.
  intros H1 H2 Hy E1 E2.
  rewrite <- (bw_set_bytes_reencode b1 false X Y Z H1 E1 Hy).
  exact (bw_set_bytes_reencode b2 false X Y Z H2 E2 Hy).
Qed.

(* decoded element: Z = 1, x = the encoded integer, passes the subgroup predicate *)
Theorem bw_set_bytes_result b X Y Z :
  bw_set_bytes b false = inl (X, Y, Z) ->
  Z = zq_one /\ X = fp (be_val b) /\ be_val b < p_mod /\ len b = 32
  /\ subgroup_check X = true /\ compute_y X true = Some Y.
Proof.
  intros H. apply bw_set_bytes_accepts_iff in H. unfold accepts32 in H.
  destruct (len b =? 32) eqn:El; [|discriminate].
  destruct (be_val b <? p_mod) eqn:Ev; [|discriminate].
  destruct (compute_y (fp (be_val b)) true) as [y|] eqn:Ey; [|discriminate].
  destruct (subgroup_check _) eqn:Es; [|discriminate]. cbn [orb] in H.
  assert (HX : X = fp (be_val b)) by congruence. assert (HY : Y = y) by congruence.
  assert (HZ : Z = zq_one) by congruence. subst X Y Z. clear H.
  apply Z.ltb_lt in Ev. apply Z.eqb_eq in El.
  exact (conj eq_refl (conj eq_refl (conj Ev (conj El (conj Es Ey))))).
Qed.

(* ---- uncompressed, untrusted ---- *)
Definition accepts64 (b : list Z) : option element :=
  if len b =? 64 then
    let xb := firstn 32 b in let yb := skipn 32 b in
    if be_val xb <? p_mod then
      match compute_y (fp (be_val xb)) true with
      | Some y => if list_eqb (fp_bytes y) yb && subgroup_check (fp (be_val xb))
                  then Some (fp (be_val xb), y, zq_one) else None
      | None => None
      end
    else None
  else None.

Theorem bw_set_bytes_uncompressed_accepts_iff b P :
  bw_set_bytes_uncompressed true b false = inl P <-> accepts64 b = Some P.
Proof.
  unfold bw_set_bytes_uncompressed, accepts64, get_point_from_x.
  destruct (len b =? 64); cbn [negb]; [|split; discriminate].
  cbn [andb negb]. destruct (be_val (firstn 32 b) <? p_mod); cbn [negb]; [|split; discriminate].
  destruct (compute_y (fp (be_val (firstn 32 b))) true) as [y|]; [|split; discriminate].
  destruct (list_eqb (fp_bytes y) (skipn 32 b)); cbn [negb andb]; [|split; discriminate].
  destruct (subgroup_check _); cbn [negb]; split; intros H; try discriminate; injection H as <-; reflexivity.
Qed.

Theorem bw_set_bytes_uncompressed_reencode b X Y Z :
  bytes_ok b -> bw_set_bytes_uncompressed true b false = inl (X, Y, Z) ->
  bw_bytes_uncompressed (X, Y, Z) = b.
Proof.
  intros Hok H. apply bw_set_bytes_uncompressed_accepts_iff in H. unfold accepts64 in H.
  destruct (len b =? 64) eqn:El; [|discriminate]. cbv zeta in H.
  destruct (be_val (firstn 32 b) <? p_mod) eqn:Ev; [|discriminate].
  destruct (compute_y _ true) as [y|] eqn:Ey; [|discriminate].
  destruct (subgroup_check _); [|destruct (list_eqb _ _); discriminate].
  destruct (list_eqb (fp_bytes y) (skipn 32 b)) eqn:Eb; cbn [andb] in H; [|discriminate].
  assert (HX : X = fp (be_val (firstn 32 b))) by congruence. assert (HY : Y = y) by congruence.
  assert (HZ : Z = zq_one) by congruence. subst X Y Z. clear H.
  apply list_eqb_eq in Eb.
  unfold bw_bytes_uncompressed. cbn [p_to_affine]. zqf. rewrite fp_inv_one.
  assert (M1 : forall a : Zq p_mod, zq_mul a zq_one = a) by (intros a; ring).
  rewrite !M1.
  rewrite Eb. rewrite fp_bytes_of_val.
  - apply firstn_skipn.
  - apply bytes_ok_firstn. exact Hok.
  - rewrite firstn_length. unfold len in El. lia.
  - lia.
Qed.

(* finding F2 (repaired): the pinned decoder parsed x with the reducing SetBytes, so
   x + p (same y) was accepted as a second encoding of the same element.
   One shared computation (vm_compute), then a symbolic unpacking. *)
Definition f2_check :=
  match compute_y bw_gen_x true return bool with
  | None => false
  | Some y =>
      let b := be_enc 32 (zval bw_gen_x + p_mod) ++ fp_bytes y in
      match bw_set_bytes_uncompressed false b false return bool with
      | inl P =>
          match bw_set_bytes_uncompressed true b false return bool with
          | inr ErrNonCanonical =>
              (len b =? 64) && (p_mod <=? be_val (firstn 32 b)) && negb (list_eqb (bw_bytes_uncompressed P) b)
          | _ => false
          end
      | inr _ => false
      end
  end.

Lemma f2_check_true : f2_check = true.
Proof. vm_compute. reflexivity. Qed.

