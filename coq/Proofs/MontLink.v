(* Links between the three levels of the scalar-field model:
   limb level (Model/Mont.v, the _generic functions)  =  integer level on Montgomery
   representatives (the i_ functions)  ->  arithmetic of canonical residues mod r
   (from_mont is a ring isomorphism onto Z/r). *)
From Coq Require Import ZArith Lia List Bool ZifyBool Znumtheory.
From GoIpa Require Import Model.Zq Model.Mont Proofs.MontProofs Proofs.ZqProofs Proofs.ZqField.
Open Scope Z_scope.

Lemma qmod_is_r : qmod = r_mod. Proof. reflexivity. Qed.

Lemma Rinv_spec : (Rm * Rinv) mod qmod = 1.
Proof. vm_compute. reflexivity. Qed.

Lemma Rinv_range : 0 <= Rinv < qmod.
Proof. vm_compute. split; [discriminate|reflexivity]. Qed.

Lemma lval_nonneg z : limbs_ok z -> 0 <= lval z.
Proof. intros H. pose proof (lval_bounds z H). lia. Qed.

(* z * R = w (mod q)  ->  z = w * Rinv (mod q) *)
Lemma mont_cancel z w :
  (z * Rm) mod qmod = w mod qmod -> z mod qmod = (w * Rinv) mod qmod.
Proof.
  intros H. pose proof qmod_pos as Hq.
  rewrite <- (Z.mul_mod_idemp_l w) by lia. rewrite <- H.
  rewrite Z.mul_mod_idemp_l by lia.
  replace (z * Rm * Rinv) with (z * (Rm * Rinv)) by ring.
  rewrite <- Z.mul_mod_idemp_r by lia. rewrite Rinv_spec. f_equal. ring.
Qed.

(* ---- limb level = integer level, for all inputs ---- *)
Theorem mul_generic_eq_i_mul x y :
  limbs_ok x -> limbs_ok y -> lval x < qmod -> lval y < qmod ->
  limbs_ok (mul_generic x y) /\ lval (mul_generic x y) = i_mul (lval x) (lval y).
Proof.
  intros Hx Hy Lx Ly. destruct (mul_generic_correct x y Hx Hy Lx Ly) as (Hok & Hlt & Heq).
  split; [exact Hok|]. unfold i_mul.
  change (2 ^ 256) with Rm in Heq.
  rewrite <- (mont_cancel _ _ Heq). symmetry. apply Z.mod_small.
  split; [apply lval_nonneg, Hok|exact Hlt].
Qed.

Theorem from_mont_generic_eq_i z :
  limbs_ok z -> lval z < qmod ->
  limbs_ok (from_mont_generic z) /\ lval (from_mont_generic z) = i_from_mont (lval z).
Proof.
  intros Hz Lz. destruct (from_mont_generic_correct z Hz Lz) as (Hok & Hlt & Heq).
  split; [exact Hok|]. unfold i_from_mont.
  change (2 ^ 256) with Rm in Heq.
  rewrite <- (mont_cancel _ _ Heq). symmetry. apply Z.mod_small.
  split; [apply lval_nonneg, Hok|exact Hlt].
Qed.

Theorem add_generic_eq_i x y :
  limbs_ok x -> limbs_ok y -> lval x < qmod -> lval y < qmod ->
  limbs_ok (add_generic x y) /\ lval (add_generic x y) = i_add (lval x) (lval y).
Proof. exact (add_generic_correct x y). Qed.

Theorem sub_generic_eq_i x y :
  limbs_ok x -> limbs_ok y -> lval x < qmod -> lval y < qmod ->
  limbs_ok (sub_generic x y) /\ lval (sub_generic x y) = i_sub (lval x) (lval y).
Proof. exact (sub_generic_correct x y). Qed.

Theorem neg_generic_eq_i x :
  limbs_ok x -> lval x < qmod ->
  limbs_ok (neg_generic x) /\ lval (neg_generic x) = i_neg (lval x).
Proof. exact (neg_generic_correct x). Qed.

Theorem double_generic_eq_i x :
  limbs_ok x -> lval x < qmod ->
  limbs_ok (double_generic x) /\ lval (double_generic x) = i_double (lval x).
Proof. exact (double_generic_correct x). Qed.

Theorem butterfly_generic_eq_i a b :
  limbs_ok a -> limbs_ok b -> lval a < qmod -> lval b < qmod ->
  lval (fst (butterfly_generic a b)) = i_add (lval a) (lval b)
  /\ lval (snd (butterfly_generic a b)) = i_sub (lval a) (lval b).
Proof.
  intros Ha Hb La Lb. unfold butterfly_generic; cbn [fst snd].
  split; [apply add_generic_correct|apply sub_generic_correct]; assumption.
Qed.

(* results are always fully reduced *)
Lemma i_mod_range a : 0 <= a mod qmod < qmod.
Proof. apply Z.mod_pos_bound, qmod_pos. Qed.

(* ---- integer level on Montgomery representatives = arithmetic mod r ----
   fm x := i_from_mont x is the value represented by x. *)
Local Notation fm := i_from_mont.

Lemma fm_to_mont a : fm (i_to_mont a) = a mod qmod.
Proof.
  unfold i_from_mont, i_to_mont. pose proof qmod_pos.
  rewrite Z.mul_mod_idemp_l by lia.
  replace (a * Rm * Rinv) with (a * (Rm * Rinv)) by ring.
  rewrite <- Z.mul_mod_idemp_r by lia. rewrite Rinv_spec. f_equal; ring.
Qed.

Lemma to_mont_fm x : 0 <= x < qmod -> i_to_mont (fm x) = x.
Proof.
  intros Hx. unfold i_from_mont, i_to_mont. pose proof qmod_pos.
  rewrite Z.mul_mod_idemp_l by lia.
  replace (x * Rinv * Rm) with (x * (Rm * Rinv)) by ring.
  rewrite <- Z.mul_mod_idemp_r by lia. rewrite Rinv_spec, Z.mul_1_r. apply Z.mod_small; lia.
Qed.

Lemma fm_add x y : fm (i_add x y) = (fm x + fm y) mod qmod.
Proof.
  unfold i_from_mont, i_add. pose proof qmod_pos.
  rewrite Z.mul_mod_idemp_l by lia. rewrite <- Z.add_mod by lia. f_equal; ring.
Qed.

Lemma fm_sub x y : fm (i_sub x y) = (fm x - fm y) mod qmod.
Proof.
  unfold i_from_mont, i_sub. pose proof qmod_pos.
  rewrite Z.mul_mod_idemp_l by lia. rewrite <- Zminus_mod by lia. f_equal; ring.
Qed.

Lemma fm_neg x : fm (i_neg x) = (- fm x) mod qmod.
Proof.
  unfold i_from_mont, i_neg. pose proof qmod_pos.
  rewrite Z.mul_mod_idemp_l by lia.
  replace (- ((x * Rinv) mod qmod)) with (0 - (x * Rinv) mod qmod) by ring.
  rewrite Zminus_mod_idemp_r. f_equal; ring.
Qed.

Lemma fm_double x : fm (i_double x) = (2 * fm x) mod qmod.
Proof.
  unfold i_from_mont, i_double. pose proof qmod_pos.
  rewrite Z.mul_mod_idemp_l by lia. rewrite Z.mul_mod_idemp_r by lia. f_equal; ring.
Qed.

Lemma fm_mul x y : fm (i_mul x y) = (fm x * fm y) mod qmod.
Proof.
  unfold i_from_mont, i_mul. pose proof qmod_pos.
  rewrite Z.mul_mod_idemp_l by lia. rewrite <- Z.mul_mod by lia. f_equal; ring.
Qed.

Lemma fm_one : fm i_one = 1.
Proof. vm_compute. reflexivity. Qed.

Lemma fm_zero : fm 0 = 0.
Proof. reflexivity. Qed.

Lemma fm_range x : 0 <= fm x < qmod.
Proof. apply i_mod_range. Qed.

Lemma fm_inj x y : 0 <= x < qmod -> 0 <= y < qmod -> fm x = fm y -> x = y.
Proof. intros Hx Hy H. rewrite <- (to_mont_fm x Hx), <- (to_mont_fm y Hy), H. reflexivity. Qed.

(* Exp: square-and-multiply = power of the represented value, every exponent *)
Lemma fm_pow_pos x p : fm (i_pow_pos x p) = (fm x ^ Zpos p) mod qmod.
Proof.
  pose proof qmod_pos as Hq.
  induction p as [p IH|p IH|]; cbn [i_pow_pos].
  - rewrite !fm_mul, IH. rewrite <- Z.mul_mod by lia. rewrite Z.mul_mod_idemp_l by lia. f_equal.
    rewrite Pos2Z.inj_xI.
    replace (2 * Z.pos p + 1) with (Z.pos p + Z.pos p + 1) by lia.
    rewrite !Z.pow_add_r by lia. rewrite Z.pow_1_r. ring.
  - rewrite fm_mul, IH. rewrite <- Z.mul_mod by lia. f_equal.
    rewrite Pos2Z.inj_xO. rewrite <- Z.pow_add_r by lia. f_equal; lia.
  - rewrite Z.pow_1_r. symmetry. apply Z.mod_small, fm_range.
Qed.

Theorem fm_exp x e : 0 <= e -> fm (i_exp x e) = (fm x ^ e) mod qmod.
Proof.
  intros He. destruct e as [|p|p]; cbn [i_exp].
  - rewrite fm_one. reflexivity.
  - apply fm_pow_pos.
  - lia.
Qed.

(* Inverse: the model's egcd_m is the same function as Zq.egcd *)
Lemma egcd_m_eq f : forall r0 r1 s0 s1, egcd_m f r0 r1 s0 s1 = egcd f r0 r1 s0 s1.
Proof. induction f as [|f IH]; intros; cbn [egcd_m egcd]; [reflexivity|]. destruct (r1 =? 0); auto. Qed.

Lemma inv_q_eq a : inv_q a = @inv_mod qmod (a mod qmod).
Proof. unfold inv_q, inv_mod. rewrite egcd_m_eq. reflexivity. Qed.

Lemma qmod_small : qmod < 2 ^ 256. Proof. reflexivity. Qed.
Lemma qmod_gt1 : 1 < qmod. Proof. reflexivity. Qed.

Lemma RR_spec : ((Rm * Rm) mod qmod * (Rinv * Rinv)) mod qmod = 1.
Proof. vm_compute. reflexivity. Qed.

Lemma inverse_algebra q x A B C b :
  0 < q -> (x * C mod q * b) mod q = 1 ->
  (forall b', (x mod q * b') mod q = 1 -> (x mod q * A) mod q = 1) ->
  (B * (C * C)) mod q = 1 ->
  ((x * C) mod q * ((A * B) mod q * C mod q)) mod q = 1.
Proof.
  intros Hq Hb Hinv HR.
  assert (Hx : (x mod q * (C * b)) mod q = 1).
  { rewrite Z.mul_mod_idemp_l by lia. rewrite Z.mul_mod_idemp_l in Hb by lia.
    rewrite <- Hb. f_equal; ring. }
  specialize (Hinv _ Hx). rewrite Z.mul_mod_idemp_l in Hinv by lia.
  rewrite Z.mul_mod_idemp_l by lia. rewrite Z.mul_mod_idemp_r by lia.
  replace (x * C * ((A * B) mod q * C)) with ((A * B) mod q * (x * C * C)) by ring.
  rewrite Z.mul_mod_idemp_l by lia.
  replace (A * B * (x * C * C)) with ((x * A) * (B * (C * C))) by ring.
  rewrite Z.mul_mod by lia. rewrite Hinv, HR.
  assert (q <> 1) by (intros ->; rewrite Z.mod_1_r in HR; discriminate).
  rewrite Z.mul_1_l. apply Z.mod_small; lia.
Qed.

(* whenever the represented value has an inverse b, Inverse returns the representative of an inverse *)
Theorem fm_inverse x b :
  (fm x * b) mod qmod = 1 -> (fm x * fm (i_inverse x)) mod qmod = 1.
Proof.
  intros Hb. unfold i_from_mont, i_inverse in *.
  apply (inverse_algebra qmod x (inv_q x) ((Rm * Rm) mod qmod) Rinv b qmod_pos Hb); [|exact RR_spec].
  intros b' Hb'. rewrite inv_q_eq.
  exact (inv_mod_correct qmod (x mod qmod) b' qmod_gt1 qmod_small (i_mod_range x) Hb').
Qed.

Theorem i_inverse_zero : i_inverse 0 = 0.
Proof. vm_compute. reflexivity. Qed.

(* comparison and "lexicographically largest" are on the represented values *)
Theorem i_cmp_spec x y :
  i_cmp x y = (if fm x <? fm y then -1 else if fm y <? fm x then 1 else 0).
Proof. reflexivity. Qed.

Theorem i_lex_largest_spec x : i_lex_largest x = ((qmod - 1) / 2 <? fm x).
Proof. reflexivity. Qed.

(* small-constant multiplications *)
Theorem fm_mul_by c x : 0 <= c -> fm (i_mul_by c x) = (c * fm x) mod qmod.
Proof.
  intros Hc. pose proof qmod_pos as Hq. unfold i_mul_by.
  destruct (c =? 3) eqn:E3; [apply Z.eqb_eq in E3; subst c|].
  { rewrite fm_add, fm_double. rewrite Z.add_mod_idemp_l by lia. f_equal; ring. }
  destruct (c =? 5) eqn:E5; [apply Z.eqb_eq in E5; subst c|].
  { rewrite fm_add, !fm_double. rewrite Z.mul_mod_idemp_r by lia.
    rewrite Z.add_mod_idemp_l by lia. f_equal; ring. }
  rewrite fm_mul, fm_to_mont. rewrite Z.mul_mod_idemp_r by lia. f_equal; ring.
Qed.

(* ---- Sqrt (Tonelli-Shanks as coded): every returned root squares to the input ---- *)
Lemma order_log_ge f : forall t m, m <= order_log f t m.
Proof.
  induction f as [|f IH]; intros t m; cbn [order_log]; [lia|].
  destruct (t =? i_one); [lia|]. specialize (IH (i_mul t t) (m + 1)). lia.
Qed.

Lemma order_log_zero f b : order_log (S f) b 0 = 0 -> b = i_one.
Proof.
  cbn [order_log]. destruct (b =? i_one) eqn:E; [intros _; apply Z.eqb_eq, E|].
  intros H. pose proof (order_log_ge f (i_mul b b) (0 + 1)). lia.
Qed.

Lemma order_log70_zero b : order_log 70 b 0 = 0 -> b = i_one.
Proof. exact (order_log_zero 69 b). Qed.

Lemma sqrt_step_invariant x y b t :
  (fm y * fm y) mod qmod = (fm x * fm b) mod qmod ->
  (fm (i_mul y t) * fm (i_mul y t)) mod qmod = (fm x * fm (i_mul b (i_mul t t))) mod qmod.
Proof.
  intros Hinv. pose proof qmod_pos as Hq. rewrite !fm_mul.
  rewrite <- (Z.mul_mod (fm y * fm t) (fm y * fm t)) by lia.
  replace (fm y * fm t * (fm y * fm t)) with ((fm y * fm y) * (fm t * fm t)) by ring.
  rewrite (Z.mul_mod (fm y * fm y)), Hinv by lia.
  rewrite <- (Z.mul_mod (fm x * fm b) (fm t * fm t)) by lia.
  rewrite (Z.mul_mod_idemp_r (fm x)) by lia.
  replace (fm x * (fm b * ((fm t * fm t) mod qmod))) with ((fm x * fm b) * ((fm t * fm t) mod qmod)) by ring.
  rewrite Z.mul_mod_idemp_r by lia. reflexivity.
Qed.

Lemma sqrt_loop_S fuel y b g r :
  sqrt_loop (S fuel) y b g r =
  (let m := order_log 70 b 0 in
   if m =? 0 then Some y
   else let t := i_sqn g (Z.to_nat (r - m - 1)) in
        sqrt_loop fuel (i_mul y t) (i_mul b (i_mul t t)) (i_mul t t) m).
Proof. reflexivity. Qed.

Lemma sqrt_loop_sound x fuel : forall y b g r y',
  (fm y * fm y) mod qmod = (fm x * fm b) mod qmod ->
  sqrt_loop fuel y b g r = Some y' ->
  (fm y' * fm y') mod qmod = fm x.
Proof.
  pose proof qmod_pos as Hq.
  induction fuel as [|fuel IH]; intros y b g r y' Hinv H; [discriminate|].
  rewrite sqrt_loop_S in H. cbv zeta in H.
  remember (order_log 70 b 0) as m eqn:Hm.
  destruct (m =? 0) eqn:Em.
  - assert (y' = y) by congruence. subst y'. apply Z.eqb_eq in Em. rewrite Em in Hm. symmetry in Hm.
    apply order_log70_zero in Hm. subst b.
    rewrite Hinv, fm_one, Z.mul_1_r. apply Z.mod_small, fm_range.
  - eapply IH; [|exact H]. apply sqrt_step_invariant, Hinv.
Qed.

(* Sqrt on Montgomery representatives: in the branch that runs the loop (b^16 = 1) the
   returned root squares to the input, for EVERY input; the zero branch returns 0.
   The exponentiation w = x^s is kept abstract in the core lemma (the kernel must never
   unfold the 250-bit square-and-multiply on a symbolic x). *)
Definition i_sqrt_core (x w : Z) : option Z :=
  let y := i_mul x w in
  let b := i_mul w y in
  let t := i_sqn b 4 in
  if t =? 0 then Some 0
  else if negb (t =? i_one) then None
  else sqrt_loop 10 y b sqrt_g 5.

Lemma i_sqrt_unfold x : i_sqrt x = i_sqrt_core x (i_exp x sqrt_s_exp).
Proof. unfold i_sqrt, i_sqrt_core. cbv zeta. reflexivity. Qed.

Lemma i_sqrt_core_sound x w y :
  i_sqrt_core x w = Some y ->
  (fm y * fm y) mod qmod = fm x \/ (y = 0 /\ i_sqn (i_mul w (i_mul x w)) 4 = 0).
Proof.
  pose proof qmod_pos as Hq. unfold i_sqrt_core. cbv zeta.
  destruct (i_sqn (i_mul w (i_mul x w)) 4 =? 0) eqn:E0.
  - intros H. assert (y = 0) by congruence. right. split; [assumption|apply Z.eqb_eq, E0].
  - destruct (i_sqn (i_mul w (i_mul x w)) 4 =? i_one); cbn [negb]; [|discriminate].
    intros H. left. apply (sqrt_loop_sound x 10 (i_mul x w) (i_mul w (i_mul x w)) sqrt_g 5 y); [|exact H].
    rewrite !fm_mul.
    rewrite <- (Z.mul_mod (fm x * fm w) (fm x * fm w)) by lia.
    rewrite (Z.mul_mod_idemp_r (fm x)) by lia.
    replace (fm x * (fm w * ((fm x * fm w) mod qmod))) with ((fm x * fm w) * ((fm x * fm w) mod qmod)) by ring.
    rewrite Z.mul_mod_idemp_r by lia. reflexivity.
Qed.

Theorem i_sqrt_sound x y :
  i_sqrt x = Some y ->
  (fm y * fm y) mod qmod = fm x
  \/ (y = 0 /\ i_sqn (i_mul (i_exp x sqrt_s_exp) (i_mul x (i_exp x sqrt_s_exp))) 4 = 0).
Proof. rewrite i_sqrt_unfold. apply i_sqrt_core_sound. Qed.
