(* Laws assumed of the abstract field / group operation records in the
   protocol-level theorems (they appear as explicit premises of the closed
   theorems), and generic consequences. *)
From Coq Require Import ZArith List Bool Lia Ring Setoid.
From GoIpa Require Import Model.Alg.
Import ListNotations.

Record FieldLaws {F : Type} (fo : FOps F) : Prop := mkFieldLaws {
  fl_ring : ring_theory (f0 fo) (f1 fo) (fadd fo) (fmul fo) (fsub fo) (fneg fo) eq;
  fl_eqb : forall x y, feqb fo x y = true <-> x = y;
  (* finv returns an inverse whenever one exists, and inv 0 = 0 *)
  fl_inv : forall x y, fmul fo x y = f1 fo -> fmul fo x (finv fo x) = f1 fo;
  fl_inv0 : finv fo (f0 fo) = f0 fo;
  fl_nontrivial : f1 fo <> f0 fo
}.

Record GroupLaws {F G : Type} (fo : FOps F) (go : GOps F G) : Prop := mkGroupLaws {
  gl_assoc : forall a b c, gadd go a (gadd go b c) = gadd go (gadd go a b) c;
  gl_comm : forall a b, gadd go a b = gadd go b a;
  gl_id : forall a, gadd go (g0 go) a = a;
  gl_inv : forall a, gadd go a (gneg go a) = g0 go;
  gl_mul_add_l : forall s t p, gmul go (fadd fo s t) p = gadd go (gmul go s p) (gmul go t p);
  gl_mul_add_r : forall s p q, gmul go s (gadd go p q) = gadd go (gmul go s p) (gmul go s q);
  gl_mul_mul : forall s t p, gmul go (fmul fo s t) p = gmul go s (gmul go t p);
  gl_mul_1 : forall p, gmul go (f1 fo) p = p
}.

Section FieldFacts.
  Context {F : Type} (fo : FOps F) (FL : FieldLaws fo).
  Local Notation "0" := (f0 fo).
  Local Notation "1" := (f1 fo).
  Local Infix "+" := (fadd fo).
  Local Infix "*" := (fmul fo).
  Local Infix "-" := (fsub fo).
  Local Notation "- x" := (fneg fo x).

  Add Ring Fring : (fl_ring fo FL).

  Definition invertible (x : F) : Prop := exists y, x * y = 1.

  Lemma finv_r x : invertible x -> x * finv fo x = 1.
  Proof. intros [y Hy]. eapply fl_inv; eauto. Qed.
  Lemma finv_l x : invertible x -> finv fo x * x = 1.
  Proof. intros H. rewrite <- (finv_r x H). ring. Qed.

  Lemma inverse_unique x a b : x * a = 1 -> x * b = 1 -> a = b.
  Proof.
    intros Ha Hb. transitivity (a * (x * b)); [rewrite Hb; ring|].
    transitivity ((x * a) * b); [ring|rewrite Ha; ring].
  Qed.

  Lemma invertible_mul x y : invertible x -> invertible y -> invertible (x * y).
  Proof.
    intros [a Ha] [b Hb]. exists (a * b).
    transitivity ((x * a) * (y * b)); [ring|rewrite Ha, Hb; ring].
  Qed.
  Lemma invertible_1 : invertible 1.
  Proof. exists 1. ring. Qed.
  Lemma invertible_nonzero x : invertible x -> x <> 0.
  Proof.
    intros [y Hy] ->. apply (fl_nontrivial fo FL). rewrite <- Hy. ring.
  Qed.
  Lemma finv_mul x y : invertible x -> invertible y -> finv fo (x * y) = finv fo x * finv fo y.
  Proof.
    intros Hx Hy. apply (inverse_unique (x * y)).
    - apply finv_r, invertible_mul; assumption.
    - transitivity ((x * finv fo x) * (y * finv fo y)); [ring|].
      rewrite (finv_r x Hx), (finv_r y Hy). ring.
  Qed.
  Lemma finv_invertible x : invertible x -> invertible (finv fo x).
  Proof. intros H. exists x. apply finv_l, H. Qed.

  Lemma feqb_refl x : feqb fo x x = true.
  Proof. now apply (fl_eqb fo FL). Qed.
  Lemma feqb_false x y : feqb fo x y = false <-> x <> y.
  Proof.
    split.
    - intros H E. apply (fl_eqb fo FL) in E. congruence.
    - intros H. destruct (feqb fo x y) eqn:E; [|reflexivity]. apply (fl_eqb fo FL) in E. contradiction.
  Qed.
End FieldFacts.

(* ---- Montgomery batch inversion with zero skipping ---- *)
From GoIpa Require Import Model.Banderwagon.

Section BatchInvert.
  Context {F : Type} (fo : FOps F) (FL : FieldLaws fo).
  Local Notation "0" := (f0 fo).
  Local Notation "1" := (f1 fo).
  Local Infix "*" := (fmul fo).
  Add Ring Fring2 : (fl_ring fo FL).

  (* product of the non-zero entries *)
  Fixpoint prod_nz (l : list F) : F :=
    match l with
    | [] => 1
    | x :: l' => if feqb fo x 0 then prod_nz l' else x * prod_nz l'
    end.

  Definition inv0 (x : F) : F := if feqb fo x 0 then 0 else finv fo x.

  Definition all_nz_invertible (l : list F) : Prop :=
    Forall (fun x => x <> 0 -> invertible fo x) l.

  Lemma prod_nz_invertible l : all_nz_invertible l -> invertible fo (prod_nz l).
  Proof.
    induction 1 as [|x l Hx Hl IH]; cbn [prod_nz]; [apply invertible_1, FL|].
    destruct (feqb fo x 0) eqn:E; [exact IH|].
    apply invertible_mul; [exact FL|apply Hx; now apply (feqb_false fo FL)|exact IH].
  Qed.

  Lemma bi_forward_spec l : forall acc,
    snd (bi_forward fo acc l) = acc * prod_nz l /\ length (fst (bi_forward fo acc l)) = length l.
  Proof.
    induction l as [|x l IH]; intros acc; cbn [bi_forward prod_nz].
    - cbn. split; [ring|reflexivity].
    - destruct (feqb fo x 0) eqn:E.
      + specialize (IH acc). destruct (bi_forward fo acc l) as [r a]; cbn in *.
        destruct IH as [-> ->]. auto.
      + specialize (IH (acc * x)). destruct (bi_forward fo (acc * x) l) as [r a]; cbn in *.
        destruct IH as [-> ->]. split; [ring|reflexivity].
  Qed.

  (* forward list: entry i = acc * (product of non-zero entries before i), 0 at zero entries *)
  Fixpoint prefixes (acc : F) (l : list F) : list F :=
    match l with
    | [] => []
    | x :: l' => if feqb fo x 0 then 0 :: prefixes acc l' else acc :: prefixes (acc * x) l'
    end.
  Lemma bi_forward_fst l : forall acc, fst (bi_forward fo acc l) = prefixes acc l.
  Proof.
    induction l as [|x l IH]; intros acc; cbn [bi_forward prefixes]; [reflexivity|].
    destruct (feqb fo x 0).
    - specialize (IH acc). destruct (bi_forward fo acc l); cbn in *. now rewrite IH.
    - specialize (IH (acc * x)). destruct (bi_forward fo (acc * x) l); cbn in *. now rewrite IH.
  Qed.

  (* backward pass written over the lists in original order: suffix accumulator *)
  Fixpoint backward_spec (accinv : F) (l pre : list F) : list F * F :=
    (* returns results in original order and the accumulator after processing l from the right *)
    match l, pre with
    | x :: l', p :: pre' =>
        let '(rs, a) := backward_spec accinv l' pre' in
        if feqb fo x 0 then (0 :: rs, a) else (p * a :: rs, a * x)
    | _, _ => ([], accinv)
    end.

  Lemma bi_backward_rev l : forall pre accinv, length pre = length l ->
    rev (bi_backward fo accinv (rev l) (rev pre)) = fst (backward_spec accinv l pre).
  Proof.
    (* induction from the right *)
    induction l as [|x l IH] using rev_ind; intros pre accinv Hlen.
    - destruct pre; [reflexivity|discriminate].
    - destruct pre as [|p pre _] using rev_ind; [rewrite app_length in Hlen; cbn in Hlen; lia|].
      rewrite !app_length in Hlen; cbn in Hlen.
      assert (Hl : length pre = length l) by lia.
      rewrite !rev_app_distr. cbn [rev app bi_backward].
      (* relate backward_spec on l ++ [x] *)
      assert (Hgen : forall l0 pre0 ai, length pre0 = length l0 ->
                backward_spec ai (l0 ++ [x]) (pre0 ++ [p]) =
                (let a1 := if feqb fo x 0 then ai else ai * x in
                 let '(rs, a) := backward_spec a1 l0 pre0 in
                 (rs ++ [if feqb fo x 0 then 0 else p * ai], a))).
      { clear. induction l0 as [|y l0 IHl]; intros [|q pre0] ai Hl0; try discriminate.
        - cbn. destruct (feqb fo x 0); reflexivity.
        - cbn [app backward_spec]. injection Hl0 as Hl0. rewrite (IHl pre0 ai Hl0). cbv zeta.
          destruct (backward_spec (if feqb fo x 0 then ai else ai * x) l0 pre0) as [rs a].
          destruct (feqb fo y 0); reflexivity. }
      rewrite (Hgen l pre accinv Hl). cbv zeta.
      destruct (feqb fo x 0) eqn:E.
      + cbn [rev]. rewrite (IH pre accinv Hl).
        destruct (backward_spec accinv l pre) as [rs a]. reflexivity.
      + cbn [rev]. rewrite (IH pre (accinv * x) Hl).
        destruct (backward_spec (accinv * x) l pre) as [rs a]. reflexivity.
  Qed.

  Lemma backward_spec_correct l : forall acc accinv,
    all_nz_invertible l ->
    accinv * (acc * prod_nz l) = 1 ->
    fst (backward_spec accinv l (prefixes acc l)) = map inv0 l
    /\ snd (backward_spec accinv l (prefixes acc l)) * acc = 1.
  Proof.
    induction l as [|x l IH]; intros acc accinv Hall Hinv; cbn [prefixes backward_spec map prod_nz] in *.
    - cbn. split; [reflexivity|]. rewrite <- Hinv. ring.
    - inversion Hall as [|? ? Hx Hl]; subst.
      unfold inv0 at 1. revert Hinv.
      destruct (feqb fo x 0) eqn:E; cbn [backward_spec]; intros Hinv.
      + destruct (IH acc accinv Hl Hinv) as [IH1 IH2].
        destruct (backward_spec accinv l (prefixes acc l)) as [rs a]; cbn in *.
        split; [now rewrite IH1|exact IH2].
      + assert (Hinv' : accinv * (acc * x * prod_nz l) = 1) by (rewrite <- Hinv; ring).
        destruct (IH (acc * x) accinv Hl Hinv') as [IH1 IH2].
        destruct (backward_spec accinv l (prefixes (acc * x) l)) as [rs a]; cbn in *.
        split.
        * f_equal; [|exact IH1].
          assert (Hxi : invertible fo x) by (apply Hx; now apply (feqb_false fo FL)).
          apply (inverse_unique fo FL x); [|apply finv_r; assumption].
          rewrite <- IH2. ring.
        * rewrite <- IH2. ring.
  Qed.

  (* For every list (any length, zeros anywhere): batch inversion = map inverse-or-zero,
     provided every non-zero entry is invertible. *)
  Theorem batch_invert_correct l :
    all_nz_invertible l -> batch_invert fo l = map inv0 l.
  Proof.
    intros Hall. unfold batch_invert.
    pose proof (bi_forward_spec l 1) as [Hacc Hlen].
    pose proof (bi_forward_fst l 1) as Hfst.
    destruct (bi_forward fo 1 l) as [pre acc]; cbn [fst snd] in *. subst pre.
    rewrite bi_backward_rev by exact Hlen.
    apply backward_spec_correct; [exact Hall|].
    rewrite Hacc.
    assert (Hi : invertible fo (1 * prod_nz l)).
    { apply invertible_mul; [exact FL|apply invertible_1, FL|apply prod_nz_invertible, Hall]. }
    transitivity (finv fo (1 * prod_nz l) * (1 * prod_nz l)); [ring|apply (finv_l fo FL _ Hi)].
  Qed.

  Lemma batch_invert_length l : length (batch_invert fo l) = length l.
  Proof.
    unfold batch_invert. pose proof (bi_forward_spec l 1) as [_ Hlen].
    destruct (bi_forward fo 1 l) as [pre acc]; cbn [fst] in Hlen.
    rewrite rev_length.
    assert (H : forall a b ai, length b = length a -> length (bi_backward fo ai a b) = length a).
    { induction a as [|x a IH]; intros [|y b] ai Hl; try discriminate; cbn; [reflexivity|].
      destruct (feqb fo x 0); cbn; rewrite IH; auto. }
    rewrite H; rewrite !rev_length; auto.
  Qed.
End BatchInvert.
