(* Concrete Banderwagon element facts on Fp: Bytes, Equal, MapToScalarField, batch
   helpers.  "rep P p" = P = (xZ, yZ, Z) with Z invertible (EdwardsProofs). *)
From Coq Require Import ZArith List Bool Lia Ring.
From GoIpa Require Import Model.Bytes Model.Zq Model.Alg Model.Edwards Model.FpSqrt Model.Banderwagon
  Proofs.AlgLaws Proofs.EdwardsProofs Proofs.GroupProofs Proofs.ZqProofs Proofs.ZqField
  Proofs.BytesProofs Proofs.CodecProofs.
Import ListNotations.
Open Scope Z_scope.

Local Notation FLp := fp_field_laws.
Local Notation repp := (rep fpo).
Add Ring FpRing : (zq_ring_theory p_mod p_mod_gt1).
(* turn the generic operation record into the concrete zq_ operations (for ring) *)
Ltac zqf := cbv beta iota delta [fpo fmul fadd fsub fneg f0 f1 finv] in *; unfold Fp in *.
Ltac zring := zqf; ring.

Lemma fp_eqb_eq (a b : Fp) : zq_eqb a b = true <-> a = b.
Proof. apply zq_eqb_eq. Qed.

Lemma fp_is_zero_eq (a : Fp) : zq_is_zero a = true <-> a = zq_zero.
Proof.
  unfold zq_is_zero. rewrite Z.eqb_eq. split.
  - intros H. apply zq_eq. rewrite H. reflexivity.
  - intros ->. reflexivity.
Qed.

(* ---- Bytes ---- *)
Definition aff_bytes (p : Fp * Fp) : list Z :=
  fp_bytes (if zq_lex_largest (snd p) then fst p else zq_neg (fst p)).

Lemma bw_affine_rep P p : repp P p -> bw_affine P = p.
Proof.
  intros H. destruct P as [[X Y] Z]. unfold bw_affine.
  destruct (zq_eqb Z zq_one) eqn:E.
  - apply fp_eqb_eq in E. subst Z. destruct p as [x y]. destruct H as (_ & -> & ->).
    f_equal; zring.
  - exact (p_to_affine_correct fpo FLp (X, Y, Z) p H).
Qed.

(* Bytes is a function of the represented affine point: invariant under projective
   rescaling, and the Z = 1 fast path agrees with the general path *)
Theorem bw_bytes_rep P p : repp P p -> bw_bytes P = aff_bytes p.
Proof.
  intros H. unfold bw_bytes. rewrite (bw_affine_rep P p H). destruct p; reflexivity.
Qed.

Lemma p_odd : p_mod = 2 * ((p_mod - 1) / 2) + 1.
Proof. reflexivity. Qed.

Lemma zval_neg (y : Fp) : zval y <> 0 -> zval (zq_neg y) = p_mod - zval y.
Proof.
  intros H. unfold zq_neg. rewrite zval_of_Z. pose proof (fp_val_range y).
  rewrite <- (Z.mod_small (p_mod - zval y) p_mod) by lia.
  replace (- zval y) with (p_mod - zval y + (-1) * p_mod) by zring. apply Z_mod_plus_full.
Qed.

Lemma lex_largest_neg (y : Fp) : zval y <> 0 -> zq_lex_largest (zq_neg y) = negb (zq_lex_largest y).
Proof.
  intros H. unfold zq_lex_largest. rewrite (zval_neg y H). pose proof (fp_val_range y).
  pose proof p_odd as Hp. set (h := (p_mod - 1) / 2) in *.
  destruct (Z.ltb_spec h (zval y)); destruct (Z.ltb_spec h (p_mod - zval y)); cbn; try reflexivity; lia.
Qed.

(* ... and of the Banderwagon class: (x,y) and (-x,-y) have the same bytes *)
Theorem aff_bytes_flip p : zval (snd p) <> 0 -> aff_bytes (flip fpo p) = aff_bytes p.
Proof.
  destruct p as [x y]. unfold aff_bytes, flip; cbn [fst snd]. intros Hy.
  change (fneg fpo y) with (zq_neg y). change (fneg fpo x) with (zq_neg x).
  rewrite (lex_largest_neg y Hy). destruct (zq_lex_largest y); cbn [negb]; [|reflexivity].
  f_equal. zring.
Qed.

Theorem bw_bytes_length P : length (bw_bytes P) = 32%nat.
Proof. unfold bw_bytes. destruct (bw_affine P). apply be_enc_length. Qed.

(* the absorbed / serialised bytes determine the chosen x coordinate *)
Lemma fp_bytes_inj (a b : Fp) : fp_bytes a = fp_bytes b -> a = b.
Proof.
  unfold fp_bytes. intros H. apply zq_eq.
  apply (be_enc_inj 32); try exact H;
    [pose proof (fp_val_range a)|pose proof (fp_val_range b)];
    rewrite pow256_32; pose proof p_mod_lt_2_255; lia.
Qed.

(* ---- Equal ---- *)
Definition nonzero_xy (P : element) : Prop := let '(X, Y, _) := P in ~ (X = zq_zero /\ Y = zq_zero).

Lemma bw_equal_spec P Q : nonzero_xy P -> nonzero_xy Q ->
  (bw_equal P Q = true <-> cross_eq fpo P Q).
Proof.
  destruct P as [[X1 Y1] Z1], Q as [[X2 Y2] Z2]. unfold nonzero_xy, bw_equal, cross_eq.
  intros H1 H2.
  destruct (zq_is_zero X1 && zq_is_zero Y1) eqn:E1.
  { exfalso. apply andb_prop in E1 as [A B]. apply H1. split; now apply fp_is_zero_eq. }
  destruct (zq_is_zero X2 && zq_is_zero Y2) eqn:E2.
  { exfalso. apply andb_prop in E2 as [A B]. apply H2. split; now apply fp_is_zero_eq. }
  apply fp_eqb_eq.
Qed.

(* never true when one side is the all-zero (uninitialised) value *)
Theorem bw_equal_zero_false P Z1 :
  bw_equal (zq_zero, zq_zero, Z1) P = false /\ bw_equal P (zq_zero, zq_zero, Z1) = false.
Proof.
  destruct P as [[X Y] Z]. unfold bw_equal. split; [reflexivity|].
  destruct (zq_is_zero X && zq_is_zero Y); reflexivity.
Qed.

Theorem bw_equal_refl P : nonzero_xy P -> bw_equal P P = true.
Proof.
  intros H. apply (bw_equal_spec P P H H). destruct P as [[X Y] Z]. unfold cross_eq. zring.
Qed.

Theorem bw_equal_sym P Q : bw_equal P Q = bw_equal Q P.
Proof.
  destruct P as [[X1 Y1] Z1], Q as [[X2 Y2] Z2]. unfold bw_equal.
  destruct (zq_is_zero X1 && zq_is_zero Y1), (zq_is_zero X2 && zq_is_zero Y2); try reflexivity.
  destruct (zq_eqb (zq_mul X1 Y2) (zq_mul Y1 X2)) eqn:E.
  - apply fp_eqb_eq in E. symmetry. apply fp_eqb_eq.
    transitivity (zq_mul Y1 X2); [zring|]. rewrite <- E. zring.
  - symmetry. destruct (zq_eqb (zq_mul X2 Y1) (zq_mul Y2 X1)) eqn:E'; [|reflexivity].
    apply fp_eqb_eq in E'. rewrite <- E. symmetry. apply fp_eqb_eq.
    transitivity (zq_mul Y2 X1); [zring|]. rewrite <- E'. zring.
Qed.

(* transitivity: the middle element has an invertible Y (true of every valid
   Banderwagon element: y = 0 would need a x^2 = 1 with a a non-residue) *)
Theorem bw_equal_trans P Q R :
  (let '(_, Y, _) := Q in invertible fpo Y) ->
  nonzero_xy P -> nonzero_xy R ->
  bw_equal P Q = true -> bw_equal Q R = true -> bw_equal P R = true.
Proof.
  destruct P as [[X1 Y1] Z1], Q as [[X2 Y2] Z2], R as [[X3 Y3] Z3].
  intros HY HP HR H12 H23.
  assert (HQ : nonzero_xy (X2, Y2, Z2)).
  { unfold nonzero_xy. intros [_ ->]. apply (invertible_nonzero fpo FLp _ HY). reflexivity. }
  apply (bw_equal_spec _ _ HP HQ) in H12. apply (bw_equal_spec _ _ HQ HR) in H23.
  apply (bw_equal_spec _ _ HP HR). unfold cross_eq in *.
  pose proof (finv_r fpo FLp Y2 HY) as Hi. zqf.
  assert (E : zq_mul (zq_mul X1 Y3) Y2 = zq_mul (zq_mul Y1 X3) Y2).
  { transitivity (zq_mul (zq_mul X1 Y2) Y3); [zring|]. rewrite H12.
    transitivity (zq_mul Y1 (zq_mul X2 Y3)); [zring|]. rewrite H23. zring. }
  transitivity (zq_mul (zq_mul (zq_mul X1 Y3) Y2) (zq_inv Y2)).
  - transitivity (zq_mul (zq_mul X1 Y3) (zq_mul Y2 (zq_inv Y2))); [|zring].
    rewrite Hi. zring.
  - rewrite E. transitivity (zq_mul (zq_mul Y1 X3) (zq_mul Y2 (zq_inv Y2))); [zring|].
    rewrite Hi. zring.
Qed.

(* Equal holds between any two representations of class-equal points *)
Theorem bw_equal_of_class P Q p q :
  repp P p -> repp Q q -> class_eq fpo p q -> nonzero_xy P -> nonzero_xy Q -> bw_equal P Q = true.
Proof.
  intros HP HQ C NP NQ. apply (bw_equal_spec P Q NP NQ).
  exact (cross_eq_of_class fpo FLp P Q p q HP HQ C).
Qed.

(* ---- MapToScalarField ---- *)
Theorem bw_map_rep P p : repp P p -> invertible fpo (snd p) ->
  bw_map_to_base P = zq_mul (fst p) (zq_inv (snd p)).
Proof.
  intros H Hy. pose proof (slope_rep fpo FLp P p H Hy) as S.
  destruct P as [[X Y] Z]. exact S.
Qed.

Theorem bw_map_flip p : invertible fpo (snd p) ->
  zq_mul (fst (flip fpo p)) (zq_inv (snd (flip fpo p))) = zq_mul (fst p) (zq_inv (snd p)).
Proof. exact (slope_flip fpo FLp p). Qed.

Theorem bw_map_to_scalar_spec P : zval (bw_map_to_scalar P) = zval (bw_map_to_base P) mod r_mod.
Proof. unfold bw_map_to_scalar, fr. apply zval_of_Z. Qed.

(* ---- batch helpers = single-element operations ---- *)
Lemma map_combine_map {A B C} (h : A -> B) (g : A -> B -> C) (l : list A) :
  map (fun pz : A * B => g (fst pz) (snd pz)) (combine l (map h l)) = map (fun a => g a (h a)) l.
Proof. induction l as [|a l IH]; cbn; [reflexivity|]. f_equal. exact IH. Qed.

Lemma inv0_eq_inv (x : Fp) : inv0 fpo x = zq_inv x.
Proof.
  unfold inv0. destruct (feqb fpo x (f0 fpo)) eqn:E; [|reflexivity].
  apply (fl_eqb fpo FLp) in E. subst x. symmetry. exact (fl_inv0 fpo FLp).
Qed.

Lemma batch_invert_fp l : all_nz_invertible fpo l -> batch_invert fpo l = map zq_inv l.
Proof.
  intros H. rewrite (batch_invert_correct fpo FLp l H). apply map_ext. exact inv0_eq_inv.
Qed.

Definition zcoord (p : element) : Fp := let '(_, _, Z) := p in Z.
Definition ycoord (p : element) : Fp := let '(_, Y, _) := p in Y.

Lemma fp_inv_one : zq_inv (zq_one : Fp) = zq_one.
Proof. exact (inv_1 fpo FLp). Qed.

(* single-element serialisation written with an explicit inverse of Z *)
Lemma bw_bytes_via_inv P :
  bw_bytes P = (let '(X, Y, Z) := P in
                let zi := zq_inv Z in
                let x := zq_mul X zi in let y := zq_mul Y zi in
                fp_bytes (if zq_lex_largest y then x else zq_neg x)).
Proof.
  destruct P as [[X Y] Z]. unfold bw_bytes, bw_affine.
  destruct (zq_eqb Z zq_one) eqn:E.
  - apply fp_eqb_eq in E. subst Z. rewrite fp_inv_one. cbv zeta.
    replace (zq_mul X zq_one) with X by zring.
    replace (zq_mul Y zq_one) with Y by zring.
    reflexivity.
  - reflexivity.
Qed.

Theorem bw_elements_to_bytes_eq ps :
  all_nz_invertible fpo (map zcoord ps) -> bw_elements_to_bytes ps = map bw_bytes ps.
Proof.
  intros H. unfold bw_elements_to_bytes.
  change (map (fun p : element => let '(_, _, Z) := p in Z) ps) with (map zcoord ps).
  rewrite (batch_invert_fp _ H). rewrite map_map.
  set (g := fun (p : element) (zi : Fp) => let '(X, Y, _) := p in
              let x := zq_mul X zi in let y := zq_mul Y zi in
              fp_bytes (if zq_lex_largest y then x else zq_neg x)).
  transitivity (map (fun pz : element * Fp => g (fst pz) (snd pz))
                    (combine ps (map (fun p => zq_inv (zcoord p)) ps))).
  { apply map_ext. intros [[[X Y] Z] zi]. reflexivity. }
  rewrite map_combine_map. apply map_ext. intros [[X Y] Z]. rewrite bw_bytes_via_inv. reflexivity.
Qed.

Theorem bw_batch_uncompressed_eq ps :
  all_nz_invertible fpo (map zcoord ps) ->
  bw_batch_to_bytes_uncompressed ps = map bw_bytes_uncompressed ps.
Proof.
  intros H. unfold bw_batch_to_bytes_uncompressed.
  change (map (fun p : element => let '(_, _, Z) := p in Z) ps) with (map zcoord ps).
  rewrite (batch_invert_fp _ H). rewrite map_map.
  set (g := fun (p : element) (zi : Fp) => let '(X, Y, _) := p in
              fp_bytes (zq_mul X zi) ++ fp_bytes (zq_mul Y zi)).
  transitivity (map (fun pz : element * Fp => g (fst pz) (snd pz))
                    (combine ps (map (fun p => zq_inv (zcoord p)) ps))).
  { apply map_ext. intros [[[X Y] Z] zi]. reflexivity. }
  rewrite map_combine_map. apply map_ext. intros [[X Y] Z]. reflexivity.
Qed.

Theorem bw_batch_map_eq ps :
  all_nz_invertible fpo (map ycoord ps) ->
  bw_batch_map_to_scalar ps = map bw_map_to_scalar ps.
Proof.
  intros H. unfold bw_batch_map_to_scalar.
  change (map (fun p : element => let '(_, Y, _) := p in Y) ps) with (map ycoord ps).
  rewrite (batch_invert_fp _ H). rewrite map_map.
  set (g := fun (p : element) (yi : Fp) => let '(X, _, _) := p in fr (zval (zq_mul X yi))).
  transitivity (map (fun py : element * Fp => g (fst py) (snd py))
                    (combine ps (map (fun p => zq_inv (ycoord p)) ps))).
  { apply map_ext. intros [[[X Y] Z] yi]. reflexivity. }
  rewrite map_combine_map. apply map_ext. intros [[X Y] Z]. reflexivity.
Qed.

(* Normalize *)
Theorem bw_normalize_spec P p : repp P p ->
  bw_normalize P = Some (fst p, snd p, zq_one).
Proof.
  intros H. destruct P as [[X Y] Z]. unfold bw_normalize.
  destruct (zq_is_zero Z) eqn:E.
  - apply fp_is_zero_eq in E. subst Z. destruct p as [x y]. destruct H as (HZ & _).
    exfalso. exact (invertible_nonzero fpo FLp _ HZ eq_refl).
  - rewrite (p_to_affine_correct fpo FLp (X, Y, Z) p H). destruct p; reflexivity.
Qed.

Theorem bw_normalize_zero X Y : bw_normalize (X, Y, zq_zero) = None.
Proof. reflexivity. Qed.

(* ---- BatchNormalize: any pointer list, any order, any aliasing ---- *)
Lemma set_nth_length {A} (l : list A) k v : length (set_nth l k v) = length l.
Proof. revert k; induction l as [|x l IH]; intros [|k]; cbn; auto. Qed.

Lemma nth_set_nth {A} (l : list A) k v j d :
  (k < length l)%nat -> nth j (set_nth l k v) d = if Nat.eqb j k then v else nth j l d.
Proof.
  revert k j; induction l as [|x l IH]; intros k j Hk; [cbn in Hk; lia|].
  destruct k as [|k], j as [|j]; cbn; try reflexivity. apply IH. cbn in Hk. lia.
Qed.

Lemma fp_one_not_zero : zq_is_zero (zq_one : Fp) = false.
Proof. reflexivity. Qed.

Lemma norm1_idem p : norm1 (norm1 p) = norm1 p.
Proof.
  destruct p as [[X Y] Z]. unfold norm1 at 2. unfold bw_normalize.
  destruct (zq_is_zero Z) eqn:E.
  - unfold norm1, bw_normalize. rewrite E. reflexivity.
  - cbn [p_to_affine]. unfold norm1, bw_normalize. rewrite fp_one_not_zero.
    cbn [p_to_affine]. zqf. rewrite fp_inv_one.
    rewrite E. f_equal. f_equal; ring.
Qed.

Definition bn_step (s : list element) (i : nat) : list element :=
  set_nth s i (norm1 (nth i s bw_identity)).

Lemma bn_fold_length idxs : forall st, length (fold_left bn_step idxs st) = length st.
Proof.
  induction idxs as [|i idxs IH]; intros st; cbn [fold_left]; [reflexivity|].
  rewrite IH. apply set_nth_length.
Qed.

Lemma bn_fold_nth idxs : forall st j,
  (forall i, In i idxs -> (i < length st)%nat) ->
  nth j (fold_left bn_step idxs st) bw_identity
  = if existsb (Nat.eqb j) idxs then norm1 (nth j st bw_identity) else nth j st bw_identity.
Proof.
  induction idxs as [|i idxs IH]; intros st j Hin; cbn [fold_left existsb]; [reflexivity|].
  assert (Hi : (i < length st)%nat) by (apply Hin; left; reflexivity).
  rewrite IH.
  2:{ intros k Hk. unfold bn_step. rewrite set_nth_length. apply Hin. right. exact Hk. }
  unfold bn_step. rewrite (nth_set_nth st i _ j bw_identity Hi).
  destruct (Nat.eqb j i) eqn:E.
  - apply Nat.eqb_eq in E. subst j. cbn [orb]. rewrite norm1_idem.
    destruct (existsb (Nat.eqb i) idxs); reflexivity.
  - cbn [orb]. reflexivity.
Qed.

(* For every store, every pointer list (duplicates, any order):
   - if some pointed element has Z = 0: error, and nothing is produced (store unchanged);
   - otherwise every pointed element is replaced by its normal form and all other
     elements are untouched.  The result does not depend on the order of the pointers. *)
Theorem bw_batch_normalize_spec st idxs :
  (forall i, In i idxs -> (i < length st)%nat) ->
  (bw_batch_normalize st idxs = None <->
     exists i, In i idxs /\ zcoord_of (nth i st bw_identity) = zq_zero)
  /\ (forall st', bw_batch_normalize st idxs = Some st' ->
        length st' = length st
        /\ forall j, nth j st' bw_identity
                     = if existsb (Nat.eqb j) idxs then norm1 (nth j st bw_identity)
                       else nth j st bw_identity).
Proof.
  intros Hin. unfold bw_batch_normalize.
  destruct (existsb (fun i => zq_is_zero (zcoord_of (nth i st bw_identity))) idxs) eqn:E.
  - split.
    + split; [intros _|reflexivity]. apply existsb_exists in E as (i & Hi & Hz).
      exists i. split; [exact Hi|]. now apply fp_is_zero_eq.
    + intros st' H. discriminate.
  - split.
    + split; [discriminate|]. intros (i & Hi & Hz). exfalso.
      assert (T : existsb (fun i => zq_is_zero (zcoord_of (nth i st bw_identity))) idxs = true).
      { apply existsb_exists. exists i. split; [exact Hi|]. now apply fp_is_zero_eq. }
      rewrite T in E. discriminate.
    + intros st' H. injection H as <-. split; [apply bn_fold_length|].
      intros j. apply bn_fold_nth. exact Hin.
Qed.

Corollary bw_batch_normalize_order_independent st idxs idxs' :
  (forall i, In i idxs -> (i < length st)%nat) ->
  (forall i, In i idxs <-> In i idxs') ->
  forall s s', bw_batch_normalize st idxs = Some s -> bw_batch_normalize st idxs' = Some s' ->
  forall j, nth j s bw_identity = nth j s' bw_identity.
Proof.
  intros Hin Hperm s s' H H' j.
  assert (Hin' : forall i, In i idxs' -> (i < length st)%nat) by (intros i Hi; apply Hin, Hperm, Hi).
  destruct (bw_batch_normalize_spec st idxs Hin) as (_ & A). destruct (A s H) as (_ & A').
  destruct (bw_batch_normalize_spec st idxs' Hin') as (_ & B). destruct (B s' H') as (_ & B').
  rewrite A', B'.
  assert (Ex : existsb (Nat.eqb j) idxs = existsb (Nat.eqb j) idxs').
  { destruct (existsb (Nat.eqb j) idxs) eqn:E1; destruct (existsb (Nat.eqb j) idxs') eqn:E2; try reflexivity.
    - apply existsb_exists in E1 as (i & Hi & Hj). apply Nat.eqb_eq in Hj. subst i.
      assert (T : existsb (Nat.eqb j) idxs' = true) by (apply existsb_exists; exists j; split; [now apply Hperm|apply Nat.eqb_refl]).
      rewrite T in E2. discriminate.
    - apply existsb_exists in E2 as (i & Hi & Hj). apply Nat.eqb_eq in Hj. subst i.
      assert (T : existsb (Nat.eqb j) idxs = true) by (apply existsb_exists; exists j; split; [now apply Hperm|apply Nat.eqb_refl]).
      rewrite T in E1. discriminate. }
  rewrite Ex. reflexivity.
Qed.

(* a normalised element has Z = 1 and represents the same point *)
Theorem norm1_rep P p : repp P p -> norm1 P = (fst p, snd p, zq_one) /\ repp (norm1 P) p.
Proof.
  intros H. unfold norm1. rewrite (bw_normalize_spec P p H). split; [reflexivity|].
  destruct p as [x y]; cbn [fst snd]. unfold EdwardsProofs.rep.
  repeat split; [apply invertible_1, FLp| |]; zring.
Qed.

(* trusted uncompressed round trip *)
Lemma fp_of_be_bytes (x : Fp) : fp (be_val (fp_bytes x)) = x.
Proof.
  unfold fp_bytes. rewrite be_val_enc. apply zq_eq. unfold fp. rewrite zval_of_Z.
  pose proof (fp_val_range x). pose proof p_mod_lt_2_255. rewrite pow256_32.
  rewrite (Z.mod_small (zval x) (2 ^ 256)) by lia. apply Z.mod_small. lia.
Qed.

Lemma fp_bytes_length (x : Fp) : length (fp_bytes x) = 32%nat.
Proof. apply be_enc_length. Qed.

Lemma firstn_app_exact {A} (l1 l2 : list A) n : length l1 = n -> firstn n (l1 ++ l2) = l1.
Proof. intros <-. rewrite firstn_app, Nat.sub_diag, firstn_all. cbn. apply app_nil_r. Qed.
Lemma skipn_app_exact {A} (l1 l2 : list A) n : length l1 = n -> skipn n (l1 ++ l2) = l2.
Proof. intros <-. rewrite skipn_app, Nat.sub_diag, skipn_all. reflexivity. Qed.

Theorem uncompressed_trusted_roundtrip P p : repp P p ->
  bw_set_bytes_uncompressed true (bw_bytes_uncompressed P) true = inl (fst p, snd p, zq_one).
Proof.
  intros H. unfold bw_bytes_uncompressed. rewrite (p_to_affine_correct fpo FLp P p H).
  destruct p as [x y]. unfold bw_set_bytes_uncompressed.
  assert (L : len (fp_bytes x ++ fp_bytes y) = 64).
  { unfold len. rewrite app_length, !fp_bytes_length. reflexivity. }
  rewrite L. cbn [Z.eqb Pos.eqb negb andb].
  rewrite (firstn_app_exact _ _ 32 (fp_bytes_length x)), (skipn_app_exact _ _ 32 (fp_bytes_length x)).
  rewrite !fp_of_be_bytes. reflexivity.
Qed.

(* Equal <-> same X/Y (for representations with invertible y) *)
Theorem bw_equal_iff_map P Q p q :
  repp P p -> repp Q q -> invertible fpo (snd p) -> invertible fpo (snd q) ->
  nonzero_xy P -> nonzero_xy Q ->
  (bw_equal P Q = true <-> bw_map_to_base P = bw_map_to_base Q).
Proof.
  intros HP HQ Hy1 Hy2 NP NQ.
  rewrite (bw_equal_spec P Q NP NQ), (bw_map_rep P p HP Hy1), (bw_map_rep Q q HQ Hy2). split.
  - exact (cross_eq_slopes fpo FLp P Q p q HP HQ Hy1 Hy2).
  - destruct P as [[X1 Y1] Z1], Q as [[X2 Y2] Z2], p as [x1 y1], q as [x2 y2].
    destruct HP as (_ & -> & ->), HQ as (_ & -> & ->). cbn [fst snd] in *. unfold cross_eq.
    pose proof (finv_r fpo FLp y1 Hy1) as I1. pose proof (finv_r fpo FLp y2 Hy2) as I2.
    intros S. zqf.
    assert (E : zq_mul x1 y2 = zq_mul y1 x2).
    { transitivity (zq_mul (zq_mul (zq_mul x1 (zq_inv y1)) y1) y2).
      - transitivity (zq_mul (zq_mul x1 y2) (zq_mul y1 (zq_inv y1))); [rewrite I1; ring|ring].
      - rewrite S. transitivity (zq_mul (zq_mul y1 x2) (zq_mul y2 (zq_inv y2))); [ring|rewrite I2; ring]. }
    transitivity (zq_mul (zq_mul x1 y2) (zq_mul Z1 Z2)); [ring|]. rewrite E. ring.
Qed.
