(* C07: decoding the compressed encoding of a valid element succeeds and gives an element
   Equal to it, with the same encoding.  Premises, all explicit: p prime, d non-square (as
   for Equal <-> Bytes); the encoded x passes the subgroup test (true for every element of the
   prime-order subgroup); y^Q lies in the dyadic subgroup (Fermat + cyclic Fp^*, see C17). *)
From Coq Require Import ZArith List Bool Lia Znumtheory.
From GoIpa Require Import Model.Bytes Model.Zq Model.Alg Model.Edwards Model.SqrtChain Model.FpSqrt Model.Banderwagon
  Proofs.AlgLaws Proofs.EdwardsProofs Proofs.GroupProofs Proofs.ZqProofs Proofs.ZqField
  Proofs.BytesProofs Proofs.CodecProofs Proofs.BwProofs Proofs.CanonProofs Proofs.DecodeProofs
  Proofs.SqrtProofs Proofs.DyadicProofs.
Import ListNotations.
Open Scope Z_scope.

Add Ring FpRingRT : (zq_ring_theory p_mod p_mod_gt1).
Local Opaque chain_exp_candidate chain_exp_root chain_exponents.

Section RoundTrip.
  Hypothesis p_prime : prime p_mod.
  Hypothesis d_nonsquare : forall w : Fp, zq_mul bw_d (zq_mul w w) <> zq_one.

  Lemma fp_nonzero_invertible (y : Fp) : zval y <> 0 -> invertible fpo y.
  Proof.
    intros Hy.
    assert (Hg : Z.gcd (zval y) p_mod = 1).
    { apply Zgcd_1_rel_prime, rel_prime_sym, prime_rel_prime; [exact p_prime|].
      intros Hd. pose proof (fp_val_range y). apply Z.mod_divide in Hd; [|unfold p_mod; lia]. rewrite Z.mod_small in Hd; lia. }
    destruct (rel_prime_bezout _ _ (proj1 (Zgcd_1_rel_prime _ _) Hg)) as [u v Huv].
    exists (fp u). cbn [fmul f1 fpo]. apply zq_eq. unfold zq_mul, fp, zq_one. rewrite !zval_of_Z.
    rewrite Z.mul_mod_idemp_r by (unfold p_mod; lia).
    replace (zval y * u) with (1 + (- v) * p_mod) by lia. rewrite Z_mod_plus_full. reflexivity.
  Qed.

  Lemma fp_nz (a : Fp) : a <> zq_zero -> zval a <> 0.
  Proof. intros H E. apply H. apply zq_eq. rewrite E. reflexivity. Qed.

  (* squares stay in the dyadic subgroup *)
  Lemma in_dyadic_sq (u : Fp) : in_dyadic (zq_pow u chain_exp_root) -> in_dyadic (zq_pow (zq_mul u u) chain_exp_root).
  Proof.
    intros (k & Hk & Hu). destruct chain_exponents_spec as (_ & _ & Hroot & _). pose proof Qodd_nonneg as HQ.
    assert (Hsq : zq_pow (zq_mul u u) chain_exp_root = gE (k + k)).
    { rewrite fp_pow_mul_l by lia. rewrite Hu. symmetry. apply gE_add; lia. }
    change (2 ^ 32) with 4294967296 in *.
    destruct (Z_lt_ge_dec (k + k) 4294967296) as [Hlt|Hge].
    - exists (k + k). split; [change (2 ^ 32) with 4294967296; lia|exact Hsq].
    - exists (k + k - 4294967296). split; [change (2 ^ 32) with 4294967296; lia|].
      rewrite Hsq. replace (k + k) with ((k + k - 4294967296) + 2 ^ 32 * 1) at 1 by (change (2 ^ 32) with 4294967296; lia).
      apply gE_period; lia.
  Qed.

  Theorem decode_bytes_roundtrip P p :
    rep fpo P p -> on_curve_p p -> zval (snd p) <> 0 -> nonzero_xy P ->
    subgroup_check (cx p) = true ->
    in_dyadic (zq_pow (snd p) chain_exp_root) ->
    exists P', bw_set_bytes (bw_bytes P) false = inl P'
               /\ bw_bytes P' = bw_bytes P /\ bw_equal P' P = true.
  Proof.
    intros HP Cp Hy NP Hsub Hdy. destruct p as [x y]. cbn [snd] in *.
    set (xe := cx (x, y)) in *.
    assert (Hb : bw_bytes P = fp_bytes xe) by (rewrite (bw_bytes_rep P (x, y) HP); reflexivity).
    set (b := bw_bytes P) in *.
    pose proof (fp_val_range xe) as Hxr.
    assert (H256 : p_mod < 256 ^ Z.of_nat 32) by reflexivity.
    assert (Hlen : len b = 32) by (rewrite Hb; unfold fp_bytes, len; rewrite be_enc_length; reflexivity).
    assert (Hval : be_val b = zval xe) by (rewrite Hb; unfold fp_bytes; rewrite be_val_enc; apply Z.mod_small; lia).
    assert (Hfx : fp (be_val b) = xe) by (rewrite Hval; apply zq_of_Z_val).
    assert (Hok : bytes_ok b) by (rewrite Hb; apply be_enc_ok).
    (* the curve value at xe is y^2 *)
    assert (Hxx : zq_mul xe xe = zq_mul x x).
    { unfold xe, cx; cbn [fst snd]. destruct (zq_lex_largest y); [reflexivity|apply neg_sq]. }
    set (den := zq_sub (zq_mul (zq_mul xe xe) bw_d) zq_one).
    set (num := zq_sub (zq_mul (zq_mul xe xe) bw_a) zq_one).
    assert (Hden : invertible fpo den).
    { apply fp_nonzero_invertible, fp_nz. intros E. apply (d_nonsquare x). unfold den in E. rewrite Hxx in E. unfold Fp in *.
      transitivity (zq_add (zq_sub (zq_mul (zq_mul x x) bw_d) zq_one) zq_one); [ring|]. rewrite E. ring. }
    assert (Hv : zq_div num den = zq_mul y y).
    { unfold zq_div. pose proof (finv_r fpo fp_field_laws den Hden) as Hi. cbn [fmul f1 finv fpo] in Hi.
      assert (E : num = zq_mul (zq_mul y y) den).
      { unfold num, den. rewrite Hxx. unfold on_curve_p in Cp. unfold Fp in *.
        transitivity (zq_sub (zq_add (zq_mul bw_a (zq_mul x x)) (zq_mul y y)) (zq_add zq_one (zq_mul y y))); [ring|].
        rewrite Cp. ring. }
      rewrite E. unfold Fp in *. transitivity (zq_mul (zq_mul y y) (zq_mul den (zq_inv den))); [ring|]. rewrite Hi. ring. }
    assert (Hyy : zval (zq_mul y y) <> 0).
    { apply fp_nz. intros E. destruct (fp_integral p_prime _ _ E) as [A|A]; apply Hy; rewrite A; reflexivity. }
    (* the root exists and is +-y *)
    pose proof (sqrt_precomp_complete_on_squares y Hyy Hdy) as Hsome.
    destruct (sqrt_precomp (zq_mul y y)) as [s|] eqn:Es; [|contradiction].
    pose proof (sqrt_precomp_sound_dyadic _ _ (in_dyadic_sq y Hdy) Es) as Hs.
    assert (Hcy : exists y', compute_y xe true = Some y' /\ (y' = s \/ y' = zq_neg s)).
    { unfold compute_y. fold den num. rewrite Hv, Es.
      destruct (Bool.eqb true (zq_lex_largest s)); eexists; split; try reflexivity; auto. }
    destruct Hcy as (y' & Hcy & Hy's).
    assert (Hy'2 : zq_mul y' y' = zq_mul y y) by (destruct Hy's as [->| ->]; rewrite ?neg_sq; exact Hs).
    assert (Hy'nz : zval y' <> 0).
    { intros E. apply Hyy. rewrite <- Hy'2. unfold zq_mul. rewrite zval_of_Z, E. reflexivity. }
    set (P' := (xe, y', zq_one) : element).
    assert (Hdec : bw_set_bytes b false = inl P').
    { apply bw_set_bytes_accepts_iff. unfold accepts32. rewrite Hlen, Hval.
      rewrite (proj2 (Z.ltb_lt _ _) (proj2 Hxr)). change (32 =? 32) with true. cbv iota.
      replace (fp (zval xe)) with xe by (symmetry; apply zq_of_Z_val).
      rewrite Hcy, Hsub. reflexivity. }
    exists P'. split; [exact Hdec|].
    assert (Hbytes : bw_bytes P' = b) by (apply (bw_set_bytes_reencode b false xe y' zq_one Hok Hdec Hy'nz)).
    split; [exact Hbytes|].
    assert (R' : rep fpo P' (xe, y')).
    { cbn. split; [exists zq_one; apply zq_eq; reflexivity|]. split; unfold Fp in *; ring. }
    assert (C' : on_curve_p (xe, y')) by (unfold on_curve_p; rewrite Hxx, Hy'2; exact Cp).
    assert (N' : nonzero_xy P') by (cbn; intros [_ E]; apply Hy'nz; rewrite E; reflexivity).
    apply (proj2 (equal_iff_bytes p_prime d_nonsquare P' P (xe, y') (x, y) R' HP C' Cp Hy'nz Hy N' NP)).
    exact Hbytes.
  Qed.
End RoundTrip.

(* the non-number-theoretic premises hold for the generator (kernel computation) *)
Example roundtrip_premises_generator :
  rep fpo bw_generator (bw_gen_x, bw_gen_y) /\ on_curve_p (bw_gen_x, bw_gen_y) /\ zval bw_gen_y <> 0
  /\ nonzero_xy bw_generator /\ subgroup_check (cx (bw_gen_x, bw_gen_y)) = true
  /\ in_dyadic (zq_pow bw_gen_y chain_exp_root).
Proof.
  split; [|split; [|split; [|split; [|split]]]].
  - cbn. split; [exists zq_one; apply zq_eq; reflexivity|]. split; apply zq_eq; vm_compute; reflexivity.
  - unfold on_curve_p. apply zq_eq. vm_compute. reflexivity.
  - vm_compute. discriminate.
  - cbn. intros [_ E]. apply (f_equal zval) in E. vm_compute in E. discriminate.
  - vm_compute. reflexivity.
  - exists 3903658095. split; [split; [lia|reflexivity]|]. apply zq_eq. vm_compute. reflexivity.
Qed.

