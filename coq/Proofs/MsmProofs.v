(* Group-level correctness of the bucket method (bandersnatch/multiexp.go) and of the
   precomputed-table method (banderwagon/precomp.go), over an abstract module:
   integer multiples (d) ⋅ P := (fofz d) * P, where fofz : Z -> F is a ring morphism. *)
From Coq Require Import ZArith List Bool Lia Ring.
From AAC_tactics Require Import AAC.
From GoIpa Require Import Model.Alg Model.Pippenger Proofs.AlgLaws Proofs.IPAProofs.
Import ListNotations.
Open Scope Z_scope.

Section Msm.
  Context {F G : Type} (fo : FOps F) (go : GOps F G) (FL : FieldLaws fo) (GL : GroupLaws fo go).
  Hypothesis fofz_add : forall a b, fofz fo (a + b) = fadd fo (fofz fo a) (fofz fo b).
  Hypothesis fofz_mul : forall a b, fofz fo (a * b) = fmul fo (fofz fo a) (fofz fo b).
  Hypothesis fofz_1 : fofz fo 1 = f1 fo.
  Local Infix "⊕" := (gadd go) (at level 50, left associativity).
  Local Notation O := (g0 go).
  Local Notation "d ⋅ p" := (gmul go (fofz fo d) p) (at level 40, left associativity).
  Add Ring FringMs : (fl_ring fo FL).
  Local Instance gA : Associative eq (gadd go) := gadd_Assoc fo go GL.
  Local Instance gC : Commutative eq (gadd go) := gadd_Comm fo go GL.

  Lemma gid_l a : O ⊕ a = a. Proof. apply (gl_id fo go GL). Qed.
  Lemma gid_r' a : a ⊕ O = a. Proof. apply (gid_r fo go GL). Qed.

  Lemma zm_add a b p : (a + b) ⋅ p = (a) ⋅ p ⊕ (b) ⋅ p.
  Proof. rewrite fofz_add. apply (gl_mul_add_l fo go GL). Qed.
  Lemma zm_mul a b p : (a * b) ⋅ p = (a) ⋅ ((b) ⋅ p).
  Proof. rewrite fofz_mul. apply (gl_mul_mul fo go GL). Qed.
  Lemma zm_1 p : (1) ⋅ p = p.
  Proof. rewrite fofz_1. apply (gl_mul_1 fo go GL). Qed.
  Lemma fofz_0 : fofz fo 0 = f0 fo.
  Proof.
    assert (H : fadd fo (fofz fo 0) (fofz fo 0) = fofz fo 0) by (rewrite <- fofz_add; reflexivity).
    transitivity (fsub fo (fadd fo (fofz fo 0) (fofz fo 0)) (fofz fo 0)); [ring|]. rewrite H. ring.
  Qed.
  Lemma zm_0 p : (0) ⋅ p = O.
  Proof. rewrite fofz_0. apply (gmul_zero_l fo go FL GL). Qed.
  Lemma zm_O d : (d) ⋅ O = O.
  Proof. apply (gmul_O fo go GL). Qed.
  Lemma zm_dist d p q : (d) ⋅ (p ⊕ q) = (d) ⋅ p ⊕ (d) ⋅ q.
  Proof. apply (gl_mul_add_r fo go GL). Qed.

  Lemma gneg_unique a b : a ⊕ b = O -> b = gneg go a.
  Proof.
    intros H. transitivity ((gneg go a ⊕ a) ⊕ b).
    - rewrite (gl_comm fo go GL (gneg go a) a), (gl_inv fo go GL), gid_l. reflexivity.
    - rewrite <- (gl_assoc fo go GL), H. apply gid_r'.
  Qed.
  Lemma zm_neg d p : (- d) ⋅ p = gneg go ((d) ⋅ p).
  Proof. apply gneg_unique. rewrite <- zm_add. replace (d + - d) with 0 by lia. apply zm_0. Qed.
  Lemma zm_gneg d p : (d) ⋅ (gneg go p) = gneg go ((d) ⋅ p).
  Proof. apply gneg_unique. rewrite <- zm_dist, (gl_inv fo go GL). apply zm_O. Qed.

  (* ---- sums ---- *)
  Fixpoint gsum (l : list G) : G := match l with [] => O | x :: l' => x ⊕ gsum l' end.
  (* weighted sum  sum_k [j + k] b_k *)
  Fixpoint wsum (j : Z) (l : list G) : G := match l with [] => O | b :: l' => (j) ⋅ b ⊕ wsum (j + 1) l' end.

  Lemma wsum_shift l : forall j, wsum (j + 1) l = wsum j l ⊕ gsum l.
  Proof.
    induction l as [|b l IH]; intros j; cbn [wsum gsum]; [symmetry; apply gid_r'|].
    rewrite IH, zm_add, zm_1. aac_reflexivity.
  Qed.

  (* the running-sum loop of msmProcessChunk: total = sum_k [k+1] bucket_k *)
  Theorem bucket_reduce_spec buckets : bucket_reduce go buckets = wsum 1 buckets.
  Proof.
    unfold bucket_reduce.
    assert (H : fold_right (fun b (st : G * G) => (fst st ⊕ b, snd st ⊕ (fst st ⊕ b))) (O, O) buckets
                = (gsum buckets, wsum 1 buckets)).
    { induction buckets as [|b bs IH]; cbn [fold_right gsum wsum]; [reflexivity|].
      rewrite IH. cbn [fst snd]. f_equal; [aac_reflexivity|].
      rewrite (wsum_shift bs 1), zm_1. aac_reflexivity. }
    rewrite H. reflexivity.
  Qed.

  Lemma wsum_update bs : forall (k : nat) j (f : G -> G) (delta : G),
    (k < length bs)%nat -> (forall b, f b = b ⊕ delta) ->
    wsum j (list_update bs k f) = wsum j bs ⊕ (j + Z.of_nat k) ⋅ delta.
  Proof.
    induction bs as [|b bs IH]; intros k j f delta Hk Hf; [cbn in Hk; lia|].
    destruct k as [|k]; cbn [list_update wsum].
    - rewrite Hf, zm_dist. replace (j + Z.of_nat 0) with j by lia. aac_reflexivity.
    - rewrite (IH k (j + 1) f delta) by (try assumption; cbn in Hk; lia).
      replace (j + 1 + Z.of_nat k) with (j + Z.of_nat (S k)) by lia. aac_reflexivity.
  Qed.

  Lemma list_update_length {A} (l : list A) k f : length (list_update l k f) = length l.
  Proof. revert k; induction l as [|x l IH]; intros [|k]; cbn; auto. Qed.

  (* sum_i [d_i] p_i *)
  Fixpoint msmz (pds : list (G * Z)) : G :=
    match pds with [] => O | (p, d) :: r => (d) ⋅ p ⊕ msmz r end.

  Definition digits_in (nb : nat) (pds : list (G * Z)) : Prop :=
    Forall (fun pd : G * Z => - Z.of_nat nb <= snd pd <= Z.of_nat nb) pds.

  Lemma accumulate_gen nb pds : forall buckets, length buckets = nb -> digits_in nb pds ->
    wsum 1 (fold_left (fun bk (pd : G * Z) =>
                         let '(p, d) := pd in
                         if d =? 0 then bk
                         else if 0 <? d then list_update bk (Z.to_nat (d - 1)) (fun b => p ⊕ b)
                         else list_update bk (Z.to_nat (- d - 1)) (fun b => b ⊕ gneg go p)) pds buckets)
    = wsum 1 buckets ⊕ msmz pds.
  Proof.
    induction pds as [|[p d] pds IH]; intros buckets Hlen Hd; cbn [fold_left msmz]; [symmetry; apply gid_r'|].
    pose proof (Forall_inv Hd) as Hd1. pose proof (Forall_inv_tail Hd) as Hd'. cbn [snd] in Hd1.
    destruct (Z.eqb_spec d 0) as [->|Hnz].
    - rewrite IH by assumption. rewrite zm_0, gid_l. reflexivity.
    - destruct (Z.ltb_spec 0 d) as [Hpos|Hneg].
      + rewrite IH by (rewrite ?list_update_length; assumption).
        rewrite (wsum_update buckets (Z.to_nat (d - 1)) 1 _ p) by (try lia; intros b; apply (gl_comm fo go GL)).
        replace (1 + Z.of_nat (Z.to_nat (d - 1))) with d by lia. aac_reflexivity.
      + rewrite IH by (rewrite ?list_update_length; assumption).
        rewrite (wsum_update buckets (Z.to_nat (- d - 1)) 1 _ (gneg go p)) by (try lia; intros b; reflexivity).
        replace (1 + Z.of_nat (Z.to_nat (- d - 1))) with (- d) by lia.
        rewrite zm_gneg, <- zm_neg. replace (- - d) with d by lia. aac_reflexivity.
  Qed.

  Lemma wsum_zero n : forall j, wsum j (repeat O n) = O.
  Proof. induction n as [|n IH]; intros j; cbn [repeat wsum]; [reflexivity|]. rewrite IH, zm_O. apply gid_l. Qed.

  (* msmProcessChunk: for every list of (point, signed digit) with |digit| <= number of
     buckets, the chunk total is sum_i [d_i] P_i  (digit 0 skipped, negative digits subtract) *)
  Theorem process_chunk_spec nb pds : digits_in nb pds -> process_chunk go nb pds = msmz pds.
  Proof.
    intros Hd. unfold process_chunk. rewrite bucket_reduce_spec. unfold bucket_accumulate.
    rewrite (accumulate_gen nb pds (repeat O nb)) by (try apply repeat_length; assumption).
    rewrite wsum_zero. apply gid_l.
  Qed.

  (* ---- combination of the chunk totals: c doublings per chunk = Horner in base 2^c ---- *)
  Lemma gdouble_n_spec n : forall p, gdouble_n go n p = (2 ^ Z.of_nat n) ⋅ p.
  Proof.
    induction n as [|n IH]; intros p; cbn [gdouble_n]; [symmetry; apply zm_1|].
    rewrite IH. rewrite Nat2Z.inj_succ, Z.pow_succ_r by lia.
    rewrite Z.mul_comm, zm_mul. f_equal. replace 2 with (1 + 1) by lia. rewrite zm_add, zm_1. reflexivity.
  Qed.

  (* totals given lowest chunk first *)
  Fixpoint hsum (B : Z) (ts : list G) : G := match ts with [] => O | t :: r => t ⊕ (B) ⋅ (hsum B r) end.

  Lemma hsum_snoc B t l : hsum B (l ++ [t]) = hsum B l ⊕ (B ^ Z.of_nat (length l)) ⋅ t.
  Proof.
    induction l as [|x l IH]; cbn [app hsum length].
    - cbn. rewrite zm_1, zm_O, gid_r', gid_l. reflexivity.
    - rewrite IH. rewrite zm_dist, Nat2Z.inj_succ, Z.pow_succ_r by lia. rewrite <- zm_mul. aac_reflexivity.
  Qed.

  Theorem reduce_chunks_spec c ts : reduce_chunks go c (rev ts) = hsum (2 ^ Z.of_nat c) ts.
  Proof.
    unfold reduce_chunks. set (B := 2 ^ Z.of_nat c).
    assert (H : forall ts acc, fold_left (fun acc tj => gdouble_n go c acc ⊕ tj) (rev ts) acc
                               = hsum B ts ⊕ (B ^ Z.of_nat (length ts)) ⋅ acc).
    { induction ts0 as [|t r IH]; intros acc; cbn [rev fold_left hsum length].
      - cbn. rewrite zm_1. symmetry. apply gid_l.
      - rewrite fold_left_app. cbn [fold_left]. rewrite IH, gdouble_n_spec. fold B.
        rewrite Nat2Z.inj_succ, Z.pow_succ_r by lia. rewrite zm_dist, <- zm_mul. aac_reflexivity. }
    destruct (rev ts) as [|t rest] eqn:E.
    - assert (ts = []) by (destruct ts; [reflexivity|]; cbn in E; destruct (rev ts); discriminate). subst. reflexivity.
    - (* ts = rev rest ++ [t] *)
      assert (Ets : ts = rev rest ++ [t]) by (rewrite <- (rev_involutive ts), E; reflexivity).
      rewrite <- (rev_involutive rest) at 1. rewrite H. rewrite Ets, hsum_snoc. reflexivity.
  Qed.

  (* linearity of msmz in the digit vector: Horner on digit vectors *)
  Fixpoint msmzv (ps : list G) (ds : list Z) : G :=
    match ps, ds with p :: ps', d :: ds' => (d) ⋅ p ⊕ msmzv ps' ds' | _, _ => O end.
  Lemma msmz_combine ps : forall ds, msmz (combine ps ds) = msmzv ps ds.
  Proof. induction ps as [|p ps IH]; intros [|d ds]; cbn; auto. rewrite IH. reflexivity. Qed.

  Fixpoint vaddz (a b : list Z) : list Z :=
    match a, b with x :: a', y :: b' => (x + y) :: vaddz a' b' | _, _ => [] end.
  Lemma msmzv_add ps : forall a b, length a = length ps -> length b = length ps ->
    msmzv ps (vaddz a b) = msmzv ps a ⊕ msmzv ps b.
  Proof.
    induction ps as [|p ps IH]; intros [|x a] [|y b] Ha Hb; try discriminate; cbn [msmzv vaddz].
    - symmetry. apply gid_l.
    - rewrite IH by (cbn in *; lia). rewrite zm_add. aac_reflexivity.
  Qed.
  Lemma msmzv_scale B ps : forall a, msmzv ps (map (Z.mul B) a) = (B) ⋅ (msmzv ps a).
  Proof.
    induction ps as [|p ps IH]; intros [|x a]; cbn [msmzv map]; try (symmetry; apply zm_O).
    rewrite IH, zm_dist, zm_mul. reflexivity.
  Qed.

  (* digit matrix: one digit vector per chunk (lowest chunk first), all of the same length *)
  Fixpoint vhorner (B : Z) (n : nat) (Ds : list (list Z)) : list Z :=
    match Ds with [] => repeat 0 n | D :: r => vaddz D (map (Z.mul B) (vhorner B n r)) end.
  Lemma vhorner_length B n Ds : Forall (fun D => length D = n) Ds -> length (vhorner B n Ds) = n.
  Proof.
    induction 1 as [|D r HD _ IH]; cbn [vhorner]; [apply repeat_length|].
    assert (L : forall a b : list Z, length a = n -> length b = n -> length (vaddz a b) = n).
    { clear. intros a. revert n. induction a as [|x a IH]; intros n [|y b] Ha Hb; cbn in *; try lia.
      destruct n; [discriminate|]. f_equal. apply IH; lia. }
    apply L; [exact HD|rewrite map_length; exact IH].
  Qed.
  Lemma msmzv_zero ps : forall n, msmzv ps (repeat 0 n) = O.
  Proof. induction ps as [|p ps IH]; intros [|n]; cbn; auto. rewrite IH, zm_0. apply gid_l. Qed.

  (* bucket method, all chunks: Horner combination of the per-chunk totals = one MSM with
     the recombined digits  sum_j 2^(c j) d_{i,j} *)
  Theorem chunks_horner B ps Ds : Forall (fun D => length D = length ps) Ds ->
    hsum B (map (msmzv ps) Ds) = msmzv ps (vhorner B (length ps) Ds).
  Proof.
    induction 1 as [|D r HD Hr IH]; cbn [map hsum vhorner]; [symmetry; apply msmzv_zero|].
    rewrite IH. rewrite msmzv_add by (rewrite ?map_length, ?vhorner_length; auto).
    rewrite msmzv_scale. reflexivity.
  Qed.

  (* the split MSM: partial sums over any partition of the point list add up *)
  Theorem msmzv_app ps1 : forall ds1 ps2 ds2, length ps1 = length ds1 ->
    msmzv (ps1 ++ ps2) (ds1 ++ ds2) = msmzv ps1 ds1 ⊕ msmzv ps2 ds2.
  Proof.
    induction ps1 as [|p ps1 IH]; intros [|d ds1] ps2 ds2 H; try discriminate; cbn [app msmzv].
    - symmetry. apply gid_l.
    - rewrite IH by (cbn in H; lia). aac_reflexivity.
  Qed.
End Msm.
