(* The verifier's decision depends on its group-element inputs (commitments, D, L_j, R_j)
   only up to any equivalence that is a congruence for the group operations and that the
   encoding and Equal respect (for Banderwagon: same class under every projective
   representation - C07 / C08). *)
From Coq Require Import ZArith List Bool Lia.
From GoIpa Require Import Model.Bytes Model.Alg Model.Transcript Model.Bary Model.Banderwagon Model.IPA Model.Multiproof.
Import ListNotations.

Section Repr.
  Context {F G : Type} (fo : FOps F) (go : GOps F G) (hashf : list Z -> list Z).
  Variable eqv : G -> G -> Prop.
  Hypothesis eqv_refl : forall a, eqv a a.
  Hypothesis gadd_compat : forall a a' b b', eqv a a' -> eqv b b' -> eqv (gadd go a b) (gadd go a' b').
  Hypothesis gmul_compat : forall s p p', eqv p p' -> eqv (gmul go s p) (gmul go s p').
  Hypothesis gneg_compat : forall a a', eqv a a' -> eqv (gneg go a) (gneg go a').
  Hypothesis genc_compat : forall a a', eqv a a' -> genc go a = genc go a'.
  Hypothesis geqb_compat : forall a a' b b', eqv a a' -> eqv b b' -> geqb go a b = geqb go a' b'.

  Lemma msm_compat ps ps' : Forall2 eqv ps ps' -> forall ss, eqv (msm go ps ss) (msm go ps' ss).
  Proof.
    induction 1 as [|p p' ps ps' Hp _ IH]; intros [|s ss]; cbn [msm]; try apply eqv_refl.
    apply gadd_compat; [apply gmul_compat, Hp|apply IH].
  Qed.

  Lemma absorb_compat cs cs' : Forall2 eqv cs cs' -> forall t zs ys,
    absorb_openings fo go t cs zs ys = absorb_openings fo go t cs' zs ys.
  Proof.
    induction 1 as [|c c' cs cs' Hc _ IH]; intros t zs ys; [reflexivity|].
    destruct zs as [|z zs], ys as [|y ys]; cbn [absorb_openings]; try reflexivity.
    rewrite (genc_compat c c' Hc). apply IH.
  Qed.

  Lemma gen_challenges_compat L L' : Forall2 eqv L L' -> forall R R' t, Forall2 eqv R R' ->
    gen_challenges fo go hashf t L R = gen_challenges fo go hashf t L' R'.
  Proof.
    induction 1 as [|l l' L L' Hl _ IH]; intros R R' t HR.
    - destruct HR; reflexivity.
    - destruct HR as [|r r' R R' Hr HR]; cbn [gen_challenges]; [reflexivity|].
      rewrite (genc_compat l l' Hl), (genc_compat r r' Hr).
      destruct (t_challenge fo hashf _ lbl_x) as [t1 x]. rewrite (IH R R' t1 HR). reflexivity.
  Qed.

  Lemma fold_commitment_compat xs : forall xis L L' R R' c c',
    Forall2 eqv L L' -> Forall2 eqv R R' -> eqv c c' ->
    eqv (fold_commitment fo go c xs xis L R) (fold_commitment fo go c' xs xis L' R').
  Proof.
    induction xs as [|x xs IH]; intros xis L L' R R' c c' HL HR Hc; cbn [fold_commitment]; [exact Hc|].
    destruct xis as [|xi xis]; [exact Hc|].
    destruct HL as [|l l' L L' Hl HL]; [exact Hc|]. destruct HR as [|r r' R R' Hr HR]; [exact Hc|].
    apply IH; try assumption. cbn [msm].
    repeat (apply gadd_compat || apply gmul_compat || apply eqv_refl); assumption.
  Qed.

  Lemma Forall2_length' {A} (P : A -> A -> Prop) l l' : Forall2 P l l' -> length l = length l'.
  Proof. induction 1; cbn; auto. Qed.

  Theorem ipa_check_compat t cfg c c' L L' R R' a z res :
    eqv c c' -> Forall2 eqv L L' -> Forall2 eqv R R' ->
    ipa_check fo go hashf t cfg c (mkIPA L R a) z res = ipa_check fo go hashf t cfg c' (mkIPA L' R' a) z res.
  Proof.
    intros Hc HL HR. unfold ipa_check. cbn [pL pR pA].
    rewrite <- (Forall2_length' eqv L L' HL), <- (Forall2_length' eqv R R' HR).
    destruct (negb (Nat.eqb (length L) (length R))); [reflexivity|].
    destruct (negb (Nat.eqb (length L) (c_rounds cfg))); [reflexivity|].
    rewrite (genc_compat c c' Hc).
    destruct (t_challenge fo hashf _ lbl_w) as [t1 w].
    rewrite (gen_challenges_compat L L' HL R R' t1 HR).
    destruct (gen_challenges fo go hashf t1 L' R') as [t2 xs].
    f_equal. f_equal. apply geqb_compat; [apply eqv_refl|].
    apply fold_commitment_compat; try assumption. apply gadd_compat; [exact Hc|apply eqv_refl].
  Qed.

  (* CheckMultiProof: replacing every commitment, D, and every L_j / R_j by an equivalent
     representation does not change the result (decision, error, final transcript) *)
  Theorem mp_check_compat t cfg cs cs' D D' L L' R R' a ys zs :
    Forall2 eqv cs cs' -> eqv D D' -> Forall2 eqv L L' -> Forall2 eqv R R' ->
    mp_check fo go hashf t cfg (mkMP (mkIPA L R a) D) cs ys zs
    = mp_check fo go hashf t cfg (mkMP (mkIPA L' R' a) D') cs' ys zs.
  Proof.
    intros Hcs HD HL HR. unfold mp_check. cbn [mpD mpIPA].
    rewrite <- (Forall2_length' eqv cs cs' Hcs).
    destruct (negb (Nat.eqb (length cs) (length ys))); [reflexivity|].
    destruct (negb (Nat.eqb (length cs) (length zs))); [reflexivity|].
    destruct (Nat.eqb (length cs) 0); [reflexivity|].
    rewrite (absorb_compat cs cs' Hcs).
    destruct (t_challenge fo hashf _ lbl_r) as [t1 r].
    rewrite (genc_compat D D' HD).
    destruct (t_challenge fo hashf _ lbl_t) as [t2 tch].
    set (sc := map _ (combine (powers_of fo r (length cs)) zs)).
    assert (HE : eqv (msm go cs sc) (msm go cs' sc)) by (apply msm_compat, Hcs).
    rewrite (genc_compat _ _ HE).
    apply ipa_check_compat; try assumption.
    apply gadd_compat; [exact HE|apply gneg_compat, HD].
  Qed.

  (* CreateMultiProof uses the given commitments only through their encoding *)
  Theorem mp_create_compat nw arrival t cfg commit cs cs' fs zs :
    Forall2 eqv cs cs' ->
    mp_create fo go hashf nw arrival t cfg commit cs fs zs = mp_create fo go hashf nw arrival t cfg commit cs' fs zs.
  Proof.
    intros Hcs. unfold mp_create. rewrite <- (Forall2_length' eqv cs cs' Hcs).
    rewrite (absorb_compat cs cs' Hcs). reflexivity.
  Qed.
End Repr.
