(* Representation-level facts about Banderwagon elements: class (x,y) ~ (-x,-y),
   Equal as cross-multiplication, map-to-field X/Y, normalisation, batch helpers.
   Generic part over any ring with partial inverse (FieldLaws); concrete part on Fp. *)
From Coq Require Import ZArith List Bool Lia Ring.
From GoIpa Require Import Model.Bytes Model.Zq Model.Alg Model.Edwards Model.FpSqrt Model.Banderwagon
  Proofs.AlgLaws Proofs.EdwardsProofs Proofs.ZqProofs Proofs.ZqField Proofs.BytesProofs.
Import ListNotations.

Section Generic.
  Context {F : Type} (fo : FOps F) (FL : FieldLaws fo) (ca cd : F).
  Local Notation "0" := (f0 fo).
  Local Notation "1" := (f1 fo).
  Local Infix "+" := (fadd fo).
  Local Infix "*" := (fmul fo).
  Local Infix "-" := (fsub fo).
  Local Notation "- x" := (fneg fo x).
  Local Notation inv := (finv fo).
  Local Notation invertible := (invertible fo).
  Local Notation rep := (rep fo).
  Add Ring FringG : (fl_ring fo FL).

  (* the other member of the Banderwagon class *)
  Definition flip (p : aff (F := F)) : aff (F := F) := (- fst p, - snd p).
  Definition class_eq (p q : aff (F := F)) : Prop := q = p \/ q = flip p.

  Lemma flip_flip p : flip (flip p) = p.
  Proof. destruct p as [x y]. unfold flip; cbn. f_equal; ring. Qed.

  Lemma class_eq_refl p : class_eq p p. Proof. left; reflexivity. Qed.
  Lemma class_eq_sym p q : class_eq p q -> class_eq q p.
  Proof. intros [->| ->]; [left; reflexivity|right; symmetry; apply flip_flip]. Qed.
  Lemma class_eq_trans p q r : class_eq p q -> class_eq q r -> class_eq p r.
  Proof.
    intros [->| ->] [->| ->]; try (left; reflexivity); try (right; reflexivity).
    left. apply flip_flip.
  Qed.

  (* the law is compatible with the class: flipping one operand flips the sum *)
  Theorem a_add_flip_l p q : a_add fo ca cd (flip p) q = flip (a_add fo ca cd p q).
  Proof.
    destruct p as [x1 y1], q as [x2 y2]. unfold flip, a_add; cbn [fst snd].
    replace (cd * (- x1 * x2) * (- y1 * y2)) with (cd * (x1 * x2) * (y1 * y2)) by ring.
    f_equal; ring.
  Qed.
  Theorem a_add_flip_r p q : a_add fo ca cd p (flip q) = flip (a_add fo ca cd p q).
  Proof.
    destruct p as [x1 y1], q as [x2 y2]. unfold flip, a_add; cbn [fst snd].
    replace (cd * (x1 * - x2) * (y1 * - y2)) with (cd * (x1 * x2) * (y1 * y2)) by ring.
    f_equal; ring.
  Qed.
  Theorem a_neg_flip p : a_neg fo (flip p) = flip (a_neg fo p).
  Proof. destruct p as [x y]. reflexivity. Qed.

  Theorem a_add_class p p' q q' :
    class_eq p p' -> class_eq q q' ->
    class_eq (a_add fo ca cd p q) (a_add fo ca cd p' q').
  Proof.
    intros [->| ->] [->| ->]; rewrite ?a_add_flip_l, ?a_add_flip_r, ?flip_flip;
      try (left; reflexivity); right; reflexivity.
  Qed.

  Lemma law_t_flip_l p q : law_t fo cd (flip p) q = law_t fo cd p q.
  Proof. destruct p as [x1 y1], q as [x2 y2]. unfold law_t, flip; cbn. ring. Qed.
  Lemma law_t_flip_r p q : law_t fo cd p (flip q) = law_t fo cd p q.
  Proof. destruct p as [x1 y1], q as [x2 y2]. unfold law_t, flip; cbn. ring. Qed.

  Lemma curve_eq_flip p : curve_eq fo ca cd p -> curve_eq fo ca cd (flip p).
  Proof.
    destruct p as [x y]. unfold curve_eq, flip; cbn [fst snd]. intros H.
    replace (- x * - x) with (x * x) by ring. replace (- y * - y) with (y * y) by ring. exact H.
  Qed.

  (* the sign-flipped representation (-X, -Y, Z) represents the flipped point *)
  Lemma rep_flip P p : rep P p ->
    rep (let '(X, Y, Z) := P in (- X, - Y, Z)) (flip p).
  Proof.
    destruct P as [[X Y] Z], p as [x y]. unfold EdwardsProofs.rep, flip; cbn [fst snd].
    intros (HZ & -> & ->). repeat split; [exact HZ|ring|ring].
  Qed.

  (* Equal as coded: cross multiplication X1*Y2 = Y1*X2 *)
  Definition cross_eq (P Q : proj (F := F)) : Prop :=
    let '(X1, Y1, _) := P in let '(X2, Y2, _) := Q in X1 * Y2 = Y1 * X2.

  Theorem cross_eq_of_class P Q p q : rep P p -> rep Q q -> class_eq p q -> cross_eq P Q.
  Proof.
    destruct P as [[X1 Y1] Z1], Q as [[X2 Y2] Z2], p as [x1 y1], q as [x2 y2].
    unfold EdwardsProofs.rep, cross_eq. intros (_ & -> & ->) (_ & -> & ->) [H|H].
    - injection H as -> ->. ring.
    - unfold flip in H; cbn in H. injection H as -> ->. ring.
  Qed.

  (* ... and conversely cross_eq means equal slopes x/y of the represented points *)
  Theorem cross_eq_slopes P Q p q :
    rep P p -> rep Q q -> invertible (snd p) -> invertible (snd q) ->
    cross_eq P Q -> fst p * inv (snd p) = fst q * inv (snd q).
  Proof.
    destruct P as [[X1 Y1] Z1], Q as [[X2 Y2] Z2], p as [x1 y1], q as [x2 y2].
    unfold EdwardsProofs.rep, cross_eq; cbn [fst snd].
    intros (HZ1 & -> & ->) (HZ2 & -> & ->) Hy1 Hy2 H.
    assert (H' : x1 * y2 = y1 * x2).
    { transitivity ((x1 * Z1 * (y2 * Z2)) * (inv Z1 * inv Z2)).
      - transitivity (x1 * y2 * ((Z1 * inv Z1) * (Z2 * inv Z2))); [|ring].
        rewrite (finv_r fo FL Z1 HZ1), (finv_r fo FL Z2 HZ2). ring.
      - rewrite H. transitivity (y1 * x2 * ((Z1 * inv Z1) * (Z2 * inv Z2))); [ring|].
        rewrite (finv_r fo FL Z1 HZ1), (finv_r fo FL Z2 HZ2). ring. }
    transitivity ((x1 * y2) * (inv y1 * inv y2)).
    - transitivity (x1 * inv y1 * (y2 * inv y2)); [|ring].
      rewrite (finv_r fo FL y2 Hy2). ring.
    - rewrite H'. transitivity (x2 * inv y2 * (y1 * inv y1)); [ring|].
      rewrite (finv_r fo FL y1 Hy1). ring.
  Qed.

  (* MapToScalarField's X / Y depends only on the class of the represented point *)
  Theorem slope_rep P p :
    rep P p -> invertible (snd p) ->
    (let '(X, Y, _) := P in X * inv Y) = fst p * inv (snd p).
  Proof.
    destruct P as [[X Y] Z], p as [x y]. unfold EdwardsProofs.rep; cbn [fst snd].
    intros (HZ & -> & ->) Hy.
    rewrite (finv_mul fo FL y Z Hy HZ).
    transitivity (x * inv y * (Z * inv Z)); [ring|]. rewrite (finv_r fo FL Z HZ). ring.
  Qed.

  Theorem slope_flip p : invertible (snd p) ->
    fst (flip p) * inv (snd (flip p)) = fst p * inv (snd p).
  Proof.
    destruct p as [x y]; unfold flip; cbn [fst snd]. intros Hy.
    assert (Hny : invertible (- y)).
    { destruct Hy as [z Hz]. exists (- z). rewrite <- Hz. ring. }
    assert (E : inv (- y) = - inv y).
    { apply (inverse_unique fo FL (- y)); [apply (finv_r fo FL), Hny|].
      transitivity (y * inv y); [ring|apply (finv_r fo FL), Hy]. }
    rewrite E. ring.
  Qed.

  (* Normalize: (X/Z, Y/Z, 1) represents the same point and has Z = 1 *)
  Theorem normalize_rep P p :
    rep P p -> rep (let '(x, y) := p_to_affine fo P in (x, y, 1)) p
               /\ (let '(x, y) := p_to_affine fo P in (x, y, 1)) = (fst p, snd p, 1).
  Proof.
    intros H. rewrite (p_to_affine_correct fo FL P p H). destruct p as [x y]; cbn [fst snd].
    split; [|reflexivity]. unfold EdwardsProofs.rep. repeat split; [apply invertible_1, FL|ring|ring].
  Qed.
End Generic.
