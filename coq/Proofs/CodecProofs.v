From Coq Require Import ZArith List Bool Lia.
From GoIpa Require Import Model.Bytes Model.Zq Model.Codec Proofs.BytesProofs Proofs.ZqProofs.
Import ListNotations.
Open Scope Z_scope.

Lemma pow256_32 : 256 ^ Z.of_nat 32 = 2 ^ 256. Proof. reflexivity. Qed.

Lemma fr_val_range (s : Fr) : 0 <= zval s < r_mod.
Proof. apply zval_range. reflexivity. Qed.

Lemma fr_val_lt_pow (s : Fr) : 0 <= zval s < 256 ^ Z.of_nat 32.
Proof.
  pose proof (fr_val_range s). pose proof r_mod_lt_2_253. rewrite pow256_32.
  assert (2 ^ 253 < 2 ^ 256) by reflexivity. lia.
Qed.

Lemma fr_set_big_int_val v : zval (fr_set_big_int v) = v mod r_mod.
Proof.
  unfold fr_set_big_int.
  destruct (v =? r_mod) eqn:E1.
  - apply Z.eqb_eq in E1. subst v. unfold fr. rewrite zval_of_Z. now rewrite Z.mod_same by discriminate.
  - destruct ((v <? r_mod) && (0 <=? v)); unfold fr; rewrite zval_of_Z; [reflexivity|apply Zmod_mod].
Qed.

(* reducing decoders: value = integer value of the string mod r, any length *)
Lemma fr_set_bytes_reduces b : zval (fst (fr_set_bytes b)) = be_val b mod r_mod.
Proof. apply fr_set_big_int_val. Qed.
Lemma fr_set_bytes_le_reduces b : zval (fst (fr_set_bytes_le b)) = le_val b mod r_mod.
Proof. apply fr_set_big_int_val. Qed.

(* round trips *)
Lemma fr_bytes_roundtrip (s : Fr) : fst (fr_set_bytes (fr_bytes s)) = s.
Proof.
  apply zq_eq. rewrite fr_set_bytes_reduces. unfold fr_bytes.
  rewrite be_val_enc, (Z.mod_small (zval s)) by apply fr_val_lt_pow.
  apply zval_canon.
Qed.
Lemma fr_bytes_le_roundtrip (s : Fr) : fst (fr_set_bytes_le (fr_bytes_le s)) = s.
Proof.
  apply zq_eq. rewrite fr_set_bytes_le_reduces. unfold fr_bytes_le.
  rewrite le_val_enc, (Z.mod_small (zval s)) by apply fr_val_lt_pow.
  apply zval_canon.
Qed.
Lemma fr_bytes_le_canonical_roundtrip (s : Fr) :
  fst (fr_set_bytes_le_canonical (fr_bytes_le s)) = Some s.
Proof.
  unfold fr_set_bytes_le_canonical, fr_bytes_le.
  rewrite le_val_enc, (Z.mod_small (zval s)) by apply fr_val_lt_pow.
  pose proof (fr_val_range s) as H. destruct (zval s <? r_mod) eqn:E; [|lia].
  cbn [fst]. f_equal. apply zq_eq. rewrite fr_set_big_int_val. apply zval_canon.
Qed.

(* canonical decoder: accepts exactly the strings whose value is < r *)
Lemma fr_le_canonical_accepts_iff b :
  (exists s, fst (fr_set_bytes_le_canonical b) = Some s /\ zval s = le_val b)
  <-> le_val b < r_mod /\ 0 <= le_val b.
Proof.
  unfold fr_set_bytes_le_canonical. split.
  - intros (s & H & Hv). destruct (le_val b <? r_mod) eqn:E; cbn in H; [|discriminate].
    split; [lia|]. rewrite <- Hv. apply fr_val_range.
  - intros [H1 H2]. destruct (le_val b <? r_mod) eqn:E; [|lia]. eexists; split; [reflexivity|].
    rewrite fr_set_big_int_val. apply Z.mod_small; lia.
Qed.
Lemma fr_le_canonical_rejects b :
  r_mod <= le_val b -> fst (fr_set_bytes_le_canonical b) = None.
Proof. unfold fr_set_bytes_le_canonical. intros H. destruct (le_val b <? r_mod) eqn:E; [lia|reflexivity]. Qed.

(* no decoder modifies its input; hence decoding twice gives the same scalar *)
Lemma decoders_leave_input b :
  snd (fr_set_bytes b) = b /\ snd (fr_set_bytes_le b) = b /\ snd (fr_set_bytes_le_canonical b) = b.
Proof. unfold fr_set_bytes, fr_set_bytes_le, fr_set_bytes_le_canonical. destruct (le_val b <? r_mod); auto. Qed.

Lemma decode_twice_same b :
  fst (fr_set_bytes (snd (fr_set_bytes b))) = fst (fr_set_bytes b)
  /\ fst (fr_set_bytes_le (snd (fr_set_bytes_le b))) = fst (fr_set_bytes_le b)
  /\ fst (fr_set_bytes_le_canonical (snd (fr_set_bytes_le_canonical b))) = fst (fr_set_bytes_le_canonical b).
Proof. destruct (decoders_leave_input b) as (-> & -> & ->). auto. Qed.

(* the pre-repair decoder computed the right value ... *)
Lemma fr_set_bytes_le_prefix_value b : fst (fr_set_bytes_le_prefix b) = fst (fr_set_bytes_le b).
Proof. unfold fr_set_bytes_le_prefix, fr_set_bytes_le. cbn [fst]. now rewrite be_val_rev. Qed.
(* ... but wrote to the caller's buffer (finding F1) *)
Lemma fr_set_bytes_le_prefix_mutates :
  exists b, snd (fr_set_bytes_le_prefix b) <> b
            /\ fst (fr_set_bytes_le_prefix (snd (fr_set_bytes_le_prefix b))) <> fst (fr_set_bytes_le_prefix b).
Proof.
  exists [1; 2]. split; [cbn; congruence|].
  intros H. apply (f_equal zval) in H. vm_compute in H. discriminate.
Qed.

Lemma fp_val_range (x : Fp) : 0 <= zval x < p_mod.
Proof. apply zval_range. reflexivity. Qed.
Lemma fp_bytes_le_spec (x : Fp) : le_val (fp_bytes_le x) = zval x /\ length (fp_bytes_le x) = 32%nat.
Proof.
  unfold fp_bytes_le. rewrite le_val_enc, le_enc_length. split; [|reflexivity].
  apply Z.mod_small. pose proof (fp_val_range x). pose proof p_mod_lt_2_255.
  rewrite pow256_32. assert (2 ^ 255 < 2 ^ 256) by reflexivity. lia.
Qed.

Lemma fr_bytes_length (s : Fr) : length (fr_bytes s) = 32%nat /\ length (fr_bytes_le s) = 32%nat.
Proof. unfold fr_bytes, fr_bytes_le. now rewrite be_enc_length, le_enc_length. Qed.

Lemma fr_bytes_le_inj (s t : Fr) : fr_bytes_le s = fr_bytes_le t -> s = t.
Proof.
  intros H. apply zq_eq. eapply le_enc_inj; [apply fr_val_lt_pow|apply fr_val_lt_pow|exact H].
Qed.
