(* Consequences of primality of the scalar-field modulus (an explicit premise, never an axiom):
   every non-zero scalar is invertible, hence every point outside the domain 0..255 is "off the
   domain" in the sense of the barycentric theorems, and the opened value of the IPA is p(z) at
   EVERY scalar z. *)
From Coq Require Import ZArith List Bool Lia Znumtheory.
From GoIpa Require Import Model.Zq Model.Alg Model.Bary Model.FpSqrt Model.IPA Model.Concrete
  Proofs.AlgLaws Proofs.ZqProofs Proofs.ZqField Proofs.BaryProofs Proofs.BaryPoly.
Import ListNotations.
Open Scope Z_scope.

Section PrimeFr.
  Hypothesis r_prime : prime r_mod.

  Lemma fr_nonzero_invertible (y : Fr) : zval y <> 0 -> invertible fro y.
  Proof.
    intros Hy. pose proof r_mod_gt1 as Hr.
    assert (Hrange : 0 <= zval y < r_mod) by (rewrite <- (zval_canon y); apply Z.mod_pos_bound; lia).
    assert (Hg : Z.gcd (zval y) r_mod = 1).
    { apply Zgcd_1_rel_prime, rel_prime_sym, prime_rel_prime; [exact r_prime|].
      intros Hd. apply Z.mod_divide in Hd; [|lia]. rewrite Z.mod_small in Hd; lia. }
    destruct (rel_prime_bezout _ _ (proj1 (Zgcd_1_rel_prime _ _) Hg)) as [u v Huv].
    exists (fr u). cbn [fmul f1 fro]. apply zq_eq. unfold zq_mul, fr, zq_one. rewrite !zval_of_Z.
    rewrite Z.mul_mod_idemp_r by lia.
    replace (zval y * u) with (1 + (- v) * r_mod) by lia. rewrite Z_mod_plus_full. reflexivity.
  Qed.

  (* every scalar whose canonical value is above 255 is off the domain *)
  Lemma off_domain_of_large (z : Fr) : 255 < zval z -> off_domain fro 256 z.
  Proof.
    intros Hz i Hi. apply fr_nonzero_invertible. pose proof r_mod_gt1 as Hr.
    assert (Hrange : 0 <= zval z < r_mod) by (rewrite <- (zval_canon z); apply Z.mod_pos_bound; lia).
    assert (H256 : 256 < r_mod) by reflexivity.
    unfold dom. cbn [fsub fofz fro]. unfold zq_sub, fr. rewrite !zval_of_Z.
    rewrite (Z.mod_small (Z.of_nat i)) by lia. rewrite Z.mod_small by lia. lia.
  Qed.

  (* the IPA opens p(z) at every scalar z, for every polynomial of degree < 256 *)
  Theorem concrete_opened_value_everywhere srs (q : list Fr) (z : Fr) :
    (length q <= 256)%nat ->
    inner fro (map (fun i => peval fro q (dom fro i)) (seq 0 256)) (c_compute_b srs z) = peval fro q z.
  Proof. intros Hq. apply concrete_opened_value; [exact Hq|apply off_domain_of_large]. Qed.
End PrimeFr.
