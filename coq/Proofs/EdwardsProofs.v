(* The coordinate formulas of the code (gnark-crypto PointProj / PointExtended,
   repo ExtendedAddNormalized, PointExtendedFromProj) compute the affine twisted
   Edwards law.  Generic over a commutative ring with partial inverse; the
   premises are: Z coordinates invertible and the two denominators 1 +- d x1x2y1y2
   of the law invertible. *)
From Coq Require Import ZArith List Bool Lia Ring.
From GoIpa Require Import Model.Alg Model.Edwards Proofs.AlgLaws.
Import ListNotations.

Section EdwardsProofs.
  Context {F : Type} (fo : FOps F) (FL : FieldLaws fo) (ca cd : F).
  Local Notation "0" := (f0 fo).
  Local Notation "1" := (f1 fo).
  Local Infix "+" := (fadd fo).
  Local Infix "*" := (fmul fo).
  Local Infix "-" := (fsub fo).
  Local Notation "- x" := (fneg fo x).
  Local Notation inv := (finv fo).
  Local Notation invertible := (invertible fo).
  Add Ring FringE : (fl_ring fo FL).

  (* P represents the affine point p *)
  Definition rep (P : proj (F := F)) (p : aff (F := F)) : Prop :=
    let '(X, Y, Z) := P in let '(x, y) := p in
    invertible Z /\ X = x * Z /\ Y = y * Z.
  Definition rep_ext (P : ext (F := F)) (p : aff (F := F)) : Prop :=
    let '(X, Y, Z, T) := P in let '(x, y) := p in
    invertible Z /\ X = x * Z /\ Y = y * Z /\ T = (x * y) * Z.

  Definition law_t (p q : aff (F := F)) : F :=
    let '(x1, y1) := p in let '(x2, y2) := q in cd * (x1 * x2) * (y1 * y2).
  Definition curve_eq (p : aff (F := F)) : Prop :=
    let '(x, y) := p in ca * (x * x) + y * y = 1 + cd * (x * x) * (y * y).

  Lemma inv_r x : invertible x -> x * inv x = 1.
  Proof. apply finv_r, FL. Qed.

  Lemma inv_1 : inv 1 = 1.
  Proof.
    apply (inverse_unique fo FL 1); [apply inv_r, invertible_1, FL|ring].
  Qed.

  Ltac inv_mul := repeat (apply invertible_mul; [exact FL| |]); try assumption.

  (* x = n * inv d  and  Z3 = d * k  give  n * k = x * Z3 *)
  Lemma frac_rep n d k : invertible d -> n * k = (n * inv d) * (d * k).
  Proof.
    intros H. transitivity (n * k * (d * inv d)); [rewrite (inv_r d H); ring|ring].
  Qed.

  Theorem p_add_correct P1 P2 p1 p2 :
    rep P1 p1 -> rep P2 p2 ->
    invertible (1 + law_t p1 p2) -> invertible (1 - law_t p1 p2) ->
    rep (p_add fo ca cd P1 P2) (a_add fo ca cd p1 p2).
  Proof.
    destruct P1 as [[X1 Y1] Z1], P2 as [[X2 Y2] Z2], p1 as [x1 y1], p2 as [x2 y2].
    unfold rep, law_t, p_add, a_add. intros (HZ1 & -> & ->) (HZ2 & -> & ->) Hp Hm.
    set (t := cd * (x1 * x2) * (y1 * y2)) in *.
    set (B := (Z1 * Z2) * (Z1 * Z2)).
    assert (HB : invertible B) by (unfold B; inv_mul).
    (* Z3 = (B - E)(B + E) = B^2 (1-t)(1+t) *)
    assert (HZ3 : (B - cd * (x1 * Z1 * (x2 * Z2)) * (y1 * Z1 * (y2 * Z2)))
                  * (B + cd * (x1 * Z1 * (x2 * Z2)) * (y1 * Z1 * (y2 * Z2)))
                  = (B * B) * ((1 - t) * (1 + t))) by (unfold B, t; ring).
    rewrite HZ3. repeat split.
    - inv_mul.
    - rewrite (Z.eq_refl 0) || idtac.
      transitivity ((x1 * y2 + y1 * x2) * ((B * B) * (1 - t))); [unfold B, t; ring|].
      rewrite (frac_rep (x1 * y2 + y1 * x2) (1 + t) ((B * B) * (1 - t)) Hp). ring.
    - transitivity ((y1 * y2 - ca * (x1 * x2)) * ((B * B) * (1 + t))); [unfold B, t; ring|].
      rewrite (frac_rep (y1 * y2 - ca * (x1 * x2)) (1 - t) ((B * B) * (1 + t)) Hm). ring.
  Qed.

  Theorem p_mixed_add_correct P1 p1 p2 :
    rep P1 p1 ->
    invertible (1 + law_t p1 p2) -> invertible (1 - law_t p1 p2) ->
    rep (p_mixed_add fo ca cd P1 p2) (a_add fo ca cd p1 p2).
  Proof.
    destruct P1 as [[X1 Y1] Z1], p1 as [x1 y1], p2 as [x2 y2].
    unfold rep, law_t, p_mixed_add, a_add. intros (HZ1 & -> & ->) Hp Hm.
    set (t := cd * (x1 * x2) * (y1 * y2)) in *.
    set (B := Z1 * Z1).
    assert (HB : invertible B) by (unfold B; inv_mul).
    assert (HZ3 : (B - cd * (x1 * Z1 * x2) * (y1 * Z1 * y2)) * (B + cd * (x1 * Z1 * x2) * (y1 * Z1 * y2))
                  = (B * B) * ((1 - t) * (1 + t))) by (unfold B, t; ring).
    rewrite HZ3. repeat split.
    - inv_mul.
    - transitivity ((x1 * y2 + y1 * x2) * ((B * B) * (1 - t))); [unfold B, t; ring|].
      rewrite (frac_rep (x1 * y2 + y1 * x2) (1 + t) ((B * B) * (1 - t)) Hp). ring.
    - transitivity ((y1 * y2 - ca * (x1 * x2)) * ((B * B) * (1 + t))); [unfold B, t; ring|].
      rewrite (frac_rep (y1 * y2 - ca * (x1 * x2)) (1 - t) ((B * B) * (1 + t)) Hm). ring.
  Qed.

  (* doubling uses the curve equation to replace the denominators *)
  Theorem p_double_correct P p :
    rep P p -> curve_eq p ->
    invertible (1 + law_t p p) -> invertible (1 - law_t p p) ->
    rep (p_double fo ca P) (a_add fo ca cd p p).
  Proof.
    destruct P as [[X Y] Z], p as [x y].
    unfold rep, law_t, p_double, a_add, curve_eq. intros (HZ & -> & ->) Hc Hp Hm.
    set (t := cd * (x * x) * (y * y)) in *.
    set (Z4 := (Z * Z) * (Z * Z)).
    assert (HZ4 : invertible Z4) by (unfold Z4; inv_mul).
    assert (Hm1 : invertible (- (1))).
    { exists (- (1)). ring. }
    (* F = Z^2 (1+t), J = - Z^2 (1-t) *)
    assert (HF : ca * (x * Z * (x * Z)) + y * Z * (y * Z) = (Z * Z) * (1 + t)).
    { transitivity ((Z * Z) * (ca * (x * x) + y * y)); [ring|rewrite Hc; unfold t; ring]. }
    assert (HJ : (ca * (x * Z * (x * Z)) + y * Z * (y * Z) - Z * Z) - Z * Z = (- (1)) * ((Z * Z) * (1 - t))).
    { rewrite HF. ring. }
    rewrite HJ, HF. repeat split.
    - replace ((Z * Z) * (1 + t) * ((- (1)) * ((Z * Z) * (1 - t)))) with ((- (1)) * Z4 * ((1 + t) * (1 - t)))
        by (unfold Z4; ring).
      inv_mul.
    - transitivity ((x * y + y * x) * ((- (1)) * Z4 * (1 - t))); [unfold Z4; ring|].
      rewrite (frac_rep (x * y + y * x) (1 + t) ((- (1)) * Z4 * (1 - t)) Hp). unfold Z4. ring.
    - transitivity ((y * y - ca * (x * x)) * ((- (1)) * Z4 * (1 + t))); [unfold Z4; ring|].
      rewrite (frac_rep (y * y - ca * (x * x)) (1 - t) ((- (1)) * Z4 * (1 + t)) Hm). unfold Z4. ring.
  Qed.

  Theorem p_neg_correct P p : rep P p -> rep (p_neg fo P) (a_neg fo p).
  Proof.
    destruct P as [[X Y] Z], p as [x y]. unfold rep, p_neg, a_neg.
    intros (HZ & -> & ->). repeat split; [assumption|ring].
  Qed.

  Theorem p_identity_correct : rep (p_identity fo) (a_zero fo).
  Proof. unfold rep, p_identity, a_zero. repeat split; [apply invertible_1, FL|ring|ring]. Qed.

  Theorem p_from_affine_correct p : rep (p_from_affine fo p) p.
  Proof. destruct p as [x y]. unfold rep, p_from_affine. repeat split; [apply invertible_1, FL|ring|ring]. Qed.

  Theorem p_to_affine_correct P p : rep P p -> p_to_affine fo P = p.
  Proof.
    destruct P as [[X Y] Z], p as [x y]. unfold rep, p_to_affine. intros (HZ & -> & ->).
    f_equal.
    - transitivity (x * (Z * inv Z)); [ring|rewrite (inv_r Z HZ); ring].
    - transitivity (y * (Z * inv Z)); [ring|rewrite (inv_r Z HZ); ring].
  Qed.

  (* representation independence: rescaling keeps the represented point *)
  Theorem rep_rescale P p l :
    rep P p -> invertible l -> rep (let '(X, Y, Z) := P in (l * X, l * Y, l * Z)) p.
  Proof.
    destruct P as [[X Y] Z], p as [x y]. unfold rep. intros (HZ & -> & ->) Hl.
    repeat split; [inv_mul|ring|ring].
  Qed.

  (* ---- extended coordinates ---- *)
  Theorem e_from_proj_correct P p : rep P p -> rep_ext (e_from_proj fo P) p.
  Proof.
    destruct P as [[X Y] Z], p as [x y]. unfold rep, rep_ext, e_from_proj.
    intros (HZ & -> & ->). repeat split; try assumption; try ring.
    transitivity ((x * y) * Z * (Z * inv Z)); [ring|rewrite (inv_r Z HZ); ring].
  Qed.

  Theorem e_to_proj_correct P p : rep_ext P p -> rep (e_to_proj P) p.
  Proof.
    destruct P as [[[X Y] Z] T], p as [x y]. unfold rep, rep_ext, e_to_proj. tauto.
  Qed.

  Theorem e_add_correct P1 P2 p1 p2 :
    rep_ext P1 p1 -> rep_ext P2 p2 ->
    invertible (1 + law_t p1 p2) -> invertible (1 - law_t p1 p2) ->
    rep_ext (e_add fo ca cd P1 P2) (a_add fo ca cd p1 p2).
  Proof.
    destruct P1 as [[[X1 Y1] Z1] T1], P2 as [[[X2 Y2] Z2] T2], p1 as [x1 y1], p2 as [x2 y2].
    unfold rep_ext, law_t, e_add, a_add. intros (HZ1 & -> & -> & ->) (HZ2 & -> & -> & ->) Hp Hm.
    set (t := cd * (x1 * x2) * (y1 * y2)) in *.
    pose (D := Z1 * Z2).
    assert (HD : invertible D) by (unfold D; inv_mul).
    pose (N1 := x1 * y2 + y1 * x2). pose (N2 := y1 * y2 - ca * (x1 * x2)).
    assert (HE : (x2 * Z2 + y2 * Z2) * (x1 * Z1 + y1 * Z1) - x1 * Z1 * (x2 * Z2) - y1 * Z1 * (y2 * Z2) = N1 * D)
      by (unfold N1, D; ring).
    assert (HFm : Z1 * Z2 - x1 * y1 * Z1 * (x2 * y2 * Z2) * cd = D * (1 - t)) by (unfold D, t; ring).
    assert (HGp : Z1 * Z2 + x1 * y1 * Z1 * (x2 * y2 * Z2) * cd = D * (1 + t)) by (unfold D, t; ring).
    assert (HH : y1 * Z1 * (y2 * Z2) - ca * (x1 * Z1 * (x2 * Z2)) = N2 * D) by (unfold N2, D; ring).
    rewrite HE, HFm, HGp, HH. repeat split.
    - replace (D * (1 - t) * (D * (1 + t))) with ((D * D) * ((1 - t) * (1 + t))) by ring. inv_mul.
    - fold N1. transitivity (N1 * ((D * D) * (1 - t))); [ring|].
      rewrite (frac_rep N1 (1 + t) ((D * D) * (1 - t)) Hp). ring.
    - fold N2. transitivity (N2 * ((D * D) * (1 + t))); [ring|].
      rewrite (frac_rep N2 (1 - t) ((D * D) * (1 + t)) Hm). ring.
    - fold N1 N2.
      transitivity ((N1 * N2) * (D * D) * ((1 + t) * inv (1 + t)) * ((1 - t) * inv (1 - t)));
        [rewrite (inv_r _ Hp), (inv_r _ Hm); ring|ring].
  Qed.

  (* repo: ExtendedAddNormalized, second operand normalised (Z2 = 1, T2 = x2 y2) *)
  Theorem e_add_norm_correct P1 p1 p2 :
    rep_ext P1 p1 ->
    invertible (1 + law_t p1 p2) -> invertible (1 - law_t p1 p2) ->
    rep_ext (e_add_norm fo ca cd P1 (fst p2, snd p2, fst p2 * snd p2)) (a_add fo ca cd p1 p2).
  Proof.
    intros H1 Hp Hm.
    assert (H2 : rep_ext (fst p2, snd p2, 1, fst p2 * snd p2) p2).
    { destruct p2 as [x2 y2]; cbn. repeat split; [apply invertible_1, FL|ring|ring|ring]. }
    pose proof (e_add_correct _ _ _ _ H1 H2 Hp Hm) as H.
    destruct P1 as [[[X1 Y1] Z1] T1], p1 as [x1 y1], p2 as [x2 y2].
    unfold e_add_norm, e_add in *. cbn [fst snd] in *.
    replace (Z1 * 1) with Z1 in H by ring. exact H.
  Qed.

  Theorem en_neg_correct x y :
    en_neg fo (x, y, x * y) = (- x, y, (- x) * y).
  Proof. unfold en_neg. f_equal. ring. Qed.

  (* ---- affine law: facts provable by ring reasoning ---- *)
  Theorem a_add_comm p q : a_add fo ca cd p q = a_add fo ca cd q p.
  Proof.
    destruct p as [x1 y1], q as [x2 y2]. unfold a_add.
    replace (cd * (x2 * x1) * (y2 * y1)) with (cd * (x1 * x2) * (y1 * y2)) by ring.
    f_equal; f_equal; ring.
  Qed.

  Theorem a_add_zero_r p : a_add fo ca cd p (a_zero fo) = p.
  Proof.
    destruct p as [x y]. unfold a_add, a_zero.
    replace (cd * (x * 0) * (y * 1)) with 0 by ring.
    replace (1 + 0) with 1 by ring. replace (1 - 0) with 1 by ring. rewrite inv_1.
    f_equal; ring.
  Qed.

  Theorem a_add_neg p :
    curve_eq p -> invertible (1 + law_t p p) ->
    a_add fo ca cd p (a_neg fo p) = a_zero fo.
  Proof.
    destruct p as [x y]. unfold a_add, a_neg, a_zero, curve_eq, law_t. intros Hc Hi.
    f_equal.
    - replace (x * y + y * - x) with 0 by ring. ring.
    - replace (1 - cd * (x * - x) * (y * y)) with (1 + cd * (x * x) * (y * y)) by ring.
      replace (y * y - ca * (x * - x)) with (ca * (x * x) + y * y) by ring.
      rewrite Hc. apply inv_r. exact Hi.
  Qed.

  (* negation commutes with the law *)
  Theorem a_neg_add p q : a_neg fo (a_add fo ca cd p q) = a_add fo ca cd (a_neg fo p) (a_neg fo q).
  Proof.
    destruct p as [x1 y1], q as [x2 y2]. unfold a_add, a_neg.
    replace (cd * (- x1 * - x2) * (y1 * y2)) with (cd * (x1 * x2) * (y1 * y2)) by ring.
    f_equal; ring.
  Qed.

  (* the two-torsion point (0,-1): adding it maps (x,y) to (-x,-y) *)
  Theorem a_add_t2 p : a_add fo ca cd p (0, - (1)) = (- fst p, - snd p).
  Proof.
    destruct p as [x y]. unfold a_add. cbn [fst snd].
    replace (cd * (x * 0) * (y * - (1))) with 0 by ring.
    replace (1 + 0) with 1 by ring. replace (1 - 0) with 1 by ring. rewrite inv_1.
    f_equal; ring.
  Qed.

  (* scalar multiplication (specification): double-and-add stays a representation *)
End EdwardsProofs.
