(* A worked instance of the transfer premises (Proofs/Transfer.v) with a NON-trivial relation:
   "fractions" n/d over any field-like ring - exactly the situation of projective coordinates.
   - go2: the additive group of the ring itself (lawful: GroupLaws holds up to Leibniz equality);
   - go1: pairs (n, d) added like fractions, compared by cross-multiplication, encoded through
     n * d^-1: NOT lawful up to Leibniz equality (P + (-P) = (0, d^2) is not the identity (0, 1));
   - rel (n, d) x := d invertible /\ n = x * d.
   All premises of the transfer theorems are proved for this pair, so those theorems (and the
   completeness corollary) apply to a representation-level implementation that does not itself
   satisfy the group laws. *)
From Coq Require Import ZArith List Bool Lia Ring.
From GoIpa Require Import Model.Alg Proofs.AlgLaws Proofs.BaryProofs.
Import ListNotations.

Section Fractions.
  Context {F : Type} (fo : FOps F) (FL : FieldLaws fo).
  Local Notation "0" := (f0 fo).
  Local Notation "1" := (f1 fo).
  Local Infix "+" := (fadd fo).
  Local Infix "*" := (fmul fo).
  Local Notation "- x" := (fneg fo x).
  Local Notation inv := (finv fo).
  Local Notation invertible := (invertible fo).
  Add Ring FringT : (fl_ring fo FL).

  (* the lawful group: the ring itself as a module over itself *)
  Definition go2 : GOps F F :=
    mkGOps F F 0 (fadd fo) (fneg fo) (fmul fo) (feqb fo) (fun x => [f2z fo x]).

  (* fractions *)
  Definition go1 : GOps F (F * F) :=
    mkGOps F (F * F) (0, 1)
      (fun p q => (fst p * snd q + fst q * snd p, snd p * snd q))
      (fun p => (- fst p, snd p))
      (fun s p => (s * fst p, snd p))
      (fun p q => feqb fo (fst p * snd q) (fst q * snd p))
      (fun p => [f2z fo (fst p * inv (snd p))]).

  Definition frel (p : F * F) (x : F) : Prop := invertible (snd p) /\ fst p = x * snd p.

  Lemma go2_laws : GroupLaws fo go2.
  Proof. constructor; intros; cbn [go2 gadd gneg gmul g0]; ring. Qed.

  Lemma frel_g0 : frel (g0 go1) (g0 go2).
  Proof. split; cbn; [apply invertible_1, FL|ring]. Qed.

  Lemma frel_add a a' b b' : frel a a' -> frel b b' -> frel (gadd go1 a b) (gadd go2 a' b').
  Proof.
    intros [Ia Ea] [Ib Eb]. split; cbn [go1 go2 gadd fst snd].
    - apply (invertible_mul fo FL); assumption.
    - rewrite Ea, Eb. ring.
  Qed.

  Lemma frel_mul s p p' : frel p p' -> frel (gmul go1 s p) (gmul go2 s p').
  Proof. intros [I E]. split; cbn [go1 go2 gmul fst snd]; [exact I|rewrite E; ring]. Qed.

  Lemma frel_neg a a' : frel a a' -> frel (gneg go1 a) (gneg go2 a').
  Proof. intros [I E]. split; cbn [go1 go2 gneg fst snd]; [exact I|rewrite E; ring]. Qed.

  Lemma frel_enc a a' : frel a a' -> genc go1 a = genc go2 a'.
  Proof.
    intros [I E]. cbn [go1 go2 genc]. f_equal. f_equal. rewrite E.
    transitivity (a' * (snd a * inv (snd a))); [ring|]. rewrite (finv_r fo FL _ I). ring.
  Qed.

  Lemma frel_eqb a a' b b' : frel a a' -> frel b b' -> geqb go1 a b = geqb go2 a' b'.
  Proof.
    intros [Ia Ea] [Ib Eb]. cbn [go1 go2 geqb]. apply eq_true_iff_eq. rewrite !(fl_eqb fo FL).
    rewrite Ea, Eb. split.
    - intros H. apply (mul_cancel_r fo FL (snd a * snd b)); [apply (invertible_mul fo FL); assumption|].
      transitivity (a' * snd a * snd b); [ring|]. rewrite H. ring.
    - intros ->. ring.
  Qed.

  (* the representation-level operations do not satisfy the group laws up to Leibniz equality *)
  Lemma go1_not_lawful (d : F) : fmul fo d d <> 1 -> ~ GroupLaws fo go1.
  Proof.
    intros Hd [_ _ _ Hinv _ _ _ _]. specialize (Hinv (0, d)). cbn [go1 gadd gneg g0 fst snd] in Hinv.
    apply Hd. congruence.
  Qed.
End Fractions.

From GoIpa Require Import Model.Bytes Model.Transcript Model.Bary Model.Banderwagon Model.IPA Model.Multiproof
  Proofs.Transfer.
Section FractionsInstance.
  Context {F : Type} (fo : FOps F) (FL : FieldLaws fo) (hashf : list Z -> list Z).

  (* the verifier on fractions decides exactly like the verifier on the lawful group *)
  Theorem fractions_verifier_transfer t c1 c2 p1 p2 cs cs' ys zs :
    cfg_rel (frel fo) c1 c2 -> mp_rel (frel fo) p1 p2 -> Forall2 (frel fo) cs cs' ->
    mp_check fo (go1 fo) hashf t c1 p1 cs ys zs = mp_check fo (go2 fo) hashf t c2 p2 cs' ys zs.
  Proof.
    apply (mp_check_rel fo (go1 fo) (go2 fo) hashf (frel fo) (frel_g0 fo FL) (frel_add fo FL) (frel_mul fo FL)
             (frel_neg fo FL) (frel_enc fo FL) (frel_eqb fo FL)).
  Qed.

  (* ... and multiproof completeness holds for the run on fractions *)
  Definition fractions_complete :=
    mp_complete_on_representations fo (go1 fo) (go2 fo) hashf FL (go2_laws fo FL) (frel fo)
      (frel_g0 fo FL) (frel_add fo FL) (frel_mul fo FL) (frel_neg fo FL) (frel_enc fo FL) (frel_eqb fo FL)
      (fun x => proj2 (fl_eqb fo FL x x) eq_refl).
End FractionsInstance.
