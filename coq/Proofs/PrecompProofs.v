(* banderwagon/precomp.go: the window recoding with carry represents the scalar, every
   digit indexes inside the table, the tables hold (j+1) 2^(wk) P, and the accumulated
   result is s * P; MSM = sum_i s_i P_i. *)
From Coq Require Import ZArith Lia List Bool ZifyBool.
From AAC_tactics Require Import AAC.
From GoIpa Require Import Model.Alg Model.Pippenger Model.Precomp Proofs.AlgLaws Proofs.IPAProofs
  Proofs.PippengerProofs Proofs.MsmProofs.
Import ListNotations.
Open Scope Z_scope.

Lemma pc_loop_S (f : nat) (w s carry : Z) :
  pc_loop (S f) w s carry =
  (let wv := s mod 2 ^ w + carry in
   let carry' := if wv =? 0 then carry else if 2 ^ (w - 1) <? wv then 1 else 0 in
   let d := if wv =? 0 then 0 else if 2 ^ (w - 1) <? wv then - (2 ^ w - wv) else wv in
   (d :: fst (pc_loop f w (s / 2 ^ w) carry'), snd (pc_loop f w (s / 2 ^ w) carry'))).
Proof.
  cbn [pc_loop]. cbv zeta.
  destruct (s mod 2 ^ w + carry =? 0).
  - destruct (pc_loop f w (s / 2 ^ w) carry); reflexivity.
  - destruct (2 ^ (w - 1) <? s mod 2 ^ w + carry).
    + destruct (pc_loop f w (s / 2 ^ w) 1); reflexivity.
    + destruct (pc_loop f w (s / 2 ^ w) 0); reflexivity.
Qed.

(* value, digit range (every index used is inside a table of 2^(w-1) entries), carry *)
Theorem pc_loop_spec : forall (n : nat) (w s carry : Z) (ds : list Z) (cf : Z),
  1 <= w -> 0 <= carry <= 1 ->
  pc_loop n w s carry = (ds, cf) ->
  digits_val w ds + cf * 2 ^ (w * Z.of_nat n) = carry + s mod 2 ^ (w * Z.of_nat n)
  /\ Forall (fun d => - (2 ^ (w - 1) - 1) <= d <= 2 ^ (w - 1)) ds
  /\ 0 <= cf <= 1
  /\ length ds = n.
Proof.
  induction n as [|n IH]; intros w s carry ds cf Hw Hcarry Hrec.
  - cbn [pc_loop] in Hrec. injection Hrec as <- <-.
    rewrite Z.mul_0_r. cbn [digits_val fold_right Z.pow].
    rewrite Z.mod_1_r. repeat split; try lia. constructor.
  - rewrite pc_loop_S in Hrec. cbv zeta in Hrec.
    set (B := 2 ^ w) in *. set (H := 2 ^ (w - 1)) in *.
    assert (HB : B = 2 * H) by (apply pow2_half; exact Hw).
    assert (HH : 0 < H) by (apply pow2_pos; lia).
    assert (Hr : 0 <= s mod B < B) by (apply Z.mod_pos_bound; lia).
    set (wv := s mod B + carry) in *.
    set (carry' := if wv =? 0 then carry else if H <? wv then 1 else 0) in *.
    set (d := if wv =? 0 then 0 else if H <? wv then - (B - wv) else wv) in *.
    assert (Hcarry' : 0 <= carry' <= 1) by (unfold carry'; destruct (wv =? 0); [lia|destruct (H <? wv); lia]).
    assert (Hd : d = wv - carry' * B /\ - (H - 1) <= d <= H).
    { unfold d, carry'. destruct (Z.eqb_spec wv 0) as [E|E].
      - unfold wv in E. split; lia.
      - destruct (Z.ltb_spec H wv); unfold wv in *; split; lia. }
    destruct (pc_loop n w (s / B) carry') as [ds' cf'] eqn:Hrec'.
    cbn [fst snd] in Hrec. injection Hrec as <- <-.
    destruct (IH w (s / B) carry' ds' cf' Hw Hcarry' Hrec') as (Hsum & Hrange & Hcf & Hlen).
    fold B in Hsum.
    split; [|split; [|split]].
    + rewrite pow2_step by lia. fold B.
      set (M := 2 ^ (w * Z.of_nat n)) in *.
      assert (HM : 0 < M) by (apply pow2_pos; lia).
      rewrite Z.rem_mul_r by lia.
      cbn [digits_val fold_right]. fold (digits_val w ds'). fold B.
      destruct Hd as [Hd _]. rewrite Hd. unfold wv.
      replace (digits_val w ds') with (carry' + (s / B) mod M - cf' * M) by lia.
      ring.
    + constructor; [tauto|exact Hrange].
    + exact Hcf.
    + cbn [length]. now rewrite Hlen.
Qed.

(* lower bound of a digit string: (B-1) v >= -(H-1)(B^n - 1), hence 2 v > -B^n *)
Lemma digits_val_lower_aux w : 1 <= w -> forall ds,
  Forall (fun d => - (2 ^ (w - 1) - 1) <= d) ds ->
  - ((2 ^ (w - 1) - 1) * (2 ^ (w * Z.of_nat (length ds)) - 1)) <= (2 ^ w - 1) * digits_val w ds.
Proof.
  intros Hw. induction ds as [|d ds IH]; intros Hf.
  - cbn [digits_val fold_right length]. change (Z.of_nat 0) with 0. rewrite !Z.mul_0_r. change (2 ^ 0) with 1. lia.
  - pose proof (Forall_inv Hf) as Hd. pose proof (Forall_inv_tail Hf) as Hf'. specialize (IH Hf').
    cbv beta in Hd.
    cbn [digits_val fold_right length]. fold (digits_val w ds).
    rewrite pow2_step by lia.
    set (B := 2 ^ w) in *. set (H := 2 ^ (w - 1)) in *. set (M := 2 ^ (w * Z.of_nat (length ds))) in *.
    set (v := digits_val w ds) in *.
    assert (HB : B = 2 * H) by (apply pow2_half; exact Hw).
    assert (HH : 0 < H) by (apply pow2_pos; lia).
    assert (HM : 0 < M) by (apply pow2_pos; lia).
    (* (B-1)(d + B v) >= -(B-1)(H-1) - B (H-1)(M-1) = -(H-1)(B M - 1) *)
    assert (E1 : (B - 1) * (d + B * v) = (B - 1) * d + B * ((B - 1) * v)) by ring.
    assert (E2 : (H - 1) * (B * M - 1) = (B - 1) * (H - 1) + B * ((H - 1) * (M - 1))) by ring.
    rewrite E1, E2.
    assert (B1 : - ((B - 1) * (H - 1)) <= (B - 1) * d).
    { rewrite <- Z.mul_opp_r. apply Z.mul_le_mono_nonneg_l; lia. }
    assert (B2 : - (B * ((H - 1) * (M - 1))) <= B * ((B - 1) * v)).
    { rewrite <- Z.mul_opp_r. apply Z.mul_le_mono_nonneg_l; lia. }
    lia.
Qed.

Lemma digits_val_lower w : 1 <= w -> forall ds,
  Forall (fun d => - (2 ^ (w - 1) - 1) <= d) ds ->
  - (2 ^ (w * Z.of_nat (length ds))) < 2 * digits_val w ds + 1.
Proof.
  intros Hw ds Hf. pose proof (digits_val_lower_aux w Hw ds Hf) as H0.
  set (B := 2 ^ w) in *. set (H := 2 ^ (w - 1)) in *. set (M := 2 ^ (w * Z.of_nat (length ds))) in *.
  set (v := digits_val w ds) in *.
  assert (HB : B = 2 * H) by (apply pow2_half; exact Hw).
  assert (HH : 0 < H) by (apply pow2_pos; lia).
  assert (HM : 0 < M) by (apply pow2_pos; lia).
  (* 2 (B-1) v >= -(B-2)(M-1) > -(B-1) M *)
  assert (K0 : (H - 1) * (M - 1) < H * M) by nia.
  assert (K : - ((B - 1) * M) < 2 * ((B - 1) * v)).
  { assert ((B - 1) * M = 2 * (H * M) - M) by (rewrite HB; ring). lia. }
  assert (K2 : - M < 2 * v).
  { destruct (Z_lt_le_dec (- M) (2 * v)) as [|Hle]; [assumption|exfalso].
    assert ((B - 1) * (2 * v) <= (B - 1) * (- M)) by (apply Z.mul_le_mono_nonneg_l; lia).
    assert ((B - 1) * (2 * v) = 2 * ((B - 1) * v)) by ring.
    assert ((B - 1) * (- M) = - ((B - 1) * M)) by ring. lia. }
  lia.
Qed.

(* the situation of the code: w in {8,16} (any w dividing 256 works), scalar < 2^253:
   no carry is left after the last window and the digits represent s exactly *)
Theorem pc_digits_spec w s :
  1 <= w -> w * (256 / w) = 256 -> 0 <= s < 2 ^ 253 ->
  let '(ds, cf) := pc_digits w s in
  cf = 0 /\ digits_val w ds = s
  /\ Forall (fun d => - (2 ^ (w - 1) - 1) <= d <= 2 ^ (w - 1)) ds
  /\ length ds = pc_nwindows w.
Proof.
  intros Hw Hdiv Hs. unfold pc_digits. destruct (pc_loop (pc_nwindows w) w s 0) as [ds cf] eqn:E.
  destruct (pc_loop_spec _ w s 0 ds cf Hw ltac:(lia) E) as (Hsum & Hrange & Hcf & Hlen).
  assert (Hn : w * Z.of_nat (pc_nwindows w) = 256).
  { unfold pc_nwindows. rewrite Z2Nat.id; [exact Hdiv|]. apply Z.div_pos; lia. }
  rewrite Hn in Hsum. rewrite Z.mod_small in Hsum by (split; [lia|]; assert (2 ^ 253 < 2 ^ 256) by reflexivity; lia).
  assert (Hlow : - 2 ^ 256 < 2 * digits_val w ds + 1).
  { rewrite <- Hn, <- Hlen. apply digits_val_lower; [exact Hw|].
    eapply Forall_impl; [|exact Hrange]. cbv beta. intros; lia. }
  assert (cf = 0).
  { destruct (Z.eq_dec cf 0) as [|Hne]; [assumption|]. assert (cf = 1) by lia. subst cf.
    assert (2 ^ 253 * 8 = 2 ^ 256) by reflexivity. lia. }
  subst cf. repeat split; try assumption; lia.
Qed.

Section Group.
  Context {F G : Type} (fo : FOps F) (go : GOps F G) (FL : FieldLaws fo) (GL : GroupLaws fo go).
  Hypothesis fofz_add : forall a b, fofz fo (a + b) = fadd fo (fofz fo a) (fofz fo b).
  Hypothesis fofz_mul : forall a b, fofz fo (a * b) = fmul fo (fofz fo a) (fofz fo b).
  Hypothesis fofz_1 : fofz fo 1 = f1 fo.
  Local Infix "⊕" := (gadd go) (at level 50, left associativity).
  Local Notation O := (g0 go).
  Local Notation "d ⋅ p" := (gmul go (fofz fo d) p) (at level 40, left associativity).
  Local Instance gA' : Associative eq (gadd go) := gadd_Assoc fo go GL.
  Local Instance gC' : Commutative eq (gadd go) := gadd_Comm fo go GL.
  Local Notation zm_add := (zm_add fo go GL fofz_add).
  Local Notation zm_mul := (zm_mul fo go GL fofz_mul).
  Local Notation zm_1 := (zm_1 fo go GL fofz_1).
  Local Notation zm_0 := (zm_0 fo go FL GL fofz_add).
  Local Notation zm_neg := (zm_neg fo go FL GL fofz_add).

  (* window construction: entry j is (first + j) * base when curr = first * base *)
  Lemma pc_window_nth n : forall first base j, (j < n)%nat ->
    nth j (pc_window go n (first ⋅ base) base) O = (first + Z.of_nat j) ⋅ base.
  Proof.
    induction n as [|n IH]; intros first base j Hj; [lia|].
    destruct j as [|j]; cbn [pc_window nth].
    - f_equal. f_equal. lia.
    - replace (first ⋅ base ⊕ base) with ((first + 1) ⋅ base) by (rewrite zm_add, zm_1; reflexivity).
      rewrite IH by lia. f_equal. f_equal. lia.
  Qed.

  (* table construction: window k, entry j = (j+1) 2^(w k) P *)
  Lemma pc_table_nth nw w : 0 <= w -> forall base k j, (k < nw)%nat -> (j < Z.to_nat (2 ^ (w - 1)))%nat ->
    nth j (nth k (pc_table fo go nw w base) []) O = ((Z.of_nat j + 1) * 2 ^ (w * Z.of_nat k)) ⋅ base.
  Proof.
    intros Hw. induction nw as [|nw IH]; intros base k j Hk Hj; [lia|].
    destruct k as [|k]; cbn [pc_table nth].
    - rewrite <- (zm_1 base) at 1. rewrite pc_window_nth by exact Hj.
      f_equal. f_equal. change (Z.of_nat 0) with 0. rewrite Z.mul_0_r. change (2 ^ 0) with 1. lia.
    - rewrite IH by lia. rewrite <- zm_mul. f_equal. f_equal.
      rewrite Nat2Z.inj_succ. replace (w * Z.succ (Z.of_nat k)) with (w * Z.of_nat k + w) by lia.
      rewrite Z.pow_add_r by lia. ring.
  Qed.

  (* the accumulation loop adds  sum_k d_k 2^(w (k0 + k)) P *)
  Lemma pc_accumulate_spec nw w P : 1 <= w ->
    forall ds k0 res, (k0 + length ds <= nw)%nat ->
    Forall (fun d => - (2 ^ (w - 1) - 1) <= d <= 2 ^ (w - 1)) ds ->
    pc_accumulate go res (skipn k0 (pc_table fo go nw w P)) ds
    = res ⊕ (2 ^ (w * Z.of_nat k0) * digits_val w ds) ⋅ P.
  Proof.
    intros Hw. induction ds as [|d ds IH]; intros k0 res Hlen Hd.
    - cbn [digits_val fold_right]. rewrite Z.mul_0_r, zm_0.
      destruct (skipn k0 _); cbn; symmetry; apply (gid_r fo go GL).
    - pose proof (Forall_inv Hd) as Hd1. pose proof (Forall_inv_tail Hd) as Hd'. cbn [length] in Hlen.
      cbv beta in Hd1.
      assert (HH : 0 < 2 ^ (w - 1)) by (apply pow2_pos; lia).
      assert (Hsk : skipn k0 (pc_table fo go nw w P)
                    = nth k0 (pc_table fo go nw w P) [] :: skipn (S k0) (pc_table fo go nw w P)).
      { assert (Hl : length (pc_table fo go nw w P) = nw).
        { clear. generalize P. induction nw as [|n IH]; intros Q; cbn; auto. }
        clear -Hlen Hl. revert k0 Hlen Hl. generalize (pc_table fo go nw w P) as tb. intros tb. revert nw.
        induction tb as [|x tb IHt]; intros nw k0 Hlen Hl; [cbn in Hl; lia|].
        destruct k0 as [|k0]; [reflexivity|]. cbn [skipn nth]. destruct nw as [|nw]; [discriminate|].
        apply (IHt nw); cbn in *; lia. }
      rewrite Hsk. cbn [pc_accumulate]. rewrite (IH (S k0)) by (try assumption; lia).
      cbn [digits_val fold_right]. fold (digits_val w ds).
      unfold pc_apply.
      assert (E : forall X, X ⊕ (2 ^ (w * Z.of_nat (S k0)) * digits_val w ds) ⋅ P
                  ⊕ (d * 2 ^ (w * Z.of_nat k0)) ⋅ P
                  = X ⊕ (2 ^ (w * Z.of_nat k0) * (d + 2 ^ w * digits_val w ds)) ⋅ P).
      { intros X. rewrite <- (gl_assoc fo go GL), <- zm_add. f_equal. f_equal. f_equal.
        rewrite Nat2Z.inj_succ. replace (w * Z.succ (Z.of_nat k0)) with (w * Z.of_nat k0 + w) by lia.
        rewrite Z.pow_add_r by lia. ring. }
      destruct (Z.eqb_spec d 0) as [->|Hnz].
      + rewrite <- (E res). rewrite Z.mul_0_l, zm_0, (gid_r fo go GL). reflexivity.
      + destruct (Z.ltb_spec 0 d) as [Hpos|Hneg].
        * rewrite (pc_table_nth nw w ltac:(lia) P k0 (Z.to_nat (d - 1))) by lia.
          replace (Z.of_nat (Z.to_nat (d - 1)) + 1) with d by lia.
          rewrite <- (E res). aac_reflexivity.
        * rewrite (pc_table_nth nw w ltac:(lia) P k0 (Z.to_nat (- d - 1))) by lia.
          replace (Z.of_nat (Z.to_nat (- d - 1)) + 1) with (- d) by lia.
          rewrite <- zm_neg. replace (- (- d * 2 ^ (w * Z.of_nat k0))) with (d * 2 ^ (w * Z.of_nat k0)) by ring.
          rewrite <- (E res). aac_reflexivity.
  Qed.

  (* PrecompPoint.ScalarMul adds exactly s * P, for every canonical scalar *)
  Theorem pc_scalar_mul_spec w P s res :
    1 <= w -> w * (256 / w) = 256 -> 0 <= s < 2 ^ 253 ->
    pc_scalar_mul go w (pc_table fo go (pc_nwindows w) w P) s res = res ⊕ s ⋅ P.
  Proof.
    intros Hw Hdiv Hs. unfold pc_scalar_mul.
    pose proof (pc_digits_spec w s Hw Hdiv Hs) as H. destruct (pc_digits w s) as [ds cf].
    destruct H as (_ & Hval & Hrange & Hlen). cbn [fst].
    pose proof (pc_accumulate_spec (pc_nwindows w) w P Hw ds 0 res ltac:(cbn; lia) Hrange) as HA.
    cbn [skipn] in HA. rewrite HA, Hval. change (Z.of_nat 0) with 0. rewrite Z.mul_0_r. change (2 ^ 0) with 1. rewrite Z.mul_1_l. reflexivity.
  Qed.

  (* both window sizes used by NewPrecompMSM divide 256 *)
  Lemma pc_window_size_ok i : 1 <= pc_window_size i /\ pc_window_size i * (256 / pc_window_size i) = 256.
  Proof. unfold pc_window_size. destruct (Nat.ltb i 5); split; reflexivity || lia. Qed.

  Definition tables_from (i0 : nat) (points : list G) : list (Z * list (list G)) :=
    map (fun ip : nat * G => let w := pc_window_size (fst ip) in (w, pc_table fo go (pc_nwindows w) w (snd ip)))
        (combine (seq i0 (length points)) points).

  (* MSMPrecomp.MSM = sum_i s_i P_i, zero scalars skipped, every vector length *)
  Lemma pc_msm_from points : forall i0 ss res,
    Forall (fun s => 0 <= s < 2 ^ 253) ss ->
    pc_msm go (tables_from i0 points) ss res = res ⊕ msmzv fo go points ss.
  Proof.
    induction points as [|P points IH]; intros i0 ss res Hss.
    - cbn. symmetry. apply (gid_r fo go GL).
    - destruct ss as [|s ss]; [cbn; symmetry; apply (gid_r fo go GL)|].
      pose proof (Forall_inv Hss) as Hs. pose proof (Forall_inv_tail Hss) as Hss'. cbv beta in Hs.
      unfold tables_from. cbn [length seq combine map fst snd pc_msm msmzv].
      fold (tables_from (S i0) points). rewrite IH by exact Hss'.
      destruct (pc_window_size_ok i0) as [Hw Hdiv].
      destruct (Z.eqb_spec s 0) as [->|Hnz].
      + rewrite zm_0. rewrite (gl_id fo go GL). reflexivity.
      + rewrite (pc_scalar_mul_spec (pc_window_size i0) P s res Hw Hdiv Hs). aac_reflexivity.
  Qed.

  Theorem pc_msm_spec points ss :
    Forall (fun s => 0 <= s < 2 ^ 253) ss ->
    pc_msm go (pc_msm_tables fo go points) ss O = msmzv fo go points ss.
  Proof.
    intros H. change (pc_msm_tables fo go points) with (tables_from 0 points).
    rewrite pc_msm_from by exact H. apply (gl_id fo go GL).
  Qed.

  (* integer-scalar sums are the module's multi-scalar multiplication *)
  Lemma msmzv_msm ps : forall ds, msmzv fo go ps ds = msm go ps (map (fofz fo) ds).
  Proof. induction ps as [|p ps IH]; intros [|d ds]; cbn; auto. rewrite IH. reflexivity. Qed.

  (* ---- linearity of the commitment  Commit(v) = msm srs v ---- *)
  Theorem commit_add srs : forall a b, length a = length srs -> length b = length srs ->
    msm go srs (vadd fo a b) = msm go srs a ⊕ msm go srs b.
  Proof.
    induction srs as [|p srs IH]; intros [|x a] [|y b] Ha Hb; try discriminate; cbn [msm vadd].
    - symmetry. apply (gl_id fo go GL).
    - rewrite IH by (cbn in *; lia). rewrite (gl_mul_add_l fo go GL). aac_reflexivity.
  Qed.
  Theorem commit_scale srs k a : msm go srs (vscale fo k a) = gmul go k (msm go srs a).
  Proof. symmetry. apply (msm_scale fo go GL). Qed.
End Group.
