(* End-to-end completeness of the multiproof model: CheckMultiProof accepts the proof
   produced by CreateMultiProof on every honest statement.  Abstract field (FieldLaws),
   abstract module (GroupLaws), domain size n = 2^k. *)
From Coq Require Import ZArith List Bool Lia Ring Arith Permutation.
From AAC_tactics Require Import AAC.
From GoIpa Require Import Model.Bytes Model.Alg Model.Transcript Model.Bary Model.Banderwagon Model.IPA Model.Multiproof
  Proofs.AlgLaws Proofs.GroupingProofs Proofs.MultiproofProofs Proofs.IPAProofs Proofs.BaryProofs Proofs.PrecompProofs.
Import ListNotations.

(* ------------------------------------------------------------------ *)
(* regrouping: a sum over the used slots of the aggregated table equals  *)
(* the sum over the openings, for every additive functional             *)
(* ------------------------------------------------------------------ *)
Section Regroup.
  Context {F M : Type} (fo : FOps F) (mo : GOps F M) (FL : FieldLaws fo) (ML : GroupLaws fo mo).
  Local Infix "⊕" := (gadd mo) (at level 50, left associativity).
  Local Notation O := (g0 mo).
  Local Instance mA : Associative eq (gadd mo) := gadd_Assoc fo mo ML.
  Local Instance mC : Commutative eq (gadd mo) := gadd_Comm fo mo ML.
  Local Notation table := (list (option (list F))).

  Fixpoint msum (l : list M) : M := match l with [] => O | x :: r => x ⊕ msum r end.
  Lemma msum_app a b : msum (a ++ b) = msum a ⊕ msum b.
  Proof.
    induction a as [|x a IH]; cbn [app msum]; [symmetry; apply (gl_id fo mo ML)|].
    rewrite IH. apply (gl_assoc fo mo ML).
  Qed.

  Fixpoint used_from (k : nat) (tb : table) : list (nat * list F) :=
    match tb with
    | [] => []
    | s :: tb' => (match s with Some v => [(k, v)] | None => [] end) ++ used_from (S k) tb'
    end.

  Lemma used_slots_from (tb : table) : used_slots tb = used_from 0 tb.
  Proof.
    unfold used_slots. generalize 0%nat as k. induction tb as [|s tb IH]; intros k; [reflexivity|].
    cbn [length seq combine fold_right used_from fst snd]. rewrite IH. destruct s; reflexivity.
  Qed.

  Variable n : nat.
  Variable phi : nat -> list F -> M.
  Hypothesis phi_add : forall z a b, length a = n -> length b = n -> phi z (vadd fo a b) = phi z a ⊕ phi z b.

  Definition Phi_from (k : nat) (tb : table) : M := msum (map (fun zf => phi (fst zf) (snd zf)) (used_from k tb)).

  Lemma Phi_update tb : forall k z ri f, wf n (length tb) tb -> length f = n -> (z < length tb)%nat ->
    Phi_from k (worker_add fo n tb ri f z) = Phi_from k tb ⊕ phi (k + z) (vscale fo ri f).
  Proof.
    induction tb as [|s tb IH]; intros k z ri f Hwf Hf Hz; [cbn in Hz; lia|].
    destruct Hwf as [_ HF]. pose proof (Forall_inv HF) as Hs. pose proof (Forall_inv_tail HF) as HF'.
    unfold Phi_from in *. destruct z as [|z]; unfold worker_add; cbn [slot_update used_from].
    - rewrite !map_app, !msum_app. replace (k + 0)%nat with k by lia.
      destruct s as [v|]; cbn [map msum fst snd].
      + cbn in Hs. rewrite phi_add by (rewrite ?(vscale_length fo); assumption).
        rewrite !(gid_r fo mo ML). aac_reflexivity.
      + assert (E : vadd fo (zeros fo n) (vscale fo ri f) = vscale fo ri f).
        { rewrite <- Hf. rewrite <- (vscale_length fo ri f) at 1. apply (vadd_zeros_l fo FL). }
        rewrite E, !(gid_r fo mo ML), ?(gl_id fo mo ML). apply (gl_comm fo mo ML).
    - rewrite !map_app, !msum_app. fold (worker_add fo n tb ri f z).
      specialize (IH (S k) z ri f). rewrite IH by (try split; auto; cbn in Hz; lia).
      replace (S k + z)%nat with (k + S z)%nat by lia. aac_reflexivity.
  Qed.

  Lemma wf_step (tb : table) ri f z : wf n n tb -> length f = n -> wf n n (worker_add fo n tb ri f z).
  Proof. apply wf_worker_add. Qed.

  (* the openings: (r^i, f_i, z_i) *)
  Definition ops_zok (ops : list (F * list F * nat)) : Prop := Forall (fun o => (snd o < n)%nat) ops.

  Theorem regroup ops : ops_ok n ops -> ops_zok ops ->
    Phi_from 0 (worker_agg fo n ops)
    = msum (map (fun o : F * list F * nat => phi (snd o) (vscale fo (fst (fst o)) (snd (fst o)))) ops).
  Proof.
    intros Hok Hz. unfold worker_agg.
    assert (H : forall tb, wf n n tb ->
              Phi_from 0 (fold_left (fun tb o => let '(ri, f, z) := o in worker_add fo n tb ri f z) ops tb)
              = Phi_from 0 tb ⊕ msum (map (fun o : F * list F * nat => phi (snd o) (vscale fo (fst (fst o)) (snd (fst o)))) ops)).
    { induction ops as [|[[ri f] z] ops IH]; intros tb Htb; cbn [fold_left map msum].
      - symmetry. apply (gid_r fo mo ML).
      - pose proof (Forall_inv Hok) as Hf. pose proof (Forall_inv_tail Hok) as Hok'.
        pose proof (Forall_inv Hz) as Hzz. pose proof (Forall_inv_tail Hz) as Hz'. cbn [fst snd] in Hf, Hzz.
        rewrite (IH Hok' Hz') by (apply wf_step; assumption).
        destruct Htb as [Hl HFa]. rewrite (Phi_update tb 0 z ri f) by (rewrite ?Hl; try split; auto).
        cbn [fst snd Nat.add]. aac_reflexivity. }
    rewrite H by apply wf_empty.
    assert (E : forall m k, Phi_from k (repeat None m) = O).
    { induction m as [|m IHm]; intros k; [reflexivity|]. unfold Phi_from in *. cbn [repeat used_from app]. apply IHm. }
    unfold empty_table. rewrite E. apply (gl_id fo mo ML).
  Qed.
End Regroup.

(* ------------------------------------------------------------------ *)
(* linear algebra on evaluation vectors                                  *)
(* ------------------------------------------------------------------ *)
Section Linear.
  Context {F G : Type} (fo : FOps F) (go : GOps F G) (FL : FieldLaws fo) (GL : GroupLaws fo go).
  Local Notation "0" := (f0 fo).
  Local Infix "+" := (fadd fo).
  Local Infix "*" := (fmul fo).
  Local Infix "-" := (fsub fo).
  Local Infix "⊕" := (gadd go) (at level 50, left associativity).
  Add Ring FringL : (fl_ring fo FL).
  Local Instance gA2 : Associative eq (gadd go) := gadd_Assoc fo go GL.
  Local Instance gC2 : Commutative eq (gadd go) := gadd_Comm fo go GL.

  Lemma inner_add a : forall c b, length a = length b -> length c = length b ->
    inner fo (vadd fo a c) b = inner fo a b + inner fo c b.
  Proof.
    induction a as [|x a IH]; intros [|y c] [|z b] H1 H2; try discriminate; cbn [vadd inner]; [ring|].
    rewrite IH by (cbn in *; lia). ring.
  Qed.
  Lemma inner_sub a : forall c b, length a = length b -> length c = length b ->
    inner fo (vsub fo a c) b = inner fo a b - inner fo c b.
  Proof.
    induction a as [|x a IH]; intros [|y c] [|z b] H1 H2; try discriminate; cbn [vsub inner]; [ring|].
    rewrite IH by (cbn in *; lia). ring.
  Qed.
  Lemma inner_scale k a : forall b, inner fo (vscale fo k a) b = k * inner fo a b.
  Proof. induction a as [|x a IH]; intros [|z b]; cbn [vscale map inner]; try ring. rewrite IH. ring. Qed.
  Lemma inner_zeros n : forall b, inner fo (zeros fo n) b = 0.
  Proof. unfold zeros. induction n as [|n IH]; intros [|z b]; cbn [repeat inner]; try reflexivity. rewrite IH. ring. Qed.
  Lemma vsub_length a : forall c, length (vsub fo a c) = Nat.min (length a) (length c).
  Proof. induction a as [|x a IH]; intros [|y c]; cbn; auto. Qed.
  Lemma vadd_vsub a : forall c, length a = length c -> vadd fo (vsub fo a c) c = a.
  Proof.
    induction a as [|x a IH]; intros [|y c] H; try discriminate; cbn [vsub vadd]; [reflexivity|].
    rewrite IH by (cbn in H; lia). f_equal. ring.
  Qed.

  Lemma nth_vadd a : forall c z, length a = length c -> nth z (vadd fo a c) 0 = nth z a 0 + nth z c 0.
  Proof.
    induction a as [|x a IH]; intros [|y c] z H; try discriminate.
    - destruct z; cbn; ring.
    - destruct z as [|z]; cbn [vadd nth]; [reflexivity|]. apply IH. cbn in H. lia.
  Qed.
  Lemma nth_vscale k a : forall z, nth z (vscale fo k a) 0 = k * nth z a 0.
  Proof.
    induction a as [|x a IH]; intros z.
    - destruct z; cbn; ring.
    - destruct z as [|z]; cbn [vscale map nth]; [reflexivity|]. apply IH.
  Qed.

  (* vector sums *)
  Definition vfold (n : nat) (terms : list (list F)) : list F :=
    fold_left (fun acc v => vadd fo acc v) terms (zeros fo n).

  Lemma vfold_gen n terms : forall acc b, length acc = n -> length b = n -> Forall (fun v => length v = n) terms ->
    length (fold_left (fun acc v => vadd fo acc v) terms acc) = n
    /\ inner fo (fold_left (fun acc v => vadd fo acc v) terms acc) b
       = inner fo acc b + msum (fgo fo) (map (fun v => inner fo v b) terms).
  Proof.
    induction terms as [|v terms IH]; intros acc b Ha Hb Ht; cbn [fold_left map msum].
    - split; [exact Ha|]. cbn. ring.
    - pose proof (Forall_inv Ht) as Hv. pose proof (Forall_inv_tail Ht) as Ht'. cbv beta in Hv.
      destruct (IH (vadd fo acc v) b) as [L I]; try assumption.
      { rewrite (vadd_length fo), Ha, Hv. apply Nat.min_id. }
      split; [exact L|]. rewrite I, inner_add by lia. cbn [gadd fgo]. ring.
  Qed.

  Lemma msm_sub srs a c : length a = length srs -> length c = length srs ->
    msm go srs (vsub fo a c) = msm go srs a ⊕ gneg go (msm go srs c).
  Proof.
    intros Ha Hc.
    assert (H : msm go srs (vsub fo a c) ⊕ msm go srs c = msm go srs a).
    { rewrite <- (commit_add fo go GL srs (vsub fo a c) c) by (rewrite ?vsub_length; lia). rewrite vadd_vsub by lia. reflexivity. }
    rewrite <- H. rewrite <- (gl_assoc fo go GL), (gl_inv fo go GL), (gid_r fo go GL). reflexivity.
  Qed.
End Linear.

(* ------------------------------------------------------------------ *)
(* prover / verifier computations as sums over the openings             *)
(* ------------------------------------------------------------------ *)
Section Sums.
  Context {F G : Type} (fo : FOps F) (go : GOps F G) (FL : FieldLaws fo) (GL : GroupLaws fo go).
  Variable n : nat.
  Local Notation "0" := (f0 fo).
  Local Notation "1" := (f1 fo).
  Local Infix "+" := (fadd fo).
  Local Infix "*" := (fmul fo).
  Local Infix "-" := (fsub fo).
  Local Infix "⊕" := (gadd go) (at level 50, left associativity).
  Local Infix "•" := (gmul go) (at level 40).
  Local Notation inv := (finv fo).
  Local Notation invertible := (invertible fo).
  Local Notation dom := (dom fo).
  Add Ring FringSm : (fl_ring fo FL).
  Local Instance gA3 : Associative eq (gadd go) := gadd_Assoc fo go GL.
  Local Instance gC3 : Commutative eq (gadd go) := gadd_Comm fo go GL.
  Local Notation table := (list (option (list F))).
  Local Notation fsumF := (msum (fgo fo)).

  Lemma used_from_facts (tb : table) : forall k z v, wf n (length tb) tb -> In (z, v) (used_from k tb) ->
    (k <= z < k + length tb)%nat /\ length v = n.
  Proof.
    induction tb as [|s tb IH]; intros k z v Hwf Hin; [destruct Hin|].
    destruct Hwf as [_ HF]. pose proof (Forall_inv HF) as Hs. pose proof (Forall_inv_tail HF) as HF'.
    cbn [used_from] in Hin. apply in_app_or in Hin as [Hin|Hin].
    - destruct s as [w|]; [|destruct Hin]. destruct Hin as [E|[]]. injection E as <- <-. cbn in Hs. cbn [length]. split; [lia|exact Hs].
    - destruct (IH (S k) z v) as [A B]; [split; [reflexivity|exact HF']|exact Hin|]. cbn [length]. split; [lia|exact B].
  Qed.

  Lemma fold_left_map_terms {A} (term : A -> list F) l : forall acc,
    fold_left (fun acc x => vadd fo acc (term x)) l acc
    = fold_left (fun acc v => vadd fo acc v) (map term l) acc.
  Proof. induction l as [|x l IH]; intros acc; cbn [fold_left map]; [reflexivity|apply IH]. Qed.

  Lemma fold_left_combine_terms {A} (phi : A -> F) (vec : A -> list F) l : forall acc,
    fold_left (fun acc (p : A * F) => vadd fo acc (vscale fo (snd p) (vec (fst p)))) (combine l (map phi l)) acc
    = fold_left (fun acc v => vadd fo acc v) (map (fun x => vscale fo (phi x) (vec x)) l) acc.
  Proof. induction l as [|x l IH]; intros acc; cbn [fold_left map combine fst snd]; [reflexivity|apply IH]. Qed.

  (* sums in F *)
  Lemma fsumF_sub {A} (f g h : A -> F) l : (forall x, In x l -> f x - g x = h x) ->
    fsumF (map f l) - fsumF (map g l) = fsumF (map h l).
  Proof.
    induction l as [|x l IH]; intros H; cbn [map msum]; [cbn; ring|].
    cbn [gadd fgo]. rewrite <- IH by (intros y Hy; apply H; right; exact Hy).
    rewrite <- (H x (or_introl eq_refl)). ring.
  Qed.
  Lemma fsumF_ext {A} (f g : A -> F) l : (forall x, In x l -> f x = g x) -> fsumF (map f l) = fsumF (map g l).
  Proof. intros H. f_equal. apply map_ext_in, H. Qed.

  (* commitment of a vector sum *)
  Variable srs : list G.
  Hypothesis srs_len : length srs = n.
  Local Notation commit := (msm go srs).

  Lemma msm_zeros : commit (zeros fo n) = g0 go.
  Proof.
    unfold zeros. rewrite <- srs_len. clear srs_len. induction srs as [|p ps IH]; cbn [length repeat msm]; [reflexivity|].
    rewrite IH, (gmul_zero_l fo go FL GL). apply (gl_id fo go GL).
  Qed.

  Lemma commit_vfold terms : Forall (fun v => length v = n) terms ->
    commit (vfold fo n terms) = msum go (map commit terms).
  Proof.
    unfold vfold. intros Ht.
    assert (H : forall acc, length acc = n ->
              commit (fold_left (fun acc v => vadd fo acc v) terms acc) = commit acc ⊕ msum go (map commit terms)).
    { induction terms as [|v terms IH]; intros acc Ha; cbn [fold_left map msum].
      - symmetry. apply (gid_r fo go GL).
      - pose proof (Forall_inv Ht) as Hv. pose proof (Forall_inv_tail Ht) as Ht'. cbv beta in Hv.
        rewrite (IH Ht') by (rewrite (vadd_length fo), Ha, Hv; apply Nat.min_id).
        rewrite (commit_add fo go GL srs acc v) by lia. aac_reflexivity. }
    rewrite H by apply (zeros_length fo). rewrite msm_zeros. apply (gl_id fo go GL).
  Qed.
End Sums.

Section Main.
  Context {F G : Type} (fo : FOps F) (go : GOps F G) (hashf : list Z -> list Z)
          (FL : FieldLaws fo) (GL : GroupLaws fo go).
  Hypothesis geqb_refl : forall x, geqb go x x = true.
  Hypothesis dom_add : forall i j, dom fo (i + j) = fadd fo (dom fo i) (dom fo j).
  Variable n : nat.
  Hypothesis n_pos : (1 <= n)%nat.
  Hypothesis Hnodes : nodes_ok fo n.
  Variable srs : list G.
  Hypothesis srs_len : length srs = n.
  Variable tch : F.
  Hypothesis Hoff : off_domain fo n tch.

  Local Notation "0" := (f0 fo).
  Local Infix "+" := (fadd fo).
  Local Infix "*" := (fmul fo).
  Local Infix "-" := (fsub fo).
  Local Infix "⊕" := (gadd go) (at level 50, left associativity).
  Local Infix "•" := (gmul go) (at level 40).
  Local Notation inv := (finv fo).
  Local Notation dom := (dom fo).
  Local Notation commit := (msm go srs).
  Local Notation W := (new_weights fo n).
  Local Notation bvec := (map (bcoef fo n tch) (seq 0 n)).
  Add Ring FringMn : (fl_ring fo FL).
  Local Notation table := (list (option (list F))).

  Definition cz (z : nat) : F := inv (tch - dom z).
  Definition phiS (z : nat) (v : list F) : F := nth z v 0 * cz z.
  Definition phiE (z : nat) (v : list F) : G := cz z • commit v.

  Lemma phiS_add z a b : length a = n -> length b = n -> phiS z (vadd fo a b) = gadd (fgo fo) (phiS z a) (phiS z b).
  Proof. intros Ha Hb. unfold phiS. rewrite (nth_vadd fo FL) by lia. cbn [gadd fgo]. ring. Qed.
  Lemma phiE_add z a b : length a = n -> length b = n -> phiE z (vadd fo a b) = phiE z a ⊕ phiE z b.
  Proof.
    intros Ha Hb. unfold phiE. rewrite (commit_add fo go GL srs a b) by lia. apply (gl_mul_add_r fo go GL).
  Qed.

  Lemma bvec_length : length bvec = n.
  Proof. rewrite map_length, seq_length. reflexivity. Qed.

  Lemma div_length z v : length (divide_on_domain fo n W z v) = n.
  Proof. unfold divide_on_domain. rewrite map_length, seq_length. reflexivity. Qed.

  (* the prover's g and h from a well-formed aggregated table *)
  Lemma prover_vectors (tb : table) : wf n n tb ->
    let used := used_slots tb in
    let g := fold_left (fun acc (zf : nat * list F) => vadd fo acc (divide_on_domain fo n W (fst zf) (snd zf))) used (zeros fo n) in
    let h := fold_left (fun acc (p : (nat * list F) * F) => vadd fo acc (vscale fo (snd p) (snd (fst p))))
                       (combine used (batch_invert fo (map (fun zf : nat * list F => tch - dom (fst zf)) used))) (zeros fo n) in
    length g = n /\ length h = n
    /\ inner fo (vsub fo h g) bvec = Phi_from (fgo fo) phiS 0 tb
    /\ commit h = Phi_from go phiE 0 tb.
  Proof.
    intros Hwf used g h.
    assert (Hused : forall z v, In (z, v) used -> (z < n)%nat /\ length v = n).
    { intros z v Hin. unfold used in Hin. rewrite (used_slots_from) in Hin.
      destruct Hwf as [Hl HF].
      destruct (used_from_facts n tb 0 z v) as [A B]; [split; [reflexivity|exact HF]|exact Hin|].
      split; [lia|exact B]. }
    (* g as a vector sum *)
    set (gterms := map (fun zf : nat * list F => divide_on_domain fo n W (fst zf) (snd zf)) used).
    assert (Eg : g = vfold fo n gterms).
    { unfold g, vfold, gterms. apply fold_left_map_terms. }
    assert (Hgt : Forall (fun v => length v = n) gterms).
    { apply Forall_forall. intros v Hv. apply in_map_iff in Hv as (zf & <- & _). apply div_length. }
    (* h as a vector sum *)
    assert (Hden : batch_invert fo (map (fun zf : nat * list F => tch - dom (fst zf)) used)
                   = map (fun zf : nat * list F => cz (fst zf)) used).
    { rewrite (batch_invert_invertible fo FL).
      - rewrite map_map. reflexivity.
      - apply Forall_forall. intros x Hx. apply in_map_iff in Hx as ([z v] & <- & Hin). cbn [fst].
        apply Hoff. apply (Hused z v Hin). }
    set (hterms := map (fun zf : nat * list F => vscale fo (cz (fst zf)) (snd zf)) used).
    assert (Eh : h = vfold fo n hterms).
    { unfold h, vfold, hterms. rewrite Hden. apply (fold_left_combine_terms fo (fun zf : nat * list F => cz (fst zf)) snd). }
    assert (Hht : Forall (fun v => length v = n) hterms).
    { apply Forall_forall. intros v Hv. apply in_map_iff in Hv as ([z w] & <- & Hin). cbn [fst snd].
      rewrite (vscale_length fo). apply (Hused z w Hin). }
    destruct (vfold_gen fo FL n gterms (zeros fo n) bvec (zeros_length fo n) bvec_length Hgt) as [Lg Ig].
    destruct (vfold_gen fo FL n hterms (zeros fo n) bvec (zeros_length fo n) bvec_length Hht) as [Lh Ih].
    fold (vfold fo n gterms) in Lg, Ig. fold (vfold fo n hterms) in Lh, Ih. rewrite <- Eg in Lg, Ig. rewrite <- Eh in Lh, Ih.
    split; [exact Lg|]. split; [exact Lh|]. split.
    - rewrite (inner_sub fo FL) by (rewrite ?bvec_length; lia).
      rewrite Ih, Ig, (inner_zeros fo FL). unfold gterms, hterms. rewrite !map_map.
      unfold Phi_from. rewrite <- (used_slots_from tb). fold used.
      transitivity (msum (fgo fo) (map (fun zf : nat * list F => inner fo (vscale fo (cz (fst zf)) (snd zf)) bvec) used)
                    - msum (fgo fo) (map (fun zf : nat * list F => inner fo (divide_on_domain fo n W (fst zf) (snd zf)) bvec) used)); [ring|].
      apply (fsumF_sub fo FL). intros [z v] Hin. cbn [fst snd]. destruct (Hused z v Hin) as [Hz Hv].
      rewrite (inner_scale fo FL).
      rewrite (quotient_eval_identity fo FL dom_add n z v tch n_pos Hnodes Hoff Hz Hv).
      unfold phiS, cz. ring.
    - rewrite Eh. rewrite (commit_vfold fo go FL GL n srs srs_len hterms Hht).
      unfold hterms. rewrite map_map. unfold Phi_from. rewrite <- (used_slots_from tb). fold used.
      f_equal. apply map_ext. intros [z v]. cbn [fst snd]. unfold phiE.
      apply (commit_scale fo go GL).
  Qed.

  (* ---- verifier side ---- *)
  Lemma helper_spec :
    batch_invert fo (map (fun i => tch - dom i) (seq 0 n)) = map cz (seq 0 n).
  Proof.
    rewrite (batch_invert_invertible fo FL).
    - rewrite map_map. reflexivity.
    - apply Forall_forall. intros x Hx. apply in_map_iff in Hx as (i & <- & Hi). apply in_seq in Hi. apply Hoff. lia.
  Qed.
  Lemma nth_helper z : (z < n)%nat -> nth z (map cz (seq 0 n)) 0 = cz z.
  Proof. intros Hz. rewrite (nth_map_seq cz 0 n z 0 Hz). reflexivity. Qed.

  Lemma inner_update (ge : list F) : forall z delta (c : list F), (z < length ge)%nat -> length c = length ge ->
    length (firstn z ge ++ (nth z ge 0 + delta) :: skipn (S z) ge) = length ge
    /\ inner fo (firstn z ge ++ (nth z ge 0 + delta) :: skipn (S z) ge) c = inner fo ge c + delta * nth z c 0.
  Proof.
    induction ge as [|x ge IH]; intros z delta c Hz Hc; [cbn in Hz; lia|].
    destruct c as [|y c]; [discriminate|]. destruct z as [|z].
    - cbn [firstn skipn app nth inner length]. split; [reflexivity|ring].
    - change (skipn (S (S z)) (x :: ge)) with (skipn (S z) ge).
      cbn [firstn app nth inner length]. destruct (IH z delta c) as [L I]; [cbn in Hz; lia|cbn in Hc; lia|].
      split; [f_equal; exact L|]. rewrite I. ring.
  Qed.

  Lemma grouped_spec (L : list ((F * F) * nat)) : forall ge (c : list F),
    length ge = n -> length c = n -> Forall (fun p => (snd p < n)%nat) L ->
    let ge' := fold_left (fun (ge : list F) (p : (F * F) * nat) =>
                            let '((ri, y), z) := p in
                            firstn z ge ++ (nth z ge 0 + ri * y) :: skipn (S z) ge) L ge in
    length ge' = n
    /\ inner fo ge' c = inner fo ge c + msum (fgo fo) (map (fun p : (F * F) * nat => (fst (fst p) * snd (fst p)) * nth (snd p) c 0) L).
  Proof.
    induction L as [|[[ri y] z] L IH]; intros ge c Hg Hc HL; cbn [fold_left map msum].
    - split; [exact Hg|]. cbn. ring.
    - pose proof (Forall_inv HL) as Hz. pose proof (Forall_inv_tail HL) as HL'. cbn [snd] in Hz.
      destruct (inner_update ge z (ri * y) c) as [Lu Iu]; [lia|lia|].
      destruct (IH (firstn z ge ++ (nth z ge 0 + ri * y) :: skipn (S z) ge) c) as [L2 I2]; [lia|exact Hc|exact HL'|].
      split; [exact L2|]. rewrite I2, Iu. cbn [fst snd gadd fgo]. ring.
  Qed.

  Lemma g2t_spec (ge hl : list F) : forall acc,
    fold_left (fun acc (p : F * F) => if feqb fo (fst p) 0 then acc else acc + fst p * snd p) (combine ge hl) acc
    = acc + inner fo ge hl.
  Proof.
    revert hl. induction ge as [|a ge IH]; intros [|b hl] acc; cbn [combine fold_left inner fst snd]; try ring.
    rewrite IH. destruct (feqb fo a 0) eqn:E; [|ring]. apply (fl_eqb fo FL) in E. subst a. ring.
  Qed.

  (* both sides as sums over the openings (r^i, f_i, z_i) *)
  Lemma verifier_sums (fs : list (list F)) : forall (powers : list F) (zs : list nat),
    length powers = length fs -> length zs = length fs ->
    let ys := map (fun fz : list F * nat => nth (snd fz) (fst fz) 0) (combine fs zs) in
    msum (fgo fo) (map (fun p : (F * F) * nat => (fst (fst p) * snd (fst p)) * cz (snd p)) (combine (combine powers ys) zs))
    = msum (fgo fo) (map (fun o : F * list F * nat => phiS (snd o) (vscale fo (fst (fst o)) (snd (fst o)))) (combine (combine powers fs) zs))
    /\ msm go (map commit fs) (map (fun p : F * nat => fst p * cz (snd p)) (combine powers zs))
       = msum go (map (fun o : F * list F * nat => phiE (snd o) (vscale fo (fst (fst o)) (snd (fst o)))) (combine (combine powers fs) zs)).
  Proof.
    induction fs as [|f fs IH]; intros [|r powers] [|z zs] Hp Hz; try discriminate; cbn [combine map msum msm].
    - split; reflexivity.
    - destruct (IH powers zs) as [A B]; [cbn in Hp; lia|cbn in Hz; lia|].
      cbn [fst snd]. split.
      + cbn zeta in A. rewrite A. f_equal. unfold phiS. rewrite (nth_vscale fo FL). reflexivity.
      + rewrite B. f_equal. unfold phiE. rewrite (commit_scale fo go GL), <- (gl_mul_mul fo go GL). f_equal. ring.
  Qed.
End Main.

Section Complete.
  Local Open Scope nat_scope.
  Context {F G : Type} (fo : FOps F) (go : GOps F G) (hashf : list Z -> list Z)
          (FL : FieldLaws fo) (GL : GroupLaws fo go).
  Hypothesis geqb_refl : forall x, geqb go x x = true.
  Hypothesis dom_add : forall i j, dom fo (i + j) = fadd fo (dom fo i) (dom fo j).
  Variables (k : nat) (cfg : config (F := F) (G := G)).
  Local Notation n := (2 ^ k).
  Hypothesis Hcn : c_n cfg = n.
  Hypothesis Hcr : c_rounds cfg = k.
  Hypothesis Hsrs : length (c_srs cfg) = n.
  Hypothesis Hcw : c_w cfg = new_weights fo n.
  Hypothesis Hnodes : nodes_ok fo n.
  Local Notation srs := (c_srs cfg).
  Local Notation commit := (msm go srs).

  Lemma n_pos : 1 <= n.
  Proof. clear. induction k; cbn; lia. Qed.

  (* what the verifier derives before calling the inner IPA check *)
  Definition mp_view (t : tstate) (pr : multiproof (F := F) (G := G)) (cs : list G) (ys : list F) (zs : list nat)
    : tstate * F * G * F :=
    let t := t_domain_sep t lbl_multiproof in
    let t := absorb_openings fo go t cs zs ys in
    let '(t, r) := t_challenge fo hashf t lbl_r in
    let powers := powers_of fo r (length cs) in
    let t := t_append_point t (genc go (mpD pr)) lbl_D in
    let '(t, tch) := t_challenge fo hashf t lbl_t in
    let grouped := fold_left (fun (ge : list F) (p : (F * F) * nat) =>
                                let '((ri, y), z) := p in
                                firstn z ge ++ (fadd fo (nth z ge (f0 fo)) (fmul fo ri y)) :: skipn (S z) ge)
                             (combine (combine powers ys) zs) (zeros fo (c_n cfg)) in
    let helper := batch_invert fo (map (fun i => fsub fo tch (fofz fo (Z.of_nat i))) (seq 0 (c_n cfg))) in
    let g2t := fold_left (fun acc (p : F * F) =>
                            if feqb fo (fst p) (f0 fo) then acc
                            else fadd fo acc (fmul fo (fst p) (snd p)))
                         (combine grouped helper) (f0 fo) in
    let msm_scalars := map (fun p : F * nat => fmul fo (fst p) (nth (snd p) helper (f0 fo)))
                           (combine powers zs) in
    let E := msm go cs msm_scalars in
    let t := t_append_point t (genc go E) lbl_E in
    (t, tch, gadd go E (gneg go (mpD pr)), g2t).

  Lemma mp_check_view t pr cs ys zs :
    length cs = length ys -> length cs = length zs -> length cs <> 0 ->
    mp_check fo go hashf t cfg pr cs ys zs
    = (let '(t4, tch, EmD, g2t) := mp_view t pr cs ys zs in ipa_check fo go hashf t4 cfg EmD (mpIPA pr) tch g2t).
  Proof.
    intros H1 H2 H3. unfold mp_check, mp_view.
    rewrite (proj2 (Nat.eqb_eq _ _) H1), (proj2 (Nat.eqb_eq _ _) H2), (proj2 (Nat.eqb_neq _ _) H3). cbn [negb].
    destruct (t_challenge fo hashf _ lbl_r) as [t1 r].
    destruct (t_challenge fo hashf _ lbl_t) as [t2 tch]. reflexivity.
  Qed.

  Lemma fold_vadd_length {A} (term : A -> list F) (l : list A) : forall acc,
    length acc = n -> (forall x, In x l -> length (term x) = n) ->
    length (fold_left (fun acc x => vadd fo acc (term x)) l acc) = n.
  Proof.
    induction l as [|x l IH]; intros acc Ha Ht; cbn [fold_left]; [exact Ha|].
    apply IH; [|intros y Hy; apply Ht; right; exact Hy].
    rewrite (vadd_length fo), Ha, (Ht x (or_introl eq_refl)). apply Nat.min_id.
  Qed.

  (* MAIN THEOREM: multiproof completeness *)
  Theorem mp_complete nw arrival t (fs : list (list F)) (zs : list nat) :
    1 <= nw -> Permutation arrival (seq 0 nw) ->
    fs <> [] -> length zs = length fs ->
    Forall (fun f => length f = n) fs -> Forall (fun z => z < n) zs ->
    let cs := map commit fs in
    let ys := map (fun fz : list F * nat => nth (snd fz) (fst fz) (f0 fo)) (combine fs zs) in
    match mp_create fo go hashf nw arrival t cfg commit cs fs zs with
    | inr _ => False
    | inl (t', pr) =>
        let '(t4, tch, EmD, g2t) := mp_view t pr cs ys zs in
        off_domain fo n tch -> (Z.of_nat n - 1 < f2z fo tch)%Z ->
        Forall (invertible fo) (ipa_challenges fo go hashf t4 cfg EmD (mpIPA pr) tch g2t) ->
        mp_check fo go hashf t cfg pr cs ys zs = Some (t', true)
    end.
  Proof.
    intros Hnw HP Hne Hlz Hfs Hzs cs ys.
    assert (Hlc : length cs = length fs) by (unfold cs; apply map_length).
    assert (Hly : length ys = length fs).
    { unfold ys. rewrite map_length, combine_length, Hlz. apply Nat.min_id. }
    assert (Hnz : length cs <> 0) by (rewrite Hlc; destruct fs; [congruence|discriminate]).
    rewrite (mp_create_schedule_independent fo go hashf FL nw arrival t cfg commit cs fs zs Hnw HP).
    unfold mp_create.
    assert (Efs : forallb (fun f => Nat.eqb (length f) (c_n cfg)) fs = true).
    { apply forallb_forall. intros f Hf. apply Nat.eqb_eq. rewrite Hcn. exact (proj1 (Forall_forall _ _) Hfs f Hf). }
    rewrite Efs. cbn [negb]. rewrite Hlc, Nat.eqb_refl. cbn [negb].
    rewrite (proj2 (Nat.eqb_eq _ _) (eq_sym Hlz)). cbn [negb].
    rewrite (proj2 (Nat.eqb_neq _ _) (ltac:(rewrite <- Hlc; exact Hnz) : length fs <> 0)).
    fold ys.
    set (t1 := absorb_openings fo go (t_domain_sep t lbl_multiproof) cs zs ys).
    destruct (t_challenge fo hashf t1 lbl_r) as [t2 r] eqn:Er.
    set (powers := powers_of fo r (length fs)).
    set (ops := combine (combine powers fs) zs).
    assert (Hops : ops_ok (c_n cfg) ops) by (apply ops_ok_combine; exact Efs).
    rewrite (group_polys_schedule_independent fo FL (c_n cfg) 1 [0] ops (le_n 1) (Permutation_refl _) Hops).
    unfold group_spec. rewrite Hcn in *. rewrite Hcw.
    set (tb := worker_agg fo n ops).
    assert (Hwf : wf n n tb) by (apply (wf_worker_agg fo), Hops).
    set (used := used_slots tb).
    set (g := fold_left (fun acc (zf : nat * list F) => vadd fo acc (divide_on_domain fo n (new_weights fo n) (fst zf) (snd zf))) used (zeros fo n)).
    set (D := commit g).
    destruct (t_challenge fo hashf (t_append_point t2 (genc go D) lbl_D) lbl_t) as [t3 tch] eqn:Et.
    change (map (fun zf : nat * list F => fsub fo tch (fofz fo (Z.of_nat (fst zf)))) used)
      with (map (fun zf : nat * list F => fsub fo tch (dom fo (fst zf))) used).
    set (h := fold_left (fun acc (p : (nat * list F) * F) => vadd fo acc (vscale fo (snd p) (snd (fst p))))
                        (combine used (batch_invert fo (map (fun zf : nat * list F => fsub fo tch (dom fo (fst zf))) used))) (zeros fo n)).
    (* lengths, without any premise on tch *)
    assert (Hused : forall z v, In (z, v) used -> z < n /\ length v = n).
    { intros z v Hin. unfold used in Hin. rewrite (used_slots_from) in Hin. destruct Hwf as [Hl HF].
      destruct (used_from_facts n tb 0 z v) as [A B]; [split; [reflexivity|exact HF]|exact Hin|].
      split; [lia|exact B]. }
    assert (Lg : length g = n).
    { apply fold_vadd_length; [apply (zeros_length fo)|]. intros x _. unfold divide_on_domain. rewrite map_length, seq_length. reflexivity. }
    assert (Lh : length h = n).
    { apply (fold_vadd_length (fun p : (nat * list F) * F => vscale fo (snd p) (snd (fst p)))); [apply (zeros_length fo)|].
      intros [[z v] c] Hin. apply in_combine_l in Hin. cbn [fst snd]. rewrite (vscale_length fo). apply (Hused z v Hin). }
    set (a := vsub fo h g).
    assert (La : length a = n) by (unfold a; rewrite (vsub_length fo), Lh, Lg; apply Nat.min_id).
    assert (EmD : gadd go (commit h) (gneg go D) = commit a).
    { unfold a, D. symmetry. apply (msm_sub fo go FL GL); lia. }
    rewrite EmD.
    set (t4 := t_append_point t3 (genc go (commit h)) lbl_E).
    destruct (ipa_complete fo go hashf FL GL geqb_refl t4 cfg a tch k Hcr Hsrs La
                (eq_trans (compute_b_length fo FL cfg tch) Hcn)) as (t' & pri & Hcreate & HL & HR & Hcheck).
    rewrite Hcreate.
    (* the verifier *)
    unfold mp_view. cbn [mpD mpIPA]. fold t1. rewrite Er. rewrite Hlc. fold powers. fold D. rewrite Et. rewrite Hcn.
    intros Hoff Hbig.
    pose proof n_pos as Hn1.
    destruct (prover_vectors fo go FL GL dom_add n Hn1 Hnodes srs Hsrs tch Hoff tb Hwf) as (_ & _ & Hinner & HE).
    fold used in Hinner, HE. fold g in Hinner. fold h in Hinner, HE. fold a in Hinner.
    (* both sides as sums over the openings *)
    assert (Hzok : ops_zok n ops).
    { unfold ops_zok, ops. apply Forall_forall. intros [[ri f] z] Hin. apply in_combine_r in Hin. cbn [snd].
      exact (proj1 (Forall_forall _ _) Hzs z Hin). }
    unfold tb in Hinner, HE.
    rewrite (regroup fo (fgo fo) FL (fgo_laws fo FL) n (phiS fo tch) (phiS_add fo FL n Hn1 srs Hsrs tch) ops Hops Hzok) in Hinner.
    rewrite (regroup fo go FL GL n (phiE fo go srs tch) (phiE_add fo go GL n Hn1 srs Hsrs tch) ops Hops Hzok) in HE.
    unfold ops in Hinner, HE.
    assert (Hlp : length powers = length fs) by (unfold powers, powers_of; clear; generalize (f1 fo); induction (length fs); intros; cbn; auto).
    destruct (verifier_sums fo go FL GL n Hn1 srs Hsrs tch fs powers zs Hlp Hlz) as [VS VE]. fold ys in VS.
    (* helper table *)
    change (map (fun i : nat => fsub fo tch (fofz fo (Z.of_nat i))) (seq 0 n))
      with (map (fun i => fsub fo tch (dom fo i)) (seq 0 n)).
    rewrite (helper_spec fo FL n Hn1 srs Hsrs tch Hoff).
    (* E *)
    assert (HEv : msm go cs (map (fun p : F * nat => fmul fo (fst p) (nth (snd p) (map (cz fo tch) (seq 0 n)) (f0 fo))) (combine powers zs))
                  = commit h).
    { rewrite HE, <- VE. unfold cs. f_equal. apply map_ext_in. intros [ri z] Hin. cbn [fst snd].
      apply in_combine_r in Hin. rewrite (nth_helper fo n tch z (proj1 (Forall_forall _ _) Hzs z Hin)). reflexivity. }
    rewrite HEv. fold t4. rewrite EmD.
    (* g2(t) *)
    rewrite (g2t_spec fo FL).
    destruct (grouped_spec fo FL n Hn1 srs Hsrs (combine (combine powers ys) zs) (zeros fo n) (map (cz fo tch) (seq 0 n))
                (zeros_length fo n) ltac:(rewrite map_length, seq_length; reflexivity)) as [_ Hgr].
    { apply Forall_forall. intros [[ri y] z] Hin. apply in_combine_r in Hin. cbn [snd]. exact (proj1 (Forall_forall _ _) Hzs z Hin). }
    cbv zeta in Hgr. rewrite Hgr, (inner_zeros fo FL).
    assert (Hres : fadd fo (f0 fo) (fadd fo (f0 fo)
                     (msum (fgo fo) (map (fun p : F * F * nat => fmul fo (fmul fo (fst (fst p)) (snd (fst p))) (nth (snd p) (map (cz fo tch) (seq 0 n)) (f0 fo)))
                                         (combine (combine powers ys) zs))))
                   = inner fo a (compute_b fo cfg tch)).
    { destruct (compute_b_switch fo cfg tch) as [_ Hsw]. rewrite Hcn in Hsw. rewrite (Hsw Hbig), Hcw.
      rewrite (bary_coeffs_spec fo FL n tch Hnodes Hoff), Hinner, <- VS.
      transitivity (msum (fgo fo) (map (fun p : F * F * nat => fmul fo (fmul fo (fst (fst p)) (snd (fst p))) (nth (snd p) (map (cz fo tch) (seq 0 n)) (f0 fo)))
                                       (combine (combine powers ys) zs))).
      - pose proof (fl_ring fo FL) as R. rewrite (Radd_0_l R), (Radd_0_l R). reflexivity.
      - f_equal. apply map_ext_in. intros [[ri y] z] Hin. cbn [fst snd]. apply in_combine_r in Hin.
        rewrite (nth_helper fo n tch z (proj1 (Forall_forall _ _) Hzs z Hin)). reflexivity. }
    rewrite Hres. intros Hch.
    rewrite (mp_check_view t (mkMP pri D) cs ys zs) by (rewrite ?Hly; auto; congruence).
    unfold mp_view. cbn [mpD mpIPA]. fold t1. rewrite Er. rewrite Hlc. fold powers. fold D. rewrite Et. rewrite Hcn.
    change (map (fun i : nat => fsub fo tch (fofz fo (Z.of_nat i))) (seq 0 n))
      with (map (fun i => fsub fo tch (dom fo i)) (seq 0 n)).
    rewrite (helper_spec fo FL n Hn1 srs Hsrs tch Hoff). rewrite HEv. fold t4. rewrite EmD.
    rewrite (g2t_spec fo FL). rewrite Hgr, (inner_zeros fo FL), Hres.
    apply Hcheck. exact Hch.
  Qed.
End Complete.
