(* Multiproof level: schedule independence of CreateMultiProof, shape totality of the
   verifier and prover. *)
From Coq Require Import ZArith List Bool Lia Permutation Arith.
From GoIpa Require Import Model.Bytes Model.Alg Model.Transcript Model.Bary Model.Banderwagon Model.IPA Model.Multiproof
  Proofs.AlgLaws Proofs.GroupingProofs.
Import ListNotations.

Section MP.
  Context {F G : Type} (fo : FOps F) (go : GOps F G) (hashf : list Z -> list Z) (FL : FieldLaws fo).

  Lemma ops_ok_combine n (powers : list F) (fs : list (list F)) (zs : list nat) :
    forallb (fun f => Nat.eqb (length f) n) fs = true ->
    ops_ok n (combine (combine powers fs) zs).
  Proof.
    intros H. unfold ops_ok. revert powers zs. induction fs as [|f fs IH]; intros powers zs.
    - destruct powers; cbn; constructor.
    - cbn [forallb] in H. apply andb_prop in H as [Hf H]. apply Nat.eqb_eq in Hf.
      destruct powers as [|p powers]; [cbn; constructor|].
      destruct zs as [|z zs]; [cbn; constructor|]. cbn [combine]. constructor; [exact Hf|apply IH, H].
  Qed.

  (* CreateMultiProof does not depend on the number of workers nor on the order in
     which their results arrive: same proof, same final transcript, same error *)
  Theorem mp_create_schedule_independent nw arrival t cfg commit cs fs zs :
    (1 <= nw)%nat -> Permutation arrival (seq 0 nw) ->
    mp_create fo go hashf nw arrival t cfg commit cs fs zs
    = mp_create fo go hashf 1 [0%nat] t cfg commit cs fs zs.
  Proof.
    intros Hnw HP. unfold mp_create.
    destruct (forallb (fun f => Nat.eqb (length f) (c_n cfg)) fs) eqn:Efs; cbn [negb]; [|reflexivity].
    destruct (Nat.eqb (length cs) (length fs)); cbn [negb]; [|reflexivity].
    destruct (Nat.eqb (length cs) (length zs)); cbn [negb]; [|reflexivity].
    destruct (Nat.eqb (length cs) 0); [reflexivity|].
    destruct (t_challenge fo hashf _ lbl_r) as [t1 r].
    rewrite (group_polys_schedule_independent fo FL (c_n cfg) nw arrival _ Hnw HP (ops_ok_combine _ _ _ _ Efs)).
    rewrite (group_polys_schedule_independent fo FL (c_n cfg) 1 [0%nat] _ (le_n 1) (Permutation_refl _)
               (ops_ok_combine _ _ _ _ Efs)).
    reflexivity.
  Qed.

  (* ---- shapes ---- *)
  Theorem ipa_check_shape t cfg c pr z res :
    ipa_check fo go hashf t cfg c pr z res = None
    <-> (length (pL pr) <> length (pR pr) \/ length (pL pr) <> c_rounds cfg).
  Proof.
    unfold ipa_check.
    destruct (Nat.eqb (length (pL pr)) (length (pR pr))) eqn:E1; cbn [negb].
    2:{ apply Nat.eqb_neq in E1. split; auto. }
    destruct (Nat.eqb (length (pL pr)) (c_rounds cfg)) eqn:E2; cbn [negb].
    2:{ apply Nat.eqb_neq in E2. split; auto. }
    apply Nat.eqb_eq in E1, E2.
    destruct (t_challenge fo hashf _ lbl_w) as [t1 w].
    destruct (gen_challenges fo go hashf t1 (pL pr) (pR pr)) as [t2 xs].
    split; [discriminate|]. intros [H|H]; contradiction.
  Qed.

  Theorem mp_check_shape t cfg pr cs ys zs :
    mp_check fo go hashf t cfg pr cs ys zs = None
    <-> (length cs <> length ys \/ length cs <> length zs \/ length cs = 0%nat
         \/ length (pL (mpIPA pr)) <> length (pR (mpIPA pr)) \/ length (pL (mpIPA pr)) <> c_rounds cfg).
  Proof.
    unfold mp_check.
    destruct (Nat.eqb (length cs) (length ys)) eqn:E1; cbn [negb].
    2:{ apply Nat.eqb_neq in E1. split; auto. }
    destruct (Nat.eqb (length cs) (length zs)) eqn:E2; cbn [negb].
    2:{ apply Nat.eqb_neq in E2. split; auto. }
    destruct (Nat.eqb (length cs) 0) eqn:E3.
    { apply Nat.eqb_eq in E3. split; auto. }
    apply Nat.eqb_eq in E1, E2. apply Nat.eqb_neq in E3.
    destruct (t_challenge fo hashf _ lbl_r) as [t1 r].
    destruct (t_challenge fo hashf _ lbl_t) as [t2 tch].
    rewrite ipa_check_shape. split; [intros [H|H]; auto|].
    intros [H|[H|[H|[H|H]]]]; try contradiction; auto.
  Qed.

  Theorem mp_create_shape nw arrival t cfg commit cs fs zs :
    (forallb (fun f => Nat.eqb (length f) (c_n cfg)) fs = false ->
       mp_create fo go hashf nw arrival t cfg commit cs fs zs = inr MPErrPolyLen)
    /\ (forallb (fun f => Nat.eqb (length f) (c_n cfg)) fs = true -> length cs <> length fs ->
       mp_create fo go hashf nw arrival t cfg commit cs fs zs = inr MPErrLenFs)
    /\ (forallb (fun f => Nat.eqb (length f) (c_n cfg)) fs = true -> length cs = length fs ->
        length cs <> length zs ->
       mp_create fo go hashf nw arrival t cfg commit cs fs zs = inr MPErrLenZs)
    /\ (forallb (fun f => Nat.eqb (length f) (c_n cfg)) fs = true -> length cs = length fs ->
        length cs = length zs -> length cs = 0%nat ->
       mp_create fo go hashf nw arrival t cfg commit cs fs zs = inr MPErrZero).
  Proof.
    unfold mp_create. repeat split.
    - intros ->. reflexivity.
    - intros -> H. apply Nat.eqb_neq in H. rewrite H. reflexivity.
    - intros -> H1 H2. apply Nat.eqb_eq in H1. apply Nat.eqb_neq in H2. rewrite H1, H2. reflexivity.
    - intros -> H1 H2 H3. apply Nat.eqb_eq in H1, H2, H3. rewrite H1, H2, H3. reflexivity.
  Qed.
End MP.
