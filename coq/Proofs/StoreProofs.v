(* Frame, history independence and interleaving independence for calls whose effects are
   confined to their declared write sets (Model/Store.v). *)
From Coq Require Import List Arith Bool Lia.
From GoIpa Require Import Model.Store.
Import ListNotations.

Section StoreProofs.
  Context {C V R : Type} (d : V).
  Local Notation call := (call (C := C) (V := V) (R := R)).
  Local Notation store := (store (C := C) (V := V)).

  Lemma set_at_length (l : list V) k v : length (set_at l k v) = length l.
  Proof. revert k; induction l as [|x l IH]; intros [|k]; cbn; auto. Qed.
  Lemma nth_set_at (l : list V) k v i :
    nth i (set_at l k v) d = if Nat.eqb i k && Nat.ltb k (length l) then v else nth i l d.
  Proof.
    revert k i; induction l as [|x l IH]; intros k i.
    - destruct k, i; cbn; rewrite ?andb_false_r; reflexivity.
    - destruct k as [|k], i as [|i]; cbn [set_at nth length]; try reflexivity.
      rewrite IH. cbn [Nat.eqb]. replace (S k <? S (length l)) with (k <? length l) by reflexivity. reflexivity.
  Qed.
  Lemma set_many_length idxs : forall (objs vals : list V), length (set_many objs idxs vals) = length objs.
  Proof.
    induction idxs as [|i is IH]; intros objs [|v vs]; cbn [set_many]; auto. rewrite IH. apply set_at_length.
  Qed.
  Lemma set_many_outside idxs : forall (objs vals : list V) i, ~ In i idxs ->
    nth i (set_many objs idxs vals) d = nth i objs d.
  Proof.
    induction idxs as [|k is IH]; intros objs [|v vs] i Hn; cbn [set_many]; auto.
    rewrite IH by (intros H; apply Hn; right; exact H). rewrite nth_set_at.
    destruct (Nat.eqb_spec i k) as [->|]; [exfalso; apply Hn; left; reflexivity|reflexivity].
  Qed.
  (* the value written at a position depends only on the former value there *)
  Lemma set_many_agree idxs : forall (o1 o2 vals : list V) i,
    length o1 = length o2 -> nth i o1 d = nth i o2 d ->
    nth i (set_many o1 idxs vals) d = nth i (set_many o2 idxs vals) d.
  Proof.
    induction idxs as [|k is IH]; intros o1 o2 [|v vs] i Hl Hi; cbn [set_many]; auto.
    apply IH; [rewrite !set_at_length; exact Hl|]. rewrite !nth_set_at, Hl, Hi. reflexivity.
  Qed.

  (* 1. one-step frame: the configuration and every object outside the write set are
        unchanged, no object is created or destroyed *)
  Theorem step_frame (s : store) (k : call) :
    fst (fst (step d s k)) = fst s
    /\ length (snd (fst (step d s k))) = length (snd s)
    /\ forall i, ~ In i (c_writes k) -> nth i (snd (fst (step d s k))) d = nth i (snd s) d.
  Proof.
    unfold step. destruct (c_run k _ _) as [nv r]. cbn [fst snd].
    split; [reflexivity|]. split; [apply set_many_length|]. intros i Hi. apply set_many_outside, Hi.
  Qed.

  (* 2. lifted to every finite history *)
  Theorem history_frame (ks : list call) : forall (s : store),
    fst (fst (run d s ks)) = fst s
    /\ length (snd (fst (run d s ks))) = length (snd s)
    /\ forall i, (forall k, In k ks -> ~ In i (c_writes k)) -> nth i (snd (fst (run d s ks))) d = nth i (snd s) d.
  Proof.
    induction ks as [|k ks IH]; intros s; cbn [run].
    - repeat split; reflexivity.
    - destruct (step d s k) as [s1 r] eqn:E1. destruct (run d s1 ks) as [s2 rs] eqn:E2. cbn [fst snd].
      destruct (step_frame s k) as (A1 & A2 & A3). rewrite E1 in A1, A2, A3. cbn [fst snd] in *.
      destruct (IH s1) as (B1 & B2 & B3). rewrite E2 in B1, B2, B3. cbn [fst snd] in *.
      split; [congruence|]. split; [congruence|]. intros i Hi.
      rewrite B3 by (intros k' Hk'; apply Hi; right; exact Hk').
      apply A3, Hi. left; reflexivity.
  Qed.

  (* stores that agree on the configuration and on a set of objects *)
  Definition agree (S : nat -> Prop) (s1 s2 : store) : Prop :=
    fst s1 = fst s2 /\ length (snd s1) = length (snd s2) /\ forall i, S i -> nth i (snd s1) d = nth i (snd s2) d.

  Definition footprint (k : call) (i : nat) : Prop := In i (c_reads k) \/ In i (c_writes k).

  (* 3. the result of a call (and what it writes) depends only on the configuration and
        on the objects it reads: independent of the rest of the history *)
  Theorem step_agree (S : nat -> Prop) (s1 s2 : store) (k : call) :
    agree S s1 s2 -> (forall i, In i (c_reads k) -> S i) ->
    snd (step d s1 k) = snd (step d s2 k) /\ agree S (fst (step d s1 k)) (fst (step d s2 k)).
  Proof.
    intros (Hc & Hl & Ho) Hr. unfold step.
    assert (E : map (fun i => nth i (snd s1) d) (c_reads k) = map (fun i => nth i (snd s2) d) (c_reads k)).
    { apply map_ext_in. intros i Hi. apply Ho, Hr, Hi. }
    rewrite E, Hc. destruct (c_run k (fst s2) _) as [nv r]. cbn [fst snd].
    split; [reflexivity|]. unfold agree. cbn [fst snd]. split; [reflexivity|].
    split; [rewrite !set_many_length; exact Hl|].
    intros i Hi. apply set_many_agree; [exact Hl|apply Ho, Hi].
  Qed.

  Theorem run_agree (ks : list call) : forall (S : nat -> Prop) (s1 s2 : store),
    agree S s1 s2 -> (forall k i, In k ks -> In i (c_reads k) -> S i) ->
    snd (run d s1 ks) = snd (run d s2 ks) /\ agree S (fst (run d s1 ks)) (fst (run d s2 ks)).
  Proof.
    induction ks as [|k ks IH]; intros S s1 s2 Ha Hr; cbn [run]; [split; [reflexivity|exact Ha]|].
    destruct (step_agree S s1 s2 k Ha (fun i Hi => Hr k i (or_introl eq_refl) Hi)) as [E1 A1].
    destruct (step d s1 k) as [t1 r1]. destruct (step d s2 k) as [t2 r2]. cbn [fst snd] in *. subst r2.
    destruct (IH S t1 t2 A1 (fun k' i Hk Hi => Hr k' i (or_intror Hk) Hi)) as [E2 A2].
    destruct (run d t1 ks) as [u1 rs1]. destruct (run d t2 ks) as [u2 rs2]. cbn [fst snd] in *. subst rs2.
    split; [reflexivity|exact A2].
  Qed.

  (* a call that writes nothing inside S preserves agreement with a store that does not move *)
  Lemma step_outside (S : nat -> Prop) (s0 s : store) (k : call) :
    agree S s0 s -> (forall i, In i (c_writes k) -> ~ S i) -> agree S s0 (fst (step d s k)).
  Proof.
    intros (Hc & Hl & Ho) Hw. destruct (step_frame s k) as (A1 & A2 & A3).
    split; [congruence|]. split; [congruence|]. intros i Hi. rewrite A3; [apply Ho, Hi|].
    intros Hin. exact (Hw i Hin Hi).
  Qed.

  (* 4. two goroutines with disjoint footprints: under EVERY interleaving, each call of
        goroutine A returns exactly what it returns when A runs alone, and symmetrically *)
  Inductive is_merge : list call -> list call -> list (bool * call) -> Prop :=
  | merge_nil : is_merge [] [] []
  | merge_a x a b m : is_merge a b m -> is_merge (x :: a) b ((true, x) :: m)
  | merge_b y a b m : is_merge a b m -> is_merge a (y :: b) ((false, y) :: m).

  Fixpoint run_tagged (s : store) (ks : list (bool * call)) : store * list (bool * R) :=
    match ks with
    | [] => (s, [])
    | (w, k) :: ks' => let '(s1, r) := step d s k in
                       let '(s2, rs) := run_tagged s1 ks' in (s2, (w, r) :: rs)
    end.

  Definition results_of (who : bool) (l : list (bool * R)) : list R :=
    map snd (filter (fun p => Bool.eqb (fst p) who) l).

  Definition FP (a : list call) (i : nat) : Prop := exists k, In k a /\ footprint k i.

  Lemma agree_mono (S S' : nat -> Prop) s1 s2 : (forall i, S' i -> S i) -> agree S s1 s2 -> agree S' s1 s2.
  Proof. intros H (A & B & Cc). split; [exact A|]. split; [exact B|]. intros i Hi. apply Cc, H, Hi. Qed.

  Lemma interleaving_gen a b m : is_merge a b m -> forall (s sa sb : store),
    (forall k i, In k b -> In i (c_writes k) -> ~ FP a i) ->
    (forall k i, In k a -> In i (c_writes k) -> ~ FP b i) ->
    agree (FP a) sa s -> agree (FP b) sb s ->
    results_of true (snd (run_tagged s m)) = snd (run d sa a)
    /\ results_of false (snd (run_tagged s m)) = snd (run d sb b).
  Proof.
    induction 1 as [|x a b m Hm IH|y a b m Hm IH]; intros s sa sb Hba Hab Ha Hb.
    - split; reflexivity.
    - cbn [run_tagged run].
      assert (Hrx : forall i, In i (c_reads x) -> FP (x :: a) i).
      { intros i Hi. exists x. split; [left; reflexivity|left; exact Hi]. }
      destruct (step_agree (FP (x :: a)) sa s x Ha Hrx) as [Er Ag].
      assert (Hbx : agree (FP b) sb (fst (step d s x))).
      { apply step_outside; [exact Hb|]. intros i Hi. apply (Hab x i); [left; reflexivity|exact Hi]. }
      destruct (step d sa x) as [sa1 r1]. destruct (step d s x) as [s1 r2]. cbn [fst snd] in *. subst r2.
      specialize (IH s1 sa1 sb).
      destruct IH as [I1 I2].
      + intros k i Hk Hi HF. apply (Hba k i Hk Hi). destruct HF as (k' & Hk' & Hf). exists k'. split; [right; exact Hk'|exact Hf].
      + intros k i Hk Hi. apply (Hab k i); [right; exact Hk|exact Hi].
      + apply (agree_mono (FP (x :: a))); [|exact Ag]. intros i (k' & Hk' & Hf). exists k'. split; [right; exact Hk'|exact Hf].
      + exact Hbx.
      + destruct (run_tagged s1 m) as [s2 rs]. destruct (run d sa1 a) as [sa2 ra]. cbn [fst snd] in *.
        unfold results_of in *. cbn [filter fst Bool.eqb map snd]. split; [f_equal; exact I1|exact I2].
    - cbn [run_tagged run].
      assert (Hry : forall i, In i (c_reads y) -> FP (y :: b) i).
      { intros i Hi. exists y. split; [left; reflexivity|left; exact Hi]. }
      destruct (step_agree (FP (y :: b)) sb s y Hb Hry) as [Er Ag].
      assert (Hay : agree (FP a) sa (fst (step d s y))).
      { apply step_outside; [exact Ha|]. intros i Hi. apply (Hba y i); [left; reflexivity|exact Hi]. }
      destruct (step d sb y) as [sb1 r1]. destruct (step d s y) as [s1 r2]. cbn [fst snd] in *. subst r2.
      specialize (IH s1 sa sb1).
      destruct IH as [I1 I2].
      + intros k i Hk Hi. apply (Hba k i); [right; exact Hk|exact Hi].
      + intros k i Hk Hi HF. apply (Hab k i Hk Hi). destruct HF as (k' & Hk' & Hf). exists k'. split; [right; exact Hk'|exact Hf].
      + exact Hay.
      + apply (agree_mono (FP (y :: b))); [|exact Ag]. intros i (k' & Hk' & Hf). exists k'. split; [right; exact Hk'|exact Hf].
      + destruct (run_tagged s1 m) as [s2 rs]. destruct (run d sb1 b) as [sb2 rb]. cbn [fst snd] in *.
        unfold results_of in *. cbn [filter fst Bool.eqb map snd]. split; [exact I1|f_equal; exact I2].
  Qed.

  Lemma agree_refl S (s : store) : agree S s s.
  Proof. repeat split. Qed.

  Theorem interleaving_independent a b m (s : store) : is_merge a b m ->
    (forall k i, In k b -> In i (c_writes k) -> ~ FP a i) ->
    (forall k i, In k a -> In i (c_writes k) -> ~ FP b i) ->
    results_of true (snd (run_tagged s m)) = snd (run d s a)
    /\ results_of false (snd (run_tagged s m)) = snd (run d s b)
    /\ fst (fst (run_tagged s m)) = fst s.
  Proof.
    intros Hm H1 H2. destruct (interleaving_gen a b m Hm s s s H1 H2 (agree_refl _ s) (agree_refl _ s)) as [A B].
    split; [exact A|]. split; [exact B|].
    clear. revert s. induction m as [|[w k] m IH]; intros s; cbn [run_tagged]; [reflexivity|].
    destruct (step_frame s k) as (F1 & _). destruct (step d s k) as [s1 r]. cbn [fst] in F1.
    specialize (IH s1). destruct (run_tagged s1 m) as [s2 rs]. cbn [fst snd] in *. congruence.
  Qed.
End StoreProofs.
