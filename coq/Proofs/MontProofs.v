(* Proofs about the limb-level Montgomery arithmetic model (Model/Mont.v).
   All statements are for ALL inputs (no bounded enumeration). *)
From Coq Require Import ZArith Lia List Bool ZifyBool.
From GoIpa Require Import Model.Mont.
Open Scope Z_scope.

Definition limbs_ok (x : limbs) : Prop :=
  let '(x0, x1, x2, x3) := x in
  0 <= x0 < W /\ 0 <= x1 < W /\ 0 <= x2 < W /\ 0 <= x3 < W.

(* ------------------------------------------------------------------ *)
(* Constants                                                            *)
(* ------------------------------------------------------------------ *)

Lemma W_val : W = 18446744073709551616.
Proof. reflexivity. Qed.

Lemma W_pos : 0 < W.
Proof. rewrite W_val. lia. Qed.

Lemma W_nz : W <> 0.
Proof. rewrite W_val. lia. Qed.

Theorem lval_q : lval (q0, q1, q2, q3) = qmod.
Proof. vm_compute. reflexivity. Qed.

Theorem qmod_lt : qmod < 2 ^ 253.
Proof. vm_compute. reflexivity. Qed.

Theorem qinv_spec : (qInvNeg * q0) mod W = W - 1.
Proof. vm_compute. reflexivity. Qed.

Lemma qmod_pos : 0 < qmod.
Proof. vm_compute. reflexivity. Qed.

(* turn every named constant into a numeral (for lia) *)
Ltac nums :=
  unfold q0, q1, q2, q3, qmod, qInvNeg in *;
  change W with 18446744073709551616 in *.

(* ------------------------------------------------------------------ *)
(* Small modular facts                                                  *)
(* ------------------------------------------------------------------ *)

Lemma mod_sub_once a q : 0 < q -> q <= a < 2 * q -> a mod q = a - q.
Proof.
  intros Hq Ha. symmetry. apply Z.mod_unique with (q := 1); lia.
Qed.

Lemma mod_add_once a q : 0 < q -> - q <= a < 0 -> a mod q = a + q.
Proof.
  intros Hq Ha. symmetry. apply Z.mod_unique with (q := -1); lia.
Qed.

(* ------------------------------------------------------------------ *)
(* math/bits helpers                                                    *)
(* ------------------------------------------------------------------ *)

Lemma add64_spec a b c s k :
  add64 a b c = (s, k) ->
  0 <= a < W -> 0 <= b < W -> 0 <= c <= 1 ->
  s + W * k = a + b + c /\ 0 <= s < W /\ 0 <= k <= 1.
Proof.
  unfold add64. intros H Ha Hb Hc.
  injection H as Hs Hk. subst s k.
  change W with 18446744073709551616 in *.
  Z.div_mod_to_equations. lia.
Qed.

Lemma sub64_spec a b bw d k :
  sub64 a b bw = (d, k) ->
  0 <= a < W -> 0 <= b < W -> 0 <= bw <= 1 ->
  d - W * k = a - b - bw /\ 0 <= d < W /\ 0 <= k <= 1.
Proof.
  unfold sub64. intros H Ha Hb Hc.
  injection H as Hd Hk. subst d.
  change W with 18446744073709551616 in *.
  destruct (Z.ltb_spec (a - b - bw) 0) as [Hlt | Hge]; subst k;
    Z.div_mod_to_equations; lia.
Qed.

Lemma lval_bounds z : limbs_ok z -> 0 <= lval z < W * W * W * W.
Proof.
  destruct z as [[[z0 z1] z2] z3]. unfold limbs_ok, lval.
  intros (H0 & H1 & H2 & H3). nums. lia.
Qed.

(* ------------------------------------------------------------------ *)
(* smaller_than_q, reduce                                               *)
(* ------------------------------------------------------------------ *)

Theorem smaller_than_q_spec z :
  limbs_ok z -> smaller_than_q z = (lval z <? qmod).
Proof.
  destruct z as [[[z0 z1] z2] z3]. unfold limbs_ok, smaller_than_q, lval.
  intros (H0 & H1 & H2 & H3).
  destruct (Z.ltb_spec z3 q3) as [L3 | G3]; cbn [orb andb].
  { symmetry. apply Z.ltb_lt. nums. lia. }
  destruct (Z.eqb_spec z3 q3) as [E3 | N3]; cbn [orb andb].
  2:{ symmetry. apply Z.ltb_ge. nums. lia. }
  destruct (Z.ltb_spec z2 q2) as [L2 | G2]; cbn [orb andb].
  { symmetry. apply Z.ltb_lt. nums. lia. }
  destruct (Z.eqb_spec z2 q2) as [E2 | N2]; cbn [orb andb].
  2:{ symmetry. apply Z.ltb_ge. nums. lia. }
  destruct (Z.ltb_spec z1 q1) as [L1 | G1]; cbn [orb andb].
  { symmetry. apply Z.ltb_lt. nums. lia. }
  destruct (Z.eqb_spec z1 q1) as [E1 | N1]; cbn [orb andb].
  2:{ symmetry. apply Z.ltb_ge. nums. lia. }
  destruct (Z.ltb_spec z0 q0) as [L0 | G0].
  { symmetry. apply Z.ltb_lt. nums. lia. }
  symmetry. apply Z.ltb_ge. nums. lia.
Qed.

Lemma sub_q_correct z :
  limbs_ok z -> qmod <= lval z ->
  limbs_ok (sub_q z) /\ lval (sub_q z) = lval z - qmod.
Proof.
  destruct z as [[[z0 z1] z2] z3]. unfold limbs_ok, sub_q.
  intros (H0 & H1 & H2 & H3) Hge.
  assert (Q0 : 0 <= q0 < W) by (nums; lia).
  assert (Q1 : 0 <= q1 < W) by (nums; lia).
  assert (Q2 : 0 <= q2 < W) by (nums; lia).
  assert (Q3 : 0 <= q3 < W) by (nums; lia).
  destruct (sub64 z0 q0 0) as [r0 b0] eqn:E0.
  destruct (sub64 z1 q1 b0) as [r1 b1] eqn:E1.
  destruct (sub64 z2 q2 b1) as [r2 b2] eqn:E2.
  destruct (sub64 z3 q3 b2) as [r3 b3] eqn:E3.
  apply sub64_spec in E0; [ | assumption | assumption | lia ].
  destruct E0 as (A0 & R0 & B0).
  apply sub64_spec in E1; [ | assumption | assumption | lia ].
  destruct E1 as (A1 & R1 & B1).
  apply sub64_spec in E2; [ | assumption | assumption | lia ].
  destruct E2 as (A2 & R2 & B2).
  apply sub64_spec in E3; [ | assumption | assumption | lia ].
  destruct E3 as (A3 & R3 & B3).
  unfold lval in *. nums. lia.
Qed.

Theorem reduce_generic_correct z :
  limbs_ok z -> lval z < 2 * qmod ->
  limbs_ok (reduce_generic z) /\ lval (reduce_generic z) = lval z mod qmod.
Proof.
  intros Hok Hlt. unfold reduce_generic.
  rewrite (smaller_than_q_spec z Hok).
  pose proof (lval_bounds z Hok) as Hb.
  destruct (Z.ltb_spec (lval z) qmod) as [L | G].
  - split; [ assumption | ]. symmetry. apply Z.mod_small. lia.
  - destruct (sub_q_correct z Hok G) as (Hok' & Hv).
    split; [ assumption | ]. rewrite Hv. symmetry.
    apply mod_sub_once; [ apply qmod_pos | lia ].
Qed.

Corollary reduce_generic_lt z :
  limbs_ok z -> lval z < 2 * qmod -> lval (reduce_generic z) < qmod.
Proof.
  intros Hok Hlt. destruct (reduce_generic_correct z Hok Hlt) as (_ & Hv).
  rewrite Hv. apply Z.mod_pos_bound. apply qmod_pos.
Qed.

(* ------------------------------------------------------------------ *)
(* add, double, sub, neg                                                *)
(* ------------------------------------------------------------------ *)

Theorem add_generic_correct x y :
  limbs_ok x -> limbs_ok y -> lval x < qmod -> lval y < qmod ->
  limbs_ok (add_generic x y) /\
  lval (add_generic x y) = (lval x + lval y) mod qmod.
Proof.
  destruct x as [[[x0 x1] x2] x3]. destruct y as [[[y0 y1] y2] y3].
  unfold limbs_ok at 1 2. intros (X0 & X1 & X2 & X3) (Y0 & Y1 & Y2 & Y3) Hx Hy.
  unfold add_generic.
  destruct (add64 x0 y0 0) as [z0 c0] eqn:E0.
  destruct (add64 x1 y1 c0) as [z1 c1] eqn:E1.
  destruct (add64 x2 y2 c1) as [z2 c2] eqn:E2.
  destruct (add64 x3 y3 c2) as [z3 c3] eqn:E3.
  apply add64_spec in E0; [ | assumption | assumption | lia ].
  destruct E0 as (A0 & R0 & B0).
  apply add64_spec in E1; [ | assumption | assumption | lia ].
  destruct E1 as (A1 & R1 & B1).
  apply add64_spec in E2; [ | assumption | assumption | lia ].
  destruct E2 as (A2 & R2 & B2).
  apply add64_spec in E3; [ | assumption | assumption | lia ].
  destruct E3 as (A3 & R3 & B3).
  assert (Hz : lval (z0, z1, z2, z3) = lval (x0, x1, x2, x3) + lval (y0, y1, y2, y3)).
  { unfold lval in *. nums. lia. }
  assert (Hok : limbs_ok (z0, z1, z2, z3)) by (unfold limbs_ok; tauto).
  rewrite <- Hz. apply reduce_generic_correct; [ assumption | lia ].
Qed.

Theorem double_generic_correct x :
  limbs_ok x -> lval x < qmod ->
  limbs_ok (double_generic x) /\
  lval (double_generic x) = (2 * lval x) mod qmod.
Proof.
  intros Hok Hx. unfold double_generic.
  replace (2 * lval x) with (lval x + lval x) by lia.
  apply add_generic_correct; assumption.
Qed.

Theorem sub_generic_correct x y :
  limbs_ok x -> limbs_ok y -> lval x < qmod -> lval y < qmod ->
  limbs_ok (sub_generic x y) /\
  lval (sub_generic x y) = (lval x - lval y) mod qmod.
Proof.
  intros Hokx Hoky.
  pose proof (lval_bounds x Hokx) as Bx. pose proof (lval_bounds y Hoky) as By.
  revert Hokx Hoky Bx By.
  destruct x as [[[x0 x1] x2] x3]. destruct y as [[[y0 y1] y2] y3].
  unfold limbs_ok at 1 2. intros (X0 & X1 & X2 & X3) (Y0 & Y1 & Y2 & Y3) Bx By Hx Hy.
  assert (Q0 : 0 <= q0 < W) by (nums; lia).
  assert (Q1 : 0 <= q1 < W) by (nums; lia).
  assert (Q2 : 0 <= q2 < W) by (nums; lia).
  assert (Q3 : 0 <= q3 < W) by (nums; lia).
  unfold sub_generic.
  destruct (sub64 x0 y0 0) as [z0 b0] eqn:E0.
  destruct (sub64 x1 y1 b0) as [z1 b1] eqn:E1.
  destruct (sub64 x2 y2 b1) as [z2 b2] eqn:E2.
  destruct (sub64 x3 y3 b2) as [z3 b3] eqn:E3.
  apply sub64_spec in E0; [ | assumption | assumption | lia ].
  destruct E0 as (A0 & R0 & B0).
  apply sub64_spec in E1; [ | assumption | assumption | lia ].
  destruct E1 as (A1 & R1 & B1).
  apply sub64_spec in E2; [ | assumption | assumption | lia ].
  destruct E2 as (A2 & R2 & B2).
  apply sub64_spec in E3; [ | assumption | assumption | lia ].
  destruct E3 as (A3 & R3 & B3).
  assert (Hz : lval (z0, z1, z2, z3) - W * W * W * W * b3
               = lval (x0, x1, x2, x3) - lval (y0, y1, y2, y3)).
  { unfold lval in *. nums. lia. }
  assert (Hokz : limbs_ok (z0, z1, z2, z3)) by (unfold limbs_ok; tauto).
  pose proof (lval_bounds _ Hokz) as Bz.
  destruct (Z.eqb_spec b3 0) as [Eb | Nb].
  - split; [ assumption | ]. subst b3.
    rewrite Z.mod_small; lia.
  - assert (b3 = 1) by lia. subst b3.
    destruct (add64 z0 q0 0) as [r0 c0] eqn:F0.
    destruct (add64 z1 q1 c0) as [r1 c1] eqn:F1.
    destruct (add64 z2 q2 c1) as [r2 c2] eqn:F2.
    destruct (add64 z3 q3 c2) as [r3 c3] eqn:F3.
    apply add64_spec in F0; [ | assumption | assumption | lia ].
    destruct F0 as (G0 & S0 & C0).
    apply add64_spec in F1; [ | assumption | assumption | lia ].
    destruct F1 as (G1 & S1 & C1).
    apply add64_spec in F2; [ | assumption | assumption | lia ].
    destruct F2 as (G2 & S2 & C2).
    apply add64_spec in F3; [ | assumption | assumption | lia ].
    destruct F3 as (G3 & S3 & C3).
    split; [ unfold limbs_ok; tauto | ].
    rewrite mod_add_once; [ | apply qmod_pos | lia ].
    rewrite <- Hz. pose proof qmod_pos as Hq.
    unfold lval in *. nums. lia.
Qed.

Theorem neg_generic_correct x :
  limbs_ok x -> lval x < qmod ->
  limbs_ok (neg_generic x) /\ lval (neg_generic x) = (- lval x) mod qmod.
Proof.
  destruct x as [[[x0 x1] x2] x3].
  unfold limbs_ok at 1. intros (X0 & X1 & X2 & X3) Hx.
  assert (Q0 : 0 <= q0 < W) by (nums; lia).
  assert (Q1 : 0 <= q1 < W) by (nums; lia).
  assert (Q2 : 0 <= q2 < W) by (nums; lia).
  assert (Q3 : 0 <= q3 < W) by (nums; lia).
  unfold neg_generic.
  destruct ((x0 =? 0) && (x1 =? 0) && (x2 =? 0) && (x3 =? 0)) eqn:Ez.
  - assert (x0 = 0 /\ x1 = 0 /\ x2 = 0 /\ x3 = 0) as (-> & -> & -> & ->) by lia.
    split; [ unfold limbs_ok; pose proof W_pos; lia | ].
    vm_compute. reflexivity.
  - assert (Hnz : ~ (x0 = 0 /\ x1 = 0 /\ x2 = 0 /\ x3 = 0)) by lia.
    destruct (sub64 q0 x0 0) as [z0 b0] eqn:E0.
    destruct (sub64 q1 x1 b0) as [z1 b1] eqn:E1.
    destruct (sub64 q2 x2 b1) as [z2 b2] eqn:E2.
    destruct (sub64 q3 x3 b2) as [z3 b3] eqn:E3.
    apply sub64_spec in E0; [ | assumption | assumption | lia ].
    destruct E0 as (A0 & R0 & B0).
    apply sub64_spec in E1; [ | assumption | assumption | lia ].
    destruct E1 as (A1 & R1 & B1).
    apply sub64_spec in E2; [ | assumption | assumption | lia ].
    destruct E2 as (A2 & R2 & B2).
    apply sub64_spec in E3; [ | assumption | assumption | lia ].
    destruct E3 as (A3 & R3 & B3).
    split; [ unfold limbs_ok; tauto | ].
    assert (Hpos : 0 < lval (x0, x1, x2, x3)).
    { unfold lval. nums. lia. }
    rewrite mod_add_once; [ | apply qmod_pos | lia ].
    unfold lval in *. nums. lia.
Qed.

(* ------------------------------------------------------------------ *)
(* madd0..madd3: exactness                                              *)
(* ------------------------------------------------------------------ *)

Lemma mul64_spec a b hi lo :
  mul64 a b = (hi, lo) -> hi * W + lo = a * b /\ 0 <= lo < W.
Proof.
  unfold mul64. intros H. injection H as Hh Hl. subst hi lo.
  pose proof (Z.div_mod (a * b) W W_nz) as Hd.
  pose proof (Z.mod_pos_bound (a * b) W W_pos) as Hm.
  split; [ lia | assumption ].
Qed.

Lemma madd1_spec a b c hi lo :
  madd1 a b c = (hi, lo) -> hi * W + lo = a * b + c /\ 0 <= lo < W.
Proof.
  unfold madd1. intros H. injection H as Hh Hl. subst hi lo.
  pose proof (Z.div_mod (a * b + c) W W_nz) as Hd.
  pose proof (Z.mod_pos_bound (a * b + c) W W_pos) as Hm.
  split; [ lia | assumption ].
Qed.

Lemma madd2_spec a b c d hi lo :
  madd2 a b c d = (hi, lo) -> hi * W + lo = a * b + c + d /\ 0 <= lo < W.
Proof.
  unfold madd2. intros H. injection H as Hh Hl. subst hi lo.
  pose proof (Z.div_mod (a * b + c + d) W W_nz) as Hd.
  pose proof (Z.mod_pos_bound (a * b + c + d) W W_pos) as Hm.
  split; [ lia | assumption ].
Qed.

(* madd3: lo and the un-truncated high word h are exact; hi = (h + e) mod W *)
Lemma madd3_spec a b c d e hi lo :
  madd3 a b c d e = (hi, lo) ->
  exists h, h * W + lo = a * b + c + d /\ 0 <= lo < W /\ hi = (h + e) mod W.
Proof.
  unfold madd3. intros H. injection H as Hh Hl. subst hi lo.
  exists ((a * b + c + d) / W).
  pose proof (Z.div_mod (a * b + c + d) W W_nz) as Hd.
  pose proof (Z.mod_pos_bound (a * b + c + d) W W_pos) as Hm.
  split; [ lia | split; [ assumption | reflexivity ] ].
Qed.

Lemma madd0_spec a b c : exists lo, madd0 a b c * W + lo = a * b + c /\ 0 <= lo < W.
Proof.
  unfold madd0. exists ((a * b + c) mod W).
  pose proof (Z.div_mod (a * b + c) W W_nz) as Hd.
  pose proof (Z.mod_pos_bound (a * b + c) W W_pos) as Hm.
  split; [ lia | assumption ].
Qed.

(* High words fit in 64 bits when operands do (so Go's uint64 hi never wraps). *)
Lemma prod_bound a b : 0 <= a < W -> 0 <= b < W -> 0 <= a * b <= (W - 1) * (W - 1).
Proof.
  intros Ha Hb. split.
  - apply Z.mul_nonneg_nonneg; lia.
  - apply Z.mul_le_mono_nonneg; lia.
Qed.

Lemma hi_bound_gen n : 0 <= n <= W * W - 1 -> 0 <= n / W < W.
Proof.
  intros Hn. pose proof W_pos. split.
  - apply Z.div_pos; lia.
  - apply Z.div_lt_upper_bound; lia.
Qed.

Lemma mul64_hi_bound a b :
  0 <= a < W -> 0 <= b < W -> 0 <= fst (mul64 a b) < W.
Proof.
  intros Ha Hb. unfold mul64. cbn [fst]. pose proof (prod_bound a b Ha Hb).
  apply hi_bound_gen. lia.
Qed.

Lemma madd0_hi_bound a b c :
  0 <= a < W -> 0 <= b < W -> 0 <= c < W -> 0 <= madd0 a b c < W.
Proof.
  intros Ha Hb Hc. unfold madd0. pose proof (prod_bound a b Ha Hb).
  apply hi_bound_gen. lia.
Qed.

Lemma madd1_hi_bound a b c :
  0 <= a < W -> 0 <= b < W -> 0 <= c < W -> 0 <= fst (madd1 a b c) < W.
Proof.
  intros Ha Hb Hc. unfold madd1. cbn [fst]. pose proof (prod_bound a b Ha Hb).
  apply hi_bound_gen. lia.
Qed.

Lemma madd2_hi_bound a b c d :
  0 <= a < W -> 0 <= b < W -> 0 <= c < W -> 0 <= d < W ->
  0 <= fst (madd2 a b c d) < W.
Proof.
  intros Ha Hb Hc Hd. unfold madd2. cbn [fst]. pose proof (prod_bound a b Ha Hb).
  apply hi_bound_gen. lia.
Qed.

(* ------------------------------------------------------------------ *)
(* The Montgomery quotient digit m makes the low word vanish            *)
(* ------------------------------------------------------------------ *)

Lemma mont_m_div c0 :
  exists n, ((c0 * qInvNeg) mod W) * q0 + c0 = n * W.
Proof.
  pose proof (Z.div_mod (c0 * qInvNeg) W W_nz) as Hd.
  set (j := (c0 * qInvNeg) / W) in *.
  set (mm := (c0 * qInvNeg) mod W) in *.
  let K := eval vm_compute in ((1 + qInvNeg * q0) / W) in
  exists (K * c0 - j * q0).
  clearbody j mm. nums. lia.
Qed.

Lemma mont_m_zero_low c0 :
  (((c0 * qInvNeg) mod W) * q0 + c0) mod W = 0.
Proof.
  destruct (mont_m_div c0) as [n Hn]. rewrite Hn. apply Z.mod_mul. apply W_nz.
Qed.

Lemma madd0_m_exact c0 :
  madd0 ((c0 * qInvNeg) mod W) q0 c0 * W = ((c0 * qInvNeg) mod W) * q0 + c0.
Proof.
  unfold madd0. destruct (mont_m_div c0) as [n Hn]. rewrite Hn.
  rewrite Z.div_mul by apply W_nz. reflexivity.
Qed.

(* ------------------------------------------------------------------ *)
(* One CIOS round                                                       *)
(* ------------------------------------------------------------------ *)

(* pure algebra: the carry-chain equations telescope *)
Lemma round_core
  (v y0 y1 y2 y3 t0 t1 t2 t3 m
   c1a c0a c2a c1b c0b c2b r0 c1c c0c c2c r1 c1d c0d h r2 : Z) :
  c1a * W + c0a = v * y0 + t0 ->
  c2a * W = m * q0 + c0a ->
  c1b * W + c0b = v * y1 + c1a + t1 ->
  c2b * W + r0 = m * q1 + c2a + c0b ->
  c1c * W + c0c = v * y2 + c1b + t2 ->
  c2c * W + r1 = m * q2 + c2b + c0c ->
  c1d * W + c0d = v * y3 + c1c + t3 ->
  h * W + r2 = m * q3 + c0d + c2c ->
  (r0 + W * (r1 + W * (r2 + W * (h + c1d)))) * W
  = (t0 + W * (t1 + W * (t2 + W * t3)))
    + v * (y0 + W * (y1 + W * (y2 + W * y3)))
    + m * qmod.
Proof.
  intros E1 E2 E3 E4 E5 E6 E7 E8. nums. lia.
Qed.

Lemma mul_round_correct v y t :
  limbs_ok y -> limbs_ok t -> 0 <= v < W ->
  lval y < qmod -> lval t < 2 * qmod ->
  exists m, 0 <= m < W /\
    limbs_ok (mul_round v y t) /\
    lval (mul_round v y t) * W = lval t + v * lval y + m * qmod /\
    lval (mul_round v y t) < 2 * qmod.
Proof.
  intros Hoky Hokt Hv Hy Ht.
  pose proof (lval_bounds y Hoky) as By. pose proof (lval_bounds t Hokt) as Bt.
  revert Hoky Hokt By Bt Hy Ht.
  destruct y as [[[y0 y1] y2] y3]. destruct t as [[[t0 t1] t2] t3].
  unfold limbs_ok at 1 2.
  intros (Y0 & Y1 & Y2 & Y3) (T0 & T1 & T2 & T3) By Bt Hy Ht.
  unfold mul_round.
  destruct (madd1 v y0 t0) as [c1a c0a] eqn:E1.
  cbv zeta.
  pose proof (madd0_m_exact c0a) as E2.
  pose proof (Z.mod_pos_bound (c0a * qInvNeg) W W_pos) as Hm.
  set (m := (c0a * qInvNeg) mod W) in *. clearbody m.
  set (c2a := madd0 m q0 c0a) in *. clearbody c2a.
  destruct (madd2 v y1 c1a t1) as [c1b c0b] eqn:E3.
  destruct (madd2 m q1 c2a c0b) as [c2b r0] eqn:E4.
  destruct (madd2 v y2 c1b t2) as [c1c c0c] eqn:E5.
  destruct (madd2 m q2 c2b c0c) as [c2c r1] eqn:E6.
  destruct (madd2 v y3 c1c t3) as [c1d c0d] eqn:E7.
  destruct (madd3 m q3 c0d c2c c1d) as [r3 r2] eqn:E8.
  apply madd1_spec in E1. destruct E1 as (E1 & L1).
  apply madd2_spec in E3. destruct E3 as (E3 & L3).
  apply madd2_spec in E4. destruct E4 as (E4 & L4).
  apply madd2_spec in E5. destruct E5 as (E5 & L5).
  apply madd2_spec in E6. destruct E6 as (E6 & L6).
  apply madd2_spec in E7. destruct E7 as (E7 & L7).
  apply madd3_spec in E8. destruct E8 as (h & E8 & L8 & Hr3).
  pose proof (round_core v y0 y1 y2 y3 t0 t1 t2 t3 m
                c1a c0a c2a c1b c0b c2b r0 c1c c0c c2c r1 c1d c0d h r2
                E1 E2 E3 E4 E5 E6 E7 E8) as HS.
  unfold lval in *.
  set (Y := y0 + W * (y1 + W * (y2 + W * y3))) in *.
  set (T := t0 + W * (t1 + W * (t2 + W * t3))) in *.
  assert (HvY : 0 <= v * Y <= (W - 1) * qmod).
  { split.
    - apply Z.mul_nonneg_nonneg; lia.
    - apply Z.mul_le_mono_nonneg; lia. }
  clearbody Y T.
  clear E1 E2 E3 E4 E5 E6 E7 E8.
  set (vY := v * Y) in *. clearbody vY.
  assert (Hsmall : 0 <= h + c1d < W).
  { nums. lia. }
  rewrite (Z.mod_small _ _ Hsmall) in Hr3. subst r3.
  exists m. split; [ assumption | ].
  split; [ unfold limbs_ok; tauto | ].
  split; [ exact HS | ].
  nums. lia.
Qed.

(* the first round is the general round started from t = 0 *)
Lemma mul_round0_eq v y : mul_round0 v y = mul_round v y (0, 0, 0, 0).
Proof.
  destruct y as [[[y0 y1] y2] y3].
  unfold mul_round0, mul_round, mul64, madd0, madd1, madd2, madd3.
  cbv beta iota zeta.
  rewrite !Z.add_0_r. reflexivity.
Qed.

Lemma mul_round0_correct v y :
  limbs_ok y -> 0 <= v < W -> lval y < qmod ->
  exists m, 0 <= m < W /\
    limbs_ok (mul_round0 v y) /\
    lval (mul_round0 v y) * W = v * lval y + m * qmod /\
    lval (mul_round0 v y) < 2 * qmod.
Proof.
  intros Hoky Hv Hy. rewrite mul_round0_eq.
  assert (Hok0 : limbs_ok (0, 0, 0, 0)).
  { unfold limbs_ok. pose proof W_pos. lia. }
  assert (Hl0 : lval (0, 0, 0, 0) = 0) by (vm_compute; reflexivity).
  assert (Hlt0 : lval (0, 0, 0, 0) < 2 * qmod).
  { rewrite Hl0. pose proof qmod_pos. lia. }
  destruct (mul_round_correct v y (0, 0, 0, 0) Hoky Hok0 Hv Hy Hlt0)
    as (m & Hm & Hok & Heq & Hlt).
  exists m. rewrite Hl0 in Heq. repeat split; try assumption; lia.
Qed.

(* ------------------------------------------------------------------ *)
(* Montgomery multiplication                                            *)
(* ------------------------------------------------------------------ *)

Lemma Rm_W4 : 2 ^ 256 = W * W * W * W.
Proof. vm_compute. reflexivity. Qed.

(* un-reduced CIOS result: exact Montgomery identity, for all inputs *)
Lemma mul_rounds_correct x0 x1 x2 x3 y :
  limbs_ok (x0, x1, x2, x3) -> limbs_ok y -> lval y < qmod ->
  let t := mul_round x3 y (mul_round x2 y (mul_round x1 y (mul_round0 x0 y))) in
  limbs_ok t /\ lval t < 2 * qmod /\
  exists M, lval t * 2 ^ 256 = lval (x0, x1, x2, x3) * lval y + M * qmod.
Proof.
  intros (X0 & X1 & X2 & X3) Hoky Hy. cbv zeta.
  destruct (mul_round0_correct x0 y Hoky X0 Hy) as (m0 & Hm0 & Hok1 & Heq1 & Hlt1).
  set (t1 := mul_round0 x0 y) in *.
  destruct (mul_round_correct x1 y t1 Hoky Hok1 X1 Hy Hlt1) as (m1 & Hm1 & Hok2 & Heq2 & Hlt2).
  set (t2 := mul_round x1 y t1) in *.
  destruct (mul_round_correct x2 y t2 Hoky Hok2 X2 Hy Hlt2) as (m2 & Hm2 & Hok3 & Heq3 & Hlt3).
  set (t3 := mul_round x2 y t2) in *.
  destruct (mul_round_correct x3 y t3 Hoky Hok3 X3 Hy Hlt3) as (m3 & Hm3 & Hok4 & Heq4 & Hlt4).
  set (t4 := mul_round x3 y t3) in *.
  split; [ assumption | ]. split; [ assumption | ].
  exists (m0 + W * (m1 + W * (m2 + W * m3))).
  rewrite Rm_W4. unfold lval at 2.
  set (Y := lval y) in *. clearbody Y.
  set (T1 := lval t1) in *. set (T2 := lval t2) in *.
  set (T3 := lval t3) in *. set (T4 := lval t4) in *.
  clearbody T1 T2 T3 T4.
  set (q := qmod) in *. clearbody q.
  (* T4*W^4 = W^3*(T4*W) = W^3*(T3 + x3 Y + m3 q) etc. *)
  replace (T4 * (W * W * W * W)) with (W * W * W * (T4 * W)) by ring.
  rewrite Heq4.
  replace (W * W * W * (T3 + x3 * Y + m3 * q))
    with (W * W * (T3 * W) + W * W * W * (x3 * Y + m3 * q)) by ring.
  rewrite Heq3.
  replace (W * W * (T2 + x2 * Y + m2 * q))
    with (W * (T2 * W) + W * W * (x2 * Y + m2 * q)) by ring.
  rewrite Heq2.
  replace (W * (T1 + x1 * Y + m1 * q))
    with (T1 * W + W * (x1 * Y + m1 * q)) by ring.
  rewrite Heq1. ring.
Qed.

Theorem mul_generic_correct x y :
  limbs_ok x -> limbs_ok y -> lval x < qmod -> lval y < qmod ->
  limbs_ok (mul_generic x y) /\
  lval (mul_generic x y) < qmod /\
  (lval (mul_generic x y) * 2 ^ 256) mod qmod = (lval x * lval y) mod qmod.
Proof.
  intros Hokx Hoky Hx Hy.
  destruct x as [[[x0 x1] x2] x3].
  unfold mul_generic.
  destruct (mul_rounds_correct x0 x1 x2 x3 y Hokx Hoky Hy) as (Hokt & Hltt & M & HM).
  set (t := mul_round x3 y (mul_round x2 y (mul_round x1 y (mul_round0 x0 y)))) in *.
  destruct (reduce_generic_correct t Hokt Hltt) as (Hokr & Hvr).
  split; [ assumption | ].
  split; [ apply reduce_generic_lt; assumption | ].
  rewrite Hvr. rewrite Z.mul_mod_idemp_l by (pose proof qmod_pos; lia).
  rewrite HM. apply Z.mod_add. pose proof qmod_pos; lia.
Qed.

(* ------------------------------------------------------------------ *)
(* fromMont                                                             *)
(* ------------------------------------------------------------------ *)

Lemma from_mont_core (z0 z1 z2 z3 m c0 c1 r0 c2 r1 c3 r2 : Z) :
  c0 * W = m * q0 + z0 ->
  c1 * W + r0 = m * q1 + z1 + c0 ->
  c2 * W + r1 = m * q2 + z2 + c1 ->
  c3 * W + r2 = m * q3 + z3 + c2 ->
  (r0 + W * (r1 + W * (r2 + W * c3))) * W
  = (z0 + W * (z1 + W * (z2 + W * z3))) + m * qmod.
Proof.
  intros E1 E2 E3 E4. nums. lia.
Qed.

Lemma from_mont_round_correct z :
  limbs_ok z -> lval z < qmod ->
  exists m, 0 <= m < W /\
    limbs_ok (from_mont_round z) /\
    lval (from_mont_round z) * W = lval z + m * qmod /\
    lval (from_mont_round z) < qmod.
Proof.
  intros Hokz Hz. pose proof (lval_bounds z Hokz) as Bz.
  revert Hokz Hz Bz.
  destruct z as [[[z0 z1] z2] z3]. unfold limbs_ok at 1.
  intros (Z0 & Z1 & Z2 & Z3) Hz Bz.
  unfold from_mont_round. cbv zeta.
  pose proof (madd0_m_exact z0) as E1.
  pose proof (Z.mod_pos_bound (z0 * qInvNeg) W W_pos) as Hm.
  set (m := (z0 * qInvNeg) mod W) in *. clearbody m.
  set (c0 := madd0 m q0 z0) in *. clearbody c0.
  destruct (madd2 m q1 z1 c0) as [c1 r0] eqn:E2.
  destruct (madd2 m q2 z2 c1) as [c2 r1] eqn:E3.
  destruct (madd2 m q3 z3 c2) as [c3 r2] eqn:E4.
  apply madd2_spec in E2. destruct E2 as (E2 & L2).
  apply madd2_spec in E3. destruct E3 as (E3 & L3).
  apply madd2_spec in E4. destruct E4 as (E4 & L4).
  pose proof (from_mont_core z0 z1 z2 z3 m c0 c1 r0 c2 r1 c3 r2 E1 E2 E3 E4) as HS.
  unfold lval in *.
  set (Zv := z0 + W * (z1 + W * (z2 + W * z3))) in *. clearbody Zv.
  clear E1 E2 E3 E4.
  assert (Hc3 : 0 <= c3 < W) by (nums; lia).
  exists m. split; [ assumption | ].
  split; [ unfold limbs_ok; tauto | ].
  split; [ exact HS | ].
  nums. lia.
Qed.

Theorem from_mont_generic_correct z :
  limbs_ok z -> lval z < qmod ->
  limbs_ok (from_mont_generic z) /\
  lval (from_mont_generic z) < qmod /\
  (lval (from_mont_generic z) * 2 ^ 256) mod qmod = lval z mod qmod.
Proof.
  intros Hok0 Hlt0. unfold from_mont_generic.
  destruct (from_mont_round_correct z Hok0 Hlt0) as (m0 & Hm0 & Hok1 & Heq1 & Hlt1).
  set (t1 := from_mont_round z) in *.
  destruct (from_mont_round_correct t1 Hok1 Hlt1) as (m1 & Hm1 & Hok2 & Heq2 & Hlt2).
  set (t2 := from_mont_round t1) in *.
  destruct (from_mont_round_correct t2 Hok2 Hlt2) as (m2 & Hm2 & Hok3 & Heq3 & Hlt3).
  set (t3 := from_mont_round t2) in *.
  destruct (from_mont_round_correct t3 Hok3 Hlt3) as (m3 & Hm3 & Hok4 & Heq4 & Hlt4).
  set (t4 := from_mont_round t3) in *.
  pose proof qmod_pos as Hq.
  assert (Hlt4' : lval t4 < 2 * qmod) by lia.
  destruct (reduce_generic_correct t4 Hok4 Hlt4') as (Hokr & Hvr).
  split; [ assumption | ].
  split; [ apply reduce_generic_lt; assumption | ].
  rewrite Hvr. rewrite Z.mul_mod_idemp_l by lia.
  assert (HM : lval t4 * 2 ^ 256
               = lval z + (m0 + W * (m1 + W * (m2 + W * m3))) * qmod).
  { rewrite Rm_W4.
    set (Z0 := lval z) in *. set (T1 := lval t1) in *. set (T2 := lval t2) in *.
    set (T3 := lval t3) in *. set (T4 := lval t4) in *.
    clearbody Z0 T1 T2 T3 T4. set (q := qmod) in *. clearbody q.
    replace (T4 * (W * W * W * W)) with (W * W * W * (T4 * W)) by ring.
    rewrite Heq4.
    replace (W * W * W * (T3 + m3 * q))
      with (W * W * (T3 * W) + W * W * W * (m3 * q)) by ring.
    rewrite Heq3.
    replace (W * W * (T2 + m2 * q))
      with (W * (T2 * W) + W * W * (m2 * q)) by ring.
    rewrite Heq2.
    replace (W * (T1 + m1 * q)) with (T1 * W + W * (m1 * q)) by ring.
    rewrite Heq1. ring. }
  rewrite HM. apply Z.mod_add. lia.
Qed.

(* ------------------------------------------------------------------ *)
(* Assumption audit                                                     *)
(* ------------------------------------------------------------------ *)
Print Assumptions lval_q.
Print Assumptions qmod_lt.
Print Assumptions qinv_spec.
Print Assumptions smaller_than_q_spec.
Print Assumptions reduce_generic_correct.
Print Assumptions reduce_generic_lt.
Print Assumptions add_generic_correct.
Print Assumptions double_generic_correct.
Print Assumptions sub_generic_correct.
Print Assumptions neg_generic_correct.
Print Assumptions mul_round_correct.
Print Assumptions mul_round0_correct.
Print Assumptions mul_rounds_correct.
Print Assumptions mul_generic_correct.
Print Assumptions from_mont_round_correct.
Print Assumptions from_mont_generic_correct.
