(* bandersnatch.MultiExp as a whole: for every choice of window and number of splits, every
   completion order of the goroutines and either first-chunk mode, the result is
   sum_i s_i P_i; the (window, splits) loop terminates and its choices are legal. *)
From Coq Require Import ZArith List Bool Lia Permutation.
From AAC_tactics Require Import AAC.
From GoIpa Require Import Model.Alg Model.Pippenger Proofs.AlgLaws Proofs.IPAProofs
  Proofs.PippengerProofs Proofs.MsmProofs Proofs.PartitionProofs Proofs.MsmInner.
Import ListNotations.
Open Scope Z_scope.

(* ---- list facts ---- *)
Lemma firstn_add_skipn {A} (a b : nat) : forall l : list A,
  firstn (a + b) l = firstn a l ++ firstn b (skipn a l).
Proof. induction a as [|a IH]; intros [|x l]; cbn; try reflexivity; [destruct b; reflexivity|]. rewrite IH. reflexivity. Qed.

Lemma map_nth_seq {A} (d : A) : forall l, map (fun i => nth i l d) (seq 0 (length l)) = l.
Proof.
  induction l as [|x l IH]; [reflexivity|]. cbn [length seq map nth]. f_equal.
  rewrite <- seq_shift, map_map. exact IH.
Qed.

Lemma combine_map_seq {A B} (f : nat -> A) (g : nat -> B) l :
  combine (map f l) (map g l) = map (fun i => (f i, g i)) l.
Proof. induction l as [|x l IH]; cbn; [reflexivity|]. rewrite IH. reflexivity. Qed.

Lemma Forall_firstn {A} (P : A -> Prop) n l : Forall P l -> Forall P (firstn n l).
Proof. intros H. rewrite <- (firstn_skipn n l) in H. apply Forall_app in H. tauto. Qed.
Lemma Forall_skipn {A} (P : A -> Prop) n l : Forall P l -> Forall P (skipn n l).
Proof. intros H. rewrite <- (firstn_skipn n l) in H. apply Forall_app in H. tauto. Qed.

(* slice i of the split *)
Definition slice {A} (k m : nat) (l : list A) (i : nat) : list A :=
  if (i <? k - 1)%nat then firstn m (skipn (i * m) l) else skipn ((k - 1) * m) l.

Lemma split_slices_index {A} (l : list A) k m : (1 <= k)%nat ->
  split_slices l k m = map (slice k m l) (seq 0 k).
Proof.
  intros Hk. unfold split_slices. replace k with (S (k - 1)) at 4 by lia. rewrite seq_S, map_app. cbn [map Nat.add].
  f_equal.
  - apply map_ext_in. intros i Hin. apply in_seq in Hin. unfold slice.
    destruct (Nat.ltb_spec i (k - 1)); [reflexivity|lia].
  - unfold slice. rewrite Nat.ltb_irrefl. reflexivity.
Qed.

Lemma slice_length {A B} k m (l : list A) (l' : list B) i : length l = length l' ->
  length (slice k m l i) = length (slice k m l' i).
Proof.
  intros H. unfold slice. destruct (i <? k - 1)%nat; rewrite ?firstn_length, !skipn_length, H; reflexivity.
Qed.

Lemma slice_map {A B} (f : A -> B) k m l i : slice k m (map f l) i = map f (slice k m l i).
Proof. unfold slice. destruct (i <? k - 1)%nat; rewrite ?skipn_map, ?firstn_map; reflexivity. Qed.

Section MultiExp.
  Context {F G : Type} (fo : FOps F) (go : GOps F G) (FL : FieldLaws fo) (GL : GroupLaws fo go).
  Hypothesis fofz_add : forall a b, fofz fo (a + b) = fadd fo (fofz fo a) (fofz fo b).
  Hypothesis fofz_mul : forall a b, fofz fo (a * b) = fmul fo (fofz fo a) (fofz fo b).
  Hypothesis fofz_1 : fofz fo 1 = f1 fo.
  Local Infix "⊕" := (gadd go) (at level 50, left associativity).
  Local Notation O := (g0 go).
  Local Notation msmzv := (msmzv fo go).
  Local Notation gsum := (gsum go).
  Local Instance gA' : Associative eq (gadd go) := gadd_Assoc fo go GL.
  Local Instance gC' : Commutative eq (gadd go) := gadd_Comm fo go GL.

  Lemma gsum_app a b : gsum (a ++ b) = gsum a ⊕ gsum b.
  Proof.
    induction a as [|x a IH]; cbn [app MsmProofs.gsum].
    - symmetry. apply (gl_id fo go GL).
    - rewrite IH. aac_reflexivity.
  Qed.

  Lemma gsum_perm a b : Permutation a b -> gsum a = gsum b.
  Proof.
    induction 1 as [|x a b _ IH|x y a|a b c _ IH1 _ IH2]; cbn [MsmProofs.gsum].
    - reflexivity.
    - rewrite IH. reflexivity.
    - aac_reflexivity.
    - rewrite IH1. exact IH2.
  Qed.

  Lemma fold_add_gsum (f : nat -> G) order : forall acc,
    fold_left (fun acc i => acc ⊕ f i) order acc = acc ⊕ gsum (map f order).
  Proof.
    induction order as [|i r IH]; intros acc; cbn [fold_left map MsmProofs.gsum].
    - symmetry. apply (gid_r fo go GL).
    - rewrite IH. aac_reflexivity.
  Qed.

  (* partial sums over the first j full slices *)
  Lemma slices_prefix_sum m (P : list G) (S : list Z) : length P = length S -> forall j,
    gsum (map (fun i => msmzv (firstn m (skipn (i * m) P)) (firstn m (skipn (i * m) S))) (seq 0 j))
    = msmzv (firstn (j * m) P) (firstn (j * m) S).
  Proof.
    intros Hl. induction j as [|j IH].
    - cbn. destruct P, S; reflexivity.
    - rewrite seq_S, map_app, gsum_app, IH. cbn [map MsmProofs.gsum Nat.add].
      rewrite (gid_r fo go GL).
      replace (Datatypes.S j * m)%nat with (j * m + m)%nat by lia.
      rewrite !firstn_add_skipn. symmetry. apply (msmzv_app fo go GL).
      rewrite !firstn_length, Hl. reflexivity.
  Qed.

  Theorem multi_exp_spec c k m order points ss split :
    2 <= c <= 64 -> length points = length ss -> Forall (fun s => 0 <= s < 2 ^ 253) ss ->
    (1 <= k)%nat -> Permutation order (seq 0 (k - 1)) ->
    multi_exp go c k m order points ss split = msmzv points ss.
  Proof.
    intros Hc Hlen Hss Hk Hperm. unfold multi_exp. cbv zeta.
    assert (Epk : fst (partition_scalars c ss) = map (fun s => fst (partition_scalar c s)) ss).
    { unfold partition_scalars. cbv zeta. cbn [fst]. apply map_map. }
    rewrite !split_slices_index by exact Hk. rewrite combine_map_seq, map_map. cbn [fst snd].
    set (Fi := fun i => msmzv (slice k m points i) (slice k m ss i)).
    rewrite (map_ext_in _ Fi).
    2:{ intros i _. unfold Fi. rewrite Epk, slice_map.
        replace (map (fun s => fst (partition_scalar c s)) (slice k m ss i)) with (fst (partition_scalars c (slice k m ss i)))
          by (unfold partition_scalars; cbv zeta; cbn [fst]; apply map_map).
        apply (msm_inner_spec fo go FL GL fofz_add fofz_mul fofz_1); [exact Hc|apply slice_length; exact Hlen|].
        unfold slice. destruct (i <? k - 1)%nat; [apply Forall_firstn|]; apply Forall_skipn; exact Hss. }
    assert (Ek : seq 0 k = seq 0 (k - 1) ++ [(k - 1)%nat]).
    { replace k with (Datatypes.S (k - 1)) at 1 by lia. rewrite seq_S. reflexivity. }
    rewrite Ek, map_app. cbn [map].
    rewrite last_last.
    rewrite (fold_add_gsum (fun i => nth i (map Fi (seq 0 (k - 1)) ++ [Fi (k - 1)%nat]) O)).
    rewrite (gsum_perm _ _ (Permutation_map _ Hperm)).
    rewrite (map_ext_in _ (fun i => nth i (map Fi (seq 0 (k - 1))) O)).
    2:{ intros i Hin. apply in_seq in Hin. apply app_nth1. rewrite map_length, seq_length. lia. }
    pose proof (map_nth_seq O (map Fi (seq 0 (k - 1)))) as E. rewrite map_length, seq_length in E. rewrite E.
    rewrite (map_ext_in Fi (fun i => msmzv (firstn m (skipn (i * m) points)) (firstn m (skipn (i * m) ss)))).
    2:{ intros i Hin. apply in_seq in Hin. unfold Fi, slice. destruct (Nat.ltb_spec i (k - 1)); [reflexivity|lia]. }
    rewrite (slices_prefix_sum m points ss Hlen (k - 1)).
    unfold Fi, slice. rewrite Nat.ltb_irrefl.
    rewrite (gl_comm fo go GL). rewrite <- (msmzv_app fo go GL) by (rewrite !firstn_length, Hlen; reflexivity).
    rewrite !firstn_skipn. reflexivity.
  Qed.
End MultiExp.

(* ---- the choice of window and number of splits ---- *)
Definition bc_step (n : Z) (best : Z * (Z * Z)) (c : Z) : Z * (Z * Z) :=
  let '(bc, (bn, bd)) := best in
  let num := 256 * (n + 2 ^ c) in
  if (bc =? 0) || (num * bd <? bn * c) then (c, (num, c)) else best.

Lemma best_c_fold n : best_c n = fst (fold_left (bc_step n) implemented_cs (0, (0, 1))).
Proof. reflexivity. Qed.

Lemma bc_fold_keeps n (L : list Z) : forall l best, In (fst best) L -> incl l L ->
  In (fst (fold_left (bc_step n) l best)) L.
Proof.
  induction l as [|c l IH]; intros best Hb Hl; cbn [fold_left]; [exact Hb|].
  apply IH; [|intros x Hx; apply Hl; right; exact Hx].
  unfold bc_step. destruct best as [bc [bn bd]]. cbv zeta.
  destruct ((bc =? 0) || (256 * (n + 2 ^ c) * bd <? bn * c)); [cbn [fst]; apply Hl; left; reflexivity|exact Hb].
Qed.

(* the window chosen by the cost model is always one of the implemented ones *)
Theorem best_c_in n : In (best_c n) implemented_cs.
Proof.
  rewrite best_c_fold. unfold implemented_cs at 1.
  assert (Hc : forall (f : Z * (Z * Z) -> Z -> Z * (Z * Z)) x l a, fold_left f (x :: l) a = fold_left f l (f a x)) by reflexivity.
  rewrite Hc. apply bc_fold_keeps.
  - unfold bc_step at 1. cbn [Z.eqb orb fst]. left. reflexivity.
  - unfold implemented_cs. intros x Hx. right. exact Hx.
Qed.

Lemma best_c_range n : 4 <= best_c n <= 21.
Proof. pose proof (best_c_in n) as H. unfold implemented_cs in H. cbn [In] in H. lia. Qed.

Lemma split_loop_inv : forall fuel nbTasks np ns c ns' np',
  1 <= ns -> 0 <= np -> split_loop fuel best_c nbTasks np ns = Some (c, ns', np') ->
  1 <= ns' /\ 0 <= np' /\ c = best_c np' /\ nbTasks <= nb_chunks c * ns'.
Proof.
  induction fuel as [|f IH]; intros nbTasks np ns c ns' np' Hns Hnp H; cbn [split_loop] in H; [discriminate|].
  cbv zeta in H. destruct (Z.ltb_spec (nb_chunks (best_c np) * ns) nbTasks) as [Hlt|Hge].
  - apply IH in H; [exact H|lia|apply Z.div_pos; lia].
  - assert (E1 : best_c np = c) by congruence. assert (E2 : ns = ns') by congruence. assert (E3 : np = np') by congruence.
    subst. repeat split; try lia.
Qed.

(* the loop ends within log2(nbTasks)+1 iterations *)
Lemma split_loop_terminates : forall f nbTasks np ns, 1 <= ns -> nbTasks <= ns * 2 ^ Z.of_nat f ->
  split_loop (S f) best_c nbTasks np ns <> None.
Proof.
  induction f as [|f IH]; intros nbTasks np ns Hns Hb.
  - cbn [split_loop]. cbv zeta. pose proof (best_c_range np) as Hc.
    pose proof (nb_chunks_pos (best_c np) ltac:(lia)) as Hnb.
    destruct (Z.ltb_spec (nb_chunks (best_c np) * ns) nbTasks) as [Hlt|Hge]; [|discriminate].
    cbn in Hb. assert (1 * ns <= nb_chunks (best_c np) * ns) by (apply Z.mul_le_mono_nonneg_r; lia). lia.
  - change (split_loop (S (S f)) best_c nbTasks np ns)
      with (let c := best_c np in
            if nb_chunks c * ns <? nbTasks then split_loop (S f) best_c nbTasks (np / 2) (ns * 2) else Some (c, ns, np)).
    cbv zeta. destruct (Z.ltb_spec (nb_chunks (best_c np) * ns) nbTasks) as [Hlt|Hge]; [|discriminate].
    apply IH; [lia|]. rewrite Nat2Z.inj_succ, Z.pow_succ_r in Hb by lia. lia.
Qed.

Section Top.
  Context {F G : Type} (fo : FOps F) (go : GOps F G) (FL : FieldLaws fo) (GL : GroupLaws fo go).
  Hypothesis fofz_add : forall a b, fofz fo (a + b) = fadd fo (fofz fo a) (fofz fo b).
  Hypothesis fofz_mul : forall a b, fofz fo (a * b) = fmul fo (fofz fo a) (fofz fo b).
  Hypothesis fofz_1 : fofz fo 1 = f1 fo.

  (* MultiExp: for every number of tasks, every completion order of the goroutines, every
     first-chunk mode, any number of points: terminates and returns sum_i s_i P_i *)
  Theorem multi_exp_top_spec f nbTasks order points ss split :
    1 <= nbTasks <= 2 ^ Z.of_nat f ->
    (forall k, Permutation (order k) (seq 0 (k - 1))) ->
    length points = length ss -> Forall (fun s => 0 <= s < 2 ^ 253) ss ->
    multi_exp_top go (S f) nbTasks order points ss split = Some (msmzv fo go points ss).
  Proof.
    intros Hnt Hord Hlen Hss. unfold multi_exp_top.
    pose proof (split_loop_terminates f nbTasks (Z.of_nat (length points)) 1 ltac:(lia) ltac:(lia)) as Hterm.
    destruct (split_loop (S f) best_c nbTasks (Z.of_nat (length points)) 1) as [[[c ns] np]|] eqn:E; [|contradiction].
    apply split_loop_inv in E; [|lia|lia]. destruct E as (Hns & Hnp & Ec & _).
    pose proof (best_c_range np) as Hc. rewrite <- Ec in Hc.
    f_equal. apply (multi_exp_spec fo go FL GL fofz_add fofz_mul fofz_1); try assumption; try lia. apply Hord.
  Qed.
End Top.
