(* Proofs about the proof (de)serialisation model (Model/Serde.v):
   io.ReadAtLeast over arbitrary chunk plans / EOF styles, ReadPoint(s),
   IPAProof.Read, MultiProof.Read (strict and pinned "lax" EOF probe),
   injected I/O errors, writers and round trips.
   All statements hold for ALL streams, ALL chunk plans and both EOF styles. *)
From Coq Require Import ZArith Lia List Bool ZifyBool ZifyNat.
From GoIpa Require Import Model.Bytes Model.Zq Model.Codec Model.Banderwagon Model.Serde
  Proofs.BytesProofs Proofs.ZqProofs Proofs.CodecProofs.
Import ListNotations.
Open Scope Z_scope.

(* ------------------------------------------------------------------ *)
(* list helpers                                                        *)
(* ------------------------------------------------------------------ *)

Lemma skipn_skipn' {A} (a b : nat) (l : list A) : skipn a (skipn b l) = skipn (b + a) l.
Proof.
  revert l; induction b as [|b IH]; intros l; [reflexivity|].
  destruct l as [|x l]; [now rewrite !skipn_nil|]. cbn [skipn Nat.add]. apply IH.
Qed.

Lemma firstn_skipn_add {A} (a b : nat) (l : list A) :
  firstn a l ++ firstn b (skipn a l) = firstn (a + b) l.
Proof.
  revert l; induction a as [|a IH]; intros l; [reflexivity|].
  destruct l as [|x l]; [now rewrite !skipn_nil, !firstn_nil|].
  cbn [skipn firstn Nat.add app]. now rewrite IH.
Qed.

Lemma len_app {A} (a b : list A) : len (a ++ b) = len a + len b.
Proof. unfold len. rewrite app_length. lia. Qed.

Lemma len_nil_inv {A} (l : list A) : len l <= 0 -> l = [].
Proof. destruct l; [reflexivity|]. unfold len; cbn [length]; lia. Qed.

(* ------------------------------------------------------------------ *)
(* one Read call                                                       *)
(* ------------------------------------------------------------------ *)

(* number of bytes the reader can still deliver before EOF / injected error *)
Definition avail (r : reader) : Z :=
  Z.min (len (r_data r))
        ((match r_fail_at r with Some k => k | None => len (r_data r) + r_pos r end) - r_pos r).

(* r' is r advanced by exactly n bytes (plan is irrelevant and unconstrained) *)
Definition adv (n : nat) (r r' : reader) : Prop :=
  r_data r' = skipn n (r_data r) /\ r_fail_at r' = r_fail_at r /\
  r_eof_with_data r' = r_eof_with_data r /\ r_pos r' = r_pos r + Z.of_nat n.

Lemma avail_None r : r_fail_at r = None -> avail r = len (r_data r).
Proof. unfold avail. intros ->. lia. Qed.

Lemma avail_le_len r : avail r <= len (r_data r).
Proof. unfold avail. lia. Qed.

Lemma adv_0 r : adv 0 r r.
Proof. unfold adv. cbn [skipn]. repeat split. lia. Qed.

Lemma adv_trans a b r r1 r2 : adv a r r1 -> adv b r1 r2 -> adv (a + b) r r2.
Proof.
  intros (Hd1 & Hf1 & He1 & Hp1) (Hd2 & Hf2 & He2 & Hp2). unfold adv.
  rewrite Hd2, Hd1, Hf2, Hf1, He2, He1, Hp2, Hp1, skipn_skipn'. repeat split. lia.
Qed.

Lemma avail_adv n r r' : adv n r r' -> Z.of_nat n <= avail r -> avail r' = avail r - Z.of_nat n.
Proof.
  intros (Hd & Hf & He & Hp) Hn. pose proof (avail_le_len r) as Hl. revert Hn Hl.
  unfold avail. rewrite Hd, Hf, Hp. unfold len. rewrite skipn_length.
  destruct (r_fail_at r); lia.
Qed.

Lemma r_read_cases r want : 1 <= want ->
  (avail r <= 0 /\ exists e, e <> RNone /\ r_read r want = ([], e, r)) \/
  (exists n r' e, (1 <= n)%nat /\ Z.of_nat n <= want /\ Z.of_nat n <= avail r /\
     r_read r want = (firstn n (r_data r), e, r') /\ adv n r r' /\
     (e = RNone \/ (e = REOF /\ r_eof_with_data r = true /\ n = length (r_data r)))).
Proof.
  intros Hw. unfold r_read. fold (avail r).
  destruct (avail r <=? 0) eqn:Ea.
  - left. split; [lia|]. eexists; split; [|reflexivity]. destruct (len (r_data r) =? 0); discriminate.
  - right. pose proof (avail_le_len r) as Hl.
    set (chunk := match r_plan r with c :: _ => Z.max 1 c | [] => want end).
    assert (Hc : 1 <= chunk) by (unfold chunk; destruct (r_plan r); lia).
    set (m := Z.min want (Z.min chunk (avail r))).
    assert (Hm : 1 <= m <= want /\ m <= avail r) by (unfold m; lia).
    exists (Z.to_nat m). eexists. eexists.
    split; [lia|]. split; [lia|]. split; [lia|]. split; [reflexivity|].
    split.
    + unfold adv. cbn [r_data r_fail_at r_eof_with_data r_pos]. repeat split. lia.
    + destruct (r_eof_with_data r) eqn:Ee; cbn [andb]; [|left; reflexivity].
      destruct (len (skipn (Z.to_nat m) (r_data r)) =? 0) eqn:El; [|left; reflexivity].
      right. split; [reflexivity|]. split; [reflexivity|].
      unfold len in *. rewrite skipn_length in El. lia.
Qed.

(* ------------------------------------------------------------------ *)
(* io.ReadAtLeast                                                      *)
(* ------------------------------------------------------------------ *)

Lemma read_at_least_gen (f : nat) : forall r got min,
  0 <= min - len got -> min - len got + 1 <= Z.of_nat f ->
  (min - len got <= avail r ->
     exists r', read_at_least f r got min
                = (got ++ firstn (Z.to_nat (min - len got)) (r_data r), RalOk, r')
                /\ adv (Z.to_nat (min - len got)) r r') /\
  (avail r < min - len got -> 1 <= min - len got ->
     exists g r', read_at_least f r got min = (g, RalErr, r')).
Proof.
  induction f as [|f IH]; intros r got min Hn Hf; [lia|].
  cbn [read_at_least].
  destruct (min <=? len got) eqn:Ed.
  - assert (Hz : min - len got = 0) by lia. rewrite Hz. cbn [Z.to_nat firstn]. split.
    + intros _. exists r. rewrite app_nil_r. split; [reflexivity|apply adv_0].
    + intros _ Hc. lia.
  - assert (Hw : 1 <= min - len got) by lia.
    destruct (r_read_cases r (min - len got) Hw)
      as [(Ha & e & He & Hr) | (n & r' & e & Hn1 & Hnw & Hna & Hr & Hadv & He)]; rewrite Hr.
    + (* nothing delivered: EOF or failure *)
      rewrite app_nil_r. split; [lia|]. intros _ _.
      destruct e; [congruence| |]; rewrite Ed; eauto.
    + pose proof (avail_le_len r) as Hal.
      assert (Hlen : len (got ++ firstn n (r_data r)) = len got + Z.of_nat n).
      { rewrite len_app. unfold len in *. rewrite firstn_length. lia. }
      pose proof (avail_adv _ _ _ Hadv Hna) as Hav'.
      destruct He as [-> | (-> & Heof & Hnl)].
      * (* no error: loop *)
        specialize (IH r' (got ++ firstn n (r_data r)) min).
        rewrite Hlen in IH. destruct IH as [IH1 IH2]; [lia|lia|]. split.
        -- intros Hle. destruct IH1 as (r'' & Heq & Hadv''); [lia|].
           exists r''. rewrite Heq. destruct Hadv as (Hd & Hrest).
           rewrite Hd, <- app_assoc, firstn_skipn_add. split.
           ++ do 3 f_equal. lia.
           ++ replace (Z.to_nat (min - len got)) with (n + Z.to_nat (min - (len got + Z.of_nat n)))%nat by lia.
              eapply adv_trans; [|exact Hadv'']. split; assumption.
        -- intros Hlt _. apply IH2; lia.
      * (* EOF together with the last bytes *)
        assert (Hna' : Z.of_nat n = avail r) by (unfold len in Hal; lia).
        split.
        -- intros Hle. assert (Hnn : n = Z.to_nat (min - len got)) by lia.
           exists r'. rewrite Hlen. destruct (min <=? len got + Z.of_nat n) eqn:E2; [|lia].
           rewrite <- Hnn. split; [reflexivity|exact Hadv].
        -- intros Hlt _. rewrite Hlen.
           destruct (min <=? len got + Z.of_nat n) eqn:E2; [lia|]. eauto.
Qed.

(* the instance used by the model: buf[32], min = 32, fuel 40 *)
Lemma read_at_least_32 r :
  (32 <= avail r ->
     exists r', read_at_least 40 r [] 32 = (firstn 32 (r_data r), RalOk, r') /\ adv 32 r r') /\
  (avail r < 32 -> exists g r', read_at_least 40 r [] 32 = (g, RalErr, r')).
Proof.
  destruct (read_at_least_gen 40 r [] 32) as [H1 H2]; [cbn; lia|cbn; lia|].
  change (32 - len (@nil Z)) with 32 in *. change (Z.to_nat 32) with 32%nat in *.
  split; [exact H1|]. intros H. apply H2; [exact H|lia].
Qed.

(* 1. io.ReadAtLeast over a reader without injected error *)
Theorem read_at_least_spec r : r_fail_at r = None ->
  (32 <= len (r_data r) ->
     exists r', read_at_least 40 r [] 32 = (firstn 32 (r_data r), RalOk, r')
                /\ r_data r' = skipn 32 (r_data r) /\ r_fail_at r' = None
                /\ r_eof_with_data r' = r_eof_with_data r) /\
  (len (r_data r) < 32 -> snd (fst (read_at_least 40 r [] 32)) = RalErr).
Proof.
  intros Hf. destruct (read_at_least_32 r) as [H1 H2]. rewrite (avail_None r Hf) in *. split.
  - intros H. destruct (H1 H) as (r' & Heq & Hd & Hfa & He & _).
    exists r'. rewrite Hfa. auto.
  - intros H. destruct (H2 H) as (g & r' & ->). reflexivity.
Qed.
