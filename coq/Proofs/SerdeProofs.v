(* Proofs about the proof (de)serialisation model (Model/Serde.v):
   io.ReadAtLeast over arbitrary chunk plans / EOF styles, ReadPoint(s),
   IPAProof.Read, MultiProof.Read (strict and pinned "lax" EOF probe),
   injected I/O errors, writers and round trips.
   All statements hold for ALL streams, ALL chunk plans and both EOF styles. *)
From Coq Require Import ZArith Lia List Bool ZifyBool ZifyNat.
From GoIpa Require Import Model.Bytes Model.Zq Model.Codec Model.Banderwagon Model.Serde
  Proofs.BytesProofs Proofs.ZqProofs Proofs.CodecProofs.
Import ListNotations.
Open Scope Z_scope.

(* ------------------------------------------------------------------ *)
(* list helpers                                                        *)
(* ------------------------------------------------------------------ *)

Lemma skipn_skipn' {A} (a b : nat) (l : list A) : skipn a (skipn b l) = skipn (b + a) l.
Proof.
  revert l; induction b as [|b IH]; intros l; [reflexivity|].
  destruct l as [|x l]; [now rewrite !skipn_nil|]. cbn [skipn Nat.add]. apply IH.
Qed.

Lemma firstn_skipn_add {A} (a b : nat) (l : list A) :
  firstn a l ++ firstn b (skipn a l) = firstn (a + b) l.
Proof.
  revert l; induction a as [|a IH]; intros l; [reflexivity|].
  destruct l as [|x l]; [now rewrite !skipn_nil, !firstn_nil|].
  cbn [skipn firstn Nat.add app]. now rewrite IH.
Qed.

Lemma len_app {A} (a b : list A) : len (a ++ b) = len a + len b.
Proof. unfold len. rewrite app_length. lia. Qed.

Lemma len_nil_inv {A} (l : list A) : len l <= 0 -> l = [].
Proof. destruct l; [reflexivity|]. unfold len; cbn [length]; lia. Qed.

(* ------------------------------------------------------------------ *)
(* one Read call                                                       *)
(* ------------------------------------------------------------------ *)

(* number of bytes the reader can still deliver before EOF / injected error *)
Definition avail (r : reader) : Z :=
  Z.min (len (r_data r))
        ((match r_fail_at r with Some k => k | None => len (r_data r) + r_pos r end) - r_pos r).

(* r' is r advanced by exactly n bytes (plan is irrelevant and unconstrained) *)
Definition adv (n : nat) (r r' : reader) : Prop :=
  r_data r' = skipn n (r_data r) /\ r_fail_at r' = r_fail_at r /\
  r_eof_with_data r' = r_eof_with_data r /\ r_pos r' = r_pos r + Z.of_nat n.

Lemma avail_None r : r_fail_at r = None -> avail r = len (r_data r).
Proof. unfold avail. intros ->. lia. Qed.

Lemma avail_le_len r : avail r <= len (r_data r).
Proof. unfold avail. lia. Qed.

Lemma adv_0 r : adv 0 r r.
Proof. unfold adv. cbn [skipn]. repeat split. lia. Qed.

Lemma adv_trans a b r r1 r2 : adv a r r1 -> adv b r1 r2 -> adv (a + b) r r2.
Proof.
  intros (Hd1 & Hf1 & He1 & Hp1) (Hd2 & Hf2 & He2 & Hp2). unfold adv.
  rewrite Hd2, Hd1, Hf2, Hf1, He2, He1, Hp2, Hp1, skipn_skipn'. repeat split. lia.
Qed.

Lemma avail_adv n r r' : adv n r r' -> Z.of_nat n <= avail r -> avail r' = avail r - Z.of_nat n.
Proof.
  intros (Hd & Hf & He & Hp) Hn. pose proof (avail_le_len r) as Hl. revert Hn Hl.
  unfold avail. rewrite Hd, Hf, Hp. unfold len. rewrite skipn_length.
  destruct (r_fail_at r); lia.
Qed.

Lemma r_read_cases r want : 1 <= want ->
  (avail r <= 0 /\ exists e, e <> RNone /\ r_read r want = ([], e, r)) \/
  (exists n r' e, (1 <= n)%nat /\ Z.of_nat n <= want /\ Z.of_nat n <= avail r /\
     r_read r want = (firstn n (r_data r), e, r') /\ adv n r r' /\
     (e = RNone \/ (e = REOF /\ r_eof_with_data r = true /\ n = length (r_data r)))).
Proof.
  intros Hw. unfold r_read. fold (avail r).
  destruct (avail r <=? 0) eqn:Ea.
  - left. split; [lia|]. eexists; split; [|reflexivity]. destruct (len (r_data r) =? 0); discriminate.
  - right. pose proof (avail_le_len r) as Hl.
    set (chunk := match r_plan r with c :: _ => Z.max 1 c | [] => want end).
    assert (Hc : 1 <= chunk) by (unfold chunk; destruct (r_plan r); lia).
    set (m := Z.min want (Z.min chunk (avail r))).
    assert (Hm : 1 <= m <= want /\ m <= avail r) by (unfold m; lia).
    exists (Z.to_nat m). eexists. eexists.
    split; [lia|]. split; [lia|]. split; [lia|]. split; [reflexivity|].
    split.
    + unfold adv. cbn [r_data r_fail_at r_eof_with_data r_pos]. repeat split. lia.
    + destruct (r_eof_with_data r) eqn:Ee; cbn [andb]; [|left; reflexivity].
      destruct (len (skipn (Z.to_nat m) (r_data r)) =? 0) eqn:El; [|left; reflexivity].
      right. split; [reflexivity|]. split; [reflexivity|].
      unfold len in *. rewrite skipn_length in El. lia.
Qed.

(* ------------------------------------------------------------------ *)
(* io.ReadAtLeast                                                      *)
(* ------------------------------------------------------------------ *)

Lemma read_at_least_gen (f : nat) : forall r got min,
  0 <= min - len got -> min - len got + 1 <= Z.of_nat f ->
  (min - len got <= avail r ->
     exists r', read_at_least f r got min
                = (got ++ firstn (Z.to_nat (min - len got)) (r_data r), RalOk, r')
                /\ adv (Z.to_nat (min - len got)) r r') /\
  (avail r < min - len got -> 1 <= min - len got ->
     exists g r', read_at_least f r got min = (g, RalErr, r')).
Proof.
  induction f as [|f IH]; intros r got min Hn Hf; [lia|].
  cbn [read_at_least].
  destruct (min <=? len got) eqn:Ed.
  - assert (Hz : min - len got = 0) by lia. rewrite Hz. cbn [Z.to_nat firstn]. split.
    + intros _. exists r. rewrite app_nil_r. split; [reflexivity|apply adv_0].
    + intros _ Hc. lia.
  - assert (Hw : 1 <= min - len got) by lia.
    destruct (r_read_cases r (min - len got) Hw)
      as [(Ha & e & He & Hr) | (n & r' & e & Hn1 & Hnw & Hna & Hr & Hadv & He)]; rewrite Hr.
    + (* nothing delivered: EOF or failure *)
      rewrite app_nil_r. split; [lia|]. intros _ _.
      destruct e; [congruence| |]; rewrite Ed; eauto.
    + pose proof (avail_le_len r) as Hal.
      assert (Hlen : len (got ++ firstn n (r_data r)) = len got + Z.of_nat n).
      { rewrite len_app. unfold len in *. rewrite firstn_length. lia. }
      pose proof (avail_adv _ _ _ Hadv Hna) as Hav'.
      destruct He as [-> | (-> & Heof & Hnl)].
      * (* no error: loop *)
        specialize (IH r' (got ++ firstn n (r_data r)) min).
        rewrite Hlen in IH. destruct IH as [IH1 IH2]; [lia|lia|]. split.
        -- intros Hle. destruct IH1 as (r'' & Heq & Hadv''); [lia|].
           exists r''. rewrite Heq. destruct Hadv as (Hd & Hrest).
           rewrite Hd, <- app_assoc, firstn_skipn_add. split.
           ++ assert (En : (n + Z.to_nat (min - (len got + Z.of_nat n)))%nat = Z.to_nat (min - len got)).
              { rewrite <- (Nat2Z.id n) at 1. rewrite <- Z2Nat.inj_add by lia. f_equal. lia. }
              rewrite En. reflexivity.
           ++ replace (Z.to_nat (min - len got)) with (n + Z.to_nat (min - (len got + Z.of_nat n)))%nat.
              2:{ rewrite <- (Nat2Z.id n) at 1. rewrite <- Z2Nat.inj_add by lia. f_equal. lia. }
              eapply adv_trans; [|exact Hadv'']. split; assumption.
        -- intros Hlt _. apply IH2; lia.
      * (* EOF together with the last bytes *)
        assert (Hna' : Z.of_nat n = avail r) by (unfold len in Hal; lia).
        split.
        -- intros Hle. assert (Hnn : n = Z.to_nat (min - len got)) by lia.
           exists r'. rewrite Hlen. destruct (min <=? len got + Z.of_nat n) eqn:E2; [|lia].
           rewrite <- Hnn. split; [reflexivity|exact Hadv].
        -- intros Hlt _. rewrite Hlen.
           destruct (min <=? len got + Z.of_nat n) eqn:E2; [lia|]. eauto.
Qed.

(* the instance used by the model: buf[32], min = 32, fuel 40 *)
Lemma read_at_least_32 r :
  (32 <= avail r ->
     exists r', read_at_least 40 r [] 32 = (firstn 32 (r_data r), RalOk, r') /\ adv 32 r r') /\
  (avail r < 32 -> exists g r', read_at_least 40 r [] 32 = (g, RalErr, r')).
Proof.
  destruct (read_at_least_gen 40 r [] 32) as [H1 H2]; [cbn; lia|cbn; lia|].
  change (32 - len (@nil Z)) with 32 in *. change (Z.to_nat 32) with 32%nat in *.
  split; [exact H1|]. intros H. apply H2; [exact H|lia].
Qed.

(* 1. io.ReadAtLeast over a reader without injected error *)
Theorem read_at_least_spec r : r_fail_at r = None ->
  (32 <= len (r_data r) ->
     exists r', read_at_least 40 r [] 32 = (firstn 32 (r_data r), RalOk, r')
                /\ r_data r' = skipn 32 (r_data r) /\ r_fail_at r' = None
                /\ r_eof_with_data r' = r_eof_with_data r) /\
  (len (r_data r) < 32 -> snd (fst (read_at_least 40 r [] 32)) = RalErr).
Proof.
  intros Hf. destruct (read_at_least_32 r) as [H1 H2]. rewrite (avail_None r Hf) in *. split.
  - intros H. destruct (H1 H) as (r' & Heq & Hd & Hfa & He & _).
    exists r'. rewrite Hfa. auto.
  - intros H. destruct (H2 H) as (g & r' & ->). reflexivity.
Qed.

(* ------------------------------------------------------------------ *)
(* specification: pure decoding of a byte string                        *)
(* ------------------------------------------------------------------ *)

Fixpoint dec_points (k : nat) (s : list Z) : (list element * list Z) + serr :=
  match k with
  | O => inl ([], s)
  | S k' =>
      if len s <? 32 then inr SErrIO else
      match bw_set_bytes (firstn 32 s) false with
      | inr e => inr (SErrPoint e)
      | inl p => match dec_points k' (skipn 32 s) with
                 | inr e => inr e
                 | inl (ps, rest) => inl (p :: ps, rest)
                 end
      end
  end.

Definition dec_scalar (s : list Z) : (Fr * list Z) + serr :=
  if len s <? 32 then inr SErrIO else
  match fst (fr_set_bytes_le_canonical (firstn 32 s)) with
  | Some a => inl (a, skipn 32 s)
  | None => inr SErrScalar
  end.

Definition ipa_decode (s : list Z) : (ipa_bytes_proof * list Z) + serr :=
  match dec_points 8 s with
  | inr e => inr e
  | inl (L, s1) =>
      match dec_points 8 s1 with
      | inr e => inr e
      | inl (R, s2) =>
          match dec_scalar s2 with
          | inr e => inr e
          | inl (a, s3) => inl (mkIB L R a, s3)
          end
      end
  end.

(* MultiProof: D, the IPA proof, and nothing after it *)
Definition mp_decode (s : list Z) : (element * ipa_bytes_proof) + serr :=
  match dec_points 1 s with
  | inr e => inr e
  | inl (Ds, s1) =>
      match ipa_decode s1 with
      | inr e => inr e
      | inl (ip, rest) =>
          match rest with
          | [] => inl (hd bw_identity Ds, ip)
          | _ => inr SErrTrailing
          end
      end
  end.

(* readers without injected error whose state is "at stream s" *)
Definition clean_at (r : reader) (s : list Z) (eofd : bool) : Prop :=
  r_data r = s /\ r_fail_at r = None /\ r_eof_with_data r = eofd.

Lemma read_point_spec r s eofd : clean_at r s eofd ->
  (len s < 32 -> read_point r = inr SErrIO) /\
  (32 <= len s ->
     match bw_set_bytes (firstn 32 s) false with
     | inl p => exists r', read_point r = inl (p, r') /\ clean_at r' (skipn 32 s) eofd
     | inr e => read_point r = inr (SErrPoint e)
     end).
Proof.
  intros (Hd & Hf & He). destruct (read_at_least_spec r Hf) as [H1 H2]. rewrite Hd in *. unfold read_point. split.
  - intros H. specialize (H2 H). destruct (read_at_least 40 r [] 32) as [[g res] r']. cbn in H2. subst res. reflexivity.
  - intros H. destruct (H1 H) as (r' & Heq & Hd' & Hf' & He'). rewrite Heq.
    destruct (bw_set_bytes (firstn 32 s) false) as [p|e]; [|reflexivity].
    exists r'. split; [reflexivity|]. unfold clean_at. rewrite Hd', Hf', He', He. auto.
Qed.

Lemma read_scalar_spec r s eofd : clean_at r s eofd ->
  match dec_scalar s with
  | inl (a, rest) => exists r', read_scalar r = inl (a, r') /\ clean_at r' rest eofd
  | inr e => read_scalar r = inr e
  end.
Proof.
  intros (Hd & Hf & He). destruct (read_at_least_spec r Hf) as [H1 H2]. rewrite Hd in *.
  unfold dec_scalar, read_scalar. destruct (len s <? 32) eqn:E.
  - assert (H : len s < 32) by lia. specialize (H2 H).
    destruct (read_at_least 40 r [] 32) as [[g res] r']. cbn in H2. subst res. reflexivity.
  - assert (H : 32 <= len s) by lia. destruct (H1 H) as (r' & Heq & Hd' & Hf' & He'). rewrite Heq.
    destruct (fst (fr_set_bytes_le_canonical (firstn 32 s))) as [a|]; [|reflexivity].
    exists r'. split; [reflexivity|]. unfold clean_at. rewrite Hd', Hf', He', He. auto.
Qed.

Lemma read_points_spec k : forall r s eofd, clean_at r s eofd ->
  match dec_points k s with
  | inl (ps, rest) => exists r', read_points k r = inl (ps, r') /\ clean_at r' rest eofd
  | inr e => read_points k r = inr e
  end.
Proof.
  induction k as [|k IH]; intros r s eofd Hc; cbn [dec_points read_points].
  - exists r. split; [reflexivity|]. exact Hc.
  - destruct (read_point_spec r s eofd Hc) as [H1 H2].
    destruct (len s <? 32) eqn:E.
    + rewrite H1 by lia. reflexivity.
    + assert (H : 32 <= len s) by lia. specialize (H2 H).
      destruct (bw_set_bytes (firstn 32 s) false) as [p|e].
      * destruct H2 as (r' & Heq & Hc'). rewrite Heq.
        specialize (IH r' (skipn 32 s) eofd Hc').
        destruct (dec_points k (skipn 32 s)) as [[ps rest]|e].
        -- destruct IH as (r'' & Heq' & Hc''). rewrite Heq'. exists r''. auto.
        -- rewrite IH. reflexivity.
      * rewrite H2. reflexivity.
Qed.

Lemma ipa_read_spec r s eofd : clean_at r s eofd ->
  match ipa_decode s with
  | inl (ip, rest) => exists r', ipa_read r = inl (ip, r') /\ clean_at r' rest eofd
  | inr e => ipa_read r = inr e
  end.
Proof.
  intros Hc. unfold ipa_decode, ipa_read.
  pose proof (read_points_spec 8 r s eofd Hc) as H1.
  destruct (dec_points 8 s) as [[L s1]|e]; [|rewrite H1; reflexivity].
  destruct H1 as (r1 & -> & Hc1).
  pose proof (read_points_spec 8 r1 s1 eofd Hc1) as H2.
  destruct (dec_points 8 s1) as [[R s2]|e]; [|rewrite H2; reflexivity].
  destruct H2 as (r2 & -> & Hc2).
  pose proof (read_scalar_spec r2 s2 eofd Hc2) as H3.
  destruct (dec_scalar s2) as [[a s3]|e]; [|rewrite H3; reflexivity].
  destruct H3 as (r3 & -> & Hc3). exists r3. auto.
Qed.

(* the EOF probe of the repaired MultiProof.Read *)
Lemma probe_strict r s eofd : clean_at r s eofd ->
  let '(bs, e, _) := r_read r 1 in
  match s with
  | [] => e = REOF /\ bs = []
  | _ => e = RNone \/ (e = REOF /\ bs <> [])
  end.
Proof.
  intros (Hd & Hf & He). unfold r_read. rewrite Hf, Hd.
  destruct s as [|b s].
  - assert (Ha : Z.min (len (@nil Z)) (len (@nil Z) + r_pos r - r_pos r) = 0) by (unfold len; cbn; lia).
    rewrite Ha. cbn. auto.
  - replace (Z.min (len (b :: s)) (len (b :: s) + r_pos r - r_pos r)) with (len (b :: s)) by lia.
    assert (Hl : 1 <= len (b :: s)) by (unfold len; cbn [length]; lia).
    destruct (len (b :: s) <=? 0) eqn:E; [lia|].
    set (chunk := match r_plan r with c :: _ => Z.max 1 c | [] => 1 end).
    assert (Hm : Z.min 1 (Z.min chunk (len (b :: s))) = 1) by (unfold chunk; destruct (r_plan r); lia).
    rewrite Hm. change (Z.to_nat 1) with 1%nat. cbn [firstn skipn].
    destruct (r_eof_with_data r && (len s =? 0)); [right; split; [reflexivity|discriminate]|left; reflexivity].
Qed.

(* 2. MultiProof.Read (repaired probe) = pure decoding of the stream, for EVERY
      chunk plan and both EOF styles of a reader without injected error *)
Theorem mp_read_spec r : r_fail_at r = None -> mp_read true r = mp_decode (r_data r).
Proof.
  intros Hf. set (s := r_data r). set (eofd := r_eof_with_data r).
  assert (Hc : clean_at r s eofd) by (unfold clean_at; auto).
  unfold mp_read, mp_decode.
  pose proof (read_point_spec r s eofd Hc) as [H1 H2]. cbn [dec_points].
  destruct (len s <? 32) eqn:E; [rewrite H1 by lia; reflexivity|].
  assert (H : 32 <= len s) by lia. specialize (H2 H).
  destruct (bw_set_bytes (firstn 32 s) false) as [D|e]; [|rewrite H2; reflexivity].
  destruct H2 as (r1 & -> & Hc1).
  pose proof (ipa_read_spec r1 (skipn 32 s) eofd Hc1) as H3.
  destruct (ipa_decode (skipn 32 s)) as [[ip rest]|e]; [|rewrite H3; reflexivity].
  destruct H3 as (r2 & -> & Hc2).
  pose proof (probe_strict r2 rest eofd Hc2) as Hp.
  destruct (r_read r2 1) as [[bs e] r3]. cbn [hd].
  destruct rest as [|b rest].
  - destruct Hp as (-> & ->). reflexivity.
  - destruct Hp as [->|(-> & Hb)]; [reflexivity|].
    destruct bs; [congruence|]. reflexivity.
Qed.

Theorem ipa_read_spec_full r : r_fail_at r = None ->
  match ipa_decode (r_data r) with
  | inl (ip, rest) => exists r', ipa_read r = inl (ip, r') /\ r_data r' = rest
  | inr e => ipa_read r = inr e
  end.
Proof.
  intros Hf. pose proof (ipa_read_spec r (r_data r) (r_eof_with_data r)) as H.
  specialize (H ltac:(unfold clean_at; auto)).
  destruct (ipa_decode (r_data r)) as [[ip rest]|e]; [|exact H].
  destruct H as (r' & Heq & Hd & _). exists r'. auto.
Qed.

(* the outcome does not depend on how the reader chunks the stream *)
Corollary mp_read_chunking_independent r1 r2 :
  r_fail_at r1 = None -> r_fail_at r2 = None -> r_data r1 = r_data r2 ->
  mp_read true r1 = mp_read true r2.
Proof. intros H1 H2 Hd. rewrite (mp_read_spec r1 H1), (mp_read_spec r2 H2), Hd. reflexivity. Qed.

(* ---- shape of accepted strings ---- *)
Lemma dec_points_len k : forall s ps rest,
  dec_points k s = inl (ps, rest) -> len s = 32 * Z.of_nat k + len rest /\ length ps = k.
Proof.
  induction k as [|k IH]; intros s ps rest; cbn [dec_points].
  - intros H. injection H as <- <-. cbn. lia.
  - destruct (len s <? 32) eqn:E; [discriminate|].
    destruct (bw_set_bytes (firstn 32 s) false) as [p|e]; [|discriminate].
    destruct (dec_points k (skipn 32 s)) as [[ps' rest']|e] eqn:Ed; [|discriminate].
    intros H. injection H as <- <-. destruct (IH _ _ _ Ed) as [Hl Hn].
    unfold len in *. rewrite skipn_length in Hl. cbn [length]. lia.
Qed.

Theorem mp_decode_accepts_only_576 s v : mp_decode s = inl v -> len s = 576.
Proof.
  unfold mp_decode, ipa_decode, dec_scalar.
  destruct (dec_points 1 s) as [[Ds s1]|e] eqn:E1; [|discriminate].
  destruct (dec_points 8 s1) as [[L s2]|e] eqn:E2; [|discriminate].
  destruct (dec_points 8 s2) as [[R s3]|e] eqn:E3; [|discriminate].
  destruct (len s3 <? 32) eqn:E4; [discriminate|].
  destruct (fst (fr_set_bytes_le_canonical (firstn 32 s3))) as [a|]; [|discriminate].
  destruct (skipn 32 s3) as [|b rest] eqn:E5; [|discriminate]. intros _.
  apply dec_points_len in E1, E2, E3. destruct E1 as [E1 _], E2 as [E2 _], E3 as [E3 _].
  assert (len s3 = 32).
  { assert (Hl : length (skipn 32 s3) = 0%nat) by (rewrite E5; reflexivity).
    rewrite skipn_length in Hl. unfold len in *. lia. }
  lia.
Qed.

Theorem ipa_decode_consumes_544 s ip rest : ipa_decode s = inl (ip, rest) -> len s = 544 + len rest.
Proof.
  unfold ipa_decode, dec_scalar.
  destruct (dec_points 8 s) as [[L s2]|e] eqn:E2; [|discriminate].
  destruct (dec_points 8 s2) as [[R s3]|e] eqn:E3; [|discriminate].
  destruct (len s3 <? 32) eqn:E4; [discriminate|].
  destruct (fst (fr_set_bytes_le_canonical (firstn 32 s3))) as [a|]; [|discriminate].
  intros H. assert (Hr : rest = skipn 32 s3) by congruence. subst rest. clear H.
  apply dec_points_len in E2, E3. destruct E2 as [E2 _], E3 as [E3 _].
  unfold len in *. rewrite skipn_length. lia.
Qed.

(* ---- injected I/O error ---- *)
Lemma read_point_fail r : avail r < 32 -> exists e, read_point r = inr e.
Proof.
  intros H. destruct (read_at_least_32 r) as [_ H2]. destruct (H2 H) as (g & r' & Heq).
  unfold read_point. rewrite Heq. eauto.
Qed.
Lemma read_scalar_fail r : avail r < 32 -> exists e, read_scalar r = inr e.
Proof.
  intros H. destruct (read_at_least_32 r) as [_ H2]. destruct (H2 H) as (g & r' & Heq).
  unfold read_scalar. rewrite Heq. eauto.
Qed.
Lemma read_point_adv r p r' : read_point r = inl (p, r') -> 32 <= avail r /\ adv 32 r r'.
Proof.
  unfold read_point. destruct (read_at_least_32 r) as [H1 H2].
  destruct (Z_lt_le_dec (avail r) 32) as [Hlt|Hge].
  - destruct (H2 Hlt) as (g & r1 & ->). discriminate.
  - destruct (H1 Hge) as (r1 & -> & Hadv).
    destruct (bw_set_bytes _ false); [|discriminate]. intros H. injection H as _ <-. auto.
Qed.
Lemma read_scalar_adv r a r' : read_scalar r = inl (a, r') -> 32 <= avail r /\ adv 32 r r'.
Proof.
  unfold read_scalar. destruct (read_at_least_32 r) as [H1 H2].
  destruct (Z_lt_le_dec (avail r) 32) as [Hlt|Hge].
  - destruct (H2 Hlt) as (g & r1 & ->). discriminate.
  - destruct (H1 Hge) as (r1 & -> & Hadv).
    destruct (fst (fr_set_bytes_le_canonical _)); [|discriminate]. intros H. injection H as _ <-. auto.
Qed.
Lemma read_points_adv k : forall r ps r', read_points k r = inl (ps, r') ->
  ((1 <= k)%nat -> 32 * Z.of_nat k <= avail r) /\ adv (32 * k) r r'.
Proof.
  induction k as [|k IH]; intros r ps r'; cbn [read_points].
  - intros H. injection H as _ <-. split; [lia|apply adv_0].
  - destruct (read_point r) as [[p r1]|e] eqn:E1; [|discriminate].
    destruct (read_points k r1) as [[ps' r2]|e] eqn:E2; [|discriminate].
    intros H. injection H as _ <-.
    destruct (read_point_adv _ _ _ E1) as [Ha Hadv]. destruct (IH _ _ _ E2) as [Ha' Hadv'].
    rewrite (avail_adv _ _ _ Hadv) in Ha' by (cbn; lia).
    split; [intros _; destruct k as [|k]; [cbn; lia|]; specialize (Ha' ltac:(lia)); lia|].
    replace (32 * S k)%nat with (32 + 32 * k)%nat by lia.
    eapply adv_trans; eassumption.
Qed.

(* 3. an I/O error injected before the 576th byte (resp. 544th for IPAProof.Read)
      makes Read fail, whatever the stream, the chunking and the EOF style *)
Lemma ipa_read_needs_544 r ip r' : ipa_read r = inl (ip, r') -> 544 <= avail r /\ adv 544 r r'.
Proof.
  unfold ipa_read.
  destruct (read_points 8 r) as [[L r1]|e] eqn:E1; [|discriminate].
  destruct (read_points 8 r1) as [[R r2]|e] eqn:E2; [|discriminate].
  destruct (read_scalar r2) as [[a r3]|e] eqn:E3; [|discriminate].
  intros H. injection H as _ <-.
  destruct (read_points_adv _ _ _ _ E1) as [A1 D1]. destruct (read_points_adv _ _ _ _ E2) as [A2 D2].
  destruct (read_scalar_adv _ _ _ E3) as [A3 D3].
  specialize (A1 ltac:(lia)). specialize (A2 ltac:(lia)).
  rewrite (avail_adv _ _ _ D1) in A2 by (cbn; lia).
  assert (D12 : adv (32 * 8 + 32 * 8) r r2) by (eapply adv_trans; eassumption).
  rewrite (avail_adv _ _ _ D12) in A3 by (cbn in *; lia).
  split; [cbn in *; lia|].
  change 544%nat with (32 * 8 + 32 * 8 + 32)%nat. eapply adv_trans; eassumption.
Qed.

Theorem ipa_read_fault r : avail r < 544 -> exists e, ipa_read r = inr e.
Proof.
  intros H. destruct (ipa_read r) as [[ip r']|e] eqn:E; [|eauto].
  destruct (ipa_read_needs_544 _ _ _ E). lia.
Qed.

Theorem mp_read_fault strict r : avail r < 576 -> exists e, mp_read strict r = inr e.
Proof.
  intros H. unfold mp_read.
  destruct (read_point r) as [[D r1]|e] eqn:E1; [|eauto].
  destruct (read_point_adv _ _ _ E1) as [A1 D1].
  destruct (ipa_read r1) as [[ip r2]|e] eqn:E2; [|eauto].
  destruct (ipa_read_needs_544 _ _ _ E2) as [A2 _].
  rewrite (avail_adv _ _ _ D1) in A2 by (cbn; lia). cbn in A2. lia.
Qed.

(* in particular: fail_at = Some k with k < 576 *)
Corollary mp_read_injected_error strict data plan eofd k :
  k < 576 -> exists e, mp_read strict (mkR data plan eofd (Some k) 0) = inr e.
Proof. intros Hk. apply mp_read_fault. unfold avail; cbn. lia. Qed.

(* ---- writers ---- *)
Lemma write_all_ok chunks : forall written, write_all chunks None written = (written ++ concat chunks, false).
Proof.
  induction chunks as [|c cs IH]; intros w; cbn [write_all concat]; [now rewrite app_nil_r|].
  rewrite IH, app_assoc. reflexivity.
Qed.

(* a writer failing at the k-th Write call, for every k below the number of calls,
   makes Write return an error *)
Theorem write_all_fails chunks : forall k written, (k < length chunks)%nat ->
  snd (write_all chunks (Some k) written) = true.
Proof.
  induction chunks as [|c cs IH]; intros k w Hk; [cbn in Hk; lia|].
  destruct k as [|k]; cbn [write_all]; [reflexivity|]. apply IH. cbn in Hk. lia.
Qed.

Lemma mp_write_chunks_count D ip : length (ibL ip) = 8%nat -> length (ibR ip) = 8%nat ->
  length (mp_write_chunks D ip) = 18%nat.
Proof.
  intros HL HR. unfold mp_write_chunks, ipa_write_chunks. cbn [length].
  rewrite !app_length, !map_length, HL, HR. reflexivity.
Qed.

(* ---- round trips ---- *)
(* a point whose own encoding is accepted and decodes back to itself *)
Definition point_roundtrips (P : element) : Prop := bw_set_bytes (bw_bytes P) false = inl P.

Lemma bw_bytes_len32 P : len (bw_bytes P) = 32.
Proof. unfold len. unfold bw_bytes. destruct (bw_affine P). unfold fp_bytes. rewrite be_enc_length. reflexivity. Qed.

Lemma firstn32_app P rest : firstn 32 (bw_bytes P ++ rest) = bw_bytes P.
Proof.
  pose proof (bw_bytes_len32 P) as H. unfold len in H.
  assert (E : length (bw_bytes P) = 32%nat) by lia. rewrite <- E.
  rewrite firstn_app, Nat.sub_diag, firstn_all, firstn_O. apply app_nil_r.
Qed.
Lemma skipn32_app P rest : skipn 32 (bw_bytes P ++ rest) = rest.
Proof.
  pose proof (bw_bytes_len32 P) as H. unfold len in H.
  assert (E : length (bw_bytes P) = 32%nat) by lia. rewrite <- E.
  rewrite skipn_app, Nat.sub_diag, skipn_all. reflexivity.
Qed.

Lemma dec_points_concat ps : forall rest, Forall point_roundtrips ps ->
  dec_points (length ps) (concat (map bw_bytes ps) ++ rest) = inl (ps, rest).
Proof.
  induction ps as [|P ps IH]; intros rest HF; [reflexivity|].
  inversion HF as [|? ? HP HF']; subst. cbn [length dec_points map concat]. rewrite <- app_assoc.
  assert (Hl : (len (bw_bytes P ++ concat (map bw_bytes ps) ++ rest) <? 32) = false).
  { rewrite len_app, bw_bytes_len32. unfold len. lia. }
  rewrite Hl, firstn32_app, skipn32_app. unfold point_roundtrips in HP. rewrite HP, IH by exact HF'.
  reflexivity.
Qed.

(* Read(Write(p)) = p for every proof with 8+8 round-tripping points *)
Theorem mp_write_read_roundtrip D ip :
  point_roundtrips D -> Forall point_roundtrips (ibL ip) -> Forall point_roundtrips (ibR ip) ->
  length (ibL ip) = 8%nat -> length (ibR ip) = 8%nat ->
  mp_decode (concat (mp_write_chunks D ip)) = inl (D, ip).
Proof.
  intros HD HL HR L8 R8. unfold mp_write_chunks, ipa_write_chunks.
  cbn [concat]. rewrite !concat_app. cbn [concat]. rewrite app_nil_r.
  set (tailL := concat (map bw_bytes (ibL ip)) ++ concat (map bw_bytes (ibR ip)) ++ fr_bytes_le (ibA ip)).
  unfold mp_decode. cbn [dec_points].
  assert (Hl0 : (len (bw_bytes D ++ tailL) <? 32) = false).
  { rewrite len_app, bw_bytes_len32. unfold len. lia. }
  rewrite Hl0, firstn32_app, skipn32_app. unfold point_roundtrips in HD. rewrite HD.
  unfold ipa_decode, tailL.
  rewrite <- L8. rewrite (dec_points_concat (ibL ip) _ HL).
  rewrite L8, <- R8. rewrite (dec_points_concat (ibR ip) _ HR).
  unfold dec_scalar.
  assert (Hlen : length (fr_bytes_le (ibA ip)) = 32%nat) by apply fr_bytes_length.
  assert (Hl : (len (fr_bytes_le (ibA ip)) <? 32) = false) by (unfold len; rewrite Hlen; reflexivity).
  rewrite Hl. rewrite <- Hlen at 1. rewrite firstn_all. rewrite fr_bytes_le_canonical_roundtrip.
  rewrite <- Hlen. rewrite skipn_all. cbn [hd]. destruct ip; reflexivity.
Qed.

(* ---- the pinned (pre-repair) EOF probe is refuted: finding F3 ---- *)
Lemma dec_points_app k : forall s t ps rest,
  dec_points k s = inl (ps, rest) -> dec_points k (s ++ t) = inl (ps, rest ++ t).
Proof.
  induction k as [|k IH]; intros s t ps rest; cbn [dec_points].
  - intros H. injection H as <- <-. reflexivity.
  - destruct (len s <? 32) eqn:E; [discriminate|].
    assert (E' : (len (s ++ t) <? 32) = false) by (rewrite len_app; unfold len in *; lia).
    rewrite E'.
    assert (Hs : (32 <= length s)%nat) by (unfold len in E; lia).
    rewrite firstn_app. replace (32 - length s)%nat with 0%nat by lia. rewrite firstn_O, app_nil_r.
    rewrite skipn_app. replace (32 - length s)%nat with 0%nat by lia. rewrite skipn_O.
    destruct (bw_set_bytes (firstn 32 s) false) as [p|e]; [|discriminate].
    destruct (dec_points k (skipn 32 s)) as [[ps' rest']|e] eqn:Ed; [|discriminate].
    intros H. injection H as <- <-. rewrite (IH _ t _ _ Ed). reflexivity.
Qed.

Lemma dec_scalar_app s t a rest : dec_scalar s = inl (a, rest) -> dec_scalar (s ++ t) = inl (a, rest ++ t).
Proof.
  unfold dec_scalar. destruct (len s <? 32) eqn:E; [discriminate|].
  assert (E' : (len (s ++ t) <? 32) = false) by (rewrite len_app; unfold len in *; lia).
  rewrite E'. assert (Hs : (32 <= length s)%nat) by (unfold len in E; lia).
  rewrite firstn_app. replace (32 - length s)%nat with 0%nat by lia. rewrite firstn_O, app_nil_r.
  rewrite skipn_app. replace (32 - length s)%nat with 0%nat by lia. rewrite skipn_O.
  destruct (fst (fr_set_bytes_le_canonical (firstn 32 s))) as [a'|]; [|discriminate].
  intros H. congruence.
Qed.

Lemma ipa_decode_app s t ip rest : ipa_decode s = inl (ip, rest) -> ipa_decode (s ++ t) = inl (ip, rest ++ t).
Proof.
  unfold ipa_decode.
  destruct (dec_points 8 s) as [[L s1]|e] eqn:E1; [|discriminate]. rewrite (dec_points_app _ _ t _ _ E1).
  destruct (dec_points 8 s1) as [[R s2]|e] eqn:E2; [|discriminate]. rewrite (dec_points_app _ _ t _ _ E2).
  destruct (dec_scalar s2) as [[a s3]|e] eqn:E3; [|discriminate]. rewrite (dec_scalar_app _ t _ _ E3).
  intros H. injection H as <- <-. reflexivity.
Qed.

Lemma probe_one_byte r b : clean_at r [b] true -> exists r', r_read r 1 = ([b], REOF, r').
Proof.
  intros (Hd & Hf & He). unfold r_read. rewrite Hf, Hd, He.
  assert (Hl : len [b] = 1) by reflexivity. rewrite Hl.
  replace (Z.min 1 (1 + r_pos r - r_pos r)) with 1 by lia.
  cbn [Z.leb Z.compare].
  set (chunk := match r_plan r with c :: _ => Z.max 1 c | [] => 1 end).
  assert (Hm : Z.min 1 (Z.min chunk 1) = 1) by (unfold chunk; destruct (r_plan r); lia).
  rewrite Hm. change (Z.to_nat 1) with 1%nat. cbn. eexists. reflexivity.
Qed.

(* for EVERY accepted 576-byte string s: appending one byte and delivering it together
   with io.EOF makes the pinned Read accept (with the same proof) what the specification
   rejects as trailing data; the repaired Read rejects it *)
Theorem mp_read_lax_refuted s v b plan :
  mp_decode s = inl v ->
  let r := mkR (s ++ [b]) plan true None 0 in
  mp_read false r = inl v /\ mp_decode (s ++ [b]) = inr SErrTrailing /\ mp_read true r = inr SErrTrailing.
Proof.
  intros Hs r.
  assert (Hspec : mp_decode (s ++ [b]) = inr SErrTrailing /\
                  exists D ip, v = (D, ip) /\ dec_points 1 (s ++ [b]) = inl ([D], skipn 32 s ++ [b])
                               /\ ipa_decode (skipn 32 s ++ [b]) = inl (ip, [b])).
  { revert Hs. unfold mp_decode.
    destruct (dec_points 1 s) as [[Ds s1]|e] eqn:E1; [|discriminate].
    destruct (ipa_decode s1) as [[ip rest]|e] eqn:E2; [|discriminate].
    destruct rest as [|x rest]; [|discriminate]. intros H. injection H as <-.
    rewrite (dec_points_app _ _ [b] _ _ E1), (ipa_decode_app _ [b] _ _ E2). cbn [app].
    split; [reflexivity|].
    assert (Hs1 : s1 = skipn 32 s /\ exists D, Ds = [D]).
    { revert E1. cbn [dec_points]. destruct (len s <? 32); [discriminate|].
      destruct (bw_set_bytes (firstn 32 s) false) as [p|e]; [|discriminate].
      intros H. split; [congruence|]. exists p. congruence. }
    destruct Hs1 as (-> & D & ->). exists D, ip. cbn [hd]. split; [reflexivity|split].
    - reflexivity.
    - exact (ipa_decode_app _ [b] _ _ E2). }
  destruct Hspec as (Hrej & D & ip & -> & HD & HI).
  split; [|split; [exact Hrej|]].
  2:{ rewrite mp_read_spec by reflexivity. exact Hrej. }
  assert (Hc : clean_at r (s ++ [b]) true) by (unfold clean_at, r; auto).
  unfold mp_read.
  pose proof (read_points_spec 1 r (s ++ [b]) true Hc) as H1. rewrite HD in H1.
  destruct H1 as (r1 & Heq1 & Hc1). cbn [read_points] in Heq1.
  destruct (read_point r) as [[D' r1']|e]; [|discriminate].
  assert (D' = D /\ r1' = r1) as (-> & ->) by (split; congruence).
  pose proof (ipa_read_spec r1 _ true Hc1) as H2. rewrite HI in H2.
  destruct H2 as (r2 & -> & Hc2).
  destruct (probe_one_byte r2 b Hc2) as (r3 & ->). reflexivity.
Qed.

(* ---- Write(decode s) = s for accepted s ---- *)
(* premise on the point codec (proved in Proofs/DecodeProofs.v under its own
   side conditions): an accepted 32-byte string re-encodes to itself *)
Definition point_reencodes : Prop :=
  forall b P, bytes_ok b -> bw_set_bytes b false = inl P -> bw_bytes P = b.


Lemma scalar_reencodes b a : bytes_ok b -> length b = 32%nat ->
  fst (fr_set_bytes_le_canonical b) = Some a -> fr_bytes_le a = b.
Proof.
  intros Hok Hl. unfold fr_set_bytes_le_canonical.
  destruct (le_val b <? r_mod) eqn:E; cbn [fst]; [|discriminate].
  intros H. injection H as <-. unfold fr_bytes_le. rewrite fr_set_big_int_val.
  pose proof (le_val_nonneg b Hok). rewrite Z.mod_small by lia.
  rewrite <- Hl. apply le_enc_val, Hok.
Qed.

Lemma dec_points_reencode (HR : point_reencodes) k : forall s ps rest,
  bytes_ok s -> dec_points k s = inl (ps, rest) -> s = concat (map bw_bytes ps) ++ rest.
Proof.
  induction k as [|k IH]; intros s ps rest Hok; cbn [dec_points].
  - intros H. injection H as <- <-. reflexivity.
  - destruct (len s <? 32) eqn:E; [discriminate|].
    destruct (bw_set_bytes (firstn 32 s) false) as [p|e] eqn:Ep; [|discriminate].
    destruct (dec_points k (skipn 32 s)) as [[ps' rest']|e] eqn:Ed; [|discriminate].
    intros H. injection H as <- <-. cbn [map concat]. rewrite <- app_assoc.
    rewrite <- (IH _ _ _ (bytes_ok_skipn 32 s Hok) Ed).
    rewrite (HR _ _ (bytes_ok_firstn 32 s Hok) Ep). symmetry. apply firstn_skipn.
Qed.

Theorem mp_decode_write (HR : point_reencodes) s D ip :
  bytes_ok s -> mp_decode s = inl (D, ip) -> concat (mp_write_chunks D ip) = s.
Proof.
  intros Hok. unfold mp_decode, ipa_decode, dec_scalar.
  destruct (dec_points 1 s) as [[Ds s1]|e] eqn:E1; [|discriminate].
  destruct (dec_points 8 s1) as [[L s2]|e] eqn:E2; [|discriminate].
  destruct (dec_points 8 s2) as [[R s3]|e] eqn:E3; [|discriminate].
  destruct (len s3 <? 32) eqn:E4; [discriminate|].
  destruct (fst (fr_set_bytes_le_canonical (firstn 32 s3))) as [a|] eqn:E5; [|discriminate].
  destruct (skipn 32 s3) as [|x rest] eqn:E6; [|discriminate].
  intros H. injection H as <- <-.
  pose proof (dec_points_reencode HR 1 s Ds s1 Hok E1) as H1.
  assert (Hok1 : bytes_ok s1).
  { revert E1. cbn [dec_points]. destruct (len s <? 32); [discriminate|].
    destruct (bw_set_bytes (firstn 32 s) false); [|discriminate]. intros H.
    assert (Es : s1 = skipn 32 s) by congruence. rewrite Es. apply bytes_ok_skipn, Hok. }
  pose proof (dec_points_reencode HR 8 s1 L s2 Hok1 E2) as H2.
  assert (Hok2 : bytes_ok s2).
  { rewrite H2 in Hok1. unfold bytes_ok in *. apply Forall_app in Hok1. tauto. }
  pose proof (dec_points_reencode HR 8 s2 R s3 Hok2 E3) as H3.
  assert (Hok3 : bytes_ok s3).
  { rewrite H3 in Hok2. unfold bytes_ok in *. apply Forall_app in Hok2. tauto. }
  assert (Hl3 : length s3 = 32%nat).
  { assert (Hz : length (skipn 32 s3) = 0%nat) by (rewrite E6; reflexivity).
    rewrite skipn_length in Hz. unfold len in E4. lia. }
  assert (Hs3 : firstn 32 s3 = s3) by (rewrite <- Hl3; apply firstn_all).
  rewrite Hs3 in E5. pose proof (scalar_reencodes s3 a Hok3 Hl3 E5) as H4.
  assert (HD : exists D0, Ds = [D0]).
  { revert E1. cbn [dec_points]. destruct (len s <? 32); [discriminate|].
    destruct (bw_set_bytes (firstn 32 s) false) as [p|]; [|discriminate]. intros H. exists p. congruence. }
  destruct HD as (D0 & ->). cbn [hd].
  unfold mp_write_chunks, ipa_write_chunks. cbn [concat ibL ibR ibA]. rewrite !concat_app. cbn [concat].
  rewrite app_nil_r, H4. rewrite H1. cbn [map concat]. rewrite app_nil_r.
  rewrite H2. rewrite H3. rewrite <- ?app_assoc. reflexivity.
Qed.
