From Coq Require Import ZArith List Bool Lia.
From GoIpa Require Import Model.Bytes Model.Alg Model.Transcript Proofs.BytesProofs.
Import ListNotations.
Open Scope Z_scope.

Section T.
  Context {F : Type} (fo : FOps F) (hashf : list Z -> list Z).

  Definition rel (t : tstate) (pend : list Z) : Prop := absorbed t ++ buff t = pend.

  Lemma rel_new label : rel (t_new label) (sp_new label).
  Proof. unfold rel, t_new, sp_new; cbn. apply app_nil_r. Qed.

  (* buffered machine refines the one-string specification, for every op sequence *)
  Lemma run_refines ops : forall t pend, rel t pend ->
    snd (t_run fo hashf t ops) = snd (sp_run fo hashf pend ops)
    /\ rel (fst (t_run fo hashf t ops)) (fst (sp_run fo hashf pend ops)).
  Proof.
    induction ops as [|o ops IH]; intros t pend Hr; cbn [t_run sp_run].
    - cbn. auto.
    - destruct o as [l|m l|s l|p l|l].
      + apply IH. unfold rel, t_domain_sep in *; cbn. rewrite app_assoc, Hr. reflexivity.
      + apply IH. unfold rel, t_append_message, sp_append in *; cbn.
        rewrite <- Hr. now rewrite <- !app_assoc.
      + apply IH. unfold rel, t_append_scalar, t_append_message, sp_append, scalar_bytes in *; cbn.
        rewrite <- Hr. now rewrite <- !app_assoc.
      + apply IH. unfold rel, t_append_point, t_append_message, sp_append in *; cbn.
        rewrite <- Hr. now rewrite <- !app_assoc.
      + unfold t_challenge, sp_challenge. cbn [t_domain_sep absorbed buff].
        assert (Hin : absorbed t ++ buff t ++ l = pend ++ l).
        { rewrite app_assoc. now rewrite Hr. }
        rewrite Hin.
        set (c := fofz fo (le_val (hashf (pend ++ l)))).
        specialize (IH (t_append_scalar fo (mkT [] []) c l) (l ++ le_enc 32 (f2z fo c))).
        destruct (t_run fo hashf (t_append_scalar fo (mkT [] []) c l) ops) as [t'' cs] eqn:E1.
        destruct (sp_run fo hashf (l ++ le_enc 32 (f2z fo c)) ops) as [p'' cs'] eqn:E2.
        cbn [fst snd] in *.
        destruct IH as [IH1 IH2].
        { unfold rel, t_append_scalar, t_append_message, scalar_bytes; cbn. reflexivity. }
        split; [f_equal; exact IH1|exact IH2].
  Qed.

  Theorem transcript_refines_spec label ops :
    snd (t_run fo hashf (t_new label) ops) = snd (sp_run fo hashf (sp_new label) ops).
  Proof. apply run_refines, rel_new. Qed.

  (* ---- what is hashed: the spec machine made explicit ---- *)
  (* bytes appended by one non-challenge op *)
  Definition op_bytes (o : top) : list Z :=
    match o with
    | TDomainSep l => l
    | TMessage m l => l ++ m
    | TScalar s l => l ++ le_enc 32 (f2z fo (fofz fo s))
    | TPoint p l => l ++ p
    | TChallenge _ => []
    end.
  Definition is_challenge (o : top) : bool := match o with TChallenge _ => true | _ => false end.

  Lemma sp_run_no_challenge ops pend :
    forallb (fun o => negb (is_challenge o)) ops = true ->
    sp_run fo hashf pend ops = (pend ++ concat (map op_bytes ops), []).
  Proof.
    revert pend; induction ops as [|o ops IH]; intros pend H; cbn [sp_run map concat].
    - now rewrite app_nil_r.
    - cbn [forallb] in H. apply andb_true_iff in H as [Ho H].
      destruct o; cbn in Ho; try discriminate; cbn [op_bytes]; rewrite IH by exact H;
        unfold sp_append; now rewrite <- ?app_assoc.
  Qed.

  (* the first challenge after a challenge-free prefix hashes exactly
     pending ++ (all labels and messages in order) ++ challenge label *)
  Theorem first_challenge_hash_input pend pre l rest :
    forallb (fun o => negb (is_challenge o)) pre = true ->
    exists cs, snd (sp_run fo hashf pend (pre ++ TChallenge l :: rest))
               = fofz fo (le_val (hashf ((pend ++ concat (map op_bytes pre)) ++ l))) :: cs.
  Proof.
    revert pend; induction pre as [|o pre IH]; intros pend H.
    - cbn [app sp_run map concat]. rewrite app_nil_r. unfold sp_challenge.
      destruct (sp_run fo hashf _ rest) as [p cs]. cbn. eauto.
    - cbn [forallb] in H. apply andb_true_iff in H as [Ho H].
      destruct o; cbn in Ho; try discriminate; cbn [app sp_run map concat op_bytes];
        edestruct (IH) as [cs Hcs]; try exact H; unfold sp_append;
        eexists; rewrite Hcs; now rewrite <- ?app_assoc.
  Qed.
End T.

(* ---- binding: fixed-width concatenation is injective ---- *)

(* two op lists have the same shape: same kinds, same labels, same payload lengths *)
Inductive same_shape : list top -> list top -> Prop :=
| ss_nil : same_shape [] []
| ss_dom l a b : same_shape a b -> same_shape (TDomainSep l :: a) (TDomainSep l :: b)
| ss_msg m1 m2 l a b : length m1 = length m2 -> same_shape a b ->
    same_shape (TMessage m1 l :: a) (TMessage m2 l :: b)
| ss_sc s1 s2 l a b : same_shape a b -> same_shape (TScalar s1 l :: a) (TScalar s2 l :: b)
| ss_pt p1 p2 l a b : length p1 = length p2 -> same_shape a b ->
    same_shape (TPoint p1 l :: a) (TPoint p2 l :: b).

Lemma app_inj_len {A} (a1 a2 b1 b2 : list A) :
  length a1 = length a2 -> a1 ++ b1 = a2 ++ b2 -> a1 = a2 /\ b1 = b2.
Proof.
  revert a2; induction a1 as [|x a1 IH]; intros [|y a2] Hl H; cbn in *; try discriminate.
  - auto.
  - inversion H; subst. destruct (IH a2) as [-> ->]; auto.
Qed.

Section Binding.
  Context {F : Type} (fo : FOps F).

  (* payloads as absorbed *)
  Definition payload (o : top) : list Z :=
    match o with
    | TMessage m _ => m
    | TScalar s _ => le_enc 32 (f2z fo (fofz fo s))
    | TPoint p _ => p
    | _ => []
    end.

  Theorem hash_input_binding a b :
    same_shape a b ->
    (concat (map (op_bytes fo) a) = concat (map (op_bytes fo) b) <-> map payload a = map payload b).
  Proof.
    induction 1 as [|l a b H IH|m1 m2 l a b Hl H IH|s1 s2 l a b H IH|p1 p2 l a b Hl H IH];
      cbn [map concat op_bytes payload].
    - tauto.
    - split; intros E.
      + apply app_inv_head in E. f_equal. now apply IH.
      + inversion E. f_equal. now apply IH.
    - split; intros E.
      + rewrite <- !app_assoc in E. apply app_inv_head in E.
        apply app_inj_len in E as [-> E]; [|exact Hl]. f_equal. now apply IH.
      + inversion E as [[E1 E2]]. f_equal. now apply IH.
    - split; intros E.
      + rewrite <- !app_assoc in E. apply app_inv_head in E.
        apply app_inj_len in E as [E1 E]; [|now rewrite !le_enc_length].
        f_equal; [exact E1|now apply IH].
      + assert (E1 := f_equal (hd []) E). assert (E2 := f_equal (@tl _) E).
        cbn [hd tl] in E1, E2. rewrite E1. f_equal. now apply IH.
    - split; intros E.
      + rewrite <- !app_assoc in E. apply app_inv_head in E.
        apply app_inj_len in E as [-> E]; [|exact Hl]. f_equal. now apply IH.
      + inversion E as [[E1 E2]]. f_equal. now apply IH.
  Qed.

  (* full hash input of the first challenge is injective in the protocol label
     (equal length), in the absorbed bytes, and in the challenge label *)
  Theorem hash_input_components (pl1 pl2 body1 body2 cl1 cl2 : list Z) :
    length pl1 = length pl2 -> length body1 = length body2 ->
    (pl1 ++ body1) ++ cl1 = (pl2 ++ body2) ++ cl2 -> pl1 = pl2 /\ body1 = body2 /\ cl1 = cl2.
  Proof.
    intros H1 H2 E. rewrite <- !app_assoc in E.
    apply app_inj_len in E as [-> E]; [|exact H1].
    apply app_inj_len in E as [-> ->]; auto.
  Qed.

  (* order: swapping two different equal-length messages under one label changes the bytes *)
  Theorem hash_input_order m1 m2 l rest :
    length m1 = length m2 -> m1 <> m2 ->
    concat (map (op_bytes fo) (TMessage m1 l :: TMessage m2 l :: rest))
    <> concat (map (op_bytes fo) (TMessage m2 l :: TMessage m1 l :: rest)).
  Proof.
    intros Hl Hne E. cbn [map concat op_bytes] in E. rewrite <- !app_assoc in E.
    apply app_inv_head in E. apply app_inj_len in E as [E _]; auto.
  Qed.
End Binding.
