From Coq Require Import ZArith List Bool Lia Eqdep_dec Ring.
From GoIpa Require Import Model.Zq.
Open Scope Z_scope.

Lemma zq_eq {q} (a b : Zq q) : zval a = zval b -> a = b.
Proof.
  destruct a as [va pa], b as [vb pb]; cbn. intros <-. f_equal.
  apply UIP_dec, bool_dec.
Qed.

Lemma zval_of_Z q x : zval (zq_of_Z q x) = x mod q.
Proof. reflexivity. Qed.

Lemma zval_canon {q} (a : Zq q) : zval a mod q = zval a.
Proof. destruct a as [v p]; cbn. now apply Z.eqb_eq. Qed.

Lemma zval_range {q} (a : Zq q) : 0 < q -> 0 <= zval a < q.
Proof. intros Hq. rewrite <- zval_canon. apply Z.mod_pos_bound, Hq. Qed.

Lemma zq_of_Z_val {q} (a : Zq q) : zq_of_Z q (zval a) = a.
Proof. apply zq_eq. rewrite zval_of_Z. apply zval_canon. Qed.

Lemma zq_eqb_eq {q} (a b : Zq q) : zq_eqb a b = true <-> a = b.
Proof.
  unfold zq_eqb. rewrite Z.eqb_eq. split; [apply zq_eq|intros ->; reflexivity].
Qed.

Section Ring.
  Variable q : Z.
  Hypothesis q_gt1 : 1 < q.
  Local Notation Q := (Zq q).

  Ltac zq_simpl := intros; apply zq_eq; unfold zq_add, zq_sub, zq_mul, zq_neg, zq_zero, zq_one;
                   rewrite ?zval_of_Z.

  Lemma zq_add_0_l (x : Q) : zq_add zq_zero x = x.
  Proof. zq_simpl. rewrite Z.mod_0_l by lia. cbn. apply zval_canon. Qed.
  Lemma zq_add_comm (x y : Q) : zq_add x y = zq_add y x.
  Proof. zq_simpl. f_equal; lia. Qed.
  Lemma zq_add_assoc (x y z : Q) : zq_add x (zq_add y z) = zq_add (zq_add x y) z.
  Proof. zq_simpl. rewrite Zplus_mod_idemp_r, Zplus_mod_idemp_l. f_equal; lia. Qed.
  Lemma zq_mul_1_l (x : Q) : zq_mul zq_one x = x.
  Proof. zq_simpl. rewrite (Z.mod_small 1) by lia. rewrite Z.mul_1_l. apply zval_canon. Qed.
  Lemma zq_mul_comm (x y : Q) : zq_mul x y = zq_mul y x.
  Proof. zq_simpl. f_equal; lia. Qed.
  Lemma zq_mul_assoc (x y z : Q) : zq_mul x (zq_mul y z) = zq_mul (zq_mul x y) z.
  Proof. zq_simpl. rewrite Zmult_mod_idemp_r, Zmult_mod_idemp_l. f_equal; lia. Qed.
  Lemma zq_distr_l (x y z : Q) : zq_mul (zq_add x y) z = zq_add (zq_mul x z) (zq_mul y z).
  Proof.
    zq_simpl. rewrite Zmult_mod_idemp_l, <- Zplus_mod. f_equal; lia.
  Qed.
  Lemma zq_sub_def (x y : Q) : zq_sub x y = zq_add x (zq_neg y).
  Proof. zq_simpl. rewrite Zplus_mod_idemp_r. f_equal; lia. Qed.
  Lemma zq_opp_def (x : Q) : zq_add x (zq_neg x) = zq_zero.
  Proof. zq_simpl. rewrite Zplus_mod_idemp_r. f_equal; lia. Qed.

  Lemma zq_ring_theory :
    ring_theory (zq_zero : Q) zq_one zq_add zq_mul zq_sub zq_neg eq.
  Proof.
    constructor.
    - exact zq_add_0_l. - exact zq_add_comm. - exact zq_add_assoc.
    - exact zq_mul_1_l. - exact zq_mul_comm. - exact zq_mul_assoc.
    - exact zq_distr_l. - exact zq_sub_def. - exact zq_opp_def.
  Qed.
End Ring.

Lemma r_mod_gt1 : 1 < r_mod. Proof. reflexivity. Qed.
Lemma p_mod_gt1 : 1 < p_mod. Proof. reflexivity. Qed.
Lemma r_mod_lt_2_253 : r_mod < 2 ^ 253. Proof. reflexivity. Qed.
Lemma p_mod_lt_2_255 : p_mod < 2 ^ 255. Proof. reflexivity. Qed.
Lemma r_mod_lt_p_mod : r_mod < p_mod. Proof. reflexivity. Qed.
