(* C07: Equal <-> equal Bytes for valid elements, under the number-theoretic premises
   "p is prime" and "d is not an inverse square" (d non-square).  Both are explicit
   premises of the theorem, never axioms. *)
From Coq Require Import ZArith List Bool Lia Znumtheory.
From GoIpa Require Import Model.Bytes Model.Zq Model.Alg Model.Edwards Model.FpSqrt Model.Banderwagon
  Proofs.AlgLaws Proofs.EdwardsProofs Proofs.GroupProofs Proofs.ZqProofs Proofs.ZqField
  Proofs.BytesProofs Proofs.CodecProofs Proofs.BwProofs.
Import ListNotations.
Open Scope Z_scope.

Add Ring FpRingC : (zq_ring_theory p_mod p_mod_gt1).

Section Canon.
  Hypothesis p_prime : prime p_mod.
  (* d is not the inverse of a square, i.e. d is a non-square *)
  Hypothesis d_nonsquare : forall w : Fp, zq_mul bw_d (zq_mul w w) <> zq_one.

  Lemma fp_zero_iff (a : Fp) : a = zq_zero <-> zval a = 0.
  Proof. split; [intros ->; reflexivity|intros H; apply zq_eq; rewrite H; reflexivity]. Qed.

  (* Fp has no zero divisors *)
  Lemma fp_integral (a b : Fp) : zq_mul a b = zq_zero -> a = zq_zero \/ b = zq_zero.
  Proof.
    intros H. apply (f_equal zval) in H. unfold zq_mul in H. rewrite zval_of_Z in H.
    change (zval (zq_zero : Fp)) with 0 in H.
    assert (Hd : (p_mod | zval a * zval b)) by (apply Z.mod_divide; [unfold p_mod; lia|exact H]).
    destruct (prime_mult p_mod p_prime _ _ Hd) as [Ha|Hb]; [left|right]; apply fp_zero_iff.
    - pose proof (fp_val_range a). apply Z.mod_divide in Ha; [|unfold p_mod; lia]. rewrite Z.mod_small in Ha; lia.
    - pose proof (fp_val_range b). apply Z.mod_divide in Hb; [|unfold p_mod; lia]. rewrite Z.mod_small in Hb; lia.
  Qed.

  Lemma sq_eq (u v : Fp) : zq_mul u u = zq_mul v v -> u = v \/ u = zq_neg v.
  Proof.
    intros H. assert (E : zq_mul (zq_sub u v) (zq_add u v) = zq_zero).
    { unfold Fp in *. transitivity (zq_sub (zq_mul u u) (zq_mul v v)); [ring|]. rewrite H. ring. }
    destruct (fp_integral _ _ E) as [A|A]; [left|right]; unfold Fp in *.
    - transitivity (zq_add (zq_sub u v) v); [ring|]. rewrite A. ring.
    - transitivity (zq_sub (zq_add u v) v); [ring|]. rewrite A. ring.
  Qed.

  Definition on_curve_p (p : Fp * Fp) : Prop :=
    let '(x, y) := p in
    zq_add (zq_mul bw_a (zq_mul x x)) (zq_mul y y) = zq_add zq_one (zq_mul (zq_mul bw_d (zq_mul x x)) (zq_mul y y)).

  (* two curve points with the same x^2 have y2 = +- y1 *)
  Lemma same_x2 (x1 y1 x2 y2 : Fp) :
    on_curve_p (x1, y1) -> on_curve_p (x2, y2) -> zq_mul x2 x2 = zq_mul x1 x1 ->
    y2 = y1 \/ y2 = zq_neg y1.
  Proof.
    unfold on_curve_p. intros C1 C2 Hx. rewrite Hx in C2. apply sq_eq.
    (* (y2^2 - y1^2)(1 - d x1^2) = 0 *)
    assert (E : zq_mul (zq_sub (zq_mul y2 y2) (zq_mul y1 y1)) (zq_sub zq_one (zq_mul bw_d (zq_mul x1 x1))) = zq_zero).
    { unfold Fp in *.
      transitivity (zq_sub (zq_sub (zq_add (zq_mul bw_a (zq_mul x1 x1)) (zq_mul y2 y2)) (zq_mul (zq_mul bw_d (zq_mul x1 x1)) (zq_mul y2 y2)))
                           (zq_sub (zq_add (zq_mul bw_a (zq_mul x1 x1)) (zq_mul y1 y1)) (zq_mul (zq_mul bw_d (zq_mul x1 x1)) (zq_mul y1 y1)))); [ring|].
      rewrite C1, C2. ring. }
    destruct (fp_integral _ _ E) as [A|A]; unfold Fp in *.
    - transitivity (zq_add (zq_sub (zq_mul y2 y2) (zq_mul y1 y1)) (zq_mul y1 y1)); [ring|]. rewrite A. ring.
    - exfalso. apply (d_nonsquare x1). unfold Fp in *.
      transitivity (zq_sub zq_one (zq_sub zq_one (zq_mul bw_d (zq_mul x1 x1)))); [ring|]. rewrite A. ring.
  Qed.

  Definition cx (p : Fp * Fp) : Fp := if zq_lex_largest (snd p) then fst p else zq_neg (fst p).

  Lemma neg_neg (u : Fp) : zq_neg (zq_neg u) = u.
  Proof. unfold Fp in *. ring. Qed.
  Lemma neg_sq (u : Fp) : zq_mul (zq_neg u) (zq_neg u) = zq_mul u u.
  Proof. unfold Fp in *. ring. Qed.

  (* equal canonical x => same class *)
  Theorem class_of_cx (p1 p2 : Fp * Fp) :
    on_curve_p p1 -> on_curve_p p2 -> zval (snd p1) <> 0 -> cx p1 = cx p2 -> class_eq fpo p1 p2.
  Proof.
    destruct p1 as [x1 y1], p2 as [x2 y2]. intros C1 C2 Hy1 Hc. unfold cx in Hc; cbn [fst snd] in *.
    assert (Hpm : x2 = x1 \/ x2 = zq_neg x1).
    { destruct (zq_lex_largest y1), (zq_lex_largest y2).
      - left. symmetry. exact Hc.
      - right. rewrite Hc. symmetry. apply neg_neg.
      - right. symmetry. exact Hc.
      - left. rewrite <- (neg_neg x2), <- Hc. apply neg_neg. }
    assert (Hx2 : zq_mul x2 x2 = zq_mul x1 x1) by (destruct Hpm as [->| ->]; rewrite ?neg_sq; reflexivity).
    destruct (same_x2 x1 y1 x2 y2 C1 C2 Hx2) as [->| ->].
    - (* same y: same branch *)
      left. f_equal. destruct (zq_lex_largest y1); [symmetry; exact Hc|].
      rewrite <- (neg_neg x2), <- Hc. apply neg_neg.
    - right. unfold flip; cbn [fst snd]. change (fneg fpo x1) with (zq_neg x1). change (fneg fpo y1) with (zq_neg y1).
      f_equal. rewrite (lex_largest_neg y1 Hy1) in Hc.
      destruct (zq_lex_largest y1); cbn [negb] in Hc.
      + rewrite Hc. symmetry. apply neg_neg.
      + symmetry. exact Hc.
  Qed.

  (* Equal (cross product) between curve points with invertible y => same class *)
  Theorem class_of_cross (x1 y1 x2 y2 : Fp) :
    on_curve_p (x1, y1) -> on_curve_p (x2, y2) ->
    invertible fpo y1 -> invertible fpo y2 ->
    zq_mul x1 y2 = zq_mul y1 x2 -> class_eq fpo (x1, y1) (x2, y2).
  Proof.
    intros C1 C2 [i1 I1] [i2 I2] Hcr. cbn [fmul f1 fpo] in I1, I2.
    (* lambda = x1/y1 = x2/y2 *)
    set (lam := zq_mul x1 i1).
    assert (Hx1 : x1 = zq_mul lam y1).
    { unfold lam, Fp in *. transitivity (zq_mul x1 (zq_mul y1 i1)); [rewrite I1; ring|ring]. }
    assert (Hx2 : x2 = zq_mul lam y2).
    { unfold lam, Fp in *. transitivity (zq_mul (zq_mul y1 x2) (zq_mul i1 (zq_mul y2 i2))).
      - transitivity (zq_mul x2 (zq_mul (zq_mul y1 i1) (zq_mul y2 i2))); [rewrite I1, I2; ring|ring].
      - rewrite <- Hcr. transitivity (zq_mul (zq_mul x1 i1) (zq_mul y2 (zq_mul y2 i2))); [ring|]. rewrite I2. ring. }
    set (Y1 := zq_mul y1 y1). set (Y2 := zq_mul y2 y2). set (L := zq_mul lam lam).
    (* quadratic: d L Y^2 - (a L + 1) Y + 1 = 0 for Y1, Y2 *)
    assert (Q1 : zq_add (zq_sub (zq_mul (zq_mul bw_d L) (zq_mul Y1 Y1)) (zq_mul (zq_add (zq_mul bw_a L) zq_one) Y1)) zq_one = zq_zero).
    { unfold on_curve_p in C1. rewrite Hx1 in C1. unfold Y1, L, Fp in *.
      transitivity (zq_sub (zq_add zq_one (zq_mul (zq_mul bw_d (zq_mul (zq_mul lam y1) (zq_mul lam y1))) (zq_mul y1 y1)))
                           (zq_add (zq_mul bw_a (zq_mul (zq_mul lam y1) (zq_mul lam y1))) (zq_mul y1 y1))); [ring|].
      rewrite C1. ring. }
    assert (Q2 : zq_add (zq_sub (zq_mul (zq_mul bw_d L) (zq_mul Y2 Y2)) (zq_mul (zq_add (zq_mul bw_a L) zq_one) Y2)) zq_one = zq_zero).
    { unfold on_curve_p in C2. rewrite Hx2 in C2. unfold Y2, L, Fp in *.
      transitivity (zq_sub (zq_add zq_one (zq_mul (zq_mul bw_d (zq_mul (zq_mul lam y2) (zq_mul lam y2))) (zq_mul y2 y2)))
                           (zq_add (zq_mul bw_a (zq_mul (zq_mul lam y2) (zq_mul lam y2))) (zq_mul y2 y2))); [ring|].
      rewrite C2. ring. }
    assert (HY : Y2 = Y1).
    { assert (E : zq_mul (zq_sub Y1 Y2) (zq_sub (zq_mul (zq_mul bw_d L) (zq_add Y1 Y2)) (zq_add (zq_mul bw_a L) zq_one)) = zq_zero).
      { unfold Fp in *.
        transitivity (zq_sub (zq_add (zq_sub (zq_mul (zq_mul bw_d L) (zq_mul Y1 Y1)) (zq_mul (zq_add (zq_mul bw_a L) zq_one) Y1)) zq_one)
                             (zq_add (zq_sub (zq_mul (zq_mul bw_d L) (zq_mul Y2 Y2)) (zq_mul (zq_add (zq_mul bw_a L) zq_one) Y2)) zq_one)); [ring|].
        rewrite Q1, Q2. ring. }
      destruct (fp_integral _ _ E) as [A|A]; unfold Fp in *.
      - transitivity (zq_sub Y1 (zq_sub Y1 Y2)); [ring|]. rewrite A. ring.
      - exfalso. apply (d_nonsquare (zq_mul lam (zq_mul y1 y2))). unfold Fp in *.
        (* from A: d L (Y1+Y2) = a L + 1; with Q1: d L Y1 Y2 = 1 *)
        transitivity (zq_sub (zq_add (zq_mul (zq_sub (zq_mul (zq_mul bw_d L) (zq_add Y1 Y2)) (zq_add (zq_mul bw_a L) zq_one)) Y1) zq_one)
                             (zq_add (zq_sub (zq_mul (zq_mul bw_d L) (zq_mul Y1 Y1)) (zq_mul (zq_add (zq_mul bw_a L) zq_one) Y1)) zq_one));
          [unfold L, Y1, Y2; ring|]. rewrite A, Q1. ring. }
    unfold Y1, Y2 in HY. destruct (sq_eq y2 y1 HY) as [->| ->].
    - left. rewrite Hx1, Hx2. reflexivity.
    - right. unfold flip; cbn [fst snd]. change (fneg fpo ?u) with (zq_neg u). rewrite Hx2, Hx1. f_equal.
      unfold Fp in *. ring.
  Qed.

  (* MAIN: for valid elements (representations of curve points with y <> 0)
     Equal holds exactly when the compressed encodings are equal *)
  Theorem equal_iff_bytes P Q p q :
    rep fpo P p -> rep fpo Q q -> on_curve_p p -> on_curve_p q ->
    zval (snd p) <> 0 -> zval (snd q) <> 0 -> nonzero_xy P -> nonzero_xy Q ->
    (bw_equal P Q = true <-> bw_bytes P = bw_bytes Q).
  Proof.
    intros HP HQ Cp Cq Hyp Hyq NP NQ.
    assert (Ip : invertible fpo (snd p)).
    { destruct p as [x y]; cbn [snd] in *.
      assert (Hg : Z.gcd (zval y) p_mod = 1).
      { apply Zgcd_1_rel_prime, rel_prime_sym, prime_rel_prime; [exact p_prime|].
        intros Hd. pose proof (fp_val_range y). apply Z.mod_divide in Hd; [|unfold p_mod; lia]. rewrite Z.mod_small in Hd; lia. }
      destruct (rel_prime_bezout _ _ (proj1 (Zgcd_1_rel_prime _ _) Hg)) as [u v Huv].
      exists (fp u). cbn [fmul f1 fpo]. apply zq_eq. unfold zq_mul, fp, zq_one. rewrite !zval_of_Z.
      rewrite Z.mul_mod_idemp_r by (unfold p_mod; lia).
      replace (zval y * u) with (1 + (- v) * p_mod) by lia. rewrite Z_mod_plus_full. reflexivity. }
    assert (Iq : invertible fpo (snd q)).
    { destruct q as [x y]; cbn [snd] in *.
      assert (Hg : Z.gcd (zval y) p_mod = 1).
      { apply Zgcd_1_rel_prime, rel_prime_sym, prime_rel_prime; [exact p_prime|].
        intros Hd. pose proof (fp_val_range y). apply Z.mod_divide in Hd; [|unfold p_mod; lia]. rewrite Z.mod_small in Hd; lia. }
      destruct (rel_prime_bezout _ _ (proj1 (Zgcd_1_rel_prime _ _) Hg)) as [u v Huv].
      exists (fp u). cbn [fmul f1 fpo]. apply zq_eq. unfold zq_mul, fp, zq_one. rewrite !zval_of_Z.
      rewrite Z.mul_mod_idemp_r by (unfold p_mod; lia).
      replace (zval y * u) with (1 + (- v) * p_mod) by lia. rewrite Z_mod_plus_full. reflexivity. }
    rewrite (bw_bytes_rep P p HP), (bw_bytes_rep Q q HQ). split.
    - (* Equal -> same class -> same bytes *)
      intros He. apply (bw_equal_spec P Q NP NQ) in He.
      assert (Hcl : class_eq fpo p q).
      { destruct P as [[X1 Y1] Z1], Q as [[X2 Y2] Z2], p as [x1 y1], q as [x2 y2].
        destruct HP as (HZ1 & -> & ->), HQ as (HZ2 & -> & ->). unfold cross_eq in He. cbn [fst snd] in *.
        apply class_of_cross; try assumption.
        destruct HZ1 as [w1 W1], HZ2 as [w2 W2]. cbn [fmul f1 fpo] in *. unfold Fp in *.
        transitivity (zq_mul (zq_mul (zq_mul x1 Z1) (zq_mul y2 Z2)) (zq_mul w1 w2)).
        - transitivity (zq_mul (zq_mul x1 y2) (zq_mul (zq_mul Z1 w1) (zq_mul Z2 w2))); [rewrite W1, W2; ring|ring].
        - rewrite He. transitivity (zq_mul (zq_mul y1 x2) (zq_mul (zq_mul Z1 w1) (zq_mul Z2 w2))); [ring|rewrite W1, W2; ring]. }
      destruct Hcl as [->| ->]; [reflexivity|symmetry; apply aff_bytes_flip, Hyp].
    - (* same bytes -> same canonical x -> same class -> Equal *)
      intros Hb. unfold aff_bytes in Hb. apply fp_bytes_inj in Hb.
      apply (bw_equal_of_class P Q p q HP HQ); try assumption.
      apply class_of_cx; assumption.
  Qed.
End Canon.
